From FP Require Import Lexer Parser ShowPT Digest Formatter.
From Coq Require Import String List NArith.
Import ListNotations.
Open Scope string_scope.
Set Printing Width 100000000.
Set Printing Depth 100000000.
Definition show_fres (r : fres) : string :=
  match r with
  | FOk s => "OK:" ++ sh_escaped s ""
  | FErr s => "ERR:" ++ sh_escaped s ""
  | FPanic p => "PANIC:" ++ p
  end.
Definition check (rs : list rune) : string := digest (show_fres (format_res rs)).
Definition full (rs : list rune) : string := show_fres (format_res rs).
Eval vm_compute in ("<<<M1276>>>" ++ check (runes_of_ascii "
packet f32a{ @calculatedFrom(""packet""  )@tag( 00 ) @leftPad
    // a // b
    ('0')rootA, @tag( 65535
    )string roots @lengthOf(	MetaDataX  )
    `" ++ [233]%N ++ runes_of_ascii "`,@rightPad (  )
    zchar[
    10 ]matchKey // @lengthOf(
@lengthOf( float )// packet A { u8 x, }
,
@rightPad
    ( )roots MetaDataX
, u128 , // c
match
// `tick` ""quote"" 'q'
// " ++ [128512]%N ++ runes_of_ascii " emoji
len as	BodyLength {	""" ++ [128512]%N ++ runes_of_ascii """ :
    float,[ 4294967296 ,// a // b
00,
    0123456789
, ""`tick`"" ,""it's"", ""\n"", 65535 , 7 ] ://	t
calculatedFrom ,
[ ""packet""  , 007//
, ""\" ++ [233]%N ++ runes_of_ascii """
]
: _x	[
""" ++ [128512]%N ++ runes_of_ascii """ ,""a\""b""//	t
, 0123456789 ] // c
: // @lengthOf(
_x ,65535 : As 255 : stringy	,
}	, calculatedFrom// @lengthOf(
{ char[]
    matchKey
    @calculatedFrom( """ ++ [128512]%N ++ runes_of_ascii """ // c
) , u32
    u8x @lengthOf( i8i8
    ), f32a // c
options1
    `line1
line2`
, float64	rootA // " ++ [27880; 37322]%N ++ runes_of_ascii "
,
//	t
//	t
}, @tag( 0 ) @lengthOf( Z9_
) T Foo `" ++ [233]%N ++ runes_of_ascii "` ,match T	as
Packet { 3 : u8x
    , 4294967296 //x
: matchKey,
    """ ++ [233]%N ++ runes_of_ascii "t" ++ [233]%N ++ runes_of_ascii """
: Foo// @lengthOf(
, ""a\""b"":
repeatCount
    , 7 : stringy  , }// trailing space 
, @leftPad( //
'\x00'	)repeat
    pack ,  } packet x { @lengthOf(// packet A { u8 x, }
falsey )repeat int32 a1 // " ++ [27880; 37322]%N ++ runes_of_ascii "
,
    @leftPad(
    ) repeat f32a,  match	Foo as// packet A { u8 x, }
calculatedFrom
    {""x y"" : calculatedFrom 7 : len , ""abc""
    :  charz
,
}  , uint8x
,
@lengthOf(	o ) // " ++ [27880; 37322]%N ++ runes_of_ascii "
repeat
string_  {zchar[ 7] Packet
@calculatedFrom( // trailing space 
""x y"") ,repeat
    string charz , float64 _x @calculatedFrom( ""1""
    ),}
    // `tick` ""quote"" 'q'
    , crc,char[ 65535 ] metadata @calculatedFrom( ""\n"" ) `" ++ [28040; 24687; 31867; 22411]%N ++ runes_of_ascii "` ,
repeat uint64 msg_type
//x
//x
`{ , }` ,char[
1] charz
    ,@rightPad ( '\x00')
    repeat i32 o // `tick` ""quote"" 'q'
`crlf
line`, }
MetaData i8i8
{rootA packetx `doc` ,  x As , }//
root packet u128
// @lengthOf(
// @lengthOf(
{ } packet falsey { u @lengthOf( i8i8
),@lengthOf(
u )f32
    //	t
    Header , @calculatedFrom( ""`tick`""  )
stringy
@calculatedFrom( """ ++ [233]%N ++ runes_of_ascii "t" ++ [233]%N ++ runes_of_ascii """
    ) `two words` , char[ 65535 ]string_ @lengthOf(lengthOf
    ), Pad u128 , Packet
    `
`
,// `tick` ""quote"" 'q'
@calculatedFrom( ""abc""// trailing space 
) char[
00
]
roots`line1
line2`
, @tag(// trailing space 
7 )char[]trueish @calculatedFrom( ""\n"")
    , @calculatedFrom( ""packet""
    ) @lengthOf( As ) char[ 3 ] // a // b
charz @lengthOf(options1 ) , u32 _x @calculatedFrom( ""a\\"" )`u8 x,` ,}
")).
Eval vm_compute in ("<<<M3637>>>" ++ check (runes_of_ascii "// top
options // c0
{ LittleEndian // c2a
  // c2b
= false // c4
;
    // c5
StringPrefixLenType // c6a
  // c6b
= u8 // c8a
  // c8b
; // c9
ArrayPrefixLenType
    // c10
= // c11
u8 ; // c13a
  // c13b
FixedStringPadFromLeft // c14
= true
    // c16
;
    // c17
FixedStringPadChar
    // c18
= // c19
' ' ;
    // c21
} // c22a
  // c22b
packet // c23a
  // c23b
Trade { zchar[ 2 // c27a
  // c27b
] Side2 , // c30a
  // c30b
i8
    // c31
seqNo , } // c34a
  // c34b
packet
    // c35
Party { // c37a
  // c37b
uint32
    // c38
price
    // c39
,
    // c40
}
    // c41
packet // c42
Ack // c43
{ @rightPad
    // c45
( '\x00' // c47a
  // c47b
) char[
    // c49
6 // c50
] // c51
x , // c53a
  // c53b
repeat
    // c54
char[ // c55
4 ]
    // c57
Flags // c58
, // c59
zchar[
    // c60
9 // c61a
  // c61b
]
    // c62
f1 , // c64a
  // c64b
} // c65a
  // c65b
packet
    // c66
Cancel
    // c67
{ // c68a
  // c68b
Ack , // c70a
  // c70b
} // c71a
  // c71b
packet // c72a
  // c72b
Heartbeat // c73a
  // c73b
{ // c74
string
    // c75
Px , string // c78a
  // c78b
Acct // c79a
  // c79b
, // c80
f64
    // c81
Side2 // c82a
  // c82b
, // c83a
  // c83b
InQty24 // c84a
  // c84b
{ i16 // c86a
  // c86b
seqNo , repeat i32
    // c90
Flags
    // c91
, } , } // c95a
  // c95b
root packet Logon {
    // c99
Trade
    // c100
,
    // c101
i64 // c102
venue // c103
, // c104a
  // c104b
u32 // c105
x
    // c106
,
    // c107
u8 // c108a
  // c108b
seqNo // c109a
  // c109b
,
    // c110
match seqNo
    // c112
as // c113a
  // c113b
Body
    // c114
{ // c115a
  // c115b
[ 1 // c117a
  // c117b
, // c118a
  // c118b
164 // c119a
  // c119b
] :
    // c121
Ack // c122a
  // c122b
,
    // c123
31 :
    // c125
Cancel // c126a
  // c126b
,
    // c127
23
    // c128
: // c129a
  // c129b
Heartbeat ,
    // c131
64 : // c133a
  // c133b
Party , // c135
} ,
    // c137
} // c138
")).
Eval vm_compute in ("<<<M320>>>" ++ check (runes_of_ascii "options { lengthOf =
""CRC32"" ; stringy = uint16;  u8x =float32 ; x_y_z
    // c
    =  zchar[ 007]
repeatCount  = ""a\""b"" ;
// c
//	t
}
MetaData trueish { As roots `" ++ [28040; 24687; 31867; 22411]%N ++ runes_of_ascii "`
, char[ 00 ] Packet// c
, } root
packet roots
{ int8 Logon, body@lengthOf( lengthOf
) `
` , @rightPad (	'0' )
    Packet@calculatedFrom(""x y""
)`a\` ,
@lengthOf( T ) match matchKey as _x// trailing space 
{ """ ++ [128512]%N ++ runes_of_ascii """	:
stringy ,
4294967296:  x_y_z ,""\n""
: leftPad[
42 , 42
    , ""it's"" , ""\n"" ,""// no comment""	] : asx ,} , char[
    10// trailing space 
]BodyLength ,
@leftPad (	'0'
) char[]
    /// triple
    Z9_ `crlf
line`, string falsey
    , int16 // c
asx  @calculatedFrom( ""x y"" ) ,u128 Z9_ `it's` ,
    @rightPad
// " ++ [128512]%N ++ runes_of_ascii " emoji
// @lengthOf(
( '0'
)Packet {
    // " ++ [128512]%N ++ runes_of_ascii " emoji
    int64
    float ,
repeat leftPad{
repeat
Z9_ {
    match T
as lengthOf{ ""`tick`"" :msg_type""1"" : x_y_z , 0 : chars , } ,
    } , repeat trueish
    { zchar[
255 ]
crc	`doc` , char Logon @lengthOf( _x
    // " ++ [128512]%N ++ runes_of_ascii " emoji
    )
,
    //
    a1 `doc`,
//x
//	t
} , match msg_type as zchar { ""it's"" // c
:
/// triple
// packet A { u8 x, }
body
, """ ++ [28040; 24687]%N ++ runes_of_ascii """ : // `tick` ""quote"" 'q'
u,} ,} , } ,
}
packet// `tick` ""quote"" 'q'
As// " ++ [27880; 37322]%N ++ runes_of_ascii "
{
@leftPad (
    // c
    '\x00' ) @tag( 255
    )
    @lengthOf( // `tick` ""quote"" 'q'
o
)zchar[ 42 ] string_ @calculatedFrom(
""a\""b""	)`" ++ [28040; 24687; 31867; 22411]%N ++ runes_of_ascii "`
, char[] repeatCount//	t
@lengthOf(
calculatedFrom) ,metadata @calculatedFrom(
    ""abc""
) `two words`
    ,
// `tick` ""quote"" 'q'
// c
@lengthOf(matchKey ) match
packetx as falsey { 007
: A,""1"" : packetx , //
7 :charz
, [ 65535 ]:stringy 65535
    :a1 [  ""a	b""
, 1] :
    Logon
// a // b
// " ++ [128512]%N ++ runes_of_ascii " emoji
}, }")).
Eval vm_compute in ("<<<M1217>>>" ++ check (runes_of_ascii "packet //x
u8x
{ //x
@tag( 10 )
    char[7]
    // trailing space 
    MetaDataX	, match // c
Z9_ as Header{""a\\"" :
    stringy
, ""// no comment"" : u128 // trailing space 
, 0123456789
    :
matchKey,10	: BodyLength // packet A { u8 x, }
,	65535: asx
    // trailing space 
    , 00 : pack//
,	}  , @tag(
255)msg_type `it's` , @lengthOf(
A ) leftPad
@lengthOf( Header) `crlf
line`, @calculatedFrom( ""1""
//x
/// triple
) repeat
int8 o
    // " ++ [128512]%N ++ runes_of_ascii " emoji
    ,  @rightPad(
'\x00')	string
pack
    @calculatedFrom(  ""// no comment""), @lengthOf( Z9_) match	u128
//	t
//	t
as BodyLength { //
[""\n"" ,
""a\\"" ]
: Logon
,	0 : As , } ,char[] x ,} packet  Packet {
    @calculatedFrom(""// no comment"" ) x_y_z,
    @leftPad(
) zchar[ 65535 ] As
    @calculatedFrom(
""1""
    // " ++ [128512]%N ++ runes_of_ascii " emoji
    ) `tab	here`  ,  zchar[ 10 ]	f32a ,	@tag(7  ) char[0123456789 ]
    matchKey
`say ""hi""`
    ,
} root packet string_
{ // " ++ [27880; 37322]%N ++ runes_of_ascii "
@tag( // @lengthOf(
0
// c
//	t
)	asx
// trailing space 
// c
`// not a comment`
// packet A { u8 x, }
//
, zchar[ 65535
] Header,
    @tag( 10 ) repeat zchar trueish
, repeat string // packet A { u8 x, }
Packet `{ , }`, char[] len
, lengthOf len `` , packetx @lengthOf(
    // `tick` ""quote"" 'q'
    float)`a\`	, @calculatedFrom(
""" ++ [28040; 24687]%N ++ runes_of_ascii """ ) matchKey  @calculatedFrom( """ ++ [233]%N ++ runes_of_ascii "t" ++ [233]%N ++ runes_of_ascii """ ), @rightPad ( ' '
// " ++ [128512]%N ++ runes_of_ascii " emoji
// " ++ [27880; 37322]%N ++ runes_of_ascii "
)
// @lengthOf(
// c
options1 @calculatedFrom( """ ++ [28040; 24687]%N ++ runes_of_ascii """) , } MetaData Header
    {
    Logon  string_ , }
")).
Eval vm_compute in ("<<<M266>>>" ++ check (runes_of_ascii "packet asx { Logon{ body
@calculatedFrom( // trailing space 
""it's"" ) , // @lengthOf(
char[ 3] MetaDataX , string
    leftPad `crlf
line` , u128@calculatedFrom( ""packet""
    ),} , } //x
packet
x_y_z
    // packet A { u8 x, }
    { len {
    match leftPad// c
as
rootA {[007 // trailing space 
, ""a\\"" , 0123456789,
    ""\" ++ [233]%N ++ runes_of_ascii """ , ""`tick`"" , ""{,}""
    ] : falsey , 4294967296:	matchKey
, // packet A { u8 x, }
}
    , int32 //	t
Z9_ // " ++ [27880; 37322]%N ++ runes_of_ascii "
,a1
{
    x_y_z ,
    repeat	_x `doc` , char[]falsey
    @lengthOf(u128) `doc` ,
    }/// triple
,match Foo as
stringy {7 : asx // " ++ [128512]%N ++ runes_of_ascii " emoji
, ""x y""	:
    calculatedFrom
, }
    , }, @lengthOf(i64_ ) @rightPad ( /// triple
'\x00'// @lengthOf(
)@tag( 42 )  char[]
repeatCount ,
match	Z9_ //x
as  int {[//x
""a	b"" ,	""abc""
    , 255 , 7 // " ++ [128512]%N ++ runes_of_ascii " emoji
] :asx
""1"" : chars , [ ""a	b"", 00 ,4294967296 ] :
leftPad , [
65535
, //x
0 , //	t
""abc"" // a // b
, ""it's"", 007 ,
    ""x y"" ,
    255,3 ]  :
leftPad
    , [
    //x
    4294967296]: u
,
// " ++ [128512]%N ++ runes_of_ascii " emoji
// " ++ [128512]%N ++ runes_of_ascii " emoji
0123456789 :a1  } ,
x_y_z  u8x ,  asx{ repeat
Header float `crlf
line`
    , rootA
charz// " ++ [128512]%N ++ runes_of_ascii " emoji
`a\` , } , @calculatedFrom(""CRC32"" ) string string_
,  @tag(
65535 )  @rightPad ( '\x00' ) u8x	a1 `{ , }` , } options { // c
float = // " ++ [27880; 37322]%N ++ runes_of_ascii "
007 }
root // c
packet
metadata {
}
")).
Eval vm_compute in ("<<<M3927>>>" ++ check (runes_of_ascii "packet falsey {
    int64 BodyLength,
    @tag(4294967296)
    // packet A { u8 x, }
    @leftPad()
    match _x as Foo {
        ""\n"" : asx,
        // `tick` ""quote"" 'q'
        // `tick` ""quote"" 'q'
        [
            ""{,}"", 4294967296, """ ++ [128512]%N ++ runes_of_ascii """, """ ++ [28040; 24687]%N ++ runes_of_ascii """, ""packet"",
            ""packet"", ""x y"", 7
        ] : x_y_z,
    },// `tick` ""quote"" 'q'
    A len `// not a comment`,
    //
    repeat char[] i64_ `crlf
        line`,
    // trailing space 
    // trailing space 
    repeat char[] u `line1
        line2`,
    tag {
        string metadata,
    },
    // " ++ [27880; 37322]%N ++ runes_of_ascii "
    // " ++ [128512]%N ++ runes_of_ascii " emoji
    char[3] falsey @lengthOf(leftPad) `crlf
        line`,
}

root packet MetaDataX {
    @lengthOf(u8x)
    match f32a as Header {
        [""a\""b"", 255] : u8x,
        ""packet"" : uint8x,
        ""1"" : _x,
    },
    Packet `doc`,
    zchar[3] u128 @lengthOf(asx),
}

MetaData x {
    // `tick` ""quote"" 'q'
    // `tick` ""quote"" 'q'
    As roots,
    char[10] crc `{ , }`,
    BodyLength asx `u8 x,`,
    matchKey i8i8,
    falsey pack `" ++ [233]%N ++ runes_of_ascii "`,
    leftPad metadata,
}

options {
    pack = 0
    tag = f32
    i64_ = ""abc"";
    // " ++ [128512]%N ++ runes_of_ascii " emoji
    // " ++ [128512]%N ++ runes_of_ascii " emoji
    f32a = true;
}

packet Foo {
}")).
Eval vm_compute in ("<<<M4055>>>" ++ check (runes_of_ascii "
MetaData lengthOf{

    i64 u128 
	    // trailing space 
  , uint32 // trailing space 
      calculatedFrom ,
char[	00
]	string_,
    }
root	packet

    falsey
    { char[]	// " ++ [128512]%N ++ runes_of_ascii " emoji
  len	`line1
line2`
, @tag(
    255  ) uint8x

@lengthOf(

falsey
),float32 	 // `tick` ""quote"" 'q'
    len	,

repeat calculatedFrom
i64_ `say ""hi""` ,

    // c

@rightPad 
( 
    // " ++ [27880; 37322]%N ++ runes_of_ascii "
'0')
char[
    10

]  Logon

,
}	packet rootA  // c
{ 
	// " ++ [128512]%N ++ runes_of_ascii " emoji

	// a // b
x{
falsey 
Logon,
	trueish @calculatedFrom(
    ""`tick`"" ) `// not a comment`
,
uint8x  body
,
    } 
,
	@calculatedFrom(	""{,}""
)@calculatedFrom(	""a\\"" )

match//x
	  f32a

as i8i8  {// " ++ [27880; 37322]%N ++ runes_of_ascii "

	10	: matchKey	,  1
	:	packetx
	,  0123456789
	:
Header,
""it's""  :i64_ ,  // packet A { u8 x, }

0 :

pack
,  },	repeat uint8x

    x_y_z `" ++ [28040; 24687; 31867; 22411]%N ++ runes_of_ascii "`
,repeat char[  255  ]
string_
,

@lengthOf(
int
    )
	calculatedFrom
	,
@tag(

    4294967296 )

    u16  packetx 
@calculatedFrom( """ ++ [28040; 24687]%N ++ runes_of_ascii """)  , 
u128
	body
`doc`	,	}root
packet tag
{ 
    //x
// `tick` ""quote"" 'q'
      i32
A 
	// @lengthOf(

// packet A { u8 x, }
,

}
options	{	}")).
Eval vm_compute in ("<<<M569>>>" ++ check (runes_of_ascii "root packet//	t
string_
{ @lengthOf(
    // trailing space 
    matchKey
    ) repeat string_ matchKey , char[
007 ] i64_
    @calculatedFrom(""packet"" ),
@tag(
255)
stringy
    len
, @leftPad (
    '\x00')  i8 matchKey
, match options1 as As {0123456789 : x
    , 10 : u8x ,[4294967296 // `tick` ""quote"" 'q'
] :rootA ,
65535 : charz ,
3	:
int} , } root packet u8x
{ int16  x_y_z,// trailing space 
@calculatedFrom(/// triple
""abc"" // trailing space 
) @leftPad (
' ' ) @tag(  3 ) match Packet  as leftPad /// triple
{ ""// no comment"" : float	,} , repeat
    string_ Packet , string zchar
,
    /// triple
    Packet `
` ,  float {int8 rootA @lengthOf(
    // packet A { u8 x, }
    x_y_z
    ) ,
    // " ++ [128512]%N ++ runes_of_ascii " emoji
    }, Header @lengthOf( stringy
    //	t
    )
,
    // @lengthOf(
    string /// triple
Logon @calculatedFrom(""// no comment"" ), }MetaData
// @lengthOf(
// `tick` ""quote"" 'q'
options1 {Foo stringy `" ++ [28040; 24687; 31867; 22411]%N ++ runes_of_ascii "` , Packet i64_ `a\`
, char[
4294967296 ] lengthOf , char[]
_x , i64 Packet , zchar[
    255] x
, }
")).
Eval vm_compute in ("<<<M529>>>" ++ check (runes_of_ascii "packet rootA { metadata { int32
    body  `doc` ,repeat calculatedFrom u8x
,u32 float , },
@lengthOf(
// @lengthOf(
// trailing space 
T )u8x Header,	repeat u16 Z9_ ,
@leftPad (
    '0'	)
repeat Z9_ { stringy msg_type
    `
` ,As
{match i8i8
    as	chars {
10 :len
    ,
    [ ""abc"", 42
//	t
// c
, 7 ] :  leftPad ,42 : lengthOf , 00 : zchar ,
    //x
    } , i32
    i64_ // @lengthOf(
, repeat
lengthOf msg_type`` //x
,
    }	,
    int16 Packet @calculatedFrom( ""packet"") ,} , len @lengthOf( float
    //
    ) `two words`,
@calculatedFrom( //	t
""a\""b"" ) repeat
pack
,
    @tag( 0 ) float32 tag `tab	here` ,rootA @calculatedFrom(""// no comment""
) ,
@lengthOf(x_y_z	)
msg_type { match crc
    as
string_ { 0:	u8x , 10
    : // " ++ [27880; 37322]%N ++ runes_of_ascii "
crc	, ""x y"" : Pad
    , 3: a1	,007
    : x , [ """" ] : A },
} , @calculatedFrom(
    ""CRC32"" ) @rightPad (' ')
    @tag( 10	) match zchar
    as body {
65535 // trailing space 
:
    // packet A { u8 x, }
    tag
    } ,
}
")).
Eval vm_compute in ("<<<M3605>>>" ++ check (runes_of_ascii "// top
packet // c0a
  // c0b
P1 // c1
{ u8 a // c4
, // c5a
  // c5b
} packet // c7a
  // c7b
P2 // c8a
  // c8b
{ // c9
P1 // c10
, // c11a
  // c11b
}
    // c12
packet
    // c13
P3 // c14a
  // c14b
{ // c15
P2 // c16a
  // c16b
,
    // c17
P1
    // c18
, // c19
} // c20a
  // c20b
packet // c21a
  // c21b
P4 {
    // c23
repeat // c24a
  // c24b
P3
    // c25
,
    // c26
P2 // c27
,
    // c28
}
    // c29
root
    // c30
packet // c31a
  // c31b
P5 // c32
{ // c33a
  // c33b
P4 // c34a
  // c34b
, // c35a
  // c35b
P3 // c36
, // c37
P1 // c38
, // c39
u8 // c40
K , match // c43a
  // c43b
K // c44a
  // c44b
as
    // c45
Body // c46a
  // c46b
{ // c47a
  // c47b
4
    // c48
: // c49
P4 // c50
, // c51a
  // c51b
3 // c52a
  // c52b
: // c53a
  // c53b
P3 // c54a
  // c54b
, // c55a
  // c55b
2
    // c56
:
    // c57
P2 // c58
, 1
    // c60
: // c61
P1
    // c62
, // c63
} , }
    // c66
")).
Eval vm_compute in ("<<<M492>>>" ++ check (runes_of_ascii "packet roots { } root packet metadata{ repeat //	t
float32 int ,	_x @lengthOf(
    packetx //
) `
` , repeat Packet Header
, @tag( 0 // trailing space 
)/// triple
float32 msg_type
    @calculatedFrom(
""\" ++ [233]%N ++ runes_of_ascii """// a // b
)  , char[
0 ] BodyLength , len
@calculatedFrom(	""" ++ [28040; 24687]%N ++ runes_of_ascii """ ) // trailing space 
`tab	here` ,	}
root packet calculatedFrom
{ @rightPad ( ' '
)
    tag
@calculatedFrom(""// no comment"")
    // " ++ [27880; 37322]%N ++ runes_of_ascii "
    , crc @calculatedFrom(""\" ++ [233]%N ++ runes_of_ascii """ ), @lengthOf( u128
// a // b
//x
) @lengthOf(
chars)
repeat
    lengthOf`tab	here` // a // b
, @tag( 007)
    char[]
    roots , @calculatedFrom(""" ++ [233]%N ++ runes_of_ascii "t" ++ [233]%N ++ runes_of_ascii """ ) repeat zchar[ 0 ] chars `crlf
line`  , // `tick` ""quote"" 'q'
@calculatedFrom(""a\\"" )	options1 ,
    // " ++ [27880; 37322]%N ++ runes_of_ascii "
    @rightPad ( // " ++ [27880; 37322]%N ++ runes_of_ascii "
)
    Z9_ { float32 x_y_z @lengthOf( asx // @lengthOf(
)
    , repeat float32 asx , f32 zchar
`" ++ [28040; 24687; 31867; 22411]%N ++ runes_of_ascii "`
    , char[ 007 ] Packet
`a\`
,
} ,
}")).
Eval vm_compute in ("<<<M421>>>" ++ check (runes_of_ascii "// @lengthOf(
MetaData Pad
    { }
MetaData
msg_type { // packet A { u8 x, }
packetx i64_ , char[ 1 ] Foo
`" ++ [233]%N ++ runes_of_ascii "`	, } MetaData o  { }
    // `tick` ""quote"" 'q'
    options //x
{ MetaDataX =u32 ;
// @lengthOf(
//x
trueish
    //	t
    ='0'	options1 = 65535 ; Pad ='0'
; x_y_z =
    //x
    ""a\""b""
    } packet chars
// trailing space 
//	t
{ @calculatedFrom(
    ""a\\"" ) //	t
match
//x
// trailing space 
charz as  Foo { [4294967296 ,
    ""CRC32"" ,
// @lengthOf(
// c
3
, ""a\""b""
,
    // a // b
    ""CRC32""] :
// trailing space 
// c
i8i8
,
} , @calculatedFrom(""" ++ [233]%N ++ runes_of_ascii "t" ++ [233]%N ++ runes_of_ascii """
) char[] chars @calculatedFrom(""// no comment"" ) , char[]
    x_y_z//
,
@lengthOf(
trueish
) @lengthOf( packetx) @lengthOf( packetx  ) Logon
    @calculatedFrom( ""it's""	)
, string
_x  , uint32 packetx ,
    repeat MetaDataX`tab	here`
    ,
}
")).
Eval vm_compute in ("<<<M1212>>>" ++ check (runes_of_ascii "/// triple
packet matchKey {// `tick` ""quote"" 'q'
repeatCount
`line1
line2` , @calculatedFrom(
""1"")
u128 @calculatedFrom(
    ""\" ++ [233]%N ++ runes_of_ascii """ ) , // @lengthOf(
@calculatedFrom( ""abc""	)repeat int
uint8x , Packet  @lengthOf(trueish ) , @tag( 3 // `tick` ""quote"" 'q'
) rootA
    @lengthOf(asx ) `it's`
,repeat tag // " ++ [128512]%N ++ runes_of_ascii " emoji
body ,
    @lengthOf( //	t
_x )	@calculatedFrom( ""1""
) @leftPad ( '0'
    )
    i8 i64_	@calculatedFrom( ""a\""b"" ) ,}packet x_y_z {
@tag(  7) match// @lengthOf(
Z9_  as i64_	{ """"
: roots , ""`tick`""
    :
T,007: zchar , [ // packet A { u8 x, }
4294967296 ,	7,4294967296 ,
4294967296 ,""\" ++ [233]%N ++ runes_of_ascii """, // " ++ [27880; 37322]%N ++ runes_of_ascii "
10 ,255 ]	: pack
// packet A { u8 x, }
//
, 1 : asx
,""CRC32"" :
x_y_z } , // a // b
} options
    { // c
}
root //
packet packetx{i8i8 @lengthOf( u128 ) , }")).
Eval vm_compute in ("<<<M511>>>" ++ check (runes_of_ascii "
MetaData BodyLength { // trailing space 
zchar[ 10
]trueish, }
packet f32a
    {@calculatedFrom(
    ""a\\"" ) @tag( 3
    )
@leftPad ( '\x00'	)
u128 { match u8x
    as len
    { [
"""",
0 ]
: chars
, 7
    :rootA
,}, // " ++ [128512]%N ++ runes_of_ascii " emoji
match zchar as matchKey { 00 :
repeatCount //	t
,""a	b"":Logon ,
[ """ ++ [233]%N ++ runes_of_ascii "t" ++ [233]%N ++ runes_of_ascii """
, 00 ]:packetx} ,
i64 tag,	}
, @leftPad
    ( '\x00'
) char[] u128 `// not a comment` ,
    float64 lengthOf @lengthOf( // " ++ [27880; 37322]%N ++ runes_of_ascii "
charz ) , @leftPad
(
    '\x00'
)As uint8x `crlf
line`, }packet	uint8x { char[
    255 ] calculatedFrom
    , roots @lengthOf( a1
) `tab	here`
    // trailing space 
    ,
//
/// triple
@rightPad
    (' ' )  repeat a1 a1, char
crc , i16 a1 , } //x
packet len{ //
zchar a1 // trailing space 
`u8 x,`,	}")).
Eval vm_compute in ("<<<M3636>>>" ++ check (runes_of_ascii "options {
    LittleEndian = false;
    StringPrefixLenType = u8;
    ArrayPrefixLenType = u8;
    FixedStringPadFromLeft = true;
    FixedStringPadChar = ' ';
}
packet Trade {
    zchar[2] Side2,
    i8 seqNo,
}
packet Party {
    uint32 price,
}
packet Ack {
    @rightPad('\x00') char[6] x,
    repeat char[4] Flags,
    zchar[9] f1,
}
packet Cancel {
    Ack,
}
packet Heartbeat {
    string Px,
    string Acct,
    f64 Side2,
    InQty24 {
        i16 seqNo,
        repeat i32 Flags,
    },
}
root packet Logon {
    Trade,
    i64 venue,
    u32 x,
    u8 seqNo,
    match seqNo as Body {
        [1, 164] : Ack,
        31 : Cancel,
        23 : Heartbeat,
        64 : Party,
    },
}
")).
Eval vm_compute in ("<<<M362>>>" ++ check (runes_of_ascii "  packet
    // a // b
    MetaDataX {
match _x as roots {
""`tick`"" :o , [00, // `tick` ""quote"" 'q'
0123456789
, 1 ,
    0123456789,""a\\""  ,
    ""`tick`""  , 007
,
    // " ++ [27880; 37322]%N ++ runes_of_ascii "
    ""// no comment""]
: Logon , }	, f32 len @calculatedFrom(
""{,}"" // c
) `" ++ [233]%N ++ runes_of_ascii "` , // a // b
@calculatedFrom( """") @leftPad
( '\x00') i32 calculatedFrom@lengthOf(
    Packet)
    // @lengthOf(
    `line1
line2`
    , @calculatedFrom( ""\" ++ [233]%N ++ runes_of_ascii """	)
match asx as	As { ""it's"" :_x,""x y""  : calculatedFrom, ""packet"" :
    Pad
, } ,  char[] x, char[] matchKey,trueish lengthOf ,@lengthOf(roots	) repeat len // c
, @lengthOf( crc) repeat
//
// " ++ [27880; 37322]%N ++ runes_of_ascii "
char[]u128 `tab	here`, repeat u64 Header
    //
    , }
")).
Eval vm_compute in ("<<<M299>>>" ++ check (runes_of_ascii "packet
As {
char[ 42	]//
chars
@calculatedFrom(
""a\""b"" ) `it's` ,f32a falsey // trailing space 
`// not a comment` , // " ++ [128512]%N ++ runes_of_ascii " emoji
string
trueish
`" ++ [28040; 24687; 31867; 22411]%N ++ runes_of_ascii "` ,
@lengthOf(  metadata )@tag(65535 ) @calculatedFrom( ""`tick`"" ) repeat Logon { x_y_z@lengthOf(lengthOf ),uint32  u
, i64_ @calculatedFrom( ""CRC32""
    )
`a\` , asx @calculatedFrom( """" ) `u8 x,` ,	} ,
u16
    _x `` , repeat string_
//
// `tick` ""quote"" 'q'
, options1 f32a , @calculatedFrom(""\n""// a // b
) Packet @lengthOf( zchar
    ) , }// `tick` ""quote"" 'q'
options { // a // b
} packet a1 { @tag( 0123456789)u8
    uint8x	`{ , }` ,
    u32// " ++ [27880; 37322]%N ++ runes_of_ascii "
x_y_z `say ""hi""`
, }
")).
Eval vm_compute in ("<<<M101>>>" ++ check (runes_of_ascii "
root
packet Packet
{ char[0123456789 ] pack @lengthOf(
As ) `{ , }`,
repeat
    // `tick` ""quote"" 'q'
    string
    rootA ,	match
repeatCount
    as
    pack /// triple
{ ""a\""b""
    :uint8x// packet A { u8 x, }
[ ""x y"" ,
    ""it's""
    // " ++ [128512]%N ++ runes_of_ascii " emoji
    ]	: chars
    ""\" ++ [233]%N ++ runes_of_ascii """
: //	t
crc	0123456789 :Packet ,[""1""
]:	A ,
    // @lengthOf(
    } ,// `tick` ""quote"" 'q'
} options /// triple
{ }packet pack // trailing space 
{ i8//x
MetaDataX ,string float
`" ++ [28040; 24687; 31867; 22411]%N ++ runes_of_ascii "`,@lengthOf( trueish)
@calculatedFrom(
    ""`tick`"" ) f64 lengthOf ,repeat pack	packetx
// trailing space 
// packet A { u8 x, }
, }
")).
Eval vm_compute in ("<<<M3718>>>" ++ check (runes_of_ascii "packet Packet {
    @tag(65535)
    @leftPad(' ')
    @tag(255)
    uint8 len @lengthOf(T),
    int32 u8x,
    @lengthOf(rootA)
    float32 i64_ `u8 x,`,
}

packet int {
    repeat i8i8 {
        lengthOf @lengthOf(int) `line1
        line2`,
        string falsey `
        `,
        uint16 roots @lengthOf(charz),
    },
}

options {
    Foo = ' '
    len = """ ++ [128512]%N ++ runes_of_ascii """;
    chars = u64;
    //x
    //
    uint8x = """ ++ [128512]%N ++ runes_of_ascii """;
    metadata = ' ';
}

// " ++ [27880; 37322]%N ++ runes_of_ascii "
MetaData Header {
    i16 matchKey,
    Packet Packet `u8 x,`,
}

packet u128 {
    uint8x @lengthOf(charz) `u8 x,`,
}")).
Eval vm_compute in ("<<<M33>>>" ++ check (runes_of_ascii "root/// triple
packet int{
f32 i8i8 , uint8x /// triple
zchar
    `// not a comment`// a // b
,
    u64 u8x @lengthOf( u ) ,char[] i64_@lengthOf( crc
    ), @lengthOf( packetx
    )metadata i64_
, } packet a1	{ zchar[ 65535
] float, zchar[ 00
    //	t
    ]
    matchKey
,
} options { crc =u64 } MetaData leftPad { trueish string_ ,  uint64 Header
`" ++ [28040; 24687; 31867; 22411]%N ++ runes_of_ascii "` , }
    // " ++ [128512]%N ++ runes_of_ascii " emoji
    MetaData//x
tag { zchar
chars
// " ++ [27880; 37322]%N ++ runes_of_ascii "
//x
,  repeatCount  lengthOf`
` , i16
u /// triple
`tab	here` , lengthOf
a1 ,u16 o
    , char
i64_  `two words` , }
//x
")).
Eval vm_compute in ("<<<M3627>>>" ++ check (runes_of_ascii "// top
options // c0
{ StringPrefixLenType // c2
= u16
    // c4
; FixedStringPadChar // c6
= ' ' ; // c9a
  // c9b
}
    // c10
packet
    // c11
Party
    // c12
{
    // c13
} packet Quote
    // c16
{
    // c17
repeat Party , // c20
repeat
    // c21
char[ // c22
2 // c23
] f1 , } packet Logon // c29a
  // c29b
{ } // c31a
  // c31b
root // c32a
  // c32b
packet // c33a
  // c33b
Cancel { // c35a
  // c35b
uint16 // c36
x
    // c37
, zchar[ // c39a
  // c39b
6 ]
    // c41
f1 // c42
, // c43
}
    // c44
")).
Eval vm_compute in ("<<<M334>>>" ++ check (runes_of_ascii "
packet a1
    /// triple
    { uint8 As ,// `tick` ""quote"" 'q'
char[ 1] chars
    @lengthOf(
    msg_type )  , repeat char[ 1 ] x_y_z `two words`
    //x
    , // c
@tag(00
)
int32
i8i8
    , u64 trueish ,
    // @lengthOf(
    @lengthOf(
    body )int16 float @lengthOf( tag )
    , // " ++ [128512]%N ++ runes_of_ascii " emoji
x // trailing space 
@calculatedFrom( ""`tick`""	) ,
} MetaData x_y_z
    {	char[
10
    ]chars,Z9_ pack`
`  ,  string As
, //x
len
    int ,A Z9_  , }	options { o = 0123456789 ; _x	= ' '
;
}")).
Eval vm_compute in ("<<<M251>>>" ++ check (runes_of_ascii "options { tag
=
false// c
; charz =
char[
    //
    4294967296 ] ; float = ' '; u =// `tick` ""quote"" 'q'
zchar[ 255
    ] x//x
=
    ""a\""b""}
packet leftPad /// triple
{match
As as
    falsey{ [ 10
    ,0123456789, 007
,
""" ++ [28040; 24687]%N ++ runes_of_ascii """
// a // b
// trailing space 
, //	t
""packet""	, ""`tick`"", ""1"" ] :
calculatedFrom , } ,@calculatedFrom(
    ""it's""
) float64// c
x_y_z @lengthOf(  leftPad ) , trueish
@lengthOf(packetx)
    , }options
{ string_	=
    ""a\""b"" ;
_x = false }
")).
Eval vm_compute in ("<<<M17>>>" ++ check (runes_of_ascii "root  packet
Pad {
@tag(65535 ) @lengthOf(
matchKey) //
int32 pack
    , // `tick` ""quote"" 'q'
zchar[65535  ]
charz @calculatedFrom(""""
    )
`crlf
line` , }
MetaData
options1
    {charz crc
//
// " ++ [27880; 37322]%N ++ runes_of_ascii "
, body packetx `// not a comment`, } packet string_ { char[	7 // @lengthOf(
]
T	@calculatedFrom(""\" ++ [233]%N ++ runes_of_ascii """) // c
, @leftPad ( '\x00')@calculatedFrom(
""packet"" )
@tag( 42
// " ++ [128512]%N ++ runes_of_ascii " emoji
// " ++ [128512]%N ++ runes_of_ascii " emoji
) string string_ @calculatedFrom( """ ++ [28040; 24687]%N ++ runes_of_ascii """ ) `a\` , }
")).
Eval vm_compute in ("<<<M554>>>" ++ check (runes_of_ascii "root packet A	{ // packet A { u8 x, }
char[]  msg_type
    `two words` , // a // b
@calculatedFrom( ""abc"" )
@leftPad
(
'\x00'
) @calculatedFrom(
    ""x y""
    ) repeat
//x
// @lengthOf(
int64 chars, zchar[ 1
] _x@calculatedFrom(	""1""
    ) `doc` ,
// c
//x
}packet stringy
{int8
calculatedFrom  @lengthOf(_x ) `line1
line2` , @tag( 42 ) char[ 10 ]//
Logon@lengthOf( roots ) `" ++ [233]%N ++ runes_of_ascii "`// " ++ [128512]%N ++ runes_of_ascii " emoji
, i32 //
options1  , i16 x_y_z ,
    } 	 ")).
Eval vm_compute in ("<<<M4340>>>" ++ check (runes_of_ascii "options {
    float = ' '
    Foo = ""a	b""
    A = i16;
    string_ = ""it's""
}// c

MetaData float {
    charz falsey,
    char[] chars,
    float32 Pad,
}

MetaData repeatCount {
    char[65535] Header `" ++ [233]%N ++ runes_of_ascii "`,
    float32 Pad,
    u64 len,
    // `tick` ""quote"" 'q'
    lengthOf a1 `{ , }`,
    //x
}

options {
    leftPad = zchar[00];
    charz = 10;
    options1 = string
    len = zchar[255];
    Logon = ""\n"";
}")).
Eval vm_compute in ("<<<M1225>>>" ++ check (runes_of_ascii "options {
options1 =
    4294967296 ;
    }
    root packet crc
// trailing space 
// " ++ [27880; 37322]%N ++ runes_of_ascii "
{@calculatedFrom(
//
// `tick` ""quote"" 'q'
""a\""b"")
    zchar[
255
] u8x
    // a // b
    @lengthOf( //
u8x
) `u8 x,`// " ++ [128512]%N ++ runes_of_ascii " emoji
,
repeat int16
    x_y_z ,  calculatedFrom@lengthOf(
    x_y_z )
    ,
    //
    @rightPad ( ' ' ) repeat char[] calculatedFrom ,
    repeat
Foo rootA
`// not a comment` , }
")).
Eval vm_compute in ("<<<M3809>>>" ++ check (runes_of_ascii "packet repeatCount {
    uint64 stringy,
}

options {
    crc = '0'
}//x

packet int {
    repeat a1 charz,
}

options {
    matchKey = """ ++ [28040; 24687]%N ++ runes_of_ascii """;
    crc = """ ++ [28040; 24687]%N ++ runes_of_ascii """;
    roots = '\x00';
    // packet A { u8 x, }
    //x
}

packet i8i8 {
    @calculatedFrom(""abc"")
    char[] _x `
    `,/// triple
    uint8 Packet `crlf
    line`,
    string_ `{ , }`,
    /// triple
    // " ++ [128512]%N ++ runes_of_ascii " emoji
}")).
Eval vm_compute in ("<<<M4276>>>" ++ check (runes_of_ascii "root  
      // `tick` ""quote"" 'q'
  //
      packet
    T { @rightPad() @calculatedFrom(
	""it's""

    )  int A ,  match Packet
as  Packet 
{
0123456789
    :
	u128  , 	 // c
    ""a\\"" :	Foo
    ,1
:// @lengthOf(

int
    ,
[
        // " ++ [128512]%N ++ runes_of_ascii " emoji
  7, 
4294967296, 
""\n""
, ""abc"" , ""abc"" ,
	""\" ++ [233]%N ++ runes_of_ascii """
]  :

msg_type
	}

,}  options

{zchar=

    ' ' 
;  }

")).
Eval vm_compute in ("<<<M3552>>>" ++ check (runes_of_ascii "// top
packet // c0
B // c1a
  // c1b
{ // c2
u8
    // c3
a , // c5a
  // c5b
string s // c7
,
    // c8
} // c9a
  // c9b
root // c10
packet
    // c11
P
    // c12
{ // c13a
  // c13b
u16 // c14a
  // c14b
L // c15
@lengthOf(
    // c16
B ) // c18
,
    // c19
B
    // c20
, // c21
u8
    // c22
t // c23a
  // c23b
, } // c25a
  // c25b
")).
Eval vm_compute in ("<<<M1110>>>" ++ check (runes_of_ascii "  MetaData	i64_ { // trailing space 
falsey asx	`u8 x,`  , } MetaData T
    { }
root packet msg_type
{ zchar[ 7	] options1@calculatedFrom(
    ""a	b"" )
`// not a comment`
    , @calculatedFrom( """ ++ [28040; 24687]%N ++ runes_of_ascii """) matchKey @lengthOf(//x
x_y_z
), uint64 len
,
    @tag(255) u32	A
// " ++ [128512]%N ++ runes_of_ascii " emoji
// packet A { u8 x, }
`` ,
    // c
    } // a // b")).
Eval vm_compute in ("<<<M1951>>>" ++ check (runes_of_ascii "MetaData
    u { }  options {
// c
// @lengthOf(
float = int8 ;rootA =false ; As =	int16 // `tick` ""quote"" 'q'
repeatCount
    // trailing space 
    =
    int16 int16
; u8x =
    //	t
    '\x00' ; } options	{
    repeatCount
= 0
u128
    //
    = false ; i64_
// trailing space 
// `tick` ""quote"" 'q'
= '0' ; //	t
}
")).
Eval vm_compute in ("<<<M1866>>>" ++ check (runes_of_ascii "MetaData
    u { { }  options {
// c
// @lengthOf(
float = int8 ;rootA =false ; As =	int16 // `tick` ""quote"" 'q'
repeatCount
    // trailing space 
    =
    int16
; u8x =
    //	t
    '\x00' ; } options	{
    repeatCount
= 0
u128
    //
    = false ; i64_
// trailing space 
// `tick` ""quote"" 'q'
= '0' ; //	t
}
")).
Eval vm_compute in ("<<<M2075>>>" ++ check (runes_of_ascii "MetaData
    u { }  options {
// c
// @lengthOf(
float = int8 ;rootA =false ; As =	int16 // `tick` ""quote"" 'q'
repeatCount
    // trailing space 
    =
    int16
; u8x =
    //	t
    '\x00' ; } options	{
    repeatCount
= 0
u128
    //
    = false ; caf" ++ [233]%N ++ runes_of_ascii "_1
// trailing space 
// `tick` ""quote"" 'q'
= '0' ; //	t
}
")).
Eval vm_compute in ("<<<M1932>>>" ++ check (runes_of_ascii "MetaData
    u { }  options {
// c
// @lengthOf(
float = int8 ;rootA =false ; As int16	= // `tick` ""quote"" 'q'
repeatCount
    // trailing space 
    =
    int16
; u8x =
    //	t
    '\x00' ; } options	{
    repeatCount
= 0
u128
    //
    = false ; i64_
// trailing space 
// `tick` ""quote"" 'q'
= '0' ; //	t
}
")).
Eval vm_compute in ("<<<M182>>>" ++ check (runes_of_ascii "packet
// @lengthOf(
// " ++ [128512]%N ++ runes_of_ascii " emoji
Foo { @calculatedFrom( """" )
@calculatedFrom(""1""
) @rightPad () int32 As
@calculatedFrom( """"// a // b
)
    `say ""hi""` // c
, @calculatedFrom( ""\n""
)
// trailing space 
/// triple
char[// trailing space 
65535 ] asx ,
    repeat	int8 trueish `{ , }` ,
} root packet lengthOf{  }")).
Eval vm_compute in ("<<<M475>>>" ++ check (runes_of_ascii "options {zchar= ' '
    ;
    MetaDataX
    =
    zchar[ 255
] // " ++ [128512]%N ++ runes_of_ascii " emoji
; } options
{ options1 = ""1""
//x
// " ++ [128512]%N ++ runes_of_ascii " emoji
; } MetaData u128
/// triple
// `tick` ""quote"" 'q'
{ char[]
    leftPad , } options //	t
{ a1 = 255; }  packet
    As { repeat char[007 ]
    A , f32a@lengthOf( calculatedFrom
    ) ,
    }

")).
Eval vm_compute in ("<<<M2053>>>" ++ check (runes_of_ascii "MetaData
    u { }  options {
// c
// @lengthOf(
float = int8 ;rootA =false ; As =	int16 // `tick` ""quote"" 'q'
repeatCount
    // trailing space 
    =
    int16
; u8x =
    //	t
    '\x00' ; } options	{
    repeatCount
= 0
u128
    //
    = false ; i64_
// trailing space 
// `tick` ""quote"" 'q'
= '0' ;")).
Eval vm_compute in ("<<<M1281>>>" ++ check (runes_of_ascii "MetaData a1	{ //x
u8 u8x,}
options
    // " ++ [128512]%N ++ runes_of_ascii " emoji
    { float
='0'/// triple
;
    // @lengthOf(
    pack =
// packet A { u8 x, }
// @lengthOf(
string
    ; }
MetaData
packetx {
tag
Foo`
`,  uint8x asx , uint16
body	,
T x ,// packet A { u8 x, }
float a1 `
`
    , matchKey  crc
, }
// a // b
")).
Eval vm_compute in ("<<<M222>>>" ++ check (runes_of_ascii "options	{ // packet A { u8 x, }
rootA
= true
    ; chars
=	true // packet A { u8 x, }
}options	{	lengthOf // @lengthOf(
= 3
trueish
= ' '
    ;
    /// triple
    crc
// trailing space 
// @lengthOf(
=
    // trailing space 
    true  ;
    rootA =""it's""; chars=
    int32 ;//x
}
")).
Eval vm_compute in ("<<<M3482>>>" ++ check (runes_of_ascii "packet chars // c1a
  // c1b
{ // c2a
  // c2b
} // c3a
  // c3b
packet
    // c4
MetaDataX // c5a
  // c5b
{ @tag( // c7a
  // c7b
42
    // c8
) i16 // c10a
  // c10b
string_ // c11a
  // c11b
, // c12a
  // c12b
repeat // c13
x `say ""hi""` // c15
, // c16a
  // c16b
} ")).
Eval vm_compute in ("<<<M1523>>>" ++ check (runes_of_ascii "packet
//	t
// trailing space 
_x {
// packet A { u8 x, }
// c
char[
3
    ] u8x @lengthOf( @lengthOf(
u8x ) , @calculatedFrom(""" ++ [128512]%N ++ runes_of_ascii """ // @lengthOf(
)
i16	Foo
@lengthOf(	string_
    )`doc`	, repeat	i64 metadata , @lengthOf( string_
) i8 // c
u  `line1
line2`	,
}
")).
Eval vm_compute in ("<<<M1500>>>" ++ check (runes_of_ascii "packet
//	t
// trailing space 
_x uint64
// packet A { u8 x, }
// c
char[
3
    ] u8x @lengthOf(
u8x ) , @calculatedFrom(""" ++ [128512]%N ++ runes_of_ascii """ // @lengthOf(
)
i16	Foo
@lengthOf(	string_
    )`doc`	, repeat	i64 metadata , @lengthOf( string_
) i8 // c
u  `line1
line2`	,
}
")).
Eval vm_compute in ("<<<M1578>>>" ++ check (runes_of_ascii "packet
//	t
// trailing space 
_x {
// packet A { u8 x, }
// c
char[
3
    ] u8x @lengthOf(
u8x ) , @calculatedFrom(""" ++ [128512]%N ++ runes_of_ascii """ // @lengthOf(
)
i16	Foo
@lengthOf(	string_
    ) )`doc`	, repeat	i64 metadata , @lengthOf( string_
) i8 // c
u  `line1
line2`	,
}
")).
Eval vm_compute in ("<<<M893>>>" ++ check (runes_of_ascii "packet string_ {
zchar[ 65535 ]
    stringy `
`
,
    // `tick` ""quote"" 'q'
    @lengthOf( As) string
Packet
    ,
} packet	Foo {@tag( 255)
lengthOf@calculatedFrom(
    ""{,}""
) ,
    }root packet MetaDataX {
@leftPad( '0'  )
    stringy`{ , }` , }
")).
Eval vm_compute in ("<<<M1629>>>" ++ check (runes_of_ascii "packet
//	t
// trailing space 
_x {
// packet A { u8 x, }
// c
char[
3
    ] u8x @lengthOf(
u8x ) , @calculatedFrom(""" ++ [128512]%N ++ runes_of_ascii """ // @lengthOf(
)
i16	Foo
@lengthOf(	string_
    )`doc`	, repeat	i64 metadata , @lengthOf( string_
) u // c
i8  `line1
line2`	,
}
")).
Eval vm_compute in ("<<<M970>>>" ++ check (runes_of_ascii "root
packet _x { // `tick` ""quote"" 'q'
@tag( // " ++ [27880; 37322]%N ++ runes_of_ascii "
1) zchar @lengthOf( len
// trailing space 
//	t
), } packet metadata {
uint8x{ a1
Foo ,
    }
    , }options {rootA =""`tick`"" ; Pad // c
=
    // a // b
    65535} packet
    //	t
    charz { }
")).
Eval vm_compute in ("<<<M4162>>>" ++ check (runes_of_ascii "MetaData u {
}

options {
    // c
    // @lengthOf(
    float = int8;
    rootA = false;
    As = int16// `tick` ""quote"" 'q'
    repeatCount = int16;
    u8x = '\x00';
}

options {
    repeatCount = f64
    u128 = false;
    i64_ = '0';//	t
}")).
Eval vm_compute in ("<<<M3558>>>" ++ check (runes_of_ascii "// top
options // c0a
  // c0b
{ FixedStringPadFromLeft
    // c2
=
    // c3
true
    // c4
; // c5
}
    // c6
root packet // c8a
  // c8b
P // c9a
  // c9b
{ // c10
char[ // c11
4
    // c12
] z // c14
, // c15
} // c16a
  // c16b
")).
Eval vm_compute in ("<<<M993>>>" ++ check (runes_of_ascii "packet Logon { repeat
    u64
a1
    //
    `u8 x,`,uint16 string_ @lengthOf( BodyLength )
, @tag( 7 ) @tag( 7 )@rightPad
    (' '
) metadata ,
    repeat	char[ 007 ] Foo
// `tick` ""quote"" 'q'
// trailing space 
`u8 x,` , }

")).
Eval vm_compute in ("<<<M237>>>" ++ check (runes_of_ascii "packet Foo //	t
{ match
    // a // b
    i64_ //x
as
x_y_z {65535:  BodyLength
,
[3, ""CRC32"" ]
:u
, 255:
T ,[ ""x y""]	:leftPad ,0123456789: As ,
    } ,
    zchar[	1
    ]int
, } packet
float
    { uint16
Packet	,}")).
Eval vm_compute in ("<<<M95>>>" ++ check (runes_of_ascii "packet len {
@tag( 255  ) repeat // packet A { u8 x, }
zchar[ 007] roots
, leftPad { //	t
f32 calculatedFrom , f32
    lengthOf , u32 calculatedFrom , } ,
x//	t
x
    ,} MetaData u128 {
A i8i8 `two words` ,}
")).
Eval vm_compute in ("<<<M4331>>>" ++ check (runes_of_ascii "packet
    calculatedFrom { @calculatedFrom( ""{,}"" ) 
  // c
  @tag(
65535)
f32 Packet@lengthOf(o 
)

    , @calculatedFrom(
""`tick`"")

uint32 
MetaDataX
    @calculatedFrom(	""it's""	)
    ``, } // a // b
")).
Eval vm_compute in ("<<<M1787>>>" ++ check (runes_of_ascii "options { trueish = ""`tick`"" ; string_= """ ++ [233]%N ++ runes_of_ascii "t" ++ [233]%N ++ runes_of_ascii """
    // c
    } root
    packet body { stringy @calculatedFrom(
""a	b"" ) `line1
line2` , }
packet Logon { {
    @leftPad(
    ' ' ) //	t
u16 string_ `u8 x,` ,
}
")).
Eval vm_compute in ("<<<M1683>>>" ++ check (runes_of_ascii "options { = trueish ""`tick`"" ; string_= """ ++ [233]%N ++ runes_of_ascii "t" ++ [233]%N ++ runes_of_ascii """
    // c
    } root
    packet body { stringy @calculatedFrom(
""a	b"" ) `line1
line2` , }
packet Logon {
    @leftPad(
    ' ' ) //	t
u16 string_ `u8 x,` ,
}
")).
Eval vm_compute in ("<<<M1818>>>" ++ check (runes_of_ascii "options { trueish = ""`tick`"" ; string_= """ ++ [233]%N ++ runes_of_ascii "t" ++ [233]%N ++ runes_of_ascii """
    // c
    } root
    packet body { stringy @calculatedFrom(
""a	b"" ) `line1
line2` , }
packet Logon {
    @leftPad(
    ' ' ) //	t
u16 `u8 x,` string_ ,
}
")).
Eval vm_compute in ("<<<M1012>>>" ++ check (runes_of_ascii "options {
trueish =
    i32 A= ""\" ++ [233]%N ++ runes_of_ascii """// `tick` ""quote"" 'q'
int =// `tick` ""quote"" 'q'
char[ 007  ]//x
; }
    MetaData MetaDataX { falsey float ,Logon matchKey
``
    ,
string stringy ,	u64
    T
,
}
")).
Eval vm_compute in ("<<<M1816>>>" ++ check (runes_of_ascii "options { trueish = ""`tick`"" ; string_= """ ++ [233]%N ++ runes_of_ascii "t" ++ [233]%N ++ runes_of_ascii """
    // c
    } root
    packet body { stringy @calculatedFrom(
""a	b"" ) `line1
line2` , }
packet Logon {
    @leftPad(
    ' ' ) //	t
u16  `u8 x,` ,
}
")).
Eval vm_compute in ("<<<M3798>>>" ++ check (runes_of_ascii "options {
    trueish = ""`tick`"";
    string_ = """ ++ [233]%N ++ runes_of_ascii "t" ++ [233]%N ++ runes_of_ascii """
    // c
}

root packet body {
    stringy @calculatedFrom(""a	b""),
}

packet Logon {
    @leftPad(' ')
    //	t
    u16 string_ `u8 x,`,
}")).
Eval vm_compute in ("<<<M1207>>>" ++ check (runes_of_ascii "//	t
options
    {
    packetx = '\x00' len =	false // packet A { u8 x, }
As =
""a\""b"" ;} packet
BodyLength {string options1  `crlf
line`
, // c
repeatCount @lengthOf( matchKey
) , }")).
Eval vm_compute in ("<<<M671>>>" ++ check (runes_of_ascii "
options {
f32a= i32
}options// trailing space 
{
    //x
    roots
=
    """" float ='0' ;int =
true x_y_z=' ' ;MetaDataX=// " ++ [128512]%N ++ runes_of_ascii " emoji
false
// packet A { u8 x, }
// " ++ [128512]%N ++ runes_of_ascii " emoji
;}
")).
Eval vm_compute in ("<<<M4246>>>" ++ check (runes_of_ascii "MetaData msg_type {
    float32 metadata `line1
    line2`,
    uint16 msg_type `// not a comment`,
    float Pad,
    float64 trueish `{ , }`,
    x stringy `tab	here`,
}")).
Eval vm_compute in ("<<<M339>>>" ++ check (runes_of_ascii "//
packet
int {@leftPad (
    '\x00' ) MetaDataX @lengthOf( u128 ) ,u
    a1 `doc` ,
    @calculatedFrom(
    ""a\""b"") i16 repeatCount // @lengthOf(
`tab	here`
, }")).
Eval vm_compute in ("<<<M2405>>>" ++ check (runes_of_ascii "// c
packet packet x { @lengthOf( metadata ) repeat lengthOf
,a1{
trueish	,// c
repeat//	t
MetaDataX , } , zchar[
    42	] rootA // `tick` ""quote"" 'q'
,
    }
")).
Eval vm_compute in ("<<<M1203>>>" ++ check (runes_of_ascii "root
packet i8i8 { } options {pack
=
char[3
    ]body= ""// no comment"" ;
// @lengthOf(
// c
i8i8
    // packet A { u8 x, }
    = i32 //	t
;	falsey
=""a\\"" }
")).
Eval vm_compute in ("<<<M2392>>>" ++ check (runes_of_ascii "// c
packet x { @lengthOf( metadata ) repeat lengthOf
,a1{
trueish	,// c
repeat//	t
MetaDataX , } , zchar[
    42	] rootA // `tick` ""quote"" 'q'
,
    } }
")).
Eval vm_compute in ("<<<M2130>>>" ++ check (runes_of_ascii "options{
_x
= true
} options
{ o	= /// triple
false
    ; ; chars
= ""\n"" } root packet	Pad
/// triple
// packet A { u8 x, }
{	chars
    // a // b
    ,}")).
Eval vm_compute in ("<<<M2186>>>" ++ check (runes_of_ascii "options{
_x
= true
} options
{ o	= /// triple
false
    ; chars
= ""\n"" } root packet	Pad
/// triple
// packet A { u8 x, }
{	chars
    // a // b
    ,as")).
Eval vm_compute in ("<<<M2111>>>" ++ check (runes_of_ascii "options{
_x
= true
} options
o {	= /// triple
false
    ; chars
= ""\n"" } root packet	Pad
/// triple
// packet A { u8 x, }
{	chars
    // a // b
    ,}")).
Eval vm_compute in ("<<<M2109>>>" ++ check (runes_of_ascii "options{
_x
= true
} options
 o	= /// triple
false
    ; chars
= ""\n"" } root packet	Pad
/// triple
// packet A { u8 x, }
{	chars
    // a // b
    ,}")).
Eval vm_compute in ("<<<M2401>>>" ++ check (runes_of_ascii "// c
packet x { @lengthOf( metadata ) repeat lengthOf
,a1{
trueish	,// c
repeat//	t
MetaDataX , } , }
    42	] rootA // `tick` ""quote"" 'q'
,
    }
")).
Eval vm_compute in ("<<<M2159>>>" ++ check (runes_of_ascii "options{
_x
= true
} options
{ o	= /// triple
false
    ; chars
= ""\n"" } root 	Pad
/// triple
// packet A { u8 x, }
{	chars
    // a // b
    ,}")).
Eval vm_compute in ("<<<M3811>>>" ++ check (runes_of_ascii "

  options

    {
}options
{ rootA
    =
    zchar[  255  ]; 
} options  { Packet 

    // `tick` ""quote"" 'q'
  =0123456789 
;  a1  =
""""
} ")).
Eval vm_compute in ("<<<M297>>>" ++ check (runes_of_ascii "packet
    // " ++ [27880; 37322]%N ++ runes_of_ascii "
    Foo
{ //x
uint8x
// " ++ [27880; 37322]%N ++ runes_of_ascii "
// " ++ [128512]%N ++ runes_of_ascii " emoji
,match
len as options1
// a // b
// trailing space 
{ 3 /// triple
:i64_ , }
, }
")).
Eval vm_compute in ("<<<M3554>>>" ++ check (runes_of_ascii "options {
    LittleEndian = true;
}
packet B {
    u8 a,
    string s,
}
root packet P {
    u16 L @lengthOf(B),
    B,
    u8 t,
}
")).
Eval vm_compute in ("<<<M4067>>>" ++ check (runes_of_ascii "MetaData packetx {
    string matchKey,/// triple
    u8 trueish,
    // packet A { u8 x, }
    // `tick` ""quote"" 'q'
}// a // b")).
Eval vm_compute in ("<<<M4382>>>" ++ check (runes_of_ascii "packet A {
    u16 len @lengthOf(body) `a
        b`,
    u32 crc @calculatedFrom(""CRC32"") `a
        b`,
    string body,
}")).
Eval vm_compute in ("<<<M3312>>>" ++ check (runes_of_ascii "root // c
packet matchKey { zchar[ 3 ] pack @calculatedFrom( ""a	b"" ) `doc` , } options { } MetaData A { int8 msg_type , }")).
Eval vm_compute in ("<<<M3344>>>" ++ check (runes_of_ascii "root packet matchKey { zchar[ 3 ] pack @calculatedFrom( ""a	b"" ) `doc` , } options { } // c
MetaData A { int8 msg_type , }")).
Eval vm_compute in ("<<<M1481>>>" ++ check (runes_of_ascii "
packet
    falsey { Header@calculatedFrom(""packet""  ) , char[
    0123456789 ''] packetx
    , } // `tick` ""quote"" 'q'")).
Eval vm_compute in ("<<<M1409>>>" ++ check (runes_of_ascii "
packet
    falsey Header {@calculatedFrom(""packet""  ) , char[
    0123456789 ] packetx
    , } // `tick` ""quote"" 'q'")).
Eval vm_compute in ("<<<M2991>>>" ++ check (runes_of_ascii "packet A {
  match k as n {
    [""a"", ""bb"", ""c c"", ""d"", ""e"", ""f"", ""g"", ""h"", ""i"", ""j"", ""k"", ""l""] : B
    2 : C
  },
}")).
Eval vm_compute in ("<<<M3831>>>" ++ check (runes_of_ascii "packet uint8x {
    repeat repeatCount {
        Packet @calculatedFrom(""packet""),
    },// packet A { u8 x, }
}")).
Eval vm_compute in ("<<<M3697>>>" ++ check (runes_of_ascii "
packet A
	{  match
	k as  n
{

    [ ""a""  , ""bb""
	,
    ""c c"" 
,	""d"" ,
	""e"" 
]
:  B

    , 2 : C	} 
, }")).
Eval vm_compute in ("<<<M2992>>>" ++ check (runes_of_ascii "packet A {
  match k as n {
    [1, ""bb"", 007, ""d"", 5, ""f"", 7, ""h"", 9, ""j"", 11, ""l""] : B,
    2 : C
  },
}")).
Eval vm_compute in ("<<<M2996>>>" ++ check (runes_of_ascii "packet A {
  match k as n {
    [1, 22, ""c c"", 4, 5, ""f"", 7, 8, ""i"", 10, 11, ""l""] : B,
    2 : C
  },
}")).
Eval vm_compute in ("<<<M4212>>>" ++ check (runes_of_ascii "  MetaData float
	{ float64 charz `
`	,

    } root	packet chars{ @rightPad ( '0'  )
Foo ,} 	 // c")).
Eval vm_compute in ("<<<M645>>>" ++ check (runes_of_ascii "packet lengthOf
{match u128	as i8i8
// " ++ [128512]%N ++ runes_of_ascii " emoji
// c
{""a\\"" :Header
, } // `tick` ""quote"" 'q'
, }")).
Eval vm_compute in ("<<<M3551>>>" ++ check (runes_of_ascii "packet B {
    u8 a,
    string s,
}
root packet P {
    u16 L @lengthOf(B),
    B,
    u8 t,
}
")).
Eval vm_compute in ("<<<M2219>>>" ++ check (runes_of_ascii "options
{ MetaData options { BodyLength= u16 Header= f64 ; u128 =
    true
    ; } // a // b")).
Eval vm_compute in ("<<<M2926>>>" ++ check (runes_of_ascii "packet A {
  match k as n {
    [""a"", ""bb"", ""c c"", ""d"", ""e"", ""f"", ""g""] : B
    2 : C
  },
}")).
Eval vm_compute in ("<<<M866>>>" ++ check (runes_of_ascii "
root packet len
    {char[  1] Foo
    @calculatedFrom( ""abc""
),// `tick` ""quote"" 'q'
}
")).
Eval vm_compute in ("<<<M3292>>>" ++ check (runes_of_ascii "MetaData float { float64 charz `
` , } root packet chars {
// c
@rightPad ( '0' ) Foo , }")).
Eval vm_compute in ("<<<M3503>>>" ++ check (runes_of_ascii "packet chars { } packet MetaDataX { @tag( 42 ) // c
i16 string_ , repeat x `say ""hi""` , }")).
Eval vm_compute in ("<<<M2287>>>" ++ check (runes_of_ascii "options
{ } options { BodyLength= u16 Header= f64 ; u128 =
    true
    ; } } // a // b")).
Eval vm_compute in ("<<<M3212>>>" ++ check (runes_of_ascii "
// c
packet metadata { Logon { A `" ++ [28040; 24687; 31867; 22411]%N ++ runes_of_ascii "` , tag o , } , zchar len `// not a comment` , }")).
Eval vm_compute in ("<<<M2930>>>" ++ check (runes_of_ascii "packet A {
  match k as n {
    [""a"", 22, ""c c"", 4, ""e"", 66, ""g""] : B
    2 : C
  },
}")).
Eval vm_compute in ("<<<M3243>>>" ++ check (runes_of_ascii "packet metadata { Logon { A `" ++ [28040; 24687; 31867; 22411]%N ++ runes_of_ascii "` , tag o , } , zchar len `// not a comment` // c
, }")).
Eval vm_compute in ("<<<M3434>>>" ++ check (runes_of_ascii "packet o {
// c
repeat Logon uint8x , } options { asx = zchar[ 3 ] stringy = '\x00' }")).
Eval vm_compute in ("<<<M3899>>>" ++ check (runes_of_ascii "root packet o {
    @calculatedFrom(""a\""b"")
    repeat crc,
    @tag(10)
    x_y_z,
}")).
Eval vm_compute in ("<<<M3393>>>" ++ check (runes_of_ascii "
// c
MetaData body { i64 pack `it's` , } packet stringy { int16 calculatedFrom , }")).
Eval vm_compute in ("<<<M3409>>>" ++ check (runes_of_ascii "MetaData body { i64 pack `it's` , }
// c
packet stringy { int16 calculatedFrom , }")).
Eval vm_compute in ("<<<M4053>>>" ++ check (runes_of_ascii "packet A {
    match k as n {
        [1, 22, ""c c""] : B,
        2 : C,
    },
}")).
Eval vm_compute in ("<<<M2309>>>" ++ check (runes_of_ascii "options
{ } options { " ++ [21517; 23383]%N ++ runes_of_ascii "= u16 Header= f64 ; u128 =
    true
    ; } // a // b")).
Eval vm_compute in ("<<<M2894>>>" ++ check (runes_of_ascii "packet A {
  match k as n {
    [""a"", ""bb"", 007, ""d""] : B,
    2 : C
  },
}")).
Eval vm_compute in ("<<<M2716>>>" ++ check (runes_of_ascii "string @tag( float64 ""packet"" u16 packet { ( f32 } @calculatedFrom( : as")).
Eval vm_compute in ("<<<M2893>>>" ++ check (runes_of_ascii "packet A {
  match k as n {
    [1, 22, ""c c"", 4] : B
    2 : C
  },
}")).
Eval vm_compute in ("<<<M2727>>>" ++ check (runes_of_ascii "MetaData packet true string `doc` = `it's` char[ MetaData false u16")).
Eval vm_compute in ("<<<M4358>>>" ++ check (runes_of_ascii "
options
{ 

    // " ++ [27880; 37322]%N ++ runes_of_ascii "
		len= 
    // @lengthOf(
	// c

  3

}")).
Eval vm_compute in ("<<<M669>>>" ++ check (runes_of_ascii "packet calculatedFrom
{ u32	metadata @lengthOf( Logon
)
, }
")).
Eval vm_compute in ("<<<M572>>>" ++ check (runes_of_ascii "
options
    // a // b
    {
    f32a = '0' ;
}
options{}
")).
Eval vm_compute in ("<<<M3368>>>" ++ check (runes_of_ascii "packet x
// c
{ @rightPad ( ) repeat roots Logon `doc` , }")).
Eval vm_compute in ("<<<M4255>>>" ++ check (runes_of_ascii "
packet
	A {
	match k	as
	n
{  [ 
1

] : 
B  2

:

C},
	}")).
Eval vm_compute in ("<<<M1139>>>" ++ check (runes_of_ascii "options {
    // " ++ [27880; 37322]%N ++ runes_of_ascii "
    len =
// @lengthOf(
// c
3 }
")).
Eval vm_compute in ("<<<M262>>>" ++ check (runes_of_ascii "MetaData u128 { uint8x msg_type `line1
line2`	, }")).
Eval vm_compute in ("<<<M4172>>>" ++ check (runes_of_ascii "root packet u128 {
    // c
    chars `it's`,
}")).
Eval vm_compute in ("<<<M3734>>>" ++ check (runes_of_ascii "packet A {
    u8 x `a
        
        b`,
}")).
Eval vm_compute in ("<<<M2730>>>" ++ check (runes_of_ascii "@tag( } ""\n"" MetaData { @calculatedFrom( ]")).
Eval vm_compute in ("<<<M3190>>>" ++ check (runes_of_ascii "root
// c
packet u128 { chars `it's` , }")).
Eval vm_compute in ("<<<M1059>>>" ++ check (runes_of_ascii "MetaData uint8x // trailing space 
{	}")).
Eval vm_compute in ("<<<M2617>>>" ++ check (runes_of_ascii "packet A { match k as n { 1 : 2 }, }")).
Eval vm_compute in ("<<<M3176>>>" ++ check (runes_of_ascii "root // a
 packet // b
 A // c
 { }")).
Eval vm_compute in ("<<<M2601>>>" ++ check (runes_of_ascii "packet A { B { @tag(1) u8 x, }, }")).
Eval vm_compute in ("<<<M4197>>>" ++ check (runes_of_ascii "MetaData a1 {
    u64 packetx,
}")).
Eval vm_compute in ("<<<M2817>>>" ++ check ([65533; 65533; 65533]%N ++ runes_of_ascii "Et" ++ [65533]%N ++ runes_of_ascii "b" ++ [65533]%N ++ runes_of_ascii "=" ++ [4; 15]%N ++ runes_of_ascii "@" ++ [65533; 65533]%N ++ runes_of_ascii "yr" ++ [65533]%N ++ runes_of_ascii "_	kM" ++ [1260; 65533; 23]%N ++ runes_of_ascii "j_" ++ [65533; 65533; 8; 65533]%N)).
Eval vm_compute in ("<<<M3161>>>" ++ check (runes_of_ascii "MetaData M {
}// c
options {}")).
Eval vm_compute in ("<<<M2780>>>" ++ check (runes_of_ascii "&.0eM;;i>|Pm^?l:T]h$Bi_(l64")).
Eval vm_compute in ("<<<M1093>>>" ++ check (runes_of_ascii "options { }
options { }
")).
Eval vm_compute in ("<<<M1136>>>" ++ check (runes_of_ascii "// packet A { u8 x, }

")).
Eval vm_compute in ("<<<M2564>>>" ++ check (runes_of_ascii "packet A { repeat u8 }")).
Eval vm_compute in ("<<<M1416>>>" ++ check (runes_of_ascii "
packet
    falsey {")).
Eval vm_compute in ("<<<M2632>>>" ++ check (runes_of_ascii "packet A { } packet")).
Eval vm_compute in ("<<<M3060>>>" ++ check (runes_of_ascii "packet A {
}
// c ")).
Eval vm_compute in ("<<<M3141>>>" ++ check (runes_of_ascii "// c" ++ [6158]%N ++ runes_of_ascii "
packet A {
}")).
Eval vm_compute in ("<<<M3113>>>" ++ check (runes_of_ascii "packet A {
}// c" ++ [11]%N)).
Eval vm_compute in ("<<<M2571>>>" ++ check (runes_of_ascii "packet A { x, }")).
Eval vm_compute in ("<<<M968>>>" ++ check (runes_of_ascii "options { }
")).
Eval vm_compute in ("<<<M2686>>>" ++ check (runes_of_ascii "// a
// b
")).
Eval vm_compute in ("<<<M2426>>>" ++ check (runes_of_ascii "char[ ]")).
Eval vm_compute in ("<<<M2795>>>" ++ check (runes_of_ascii "Hq=" ++ [65533]%N ++ runes_of_ascii "E" ++ [6]%N)).
Eval vm_compute in ("<<<M3079>>>" ++ check (runes_of_ascii "// c" ++ [5760]%N)).
Eval vm_compute in ("<<<M2527>>>" ++ check (runes_of_ascii "0x10")).
Eval vm_compute in ("<<<M2534>>>" ++ check (runes_of_ascii "a_b")).
Eval vm_compute in ("<<<M2538>>>" ++ check (runes_of_ascii "1_")).
