From FP Require Import Lexer Parser ShowPT Digest Formatter.
From Coq Require Import String List NArith.
Import ListNotations.
Open Scope string_scope.
Set Printing Width 100000000.
Set Printing Depth 100000000.
Definition show_fres (r : fres) : string :=
  match r with
  | FOk s => "OK:" ++ sh_escaped s ""
  | FErr s => "ERR:" ++ sh_escaped s ""
  | FPanic p => "PANIC:" ++ p
  end.
Definition check (rs : list rune) : string := digest (show_fres (format_res rs)).
Definition full (rs : list rune) : string := show_fres (format_res rs).
Eval vm_compute in ("<<<M3918>>>" ++ check (runes_of_ascii "packet i8i8 {
    string string_ `crlf
    line`,
    pack,
    As @calculatedFrom(""a	b""),
    f32 body `tab	here`,
    repeatCount @calculatedFrom(""" ++ [28040; 24687]%N ++ runes_of_ascii """),
    char[255] packetx,
    @calculatedFrom(""\" ++ [233]%N ++ runes_of_ascii """)
    @calculatedFrom(""abc"")
    @rightPad()
    // @lengthOf(
    x `two words`,
    @calculatedFrom(""a	b"")
    i32 stringy,
    @rightPad()
    Header `tab	here`,
}

packet i64_ {
    @rightPad()
    char[10] i8i8,
    u {
        char[] roots @calculatedFrom(""a\\"") `it's`,
    },
    len charz,
    float64 Z9_,
    int64 asx @lengthOf(stringy) `doc`,
    uint8 repeatCount,
    uint16 i64_,
}

MetaData Header {
    // c
}

packet As {
    match uint8x as tag {
        [""CRC32"", ""it's"", 1, ""{,}"", """"] : charz,
        """" : asx,
    },//x
}

packet lengthOf {
    string_ @lengthOf(f32a) `say ""hi""`,
    @leftPad()
    char[] matchKey,
    repeat float32 Packet `crlf
    line`,
    @tag(255)
    float {
        repeat x {
            int,
            int16 Packet @calculatedFrom(""""),
        },
        trueish {
            match calculatedFrom as matchKey {
                [10] : Foo,
                ""\n"" : MetaDataX,
            },
            u16 options1 `line1
            line2`,
        },
        a1 crc `{ , }`,
        repeat zchar ``,
    },
    // 50% %s
    //	t
    @tag(4294967296)
    @tag(007)
    @calculatedFrom("""")
    i16 _x ``,
    @leftPad('0')
    repeat uint16 roots,
    repeat stringy {
        Header {
            // @lengthOf(
            // " ++ [27880; 37322]%N ++ runes_of_ascii "
            i16 As @calculatedFrom(""\" ++ [233]%N ++ runes_of_ascii """) ``,
            x {
                repeat zchar[007] asx,
                match Packet as string_ {
                    007 : chars,
                    [
                        ""\" ++ [233]%N ++ runes_of_ascii """, 255, """ ++ [28040; 24687]%N ++ runes_of_ascii """, 42, 00,
                        ""\" ++ [233]%N ++ runes_of_ascii """, ""abc"", 007
                    ] : leftPad,
                    42 : metadata,
                    [""" ++ [28040; 24687]%N ++ runes_of_ascii """, ""\n""] : T,
                    3 : repeatCount,
                },
                char[4294967296] MetaDataX,
                i64 f32a,
            },
        },
        repeat int32 msg_type,
        // a // b
    },
    @lengthOf(charz)
    // " ++ [27880; 37322]%N ++ runes_of_ascii "
    trueish leftPad `doc`,
    @lengthOf(f32a)
    T u ``,
    @leftPad('\x00')
    u8 x_y_z @lengthOf(T) `two words`,
}")).
Eval vm_compute in ("<<<M3461>>>" ++ check (runes_of_ascii "// top
options // c0a
  // c0b
{
    // c1
LittleEndian // c2
= // c3a
  // c3b
false // c4
; StringPrefixLenType // c6
= // c7
u32 // c8
; // c9
ArrayPrefixLenType // c10
= // c11a
  // c11b
u32 ;
    // c13
FixedStringPadChar // c14a
  // c14b
=
    // c15
' ' // c16a
  // c16b
; // c17a
  // c17b
} // c18
packet
    // c19
Order
    // c20
{ InX16 { // c23
i64
    // c24
Tail // c25
, // c26a
  // c26b
char[
    // c27
4 // c28a
  // c28b
] // c29a
  // c29b
price ,
    // c31
repeat // c32
char[ // c33
4 ] // c35
Qty // c36a
  // c36b
, // c37
} // c38a
  // c38b
,
    // c39
InSym89 // c40
{ int8
    // c42
x
    // c43
, // c44a
  // c44b
char[
    // c45
8
    // c46
] // c47
clOrdID
    // c48
, i32 tag7 // c51
, // c52
char[ 7
    // c54
]
    // c55
venue // c56a
  // c56b
, int64 // c58
Ref // c59
, // c60
} // c61
, // c62
zchar[ // c63
7 // c64
]
    // c65
Flags // c66a
  // c66b
, }
    // c68
packet // c69
Logon
    // c70
{ zchar[ // c72a
  // c72b
3 // c73
] // c74
sym // c75a
  // c75b
, } // c77
packet // c78a
  // c78b
Leg // c79
{
    // c80
InCount34 // c81a
  // c81b
{
    // c82
char[ // c83a
  // c83b
10 // c84a
  // c84b
] OrderId , // c87a
  // c87b
} // c88
, // c89a
  // c89b
} packet Party { // c93
} // c94
root packet // c96
Ack // c97
{ repeat
    // c99
Leg
    // c100
,
    // c101
char[ // c102
8 // c103a
  // c103b
] // c104a
  // c104b
Flags
    // c105
,
    // c106
u8 // c107
seqNo
    // c108
, // c109a
  // c109b
u16 // c110
Qty
    // c111
@lengthOf( // c112a
  // c112b
Body ) // c114a
  // c114b
,
    // c115
match // c116a
  // c116b
seqNo as Body
    // c119
{ // c120
21 : // c122a
  // c122b
Order , // c124
56 :
    // c126
Logon ,
    // c128
138
    // c129
: // c130a
  // c130b
Leg
    // c131
, // c132a
  // c132b
73 : // c134a
  // c134b
Party , } ,
    // c138
} ")).
Eval vm_compute in ("<<<M1176>>>" ++ check (runes_of_ascii "root packet  metadata {T @calculatedFrom(	""x y""
) ,	@lengthOf( u8x
)
crc @lengthOf(
    i8i8 ) `
`,char[00
    ] matchKey ,
    f64
_x
    ,	@lengthOf(trueish ) @calculatedFrom(
""// no comment""
) chars `two words` , repeatCount`tab	here` ,
    uint32 Foo
    @lengthOf(
    //	t
    string_ )	`` , @calculatedFrom(
""\n"" )
f64 Pad @lengthOf( i8i8 ) ,@lengthOf(
    // " ++ [27880; 37322]%N ++ runes_of_ascii "
    i8i8 ) x_y_z
x ,  @calculatedFrom(
    //x
    ""1"" )pack// c
{ float64  leftPad
    `tab	here`, repeat int
{ match
packetx as
repeatCount { [// " ++ [128512]%N ++ runes_of_ascii " emoji
""a\""b"" ,
42 ] : repeatCount	, 3// packet A { u8 x, }
: leftPad
, ""it's"" : i8i8, ""packet""// @lengthOf(
: x_y_z
    ""`tick`"" : asx
    ,3 :
Foo
,} , // `tick` ""quote"" 'q'
i32
    options1`u8 x,`
    ,
// packet A { u8 x, }
// packet A { u8 x, }
body ,
} , } ,
} MetaData MetaDataX {	As chars
,char[] u// " ++ [27880; 37322]%N ++ runes_of_ascii "
,len calculatedFrom
    // c
    , asx  i64_ , // 50% %s
}packet
leftPad { trueish
    { repeat
char[]packetx
    ,
    // a // b
    }
    , repeat // c
As {
    u32 u@lengthOf( A ) `{ , }` //	t
, }
    ,@lengthOf(Packet )
    repeat
    i32
    Logon
`
` , uint16 lengthOf
@lengthOf(
BodyLength )`100% of %d`,
match repeatCount
as
T
{ ""a\\""
:int ,
// @lengthOf(
//
007
    // " ++ [128512]%N ++ runes_of_ascii " emoji
    :	lengthOf ,10 : Logon
    ,//	t
} ,i16 len
    /// triple
    @calculatedFrom( ""`tick`"" ) ,
    //x
    uint16 uint8x	@calculatedFrom(
    ""// no comment""//	t
)
`
` , @tag(
255 ) repeat int32 int`tab	here`
,Pad { repeat chars`` ,
    // a // b
    } , @tag( 007 )	repeat  stringy	{ string chars ,string_ chars , }
    ,
}")).
Eval vm_compute in ("<<<M1072>>>" ++ check (runes_of_ascii "MetaData _x
    {
string Packet`// not a comment`
    , o Logon
    // " ++ [27880; 37322]%N ++ runes_of_ascii "
    , packetx uint8x , } root
// a // b
// a // b
packet MetaDataX { repeat char[255] // " ++ [128512]%N ++ runes_of_ascii " emoji
x_y_z `doc` ,
@calculatedFrom(	""{,}"" ) match
    // " ++ [128512]%N ++ runes_of_ascii " emoji
    asx as A // trailing space 
{ 4294967296 : Pad 10
    :a1 ,	}
,
zchar[ 3	] asx
`{ , }` ,match
msg_type as i8i8 { [
    0
    ,1
    , 007
    , ""a\\"", ""\" ++ [233]%N ++ runes_of_ascii """ ,65535 ]:
    calculatedFrom ,
    // 50% %s
    007 // trailing space 
:
    T 255
:repeatCount ,
    [ // trailing space 
0123456789
    , ""it's""] : chars
,}  , u128 ,	string A @lengthOf( Packet  ) `tab	here` ,
    char[0123456789
    ] // trailing space 
uint8x
@lengthOf(x_y_z
) , asx
`" ++ [28040; 24687; 31867; 22411]%N ++ runes_of_ascii "` , }
packet a1{ i8 trueish , } packet matchKey
{ match
a1 as
string_ { 10
: pack
// trailing space 
// a // b
, },
// @lengthOf(
// a // b
char[ 10	]
falsey `" ++ [233]%N ++ runes_of_ascii "`
    ,pack{ i8i8 { repeat
lengthOf {
    //	t
    tag asx , match
rootA as matchKey // packet A { u8 x, }
{ ""CRC32""
    :
    u 42:lengthOf ,// c
} ,
repeat
// packet A { u8 x, }
// @lengthOf(
uint64 packetx  `
` ,	zchar[
    0 ]/// triple
options1 @lengthOf(
Packet )
`doc` ,} ,
    } // trailing space 
, } ,
}
// `tick` ""quote"" 'q'
//
MetaData  options1
{
    string_ // packet A { u8 x, }
zchar,Z9_ repeatCount`crlf
line` , uint64 Logon , uint64 a1 ,
    string_ Foo ,
}")).
Eval vm_compute in ("<<<M349>>>" ++ check (runes_of_ascii "packet charz
{ }
root packet options1 {
    @rightPad ( '0')match
/// triple
// 50% %s
len // 50% %s
as roots { 3: lengthOf // a // b
, ""{,}"":
MetaDataX
// 50% %s
// c
, 65535 :
    MetaDataX } , char[4294967296
    //x
    ]
u128  ,uint32 x // a // b
,
    //x
    @tag(007 )  x_y_z @calculatedFrom( ""packet""
), zchar[ 255 ] Header @calculatedFrom( ""a	b"" ),  string
leftPad
, Z9_
    x_y_z
    `two words`
, i8
    x_y_z
@lengthOf(
    // 50% %s
    MetaDataX  ) `" ++ [28040; 24687; 31867; 22411]%N ++ runes_of_ascii "`
// " ++ [27880; 37322]%N ++ runes_of_ascii "
// trailing space 
, }MetaData
msg_type {lengthOf msg_type /// triple
`crlf
line` , i64
    // a // b
    crc // c
, packetx zchar `100% of %d` , string falsey`line1
line2` ,} packet options1{
repeat string
u128 , // trailing space 
repeat char[
3 ]lengthOf ,
zchar[ 00]stringy , @lengthOf(a1 )  @lengthOf(int) @calculatedFrom( ""{,}""
    ) match
    // `tick` ""quote"" 'q'
    Foo as u8x {""it's"" :	charz [ 255 ] : u128, }, string x // trailing space 
,
match //x
Packet as Logon
    { //x
""{,}"" : roots,
// packet A { u8 x, }
// `tick` ""quote"" 'q'
""abc""
:
//	t
// a // b
zchar , /// triple
[  1,
""" ++ [128512]%N ++ runes_of_ascii """ , ""packet"",
"""" , """" ,  42 , """"] : Z9_ ,
} , u64 u @lengthOf(body )
// " ++ [128512]%N ++ runes_of_ascii " emoji
// 50% %s
`it's`, } options {
    uint8x
    =
0123456789 ; }")).
Eval vm_compute in ("<<<M31>>>" ++ check (runes_of_ascii "root
    packet body {
    @calculatedFrom( ""a	b""	) repeat
int32
zchar
, lengthOf body ,
@rightPad
( ' '
    )uint8x { u64  body , } , @tag( 1 )
@leftPad ( '0' ) @calculatedFrom( """ ++ [233]%N ++ runes_of_ascii "t" ++ [233]%N ++ runes_of_ascii """
)
    u64
x @calculatedFrom( """ ++ [128512]%N ++ runes_of_ascii """
// packet A { u8 x, }
//x
)
    , x
    , @lengthOf( u128 ) _x
    T `` //	t
, @rightPad	(
'0' )  i64// trailing space 
a1 , string
trueish @calculatedFrom( ""// no comment""
    ) `
`, }packet
    tag
{ } MetaData body { T u
    , string f32a  , f64
Packet ,
lengthOf Header `tab	here` ,
    }
// c
//
packet T // @lengthOf(
{
@leftPad( )chars	, @calculatedFrom( ""1""  )
@lengthOf( tag) @lengthOf( Foo ) match charz as chars
    { 42 :
    // packet A { u8 x, }
    uint8x , """ ++ [28040; 24687]%N ++ runes_of_ascii """ :o , 0123456789:
    lengthOf
,[
    ""a\\"" ,
""CRC32""
    , ""a	b"" ,""CRC32""	, 0
,""CRC32"" , ""a\\"", """" ] : T ""it's"" :
    tag } //x
, i8 roots, @lengthOf( float)
@tag(10)body { chars// trailing space 
{repeat
int8 body ,
}  , repeat
    Header {char[]
leftPad , } , /// triple
match Logon as
    // " ++ [128512]%N ++ runes_of_ascii " emoji
    zchar {
    4294967296
: len  , ""a\""b"" // trailing space 
: A 00:x_y_z ,  }
,//	t
repeat i16 options1,} ,
    }options { }
")).
Eval vm_compute in ("<<<M3691>>>" ++ check (runes_of_ascii "packet uint8x {
    calculatedFrom {
        repeat options1 {
            char[42] packetx,
            len {
                repeat _x `
                                `,
                int8 rootA @calculatedFrom(""abc"") `" ++ [28040; 24687; 31867; 22411]%N ++ runes_of_ascii "`,
                MetaDataX @calculatedFrom(""\n"") `
                                `,
                match leftPad as zchar {
                    [""// no comment"", 0, """ ++ [128512]%N ++ runes_of_ascii """, """ ++ [28040; 24687]%N ++ runes_of_ascii """] : MetaDataX,
                    [""""] : stringy,
                    42 : calculatedFrom,
                    65535 : options1,
                    //	t
                    // " ++ [128512]%N ++ runes_of_ascii " emoji
                },
            },
            f32 MetaDataX,//x
        },
        lengthOf Foo,
    },
    @rightPad(' ')
    //
    char[] options1 @calculatedFrom(""a\""b""),// 50% %s
    @rightPad(' ')
    @tag(00)
    match matchKey as msg_type {
        [""1""] : tag,
    },
    zchar[00] a1 @lengthOf(asx) ``,
    char[007] A,//	t
    Pad,
    @leftPad('\x00')
    @calculatedFrom(""a\\"")
    @calculatedFrom(""{,}"")
    repeat trueish {
        MetaDataX @lengthOf(zchar),
    },
}")).
Eval vm_compute in ("<<<M401>>>" ++ check (runes_of_ascii "// 50% %s
packet u
    { i16
    falsey // a // b
`doc`
, repeat Pad
`` ,
repeat u64 uint8x ,	@lengthOf(_x )
//
// @lengthOf(
i8
trueish@calculatedFrom(""" ++ [128512]%N ++ runes_of_ascii """)
, match BodyLength
// " ++ [27880; 37322]%N ++ runes_of_ascii "
// 50% %s
as // " ++ [128512]%N ++ runes_of_ascii " emoji
lengthOf {	0123456789  : u8x , // trailing space 
7 : a1""CRC32""	: u128 , [
0123456789 ,255 ]:
    leftPad , } , @calculatedFrom( ""a\""b"" )char[]
u128
`two words`
, uint16  A
    ,
} options	{calculatedFrom = true ;  } packet f32a { // " ++ [27880; 37322]%N ++ runes_of_ascii "
@calculatedFrom(
    """ ++ [28040; 24687]%N ++ runes_of_ascii """ ) // @lengthOf(
repeat
char[]
// " ++ [128512]%N ++ runes_of_ascii " emoji
// c
i8i8 , match MetaDataX as Logon { [ 42,	00
    , 10 ,0//
,
    255 ,
    3 , 3 ] :
stringy// 50% %s
, [ //x
""abc""] :u8x [""1"" , 00 ]: asx ,// 50% %s
[ 0123456789 ] //x
: As // " ++ [128512]%N ++ runes_of_ascii " emoji
, ""a\""b"" :	roots 4294967296 : trueish
,
} ,
match // c
u128 as MetaDataX
    { 0123456789 :
    charz
    ,//
} ,
repeat zchar[ 7 ] Z9_ ,
@lengthOf( // " ++ [27880; 37322]%N ++ runes_of_ascii "
options1	) @tag(65535 ) @leftPad(
' ' )
rootA{
zchar
    `{ , }`,
    repeat
f32
    Z9_ , }	,//	t
body , x @lengthOf( options1 )	, matchKey //
, }
")).
Eval vm_compute in ("<<<M4130>>>" ++ check (runes_of_ascii "
packet msg_type
{
//
    	i8
	_x 
`{ , }`, i8
Foo 
, 
@calculatedFrom( ""// no comment""	)
    Z9_

`it's`	//
    ,
    @lengthOf( BodyLength)  repeat trueish
,

    @lengthOf(Logon
) zchar[00 ] float

`{ , }`
,

}
options
{pack
=

true

    }	packet
	falsey

    { 
@lengthOf(asx )
A	chars  ,
    body 
    // @lengthOf(
	, repeat
    // " ++ [128512]%N ++ runes_of_ascii " emoji
  string_ { 
repeat
len

    { char[
	1

]packetx 	 //
@lengthOf(// @lengthOf(
	i8i8  )	,

} , repeat	string_
packetx ,} ,

u16

    Logon@calculatedFrom(
""a	b"" ), repeat  i16 Logon,
        // packet A { u8 x, }
  /// triple
    match Packet  // c
    as  matchKey 
{

    65535  :	u 
, // c
  	65535 :
    MetaDataX ,
}

    ,@calculatedFrom(  // @lengthOf(
	""a\\""
	)
    repeat zchar[
255]
stringy
	, }

    packet
matchKey

    { @lengthOf( 
charz	) repeat
string
leftPad
,  }
options{Packet =
	'\x00' 
	    // `tick` ""quote"" 'q'
  // `tick` ""quote"" 'q'
	} 
  // c
 
")).
Eval vm_compute in ("<<<M997>>>" ++ check (runes_of_ascii "packet
    T { repeat
string
options1 ,
@lengthOf(
Packet )@calculatedFrom( """ ++ [128512]%N ++ runes_of_ascii """ )
@lengthOf(repeatCount ) u64	asx,
@leftPad ( '\x00' ) x
// c
// a // b
{// c
string // trailing space 
a1`tab	here` , repeat pack Header
/// triple
//x
,
match packetx	as rootA//
{ 3
: chars ,}
, }
    , falsey @lengthOf( matchKey )`line1
line2`,
    @calculatedFrom(
    ""`tick`""
) @calculatedFrom(""1"") char[00 ] u128
    @lengthOf( a1 ) , @lengthOf( lengthOf
    // `tick` ""quote"" 'q'
    ) @rightPad
    (
    // packet A { u8 x, }
    '0' /// triple
) @lengthOf(
u128 )	rootA ,
    }
// " ++ [128512]%N ++ runes_of_ascii " emoji
//	t
options{ }
    packet u128 {
    @tag(
    3
)	@tag( 255 ) @lengthOf( _x)char crc `u8 x,`
,
    repeat
    matchKey repeatCount , repeat T `crlf
line` // trailing space 
, char[] trueish `
`, } options
    // 50% %s
    {
    Packet = true	u128/// triple
=
'0' ; As =""// no comment""	;
o	= false  } options{ }
/// triple
")).
Eval vm_compute in ("<<<M4217>>>" ++ check (runes_of_ascii "packet
    x_y_z
        //	t

	{ 
// packet A { u8 x, }

/// triple
_x 
,
repeat

    float 
,
    @tag(
    1 )  match
Foo

as rootA { [255 
]:
    options1
, [""a\\"" ] : 
      /// triple
  leftPad
	,  } ,
@lengthOf(
len
)match

o as  Z9_  { 7 :
As  ,

    ""x y""
:

    matchKey	// `tick` ""quote"" 'q'
    	""// no comment""
:
u128

    ,

[  
      // @lengthOf(

  // `tick` ""quote"" 'q'
    0 
,
	255  ]

    :len,
	""CRC32"" 
:	metadata 3
: 
chars ,

} 
,  u64
    roots`say ""hi""` ,
    @tag(  42
)

    string  int  @lengthOf( Header
)
,@tag(
1

)
@lengthOf(	float

) 
// packet A { u8 x, }

rootA 
Z9_
	, match  msg_type
as  metadata
{  [ 7  , 
0123456789 ] :  uint8x
    //x
	// a // b
    	,

[ 
255
]

: 
int

,

    // packet A { u8 x, }
255	:

lengthOf
    ,

""a\\""	:	u128	/// triple
  	, ""1"":u128 ,} ,  }  
  // `tick` ""quote"" 'q'
 
")).
Eval vm_compute in ("<<<M277>>>" ++ check (runes_of_ascii "MetaData charz{	char[ 42 ]metadata ,  uint32  options1 // c
,} MetaData stringy { char[
0123456789] Logon // packet A { u8 x, }
`crlf
line` ,}packet
f32a { falsey @lengthOf( Packet ) ,string //
trueish ,zchar[ 255
    ]
msg_type @lengthOf(  Packet
    ) ,float32 MetaDataX
@calculatedFrom( ""abc"" ), string rootA
@lengthOf(
tag ) `` ,@lengthOf(BodyLength // a // b
) Packet { u32 chars
`" ++ [28040; 24687; 31867; 22411]%N ++ runes_of_ascii "`
, falsey,
} , @lengthOf( _x ) @tag( 255
) @calculatedFrom( ""abc"" )chars	`
`
    , repeat _x metadata // c
, repeat char[ 0123456789 ] pack , @lengthOf( f32a	)
    //	t
    @calculatedFrom(
""" ++ [28040; 24687]%N ++ runes_of_ascii """ ) @lengthOf(
// a // b
// " ++ [128512]%N ++ runes_of_ascii " emoji
Logon ) // " ++ [27880; 37322]%N ++ runes_of_ascii "
repeat lengthOf {
    i8i8 { zchar @calculatedFrom( """ ++ [28040; 24687]%N ++ runes_of_ascii """ ) `crlf
line` , } ,char[
65535  ] u8x , int32
chars@lengthOf( leftPad	) `100% of %d`//x
, repeat x , }
    //
    ,
}")).
Eval vm_compute in ("<<<M447>>>" ++ check (runes_of_ascii "MetaData asx{// " ++ [27880; 37322]%N ++ runes_of_ascii "
charz _x ,int8 x_y_z `two words`, i32
charz ,repeatCount i64_
    ,
u8x calculatedFrom , i8
// `tick` ""quote"" 'q'
// c
roots , }MetaData x
{ }
    MetaData
len
    { matchKey
packetx , uint8 uint8x,
} root
packet
body {	u128 @calculatedFrom( """" /// triple
)
    ,
    repeat
    trueish { char[]// " ++ [128512]%N ++ runes_of_ascii " emoji
asx @lengthOf(
    body	)	`u8 x,` , match
    // packet A { u8 x, }
    body
// @lengthOf(
// 50% %s
as//
i8i8 { ""a\""b"": packetx
    , ""a	b"":
i64_ , [ """" ,
42 ]: MetaDataX,[ """ ++ [28040; 24687]%N ++ runes_of_ascii """ ] : pack
3 : x
[ 0
    , 007 ] :	Z9_ , } , char[ 10 ]// `tick` ""quote"" 'q'
int
    `// not a comment`, u repeatCount `{ , }` , }
, @lengthOf( trueish
    ) char asx `doc` // @lengthOf(
,
@tag( 0 )
i64_ ,} MetaData lengthOf { char[]float `crlf
line`,// " ++ [128512]%N ++ runes_of_ascii " emoji
}
")).
Eval vm_compute in ("<<<M1196>>>" ++ check (runes_of_ascii "packet i64_ {
    @calculatedFrom( """ ++ [128512]%N ++ runes_of_ascii """ ) leftPad
, }
packet
As
    {@rightPad ( ' '
    ) repeat	int o `say ""hi""` // " ++ [128512]%N ++ runes_of_ascii " emoji
, metadata{match crc as matchKey { [""CRC32"" ,	""// no comment"" , ""CRC32"" , 65535 ]
:
// " ++ [128512]%N ++ runes_of_ascii " emoji
// " ++ [128512]%N ++ runes_of_ascii " emoji
zchar 3
:
// " ++ [27880; 37322]%N ++ runes_of_ascii "
// `tick` ""quote"" 'q'
i64_ , }
    //
    , repeat
    stringy ,  } ,
@calculatedFrom( ""\" ++ [233]%N ++ runes_of_ascii """// 50% %s
) _x crc , i64_@calculatedFrom( ""// no comment"")
    // a // b
    ,
@rightPad (	' ' )i8
    float @lengthOf( tag ), @tag(
// " ++ [27880; 37322]%N ++ runes_of_ascii "
//x
255 ) match // trailing space 
rootA as
A { ""`tick`"" : asx ,
} ,
tag
    // " ++ [27880; 37322]%N ++ runes_of_ascii "
    { // a // b
zchar[
10
] asx , // trailing space 
} ,	Header {A @lengthOf(
len ) ,
string_ @lengthOf(Logon
)`tab	here` ,
i64_, } ,
    } options
    {matchKey =""1"" ; }
options { }
")).
Eval vm_compute in ("<<<M1338>>>" ++ check (runes_of_ascii "packet
    x{
    @calculatedFrom(
    ""\n""
// packet A { u8 x, }
// `tick` ""quote"" 'q'
)  repeat uint64 roots /// triple
, string falsey ,
    @calculatedFrom( ""{,}""
)
    repeatCount `two words`
, match roots as uint8x
{ ""`tick`"" :	chars,  007 : u, },
i32 Pad @lengthOf( string_	)  `it's`
    , //x
repeat u16 T , @rightPad('0'  )
    match u8x
    as matchKey { [""\" ++ [233]%N ++ runes_of_ascii """ ]
:// " ++ [27880; 37322]%N ++ runes_of_ascii "
repeatCount	""a\""b""
    :pack , 0
:
packetx ,  } , @lengthOf( Z9_ )@lengthOf(
f32a )
    string_ { match zchar as repeatCount { 255:crc , 007  : As , [
    0 , ""CRC32"" ]
: i8i8
,// 50% %s
} , leftPad,int {
    repeat float{
leftPad @lengthOf(	Logon ) // " ++ [27880; 37322]%N ++ runes_of_ascii "
,
    roots // packet A { u8 x, }
,//
} , repeat f64 Packet ,}
    , } , // c
}
")).
Eval vm_compute in ("<<<M694>>>" ++ check (runes_of_ascii "root packet roots
    { @lengthOf(
    _x )a1 @lengthOf( // a // b
stringy
) `{ , }` ,match // a // b
o
as
A { 42: i8i8 ,
    [""a\\"",  ""a\""b""	] : options1 ,  ""`tick`"" : falsey,
// `tick` ""quote"" 'q'
//	t
} , @calculatedFrom( ""packet""	)
    @lengthOf( zchar ) uint8 rootA //
,
//
/// triple
_x
, } packet pack { @tag(	3 )string int , u32 pack @lengthOf( Z9_ )`line1
line2`, a1 , @lengthOf(body) x //	t
T
`a\` ,
    string a1  , float32
    As
// c
// @lengthOf(
@calculatedFrom( """ ++ [233]%N ++ runes_of_ascii "t" ++ [233]%N ++ runes_of_ascii """ ), char[]	metadata `it's` , A `two words` ,@lengthOf(len
)	u128 { string  i8i8@lengthOf( calculatedFrom
) `` ,
    zchar[007
]	uint8x
`" ++ [233]%N ++ runes_of_ascii "` , Z9_
    { u16
    //	t
    matchKey ,
} , } ,}
// 50% %s
")).
Eval vm_compute in ("<<<M448>>>" ++ check (runes_of_ascii "packet BodyLength //
{  repeat BodyLength { x
@lengthOf( asx ), } , int
{MetaDataX
    @calculatedFrom(""x y""
// c
// " ++ [128512]%N ++ runes_of_ascii " emoji
), },  @calculatedFrom( // packet A { u8 x, }
""`tick`"")
int64 Z9_,repeat zchar[ 10 ]
BodyLength
    // `tick` ""quote"" 'q'
    ,  string
falsey
    `" ++ [28040; 24687; 31867; 22411]%N ++ runes_of_ascii "` , u16
// trailing space 
//
crc @lengthOf(u128 ) , char[ 7 ] i64_ ,
    falsey`u8 x,`, // trailing space 
repeat MetaDataX { repeat uint64 i8i8 `tab	here`
    , _x , } ,
@lengthOf(  x_y_z
) body { zchar[ 10 ] int `crlf
line`	, zchar[
4294967296 ]uint8x @calculatedFrom(""a\""b"")
    `
`
    // c
    ,
} , }options {
    Pad
= int32 T = ""x y""	; }MetaData asx { falsey packetx, }
")).
Eval vm_compute in ("<<<M3920>>>" ++ check (runes_of_ascii "packet msg_type {
    @leftPad('0')
    repeat zchar[4294967296] roots,
    repeat u32 u128,
    @rightPad('\x00')
    match x_y_z as As {
        007 : Foo,
    },
    @leftPad(' ')
    @leftPad()
    _x u,
    @tag(7)
    repeat chars {
        falsey leftPad `" ++ [28040; 24687; 31867; 22411]%N ++ runes_of_ascii "`,
        zchar[4294967296] packetx @lengthOf(i64_) `doc`,
        char[1] options1 @calculatedFrom(""1""),
    },
    i64 matchKey @calculatedFrom(""x y"") `line1
        line2`,
    zchar[007] uint8x ``,
    @lengthOf(falsey)
    @calculatedFrom(""" ++ [233]%N ++ runes_of_ascii "t" ++ [233]%N ++ runes_of_ascii """)
    // 50% %s
    As {
        //
        zchar {
            repeat int8 asx,
            repeat Packet,
        },
    },
}")).
Eval vm_compute in ("<<<M3318>>>" ++ check (runes_of_ascii "// top
root
    // c0
packet
    // c1
trueish
    // c2
{
    // c3
}
    // c4
MetaData
    // c5
x_y_z
    // c6
{
    // c7
zchar[
    // c8
7
    // c9
]
    // c10
body
    // c11
,
    // c12
BodyLength
    // c13
_x
    // c14
,
    // c15
i8i8
    // c16
As
    // c17
,
    // c18
i8
    // c19
Foo
    // c20
,
    // c21
}
    // c22
packet
    // c23
f32a
    // c24
{
    // c25
@lengthOf(
    // c26
x
    // c27
)
    // c28
match
    // c29
Foo
    // c30
as
    // c31
trueish
    // c32
{
    // c33
10
    // c34
:
    // c35
f32a
    // c36
,
    // c37
}
    // c38
,
    // c39
}
    // c40
")).
Eval vm_compute in ("<<<M507>>>" ++ check (runes_of_ascii "MetaData tag{
f64
// 50% %s
// `tick` ""quote"" 'q'
chars `" ++ [233]%N ++ runes_of_ascii "` ,
    }
packet string_
{ @calculatedFrom(
    """" )char[ 7 // @lengthOf(
]metadata// @lengthOf(
@lengthOf(// a // b
o) , string_ ,
    charz
    // 50% %s
    {
    char[ 1 ] msg_type// " ++ [128512]%N ++ runes_of_ascii " emoji
`two words` ,zchar[
    65535
] stringy,
char[ 007 ] roots @lengthOf(
matchKey ), }
,// @lengthOf(
match calculatedFrom
as
    // `tick` ""quote"" 'q'
    calculatedFrom { 10 : leftPad}  , i64_ @calculatedFrom(
""// no comment"" ),
    match len as
BodyLength{ [ ""CRC32"", ""\" ++ [233]%N ++ runes_of_ascii """
    ]
:MetaDataX , }
    ,uint64 trueish `
` /// triple
,}")).
Eval vm_compute in ("<<<M1327>>>" ++ check (runes_of_ascii "MetaData matchKey
    {
}	packet x_y_z
{
    repeat u64 zchar  `u8 x,` , @rightPad( ) @tag( 3 ) match int as //
stringy { // c
[ 0 ] :
chars, 0 :i8i8 42 : i64_  , [ 255
    ,
    // @lengthOf(
    7 // a // b
,""1"" ,""a\\""] : leftPad , """ ++ [233]%N ++ runes_of_ascii "t" ++ [233]%N ++ runes_of_ascii """
: Header,
    [// packet A { u8 x, }
7 ] : repeatCount
    //
    , }
, } root packet
    f32a {match packetx as Logon{  ""`tick`""
: u128,	42
: string_
// c
// packet A { u8 x, }
""it's""
/// triple
// `tick` ""quote"" 'q'
:
uint8x ,""abc"": u, ""abc""
    :packetx
,
00
: T
    , } , } options {
stringy = """ ++ [128512]%N ++ runes_of_ascii """; }
    packet roots { }
")).
Eval vm_compute in ("<<<M537>>>" ++ check (runes_of_ascii "MetaData Logon {
    pack roots `{ , }`
,
    }packet x // `tick` ""quote"" 'q'
{
} options {// packet A { u8 x, }
} packet crc
//
// trailing space 
{ repeat u64
    roots`say ""hi""` , zchar[
    007
] repeatCount @lengthOf( trueish // " ++ [128512]%N ++ runes_of_ascii " emoji
),@tag( 0 )
    charz { A { a1 falsey
, } ,	match As	as f32a	{ 42 : u8x, } , Logon @calculatedFrom( """" )
`100% of %d` , } ,falsey @calculatedFrom( ""x y"" ),  repeat
char[ //
65535
    // `tick` ""quote"" 'q'
    ] rootA `
`  ,
@calculatedFrom(
    ""`tick`"")  @calculatedFrom(
""a	b"" )
repeat zchar zchar
,}
")).
Eval vm_compute in ("<<<M695>>>" ++ check (runes_of_ascii "root
    packet o{ @tag(	65535 )
repeat zchar[ 0 ] Foo
    `100% of %d` , @rightPad
( '0'
) stringy // a // b
{ Pad  { stringy falsey , int32 metadata @lengthOf(
    x_y_z )
    ,
} ,
    }	,@rightPad (
) @tag(10 )
    // a // b
    BodyLength
`a\`
    , msg_type rootA, } packet i8i8 { @rightPad
    (
' '
)repeat A`a\`, char[4294967296] // a // b
x  @calculatedFrom(
""" ++ [28040; 24687]%N ++ runes_of_ascii """ )
    // " ++ [128512]%N ++ runes_of_ascii " emoji
    `" ++ [233]%N ++ runes_of_ascii "`
,
    repeat//x
string i8i8, MetaDataX{
// trailing space 
// a // b
float64 Z9_
@calculatedFrom(""" ++ [233]%N ++ runes_of_ascii "t" ++ [233]%N ++ runes_of_ascii """ )
    ,
} , }
")).
Eval vm_compute in ("<<<M4094>>>" ++ check (runes_of_ascii "
packet int{
        // " ++ [128512]%N ++ runes_of_ascii " emoji
    	}options  {  Z9_
    =
' ' ; repeatCount 
=0
Header = zchar[

007	]i64_

    /// triple
	  // " ++ [128512]%N ++ runes_of_ascii " emoji
  =  """ ++ [128512]%N ++ runes_of_ascii """;
	}  root packet leftPad
{

roots , }
root  packet 
Foo

    { repeat 	 //x
MetaDataX
    u8x`crlf
line`

    ,

    @lengthOf(
Header  )  zchar[ 65535]metadata `u8 x,`	, @tag(

    65535
)	stringy

{ 
options1	@lengthOf(	asx )
    ,} ,

    char[

0 ]
Packet
    `two words`
    , 
@lengthOf(u8x )	int
@lengthOf(
	Logon

)  , }

")).
Eval vm_compute in ("<<<M3759>>>" ++ check (runes_of_ascii "root packet len {
    @lengthOf(MetaDataX)
    int @lengthOf(u8x) `" ++ [233]%N ++ runes_of_ascii "`,
    @calculatedFrom(""1"")
    @lengthOf(Packet)
    u128 @lengthOf(Foo) `line1
        line2`,
    zchar[10] u128 @lengthOf(i64_),
    rootA uint8x,
    // 50% %s
    f64 falsey `a\`,
    repeat char[] asx,
    repeat chars As `crlf
        line`,
    int {
        repeat matchKey ``,
    },
    // " ++ [128512]%N ++ runes_of_ascii " emoji
    match lengthOf as trueish {
        ""\n"" : Foo,
        ""\" ++ [233]%N ++ runes_of_ascii """ : i8i8,
    },
}

options {
}")).
Eval vm_compute in ("<<<M4324>>>" ++ check (runes_of_ascii "options
{ } packet Pad
	{  repeat 

    //	t
	packetx  rootA`" ++ [233]%N ++ runes_of_ascii "`

,  char[ 
255
    ]	asx

    `u8 x,`
,	}
	packet f32a  { 	 /// triple
repeat len
    ,	//x

  match
	calculatedFrom as
    u128
    { 
    // " ++ [128512]%N ++ runes_of_ascii " emoji
// " ++ [128512]%N ++ runes_of_ascii " emoji
    0123456789 :
	crc
    ,

[
	0
	, 10 
,
""" ++ [128512]%N ++ runes_of_ascii """, 65535
, 
// 50% %s
      //
7	,
""it's"",  0123456789

    ] :

    i64_ , 0123456789 
:	msg_type// " ++ [27880; 37322]%N ++ runes_of_ascii "

	, 
},

} 
options {
Z9_	=
string  ;
    matchKey	=
""packet"" }
")).
Eval vm_compute in ("<<<M3582>>>" ++ check (runes_of_ascii "
packet chars	{
    }packet
leftPad
	{ 
  // `tick` ""quote"" 'q'

@tag( 
3

)  
  // packet A { u8 x, }
As

@calculatedFrom(	""abc"")  /// triple

,  //x

repeat 	 //
    string

    rootA// a // b

	,
	repeat	char[]falsey  
  // c
`{ , }`  ,	char[] 
zchar
    @calculatedFrom( 
""\" ++ [233]%N ++ runes_of_ascii """ ) ``

    ,
}	MetaData lengthOf

    {

char[ 255 ]
    MetaDataX `{ , }` ,
    // a // b
} packet	charz

    { 	 // 50% %s
i64
	charz,
}")).
Eval vm_compute in ("<<<M4084>>>" ++ check (runes_of_ascii "
MetaData
rootA{  zchar[
    007
]  uint8x `u8 x,` ,char[]

lengthOf `a\`	, As MetaDataX ,

zchar[  10	]
    len
	,// @lengthOf(
  chars As
    , }
    packet

    pack 
{  }
root packet
	chars
	{	@tag( 	 //	t
    3
)	i64 	 // 50% %s
  	leftPad `tab	here`
	, rootA ,  @leftPad( 
'0' )repeat 
  // trailing space 
	// trailing space 
int64 uint8x// trailing space 
  ,

    f32a

    tag
,}// @lengthOf(
")).
Eval vm_compute in ("<<<M1378>>>" ++ check (runes_of_ascii "options/// triple
{ MetaDataX =
// 50% %s
// @lengthOf(
65535 ; }
    root
    packet
chars
    { match
    leftPad
as charz { 65535:
T ,	}
    // packet A { u8 x, }
    ,  string_
    @lengthOf( // " ++ [128512]%N ++ runes_of_ascii " emoji
float
)
    , BodyLength float // c
,@tag( 0123456789
    )
repeat
    f32 rootA`two words`
,	}	options { a1 =0 body = false f32a
= ""`tick`""x= // `tick` ""quote"" 'q'
char[ 4294967296  ]
; }
")).
Eval vm_compute in ("<<<M251>>>" ++ check (runes_of_ascii "root packet
x_y_z { repeat
    options1 {
int8 len // packet A { u8 x, }
, zchar[  00
] A // trailing space 
@calculatedFrom(
""CRC32""
    ), zchar[255 ] body
`line1
line2` ,
char[3  ]
// trailing space 
// packet A { u8 x, }
MetaDataX ,  } ,
    string zchar @calculatedFrom( ""\" ++ [233]%N ++ runes_of_ascii """ ) , }packet //	t
roots {
@rightPad ('\x00') repeat len
, string options1 ,	string As
    `" ++ [233]%N ++ runes_of_ascii "`
,
}")).
Eval vm_compute in ("<<<M428>>>" ++ check (runes_of_ascii "MetaData Header
    //x
    { } packet body
{ @calculatedFrom(  ""// no comment""
    )
match
    BodyLength as	a1 {
    // " ++ [27880; 37322]%N ++ runes_of_ascii "
    [ """ ++ [28040; 24687]%N ++ runes_of_ascii """
    ] :
msg_type [
1 ,7	]
: charz,
    0 :Logon ,
// " ++ [128512]%N ++ runes_of_ascii " emoji
// a // b
}, }
options { options1
=
'0' trueish
// trailing space 
// a // b
=
7  ;	i8i8
= '\x00' ;
    } root packet Z9_
    { } MetaData  pack {
uint8x u128 , }")).
Eval vm_compute in ("<<<M3890>>>" ++ check (runes_of_ascii "packet Pad {
    crc @lengthOf(u128),
    x `tab	here`,
    match roots as _x {
        ["""", 1] : pack,
        // " ++ [128512]%N ++ runes_of_ascii " emoji
        //
        [""" ++ [233]%N ++ runes_of_ascii "t" ++ [233]%N ++ runes_of_ascii """, ""x y"", ""abc"", 0] : pack,
        65535 : falsey,
    },
    uint8 o,
    lengthOf @lengthOf(Z9_),// trailing space 
    uint8 _x `two words`,
    leftPad,
    repeatCount @calculatedFrom(""abc""),
}")).
Eval vm_compute in ("<<<M4120>>>" ++ check (runes_of_ascii "options {
    LittleEndian
    =

true 
;
	FixedStringPadChar

=
    '0'
    ; 
} packet  Heartbeat { zchar[ 
5
]

sym
, 
repeat

    char[ 
3
]
OrderId,} root  packet Quote {u64 lastPx ,
    repeat  u8
	venue
,
    Heartbeat	, InSym1

{

    char[ 
3

    ]	Acct, 
char[] lastPx  ,Heartbeat
	, repeat string  x
	,

}	,
	}
")).
Eval vm_compute in ("<<<M4109>>>" ++ check (runes_of_ascii "options {
    LittleEndian = true;
    FixedStringPadChar = '0';
}

packet Heartbeat {
    zchar[5] sym,
    repeat char[3] OrderId,
}

root packet Quote {
    u64 lastPx,
    repeat u8 venue,
    Heartbeat,
    InSym1 {
        char[3] Acct,
        char[] lastPx,
        Heartbeat,
        repeat string x,
    },
}")).
Eval vm_compute in ("<<<M719>>>" ++ check (runes_of_ascii "
MetaData A { zchar falsey	`u8 x,`
    , }MetaData
len // " ++ [27880; 37322]%N ++ runes_of_ascii "
{ msg_type
Z9_ `crlf
line`, int32 packetx
    // trailing space 
    , int64 matchKey ,// a // b
f32 As ,
    zchar[
    00] u8x
`u8 x,` ,
    zchar[ 0123456789 ]
Logon `line1
line2`  ,// a // b
} options { Packet =//x
""a\\"";} // @lengthOf(")).
Eval vm_compute in ("<<<M4350>>>" ++ check (runes_of_ascii "options {
    Pad = ""packet"";
}

packet i8i8 {
    repeat string Foo,
}

options {
    float = float32;
}// 50% %s

options {
    As = char[];
    //	t
    roots = ""it's""
}

packet leftPad {
    @tag(42)
    repeat _x `crlf
        line`,
    @calculatedFrom(""x y"")
    repeat char[] Pad,
}")).
Eval vm_compute in ("<<<M283>>>" ++ check (runes_of_ascii "root packet falsey{string	stringy
    `tab	here`, repeat float As
, char[] Packet ,
i8 //
body
@lengthOf(// @lengthOf(
T
    ) ,repeat
A // packet A { u8 x, }
`a\` /// triple
, u8x @calculatedFrom( ""\" ++ [233]%N ++ runes_of_ascii """)`tab	here`
,float
    ,char[
    42 ]
    i8i8
    `u8 x,` , // a // b
}")).
Eval vm_compute in ("<<<M1201>>>" ++ check (runes_of_ascii "MetaData charz { msg_type //x
metadata`two words` ,
    //
    char[  7 ] uint8x `two words` , i16 leftPad ,
// " ++ [128512]%N ++ runes_of_ascii " emoji
// c
float64	repeatCount
`` // c
, } options
{
    o = false
    ; packetx =	true ;
float=
    //x
    ""it's""
; f32a =
//
// " ++ [128512]%N ++ runes_of_ascii " emoji
""\n"";
Z9_=0 }
")).
Eval vm_compute in ("<<<M1584>>>" ++ check (runes_of_ascii "// 50% %s
packet	a1
    { zchar[
// a // b
// 50% %s
007]
T `it's`
    ,@rightPad
    // a // b
    (
'\x00')
    false repeatCount , }  packet Logon {  }packet	Logon //x
{ repeat // " ++ [128512]%N ++ runes_of_ascii " emoji
uint16 u128
    //
    `a\`,
falsey
@calculatedFrom(""packet"" ) ,
    } 	 ")).
Eval vm_compute in ("<<<M1688>>>" ++ check (runes_of_ascii "// 50% %s
packet	a1
    { zchar[
// a // b
// 50% %s
007]
T `it's`
    ,@rightPad
    // a // b
    (
'\x00')
    o repeatCount , }  packet Logon {  }packet	Logon //x
{ repeat // " ++ [128512]%N ++ runes_of_ascii " emoji
uint16 u128
    //
    `a\`,
falsey
@calculatedFrom(""packet"" ) ,
    i16 	 ")).
Eval vm_compute in ("<<<M1574>>>" ++ check (runes_of_ascii "// 50% %s
packet	a1
    { zchar[
// a // b
// 50% %s
007]
T `it's`
    ,@rightPad
    // a // b
    (
repeat)
    o repeatCount , }  packet Logon {  }packet	Logon //x
{ repeat // " ++ [128512]%N ++ runes_of_ascii " emoji
uint16 u128
    //
    `a\`,
falsey
@calculatedFrom(""packet"" ) ,
    } 	 ")).
Eval vm_compute in ("<<<M1566>>>" ++ check (runes_of_ascii "// 50% %s
packet	a1
    { zchar[
// a // b
// 50% %s
007]
T `it's`
    ,@rightPad
    // a // b
    
'\x00')
    o repeatCount , }  packet Logon {  }packet	Logon //x
{ repeat // " ++ [128512]%N ++ runes_of_ascii " emoji
uint16 u128
    //
    `a\`,
falsey
@calculatedFrom(""packet"" ) ,
    } 	 ")).
Eval vm_compute in ("<<<M1646>>>" ++ check (runes_of_ascii "// 50% %s
packet	a1
    { zchar[
// a // b
// 50% %s
007]
T `it's`
    ,@rightPad
    // a // b
    (
'\x00')
    o repeatCount , }  packet Logon {  }packet	Logon //x
{ repeat // " ++ [128512]%N ++ runes_of_ascii " emoji
uint16 
    //
    `a\`,
falsey
@calculatedFrom(""packet"" ) ,
    } 	 ")).
Eval vm_compute in ("<<<M1561>>>" ++ check (runes_of_ascii "// 50% %s
packet	a1
    { zchar[
// a // b
// 50% %s
007]
T `it's`
    ,
    // a // b
    (
'\x00')
    o repeatCount , }  packet Logon {  }packet	Logon //x
{ repeat // " ++ [128512]%N ++ runes_of_ascii " emoji
uint16 u128
    //
    `a\`,
falsey
@calculatedFrom(""packet"" ) ,
    } 	 ")).
Eval vm_compute in ("<<<M3425>>>" ++ check (runes_of_ascii "options
	{
FixedStringPadChar
    =

'0'  ;

} packet	Q

    {
zchar[ 4

    ]  z 
, @rightPad

(

    '\x00' ) 
char[

3

] n, 
char[ 
5 
]
	d	,

    }
root packet

    R

{ Q ,zchar[
8 ]top  , repeat

    zchar[ 2]

    zs,
	}
")).
Eval vm_compute in ("<<<M4018>>>" ++ check (runes_of_ascii "MetaData pack {
    calculatedFrom Pad,
    o f32a `doc`,
    char[0123456789] Z9_ `line1
        line2`,
    string string_ `it's`,
}

options {
    As = '0';
    x_y_z = 255;
    A = ' '
    a1 = i16;
    zchar = 0
}

MetaData crc {
}")).
Eval vm_compute in ("<<<M108>>>" ++ check (runes_of_ascii "MetaData Foo{ uint64
uint8x
`` ,int16
Z9_
    ,
    uint8x i8i8,
}
packet Header { @lengthOf(o  ) @rightPad
    ( '0'  )
zchar[ 0123456789 ] Z9_,
} packet	Foo { repeat	uint8 T , }packet packetx
    // @lengthOf(
    { }")).
Eval vm_compute in ("<<<M1660>>>" ++ check (runes_of_ascii "// 50% %s
packet	a1
    { zchar[
// a // b
// 50% %s
007]
T `it's`
    ,@rightPad
    // a // b
    (
'\x00')
    o repeatCount , }  packet Logon {  }packet	Logon //x
{ repeat // " ++ [128512]%N ++ runes_of_ascii " emoji
uint16 u128
    //
    `a\`")).
Eval vm_compute in ("<<<M4313>>>" ++ check (runes_of_ascii "root packet MetaDataX {
}

packet uint8x {
    crc @calculatedFrom(""a	b"") `it's`,
    repeat string zchar `" ++ [233]%N ++ runes_of_ascii "`,
    match lengthOf as u {
        """" : zchar,
    },
    @tag(3)
    repeat string f32a `it's`,
}")).
Eval vm_compute in ("<<<M1693>>>" ++ check (runes_of_ascii "// 50% %s
packet	a1
    { zchar[
// a // b
// 50% %s
007]
T `it's`
    ,@rightPad
    // a // b
    (
'\x00')
    o repeatCount , }  packet Logon {  }packet	Logon //x
{ repeat // " ++ [128512]%N ++ runes_of_ascii " emoji
uint16 ")).
Eval vm_compute in ("<<<M22>>>" ++ check (runes_of_ascii "
MetaData string_ { uint32 f32a `crlf
line` ,
    zchar[ 0123456789
    ]string_ `100% of %d`,stringy// `tick` ""quote"" 'q'
u	`it's` ,char
    Z9_
, a1
f32a // c
,	char[ 1 ] a1
,
    }
")).
Eval vm_compute in ("<<<M4386>>>" ++ check (runes_of_ascii "packet falsey {
    zchar[1] a1 @calculatedFrom(""a\\""),
    u8x _x,
    float64 rootA,
    Foo {
        match stringy as calculatedFrom {
            3 : o,
        },
    },
}")).
Eval vm_compute in ("<<<M691>>>" ++ check (runes_of_ascii "packet u8x {repeat MetaDataX repeatCount
// `tick` ""quote"" 'q'
//
, }MetaData
u128 { // a // b
uint8
    charz `u8 x,`// " ++ [128512]%N ++ runes_of_ascii " emoji
,a1 charz
, f32 Foo , falsey packetx, }")).
Eval vm_compute in ("<<<M444>>>" ++ check (runes_of_ascii "
MetaData As // a // b
{zchar[4294967296
] T/// triple
`doc`
    ,
int64 trueish
    ,
    // a // b
    i8 calculatedFrom	`
`, }
packet packetx{ i64 crc
    , }")).
Eval vm_compute in ("<<<M2123>>>" ++ check (runes_of_ascii "MetaData BodyLength
{ int8 Foo
, string
    MetaDataX , float zchar ,pack options1
,@calculatedFrom( string_, }
packet u8x {Foo@lengthOf(charz )
`" ++ [28040; 24687; 31867; 22411]%N ++ runes_of_ascii "`,  }
")).
Eval vm_compute in ("<<<M974>>>" ++ check (runes_of_ascii "MetaData MetaDataX // packet A { u8 x, }
{ uint8
    stringy// `tick` ""quote"" 'q'
`a\` , float32 // @lengthOf(
f32a , u32 T , float32 uint8x
, } // " ++ [27880; 37322]%N)).
Eval vm_compute in ("<<<M4363>>>" ++ check (runes_of_ascii "MetaData As {
    zchar[4294967296] T `doc`,
    int64 trueish,
    // a // b
    i8 calculatedFrom `
        `,
}

packet packetx {
    i64 crc,
}")).
Eval vm_compute in ("<<<M3286>>>" ++ check (runes_of_ascii "// top
packet // c0
u8x // c1
{ // c2
} // c3
MetaData // c4
crc // c5
{ // c6
char[ // c7
4294967296 // c8
] // c9
Foo // c10
, // c11
} // c12
")).
Eval vm_compute in ("<<<M2057>>>" ++ check (runes_of_ascii "MetaData BodyLength
int8 { Foo
, string
    MetaDataX , float zchar ,pack options1
,asx string_, }
packet u8x {Foo@lengthOf(charz )
`" ++ [28040; 24687; 31867; 22411]%N ++ runes_of_ascii "`,  }
")).
Eval vm_compute in ("<<<M692>>>" ++ check (runes_of_ascii "root
packet MetaDataX	{ zchar  Foo ,} options// packet A { u8 x, }
{ Logon =  ""1"" T = string ; leftPad =
' '
    // trailing space 
    ;  }
")).
Eval vm_compute in ("<<<M2219>>>" ++ check (runes_of_ascii "options
    {
x_y_z x_y_z// " ++ [27880; 37322]%N ++ runes_of_ascii "
= 10 ; }
packet body {
    @calculatedFrom(
// trailing space 
// " ++ [27880; 37322]%N ++ runes_of_ascii "
""1""
)	match T as Foo
    {
255 :T , }
,}")).
Eval vm_compute in ("<<<M1962>>>" ++ check (runes_of_ascii "
packet leftPad {
@leftPad( '0')
u32 u32
i64_ `100% of %d` ,repeat// 50% %s
i8 chars
    ,
} MetaData
    f32a
{ // packet A { u8 x, }
}")).
Eval vm_compute in ("<<<M2165>>>" ++ check (runes_of_ascii "MetaData BodyLength
{ int8 Foo
, string
    MetaDataX , float zchar ,pack options1
,asx string_, }
packet u8x {Foo@lengthOf( )
`" ++ [28040; 24687; 31867; 22411]%N ++ runes_of_ascii "`,  }
")).
Eval vm_compute in ("<<<M2271>>>" ++ check (runes_of_ascii "options
    {
x_y_z// " ++ [27880; 37322]%N ++ runes_of_ascii "
= 10 ; }
packet body {
    @calculatedFrom(
// trailing space 
// " ++ [27880; 37322]%N ++ runes_of_ascii "
""1""
i32	match T as Foo
    {
255 :T , }
,}")).
Eval vm_compute in ("<<<M2339>>>" ++ check (runes_of_ascii "options
    {
x_y_z// " ++ [27880; 37322]%N ++ runes_of_ascii "
= 10 ; }
packet body {
    @calculatedFrom(
// trailing space 
// " ++ [27880; 37322]%N ++ runes_of_ascii "
""1""
)	match T as Foo
    {
255 :T , }
,\}")).
Eval vm_compute in ("<<<M2018>>>" ++ check (runes_of_ascii "
packet leftPad {
@leftPad( '0')
u32
i64_ `100% of %d` ,repeat// 50% %s
i8 chars
    ,
} MetaData
    f32a
} // packet A { u8 x, }
{")).
Eval vm_compute in ("<<<M3546>>>" ++ check (runes_of_ascii "  packet	A
    {

match
k

as
n

{[
""a""  , ""bb""
, 
007
    ,""d""	,	""e""
    ,66
	,""g"",  ""h"",

9

,""j"" , ""k""	]	: 
B
	2:

    C
}

, }")).
Eval vm_compute in ("<<<M2323>>>" ++ check (runes_of_ascii "options
    {
x_y_z// " ++ [27880; 37322]%N ++ runes_of_ascii "
= 10 ; }
packet body {
    @calculatedFrom(
// trailing space 
// " ++ [27880; 37322]%N ++ runes_of_ascii "
""1""
)	match T as Foo
    {
255 :T , }
}")).
Eval vm_compute in ("<<<M1966>>>" ++ check (runes_of_ascii "
packet leftPad {
@leftPad( '0')
u32
 `100% of %d` ,repeat// 50% %s
i8 chars
    ,
} MetaData
    f32a
{ // packet A { u8 x, }
}")).
Eval vm_compute in ("<<<M1927>>>" ++ check (runes_of_ascii "
 leftPad {
@leftPad( '0')
u32
i64_ `100% of %d` ,repeat// 50% %s
i8 chars
    ,
} MetaData
    f32a
{ // packet A { u8 x, }
}")).
Eval vm_compute in ("<<<M1888>>>" ++ check (runes_of_ascii "packet o {
    roots `it's`
// trailing space 
//x
, char[ 42
    ]  A, // " ++ [27880; 37322]%N ++ runes_of_ascii "
f64
repeatCount repeatCount
    `crlf
line`
,}")).
Eval vm_compute in ("<<<M2261>>>" ++ check (runes_of_ascii "options
    {
x_y_z// " ++ [27880; 37322]%N ++ runes_of_ascii "
= 10 ; }
packet body {
    char
// trailing space 
// " ++ [27880; 37322]%N ++ runes_of_ascii "
""1""
)	match T as Foo
    {
255 :T , }
,}")).
Eval vm_compute in ("<<<M2258>>>" ++ check (runes_of_ascii "options
    {
x_y_z// " ++ [27880; 37322]%N ++ runes_of_ascii "
= 10 ; }
packet body {
    
// trailing space 
// " ++ [27880; 37322]%N ++ runes_of_ascii "
""1""
)	match T as Foo
    {
255 :T , }
,}")).
Eval vm_compute in ("<<<M1838>>>" ++ check (runes_of_ascii "packet o { {
    roots `it's`
// trailing space 
//x
, char[ 42
    ]  A, // " ++ [27880; 37322]%N ++ runes_of_ascii "
f64
repeatCount
    `crlf
line`
,}")).
Eval vm_compute in ("<<<M1922>>>" ++ check (runes_of_ascii "packet o {
    roots `it's`
// trailing space 
//x
, char[ 42
    ]  " ++ [8232]%N ++ runes_of_ascii "A, // " ++ [27880; 37322]%N ++ runes_of_ascii "
f64
repeatCount
    `crlf
line`
,}")).
Eval vm_compute in ("<<<M4305>>>" ++ check (runes_of_ascii "options {
    LittleEndian = true;
}

root packet P {
    u16 a,
    u32 Sum @calculatedFrom(""CR\
        C32""),
}")).
Eval vm_compute in ("<<<M3991>>>" ++ check (runes_of_ascii "
packet	A{ u16	len @lengthOf( body
)`x
` , u32

    crc@calculatedFrom( 
""CRC32""  )`x
` 
, string
	body
, }
")).
Eval vm_compute in ("<<<M1842>>>" ++ check (runes_of_ascii "packet o {
     `it's`
// trailing space 
//x
, char[ 42
    ]  A, // " ++ [27880; 37322]%N ++ runes_of_ascii "
f64
repeatCount
    `crlf
line`
,}")).
Eval vm_compute in ("<<<M3044>>>" ++ check (runes_of_ascii "packet A {
    u16 len @lengthOf(body) `x
`,
    u32 crc @calculatedFrom(""CRC32"") `x
`,
    string body,
}")).
Eval vm_compute in ("<<<M1887>>>" ++ check (runes_of_ascii "packet o {
    roots `it's`
// trailing space 
//x
, char[ 42
    ]  A, // " ++ [27880; 37322]%N ++ runes_of_ascii "
f64

    `crlf
line`
,}")).
Eval vm_compute in ("<<<M2991>>>" ++ check (runes_of_ascii "packet A {
  match k as n {
    [1, ""bb"", 007, ""d"", 5, ""f"", 7, ""h"", 9, ""j"", 11] : B
    2 : C
  },
}")).
Eval vm_compute in ("<<<M2977>>>" ++ check (runes_of_ascii "packet A {
  match k as n {
    [1, ""bb"", 007, ""d"", 5, ""f"", 7, ""h"", 9, ""j""] : B,
    2 : C
  },
}")).
Eval vm_compute in ("<<<M2634>>>" ++ check (runes_of_ascii "packet A { @rightPad(' ') @lengthOf(b) @calculatedFrom(""c"") @tag(007) match k as n { 1 : B }, }")).
Eval vm_compute in ("<<<M2788>>>" ++ check (runes_of_ascii "MetaData false i32 root @lengthOf( @leftPad match false i64 `a\` char[] @lengthOf( i32 string")).
Eval vm_compute in ("<<<M2791>>>" ++ check (runes_of_ascii "i8 int32 repeat `tab	here` @lengthOf( uint32 007 ( ""\n"" @tag( @lengthOf( int64 f32 @rightPad")).
Eval vm_compute in ("<<<M1321>>>" ++ check (runes_of_ascii "root packet
/// triple
// 50% %s
int { char[]
    len
    ,repeat
float32
trueish `" ++ [233]%N ++ runes_of_ascii "`,
}
")).
Eval vm_compute in ("<<<M4233>>>" ++ check (runes_of_ascii "packet A {
    Inner {
        match k as n {
            [1, 22] : B,
        },
    },
}")).
Eval vm_compute in ("<<<M2005>>>" ++ check (runes_of_ascii "
packet leftPad {
@leftPad( '0')
u32
i64_ `100% of %d` ,repeat// 50% %s
i8 chars
    ,")).
Eval vm_compute in ("<<<M1736>>>" ++ check (runes_of_ascii "options{  lengthOf =//x
i16; ;
    BodyLength = 0 ; pack
= false;
    A = char[ 3 ] }")).
Eval vm_compute in ("<<<M1798>>>" ++ check (runes_of_ascii "options{  lengthOf =//x
i16;
    BodyLength = 0 ; pack
= false;
    A = char[ as ] }")).
Eval vm_compute in ("<<<M1792>>>" ++ check (runes_of_ascii "options{  lengthOf =//x
i16;
    BodyLength = 0 ; pack
= false;
    A = 3 char[ ] }")).
Eval vm_compute in ("<<<M3088>>>" ++ check (runes_of_ascii "packet A {
    u32 crc @calculatedFrom(""%d%s""),
    @calculatedFrom(""%d%s"") u8 y,
}")).
Eval vm_compute in ("<<<M4020>>>" ++ check (runes_of_ascii "

  options

    {leftPad// trailing space 
=

    ""x y""  // " ++ [27880; 37322]%N ++ runes_of_ascii "
  ;

    } ")).
Eval vm_compute in ("<<<M3011>>>" ++ check (runes_of_ascii "packet A { Inner { match k as n { [1,22,007,4,5,66,7,8,9,10,11,12] : B, }, }, }")).
Eval vm_compute in ("<<<M3274>>>" ++ check (runes_of_ascii "MetaData Foo { zchar[ 0 ] matchKey , } options { lengthOf = i32 u
// c
= 00 ; }")).
Eval vm_compute in ("<<<M1342>>>" ++ check (runes_of_ascii "packet
    u128	{
    @calculatedFrom(""\n"" // c
)	a1 `// not a comment`, }
")).
Eval vm_compute in ("<<<M4215>>>" ++ check (runes_of_ascii "packet Inner {
    u8 a,
}

root packet P {
    Inner ref_obj,
    u8 x,
}")).
Eval vm_compute in ("<<<M390>>>" ++ check (runes_of_ascii "options  {
// a // b
// trailing space 
calculatedFrom
    = string }

")).
Eval vm_compute in ("<<<M1495>>>" ++ check (runes_of_ascii "packet
T
{ match repeatCount as	calculatedFrom
{ [65535 ]	: As	,
} ,")).
Eval vm_compute in ("<<<M2819>>>" ++ check (runes_of_ascii "i16 ( @leftPad 0123456789 as len x_y_z i16 i64 as char root float32")).
Eval vm_compute in ("<<<M2883>>>" ++ check (runes_of_ascii "packet A {
  match k as n {
    [1, 22, 007] : B
    2 : C
  },
}")).
Eval vm_compute in ("<<<M76>>>" ++ check (runes_of_ascii "options { Pad
    = char[ 7
] ;	asx
= ""CRC32"" ; a1 =	string ;}")).
Eval vm_compute in ("<<<M3298>>>" ++ check (runes_of_ascii "packet u8x { }
// c
MetaData crc { char[ 4294967296 ] Foo , }")).
Eval vm_compute in ("<<<M4237>>>" ++ check (runes_of_ascii "root
packet	u128

    {
chars

`doc` 
    // c
    ,
	}
")).
Eval vm_compute in ("<<<M3205>>>" ++ check (runes_of_ascii "packet A { // a
 @tag(1) u8 x, // b
 // c
 @tag(2) u8 y, }")).
Eval vm_compute in ("<<<M2775>>>" ++ check (runes_of_ascii "i64 ' ' MetaData `line1
line2` options [ ] packet int32")).
Eval vm_compute in ("<<<M796>>>" ++ check (runes_of_ascii "options
    {
lengthOf =  char[
    4294967296 ]; }")).
Eval vm_compute in ("<<<M2712>>>" ++ check (runes_of_ascii "' ' int8 i16 i32 root int16 as } 10 true { ] root")).
Eval vm_compute in ("<<<M304>>>" ++ check (runes_of_ascii "// " ++ [128512]%N ++ runes_of_ascii " emoji
MetaData
    lengthOf	{ int16
asx,}")).
Eval vm_compute in ("<<<M1341>>>" ++ check (runes_of_ascii "options {BodyLength // " ++ [27880; 37322]%N ++ runes_of_ascii "
=
    4294967296	}")).
Eval vm_compute in ("<<<M1812>>>" ++ check (runes_of_ascii "options{  lengthOf =//x
i16;
    BodyLengt")).
Eval vm_compute in ("<<<M2371>>>" ++ check (runes_of_ascii "MetaData
Foo {Header //
pack pack ,	} 	 ")).
Eval vm_compute in ("<<<M3228>>>" ++ check (runes_of_ascii "root packet u128 {
// c
chars `doc` , }")).
Eval vm_compute in ("<<<M787>>>" ++ check (runes_of_ascii "MetaData	pack
{ // trailing space 
}")).
Eval vm_compute in ("<<<M2395>>>" ++ check (runes_of_ascii "MetaData
Foo {Header //
pack ,	}" ++ [127]%N ++ runes_of_ascii " 	 ")).
Eval vm_compute in ("<<<M2649>>>" ++ check (runes_of_ascii "root packet A { } root packet B { }")).
Eval vm_compute in ("<<<M3785>>>" ++ check (runes_of_ascii "packet

    A  { u8
	x `a
b`,} ")).
Eval vm_compute in ("<<<M2733>>>" ++ check ([65533; 26; 65533; 65533]%N ++ runes_of_ascii "G'0=*" ++ [65533; 65533]%N ++ runes_of_ascii "4A" ++ [12; 16; 448; 65533; 65533]%N ++ runes_of_ascii "ZV" ++ [65533]%N ++ runes_of_ascii "R" ++ [65533; 65533; 65533; 15; 65533; 65533; 127]%N ++ runes_of_ascii "6PD")).
Eval vm_compute in ("<<<M3029>>>" ++ check (runes_of_ascii "root packet A {
    u8 x `
`,
}")).
Eval vm_compute in ("<<<M4062>>>" ++ check (runes_of_ascii "options {
    int = zchar[1]
}")).
Eval vm_compute in ("<<<M2766>>>" ++ check (runes_of_ascii "yLP*Q*,_|>^~dti}RS[8 ^K`SUgd")).
Eval vm_compute in ("<<<M2864>>>" ++ check (runes_of_ascii "Oia*""9c2dIS9]`'`6Uf$Mb""maX?")).
Eval vm_compute in ("<<<M1106>>>" ++ check (runes_of_ascii "// " ++ [27880; 37322]%N ++ runes_of_ascii "
 // trailing space ")).
Eval vm_compute in ("<<<M4221>>>" ++ check (runes_of_ascii "// " ++ [27880; 37322]%N ++ runes_of_ascii "
// trailing space ")).
Eval vm_compute in ("<<<M2784>>>" ++ check (runes_of_ascii "as = [ u64 i64 i16 i64")).
Eval vm_compute in ("<<<M1021>>>" ++ check (runes_of_ascii "
packet Pad { }
//x
")).
Eval vm_compute in ("<<<M2724>>>" ++ check (runes_of_ascii """{,}"" false options")).
Eval vm_compute in ("<<<M3112>>>" ++ check (runes_of_ascii "packet A {
}
// c" ++ [5760]%N)).
Eval vm_compute in ("<<<M985>>>" ++ check (runes_of_ascii "packet x_y_z {
}
")).
Eval vm_compute in ("<<<M3198>>>" ++ check (runes_of_ascii "options { // a
 }")).
Eval vm_compute in ("<<<M2714>>>" ++ check (runes_of_ascii "QQ" ++ [65533; 1731]%N ++ runes_of_ascii "V" ++ [65533; 65533; 65533]%N ++ runes_of_ascii "b" ++ [65533; 65533; 65533; 65533; 65533]%N ++ runes_of_ascii "")).
Eval vm_compute in ("<<<M185>>>" ++ check (runes_of_ascii "
 // a // b")).
Eval vm_compute in ("<<<M2493>>>" ++ check (runes_of_ascii "@centerPad")).
Eval vm_compute in ("<<<M2472>>>" ++ check (runes_of_ascii "Metadata")).
Eval vm_compute in ("<<<M2449>>>" ++ check (runes_of_ascii "uint88")).
Eval vm_compute in ("<<<M2492>>>" ++ check (runes_of_ascii "@left")).
Eval vm_compute in ("<<<M2450>>>" ++ check (runes_of_ascii "uint")).
Eval vm_compute in ("<<<M2461>>>" ++ check (runes_of_ascii "asx")).
Eval vm_compute in ("<<<M2447>>>" ++ check (runes_of_ascii "u8")).
Eval vm_compute in ("<<<M2684>>>" ++ check (runes_of_ascii "x")).
