From FP Require Import Lexer Parser ShowPT Digest.
From Coq Require Import String List NArith.
Import ListNotations.
Open Scope string_scope.
Set Printing Width 100000000.
Set Printing Depth 100000000.
Definition nl : string := String (Ascii.ascii_of_nat 10) EmptyString.
Definition model_lex (rs : list rune) : string := show_toks (lex rs).
Definition model_parse (rs : list rune) : string :=
  show_pt (match lex rs with Some ts => parse ts | None => None end).
(* coqc is slow at printing long strings: digests first (Digest.v), full texts on demand *)
Definition check (rs : list rune) : string :=
  digest (model_lex rs) ++ " " ++ digest (model_parse rs).
Definition full (rs : list rune) : string := model_lex rs ++ nl ++ model_parse rs.
Definition terms (ts : list tok) (t : pt) : string :=
  digest (show_toks (Some ts)) ++ " " ++ digest (show_pt (Some t)) ++ " " ++ digest (show_pt (parse ts)).
Definition terms_full (ts : list tok) (t : pt) : string :=
  show_toks (Some ts) ++ nl ++ show_pt (Some t) ++ nl ++ show_pt (parse ts).
Eval vm_compute in ("<<<M13>>>" ++ check (runes_of_ascii "options
{ matchKey= ""x y"";len =
'\x00' }
")).
Eval vm_compute in ("<<<T13>>>" ++ terms [mkTok 1 "options" 1 0 false; mkTok 2 "{" 2 0 false; mkTok 42 "matchKey" 2 2 false; mkTok 4 "=" 2 10 false; mkTok 31 """x y""" 2 12 false; mkTok 41 ";" 2 17 false; mkTok 42 "len" 2 18 false; mkTok 4 "=" 2 22 false; mkTok 33 "'\x00'" 3 0 false; mkTok 3 "}" 3 7 false; mkTok 0 "<EOF>" 4 0 false] (mkPacket (mkPtok 1 "options" 1 0 0) (Some (mkPtok 3 "}" 3 7 9)) [(DOption (mkOptionDef (mkSpan (mkPtok 1 "options" 1 0 0) (mkPtok 3 "}" 3 7 9)) (mkPtok 1 "options" 1 0 0) (mkPtok 2 "{" 2 0 1) [(mkOptionDecl (mkSpan (mkPtok 42 "matchKey" 2 2 2) (mkPtok 41 ";" 2 17 5)) (mkPtok 42 "matchKey" 2 2 2) (mkPtok 4 "=" 2 10 3) (VString (mkSpan (mkPtok 31 """x y""" 2 12 4) (mkPtok 31 """x y""" 2 12 4)) (mkPtok 31 """x y""" 2 12 4)) (Some (mkPtok 41 ";" 2 17 5))); (mkOptionDecl (mkSpan (mkPtok 42 "len" 2 18 6) (mkPtok 33 "'\x00'" 3 0 8)) (mkPtok 42 "len" 2 18 6) (mkPtok 4 "=" 2 22 7) (VPaddingChar (mkSpan (mkPtok 33 "'\x00'" 3 0 8) (mkPtok 33 "'\x00'" 3 0 8)) (mkPtok 33 "'\x00'" 3 0 8)) None)] (mkPtok 3 "}" 3 7 9)))])).
Eval vm_compute in ("<<<M45>>>" ++ check (runes_of_ascii "root packet // " ++ [27880; 37322]%N ++ runes_of_ascii "
tag { // trailing space 
leftPad , }")).
Eval vm_compute in ("<<<M77>>>" ++ check (runes_of_ascii "options { Pad
    = char[ 7
] ;	asx
= ""CRC32"" ; a1 =	string ;}")).
Eval vm_compute in ("<<<M109>>>" ++ check (runes_of_ascii "MetaData Foo{ uint64
uint8x
`` ,int16
Z9_
    ,
    uint8x i8i8,
}
packet Header { @lengthOf(o  ) @rightPad
    ( '0'  )
zchar[ 0123456789 ] Z9_,
} packet	Foo { repeat	uint8 T , }packet packetx
    // @lengthOf(
    { }")).
Eval vm_compute in ("<<<M141>>>" ++ check (runes_of_ascii "// @lengthOf(
packet repeatCount {	} MetaData o {asx crc , }
")).
Eval vm_compute in ("<<<M173>>>" ++ check (@nil rune)).
Eval vm_compute in ("<<<M205>>>" ++ check (runes_of_ascii "packet stringy { repeat	f32a o`" ++ [28040; 24687; 31867; 22411]%N ++ runes_of_ascii "`
    , @lengthOf( f32a) /// triple
char[
    42 ] uint8x ,
@tag( 42// trailing space 
)
    float @lengthOf( MetaDataX ),
    string
    T	,
    match
_x as
leftPad {
0123456789  : stringy, }
    ,
@leftPad ( )
    repeat
uint8x { string_{ char[	255]
a1 @calculatedFrom(
    // " ++ [27880; 37322]%N ++ runes_of_ascii "
    ""abc"" ) , metadata
@lengthOf( asx
    ) // packet A { u8 x, }
,}
//	t
// " ++ [27880; 37322]%N ++ runes_of_ascii "
,
    repeat
    falsey , Logon {As,
    repeat char[] u , }, }  , @leftPad (' ' // a // b
)	char[10
] charz @lengthOf(float
    )
    // 50% %s
    ,@calculatedFrom( """ ++ [233]%N ++ runes_of_ascii "t" ++ [233]%N ++ runes_of_ascii """)
i64 trueish `" ++ [28040; 24687; 31867; 22411]%N ++ runes_of_ascii "` // `tick` ""quote"" 'q'
,
}options
// c
// a // b
{ options1 =  7 ; u =
""""
    ;
} root packet
Packet {
char As `` ,
    repeat leftPad //x
{match
    x_y_z
    as x_y_z	{	""abc"" : f32a
    [
    1
    //x
    ,42 ]
:	rootA
, 7 : pack	,
    ""abc""
    : _x
""1""  :	asx, ""packet"" :int// trailing space 
}
, }// a // b
, @calculatedFrom( ""\n"" )repeat
    f64 u8x
, @lengthOf(
    zchar )
    o,
    pack @lengthOf(
falsey ) `two words` , zchar[ 1]asx @lengthOf( uint8x)
    , @calculatedFrom( ""\n""
// c
// 50% %s
)
    char[ 42 ] // a // b
u @calculatedFrom(""packet"" )
    , match // " ++ [27880; 37322]%N ++ runes_of_ascii "
rootA as i8i8{ 00
// `tick` ""quote"" 'q'
// packet A { u8 x, }
: A ,	0 : o 0123456789
    :
len	,
    65535 : zchar
    } ,
}
//
")).
Eval vm_compute in ("<<<M237>>>" ++ check (runes_of_ascii "packet As{  zchar[3 ]
    o @lengthOf(
    // trailing space 
    Header)`doc` , repeat char[] string_ , @tag(1 )
match BodyLength
    //	t
    as msg_type
{ """ ++ [28040; 24687]%N ++ runes_of_ascii """  :u8x, }
,  @tag(255 )repeat char[] crc
    // `tick` ""quote"" 'q'
    , }
")).
Eval vm_compute in ("<<<T237>>>" ++ terms [mkTok 35 "packet" 1 0 false; mkTok 42 "As" 1 7 false; mkTok 2 "{" 1 9 false; mkTok 14 "zchar[" 1 12 false; mkTok 30 "3" 1 18 false; mkTok 13 "]" 1 20 false; mkTok 42 "o" 2 4 false; mkTok 7 "@lengthOf(" 2 6 false; mkTok 44 "// trailing space " 3 4 true; mkTok 42 "Header" 4 4 false; mkTok 6 ")" 4 10 false; mkTok 43 "`doc`" 4 11 false; mkTok 40 "," 4 17 false; mkTok 36 "repeat" 4 19 false; mkTok 16 "char[]" 4 26 false; mkTok 42 "string_" 4 33 false; mkTok 40 "," 4 41 false; mkTok 9 "@tag(" 4 43 false; mkTok 30 "1" 4 48 false; mkTok 6 ")" 4 50 false; mkTok 38 "match" 5 0 false; mkTok 42 "BodyLength" 5 6 false; mkTok 44 (string_of_bytes [47; 47; 9; 116]%N) 6 4 true; mkTok 17 "as" 7 4 false; mkTok 42 "msg_type" 7 7 false; mkTok 2 "{" 8 0 false; mkTok 31 (string_of_bytes [34; 230; 182; 136; 230; 129; 175; 34]%N) 8 2 false; mkTok 39 ":" 8 8 false; mkTok 42 "u8x" 8 9 false; mkTok 40 "," 8 12 false; mkTok 3 "}" 8 14 false; mkTok 40 "," 9 0 false; mkTok 9 "@tag(" 9 3 false; mkTok 30 "255" 9 8 false; mkTok 6 ")" 9 12 false; mkTok 36 "repeat" 9 13 false; mkTok 16 "char[]" 9 20 false; mkTok 42 "crc" 9 27 false; mkTok 44 "// `tick` ""quote"" 'q'" 10 4 true; mkTok 40 "," 11 4 false; mkTok 3 "}" 11 6 false; mkTok 0 "<EOF>" 12 0 false] (mkPacket (mkPtok 35 "packet" 1 0 0) (Some (mkPtok 3 "}" 11 6 40)) [(DPacket (mkPacketDef (mkSpan (mkPtok 35 "packet" 1 0 0) (mkPtok 3 "}" 11 6 40)) None (mkPtok 35 "packet" 1 0 0) (mkPtok 42 "As" 1 7 1) (mkPtok 2 "{" 1 9 2) [(mkFieldWithAttr (mkSpan (mkPtok 14 "zchar[" 1 12 3) (mkPtok 40 "," 4 17 12)) [] (LengthField (mkSpan (mkPtok 14 "zchar[" 1 12 3) (mkPtok 40 "," 4 17 12)) (mkLengthFieldDecl (mkSpan (mkPtok 14 "zchar[" 1 12 3) (mkPtok 40 "," 4 17 12)) (Some (TyFixed (mkSpan (mkPtok 14 "zchar[" 1 12 3) (mkPtok 13 "]" 1 20 5)) (mkFixedString (mkSpan (mkPtok 14 "zchar[" 1 12 3) (mkPtok 13 "]" 1 20 5)) (mkPtok 14 "zchar[" 1 12 3) (mkPtok 30 "3" 1 18 4) (mkPtok 13 "]" 1 20 5)))) (mkPtok 42 "o" 2 4 6) (mkLengthOf (mkSpan (mkPtok 7 "@lengthOf(" 2 6 7) (mkPtok 6 ")" 4 10 10)) (mkPtok 7 "@lengthOf(" 2 6 7) (mkPtok 42 "Header" 4 4 9) (mkPtok 6 ")" 4 10 10)) (Some (mkPtok 43 "`doc`" 4 11 11)) (mkPtok 40 "," 4 17 12)))); (mkFieldWithAttr (mkSpan (mkPtok 36 "repeat" 4 19 13) (mkPtok 40 "," 4 41 16)) [] (MetaField (mkSpan (mkPtok 36 "repeat" 4 19 13) (mkPtok 40 "," 4 41 16)) (Some (mkPtok 36 "repeat" 4 19 13)) (mkMetaDecl (mkSpan (mkPtok 16 "char[]" 4 26 14) (mkPtok 40 "," 4 41 16)) (TyDynamic (mkSpan (mkPtok 16 "char[]" 4 26 14) (mkPtok 16 "char[]" 4 26 14)) (mkDynamicString (mkSpan (mkPtok 16 "char[]" 4 26 14) (mkPtok 16 "char[]" 4 26 14)) (mkPtok 16 "char[]" 4 26 14))) (mkPtok 42 "string_" 4 33 15) None (mkPtok 40 "," 4 41 16)))); (mkFieldWithAttr (mkSpan (mkPtok 9 "@tag(" 4 43 17) (mkPtok 40 "," 9 0 31)) [(FATag (mkSpan (mkPtok 9 "@tag(" 4 43 17) (mkPtok 6 ")" 4 50 19)) (mkTagAttr (mkSpan (mkPtok 9 "@tag(" 4 43 17) (mkPtok 6 ")" 4 50 19)) (mkPtok 9 "@tag(" 4 43 17) (mkPtok 30 "1" 4 48 18) (mkPtok 6 ")" 4 50 19)))] (MatchField (mkSpan (mkPtok 38 "match" 5 0 20) (mkPtok 40 "," 9 0 31)) (mkMatchFieldDecl (mkSpan (mkPtok 38 "match" 5 0 20) (mkPtok 3 "}" 8 14 30)) (mkPtok 38 "match" 5 0 20) (mkPtok 42 "BodyLength" 5 6 21) (mkPtok 17 "as" 7 4 23) (mkPtok 42 "msg_type" 7 7 24) (mkPtok 2 "{" 8 0 25) [(mkMatchPair (mkSpan (mkPtok 31 (string_of_bytes [34; 230; 182; 136; 230; 129; 175; 34]%N) 8 2 26) (mkPtok 40 "," 8 12 29)) (MKString (mkPtok 31 (string_of_bytes [34; 230; 182; 136; 230; 129; 175; 34]%N) 8 2 26)) (mkPtok 39 ":" 8 8 27) (mkPtok 42 "u8x" 8 9 28) (Some (mkPtok 40 "," 8 12 29)))] (mkPtok 3 "}" 8 14 30)) (mkPtok 40 "," 9 0 31))); (mkFieldWithAttr (mkSpan (mkPtok 9 "@tag(" 9 3 32) (mkPtok 40 "," 11 4 39)) [(FATag (mkSpan (mkPtok 9 "@tag(" 9 3 32) (mkPtok 6 ")" 9 12 34)) (mkTagAttr (mkSpan (mkPtok 9 "@tag(" 9 3 32) (mkPtok 6 ")" 9 12 34)) (mkPtok 9 "@tag(" 9 3 32) (mkPtok 30 "255" 9 8 33) (mkPtok 6 ")" 9 12 34)))] (MetaField (mkSpan (mkPtok 36 "repeat" 9 13 35) (mkPtok 40 "," 11 4 39)) (Some (mkPtok 36 "repeat" 9 13 35)) (mkMetaDecl (mkSpan (mkPtok 16 "char[]" 9 20 36) (mkPtok 40 "," 11 4 39)) (TyDynamic (mkSpan (mkPtok 16 "char[]" 9 20 36) (mkPtok 16 "char[]" 9 20 36)) (mkDynamicString (mkSpan (mkPtok 16 "char[]" 9 20 36) (mkPtok 16 "char[]" 9 20 36)) (mkPtok 16 "char[]" 9 20 36))) (mkPtok 42 "crc" 9 27 37) None (mkPtok 40 "," 11 4 39))))] (mkPtok 3 "}" 11 6 40)))])).
Eval vm_compute in ("<<<M269>>>" ++ check (runes_of_ascii "options
    {Header// trailing space 
= """ ++ [233]%N ++ runes_of_ascii "t" ++ [233]%N ++ runes_of_ascii """ ; Z9_= true //x
; options1= int8
    ; //	t
}")).
Eval vm_compute in ("<<<M301>>>" ++ check (runes_of_ascii "MetaData asx
{  char[ 00
]u8x , trueish tag `it's`,
} root packet i64_ {  repeat	repeatCount// trailing space 
msg_type , char[
7 ] asx
//x
/// triple
, } options { BodyLength = true
; } packet x {
    @tag( 1
    ) @rightPad( '\x00'
)// trailing space 
@lengthOf(f32a )int16
pack `
` ,repeat char[] options1
,// c
string options1	@lengthOf(	calculatedFrom) `" ++ [233]%N ++ runes_of_ascii "`
,// @lengthOf(
@tag(	1 )Packet // packet A { u8 x, }
string_
, As {
matchKey
chars , } , repeat string
crc `// not a comment`	, repeat T  ,}
//x
")).
Eval vm_compute in ("<<<M333>>>" ++ check (runes_of_ascii "packet
charz
{
    repeat As
{
    rootA @calculatedFrom(""" ++ [28040; 24687]%N ++ runes_of_ascii """)
`crlf
line`,
    zchar[ 0  ] // trailing space 
u8x
    , int@lengthOf(u8x // " ++ [128512]%N ++ runes_of_ascii " emoji
) ,
}
, @rightPad (	) uint32 a1@calculatedFrom(
    ""x y""	)
,
// " ++ [128512]%N ++ runes_of_ascii " emoji
// " ++ [128512]%N ++ runes_of_ascii " emoji
} packet Packet { @rightPad(
    '0' )repeat matchKey `it's` , }
    root
packet Packet
{	u32	f32a
@calculatedFrom(  ""a\\"" )
`u8 x,` , }
")).
Eval vm_compute in ("<<<M365>>>" ++ check (runes_of_ascii "options{  float=
00 stringy
    =char[] // c
lengthOf = 0123456789
    ; rootA
// " ++ [128512]%N ++ runes_of_ascii " emoji
// 50% %s
= ""\" ++ [233]%N ++ runes_of_ascii """ ; //
MetaDataX =
    int8 }
root	packet tag
{@rightPad (
)
    @tag( 10)
@calculatedFrom(	""it's"" )zchar[ 00
] tag
    , }
// `tick` ""quote"" 'q'
// trailing space 
MetaData roots
{} options{
falsey =zchar[ 42]
;
}
// " ++ [27880; 37322]%N ++ runes_of_ascii "
")).
Eval vm_compute in ("<<<M397>>>" ++ check (runes_of_ascii "options{}//
packet  body {
Logon packetx `
` , u32  body @calculatedFrom(""`tick`""
//x
//x
), match
chars as
    x_y_z
{[ ""`tick`"" , 255 ,
007
    ,""" ++ [128512]%N ++ runes_of_ascii """ , """ ++ [28040; 24687]%N ++ runes_of_ascii """, 1 ,
42 ] //	t
:	trueish ""it's""	: // packet A { u8 x, }
u , } , @rightPad ( '\x00' ) @rightPad ( )
@lengthOf(
    float ) repeat // c
x_y_z len
,	repeat
asx `{ , }`
    ,
    zchar[4294967296 ]leftPad
@calculatedFrom(""x y"" )`100% of %d`
    ,
@calculatedFrom( ""a\""b"" ) zchar[ 00 ]matchKey
@calculatedFrom( ""`tick`""
    ) , zchar[ 10]
    x @lengthOf( A ) ,} packet body{ }")).
Eval vm_compute in ("<<<M429>>>" ++ check (runes_of_ascii "root
packet	a1
{ //
}")).
Eval vm_compute in ("<<<M461>>>" ++ check (runes_of_ascii "// `tick` ""quote"" 'q'
MetaData	packetx { u64 string_ ,
} packet rootA
{leftPad
    {match
packetx as zchar
{ 10 :
rootA 007 : Foo ,10 :trueish ,3 :
repeatCount , }
,
    // packet A { u8 x, }
    char[]Packet @calculatedFrom( ""CRC32""
    // c
    ) ,},
@rightPad  ( ' '	)
chars @lengthOf(zchar )
`doc` , //	t
packetx { match matchKey as calculatedFrom{
    10 : asx , 65535 :
    pack[
""{,}"" ,
    ""\n"" , ""1"" ,	007
, 65535
, ""a\""b"", 4294967296 ] :asx , }
    ,	string_ asx
    `100% of %d`
, }
,}
    options
// 50% %s
// a // b
{ tag
= true;	} packet
Packet { @lengthOf(
    i64_
)	u32 crc,
u16 MetaDataX `doc` ,
@calculatedFrom( ""// no comment""	)
    repeat int64  packetx`line1
line2` ,  @leftPad (  ' ' //	t
)
repeat BodyLength { char[]As, char[] i64_	@calculatedFrom( ""it's"" )
    , i64
As , Header
`it's`
    , //	t
} , @leftPad ()
zchar[10
] falsey ,
// " ++ [27880; 37322]%N ++ runes_of_ascii "
// " ++ [27880; 37322]%N ++ runes_of_ascii "
@calculatedFrom( """ ++ [128512]%N ++ runes_of_ascii """ )pack
, A {	repeat//
u8x tag , int64 T@lengthOf(Packet // @lengthOf(
) //x
,// packet A { u8 x, }
x
Logon ,
    options1 @calculatedFrom( ""a	b"" )
,} , @lengthOf(
//x
// `tick` ""quote"" 'q'
A )
@leftPad// 50% %s
( '\x00'	) zchar[ 65535 ]
    MetaDataX `// not a comment` ,repeat f32
    Packet `" ++ [233]%N ++ runes_of_ascii "` ,
    }
MetaData	chars {
}
")).
Eval vm_compute in ("<<<T461>>>" ++ terms [mkTok 44 "// `tick` ""quote"" 'q'" 1 0 true; mkTok 37 "MetaData" 2 0 false; mkTok 42 "packetx" 2 9 false; mkTok 2 "{" 2 17 false; mkTok 23 "u64" 2 19 false; mkTok 42 "string_" 2 23 false; mkTok 40 "," 2 31 false; mkTok 3 "}" 3 0 false; mkTok 35 "packet" 3 2 false; mkTok 42 "rootA" 3 9 false; mkTok 2 "{" 4 0 false; mkTok 42 "leftPad" 4 1 false; mkTok 2 "{" 5 4 false; mkTok 38 "match" 5 5 false; mkTok 42 "packetx" 6 0 false; mkTok 17 "as" 6 8 false; mkTok 42 "zchar" 6 11 false; mkTok 2 "{" 7 0 false; mkTok 30 "10" 7 2 false; mkTok 39 ":" 7 5 false; mkTok 42 "rootA" 8 0 false; mkTok 30 "007" 8 6 false; mkTok 39 ":" 8 10 false; mkTok 42 "Foo" 8 12 false; mkTok 40 "," 8 16 false; mkTok 30 "10" 8 17 false; mkTok 39 ":" 8 20 false; mkTok 42 "trueish" 8 21 false; mkTok 40 "," 8 29 false; mkTok 30 "3" 8 30 false; mkTok 39 ":" 8 32 false; mkTok 42 "repeatCount" 9 0 false; mkTok 40 "," 9 12 false; mkTok 3 "}" 9 14 false; mkTok 40 "," 10 0 false; mkTok 44 "// packet A { u8 x, }" 11 4 true; mkTok 16 "char[]" 12 4 false; mkTok 42 "Packet" 12 10 false; mkTok 5 "@calculatedFrom(" 12 17 false; mkTok 31 """CRC32""" 12 34 false; mkTok 44 "// c" 13 4 true; mkTok 6 ")" 14 4 false; mkTok 40 "," 14 6 false; mkTok 3 "}" 14 7 false; mkTok 40 "," 14 8 false; mkTok 32 "@rightPad" 15 0 false; mkTok 8 "(" 15 11 false; mkTok 33 "' '" 15 13 false; mkTok 6 ")" 15 17 false; mkTok 42 "chars" 16 0 false; mkTok 7 "@lengthOf(" 16 6 false; mkTok 42 "zchar" 16 16 false; mkTok 6 ")" 16 22 false; mkTok 43 "`doc`" 17 0 false; mkTok 40 "," 17 6 false; mkTok 44 (string_of_bytes [47; 47; 9; 116]%N) 17 8 true; mkTok 42 "packetx" 18 0 false; mkTok 2 "{" 18 8 false; mkTok 38 "match" 18 10 false; mkTok 42 "matchKey" 18 16 false; mkTok 17 "as" 18 25 false; mkTok 42 "calculatedFrom" 18 28 false; mkTok 2 "{" 18 42 false; mkTok 30 "10" 19 4 false; mkTok 39 ":" 19 7 false; mkTok 42 "asx" 19 9 false; mkTok 40 "," 19 13 false; mkTok 30 "65535" 19 15 false; mkTok 39 ":" 19 21 false; mkTok 42 "pack" 20 4 false; mkTok 18 "[" 20 8 false; mkTok 31 """{,}""" 21 0 false; mkTok 40 "," 21 6 false; mkTok 31 """\n""" 22 4 false; mkTok 40 "," 22 9 false; mkTok 31 """1""" 22 11 false; mkTok 40 "," 22 15 false; mkTok 30 "007" 22 17 false; mkTok 40 "," 23 0 false; mkTok 30 "65535" 23 2 false; mkTok 40 "," 24 0 false; mkTok 31 """a\""b""" 24 2 false; mkTok 40 "," 24 8 false; mkTok 30 "4294967296" 24 10 false; mkTok 13 "]" 24 21 false; mkTok 39 ":" 24 23 false; mkTok 42 "asx" 24 24 false; mkTok 40 "," 24 28 false; mkTok 3 "}" 24 30 false; mkTok 40 "," 25 4 false; mkTok 42 "string_" 25 6 false; mkTok 42 "asx" 25 14 false; mkTok 43 "`100% of %d`" 26 4 false; mkTok 40 "," 27 0 false; mkTok 3 "}" 27 2 false; mkTok 40 "," 28 0 false; mkTok 3 "}" 28 1 false; mkTok 1 "options" 29 4 false; mkTok 44 "// 50% %s" 30 0 true; mkTok 44 "// a // b" 31 0 true; mkTok 2 "{" 32 0 false; mkTok 42 "tag" 32 2 false; mkTok 4 "=" 33 0 false; mkTok 10 "true" 33 2 false; mkTok 41 ";" 33 6 false; mkTok 3 "}" 33 8 false; mkTok 35 "packet" 33 10 false; mkTok 42 "Packet" 34 0 false; mkTok 2 "{" 34 7 false; mkTok 7 "@lengthOf(" 34 9 false; mkTok 42 "i64_" 35 4 false; mkTok 6 ")" 36 0 false; mkTok 22 "u32" 36 2 false; mkTok 42 "crc" 36 6 false; mkTok 40 "," 36 9 false; mkTok 21 "u16" 37 0 false; mkTok 42 "MetaDataX" 37 4 false; mkTok 43 "`doc`" 37 14 false; mkTok 40 "," 37 20 false; mkTok 5 "@calculatedFrom(" 38 0 false; mkTok 31 """// no comment""" 38 17 false; mkTok 6 ")" 38 33 false; mkTok 36 "repeat" 39 4 false; mkTok 27 "int64" 39 11 false; mkTok 42 "packetx" 39 18 false; mkTok 43 (string_of_bytes [96; 108; 105; 110; 101; 49; 10; 108; 105; 110; 101; 50; 96]%N) 39 25 false; mkTok 40 "," 40 7 false; mkTok 32 "@leftPad" 40 10 false; mkTok 8 "(" 40 19 false; mkTok 33 "' '" 40 22 false; mkTok 44 (string_of_bytes [47; 47; 9; 116]%N) 40 26 true; mkTok 6 ")" 41 0 false; mkTok 36 "repeat" 42 0 false; mkTok 42 "BodyLength" 42 7 false; mkTok 2 "{" 42 18 false; mkTok 16 "char[]" 42 20 false; mkTok 42 "As" 42 26 false; mkTok 40 "," 42 28 false; mkTok 16 "char[]" 42 30 false; mkTok 42 "i64_" 42 37 false; mkTok 5 "@calculatedFrom(" 42 42 false; mkTok 31 """it's""" 42 59 false; mkTok 6 ")" 42 66 false; mkTok 40 "," 43 4 false; mkTok 27 "i64" 43 6 false; mkTok 42 "As" 44 0 false; mkTok 40 "," 44 3 false; mkTok 42 "Header" 44 5 false; mkTok 43 "`it's`" 45 0 false; mkTok 40 "," 46 4 false; mkTok 44 (string_of_bytes [47; 47; 9; 116]%N) 46 6 true; mkTok 3 "}" 47 0 false; mkTok 40 "," 47 2 false; mkTok 32 "@leftPad" 47 4 false; mkTok 8 "(" 47 13 false; mkTok 6 ")" 47 14 false; mkTok 14 "zchar[" 48 0 false; mkTok 30 "10" 48 6 false; mkTok 13 "]" 49 0 false; mkTok 42 "falsey" 49 2 false; mkTok 40 "," 49 9 false; mkTok 44 (string_of_bytes [47; 47; 32; 230; 179; 168; 233; 135; 138]%N) 50 0 true; mkTok 44 (string_of_bytes [47; 47; 32; 230; 179; 168; 233; 135; 138]%N) 51 0 true; mkTok 5 "@calculatedFrom(" 52 0 false; mkTok 31 (string_of_bytes [34; 240; 159; 152; 128; 34]%N) 52 17 false; mkTok 6 ")" 52 21 false; mkTok 42 "pack" 52 22 false; mkTok 40 "," 53 0 false; mkTok 42 "A" 53 2 false; mkTok 2 "{" 53 4 false; mkTok 36 "repeat" 53 6 false; mkTok 44 "//" 53 12 true; mkTok 42 "u8x" 54 0 false; mkTok 42 "tag" 54 4 false; mkTok 40 "," 54 8 false; mkTok 27 "int64" 54 10 false; mkTok 42 "T" 54 16 false; mkTok 7 "@lengthOf(" 54 17 false; mkTok 42 "Packet" 54 27 false; mkTok 44 "// @lengthOf(" 54 34 true; mkTok 6 ")" 55 0 false; mkTok 44 "//x" 55 2 true; mkTok 40 "," 56 0 false; mkTok 44 "// packet A { u8 x, }" 56 1 true; mkTok 42 "x" 57 0 false; mkTok 42 "Logon" 58 0 false; mkTok 40 "," 58 6 false; mkTok 42 "options1" 59 4 false; mkTok 5 "@calculatedFrom(" 59 13 false; mkTok 31 (string_of_bytes [34; 97; 9; 98; 34]%N) 59 30 false; mkTok 6 ")" 59 36 false; mkTok 40 "," 60 0 false; mkTok 3 "}" 60 1 false; mkTok 40 "," 60 3 false; mkTok 7 "@lengthOf(" 60 5 false; mkTok 44 "//x" 61 0 true; mkTok 44 "// `tick` ""quote"" 'q'" 62 0 true; mkTok 42 "A" 63 0 false; mkTok 6 ")" 63 2 false; mkTok 32 "@leftPad" 64 0 false; mkTok 44 "// 50% %s" 64 8 true; mkTok 8 "(" 65 0 false; mkTok 33 "'\x00'" 65 2 false; mkTok 6 ")" 65 9 false; mkTok 14 "zchar[" 65 11 false; mkTok 30 "65535" 65 18 false; mkTok 13 "]" 65 24 false; mkTok 42 "MetaDataX" 66 4 false; mkTok 43 "`// not a comment`" 66 14 false; mkTok 40 "," 66 33 false; mkTok 36 "repeat" 66 34 false; mkTok 28 "f32" 66 41 false; mkTok 42 "Packet" 67 4 false; mkTok 43 (string_of_bytes [96; 195; 169; 96]%N) 67 11 false; mkTok 40 "," 67 15 false; mkTok 3 "}" 68 4 false; mkTok 37 "MetaData" 69 0 false; mkTok 42 "chars" 69 9 false; mkTok 2 "{" 69 15 false; mkTok 3 "}" 70 0 false; mkTok 0 "<EOF>" 71 0 false] (mkPacket (mkPtok 37 "MetaData" 2 0 1) (Some (mkPtok 3 "}" 70 0 219)) [(DMeta (mkMetaDef (mkSpan (mkPtok 37 "MetaData" 2 0 1) (mkPtok 3 "}" 3 0 7)) (mkPtok 37 "MetaData" 2 0 1) (mkPtok 42 "packetx" 2 9 2) (mkPtok 2 "{" 2 17 3) [(MIDecl (mkMetaDecl (mkSpan (mkPtok 23 "u64" 2 19 4) (mkPtok 40 "," 2 31 6)) (TyBasic (mkSpan (mkPtok 23 "u64" 2 19 4) (mkPtok 23 "u64" 2 19 4)) (mkBasicType (mkSpan (mkPtok 23 "u64" 2 19 4) (mkPtok 23 "u64" 2 19 4)) (mkPtok 23 "u64" 2 19 4))) (mkPtok 42 "string_" 2 23 5) None (mkPtok 40 "," 2 31 6)))] (mkPtok 3 "}" 3 0 7))); (DPacket (mkPacketDef (mkSpan (mkPtok 35 "packet" 3 2 8) (mkPtok 3 "}" 28 1 96)) None (mkPtok 35 "packet" 3 2 8) (mkPtok 42 "rootA" 3 9 9) (mkPtok 2 "{" 4 0 10) [(mkFieldWithAttr (mkSpan (mkPtok 42 "leftPad" 4 1 11) (mkPtok 40 "," 14 8 44)) [] (InerObjectField (mkSpan (mkPtok 42 "leftPad" 4 1 11) (mkPtok 40 "," 14 8 44)) None (InerObjectDecl (mkSpan (mkPtok 42 "leftPad" 4 1 11) (mkPtok 3 "}" 14 7 43)) (mkPtok 42 "leftPad" 4 1 11) (mkPtok 2 "{" 5 4 12) [(MatchField (mkSpan (mkPtok 38 "match" 5 5 13) (mkPtok 40 "," 10 0 34)) (mkMatchFieldDecl (mkSpan (mkPtok 38 "match" 5 5 13) (mkPtok 3 "}" 9 14 33)) (mkPtok 38 "match" 5 5 13) (mkPtok 42 "packetx" 6 0 14) (mkPtok 17 "as" 6 8 15) (mkPtok 42 "zchar" 6 11 16) (mkPtok 2 "{" 7 0 17) [(mkMatchPair (mkSpan (mkPtok 30 "10" 7 2 18) (mkPtok 42 "rootA" 8 0 20)) (MKDigits (mkPtok 30 "10" 7 2 18)) (mkPtok 39 ":" 7 5 19) (mkPtok 42 "rootA" 8 0 20) None); (mkMatchPair (mkSpan (mkPtok 30 "007" 8 6 21) (mkPtok 40 "," 8 16 24)) (MKDigits (mkPtok 30 "007" 8 6 21)) (mkPtok 39 ":" 8 10 22) (mkPtok 42 "Foo" 8 12 23) (Some (mkPtok 40 "," 8 16 24))); (mkMatchPair (mkSpan (mkPtok 30 "10" 8 17 25) (mkPtok 40 "," 8 29 28)) (MKDigits (mkPtok 30 "10" 8 17 25)) (mkPtok 39 ":" 8 20 26) (mkPtok 42 "trueish" 8 21 27) (Some (mkPtok 40 "," 8 29 28))); (mkMatchPair (mkSpan (mkPtok 30 "3" 8 30 29) (mkPtok 40 "," 9 12 32)) (MKDigits (mkPtok 30 "3" 8 30 29)) (mkPtok 39 ":" 8 32 30) (mkPtok 42 "repeatCount" 9 0 31) (Some (mkPtok 40 "," 9 12 32)))] (mkPtok 3 "}" 9 14 33)) (mkPtok 40 "," 10 0 34)); (CheckSumField (mkSpan (mkPtok 16 "char[]" 12 4 36) (mkPtok 40 "," 14 6 42)) (mkChecksumFieldDecl (mkSpan (mkPtok 16 "char[]" 12 4 36) (mkPtok 40 "," 14 6 42)) (Some (TyDynamic (mkSpan (mkPtok 16 "char[]" 12 4 36) (mkPtok 16 "char[]" 12 4 36)) (mkDynamicString (mkSpan (mkPtok 16 "char[]" 12 4 36) (mkPtok 16 "char[]" 12 4 36)) (mkPtok 16 "char[]" 12 4 36)))) (mkPtok 42 "Packet" 12 10 37) (mkCalculatedFrom (mkSpan (mkPtok 5 "@calculatedFrom(" 12 17 38) (mkPtok 6 ")" 14 4 41)) (mkPtok 5 "@calculatedFrom(" 12 17 38) (mkPtok 31 """CRC32""" 12 34 39) (mkPtok 6 ")" 14 4 41)) None (mkPtok 40 "," 14 6 42)))] (mkPtok 3 "}" 14 7 43)) (mkPtok 40 "," 14 8 44))); (mkFieldWithAttr (mkSpan (mkPtok 32 "@rightPad" 15 0 45) (mkPtok 40 "," 17 6 54)) [(FAPadding (mkSpan (mkPtok 32 "@rightPad" 15 0 45) (mkPtok 6 ")" 15 17 48)) (mkPaddingAttr (mkSpan (mkPtok 32 "@rightPad" 15 0 45) (mkPtok 6 ")" 15 17 48)) (mkPtok 32 "@rightPad" 15 0 45) (mkPtok 8 "(" 15 11 46) (Some (mkPtok 33 "' '" 15 13 47)) (mkPtok 6 ")" 15 17 48)))] (LengthField (mkSpan (mkPtok 42 "chars" 16 0 49) (mkPtok 40 "," 17 6 54)) (mkLengthFieldDecl (mkSpan (mkPtok 42 "chars" 16 0 49) (mkPtok 40 "," 17 6 54)) None (mkPtok 42 "chars" 16 0 49) (mkLengthOf (mkSpan (mkPtok 7 "@lengthOf(" 16 6 50) (mkPtok 6 ")" 16 22 52)) (mkPtok 7 "@lengthOf(" 16 6 50) (mkPtok 42 "zchar" 16 16 51) (mkPtok 6 ")" 16 22 52)) (Some (mkPtok 43 "`doc`" 17 0 53)) (mkPtok 40 "," 17 6 54)))); (mkFieldWithAttr (mkSpan (mkPtok 42 "packetx" 18 0 56) (mkPtok 40 "," 28 0 95)) [] (InerObjectField (mkSpan (mkPtok 42 "packetx" 18 0 56) (mkPtok 40 "," 28 0 95)) None (InerObjectDecl (mkSpan (mkPtok 42 "packetx" 18 0 56) (mkPtok 3 "}" 27 2 94)) (mkPtok 42 "packetx" 18 0 56) (mkPtok 2 "{" 18 8 57) [(MatchField (mkSpan (mkPtok 38 "match" 18 10 58) (mkPtok 40 "," 25 4 89)) (mkMatchFieldDecl (mkSpan (mkPtok 38 "match" 18 10 58) (mkPtok 3 "}" 24 30 88)) (mkPtok 38 "match" 18 10 58) (mkPtok 42 "matchKey" 18 16 59) (mkPtok 17 "as" 18 25 60) (mkPtok 42 "calculatedFrom" 18 28 61) (mkPtok 2 "{" 18 42 62) [(mkMatchPair (mkSpan (mkPtok 30 "10" 19 4 63) (mkPtok 40 "," 19 13 66)) (MKDigits (mkPtok 30 "10" 19 4 63)) (mkPtok 39 ":" 19 7 64) (mkPtok 42 "asx" 19 9 65) (Some (mkPtok 40 "," 19 13 66))); (mkMatchPair (mkSpan (mkPtok 30 "65535" 19 15 67) (mkPtok 42 "pack" 20 4 69)) (MKDigits (mkPtok 30 "65535" 19 15 67)) (mkPtok 39 ":" 19 21 68) (mkPtok 42 "pack" 20 4 69) None); (mkMatchPair (mkSpan (mkPtok 18 "[" 20 8 70) (mkPtok 40 "," 24 28 87)) (MKList (mkKeyList (mkSpan (mkPtok 18 "[" 20 8 70) (mkPtok 13 "]" 24 21 84)) (mkPtok 18 "[" 20 8 70) (mkPtok 31 """{,}""" 21 0 71) [((mkPtok 40 "," 21 6 72), (mkPtok 31 """\n""" 22 4 73)); ((mkPtok 40 "," 22 9 74), (mkPtok 31 """1""" 22 11 75)); ((mkPtok 40 "," 22 15 76), (mkPtok 30 "007" 22 17 77)); ((mkPtok 40 "," 23 0 78), (mkPtok 30 "65535" 23 2 79)); ((mkPtok 40 "," 24 0 80), (mkPtok 31 """a\""b""" 24 2 81)); ((mkPtok 40 "," 24 8 82), (mkPtok 30 "4294967296" 24 10 83))] (mkPtok 13 "]" 24 21 84))) (mkPtok 39 ":" 24 23 85) (mkPtok 42 "asx" 24 24 86) (Some (mkPtok 40 "," 24 28 87)))] (mkPtok 3 "}" 24 30 88)) (mkPtok 40 "," 25 4 89)); (ObjectField (mkSpan (mkPtok 42 "string_" 25 6 90) (mkPtok 40 "," 27 0 93)) None (mkPtok 42 "string_" 25 6 90) (Some (mkPtok 42 "asx" 25 14 91)) (Some (mkPtok 43 "`100% of %d`" 26 4 92)) (mkPtok 40 "," 27 0 93))] (mkPtok 3 "}" 27 2 94)) (mkPtok 40 "," 28 0 95)))] (mkPtok 3 "}" 28 1 96))); (DOption (mkOptionDef (mkSpan (mkPtok 1 "options" 29 4 97) (mkPtok 3 "}" 33 8 105)) (mkPtok 1 "options" 29 4 97) (mkPtok 2 "{" 32 0 100) [(mkOptionDecl (mkSpan (mkPtok 42 "tag" 32 2 101) (mkPtok 41 ";" 33 6 104)) (mkPtok 42 "tag" 32 2 101) (mkPtok 4 "=" 33 0 102) (VTrue (mkSpan (mkPtok 10 "true" 33 2 103) (mkPtok 10 "true" 33 2 103)) (mkPtok 10 "true" 33 2 103)) (Some (mkPtok 41 ";" 33 6 104)))] (mkPtok 3 "}" 33 8 105))); (DPacket (mkPacketDef (mkSpan (mkPtok 35 "packet" 33 10 106) (mkPtok 3 "}" 68 4 215)) None (mkPtok 35 "packet" 33 10 106) (mkPtok 42 "Packet" 34 0 107) (mkPtok 2 "{" 34 7 108) [(mkFieldWithAttr (mkSpan (mkPtok 7 "@lengthOf(" 34 9 109) (mkPtok 40 "," 36 9 114)) [(FALengthOf (mkSpan (mkPtok 7 "@lengthOf(" 34 9 109) (mkPtok 6 ")" 36 0 111)) (mkLengthOf (mkSpan (mkPtok 7 "@lengthOf(" 34 9 109) (mkPtok 6 ")" 36 0 111)) (mkPtok 7 "@lengthOf(" 34 9 109) (mkPtok 42 "i64_" 35 4 110) (mkPtok 6 ")" 36 0 111)))] (MetaField (mkSpan (mkPtok 22 "u32" 36 2 112) (mkPtok 40 "," 36 9 114)) None (mkMetaDecl (mkSpan (mkPtok 22 "u32" 36 2 112) (mkPtok 40 "," 36 9 114)) (TyBasic (mkSpan (mkPtok 22 "u32" 36 2 112) (mkPtok 22 "u32" 36 2 112)) (mkBasicType (mkSpan (mkPtok 22 "u32" 36 2 112) (mkPtok 22 "u32" 36 2 112)) (mkPtok 22 "u32" 36 2 112))) (mkPtok 42 "crc" 36 6 113) None (mkPtok 40 "," 36 9 114)))); (mkFieldWithAttr (mkSpan (mkPtok 21 "u16" 37 0 115) (mkPtok 40 "," 37 20 118)) [] (MetaField (mkSpan (mkPtok 21 "u16" 37 0 115) (mkPtok 40 "," 37 20 118)) None (mkMetaDecl (mkSpan (mkPtok 21 "u16" 37 0 115) (mkPtok 40 "," 37 20 118)) (TyBasic (mkSpan (mkPtok 21 "u16" 37 0 115) (mkPtok 21 "u16" 37 0 115)) (mkBasicType (mkSpan (mkPtok 21 "u16" 37 0 115) (mkPtok 21 "u16" 37 0 115)) (mkPtok 21 "u16" 37 0 115))) (mkPtok 42 "MetaDataX" 37 4 116) (Some (mkPtok 43 "`doc`" 37 14 117)) (mkPtok 40 "," 37 20 118)))); (mkFieldWithAttr (mkSpan (mkPtok 5 "@calculatedFrom(" 38 0 119) (mkPtok 40 "," 40 7 126)) [(FACalculatedFrom (mkSpan (mkPtok 5 "@calculatedFrom(" 38 0 119) (mkPtok 6 ")" 38 33 121)) (mkCalculatedFrom (mkSpan (mkPtok 5 "@calculatedFrom(" 38 0 119) (mkPtok 6 ")" 38 33 121)) (mkPtok 5 "@calculatedFrom(" 38 0 119) (mkPtok 31 """// no comment""" 38 17 120) (mkPtok 6 ")" 38 33 121)))] (MetaField (mkSpan (mkPtok 36 "repeat" 39 4 122) (mkPtok 40 "," 40 7 126)) (Some (mkPtok 36 "repeat" 39 4 122)) (mkMetaDecl (mkSpan (mkPtok 27 "int64" 39 11 123) (mkPtok 40 "," 40 7 126)) (TyBasic (mkSpan (mkPtok 27 "int64" 39 11 123) (mkPtok 27 "int64" 39 11 123)) (mkBasicType (mkSpan (mkPtok 27 "int64" 39 11 123) (mkPtok 27 "int64" 39 11 123)) (mkPtok 27 "int64" 39 11 123))) (mkPtok 42 "packetx" 39 18 124) (Some (mkPtok 43 (string_of_bytes [96; 108; 105; 110; 101; 49; 10; 108; 105; 110; 101; 50; 96]%N) 39 25 125)) (mkPtok 40 "," 40 7 126)))); (mkFieldWithAttr (mkSpan (mkPtok 32 "@leftPad" 40 10 127) (mkPtok 40 "," 47 2 152)) [(FAPadding (mkSpan (mkPtok 32 "@leftPad" 40 10 127) (mkPtok 6 ")" 41 0 131)) (mkPaddingAttr (mkSpan (mkPtok 32 "@leftPad" 40 10 127) (mkPtok 6 ")" 41 0 131)) (mkPtok 32 "@leftPad" 40 10 127) (mkPtok 8 "(" 40 19 128) (Some (mkPtok 33 "' '" 40 22 129)) (mkPtok 6 ")" 41 0 131)))] (InerObjectField (mkSpan (mkPtok 36 "repeat" 42 0 132) (mkPtok 40 "," 47 2 152)) (Some (mkPtok 36 "repeat" 42 0 132)) (InerObjectDecl (mkSpan (mkPtok 42 "BodyLength" 42 7 133) (mkPtok 3 "}" 47 0 151)) (mkPtok 42 "BodyLength" 42 7 133) (mkPtok 2 "{" 42 18 134) [(MetaField (mkSpan (mkPtok 16 "char[]" 42 20 135) (mkPtok 40 "," 42 28 137)) None (mkMetaDecl (mkSpan (mkPtok 16 "char[]" 42 20 135) (mkPtok 40 "," 42 28 137)) (TyDynamic (mkSpan (mkPtok 16 "char[]" 42 20 135) (mkPtok 16 "char[]" 42 20 135)) (mkDynamicString (mkSpan (mkPtok 16 "char[]" 42 20 135) (mkPtok 16 "char[]" 42 20 135)) (mkPtok 16 "char[]" 42 20 135))) (mkPtok 42 "As" 42 26 136) None (mkPtok 40 "," 42 28 137))); (CheckSumField (mkSpan (mkPtok 16 "char[]" 42 30 138) (mkPtok 40 "," 43 4 143)) (mkChecksumFieldDecl (mkSpan (mkPtok 16 "char[]" 42 30 138) (mkPtok 40 "," 43 4 143)) (Some (TyDynamic (mkSpan (mkPtok 16 "char[]" 42 30 138) (mkPtok 16 "char[]" 42 30 138)) (mkDynamicString (mkSpan (mkPtok 16 "char[]" 42 30 138) (mkPtok 16 "char[]" 42 30 138)) (mkPtok 16 "char[]" 42 30 138)))) (mkPtok 42 "i64_" 42 37 139) (mkCalculatedFrom (mkSpan (mkPtok 5 "@calculatedFrom(" 42 42 140) (mkPtok 6 ")" 42 66 142)) (mkPtok 5 "@calculatedFrom(" 42 42 140) (mkPtok 31 """it's""" 42 59 141) (mkPtok 6 ")" 42 66 142)) None (mkPtok 40 "," 43 4 143))); (MetaField (mkSpan (mkPtok 27 "i64" 43 6 144) (mkPtok 40 "," 44 3 146)) None (mkMetaDecl (mkSpan (mkPtok 27 "i64" 43 6 144) (mkPtok 40 "," 44 3 146)) (TyBasic (mkSpan (mkPtok 27 "i64" 43 6 144) (mkPtok 27 "i64" 43 6 144)) (mkBasicType (mkSpan (mkPtok 27 "i64" 43 6 144) (mkPtok 27 "i64" 43 6 144)) (mkPtok 27 "i64" 43 6 144))) (mkPtok 42 "As" 44 0 145) None (mkPtok 40 "," 44 3 146))); (ObjectField (mkSpan (mkPtok 42 "Header" 44 5 147) (mkPtok 40 "," 46 4 149)) None (mkPtok 42 "Header" 44 5 147) None (Some (mkPtok 43 "`it's`" 45 0 148)) (mkPtok 40 "," 46 4 149))] (mkPtok 3 "}" 47 0 151)) (mkPtok 40 "," 47 2 152))); (mkFieldWithAttr (mkSpan (mkPtok 32 "@leftPad" 47 4 153) (mkPtok 40 "," 49 9 160)) [(FAPadding (mkSpan (mkPtok 32 "@leftPad" 47 4 153) (mkPtok 6 ")" 47 14 155)) (mkPaddingAttr (mkSpan (mkPtok 32 "@leftPad" 47 4 153) (mkPtok 6 ")" 47 14 155)) (mkPtok 32 "@leftPad" 47 4 153) (mkPtok 8 "(" 47 13 154) None (mkPtok 6 ")" 47 14 155)))] (MetaField (mkSpan (mkPtok 14 "zchar[" 48 0 156) (mkPtok 40 "," 49 9 160)) None (mkMetaDecl (mkSpan (mkPtok 14 "zchar[" 48 0 156) (mkPtok 40 "," 49 9 160)) (TyFixed (mkSpan (mkPtok 14 "zchar[" 48 0 156) (mkPtok 13 "]" 49 0 158)) (mkFixedString (mkSpan (mkPtok 14 "zchar[" 48 0 156) (mkPtok 13 "]" 49 0 158)) (mkPtok 14 "zchar[" 48 0 156) (mkPtok 30 "10" 48 6 157) (mkPtok 13 "]" 49 0 158))) (mkPtok 42 "falsey" 49 2 159) None (mkPtok 40 "," 49 9 160)))); (mkFieldWithAttr (mkSpan (mkPtok 5 "@calculatedFrom(" 52 0 163) (mkPtok 40 "," 53 0 167)) [(FACalculatedFrom (mkSpan (mkPtok 5 "@calculatedFrom(" 52 0 163) (mkPtok 6 ")" 52 21 165)) (mkCalculatedFrom (mkSpan (mkPtok 5 "@calculatedFrom(" 52 0 163) (mkPtok 6 ")" 52 21 165)) (mkPtok 5 "@calculatedFrom(" 52 0 163) (mkPtok 31 (string_of_bytes [34; 240; 159; 152; 128; 34]%N) 52 17 164) (mkPtok 6 ")" 52 21 165)))] (ObjectField (mkSpan (mkPtok 42 "pack" 52 22 166) (mkPtok 40 "," 53 0 167)) None (mkPtok 42 "pack" 52 22 166) None None (mkPtok 40 "," 53 0 167))); (mkFieldWithAttr (mkSpan (mkPtok 42 "A" 53 2 168) (mkPtok 40 "," 60 3 193)) [] (InerObjectField (mkSpan (mkPtok 42 "A" 53 2 168) (mkPtok 40 "," 60 3 193)) None (InerObjectDecl (mkSpan (mkPtok 42 "A" 53 2 168) (mkPtok 3 "}" 60 1 192)) (mkPtok 42 "A" 53 2 168) (mkPtok 2 "{" 53 4 169) [(ObjectField (mkSpan (mkPtok 36 "repeat" 53 6 170) (mkPtok 40 "," 54 8 174)) (Some (mkPtok 36 "repeat" 53 6 170)) (mkPtok 42 "u8x" 54 0 172) (Some (mkPtok 42 "tag" 54 4 173)) None (mkPtok 40 "," 54 8 174)); (LengthField (mkSpan (mkPtok 27 "int64" 54 10 175) (mkPtok 40 "," 56 0 182)) (mkLengthFieldDecl (mkSpan (mkPtok 27 "int64" 54 10 175) (mkPtok 40 "," 56 0 182)) (Some (TyBasic (mkSpan (mkPtok 27 "int64" 54 10 175) (mkPtok 27 "int64" 54 10 175)) (mkBasicType (mkSpan (mkPtok 27 "int64" 54 10 175) (mkPtok 27 "int64" 54 10 175)) (mkPtok 27 "int64" 54 10 175)))) (mkPtok 42 "T" 54 16 176) (mkLengthOf (mkSpan (mkPtok 7 "@lengthOf(" 54 17 177) (mkPtok 6 ")" 55 0 180)) (mkPtok 7 "@lengthOf(" 54 17 177) (mkPtok 42 "Packet" 54 27 178) (mkPtok 6 ")" 55 0 180)) None (mkPtok 40 "," 56 0 182))); (ObjectField (mkSpan (mkPtok 42 "x" 57 0 184) (mkPtok 40 "," 58 6 186)) None (mkPtok 42 "x" 57 0 184) (Some (mkPtok 42 "Logon" 58 0 185)) None (mkPtok 40 "," 58 6 186)); (CheckSumField (mkSpan (mkPtok 42 "options1" 59 4 187) (mkPtok 40 "," 60 0 191)) (mkChecksumFieldDecl (mkSpan (mkPtok 42 "options1" 59 4 187) (mkPtok 40 "," 60 0 191)) None (mkPtok 42 "options1" 59 4 187) (mkCalculatedFrom (mkSpan (mkPtok 5 "@calculatedFrom(" 59 13 188) (mkPtok 6 ")" 59 36 190)) (mkPtok 5 "@calculatedFrom(" 59 13 188) (mkPtok 31 (string_of_bytes [34; 97; 9; 98; 34]%N) 59 30 189) (mkPtok 6 ")" 59 36 190)) None (mkPtok 40 "," 60 0 191)))] (mkPtok 3 "}" 60 1 192)) (mkPtok 40 "," 60 3 193))); (mkFieldWithAttr (mkSpan (mkPtok 7 "@lengthOf(" 60 5 194) (mkPtok 40 "," 66 33 209)) [(FALengthOf (mkSpan (mkPtok 7 "@lengthOf(" 60 5 194) (mkPtok 6 ")" 63 2 198)) (mkLengthOf (mkSpan (mkPtok 7 "@lengthOf(" 60 5 194) (mkPtok 6 ")" 63 2 198)) (mkPtok 7 "@lengthOf(" 60 5 194) (mkPtok 42 "A" 63 0 197) (mkPtok 6 ")" 63 2 198))); (FAPadding (mkSpan (mkPtok 32 "@leftPad" 64 0 199) (mkPtok 6 ")" 65 9 203)) (mkPaddingAttr (mkSpan (mkPtok 32 "@leftPad" 64 0 199) (mkPtok 6 ")" 65 9 203)) (mkPtok 32 "@leftPad" 64 0 199) (mkPtok 8 "(" 65 0 201) (Some (mkPtok 33 "'\x00'" 65 2 202)) (mkPtok 6 ")" 65 9 203)))] (MetaField (mkSpan (mkPtok 14 "zchar[" 65 11 204) (mkPtok 40 "," 66 33 209)) None (mkMetaDecl (mkSpan (mkPtok 14 "zchar[" 65 11 204) (mkPtok 40 "," 66 33 209)) (TyFixed (mkSpan (mkPtok 14 "zchar[" 65 11 204) (mkPtok 13 "]" 65 24 206)) (mkFixedString (mkSpan (mkPtok 14 "zchar[" 65 11 204) (mkPtok 13 "]" 65 24 206)) (mkPtok 14 "zchar[" 65 11 204) (mkPtok 30 "65535" 65 18 205) (mkPtok 13 "]" 65 24 206))) (mkPtok 42 "MetaDataX" 66 4 207) (Some (mkPtok 43 "`// not a comment`" 66 14 208)) (mkPtok 40 "," 66 33 209)))); (mkFieldWithAttr (mkSpan (mkPtok 36 "repeat" 66 34 210) (mkPtok 40 "," 67 15 214)) [] (MetaField (mkSpan (mkPtok 36 "repeat" 66 34 210) (mkPtok 40 "," 67 15 214)) (Some (mkPtok 36 "repeat" 66 34 210)) (mkMetaDecl (mkSpan (mkPtok 28 "f32" 66 41 211) (mkPtok 40 "," 67 15 214)) (TyBasic (mkSpan (mkPtok 28 "f32" 66 41 211) (mkPtok 28 "f32" 66 41 211)) (mkBasicType (mkSpan (mkPtok 28 "f32" 66 41 211) (mkPtok 28 "f32" 66 41 211)) (mkPtok 28 "f32" 66 41 211))) (mkPtok 42 "Packet" 67 4 212) (Some (mkPtok 43 (string_of_bytes [96; 195; 169; 96]%N) 67 11 213)) (mkPtok 40 "," 67 15 214))))] (mkPtok 3 "}" 68 4 215))); (DMeta (mkMetaDef (mkSpan (mkPtok 37 "MetaData" 69 0 216) (mkPtok 3 "}" 70 0 219)) (mkPtok 37 "MetaData" 69 0 216) (mkPtok 42 "chars" 69 9 217) (mkPtok 2 "{" 69 15 218) [] (mkPtok 3 "}" 70 0 219)))])).
Eval vm_compute in ("<<<M493>>>" ++ check (runes_of_ascii "
options
{
    }
")).
Eval vm_compute in ("<<<M525>>>" ++ check (runes_of_ascii "packet
    A
    { repeat zchar[
    // @lengthOf(
    65535] rootA , }
")).
Eval vm_compute in ("<<<M557>>>" ++ check (runes_of_ascii "packet Packet  {repeat char[
00 ] stringy ``	,
}")).
Eval vm_compute in ("<<<M589>>>" ++ check (@nil rune)).
Eval vm_compute in ("<<<M621>>>" ++ check (runes_of_ascii "// packet A { u8 x, }
options	{ calculatedFrom	= 0123456789 } // packet A { u8 x, }
packet // a // b
Pad { }
    // 50% %s
    packet zchar	{
}
")).
Eval vm_compute in ("<<<M653>>>" ++ check (runes_of_ascii "// @lengthOf(
packet Packet {
repeat body i64_ `it's`
    ,
    }")).
Eval vm_compute in ("<<<M685>>>" ++ check (runes_of_ascii "packet u { @lengthOf( metadata )
    repeat Foo{
    match
    //	t
    Logon
    as
    string_// c
{
    [ """ ++ [28040; 24687]%N ++ runes_of_ascii """	,
""x y""
    ,""a	b"" ] :Foo
,""\n""
    :
    pack
, 00:metadata , [ ""a	b"" , 42	,  ""a\\""	, ""a\\""
    , ""x y"" , ""packet""
//
/// triple
]:
//	t
//x
MetaDataX
, },i32 u8x
    , BodyLength ,// packet A { u8 x, }
MetaDataX,  }
, repeat body trueish,tag {
    repeat	u64 u128`{ , }` , zchar[0
] int@lengthOf( rootA
    ) , }
// trailing space 
// trailing space 
,// `tick` ""quote"" 'q'
@rightPad (
) @tag( 42
    )@calculatedFrom(""a\""b""
)repeat Z9_  Z9_ ,	}
")).
Eval vm_compute in ("<<<T685>>>" ++ terms [mkTok 35 "packet" 1 0 false; mkTok 42 "u" 1 7 false; mkTok 2 "{" 1 9 false; mkTok 7 "@lengthOf(" 1 11 false; mkTok 42 "metadata" 1 22 false; mkTok 6 ")" 1 31 false; mkTok 36 "repeat" 2 4 false; mkTok 42 "Foo" 2 11 false; mkTok 2 "{" 2 14 false; mkTok 38 "match" 3 4 false; mkTok 44 (string_of_bytes [47; 47; 9; 116]%N) 4 4 true; mkTok 42 "Logon" 5 4 false; mkTok 17 "as" 6 4 false; mkTok 42 "string_" 7 4 false; mkTok 44 "// c" 7 11 true; mkTok 2 "{" 8 0 false; mkTok 18 "[" 9 4 false; mkTok 31 (string_of_bytes [34; 230; 182; 136; 230; 129; 175; 34]%N) 9 6 false; mkTok 40 "," 9 11 false; mkTok 31 """x y""" 10 0 false; mkTok 40 "," 11 4 false; mkTok 31 (string_of_bytes [34; 97; 9; 98; 34]%N) 11 5 false; mkTok 13 "]" 11 11 false; mkTok 39 ":" 11 13 false; mkTok 42 "Foo" 11 14 false; mkTok 40 "," 12 0 false; mkTok 31 """\n""" 12 1 false; mkTok 39 ":" 13 4 false; mkTok 42 "pack" 14 4 false; mkTok 40 "," 15 0 false; mkTok 30 "00" 15 2 false; mkTok 39 ":" 15 4 false; mkTok 42 "metadata" 15 5 false; mkTok 40 "," 15 14 false; mkTok 18 "[" 15 16 false; mkTok 31 (string_of_bytes [34; 97; 9; 98; 34]%N) 15 18 false; mkTok 40 "," 15 24 false; mkTok 30 "42" 15 26 false; mkTok 40 "," 15 29 false; mkTok 31 """a\\""" 15 32 false; mkTok 40 "," 15 38 false; mkTok 31 """a\\""" 15 40 false; mkTok 40 "," 16 4 false; mkTok 31 """x y""" 16 6 false; mkTok 40 "," 16 12 false; mkTok 31 """packet""" 16 14 false; mkTok 44 "//" 17 0 true; mkTok 44 "/// triple" 18 0 true; mkTok 13 "]" 19 0 false; mkTok 39 ":" 19 1 false; mkTok 44 (string_of_bytes [47; 47; 9; 116]%N) 20 0 true; mkTok 44 "//x" 21 0 true; mkTok 42 "MetaDataX" 22 0 false; mkTok 40 "," 23 0 false; mkTok 3 "}" 23 2 false; mkTok 40 "," 23 3 false; mkTok 26 "i32" 23 4 false; mkTok 42 "u8x" 23 8 false; mkTok 40 "," 24 4 false; mkTok 42 "BodyLength" 24 6 false; mkTok 40 "," 24 17 false; mkTok 44 "// packet A { u8 x, }" 24 18 true; mkTok 42 "MetaDataX" 25 0 false; mkTok 40 "," 25 9 false; mkTok 3 "}" 25 12 false; mkTok 40 "," 26 0 false; mkTok 36 "repeat" 26 2 false; mkTok 42 "body" 26 9 false; mkTok 42 "trueish" 26 14 false; mkTok 40 "," 26 21 false; mkTok 42 "tag" 26 22 false; mkTok 2 "{" 26 26 false; mkTok 36 "repeat" 27 4 false; mkTok 23 "u64" 27 11 false; mkTok 42 "u128" 27 15 false; mkTok 43 "`{ , }`" 27 19 false; mkTok 40 "," 27 27 false; mkTok 14 "zchar[" 27 29 false; mkTok 30 "0" 27 35 false; mkTok 13 "]" 28 0 false; mkTok 42 "int" 28 2 false; mkTok 7 "@lengthOf(" 28 5 false; mkTok 42 "rootA" 28 16 false; mkTok 6 ")" 29 4 false; mkTok 40 "," 29 6 false; mkTok 3 "}" 29 8 false; mkTok 44 "// trailing space " 30 0 true; mkTok 44 "// trailing space " 31 0 true; mkTok 40 "," 32 0 false; mkTok 44 "// `tick` ""quote"" 'q'" 32 1 true; mkTok 32 "@rightPad" 33 0 false; mkTok 8 "(" 33 10 false; mkTok 6 ")" 34 0 false; mkTok 9 "@tag(" 34 2 false; mkTok 30 "42" 34 8 false; mkTok 6 ")" 35 4 false; mkTok 5 "@calculatedFrom(" 35 5 false; mkTok 31 """a\""b""" 35 21 false; mkTok 6 ")" 36 0 false; mkTok 36 "repeat" 36 1 false; mkTok 42 "Z9_" 36 8 false; mkTok 42 "Z9_" 36 13 false; mkTok 40 "," 36 17 false; mkTok 3 "}" 36 19 false; mkTok 0 "<EOF>" 37 0 false] (mkPacket (mkPtok 35 "packet" 1 0 0) (Some (mkPtok 3 "}" 36 19 103)) [(DPacket (mkPacketDef (mkSpan (mkPtok 35 "packet" 1 0 0) (mkPtok 3 "}" 36 19 103)) None (mkPtok 35 "packet" 1 0 0) (mkPtok 42 "u" 1 7 1) (mkPtok 2 "{" 1 9 2) [(mkFieldWithAttr (mkSpan (mkPtok 7 "@lengthOf(" 1 11 3) (mkPtok 40 "," 26 0 65)) [(FALengthOf (mkSpan (mkPtok 7 "@lengthOf(" 1 11 3) (mkPtok 6 ")" 1 31 5)) (mkLengthOf (mkSpan (mkPtok 7 "@lengthOf(" 1 11 3) (mkPtok 6 ")" 1 31 5)) (mkPtok 7 "@lengthOf(" 1 11 3) (mkPtok 42 "metadata" 1 22 4) (mkPtok 6 ")" 1 31 5)))] (InerObjectField (mkSpan (mkPtok 36 "repeat" 2 4 6) (mkPtok 40 "," 26 0 65)) (Some (mkPtok 36 "repeat" 2 4 6)) (InerObjectDecl (mkSpan (mkPtok 42 "Foo" 2 11 7) (mkPtok 3 "}" 25 12 64)) (mkPtok 42 "Foo" 2 11 7) (mkPtok 2 "{" 2 14 8) [(MatchField (mkSpan (mkPtok 38 "match" 3 4 9) (mkPtok 40 "," 23 3 55)) (mkMatchFieldDecl (mkSpan (mkPtok 38 "match" 3 4 9) (mkPtok 3 "}" 23 2 54)) (mkPtok 38 "match" 3 4 9) (mkPtok 42 "Logon" 5 4 11) (mkPtok 17 "as" 6 4 12) (mkPtok 42 "string_" 7 4 13) (mkPtok 2 "{" 8 0 15) [(mkMatchPair (mkSpan (mkPtok 18 "[" 9 4 16) (mkPtok 40 "," 12 0 25)) (MKList (mkKeyList (mkSpan (mkPtok 18 "[" 9 4 16) (mkPtok 13 "]" 11 11 22)) (mkPtok 18 "[" 9 4 16) (mkPtok 31 (string_of_bytes [34; 230; 182; 136; 230; 129; 175; 34]%N) 9 6 17) [((mkPtok 40 "," 9 11 18), (mkPtok 31 """x y""" 10 0 19)); ((mkPtok 40 "," 11 4 20), (mkPtok 31 (string_of_bytes [34; 97; 9; 98; 34]%N) 11 5 21))] (mkPtok 13 "]" 11 11 22))) (mkPtok 39 ":" 11 13 23) (mkPtok 42 "Foo" 11 14 24) (Some (mkPtok 40 "," 12 0 25))); (mkMatchPair (mkSpan (mkPtok 31 """\n""" 12 1 26) (mkPtok 40 "," 15 0 29)) (MKString (mkPtok 31 """\n""" 12 1 26)) (mkPtok 39 ":" 13 4 27) (mkPtok 42 "pack" 14 4 28) (Some (mkPtok 40 "," 15 0 29))); (mkMatchPair (mkSpan (mkPtok 30 "00" 15 2 30) (mkPtok 40 "," 15 14 33)) (MKDigits (mkPtok 30 "00" 15 2 30)) (mkPtok 39 ":" 15 4 31) (mkPtok 42 "metadata" 15 5 32) (Some (mkPtok 40 "," 15 14 33))); (mkMatchPair (mkSpan (mkPtok 18 "[" 15 16 34) (mkPtok 40 "," 23 0 53)) (MKList (mkKeyList (mkSpan (mkPtok 18 "[" 15 16 34) (mkPtok 13 "]" 19 0 48)) (mkPtok 18 "[" 15 16 34) (mkPtok 31 (string_of_bytes [34; 97; 9; 98; 34]%N) 15 18 35) [((mkPtok 40 "," 15 24 36), (mkPtok 30 "42" 15 26 37)); ((mkPtok 40 "," 15 29 38), (mkPtok 31 """a\\""" 15 32 39)); ((mkPtok 40 "," 15 38 40), (mkPtok 31 """a\\""" 15 40 41)); ((mkPtok 40 "," 16 4 42), (mkPtok 31 """x y""" 16 6 43)); ((mkPtok 40 "," 16 12 44), (mkPtok 31 """packet""" 16 14 45))] (mkPtok 13 "]" 19 0 48))) (mkPtok 39 ":" 19 1 49) (mkPtok 42 "MetaDataX" 22 0 52) (Some (mkPtok 40 "," 23 0 53)))] (mkPtok 3 "}" 23 2 54)) (mkPtok 40 "," 23 3 55)); (MetaField (mkSpan (mkPtok 26 "i32" 23 4 56) (mkPtok 40 "," 24 4 58)) None (mkMetaDecl (mkSpan (mkPtok 26 "i32" 23 4 56) (mkPtok 40 "," 24 4 58)) (TyBasic (mkSpan (mkPtok 26 "i32" 23 4 56) (mkPtok 26 "i32" 23 4 56)) (mkBasicType (mkSpan (mkPtok 26 "i32" 23 4 56) (mkPtok 26 "i32" 23 4 56)) (mkPtok 26 "i32" 23 4 56))) (mkPtok 42 "u8x" 23 8 57) None (mkPtok 40 "," 24 4 58))); (ObjectField (mkSpan (mkPtok 42 "BodyLength" 24 6 59) (mkPtok 40 "," 24 17 60)) None (mkPtok 42 "BodyLength" 24 6 59) None None (mkPtok 40 "," 24 17 60)); (ObjectField (mkSpan (mkPtok 42 "MetaDataX" 25 0 62) (mkPtok 40 "," 25 9 63)) None (mkPtok 42 "MetaDataX" 25 0 62) None None (mkPtok 40 "," 25 9 63))] (mkPtok 3 "}" 25 12 64)) (mkPtok 40 "," 26 0 65))); (mkFieldWithAttr (mkSpan (mkPtok 36 "repeat" 26 2 66) (mkPtok 40 "," 26 21 69)) [] (ObjectField (mkSpan (mkPtok 36 "repeat" 26 2 66) (mkPtok 40 "," 26 21 69)) (Some (mkPtok 36 "repeat" 26 2 66)) (mkPtok 42 "body" 26 9 67) (Some (mkPtok 42 "trueish" 26 14 68)) None (mkPtok 40 "," 26 21 69))); (mkFieldWithAttr (mkSpan (mkPtok 42 "tag" 26 22 70) (mkPtok 40 "," 32 0 88)) [] (InerObjectField (mkSpan (mkPtok 42 "tag" 26 22 70) (mkPtok 40 "," 32 0 88)) None (InerObjectDecl (mkSpan (mkPtok 42 "tag" 26 22 70) (mkPtok 3 "}" 29 8 85)) (mkPtok 42 "tag" 26 22 70) (mkPtok 2 "{" 26 26 71) [(MetaField (mkSpan (mkPtok 36 "repeat" 27 4 72) (mkPtok 40 "," 27 27 76)) (Some (mkPtok 36 "repeat" 27 4 72)) (mkMetaDecl (mkSpan (mkPtok 23 "u64" 27 11 73) (mkPtok 40 "," 27 27 76)) (TyBasic (mkSpan (mkPtok 23 "u64" 27 11 73) (mkPtok 23 "u64" 27 11 73)) (mkBasicType (mkSpan (mkPtok 23 "u64" 27 11 73) (mkPtok 23 "u64" 27 11 73)) (mkPtok 23 "u64" 27 11 73))) (mkPtok 42 "u128" 27 15 74) (Some (mkPtok 43 "`{ , }`" 27 19 75)) (mkPtok 40 "," 27 27 76))); (LengthField (mkSpan (mkPtok 14 "zchar[" 27 29 77) (mkPtok 40 "," 29 6 84)) (mkLengthFieldDecl (mkSpan (mkPtok 14 "zchar[" 27 29 77) (mkPtok 40 "," 29 6 84)) (Some (TyFixed (mkSpan (mkPtok 14 "zchar[" 27 29 77) (mkPtok 13 "]" 28 0 79)) (mkFixedString (mkSpan (mkPtok 14 "zchar[" 27 29 77) (mkPtok 13 "]" 28 0 79)) (mkPtok 14 "zchar[" 27 29 77) (mkPtok 30 "0" 27 35 78) (mkPtok 13 "]" 28 0 79)))) (mkPtok 42 "int" 28 2 80) (mkLengthOf (mkSpan (mkPtok 7 "@lengthOf(" 28 5 81) (mkPtok 6 ")" 29 4 83)) (mkPtok 7 "@lengthOf(" 28 5 81) (mkPtok 42 "rootA" 28 16 82) (mkPtok 6 ")" 29 4 83)) None (mkPtok 40 "," 29 6 84)))] (mkPtok 3 "}" 29 8 85)) (mkPtok 40 "," 32 0 88))); (mkFieldWithAttr (mkSpan (mkPtok 32 "@rightPad" 33 0 90) (mkPtok 40 "," 36 17 102)) [(FAPadding (mkSpan (mkPtok 32 "@rightPad" 33 0 90) (mkPtok 6 ")" 34 0 92)) (mkPaddingAttr (mkSpan (mkPtok 32 "@rightPad" 33 0 90) (mkPtok 6 ")" 34 0 92)) (mkPtok 32 "@rightPad" 33 0 90) (mkPtok 8 "(" 33 10 91) None (mkPtok 6 ")" 34 0 92))); (FATag (mkSpan (mkPtok 9 "@tag(" 34 2 93) (mkPtok 6 ")" 35 4 95)) (mkTagAttr (mkSpan (mkPtok 9 "@tag(" 34 2 93) (mkPtok 6 ")" 35 4 95)) (mkPtok 9 "@tag(" 34 2 93) (mkPtok 30 "42" 34 8 94) (mkPtok 6 ")" 35 4 95))); (FACalculatedFrom (mkSpan (mkPtok 5 "@calculatedFrom(" 35 5 96) (mkPtok 6 ")" 36 0 98)) (mkCalculatedFrom (mkSpan (mkPtok 5 "@calculatedFrom(" 35 5 96) (mkPtok 6 ")" 36 0 98)) (mkPtok 5 "@calculatedFrom(" 35 5 96) (mkPtok 31 """a\""b""" 35 21 97) (mkPtok 6 ")" 36 0 98)))] (ObjectField (mkSpan (mkPtok 36 "repeat" 36 1 99) (mkPtok 40 "," 36 17 102)) (Some (mkPtok 36 "repeat" 36 1 99)) (mkPtok 42 "Z9_" 36 8 100) (Some (mkPtok 42 "Z9_" 36 13 101)) None (mkPtok 40 "," 36 17 102)))] (mkPtok 3 "}" 36 19 103)))])).
Eval vm_compute in ("<<<M717>>>" ++ check (runes_of_ascii "//x

// c
")).
Eval vm_compute in ("<<<M749>>>" ++ check (runes_of_ascii "  options{ rootA
=
    ""abc""/// triple
; pack =
    false  ;
    }")).
Eval vm_compute in ("<<<M781>>>" ++ check (runes_of_ascii "root packet u
{ _x	@calculatedFrom(// " ++ [27880; 37322]%N ++ runes_of_ascii "
""// no comment"" ), @lengthOf( // " ++ [27880; 37322]%N ++ runes_of_ascii "
i64_  )
    char f32a @calculatedFrom(// 50% %s
""`tick`"" )
, @tag( 007)
@lengthOf( a1)
@leftPad (' ' )
    /// triple
    f32 _x
    `it's` , @tag( 65535
    ) zchar[ 0 ] i64_@lengthOf(  options1 ) ,}
// " ++ [128512]%N ++ runes_of_ascii " emoji
")).
Eval vm_compute in ("<<<M813>>>" ++ check (runes_of_ascii "packet
string_ {  match packetx as
    // c
    u128{10
    : calculatedFrom , 42:
    i8i8 , 7 :
rootA [ ""a\\"" // trailing space 
, 007//	t
,10
    ,""1"", """ ++ [28040; 24687]%N ++ runes_of_ascii """,
// a // b
// `tick` ""quote"" 'q'
""// no comment"" , ""a\""b"" ]
: T 42 :
crc ,
    },	len	@lengthOf(
o )
//x
//x
``, // a // b
@rightPad( '\x00' )repeat char[] int , }
")).
Eval vm_compute in ("<<<M845>>>" ++ check (runes_of_ascii "options{f32a
= false ; stringy =' '
    ;
    calculatedFrom= ' '
;
    // packet A { u8 x, }
    }	packet Packet
    { } // `tick` ""quote"" 'q'")).
Eval vm_compute in ("<<<M877>>>" ++ check (runes_of_ascii "packet
Logon{ @lengthOf(  x ) @lengthOf( // trailing space 
Packet  )  char[ 3// @lengthOf(
] u8x ,  @lengthOf(trueish) repeat string asx, @tag(
    4294967296) packetx `say ""hi""`/// triple
,@calculatedFrom( // a // b
""{,}"" )  repeat
    i64_ ,	i64 uint8x
    `doc` ,
i64 float @lengthOf(
calculatedFrom  ) ,
// `tick` ""quote"" 'q'
// " ++ [27880; 37322]%N ++ runes_of_ascii "
@tag( //x
10 )
    match asx as body { """ ++ [128512]%N ++ runes_of_ascii """ : i8i8
, 1
    // c
    : // `tick` ""quote"" 'q'
zchar ,
}, }")).
Eval vm_compute in ("<<<M909>>>" ++ check (runes_of_ascii "  packet float	{
@leftPad ( /// triple
) uint64  u //	t
,
    repeat char Z9_ ,
    @lengthOf( asx) int8 _x @lengthOf(
    uint8x
)`" ++ [233]%N ++ runes_of_ascii "` , @rightPad
    ( // packet A { u8 x, }
'\x00' //	t
) options1 As , }  packet x // " ++ [27880; 37322]%N ++ runes_of_ascii "
{ @lengthOf(// " ++ [27880; 37322]%N ++ runes_of_ascii "
int	)
string_{ repeat Logon {	rootA
,i8i8{ char[
3 ]i64_
,rootA falsey
// trailing space 
// c
, } ,
} ,  } ,i32 crc , int
{ repeat f64 Packet
, uint8x
@calculatedFrom( ""1"") , string
// `tick` ""quote"" 'q'
//
x
`u8 x,` , } ,  }")).
Eval vm_compute in ("<<<T909>>>" ++ terms [mkTok 35 "packet" 1 2 false; mkTok 42 "float" 1 9 false; mkTok 2 "{" 1 15 false; mkTok 32 "@leftPad" 2 0 false; mkTok 8 "(" 2 9 false; mkTok 44 "/// triple" 2 11 true; mkTok 6 ")" 3 0 false; mkTok 23 "uint64" 3 2 false; mkTok 42 "u" 3 10 false; mkTok 44 (string_of_bytes [47; 47; 9; 116]%N) 3 12 true; mkTok 40 "," 4 0 false; mkTok 36 "repeat" 5 4 false; mkTok 19 "char" 5 11 false; mkTok 42 "Z9_" 5 16 false; mkTok 40 "," 5 20 false; mkTok 7 "@lengthOf(" 6 4 false; mkTok 42 "asx" 6 15 false; mkTok 6 ")" 6 18 false; mkTok 24 "int8" 6 20 false; mkTok 42 "_x" 6 25 false; mkTok 7 "@lengthOf(" 6 28 false; mkTok 42 "uint8x" 7 4 false; mkTok 6 ")" 8 0 false; mkTok 43 (string_of_bytes [96; 195; 169; 96]%N) 8 1 false; mkTok 40 "," 8 5 false; mkTok 32 "@rightPad" 8 7 false; mkTok 8 "(" 9 4 false; mkTok 44 "// packet A { u8 x, }" 9 6 true; mkTok 33 "'\x00'" 10 0 false; mkTok 44 (string_of_bytes [47; 47; 9; 116]%N) 10 7 true; mkTok 6 ")" 11 0 false; mkTok 42 "options1" 11 2 false; mkTok 42 "As" 11 11 false; mkTok 40 "," 11 14 false; mkTok 3 "}" 11 16 false; mkTok 35 "packet" 11 19 false; mkTok 42 "x" 11 26 false; mkTok 44 (string_of_bytes [47; 47; 32; 230; 179; 168; 233; 135; 138]%N) 11 28 true; mkTok 2 "{" 12 0 false; mkTok 7 "@lengthOf(" 12 2 false; mkTok 44 (string_of_bytes [47; 47; 32; 230; 179; 168; 233; 135; 138]%N) 12 12 true; mkTok 42 "int" 13 0 false; mkTok 6 ")" 13 4 false; mkTok 42 "string_" 14 0 false; mkTok 2 "{" 14 7 false; mkTok 36 "repeat" 14 9 false; mkTok 42 "Logon" 14 16 false; mkTok 2 "{" 14 22 false; mkTok 42 "rootA" 14 24 false; mkTok 40 "," 15 0 false; mkTok 42 "i8i8" 15 1 false; mkTok 2 "{" 15 5 false; mkTok 12 "char[" 15 7 false; mkTok 30 "3" 16 0 false; mkTok 13 "]" 16 2 false; mkTok 42 "i64_" 16 3 false; mkTok 40 "," 17 0 false; mkTok 42 "rootA" 17 1 false; mkTok 42 "falsey" 17 7 false; mkTok 44 "// trailing space " 18 0 true; mkTok 44 "// c" 19 0 true; mkTok 40 "," 20 0 false; mkTok 3 "}" 20 2 false; mkTok 40 "," 20 4 false; mkTok 3 "}" 21 0 false; mkTok 40 "," 21 2 false; mkTok 3 "}" 21 5 false; mkTok 40 "," 21 7 false; mkTok 26 "i32" 21 8 false; mkTok 42 "crc" 21 12 false; mkTok 40 "," 21 16 false; mkTok 42 "int" 21 18 false; mkTok 2 "{" 22 0 false; mkTok 36 "repeat" 22 2 false; mkTok 29 "f64" 22 9 false; mkTok 42 "Packet" 22 13 false; mkTok 40 "," 23 0 false; mkTok 42 "uint8x" 23 2 false; mkTok 5 "@calculatedFrom(" 24 0 false; mkTok 31 """1""" 24 17 false; mkTok 6 ")" 24 20 false; mkTok 40 "," 24 22 false; mkTok 15 "string" 24 24 false; mkTok 44 "// `tick` ""quote"" 'q'" 25 0 true; mkTok 44 "//" 26 0 true; mkTok 42 "x" 27 0 false; mkTok 43 "`u8 x,`" 28 0 false; mkTok 40 "," 28 8 false; mkTok 3 "}" 28 10 false; mkTok 40 "," 28 12 false; mkTok 3 "}" 28 15 false; mkTok 0 "<EOF>" 28 16 false] (mkPacket (mkPtok 35 "packet" 1 2 0) (Some (mkPtok 3 "}" 28 15 90)) [(DPacket (mkPacketDef (mkSpan (mkPtok 35 "packet" 1 2 0) (mkPtok 3 "}" 11 16 34)) None (mkPtok 35 "packet" 1 2 0) (mkPtok 42 "float" 1 9 1) (mkPtok 2 "{" 1 15 2) [(mkFieldWithAttr (mkSpan (mkPtok 32 "@leftPad" 2 0 3) (mkPtok 40 "," 4 0 10)) [(FAPadding (mkSpan (mkPtok 32 "@leftPad" 2 0 3) (mkPtok 6 ")" 3 0 6)) (mkPaddingAttr (mkSpan (mkPtok 32 "@leftPad" 2 0 3) (mkPtok 6 ")" 3 0 6)) (mkPtok 32 "@leftPad" 2 0 3) (mkPtok 8 "(" 2 9 4) None (mkPtok 6 ")" 3 0 6)))] (MetaField (mkSpan (mkPtok 23 "uint64" 3 2 7) (mkPtok 40 "," 4 0 10)) None (mkMetaDecl (mkSpan (mkPtok 23 "uint64" 3 2 7) (mkPtok 40 "," 4 0 10)) (TyBasic (mkSpan (mkPtok 23 "uint64" 3 2 7) (mkPtok 23 "uint64" 3 2 7)) (mkBasicType (mkSpan (mkPtok 23 "uint64" 3 2 7) (mkPtok 23 "uint64" 3 2 7)) (mkPtok 23 "uint64" 3 2 7))) (mkPtok 42 "u" 3 10 8) None (mkPtok 40 "," 4 0 10)))); (mkFieldWithAttr (mkSpan (mkPtok 36 "repeat" 5 4 11) (mkPtok 40 "," 5 20 14)) [] (MetaField (mkSpan (mkPtok 36 "repeat" 5 4 11) (mkPtok 40 "," 5 20 14)) (Some (mkPtok 36 "repeat" 5 4 11)) (mkMetaDecl (mkSpan (mkPtok 19 "char" 5 11 12) (mkPtok 40 "," 5 20 14)) (TyBasic (mkSpan (mkPtok 19 "char" 5 11 12) (mkPtok 19 "char" 5 11 12)) (mkBasicType (mkSpan (mkPtok 19 "char" 5 11 12) (mkPtok 19 "char" 5 11 12)) (mkPtok 19 "char" 5 11 12))) (mkPtok 42 "Z9_" 5 16 13) None (mkPtok 40 "," 5 20 14)))); (mkFieldWithAttr (mkSpan (mkPtok 7 "@lengthOf(" 6 4 15) (mkPtok 40 "," 8 5 24)) [(FALengthOf (mkSpan (mkPtok 7 "@lengthOf(" 6 4 15) (mkPtok 6 ")" 6 18 17)) (mkLengthOf (mkSpan (mkPtok 7 "@lengthOf(" 6 4 15) (mkPtok 6 ")" 6 18 17)) (mkPtok 7 "@lengthOf(" 6 4 15) (mkPtok 42 "asx" 6 15 16) (mkPtok 6 ")" 6 18 17)))] (LengthField (mkSpan (mkPtok 24 "int8" 6 20 18) (mkPtok 40 "," 8 5 24)) (mkLengthFieldDecl (mkSpan (mkPtok 24 "int8" 6 20 18) (mkPtok 40 "," 8 5 24)) (Some (TyBasic (mkSpan (mkPtok 24 "int8" 6 20 18) (mkPtok 24 "int8" 6 20 18)) (mkBasicType (mkSpan (mkPtok 24 "int8" 6 20 18) (mkPtok 24 "int8" 6 20 18)) (mkPtok 24 "int8" 6 20 18)))) (mkPtok 42 "_x" 6 25 19) (mkLengthOf (mkSpan (mkPtok 7 "@lengthOf(" 6 28 20) (mkPtok 6 ")" 8 0 22)) (mkPtok 7 "@lengthOf(" 6 28 20) (mkPtok 42 "uint8x" 7 4 21) (mkPtok 6 ")" 8 0 22)) (Some (mkPtok 43 (string_of_bytes [96; 195; 169; 96]%N) 8 1 23)) (mkPtok 40 "," 8 5 24)))); (mkFieldWithAttr (mkSpan (mkPtok 32 "@rightPad" 8 7 25) (mkPtok 40 "," 11 14 33)) [(FAPadding (mkSpan (mkPtok 32 "@rightPad" 8 7 25) (mkPtok 6 ")" 11 0 30)) (mkPaddingAttr (mkSpan (mkPtok 32 "@rightPad" 8 7 25) (mkPtok 6 ")" 11 0 30)) (mkPtok 32 "@rightPad" 8 7 25) (mkPtok 8 "(" 9 4 26) (Some (mkPtok 33 "'\x00'" 10 0 28)) (mkPtok 6 ")" 11 0 30)))] (ObjectField (mkSpan (mkPtok 42 "options1" 11 2 31) (mkPtok 40 "," 11 14 33)) None (mkPtok 42 "options1" 11 2 31) (Some (mkPtok 42 "As" 11 11 32)) None (mkPtok 40 "," 11 14 33)))] (mkPtok 3 "}" 11 16 34))); (DPacket (mkPacketDef (mkSpan (mkPtok 35 "packet" 11 19 35) (mkPtok 3 "}" 28 15 90)) None (mkPtok 35 "packet" 11 19 35) (mkPtok 42 "x" 11 26 36) (mkPtok 2 "{" 12 0 38) [(mkFieldWithAttr (mkSpan (mkPtok 7 "@lengthOf(" 12 2 39) (mkPtok 40 "," 21 7 67)) [(FALengthOf (mkSpan (mkPtok 7 "@lengthOf(" 12 2 39) (mkPtok 6 ")" 13 4 42)) (mkLengthOf (mkSpan (mkPtok 7 "@lengthOf(" 12 2 39) (mkPtok 6 ")" 13 4 42)) (mkPtok 7 "@lengthOf(" 12 2 39) (mkPtok 42 "int" 13 0 41) (mkPtok 6 ")" 13 4 42)))] (InerObjectField (mkSpan (mkPtok 42 "string_" 14 0 43) (mkPtok 40 "," 21 7 67)) None (InerObjectDecl (mkSpan (mkPtok 42 "string_" 14 0 43) (mkPtok 3 "}" 21 5 66)) (mkPtok 42 "string_" 14 0 43) (mkPtok 2 "{" 14 7 44) [(InerObjectField (mkSpan (mkPtok 36 "repeat" 14 9 45) (mkPtok 40 "," 21 2 65)) (Some (mkPtok 36 "repeat" 14 9 45)) (InerObjectDecl (mkSpan (mkPtok 42 "Logon" 14 16 46) (mkPtok 3 "}" 21 0 64)) (mkPtok 42 "Logon" 14 16 46) (mkPtok 2 "{" 14 22 47) [(ObjectField (mkSpan (mkPtok 42 "rootA" 14 24 48) (mkPtok 40 "," 15 0 49)) None (mkPtok 42 "rootA" 14 24 48) None None (mkPtok 40 "," 15 0 49)); (InerObjectField (mkSpan (mkPtok 42 "i8i8" 15 1 50) (mkPtok 40 "," 20 4 63)) None (InerObjectDecl (mkSpan (mkPtok 42 "i8i8" 15 1 50) (mkPtok 3 "}" 20 2 62)) (mkPtok 42 "i8i8" 15 1 50) (mkPtok 2 "{" 15 5 51) [(MetaField (mkSpan (mkPtok 12 "char[" 15 7 52) (mkPtok 40 "," 17 0 56)) None (mkMetaDecl (mkSpan (mkPtok 12 "char[" 15 7 52) (mkPtok 40 "," 17 0 56)) (TyFixed (mkSpan (mkPtok 12 "char[" 15 7 52) (mkPtok 13 "]" 16 2 54)) (mkFixedString (mkSpan (mkPtok 12 "char[" 15 7 52) (mkPtok 13 "]" 16 2 54)) (mkPtok 12 "char[" 15 7 52) (mkPtok 30 "3" 16 0 53) (mkPtok 13 "]" 16 2 54))) (mkPtok 42 "i64_" 16 3 55) None (mkPtok 40 "," 17 0 56))); (ObjectField (mkSpan (mkPtok 42 "rootA" 17 1 57) (mkPtok 40 "," 20 0 61)) None (mkPtok 42 "rootA" 17 1 57) (Some (mkPtok 42 "falsey" 17 7 58)) None (mkPtok 40 "," 20 0 61))] (mkPtok 3 "}" 20 2 62)) (mkPtok 40 "," 20 4 63))] (mkPtok 3 "}" 21 0 64)) (mkPtok 40 "," 21 2 65))] (mkPtok 3 "}" 21 5 66)) (mkPtok 40 "," 21 7 67))); (mkFieldWithAttr (mkSpan (mkPtok 26 "i32" 21 8 68) (mkPtok 40 "," 21 16 70)) [] (MetaField (mkSpan (mkPtok 26 "i32" 21 8 68) (mkPtok 40 "," 21 16 70)) None (mkMetaDecl (mkSpan (mkPtok 26 "i32" 21 8 68) (mkPtok 40 "," 21 16 70)) (TyBasic (mkSpan (mkPtok 26 "i32" 21 8 68) (mkPtok 26 "i32" 21 8 68)) (mkBasicType (mkSpan (mkPtok 26 "i32" 21 8 68) (mkPtok 26 "i32" 21 8 68)) (mkPtok 26 "i32" 21 8 68))) (mkPtok 42 "crc" 21 12 69) None (mkPtok 40 "," 21 16 70)))); (mkFieldWithAttr (mkSpan (mkPtok 42 "int" 21 18 71) (mkPtok 40 "," 28 12 89)) [] (InerObjectField (mkSpan (mkPtok 42 "int" 21 18 71) (mkPtok 40 "," 28 12 89)) None (InerObjectDecl (mkSpan (mkPtok 42 "int" 21 18 71) (mkPtok 3 "}" 28 10 88)) (mkPtok 42 "int" 21 18 71) (mkPtok 2 "{" 22 0 72) [(MetaField (mkSpan (mkPtok 36 "repeat" 22 2 73) (mkPtok 40 "," 23 0 76)) (Some (mkPtok 36 "repeat" 22 2 73)) (mkMetaDecl (mkSpan (mkPtok 29 "f64" 22 9 74) (mkPtok 40 "," 23 0 76)) (TyBasic (mkSpan (mkPtok 29 "f64" 22 9 74) (mkPtok 29 "f64" 22 9 74)) (mkBasicType (mkSpan (mkPtok 29 "f64" 22 9 74) (mkPtok 29 "f64" 22 9 74)) (mkPtok 29 "f64" 22 9 74))) (mkPtok 42 "Packet" 22 13 75) None (mkPtok 40 "," 23 0 76))); (CheckSumField (mkSpan (mkPtok 42 "uint8x" 23 2 77) (mkPtok 40 "," 24 22 81)) (mkChecksumFieldDecl (mkSpan (mkPtok 42 "uint8x" 23 2 77) (mkPtok 40 "," 24 22 81)) None (mkPtok 42 "uint8x" 23 2 77) (mkCalculatedFrom (mkSpan (mkPtok 5 "@calculatedFrom(" 24 0 78) (mkPtok 6 ")" 24 20 80)) (mkPtok 5 "@calculatedFrom(" 24 0 78) (mkPtok 31 """1""" 24 17 79) (mkPtok 6 ")" 24 20 80)) None (mkPtok 40 "," 24 22 81))); (MetaField (mkSpan (mkPtok 15 "string" 24 24 82) (mkPtok 40 "," 28 8 87)) None (mkMetaDecl (mkSpan (mkPtok 15 "string" 24 24 82) (mkPtok 40 "," 28 8 87)) (TyDynamic (mkSpan (mkPtok 15 "string" 24 24 82) (mkPtok 15 "string" 24 24 82)) (mkDynamicString (mkSpan (mkPtok 15 "string" 24 24 82) (mkPtok 15 "string" 24 24 82)) (mkPtok 15 "string" 24 24 82))) (mkPtok 42 "x" 27 0 85) (Some (mkPtok 43 "`u8 x,`" 28 0 86)) (mkPtok 40 "," 28 8 87)))] (mkPtok 3 "}" 28 10 88)) (mkPtok 40 "," 28 12 89)))] (mkPtok 3 "}" 28 15 90)))])).
Eval vm_compute in ("<<<M941>>>" ++ check (runes_of_ascii "  options
    {
// @lengthOf(
//
}
")).
Eval vm_compute in ("<<<M973>>>" ++ check (runes_of_ascii "options	{ i8i8	= """ ++ [128512]%N ++ runes_of_ascii """;A=
    i16 } //")).
Eval vm_compute in ("<<<M1005>>>" ++ check (runes_of_ascii "
MetaData	roots
    {uint8x trueish
,//
u32
    len ,} // @lengthOf(")).
Eval vm_compute in ("<<<M1037>>>" ++ check (runes_of_ascii "
packet f32a {
    @lengthOf( Header// trailing space 
)
packetx zchar `two words` // `tick` ""quote"" 'q'
, @lengthOf( string_
    ) char[]
//
// a // b
_x `{ , }`,
    repeatCount trueish
    `crlf
line` ,}")).
Eval vm_compute in ("<<<M1069>>>" ++ check (runes_of_ascii "root // trailing space 
packet leftPad { u64 Z9_ `doc`  ,// 50% %s
}

")).
Eval vm_compute in ("<<<M1101>>>" ++ check (runes_of_ascii "options { // c
Z9_= ' ' ;roots=true  ; x
= true ; }
options { }")).
Eval vm_compute in ("<<<M1133>>>" ++ check (runes_of_ascii "packet i64_ {zchar[ //	t
7
] chars
,  @rightPad
    (
    )pack
,
@lengthOf(//
roots )// c
@tag( 65535) Header zchar ,
    } packet	matchKey
    { @calculatedFrom(	""\n"" ) @lengthOf( x_y_z)
@lengthOf( // 50% %s
calculatedFrom)
zchar[
//
/// triple
0 ] MetaDataX , } options { options1 = // a // b
' '
;	Pad =
char
// @lengthOf(
//
} packet
    /// triple
    A { } //")).
Eval vm_compute in ("<<<T1133>>>" ++ terms [mkTok 35 "packet" 1 0 false; mkTok 42 "i64_" 1 7 false; mkTok 2 "{" 1 12 false; mkTok 14 "zchar[" 1 13 false; mkTok 44 (string_of_bytes [47; 47; 9; 116]%N) 1 20 true; mkTok 30 "7" 2 0 false; mkTok 13 "]" 3 0 false; mkTok 42 "chars" 3 2 false; mkTok 40 "," 4 0 false; mkTok 32 "@rightPad" 4 3 false; mkTok 8 "(" 5 4 false; mkTok 6 ")" 6 4 false; mkTok 42 "pack" 6 5 false; mkTok 40 "," 7 0 false; mkTok 7 "@lengthOf(" 8 0 false; mkTok 44 "//" 8 10 true; mkTok 42 "roots" 9 0 false; mkTok 6 ")" 9 6 false; mkTok 44 "// c" 9 7 true; mkTok 9 "@tag(" 10 0 false; mkTok 30 "65535" 10 6 false; mkTok 6 ")" 10 11 false; mkTok 42 "Header" 10 13 false; mkTok 42 "zchar" 10 20 false; mkTok 40 "," 10 26 false; mkTok 3 "}" 11 4 false; mkTok 35 "packet" 11 6 false; mkTok 42 "matchKey" 11 13 false; mkTok 2 "{" 12 4 false; mkTok 5 "@calculatedFrom(" 12 6 false; mkTok 31 """\n""" 12 23 false; mkTok 6 ")" 12 28 false; mkTok 7 "@lengthOf(" 12 30 false; mkTok 42 "x_y_z" 12 41 false; mkTok 6 ")" 12 46 false; mkTok 7 "@lengthOf(" 13 0 false; mkTok 44 "// 50% %s" 13 11 true; mkTok 42 "calculatedFrom" 14 0 false; mkTok 6 ")" 14 14 false; mkTok 14 "zchar[" 15 0 false; mkTok 44 "//" 16 0 true; mkTok 44 "/// triple" 17 0 true; mkTok 30 "0" 18 0 false; mkTok 13 "]" 18 2 false; mkTok 42 "MetaDataX" 18 4 false; mkTok 40 "," 18 14 false; mkTok 3 "}" 18 16 false; mkTok 1 "options" 18 18 false; mkTok 2 "{" 18 26 false; mkTok 42 "options1" 18 28 false; mkTok 4 "=" 18 37 false; mkTok 44 "// a // b" 18 39 true; mkTok 33 "' '" 19 0 false; mkTok 41 ";" 20 0 false; mkTok 42 "Pad" 20 2 false; mkTok 4 "=" 20 6 false; mkTok 19 "char" 21 0 false; mkTok 44 "// @lengthOf(" 22 0 true; mkTok 44 "//" 23 0 true; mkTok 3 "}" 24 0 false; mkTok 35 "packet" 24 2 false; mkTok 44 "/// triple" 25 4 true; mkTok 42 "A" 26 4 false; mkTok 2 "{" 26 6 false; mkTok 3 "}" 26 8 false; mkTok 44 "//" 26 10 true; mkTok 0 "<EOF>" 26 12 false] (mkPacket (mkPtok 35 "packet" 1 0 0) (Some (mkPtok 3 "}" 26 8 64)) [(DPacket (mkPacketDef (mkSpan (mkPtok 35 "packet" 1 0 0) (mkPtok 3 "}" 11 4 25)) None (mkPtok 35 "packet" 1 0 0) (mkPtok 42 "i64_" 1 7 1) (mkPtok 2 "{" 1 12 2) [(mkFieldWithAttr (mkSpan (mkPtok 14 "zchar[" 1 13 3) (mkPtok 40 "," 4 0 8)) [] (MetaField (mkSpan (mkPtok 14 "zchar[" 1 13 3) (mkPtok 40 "," 4 0 8)) None (mkMetaDecl (mkSpan (mkPtok 14 "zchar[" 1 13 3) (mkPtok 40 "," 4 0 8)) (TyFixed (mkSpan (mkPtok 14 "zchar[" 1 13 3) (mkPtok 13 "]" 3 0 6)) (mkFixedString (mkSpan (mkPtok 14 "zchar[" 1 13 3) (mkPtok 13 "]" 3 0 6)) (mkPtok 14 "zchar[" 1 13 3) (mkPtok 30 "7" 2 0 5) (mkPtok 13 "]" 3 0 6))) (mkPtok 42 "chars" 3 2 7) None (mkPtok 40 "," 4 0 8)))); (mkFieldWithAttr (mkSpan (mkPtok 32 "@rightPad" 4 3 9) (mkPtok 40 "," 7 0 13)) [(FAPadding (mkSpan (mkPtok 32 "@rightPad" 4 3 9) (mkPtok 6 ")" 6 4 11)) (mkPaddingAttr (mkSpan (mkPtok 32 "@rightPad" 4 3 9) (mkPtok 6 ")" 6 4 11)) (mkPtok 32 "@rightPad" 4 3 9) (mkPtok 8 "(" 5 4 10) None (mkPtok 6 ")" 6 4 11)))] (ObjectField (mkSpan (mkPtok 42 "pack" 6 5 12) (mkPtok 40 "," 7 0 13)) None (mkPtok 42 "pack" 6 5 12) None None (mkPtok 40 "," 7 0 13))); (mkFieldWithAttr (mkSpan (mkPtok 7 "@lengthOf(" 8 0 14) (mkPtok 40 "," 10 26 24)) [(FALengthOf (mkSpan (mkPtok 7 "@lengthOf(" 8 0 14) (mkPtok 6 ")" 9 6 17)) (mkLengthOf (mkSpan (mkPtok 7 "@lengthOf(" 8 0 14) (mkPtok 6 ")" 9 6 17)) (mkPtok 7 "@lengthOf(" 8 0 14) (mkPtok 42 "roots" 9 0 16) (mkPtok 6 ")" 9 6 17))); (FATag (mkSpan (mkPtok 9 "@tag(" 10 0 19) (mkPtok 6 ")" 10 11 21)) (mkTagAttr (mkSpan (mkPtok 9 "@tag(" 10 0 19) (mkPtok 6 ")" 10 11 21)) (mkPtok 9 "@tag(" 10 0 19) (mkPtok 30 "65535" 10 6 20) (mkPtok 6 ")" 10 11 21)))] (ObjectField (mkSpan (mkPtok 42 "Header" 10 13 22) (mkPtok 40 "," 10 26 24)) None (mkPtok 42 "Header" 10 13 22) (Some (mkPtok 42 "zchar" 10 20 23)) None (mkPtok 40 "," 10 26 24)))] (mkPtok 3 "}" 11 4 25))); (DPacket (mkPacketDef (mkSpan (mkPtok 35 "packet" 11 6 26) (mkPtok 3 "}" 18 16 46)) None (mkPtok 35 "packet" 11 6 26) (mkPtok 42 "matchKey" 11 13 27) (mkPtok 2 "{" 12 4 28) [(mkFieldWithAttr (mkSpan (mkPtok 5 "@calculatedFrom(" 12 6 29) (mkPtok 40 "," 18 14 45)) [(FACalculatedFrom (mkSpan (mkPtok 5 "@calculatedFrom(" 12 6 29) (mkPtok 6 ")" 12 28 31)) (mkCalculatedFrom (mkSpan (mkPtok 5 "@calculatedFrom(" 12 6 29) (mkPtok 6 ")" 12 28 31)) (mkPtok 5 "@calculatedFrom(" 12 6 29) (mkPtok 31 """\n""" 12 23 30) (mkPtok 6 ")" 12 28 31))); (FALengthOf (mkSpan (mkPtok 7 "@lengthOf(" 12 30 32) (mkPtok 6 ")" 12 46 34)) (mkLengthOf (mkSpan (mkPtok 7 "@lengthOf(" 12 30 32) (mkPtok 6 ")" 12 46 34)) (mkPtok 7 "@lengthOf(" 12 30 32) (mkPtok 42 "x_y_z" 12 41 33) (mkPtok 6 ")" 12 46 34))); (FALengthOf (mkSpan (mkPtok 7 "@lengthOf(" 13 0 35) (mkPtok 6 ")" 14 14 38)) (mkLengthOf (mkSpan (mkPtok 7 "@lengthOf(" 13 0 35) (mkPtok 6 ")" 14 14 38)) (mkPtok 7 "@lengthOf(" 13 0 35) (mkPtok 42 "calculatedFrom" 14 0 37) (mkPtok 6 ")" 14 14 38)))] (MetaField (mkSpan (mkPtok 14 "zchar[" 15 0 39) (mkPtok 40 "," 18 14 45)) None (mkMetaDecl (mkSpan (mkPtok 14 "zchar[" 15 0 39) (mkPtok 40 "," 18 14 45)) (TyFixed (mkSpan (mkPtok 14 "zchar[" 15 0 39) (mkPtok 13 "]" 18 2 43)) (mkFixedString (mkSpan (mkPtok 14 "zchar[" 15 0 39) (mkPtok 13 "]" 18 2 43)) (mkPtok 14 "zchar[" 15 0 39) (mkPtok 30 "0" 18 0 42) (mkPtok 13 "]" 18 2 43))) (mkPtok 42 "MetaDataX" 18 4 44) None (mkPtok 40 "," 18 14 45))))] (mkPtok 3 "}" 18 16 46))); (DOption (mkOptionDef (mkSpan (mkPtok 1 "options" 18 18 47) (mkPtok 3 "}" 24 0 59)) (mkPtok 1 "options" 18 18 47) (mkPtok 2 "{" 18 26 48) [(mkOptionDecl (mkSpan (mkPtok 42 "options1" 18 28 49) (mkPtok 41 ";" 20 0 53)) (mkPtok 42 "options1" 18 28 49) (mkPtok 4 "=" 18 37 50) (VPaddingChar (mkSpan (mkPtok 33 "' '" 19 0 52) (mkPtok 33 "' '" 19 0 52)) (mkPtok 33 "' '" 19 0 52)) (Some (mkPtok 41 ";" 20 0 53))); (mkOptionDecl (mkSpan (mkPtok 42 "Pad" 20 2 54) (mkPtok 19 "char" 21 0 56)) (mkPtok 42 "Pad" 20 2 54) (mkPtok 4 "=" 20 6 55) (VType (mkSpan (mkPtok 19 "char" 21 0 56) (mkPtok 19 "char" 21 0 56)) (TyBasic (mkSpan (mkPtok 19 "char" 21 0 56) (mkPtok 19 "char" 21 0 56)) (mkBasicType (mkSpan (mkPtok 19 "char" 21 0 56) (mkPtok 19 "char" 21 0 56)) (mkPtok 19 "char" 21 0 56)))) None)] (mkPtok 3 "}" 24 0 59))); (DPacket (mkPacketDef (mkSpan (mkPtok 35 "packet" 24 2 60) (mkPtok 3 "}" 26 8 64)) None (mkPtok 35 "packet" 24 2 60) (mkPtok 42 "A" 26 4 62) (mkPtok 2 "{" 26 6 63) [] (mkPtok 3 "}" 26 8 64)))])).
Eval vm_compute in ("<<<M1165>>>" ++ check (runes_of_ascii "packet
Pad{
match u as tag{
    [ 00 /// triple
, ""CRC32""] :u128  }	,
}
    root packet Pad {repeat Pad	,
char
a1@calculatedFrom( ""x y""
//
//
) //x
,repeat // @lengthOf(
zchar[ 65535 ]
    // a // b
    x_y_z`
`
,falsey , char[]options1,// packet A { u8 x, }
charz{ i8 roots@calculatedFrom(
""CRC32"")  `
`
,	string_ `crlf
line` ,
// c
// `tick` ""quote"" 'q'
i64 u128
    @lengthOf( crc ) ,
// @lengthOf(
// " ++ [27880; 37322]%N ++ runes_of_ascii "
},	repeatCount
    `say ""hi""` ,}
")).
Eval vm_compute in ("<<<M1197>>>" ++ check (runes_of_ascii "MetaData As {/// triple
zchar[ 7 // trailing space 
] As	``, }MetaData
float{ } packet calculatedFrom{
    a1
string_// c
, zchar[3 ]  f32a @calculatedFrom(
""abc"")`100% of %d`
,}")).
Eval vm_compute in ("<<<M1229>>>" ++ check (runes_of_ascii "MetaData
    Z9_ { u8x A , } MetaData As
{ string zchar ,
    trueish
Pad  ,
    uint16 o ,rootA
// trailing space 
// c
falsey
    ,
    tag rootA,  } packet As{
@lengthOf( string_)u8x
    roots
    `100% of %d`// `tick` ""quote"" 'q'
,
    }
")).
Eval vm_compute in ("<<<M1261>>>" ++ check (runes_of_ascii "packet leftPad {options1/// triple
{ zchar[
0123456789]roots `100% of %d`
    , }
, @calculatedFrom(
""a\\"" ) match // 50% %s
a1	as msg_type {
[ 10 , ""packet""
// @lengthOf(
// " ++ [128512]%N ++ runes_of_ascii " emoji
, ""x y""
, ""a	b"" ,  ""packet""
    ,
42 ,
""{,}""  , ""\n""
    // @lengthOf(
    ] :Logon
,4294967296 :
    options1	,3 : string_ , """ ++ [28040; 24687]%N ++ runes_of_ascii """:
i64_ , """ ++ [233]%N ++ runes_of_ascii "t" ++ [233]%N ++ runes_of_ascii """: stringy// packet A { u8 x, }
, 42
: x_y_z} ,
@lengthOf(As)char[] T , lengthOf {
    uint64// " ++ [128512]%N ++ runes_of_ascii " emoji
charz @lengthOf( falsey )`` ,match
Pad as A  {  [4294967296 , //
""a\""b""] : tag ""\" ++ [233]%N ++ runes_of_ascii """ : uint8x
    // trailing space 
    ""{,}"" : lengthOf , [ ""it's"" ,""a	b""
    ] : i64_
    , [  0
    ]
    :
u128
,
}, }
    ,
msg_type i64_, repeat
// @lengthOf(
// @lengthOf(
zchar[
    4294967296 ]
float , }
")).
Eval vm_compute in ("<<<M1293>>>" ++ check (runes_of_ascii "// `tick` ""quote"" 'q'
root packet x_y_z	{
repeat zchar[
1
] body	,
    @calculatedFrom( ""a	b"" ) A {repeat i16
Foo
`tab	here`, _x @calculatedFrom(""" ++ [28040; 24687]%N ++ runes_of_ascii """ )// `tick` ""quote"" 'q'
`it's` , } ,	match charz as charz
    {
10
    :
    leftPad , 10
: leftPad
0123456789
:
    float , },@calculatedFrom( """ ++ [233]%N ++ runes_of_ascii "t" ++ [233]%N ++ runes_of_ascii """
    ) zchar[007 ] charz`it's` // packet A { u8 x, }
, } options{} root /// triple
packet
falsey
{
// trailing space 
// trailing space 
repeat char[ 42 ] len,
}
")).
Eval vm_compute in ("<<<M1325>>>" ++ check (runes_of_ascii "  packet a1 {
    u8 Packet `it's`  , @leftPad	(
)
    msg_type
    , @lengthOf( crc)As repeatCount ,
// 50% %s
// c
@calculatedFrom( ""a\\""	)@calculatedFrom(
//x
//x
""" ++ [233]%N ++ runes_of_ascii "t" ++ [233]%N ++ runes_of_ascii """ // packet A { u8 x, }
)@tag(00	)	i16	As , @lengthOf(	int ) matchKey {
    len
{
zchar[
    //x
    255]crc
//x
//	t
, repeat char[]	charz	,
repeat
i8 x_y_z `{ , }` , rootA
@calculatedFrom(""" ++ [28040; 24687]%N ++ runes_of_ascii """) `
`,  } // " ++ [128512]%N ++ runes_of_ascii " emoji
, } ,}
    // a // b
    MetaData	metadata  { u16 x ,
i8i8 crc
    // packet A { u8 x, }
    , f32 Packet , float64 chars , }

")).
Eval vm_compute in ("<<<M1357>>>" ++ check (runes_of_ascii "options
{ A = f64
; Z9_='\x00'
// packet A { u8 x, }
//
Packet	=""{,}""; Header = ' ' ;
rootA= i32
    } packet Logon { }root packet x {
    @lengthOf( Packet
) @rightPad // c
( '\x00'
)@leftPad ( ' ' )// trailing space 
repeat zchar[ 7 ]Pad `a\`
,
f32a  charz,
    //	t
    zchar[  65535
    ] x @calculatedFrom( ""\n"") , // trailing space 
zchar@lengthOf(
x_y_z )
    //
    `` ,
}packet x_y_z
{
int64	len ``//	t
, @calculatedFrom( ""`tick`""	) string
lengthOf `crlf
line`// 50% %s
, @rightPad(
    ) match
msg_type as
BodyLength { [
""// no comment""// @lengthOf(
]: tag// " ++ [27880; 37322]%N ++ runes_of_ascii "
,
} ,
//	t
//
@tag( // " ++ [27880; 37322]%N ++ runes_of_ascii "
10 ) zchar[
42 ] Z9_ ,zchar[
65535 ]matchKey @calculatedFrom(
""\" ++ [233]%N ++ runes_of_ascii """ ) `a\` , @lengthOf(tag
//x
// " ++ [128512]%N ++ runes_of_ascii " emoji
)
    // " ++ [128512]%N ++ runes_of_ascii " emoji
    float `// not a comment`	,
@leftPad
    // packet A { u8 x, }
    ( ' ' ) @tag(00) @tag(
007
) repeat char[]
    asx
`line1
line2`
    // 50% %s
    , @lengthOf(
rootA ) repeat repeatCount As ,
    }
    packet zchar{ @lengthOf(
    As ) repeat
i16 calculatedFrom ,@tag(1  )  uint16 len ,	}
")).
Eval vm_compute in ("<<<T1357>>>" ++ terms [mkTok 1 "options" 1 0 false; mkTok 2 "{" 2 0 false; mkTok 42 "A" 2 2 false; mkTok 4 "=" 2 4 false; mkTok 29 "f64" 2 6 false; mkTok 41 ";" 3 0 false; mkTok 42 "Z9_" 3 2 false; mkTok 4 "=" 3 5 false; mkTok 33 "'\x00'" 3 6 false; mkTok 44 "// packet A { u8 x, }" 4 0 true; mkTok 44 "//" 5 0 true; mkTok 42 "Packet" 6 0 false; mkTok 4 "=" 6 7 false; mkTok 31 """{,}""" 6 8 false; mkTok 41 ";" 6 13 false; mkTok 42 "Header" 6 15 false; mkTok 4 "=" 6 22 false; mkTok 33 "' '" 6 24 false; mkTok 41 ";" 6 28 false; mkTok 42 "rootA" 7 0 false; mkTok 4 "=" 7 5 false; mkTok 26 "i32" 7 7 false; mkTok 3 "}" 8 4 false; mkTok 35 "packet" 8 6 false; mkTok 42 "Logon" 8 13 false; mkTok 2 "{" 8 19 false; mkTok 3 "}" 8 21 false; mkTok 34 "root" 8 22 false; mkTok 35 "packet" 8 27 false; mkTok 42 "x" 8 34 false; mkTok 2 "{" 8 36 false; mkTok 7 "@lengthOf(" 9 4 false; mkTok 42 "Packet" 9 15 false; mkTok 6 ")" 10 0 false; mkTok 32 "@rightPad" 10 2 false; mkTok 44 "// c" 10 12 true; mkTok 8 "(" 11 0 false; mkTok 33 "'\x00'" 11 2 false; mkTok 6 ")" 12 0 false; mkTok 32 "@leftPad" 12 1 false; mkTok 8 "(" 12 10 false; mkTok 33 "' '" 12 12 false; mkTok 6 ")" 12 16 false; mkTok 44 "// trailing space " 12 17 true; mkTok 36 "repeat" 13 0 false; mkTok 14 "zchar[" 13 7 false; mkTok 30 "7" 13 14 false; mkTok 13 "]" 13 16 false; mkTok 42 "Pad" 13 17 false; mkTok 43 "`a\`" 13 21 false; mkTok 40 "," 14 0 false; mkTok 42 "f32a" 15 0 false; mkTok 42 "charz" 15 6 false; mkTok 40 "," 15 11 false; mkTok 44 (string_of_bytes [47; 47; 9; 116]%N) 16 4 true; mkTok 14 "zchar[" 17 4 false; mkTok 30 "65535" 17 12 false; mkTok 13 "]" 18 4 false; mkTok 42 "x" 18 6 false; mkTok 5 "@calculatedFrom(" 18 8 false; mkTok 31 """\n""" 18 25 false; mkTok 6 ")" 18 29 false; mkTok 40 "," 18 31 false; mkTok 44 "// trailing space " 18 33 true; mkTok 42 "zchar" 19 0 false; mkTok 7 "@lengthOf(" 19 5 false; mkTok 42 "x_y_z" 20 0 false; mkTok 6 ")" 20 6 false; mkTok 44 "//" 21 4 true; mkTok 43 "``" 22 4 false; mkTok 40 "," 22 7 false; mkTok 3 "}" 23 0 false; mkTok 35 "packet" 23 1 false; mkTok 42 "x_y_z" 23 8 false; mkTok 2 "{" 24 0 false; mkTok 27 "int64" 25 0 false; mkTok 42 "len" 25 6 false; mkTok 43 "``" 25 10 false; mkTok 44 (string_of_bytes [47; 47; 9; 116]%N) 25 12 true; mkTok 40 "," 26 0 false; mkTok 5 "@calculatedFrom(" 26 2 false; mkTok 31 """`tick`""" 26 19 false; mkTok 6 ")" 26 28 false; mkTok 15 "string" 26 30 false; mkTok 42 "lengthOf" 27 0 false; mkTok 43 (string_of_bytes [96; 99; 114; 108; 102; 13; 10; 108; 105; 110; 101; 96]%N) 27 9 false; mkTok 44 "// 50% %s" 28 5 true; mkTok 40 "," 29 0 false; mkTok 32 "@rightPad" 29 2 false; mkTok 8 "(" 29 11 false; mkTok 6 ")" 30 4 false; mkTok 38 "match" 30 6 false; mkTok 42 "msg_type" 31 0 false; mkTok 17 "as" 31 9 false; mkTok 42 "BodyLength" 32 0 false; mkTok 2 "{" 32 11 false; mkTok 18 "[" 32 13 false; mkTok 31 """// no comment""" 33 0 false; mkTok 44 "// @lengthOf(" 33 15 true; mkTok 13 "]" 34 0 false; mkTok 39 ":" 34 1 false; mkTok 42 "tag" 34 3 false; mkTok 44 (string_of_bytes [47; 47; 32; 230; 179; 168; 233; 135; 138]%N) 34 6 true; mkTok 40 "," 35 0 false; mkTok 3 "}" 36 0 false; mkTok 40 "," 36 2 false; mkTok 44 (string_of_bytes [47; 47; 9; 116]%N) 37 0 true; mkTok 44 "//" 38 0 true; mkTok 9 "@tag(" 39 0 false; mkTok 44 (string_of_bytes [47; 47; 32; 230; 179; 168; 233; 135; 138]%N) 39 6 true; mkTok 30 "10" 40 0 false; mkTok 6 ")" 40 3 false; mkTok 14 "zchar[" 40 5 false; mkTok 30 "42" 41 0 false; mkTok 13 "]" 41 3 false; mkTok 42 "Z9_" 41 5 false; mkTok 40 "," 41 9 false; mkTok 14 "zchar[" 41 10 false; mkTok 30 "65535" 42 0 false; mkTok 13 "]" 42 6 false; mkTok 42 "matchKey" 42 7 false; mkTok 5 "@calculatedFrom(" 42 16 false; mkTok 31 (string_of_bytes [34; 92; 195; 169; 34]%N) 43 0 false; mkTok 6 ")" 43 5 false; mkTok 43 "`a\`" 43 7 false; mkTok 40 "," 43 12 false; mkTok 7 "@lengthOf(" 43 14 false; mkTok 42 "tag" 43 24 false; mkTok 44 "//x" 44 0 true; mkTok 44 (string_of_bytes [47; 47; 32; 240; 159; 152; 128; 32; 101; 109; 111; 106; 105]%N) 45 0 true; mkTok 6 ")" 46 0 false; mkTok 44 (string_of_bytes [47; 47; 32; 240; 159; 152; 128; 32; 101; 109; 111; 106; 105]%N) 47 4 true; mkTok 42 "float" 48 4 false; mkTok 43 "`// not a comment`" 48 10 false; mkTok 40 "," 48 29 false; mkTok 32 "@leftPad" 49 0 false; mkTok 44 "// packet A { u8 x, }" 50 4 true; mkTok 8 "(" 51 4 false; mkTok 33 "' '" 51 6 false; mkTok 6 ")" 51 10 false; mkTok 9 "@tag(" 51 12 false; mkTok 30 "00" 51 17 false; mkTok 6 ")" 51 19 false; mkTok 9 "@tag(" 51 21 false; mkTok 30 "007" 52 0 false; mkTok 6 ")" 53 0 false; mkTok 36 "repeat" 53 2 false; mkTok 16 "char[]" 53 9 false; mkTok 42 "asx" 54 4 false; mkTok 43 (string_of_bytes [96; 108; 105; 110; 101; 49; 10; 108; 105; 110; 101; 50; 96]%N) 55 0 false; mkTok 44 "// 50% %s" 57 4 true; mkTok 40 "," 58 4 false; mkTok 7 "@lengthOf(" 58 6 false; mkTok 42 "rootA" 59 0 false; mkTok 6 ")" 59 6 false; mkTok 36 "repeat" 59 8 false; mkTok 42 "repeatCount" 59 15 false; mkTok 42 "As" 59 27 false; mkTok 40 "," 59 30 false; mkTok 3 "}" 60 4 false; mkTok 35 "packet" 61 4 false; mkTok 42 "zchar" 61 11 false; mkTok 2 "{" 61 16 false; mkTok 7 "@lengthOf(" 61 18 false; mkTok 42 "As" 62 4 false; mkTok 6 ")" 62 7 false; mkTok 36 "repeat" 62 9 false; mkTok 25 "i16" 63 0 false; mkTok 42 "calculatedFrom" 63 4 false; mkTok 40 "," 63 19 false; mkTok 9 "@tag(" 63 20 false; mkTok 30 "1" 63 25 false; mkTok 6 ")" 63 28 false; mkTok 21 "uint16" 63 31 false; mkTok 42 "len" 63 38 false; mkTok 40 "," 63 42 false; mkTok 3 "}" 63 44 false; mkTok 0 "<EOF>" 64 0 false] (mkPacket (mkPtok 1 "options" 1 0 0) (Some (mkPtok 3 "}" 63 44 176)) [(DOption (mkOptionDef (mkSpan (mkPtok 1 "options" 1 0 0) (mkPtok 3 "}" 8 4 22)) (mkPtok 1 "options" 1 0 0) (mkPtok 2 "{" 2 0 1) [(mkOptionDecl (mkSpan (mkPtok 42 "A" 2 2 2) (mkPtok 41 ";" 3 0 5)) (mkPtok 42 "A" 2 2 2) (mkPtok 4 "=" 2 4 3) (VType (mkSpan (mkPtok 29 "f64" 2 6 4) (mkPtok 29 "f64" 2 6 4)) (TyBasic (mkSpan (mkPtok 29 "f64" 2 6 4) (mkPtok 29 "f64" 2 6 4)) (mkBasicType (mkSpan (mkPtok 29 "f64" 2 6 4) (mkPtok 29 "f64" 2 6 4)) (mkPtok 29 "f64" 2 6 4)))) (Some (mkPtok 41 ";" 3 0 5))); (mkOptionDecl (mkSpan (mkPtok 42 "Z9_" 3 2 6) (mkPtok 33 "'\x00'" 3 6 8)) (mkPtok 42 "Z9_" 3 2 6) (mkPtok 4 "=" 3 5 7) (VPaddingChar (mkSpan (mkPtok 33 "'\x00'" 3 6 8) (mkPtok 33 "'\x00'" 3 6 8)) (mkPtok 33 "'\x00'" 3 6 8)) None); (mkOptionDecl (mkSpan (mkPtok 42 "Packet" 6 0 11) (mkPtok 41 ";" 6 13 14)) (mkPtok 42 "Packet" 6 0 11) (mkPtok 4 "=" 6 7 12) (VString (mkSpan (mkPtok 31 """{,}""" 6 8 13) (mkPtok 31 """{,}""" 6 8 13)) (mkPtok 31 """{,}""" 6 8 13)) (Some (mkPtok 41 ";" 6 13 14))); (mkOptionDecl (mkSpan (mkPtok 42 "Header" 6 15 15) (mkPtok 41 ";" 6 28 18)) (mkPtok 42 "Header" 6 15 15) (mkPtok 4 "=" 6 22 16) (VPaddingChar (mkSpan (mkPtok 33 "' '" 6 24 17) (mkPtok 33 "' '" 6 24 17)) (mkPtok 33 "' '" 6 24 17)) (Some (mkPtok 41 ";" 6 28 18))); (mkOptionDecl (mkSpan (mkPtok 42 "rootA" 7 0 19) (mkPtok 26 "i32" 7 7 21)) (mkPtok 42 "rootA" 7 0 19) (mkPtok 4 "=" 7 5 20) (VType (mkSpan (mkPtok 26 "i32" 7 7 21) (mkPtok 26 "i32" 7 7 21)) (TyBasic (mkSpan (mkPtok 26 "i32" 7 7 21) (mkPtok 26 "i32" 7 7 21)) (mkBasicType (mkSpan (mkPtok 26 "i32" 7 7 21) (mkPtok 26 "i32" 7 7 21)) (mkPtok 26 "i32" 7 7 21)))) None)] (mkPtok 3 "}" 8 4 22))); (DPacket (mkPacketDef (mkSpan (mkPtok 35 "packet" 8 6 23) (mkPtok 3 "}" 8 21 26)) None (mkPtok 35 "packet" 8 6 23) (mkPtok 42 "Logon" 8 13 24) (mkPtok 2 "{" 8 19 25) [] (mkPtok 3 "}" 8 21 26))); (DPacket (mkPacketDef (mkSpan (mkPtok 34 "root" 8 22 27) (mkPtok 3 "}" 23 0 71)) (Some (mkPtok 34 "root" 8 22 27)) (mkPtok 35 "packet" 8 27 28) (mkPtok 42 "x" 8 34 29) (mkPtok 2 "{" 8 36 30) [(mkFieldWithAttr (mkSpan (mkPtok 7 "@lengthOf(" 9 4 31) (mkPtok 40 "," 14 0 50)) [(FALengthOf (mkSpan (mkPtok 7 "@lengthOf(" 9 4 31) (mkPtok 6 ")" 10 0 33)) (mkLengthOf (mkSpan (mkPtok 7 "@lengthOf(" 9 4 31) (mkPtok 6 ")" 10 0 33)) (mkPtok 7 "@lengthOf(" 9 4 31) (mkPtok 42 "Packet" 9 15 32) (mkPtok 6 ")" 10 0 33))); (FAPadding (mkSpan (mkPtok 32 "@rightPad" 10 2 34) (mkPtok 6 ")" 12 0 38)) (mkPaddingAttr (mkSpan (mkPtok 32 "@rightPad" 10 2 34) (mkPtok 6 ")" 12 0 38)) (mkPtok 32 "@rightPad" 10 2 34) (mkPtok 8 "(" 11 0 36) (Some (mkPtok 33 "'\x00'" 11 2 37)) (mkPtok 6 ")" 12 0 38))); (FAPadding (mkSpan (mkPtok 32 "@leftPad" 12 1 39) (mkPtok 6 ")" 12 16 42)) (mkPaddingAttr (mkSpan (mkPtok 32 "@leftPad" 12 1 39) (mkPtok 6 ")" 12 16 42)) (mkPtok 32 "@leftPad" 12 1 39) (mkPtok 8 "(" 12 10 40) (Some (mkPtok 33 "' '" 12 12 41)) (mkPtok 6 ")" 12 16 42)))] (MetaField (mkSpan (mkPtok 36 "repeat" 13 0 44) (mkPtok 40 "," 14 0 50)) (Some (mkPtok 36 "repeat" 13 0 44)) (mkMetaDecl (mkSpan (mkPtok 14 "zchar[" 13 7 45) (mkPtok 40 "," 14 0 50)) (TyFixed (mkSpan (mkPtok 14 "zchar[" 13 7 45) (mkPtok 13 "]" 13 16 47)) (mkFixedString (mkSpan (mkPtok 14 "zchar[" 13 7 45) (mkPtok 13 "]" 13 16 47)) (mkPtok 14 "zchar[" 13 7 45) (mkPtok 30 "7" 13 14 46) (mkPtok 13 "]" 13 16 47))) (mkPtok 42 "Pad" 13 17 48) (Some (mkPtok 43 "`a\`" 13 21 49)) (mkPtok 40 "," 14 0 50)))); (mkFieldWithAttr (mkSpan (mkPtok 42 "f32a" 15 0 51) (mkPtok 40 "," 15 11 53)) [] (ObjectField (mkSpan (mkPtok 42 "f32a" 15 0 51) (mkPtok 40 "," 15 11 53)) None (mkPtok 42 "f32a" 15 0 51) (Some (mkPtok 42 "charz" 15 6 52)) None (mkPtok 40 "," 15 11 53))); (mkFieldWithAttr (mkSpan (mkPtok 14 "zchar[" 17 4 55) (mkPtok 40 "," 18 31 62)) [] (CheckSumField (mkSpan (mkPtok 14 "zchar[" 17 4 55) (mkPtok 40 "," 18 31 62)) (mkChecksumFieldDecl (mkSpan (mkPtok 14 "zchar[" 17 4 55) (mkPtok 40 "," 18 31 62)) (Some (TyFixed (mkSpan (mkPtok 14 "zchar[" 17 4 55) (mkPtok 13 "]" 18 4 57)) (mkFixedString (mkSpan (mkPtok 14 "zchar[" 17 4 55) (mkPtok 13 "]" 18 4 57)) (mkPtok 14 "zchar[" 17 4 55) (mkPtok 30 "65535" 17 12 56) (mkPtok 13 "]" 18 4 57)))) (mkPtok 42 "x" 18 6 58) (mkCalculatedFrom (mkSpan (mkPtok 5 "@calculatedFrom(" 18 8 59) (mkPtok 6 ")" 18 29 61)) (mkPtok 5 "@calculatedFrom(" 18 8 59) (mkPtok 31 """\n""" 18 25 60) (mkPtok 6 ")" 18 29 61)) None (mkPtok 40 "," 18 31 62)))); (mkFieldWithAttr (mkSpan (mkPtok 42 "zchar" 19 0 64) (mkPtok 40 "," 22 7 70)) [] (LengthField (mkSpan (mkPtok 42 "zchar" 19 0 64) (mkPtok 40 "," 22 7 70)) (mkLengthFieldDecl (mkSpan (mkPtok 42 "zchar" 19 0 64) (mkPtok 40 "," 22 7 70)) None (mkPtok 42 "zchar" 19 0 64) (mkLengthOf (mkSpan (mkPtok 7 "@lengthOf(" 19 5 65) (mkPtok 6 ")" 20 6 67)) (mkPtok 7 "@lengthOf(" 19 5 65) (mkPtok 42 "x_y_z" 20 0 66) (mkPtok 6 ")" 20 6 67)) (Some (mkPtok 43 "``" 22 4 69)) (mkPtok 40 "," 22 7 70))))] (mkPtok 3 "}" 23 0 71))); (DPacket (mkPacketDef (mkSpan (mkPtok 35 "packet" 23 1 72) (mkPtok 3 "}" 60 4 159)) None (mkPtok 35 "packet" 23 1 72) (mkPtok 42 "x_y_z" 23 8 73) (mkPtok 2 "{" 24 0 74) [(mkFieldWithAttr (mkSpan (mkPtok 27 "int64" 25 0 75) (mkPtok 40 "," 26 0 79)) [] (MetaField (mkSpan (mkPtok 27 "int64" 25 0 75) (mkPtok 40 "," 26 0 79)) None (mkMetaDecl (mkSpan (mkPtok 27 "int64" 25 0 75) (mkPtok 40 "," 26 0 79)) (TyBasic (mkSpan (mkPtok 27 "int64" 25 0 75) (mkPtok 27 "int64" 25 0 75)) (mkBasicType (mkSpan (mkPtok 27 "int64" 25 0 75) (mkPtok 27 "int64" 25 0 75)) (mkPtok 27 "int64" 25 0 75))) (mkPtok 42 "len" 25 6 76) (Some (mkPtok 43 "``" 25 10 77)) (mkPtok 40 "," 26 0 79)))); (mkFieldWithAttr (mkSpan (mkPtok 5 "@calculatedFrom(" 26 2 80) (mkPtok 40 "," 29 0 87)) [(FACalculatedFrom (mkSpan (mkPtok 5 "@calculatedFrom(" 26 2 80) (mkPtok 6 ")" 26 28 82)) (mkCalculatedFrom (mkSpan (mkPtok 5 "@calculatedFrom(" 26 2 80) (mkPtok 6 ")" 26 28 82)) (mkPtok 5 "@calculatedFrom(" 26 2 80) (mkPtok 31 """`tick`""" 26 19 81) (mkPtok 6 ")" 26 28 82)))] (MetaField (mkSpan (mkPtok 15 "string" 26 30 83) (mkPtok 40 "," 29 0 87)) None (mkMetaDecl (mkSpan (mkPtok 15 "string" 26 30 83) (mkPtok 40 "," 29 0 87)) (TyDynamic (mkSpan (mkPtok 15 "string" 26 30 83) (mkPtok 15 "string" 26 30 83)) (mkDynamicString (mkSpan (mkPtok 15 "string" 26 30 83) (mkPtok 15 "string" 26 30 83)) (mkPtok 15 "string" 26 30 83))) (mkPtok 42 "lengthOf" 27 0 84) (Some (mkPtok 43 (string_of_bytes [96; 99; 114; 108; 102; 13; 10; 108; 105; 110; 101; 96]%N) 27 9 85)) (mkPtok 40 "," 29 0 87)))); (mkFieldWithAttr (mkSpan (mkPtok 32 "@rightPad" 29 2 88) (mkPtok 40 "," 36 2 105)) [(FAPadding (mkSpan (mkPtok 32 "@rightPad" 29 2 88) (mkPtok 6 ")" 30 4 90)) (mkPaddingAttr (mkSpan (mkPtok 32 "@rightPad" 29 2 88) (mkPtok 6 ")" 30 4 90)) (mkPtok 32 "@rightPad" 29 2 88) (mkPtok 8 "(" 29 11 89) None (mkPtok 6 ")" 30 4 90)))] (MatchField (mkSpan (mkPtok 38 "match" 30 6 91) (mkPtok 40 "," 36 2 105)) (mkMatchFieldDecl (mkSpan (mkPtok 38 "match" 30 6 91) (mkPtok 3 "}" 36 0 104)) (mkPtok 38 "match" 30 6 91) (mkPtok 42 "msg_type" 31 0 92) (mkPtok 17 "as" 31 9 93) (mkPtok 42 "BodyLength" 32 0 94) (mkPtok 2 "{" 32 11 95) [(mkMatchPair (mkSpan (mkPtok 18 "[" 32 13 96) (mkPtok 40 "," 35 0 103)) (MKList (mkKeyList (mkSpan (mkPtok 18 "[" 32 13 96) (mkPtok 13 "]" 34 0 99)) (mkPtok 18 "[" 32 13 96) (mkPtok 31 """// no comment""" 33 0 97) [] (mkPtok 13 "]" 34 0 99))) (mkPtok 39 ":" 34 1 100) (mkPtok 42 "tag" 34 3 101) (Some (mkPtok 40 "," 35 0 103)))] (mkPtok 3 "}" 36 0 104)) (mkPtok 40 "," 36 2 105))); (mkFieldWithAttr (mkSpan (mkPtok 9 "@tag(" 39 0 108) (mkPtok 40 "," 41 9 116)) [(FATag (mkSpan (mkPtok 9 "@tag(" 39 0 108) (mkPtok 6 ")" 40 3 111)) (mkTagAttr (mkSpan (mkPtok 9 "@tag(" 39 0 108) (mkPtok 6 ")" 40 3 111)) (mkPtok 9 "@tag(" 39 0 108) (mkPtok 30 "10" 40 0 110) (mkPtok 6 ")" 40 3 111)))] (MetaField (mkSpan (mkPtok 14 "zchar[" 40 5 112) (mkPtok 40 "," 41 9 116)) None (mkMetaDecl (mkSpan (mkPtok 14 "zchar[" 40 5 112) (mkPtok 40 "," 41 9 116)) (TyFixed (mkSpan (mkPtok 14 "zchar[" 40 5 112) (mkPtok 13 "]" 41 3 114)) (mkFixedString (mkSpan (mkPtok 14 "zchar[" 40 5 112) (mkPtok 13 "]" 41 3 114)) (mkPtok 14 "zchar[" 40 5 112) (mkPtok 30 "42" 41 0 113) (mkPtok 13 "]" 41 3 114))) (mkPtok 42 "Z9_" 41 5 115) None (mkPtok 40 "," 41 9 116)))); (mkFieldWithAttr (mkSpan (mkPtok 14 "zchar[" 41 10 117) (mkPtok 40 "," 43 12 125)) [] (CheckSumField (mkSpan (mkPtok 14 "zchar[" 41 10 117) (mkPtok 40 "," 43 12 125)) (mkChecksumFieldDecl (mkSpan (mkPtok 14 "zchar[" 41 10 117) (mkPtok 40 "," 43 12 125)) (Some (TyFixed (mkSpan (mkPtok 14 "zchar[" 41 10 117) (mkPtok 13 "]" 42 6 119)) (mkFixedString (mkSpan (mkPtok 14 "zchar[" 41 10 117) (mkPtok 13 "]" 42 6 119)) (mkPtok 14 "zchar[" 41 10 117) (mkPtok 30 "65535" 42 0 118) (mkPtok 13 "]" 42 6 119)))) (mkPtok 42 "matchKey" 42 7 120) (mkCalculatedFrom (mkSpan (mkPtok 5 "@calculatedFrom(" 42 16 121) (mkPtok 6 ")" 43 5 123)) (mkPtok 5 "@calculatedFrom(" 42 16 121) (mkPtok 31 (string_of_bytes [34; 92; 195; 169; 34]%N) 43 0 122) (mkPtok 6 ")" 43 5 123)) (Some (mkPtok 43 "`a\`" 43 7 124)) (mkPtok 40 "," 43 12 125)))); (mkFieldWithAttr (mkSpan (mkPtok 7 "@lengthOf(" 43 14 126) (mkPtok 40 "," 48 29 134)) [(FALengthOf (mkSpan (mkPtok 7 "@lengthOf(" 43 14 126) (mkPtok 6 ")" 46 0 130)) (mkLengthOf (mkSpan (mkPtok 7 "@lengthOf(" 43 14 126) (mkPtok 6 ")" 46 0 130)) (mkPtok 7 "@lengthOf(" 43 14 126) (mkPtok 42 "tag" 43 24 127) (mkPtok 6 ")" 46 0 130)))] (ObjectField (mkSpan (mkPtok 42 "float" 48 4 132) (mkPtok 40 "," 48 29 134)) None (mkPtok 42 "float" 48 4 132) None (Some (mkPtok 43 "`// not a comment`" 48 10 133)) (mkPtok 40 "," 48 29 134))); (mkFieldWithAttr (mkSpan (mkPtok 32 "@leftPad" 49 0 135) (mkPtok 40 "," 58 4 151)) [(FAPadding (mkSpan (mkPtok 32 "@leftPad" 49 0 135) (mkPtok 6 ")" 51 10 139)) (mkPaddingAttr (mkSpan (mkPtok 32 "@leftPad" 49 0 135) (mkPtok 6 ")" 51 10 139)) (mkPtok 32 "@leftPad" 49 0 135) (mkPtok 8 "(" 51 4 137) (Some (mkPtok 33 "' '" 51 6 138)) (mkPtok 6 ")" 51 10 139))); (FATag (mkSpan (mkPtok 9 "@tag(" 51 12 140) (mkPtok 6 ")" 51 19 142)) (mkTagAttr (mkSpan (mkPtok 9 "@tag(" 51 12 140) (mkPtok 6 ")" 51 19 142)) (mkPtok 9 "@tag(" 51 12 140) (mkPtok 30 "00" 51 17 141) (mkPtok 6 ")" 51 19 142))); (FATag (mkSpan (mkPtok 9 "@tag(" 51 21 143) (mkPtok 6 ")" 53 0 145)) (mkTagAttr (mkSpan (mkPtok 9 "@tag(" 51 21 143) (mkPtok 6 ")" 53 0 145)) (mkPtok 9 "@tag(" 51 21 143) (mkPtok 30 "007" 52 0 144) (mkPtok 6 ")" 53 0 145)))] (MetaField (mkSpan (mkPtok 36 "repeat" 53 2 146) (mkPtok 40 "," 58 4 151)) (Some (mkPtok 36 "repeat" 53 2 146)) (mkMetaDecl (mkSpan (mkPtok 16 "char[]" 53 9 147) (mkPtok 40 "," 58 4 151)) (TyDynamic (mkSpan (mkPtok 16 "char[]" 53 9 147) (mkPtok 16 "char[]" 53 9 147)) (mkDynamicString (mkSpan (mkPtok 16 "char[]" 53 9 147) (mkPtok 16 "char[]" 53 9 147)) (mkPtok 16 "char[]" 53 9 147))) (mkPtok 42 "asx" 54 4 148) (Some (mkPtok 43 (string_of_bytes [96; 108; 105; 110; 101; 49; 10; 108; 105; 110; 101; 50; 96]%N) 55 0 149)) (mkPtok 40 "," 58 4 151)))); (mkFieldWithAttr (mkSpan (mkPtok 7 "@lengthOf(" 58 6 152) (mkPtok 40 "," 59 30 158)) [(FALengthOf (mkSpan (mkPtok 7 "@lengthOf(" 58 6 152) (mkPtok 6 ")" 59 6 154)) (mkLengthOf (mkSpan (mkPtok 7 "@lengthOf(" 58 6 152) (mkPtok 6 ")" 59 6 154)) (mkPtok 7 "@lengthOf(" 58 6 152) (mkPtok 42 "rootA" 59 0 153) (mkPtok 6 ")" 59 6 154)))] (ObjectField (mkSpan (mkPtok 36 "repeat" 59 8 155) (mkPtok 40 "," 59 30 158)) (Some (mkPtok 36 "repeat" 59 8 155)) (mkPtok 42 "repeatCount" 59 15 156) (Some (mkPtok 42 "As" 59 27 157)) None (mkPtok 40 "," 59 30 158)))] (mkPtok 3 "}" 60 4 159))); (DPacket (mkPacketDef (mkSpan (mkPtok 35 "packet" 61 4 160) (mkPtok 3 "}" 63 44 176)) None (mkPtok 35 "packet" 61 4 160) (mkPtok 42 "zchar" 61 11 161) (mkPtok 2 "{" 61 16 162) [(mkFieldWithAttr (mkSpan (mkPtok 7 "@lengthOf(" 61 18 163) (mkPtok 40 "," 63 19 169)) [(FALengthOf (mkSpan (mkPtok 7 "@lengthOf(" 61 18 163) (mkPtok 6 ")" 62 7 165)) (mkLengthOf (mkSpan (mkPtok 7 "@lengthOf(" 61 18 163) (mkPtok 6 ")" 62 7 165)) (mkPtok 7 "@lengthOf(" 61 18 163) (mkPtok 42 "As" 62 4 164) (mkPtok 6 ")" 62 7 165)))] (MetaField (mkSpan (mkPtok 36 "repeat" 62 9 166) (mkPtok 40 "," 63 19 169)) (Some (mkPtok 36 "repeat" 62 9 166)) (mkMetaDecl (mkSpan (mkPtok 25 "i16" 63 0 167) (mkPtok 40 "," 63 19 169)) (TyBasic (mkSpan (mkPtok 25 "i16" 63 0 167) (mkPtok 25 "i16" 63 0 167)) (mkBasicType (mkSpan (mkPtok 25 "i16" 63 0 167) (mkPtok 25 "i16" 63 0 167)) (mkPtok 25 "i16" 63 0 167))) (mkPtok 42 "calculatedFrom" 63 4 168) None (mkPtok 40 "," 63 19 169)))); (mkFieldWithAttr (mkSpan (mkPtok 9 "@tag(" 63 20 170) (mkPtok 40 "," 63 42 175)) [(FATag (mkSpan (mkPtok 9 "@tag(" 63 20 170) (mkPtok 6 ")" 63 28 172)) (mkTagAttr (mkSpan (mkPtok 9 "@tag(" 63 20 170) (mkPtok 6 ")" 63 28 172)) (mkPtok 9 "@tag(" 63 20 170) (mkPtok 30 "1" 63 25 171) (mkPtok 6 ")" 63 28 172)))] (MetaField (mkSpan (mkPtok 21 "uint16" 63 31 173) (mkPtok 40 "," 63 42 175)) None (mkMetaDecl (mkSpan (mkPtok 21 "uint16" 63 31 173) (mkPtok 40 "," 63 42 175)) (TyBasic (mkSpan (mkPtok 21 "uint16" 63 31 173) (mkPtok 21 "uint16" 63 31 173)) (mkBasicType (mkSpan (mkPtok 21 "uint16" 63 31 173) (mkPtok 21 "uint16" 63 31 173)) (mkPtok 21 "uint16" 63 31 173))) (mkPtok 42 "len" 63 38 174) None (mkPtok 40 "," 63 42 175))))] (mkPtok 3 "}" 63 44 176)))])).
Eval vm_compute in ("<<<M1389>>>" ++ check (runes_of_ascii "root
    //x
    packet matchKey {
    @tag(	00
    )
    // a // b
    int
    @calculatedFrom(""" ++ [128512]%N ++ runes_of_ascii """ ),  rootA // @lengthOf(
A , @lengthOf( MetaDataX	) match chars // trailing space 
as // packet A { u8 x, }
Pad /// triple
{
// @lengthOf(
// @lengthOf(
0 :msg_type , """": u}, } root
    //x
    packet u8x  {
int64 calculatedFrom
// @lengthOf(
/// triple
@lengthOf( Packet
) ,	@calculatedFrom( ""\n""// c
)	a1
// `tick` ""quote"" 'q'
//x
lengthOf, } options { roots
// trailing space 
//
=""CRC32"" //	t
;  Packet=char[ 0123456789 ]; float = u32
    ; Packet = '0' // " ++ [128512]%N ++ runes_of_ascii " emoji
; metadata = true;
    }
")).
Eval vm_compute in ("<<<M1421>>>" ++ check (runes_of_ascii "
")).
Eval vm_compute in ("<<<M1453>>>" ++ check (runes_of_ascii "
packet Packet { @calculatedFrom( ""\" ++ [233]%N ++ runes_of_ascii """) @tag( 42
)@calculatedFrom(	""\n"" ) a1`{ , }` ,
    }
")).
Eval vm_compute in ("<<<M1485>>>" ++ check (runes_of_ascii "packet Header{
    // c
    char[
//x
// trailing space 
4294967296]
trueish @lengthOf( x_y_z )
    `a\`
    ,@tag( 1 ) i32// a // b
uint8x
`tab	here` ,
    @tag(3 )
repeat u8 A
    `it's`,
    char[]f32a, }")).
Eval vm_compute in ("<<<M1517>>>" ++ check (runes_of_ascii "MetaData tag
{  }packet metadata{ asx
@calculatedFrom( ""{,}"" ) `" ++ [28040; 24687; 31867; 22411]%N ++ runes_of_ascii "`,
@calculatedFrom( ""{,}"")@calculatedFrom( // " ++ [27880; 37322]%N ++ runes_of_ascii "
""\n""
)// a // b
@calculatedFrom(
    """ ++ [128512]%N ++ runes_of_ascii """ )
repeatCount	, char[ 3 ]Z9_ `100% of %d` ,
} options {	int = ""x y""
; T= ""// no comment"" ; }")).
Eval vm_compute in ("<<<M1549>>>" ++ check (runes_of_ascii "
options { }
MetaData packetx { char[]	chars //x
`" ++ [28040; 24687; 31867; 22411]%N ++ runes_of_ascii "`
, u64 asx
    `doc`
    ,
    } // packet A { u8 x, }
packet Z9_{ @calculatedFrom( ""abc"" ) match//x
roots
as Header	{ [ // c
""\n"" , 7 ,""// no comment"" ]
:
msg_type ,} ,i32 a1,
@calculatedFrom( ""packet"" )
match a1 as a1
    { 0123456789 : msg_type [ 7 , ""{,}""// @lengthOf(
,
    ""a\\"" ] : MetaDataX	7
    : _x
""{,}"" :
u8x , } ,char[ 42 ]
i64_  ,
@calculatedFrom( """ ++ [233]%N ++ runes_of_ascii "t" ++ [233]%N ++ runes_of_ascii """
) char[ 0]	_x , // packet A { u8 x, }
repeat  trueish `a\` ,	}
    MetaData  metadata // a // b
{ metadata //	t
i8i8 `a\`
    , } // trailing space 
packet BodyLength
{ @calculatedFrom( ""1""
    )
    u8x { match calculatedFrom
    as stringy { // " ++ [27880; 37322]%N ++ runes_of_ascii "
[ 0, ""\n"" ,
    1
    ,
    ""CRC32"" , 7
    , 255 , """ ++ [233]%N ++ runes_of_ascii "t" ++ [233]%N ++ runes_of_ascii """] : metadata
, 4294967296 :
Logon ,
    }
    , } , char
u128	`crlf
line` , @lengthOf( string_) int @lengthOf(
    /// triple
    x)	,// " ++ [128512]%N ++ runes_of_ascii " emoji
match Z9_	as
_x { 3
// trailing space 
//	t
: _x	,} , @tag( 007 ) string_ , @lengthOf(f32a// trailing space 
) match crc  as
// trailing space 
// c
i64_ { 1 :repeatCount
// `tick` ""quote"" 'q'
// c
65535
: Foo
    , 4294967296
: Foo ,""it's"" :
    x ,  [
    007 , 00]	: calculatedFrom 1
:  options1 ,
} ,}
")).
Eval vm_compute in ("<<<M1581>>>" ++ check (runes_of_ascii "packet options1
    {	@leftPad ( '0' )char[] // 50% %s
lengthOf `crlf
line`,repeat metadata options1
    ,
} root packet Pad {@rightPad
    (
'\x00'// 50% %s
) u8 len
    ,
    }	MetaData calculatedFrom { }
")).
Eval vm_compute in ("<<<T1581>>>" ++ terms [mkTok 35 "packet" 1 0 false; mkTok 42 "options1" 1 7 false; mkTok 2 "{" 2 4 false; mkTok 32 "@leftPad" 2 6 false; mkTok 8 "(" 2 15 false; mkTok 33 "'0'" 2 17 false; mkTok 6 ")" 2 21 false; mkTok 16 "char[]" 2 22 false; mkTok 44 "// 50% %s" 2 29 true; mkTok 42 "lengthOf" 3 0 false; mkTok 43 (string_of_bytes [96; 99; 114; 108; 102; 13; 10; 108; 105; 110; 101; 96]%N) 3 9 false; mkTok 40 "," 4 5 false; mkTok 36 "repeat" 4 6 false; mkTok 42 "metadata" 4 13 false; mkTok 42 "options1" 4 22 false; mkTok 40 "," 5 4 false; mkTok 3 "}" 6 0 false; mkTok 34 "root" 6 2 false; mkTok 35 "packet" 6 7 false; mkTok 42 "Pad" 6 14 false; mkTok 2 "{" 6 18 false; mkTok 32 "@rightPad" 6 19 false; mkTok 8 "(" 7 4 false; mkTok 33 "'\x00'" 8 0 false; mkTok 44 "// 50% %s" 8 6 true; mkTok 6 ")" 9 0 false; mkTok 20 "u8" 9 2 false; mkTok 42 "len" 9 5 false; mkTok 40 "," 10 4 false; mkTok 3 "}" 11 4 false; mkTok 37 "MetaData" 11 6 false; mkTok 42 "calculatedFrom" 11 15 false; mkTok 2 "{" 11 30 false; mkTok 3 "}" 11 32 false; mkTok 0 "<EOF>" 12 0 false] (mkPacket (mkPtok 35 "packet" 1 0 0) (Some (mkPtok 3 "}" 11 32 33)) [(DPacket (mkPacketDef (mkSpan (mkPtok 35 "packet" 1 0 0) (mkPtok 3 "}" 6 0 16)) None (mkPtok 35 "packet" 1 0 0) (mkPtok 42 "options1" 1 7 1) (mkPtok 2 "{" 2 4 2) [(mkFieldWithAttr (mkSpan (mkPtok 32 "@leftPad" 2 6 3) (mkPtok 40 "," 4 5 11)) [(FAPadding (mkSpan (mkPtok 32 "@leftPad" 2 6 3) (mkPtok 6 ")" 2 21 6)) (mkPaddingAttr (mkSpan (mkPtok 32 "@leftPad" 2 6 3) (mkPtok 6 ")" 2 21 6)) (mkPtok 32 "@leftPad" 2 6 3) (mkPtok 8 "(" 2 15 4) (Some (mkPtok 33 "'0'" 2 17 5)) (mkPtok 6 ")" 2 21 6)))] (MetaField (mkSpan (mkPtok 16 "char[]" 2 22 7) (mkPtok 40 "," 4 5 11)) None (mkMetaDecl (mkSpan (mkPtok 16 "char[]" 2 22 7) (mkPtok 40 "," 4 5 11)) (TyDynamic (mkSpan (mkPtok 16 "char[]" 2 22 7) (mkPtok 16 "char[]" 2 22 7)) (mkDynamicString (mkSpan (mkPtok 16 "char[]" 2 22 7) (mkPtok 16 "char[]" 2 22 7)) (mkPtok 16 "char[]" 2 22 7))) (mkPtok 42 "lengthOf" 3 0 9) (Some (mkPtok 43 (string_of_bytes [96; 99; 114; 108; 102; 13; 10; 108; 105; 110; 101; 96]%N) 3 9 10)) (mkPtok 40 "," 4 5 11)))); (mkFieldWithAttr (mkSpan (mkPtok 36 "repeat" 4 6 12) (mkPtok 40 "," 5 4 15)) [] (ObjectField (mkSpan (mkPtok 36 "repeat" 4 6 12) (mkPtok 40 "," 5 4 15)) (Some (mkPtok 36 "repeat" 4 6 12)) (mkPtok 42 "metadata" 4 13 13) (Some (mkPtok 42 "options1" 4 22 14)) None (mkPtok 40 "," 5 4 15)))] (mkPtok 3 "}" 6 0 16))); (DPacket (mkPacketDef (mkSpan (mkPtok 34 "root" 6 2 17) (mkPtok 3 "}" 11 4 29)) (Some (mkPtok 34 "root" 6 2 17)) (mkPtok 35 "packet" 6 7 18) (mkPtok 42 "Pad" 6 14 19) (mkPtok 2 "{" 6 18 20) [(mkFieldWithAttr (mkSpan (mkPtok 32 "@rightPad" 6 19 21) (mkPtok 40 "," 10 4 28)) [(FAPadding (mkSpan (mkPtok 32 "@rightPad" 6 19 21) (mkPtok 6 ")" 9 0 25)) (mkPaddingAttr (mkSpan (mkPtok 32 "@rightPad" 6 19 21) (mkPtok 6 ")" 9 0 25)) (mkPtok 32 "@rightPad" 6 19 21) (mkPtok 8 "(" 7 4 22) (Some (mkPtok 33 "'\x00'" 8 0 23)) (mkPtok 6 ")" 9 0 25)))] (MetaField (mkSpan (mkPtok 20 "u8" 9 2 26) (mkPtok 40 "," 10 4 28)) None (mkMetaDecl (mkSpan (mkPtok 20 "u8" 9 2 26) (mkPtok 40 "," 10 4 28)) (TyBasic (mkSpan (mkPtok 20 "u8" 9 2 26) (mkPtok 20 "u8" 9 2 26)) (mkBasicType (mkSpan (mkPtok 20 "u8" 9 2 26) (mkPtok 20 "u8" 9 2 26)) (mkPtok 20 "u8" 9 2 26))) (mkPtok 42 "len" 9 5 27) None (mkPtok 40 "," 10 4 28))))] (mkPtok 3 "}" 11 4 29))); (DMeta (mkMetaDef (mkSpan (mkPtok 37 "MetaData" 11 6 30) (mkPtok 3 "}" 11 32 33)) (mkPtok 37 "MetaData" 11 6 30) (mkPtok 42 "calculatedFrom" 11 15 31) (mkPtok 2 "{" 11 30 32) [] (mkPtok 3 "}" 11 32 33)))])).
Eval vm_compute in ("<<<M1613>>>" ++ check (runes_of_ascii "MetaData
    u {
}
packet Header {
    i64_
`// not a comment`
, } options{ leftPad=""" ++ [28040; 24687]%N ++ runes_of_ascii """ ;
falsey
    = ""1"" ;matchKey
    =
int32 string_ = 42 } MetaData	calculatedFrom	{ } MetaData body
{
string uint8x	`" ++ [28040; 24687; 31867; 22411]%N ++ runes_of_ascii "`
,
int32 charz ,	char[] zchar
    ,}
")).
Eval vm_compute in ("<<<M1645>>>" ++ check (runes_of_ascii "//
")).
Eval vm_compute in ("<<<M1677>>>" ++ check (runes_of_ascii "root packet
trueish {
@tag(7
    //
    )@tag( 0123456789 // 50% %s
) @tag( 007
)  repeat
u8x options1
,
    @rightPad ( '0' )
metadata
    /// triple
    @calculatedFrom(
    // " ++ [27880; 37322]%N ++ runes_of_ascii "
    ""1"" )//
,
    //x
    string u , match u as charz{ 4294967296 :	f32a 42 :leftPad ,255/// triple
:
u8x	, 42
    // packet A { u8 x, }
    : _x	}, } root packet tag{ MetaDataX @calculatedFrom( ""\" ++ [233]%N ++ runes_of_ascii """ ) `it's`
, } options{ rootA
=
    // `tick` ""quote"" 'q'
    char[] ; float = u8 ; }")).
Eval vm_compute in ("<<<M1709>>>" ++ check (runes_of_ascii "MetaData Foo { u T,
    int16 // `tick` ""quote"" 'q'
leftPad , string chars`tab	here`,i16
    As
, }root  packet uint8x
    {
    @tag( 0
    ) @lengthOf( //
charz )
f64
// `tick` ""quote"" 'q'
// `tick` ""quote"" 'q'
A , repeat string int , // packet A { u8 x, }
u16
float @calculatedFrom( ""a	b""
    ) ,
    @rightPad  (
'\x00' )	roots crc , uint64 packetx
``
,
char[
    3	]
    metadata, string x_y_z
    @lengthOf( string_ ) , }
MetaData
o{zchar x `// not a comment` , asx len , float32
    trueish
    // trailing space 
    ,
repeatCount rootA
// `tick` ""quote"" 'q'
// @lengthOf(
,}
root
    packet x_y_z	{ @calculatedFrom( """ ++ [28040; 24687]%N ++ runes_of_ascii """// 50% %s
)
Z9_
    `doc` ,match len as
    x_y_z{
    ""1""
:
A[
007 , """ ++ [233]%N ++ runes_of_ascii "t" ++ [233]%N ++ runes_of_ascii """ , ""\n"", """ ++ [128512]%N ++ runes_of_ascii """  , // " ++ [128512]%N ++ runes_of_ascii " emoji
""a	b"", 4294967296 ] : Packet,
//x
//
[ """ ++ [128512]%N ++ runes_of_ascii """	] : x //
,
    } ,
    @calculatedFrom(	""\n"" ) u32	Foo``,	repeat o {	i64_
{  o
,  uint32	A	,
} ,} // " ++ [128512]%N ++ runes_of_ascii " emoji
,
//x
// " ++ [27880; 37322]%N ++ runes_of_ascii "
}	root
    // " ++ [128512]%N ++ runes_of_ascii " emoji
    packet asx
    {
    @rightPad
    ('0'
)
    repeat char[
    3 ]
lengthOf ,
}
")).
Eval vm_compute in ("<<<M1741>>>" ++ check (runes_of_ascii "options {
    // @lengthOf(
    BodyLength ='\x00' }
")).
Eval vm_compute in ("<<<M1773>>>" ++ check (runes_of_ascii "options {
    } MetaData u8x {}")).
Eval vm_compute in ("<<<M1805>>>" ++ check (runes_of_ascii "MetaData float {char[7 ]
int`crlf
line`
, f64 leftPad
    `line1
line2`	,} root packet //	t
zchar
{
@tag( 007)
repeat lengthOf
    charz
,
    // trailing space 
    char[] options1// 50% %s
`// not a comment` ,@rightPad
    ('\x00'
) match x_y_z
as Pad { 3: trueish
// @lengthOf(
// packet A { u8 x, }
, 1 :roots, 42 :
u128
[ """" ]
: stringy ,
    } // 50% %s
,
@leftPad ()
    @calculatedFrom( ""it's"" ) match As
as packetx{ [ """ ++ [128512]%N ++ runes_of_ascii """,
    //x
    255,
//
// c
""" ++ [128512]%N ++ runes_of_ascii """
]:
u  , """ ++ [128512]%N ++ runes_of_ascii """
: // trailing space 
roots	,}
, }packet u { repeat char[] int ,  float64
float
,
char[ 4294967296 // c
] chars
,	float64 MetaDataX
@calculatedFrom(""\" ++ [233]%N ++ runes_of_ascii """
    // 50% %s
    ) `{ , }`
,
    }
options
    {
    zchar
//x
/// triple
=""abc""
// " ++ [27880; 37322]%N ++ runes_of_ascii "
// " ++ [27880; 37322]%N ++ runes_of_ascii "
;
//
//	t
} packet
MetaDataX {@calculatedFrom( ""a\\""	)
repeat
    As	, repeat tag { repeat uint16 //	t
u128 `// not a comment` ,
}
, match
float as Logon { [""// no comment""] : u8x 65535
:
// @lengthOf(
//
crc , 10:  zchar 255:Header
    ,  [// c
3 ,
""x y"" ] :Z9_, 1 : options1
    // 50% %s
    , }
//	t
// trailing space 
, zchar[7
] metadata `line1
line2` // packet A { u8 x, }
,
    @tag( 0123456789
) match
    MetaDataX as x{
    [7 , 00 ,
0
,
65535] // " ++ [27880; 37322]%N ++ runes_of_ascii "
: metadata ,
""a	b"" // 50% %s
: Z9_ // trailing space 
, [10 ]  : MetaDataX ,[ 0123456789 ] : rootA ,	[// `tick` ""quote"" 'q'
255//x
] : tag
,
} ,
u8x,}
")).
Eval vm_compute in ("<<<T1805>>>" ++ terms [mkTok 37 "MetaData" 1 0 false; mkTok 42 "float" 1 9 false; mkTok 2 "{" 1 15 false; mkTok 12 "char[" 1 16 false; mkTok 30 "7" 1 21 false; mkTok 13 "]" 1 23 false; mkTok 42 "int" 2 0 false; mkTok 43 (string_of_bytes [96; 99; 114; 108; 102; 13; 10; 108; 105; 110; 101; 96]%N) 2 3 false; mkTok 40 "," 4 0 false; mkTok 29 "f64" 4 2 false; mkTok 42 "leftPad" 4 6 false; mkTok 43 (string_of_bytes [96; 108; 105; 110; 101; 49; 10; 108; 105; 110; 101; 50; 96]%N) 5 4 false; mkTok 40 "," 6 7 false; mkTok 3 "}" 6 8 false; mkTok 34 "root" 6 10 false; mkTok 35 "packet" 6 15 false; mkTok 44 (string_of_bytes [47; 47; 9; 116]%N) 6 22 true; mkTok 42 "zchar" 7 0 false; mkTok 2 "{" 8 0 false; mkTok 9 "@tag(" 9 0 false; mkTok 30 "007" 9 6 false; mkTok 6 ")" 9 9 false; mkTok 36 "repeat" 10 0 false; mkTok 42 "lengthOf" 10 7 false; mkTok 42 "charz" 11 4 false; mkTok 40 "," 12 0 false; mkTok 44 "// trailing space " 13 4 true; mkTok 16 "char[]" 14 4 false; mkTok 42 "options1" 14 11 false; mkTok 44 "// 50% %s" 14 19 true; mkTok 43 "`// not a comment`" 15 0 false; mkTok 40 "," 15 19 false; mkTok 32 "@rightPad" 15 20 false; mkTok 8 "(" 16 4 false; mkTok 33 "'\x00'" 16 5 false; mkTok 6 ")" 17 0 false; mkTok 38 "match" 17 2 false; mkTok 42 "x_y_z" 17 8 false; mkTok 17 "as" 18 0 false; mkTok 42 "Pad" 18 3 false; mkTok 2 "{" 18 7 false; mkTok 30 "3" 18 9 false; mkTok 39 ":" 18 10 false; mkTok 42 "trueish" 18 12 false; mkTok 44 "// @lengthOf(" 19 0 true; mkTok 44 "// packet A { u8 x, }" 20 0 true; mkTok 40 "," 21 0 false; mkTok 30 "1" 21 2 false; mkTok 39 ":" 21 4 false; mkTok 42 "roots" 21 5 false; mkTok 40 "," 21 10 false; mkTok 30 "42" 21 12 false; mkTok 39 ":" 21 15 false; mkTok 42 "u128" 22 0 false; mkTok 18 "[" 23 0 false; mkTok 31 """""" 23 2 false; mkTok 13 "]" 23 5 false; mkTok 39 ":" 24 0 false; mkTok 42 "stringy" 24 2 false; mkTok 40 "," 24 10 false; mkTok 3 "}" 25 4 false; mkTok 44 "// 50% %s" 25 6 true; mkTok 40 "," 26 0 false; mkTok 32 "@leftPad" 27 0 false; mkTok 8 "(" 27 9 false; mkTok 6 ")" 27 10 false; mkTok 5 "@calculatedFrom(" 28 4 false; mkTok 31 """it's""" 28 21 false; mkTok 6 ")" 28 28 false; mkTok 38 "match" 28 30 false; mkTok 42 "As" 28 36 false; mkTok 17 "as" 29 0 false; mkTok 42 "packetx" 29 3 false; mkTok 2 "{" 29 10 false; mkTok 18 "[" 29 12 false; mkTok 31 (string_of_bytes [34; 240; 159; 152; 128; 34]%N) 29 14 false; mkTok 40 "," 29 17 false; mkTok 44 "//x" 30 4 true; mkTok 30 "255" 31 4 false; mkTok 40 "," 31 7 false; mkTok 44 "//" 32 0 true; mkTok 44 "// c" 33 0 true; mkTok 31 (string_of_bytes [34; 240; 159; 152; 128; 34]%N) 34 0 false; mkTok 13 "]" 35 0 false; mkTok 39 ":" 35 1 false; mkTok 42 "u" 36 0 false; mkTok 40 "," 36 3 false; mkTok 31 (string_of_bytes [34; 240; 159; 152; 128; 34]%N) 36 5 false; mkTok 39 ":" 37 0 false; mkTok 44 "// trailing space " 37 2 true; mkTok 42 "roots" 38 0 false; mkTok 40 "," 38 6 false; mkTok 3 "}" 38 7 false; mkTok 40 "," 39 0 false; mkTok 3 "}" 39 2 false; mkTok 35 "packet" 39 3 false; mkTok 42 "u" 39 10 false; mkTok 2 "{" 39 12 false; mkTok 36 "repeat" 39 14 false; mkTok 16 "char[]" 39 21 false; mkTok 42 "int" 39 28 false; mkTok 40 "," 39 32 false; mkTok 29 "float64" 39 35 false; mkTok 42 "float" 40 0 false; mkTok 40 "," 41 0 false; mkTok 12 "char[" 42 0 false; mkTok 30 "4294967296" 42 6 false; mkTok 44 "// c" 42 17 true; mkTok 13 "]" 43 0 false; mkTok 42 "chars" 43 2 false; mkTok 40 "," 44 0 false; mkTok 29 "float64" 44 2 false; mkTok 42 "MetaDataX" 44 10 false; mkTok 5 "@calculatedFrom(" 45 0 false; mkTok 31 (string_of_bytes [34; 92; 195; 169; 34]%N) 45 16 false; mkTok 44 "// 50% %s" 46 4 true; mkTok 6 ")" 47 4 false; mkTok 43 "`{ , }`" 47 6 false; mkTok 40 "," 48 0 false; mkTok 3 "}" 49 4 false; mkTok 1 "options" 50 0 false; mkTok 2 "{" 51 4 false; mkTok 42 "zchar" 52 4 false; mkTok 44 "//x" 53 0 true; mkTok 44 "/// triple" 54 0 true; mkTok 4 "=" 55 0 false; mkTok 31 """abc""" 55 1 false; mkTok 44 (string_of_bytes [47; 47; 32; 230; 179; 168; 233; 135; 138]%N) 56 0 true; mkTok 44 (string_of_bytes [47; 47; 32; 230; 179; 168; 233; 135; 138]%N) 57 0 true; mkTok 41 ";" 58 0 false; mkTok 44 "//" 59 0 true; mkTok 44 (string_of_bytes [47; 47; 9; 116]%N) 60 0 true; mkTok 3 "}" 61 0 false; mkTok 35 "packet" 61 2 false; mkTok 42 "MetaDataX" 62 0 false; mkTok 2 "{" 62 10 false; mkTok 5 "@calculatedFrom(" 62 11 false; mkTok 31 """a\\""" 62 28 false; mkTok 6 ")" 62 34 false; mkTok 36 "repeat" 63 0 false; mkTok 42 "As" 64 4 false; mkTok 40 "," 64 7 false; mkTok 36 "repeat" 64 9 false; mkTok 42 "tag" 64 16 false; mkTok 2 "{" 64 20 false; mkTok 36 "repeat" 64 22 false; mkTok 21 "uint16" 64 29 false; mkTok 44 (string_of_bytes [47; 47; 9; 116]%N) 64 36 true; mkTok 42 "u128" 65 0 false; mkTok 43 "`// not a comment`" 65 5 false; mkTok 40 "," 65 24 false; mkTok 3 "}" 66 0 false; mkTok 40 "," 67 0 false; mkTok 38 "match" 67 2 false; mkTok 42 "float" 68 0 false; mkTok 17 "as" 68 6 false; mkTok 42 "Logon" 68 9 false; mkTok 2 "{" 68 15 false; mkTok 18 "[" 68 17 false; mkTok 31 """// no comment""" 68 18 false; mkTok 13 "]" 68 33 false; mkTok 39 ":" 68 35 false; mkTok 42 "u8x" 68 37 false; mkTok 30 "65535" 68 41 false; mkTok 39 ":" 69 0 false; mkTok 44 "// @lengthOf(" 70 0 true; mkTok 44 "//" 71 0 true; mkTok 42 "crc" 72 0 false; mkTok 40 "," 72 4 false; mkTok 30 "10" 72 6 false; mkTok 39 ":" 72 8 false; mkTok 42 "zchar" 72 11 false; mkTok 30 "255" 72 17 false; mkTok 39 ":" 72 20 false; mkTok 42 "Header" 72 21 false; mkTok 40 "," 73 4 false; mkTok 18 "[" 73 7 false; mkTok 44 "// c" 73 8 true; mkTok 30 "3" 74 0 false; mkTok 40 "," 74 2 false; mkTok 31 """x y""" 75 0 false; mkTok 13 "]" 75 6 false; mkTok 39 ":" 75 8 false; mkTok 42 "Z9_" 75 9 false; mkTok 40 "," 75 12 false; mkTok 30 "1" 75 14 false; mkTok 39 ":" 75 16 false; mkTok 42 "options1" 75 18 false; mkTok 44 "// 50% %s" 76 4 true; mkTok 40 "," 77 4 false; mkTok 3 "}" 77 6 false; mkTok 44 (string_of_bytes [47; 47; 9; 116]%N) 78 0 true; mkTok 44 "// trailing space " 79 0 true; mkTok 40 "," 80 0 false; mkTok 14 "zchar[" 80 2 false; mkTok 30 "7" 80 8 false; mkTok 13 "]" 81 0 false; mkTok 42 "metadata" 81 2 false; mkTok 43 (string_of_bytes [96; 108; 105; 110; 101; 49; 10; 108; 105; 110; 101; 50; 96]%N) 81 11 false; mkTok 44 "// packet A { u8 x, }" 82 7 true; mkTok 40 "," 83 0 false; mkTok 9 "@tag(" 84 4 false; mkTok 30 "0123456789" 84 10 false; mkTok 6 ")" 85 0 false; mkTok 38 "match" 85 2 false; mkTok 42 "MetaDataX" 86 4 false; mkTok 17 "as" 86 14 false; mkTok 42 "x" 86 17 false; mkTok 2 "{" 86 18 false; mkTok 18 "[" 87 4 false; mkTok 30 "7" 87 5 false; mkTok 40 "," 87 7 false; mkTok 30 "00" 87 9 false; mkTok 40 "," 87 12 false; mkTok 30 "0" 88 0 false; mkTok 40 "," 89 0 false; mkTok 30 "65535" 90 0 false; mkTok 13 "]" 90 5 false; mkTok 44 (string_of_bytes [47; 47; 32; 230; 179; 168; 233; 135; 138]%N) 90 7 true; mkTok 39 ":" 91 0 false; mkTok 42 "metadata" 91 2 false; mkTok 40 "," 91 11 false; mkTok 31 (string_of_bytes [34; 97; 9; 98; 34]%N) 92 0 false; mkTok 44 "// 50% %s" 92 6 true; mkTok 39 ":" 93 0 false; mkTok 42 "Z9_" 93 2 false; mkTok 44 "// trailing space " 93 6 true; mkTok 40 "," 94 0 false; mkTok 18 "[" 94 2 false; mkTok 30 "10" 94 3 false; mkTok 13 "]" 94 6 false; mkTok 39 ":" 94 9 false; mkTok 42 "MetaDataX" 94 11 false; mkTok 40 "," 94 21 false; mkTok 18 "[" 94 22 false; mkTok 30 "0123456789" 94 24 false; mkTok 13 "]" 94 35 false; mkTok 39 ":" 94 37 false; mkTok 42 "rootA" 94 39 false; mkTok 40 "," 94 45 false; mkTok 18 "[" 94 47 false; mkTok 44 "// `tick` ""quote"" 'q'" 94 48 true; mkTok 30 "255" 95 0 false; mkTok 44 "//x" 95 3 true; mkTok 13 "]" 96 0 false; mkTok 39 ":" 96 2 false; mkTok 42 "tag" 96 4 false; mkTok 40 "," 97 0 false; mkTok 3 "}" 98 0 false; mkTok 40 "," 98 2 false; mkTok 42 "u8x" 99 0 false; mkTok 40 "," 99 3 false; mkTok 3 "}" 99 4 false; mkTok 0 "<EOF>" 100 0 false] (mkPacket (mkPtok 37 "MetaData" 1 0 0) (Some (mkPtok 3 "}" 99 4 252)) [(DMeta (mkMetaDef (mkSpan (mkPtok 37 "MetaData" 1 0 0) (mkPtok 3 "}" 6 8 13)) (mkPtok 37 "MetaData" 1 0 0) (mkPtok 42 "float" 1 9 1) (mkPtok 2 "{" 1 15 2) [(MIDecl (mkMetaDecl (mkSpan (mkPtok 12 "char[" 1 16 3) (mkPtok 40 "," 4 0 8)) (TyFixed (mkSpan (mkPtok 12 "char[" 1 16 3) (mkPtok 13 "]" 1 23 5)) (mkFixedString (mkSpan (mkPtok 12 "char[" 1 16 3) (mkPtok 13 "]" 1 23 5)) (mkPtok 12 "char[" 1 16 3) (mkPtok 30 "7" 1 21 4) (mkPtok 13 "]" 1 23 5))) (mkPtok 42 "int" 2 0 6) (Some (mkPtok 43 (string_of_bytes [96; 99; 114; 108; 102; 13; 10; 108; 105; 110; 101; 96]%N) 2 3 7)) (mkPtok 40 "," 4 0 8))); (MIDecl (mkMetaDecl (mkSpan (mkPtok 29 "f64" 4 2 9) (mkPtok 40 "," 6 7 12)) (TyBasic (mkSpan (mkPtok 29 "f64" 4 2 9) (mkPtok 29 "f64" 4 2 9)) (mkBasicType (mkSpan (mkPtok 29 "f64" 4 2 9) (mkPtok 29 "f64" 4 2 9)) (mkPtok 29 "f64" 4 2 9))) (mkPtok 42 "leftPad" 4 6 10) (Some (mkPtok 43 (string_of_bytes [96; 108; 105; 110; 101; 49; 10; 108; 105; 110; 101; 50; 96]%N) 5 4 11)) (mkPtok 40 "," 6 7 12)))] (mkPtok 3 "}" 6 8 13))); (DPacket (mkPacketDef (mkSpan (mkPtok 34 "root" 6 10 14) (mkPtok 3 "}" 39 2 94)) (Some (mkPtok 34 "root" 6 10 14)) (mkPtok 35 "packet" 6 15 15) (mkPtok 42 "zchar" 7 0 17) (mkPtok 2 "{" 8 0 18) [(mkFieldWithAttr (mkSpan (mkPtok 9 "@tag(" 9 0 19) (mkPtok 40 "," 12 0 25)) [(FATag (mkSpan (mkPtok 9 "@tag(" 9 0 19) (mkPtok 6 ")" 9 9 21)) (mkTagAttr (mkSpan (mkPtok 9 "@tag(" 9 0 19) (mkPtok 6 ")" 9 9 21)) (mkPtok 9 "@tag(" 9 0 19) (mkPtok 30 "007" 9 6 20) (mkPtok 6 ")" 9 9 21)))] (ObjectField (mkSpan (mkPtok 36 "repeat" 10 0 22) (mkPtok 40 "," 12 0 25)) (Some (mkPtok 36 "repeat" 10 0 22)) (mkPtok 42 "lengthOf" 10 7 23) (Some (mkPtok 42 "charz" 11 4 24)) None (mkPtok 40 "," 12 0 25))); (mkFieldWithAttr (mkSpan (mkPtok 16 "char[]" 14 4 27) (mkPtok 40 "," 15 19 31)) [] (MetaField (mkSpan (mkPtok 16 "char[]" 14 4 27) (mkPtok 40 "," 15 19 31)) None (mkMetaDecl (mkSpan (mkPtok 16 "char[]" 14 4 27) (mkPtok 40 "," 15 19 31)) (TyDynamic (mkSpan (mkPtok 16 "char[]" 14 4 27) (mkPtok 16 "char[]" 14 4 27)) (mkDynamicString (mkSpan (mkPtok 16 "char[]" 14 4 27) (mkPtok 16 "char[]" 14 4 27)) (mkPtok 16 "char[]" 14 4 27))) (mkPtok 42 "options1" 14 11 28) (Some (mkPtok 43 "`// not a comment`" 15 0 30)) (mkPtok 40 "," 15 19 31)))); (mkFieldWithAttr (mkSpan (mkPtok 32 "@rightPad" 15 20 32) (mkPtok 40 "," 26 0 62)) [(FAPadding (mkSpan (mkPtok 32 "@rightPad" 15 20 32) (mkPtok 6 ")" 17 0 35)) (mkPaddingAttr (mkSpan (mkPtok 32 "@rightPad" 15 20 32) (mkPtok 6 ")" 17 0 35)) (mkPtok 32 "@rightPad" 15 20 32) (mkPtok 8 "(" 16 4 33) (Some (mkPtok 33 "'\x00'" 16 5 34)) (mkPtok 6 ")" 17 0 35)))] (MatchField (mkSpan (mkPtok 38 "match" 17 2 36) (mkPtok 40 "," 26 0 62)) (mkMatchFieldDecl (mkSpan (mkPtok 38 "match" 17 2 36) (mkPtok 3 "}" 25 4 60)) (mkPtok 38 "match" 17 2 36) (mkPtok 42 "x_y_z" 17 8 37) (mkPtok 17 "as" 18 0 38) (mkPtok 42 "Pad" 18 3 39) (mkPtok 2 "{" 18 7 40) [(mkMatchPair (mkSpan (mkPtok 30 "3" 18 9 41) (mkPtok 40 "," 21 0 46)) (MKDigits (mkPtok 30 "3" 18 9 41)) (mkPtok 39 ":" 18 10 42) (mkPtok 42 "trueish" 18 12 43) (Some (mkPtok 40 "," 21 0 46))); (mkMatchPair (mkSpan (mkPtok 30 "1" 21 2 47) (mkPtok 40 "," 21 10 50)) (MKDigits (mkPtok 30 "1" 21 2 47)) (mkPtok 39 ":" 21 4 48) (mkPtok 42 "roots" 21 5 49) (Some (mkPtok 40 "," 21 10 50))); (mkMatchPair (mkSpan (mkPtok 30 "42" 21 12 51) (mkPtok 42 "u128" 22 0 53)) (MKDigits (mkPtok 30 "42" 21 12 51)) (mkPtok 39 ":" 21 15 52) (mkPtok 42 "u128" 22 0 53) None); (mkMatchPair (mkSpan (mkPtok 18 "[" 23 0 54) (mkPtok 40 "," 24 10 59)) (MKList (mkKeyList (mkSpan (mkPtok 18 "[" 23 0 54) (mkPtok 13 "]" 23 5 56)) (mkPtok 18 "[" 23 0 54) (mkPtok 31 """""" 23 2 55) [] (mkPtok 13 "]" 23 5 56))) (mkPtok 39 ":" 24 0 57) (mkPtok 42 "stringy" 24 2 58) (Some (mkPtok 40 "," 24 10 59)))] (mkPtok 3 "}" 25 4 60)) (mkPtok 40 "," 26 0 62))); (mkFieldWithAttr (mkSpan (mkPtok 32 "@leftPad" 27 0 63) (mkPtok 40 "," 39 0 93)) [(FAPadding (mkSpan (mkPtok 32 "@leftPad" 27 0 63) (mkPtok 6 ")" 27 10 65)) (mkPaddingAttr (mkSpan (mkPtok 32 "@leftPad" 27 0 63) (mkPtok 6 ")" 27 10 65)) (mkPtok 32 "@leftPad" 27 0 63) (mkPtok 8 "(" 27 9 64) None (mkPtok 6 ")" 27 10 65))); (FACalculatedFrom (mkSpan (mkPtok 5 "@calculatedFrom(" 28 4 66) (mkPtok 6 ")" 28 28 68)) (mkCalculatedFrom (mkSpan (mkPtok 5 "@calculatedFrom(" 28 4 66) (mkPtok 6 ")" 28 28 68)) (mkPtok 5 "@calculatedFrom(" 28 4 66) (mkPtok 31 """it's""" 28 21 67) (mkPtok 6 ")" 28 28 68)))] (MatchField (mkSpan (mkPtok 38 "match" 28 30 69) (mkPtok 40 "," 39 0 93)) (mkMatchFieldDecl (mkSpan (mkPtok 38 "match" 28 30 69) (mkPtok 3 "}" 38 7 92)) (mkPtok 38 "match" 28 30 69) (mkPtok 42 "As" 28 36 70) (mkPtok 17 "as" 29 0 71) (mkPtok 42 "packetx" 29 3 72) (mkPtok 2 "{" 29 10 73) [(mkMatchPair (mkSpan (mkPtok 18 "[" 29 12 74) (mkPtok 40 "," 36 3 86)) (MKList (mkKeyList (mkSpan (mkPtok 18 "[" 29 12 74) (mkPtok 13 "]" 35 0 83)) (mkPtok 18 "[" 29 12 74) (mkPtok 31 (string_of_bytes [34; 240; 159; 152; 128; 34]%N) 29 14 75) [((mkPtok 40 "," 29 17 76), (mkPtok 30 "255" 31 4 78)); ((mkPtok 40 "," 31 7 79), (mkPtok 31 (string_of_bytes [34; 240; 159; 152; 128; 34]%N) 34 0 82))] (mkPtok 13 "]" 35 0 83))) (mkPtok 39 ":" 35 1 84) (mkPtok 42 "u" 36 0 85) (Some (mkPtok 40 "," 36 3 86))); (mkMatchPair (mkSpan (mkPtok 31 (string_of_bytes [34; 240; 159; 152; 128; 34]%N) 36 5 87) (mkPtok 40 "," 38 6 91)) (MKString (mkPtok 31 (string_of_bytes [34; 240; 159; 152; 128; 34]%N) 36 5 87)) (mkPtok 39 ":" 37 0 88) (mkPtok 42 "roots" 38 0 90) (Some (mkPtok 40 "," 38 6 91)))] (mkPtok 3 "}" 38 7 92)) (mkPtok 40 "," 39 0 93)))] (mkPtok 3 "}" 39 2 94))); (DPacket (mkPacketDef (mkSpan (mkPtok 35 "packet" 39 3 95) (mkPtok 3 "}" 49 4 119)) None (mkPtok 35 "packet" 39 3 95) (mkPtok 42 "u" 39 10 96) (mkPtok 2 "{" 39 12 97) [(mkFieldWithAttr (mkSpan (mkPtok 36 "repeat" 39 14 98) (mkPtok 40 "," 39 32 101)) [] (MetaField (mkSpan (mkPtok 36 "repeat" 39 14 98) (mkPtok 40 "," 39 32 101)) (Some (mkPtok 36 "repeat" 39 14 98)) (mkMetaDecl (mkSpan (mkPtok 16 "char[]" 39 21 99) (mkPtok 40 "," 39 32 101)) (TyDynamic (mkSpan (mkPtok 16 "char[]" 39 21 99) (mkPtok 16 "char[]" 39 21 99)) (mkDynamicString (mkSpan (mkPtok 16 "char[]" 39 21 99) (mkPtok 16 "char[]" 39 21 99)) (mkPtok 16 "char[]" 39 21 99))) (mkPtok 42 "int" 39 28 100) None (mkPtok 40 "," 39 32 101)))); (mkFieldWithAttr (mkSpan (mkPtok 29 "float64" 39 35 102) (mkPtok 40 "," 41 0 104)) [] (MetaField (mkSpan (mkPtok 29 "float64" 39 35 102) (mkPtok 40 "," 41 0 104)) None (mkMetaDecl (mkSpan (mkPtok 29 "float64" 39 35 102) (mkPtok 40 "," 41 0 104)) (TyBasic (mkSpan (mkPtok 29 "float64" 39 35 102) (mkPtok 29 "float64" 39 35 102)) (mkBasicType (mkSpan (mkPtok 29 "float64" 39 35 102) (mkPtok 29 "float64" 39 35 102)) (mkPtok 29 "float64" 39 35 102))) (mkPtok 42 "float" 40 0 103) None (mkPtok 40 "," 41 0 104)))); (mkFieldWithAttr (mkSpan (mkPtok 12 "char[" 42 0 105) (mkPtok 40 "," 44 0 110)) [] (MetaField (mkSpan (mkPtok 12 "char[" 42 0 105) (mkPtok 40 "," 44 0 110)) None (mkMetaDecl (mkSpan (mkPtok 12 "char[" 42 0 105) (mkPtok 40 "," 44 0 110)) (TyFixed (mkSpan (mkPtok 12 "char[" 42 0 105) (mkPtok 13 "]" 43 0 108)) (mkFixedString (mkSpan (mkPtok 12 "char[" 42 0 105) (mkPtok 13 "]" 43 0 108)) (mkPtok 12 "char[" 42 0 105) (mkPtok 30 "4294967296" 42 6 106) (mkPtok 13 "]" 43 0 108))) (mkPtok 42 "chars" 43 2 109) None (mkPtok 40 "," 44 0 110)))); (mkFieldWithAttr (mkSpan (mkPtok 29 "float64" 44 2 111) (mkPtok 40 "," 48 0 118)) [] (CheckSumField (mkSpan (mkPtok 29 "float64" 44 2 111) (mkPtok 40 "," 48 0 118)) (mkChecksumFieldDecl (mkSpan (mkPtok 29 "float64" 44 2 111) (mkPtok 40 "," 48 0 118)) (Some (TyBasic (mkSpan (mkPtok 29 "float64" 44 2 111) (mkPtok 29 "float64" 44 2 111)) (mkBasicType (mkSpan (mkPtok 29 "float64" 44 2 111) (mkPtok 29 "float64" 44 2 111)) (mkPtok 29 "float64" 44 2 111)))) (mkPtok 42 "MetaDataX" 44 10 112) (mkCalculatedFrom (mkSpan (mkPtok 5 "@calculatedFrom(" 45 0 113) (mkPtok 6 ")" 47 4 116)) (mkPtok 5 "@calculatedFrom(" 45 0 113) (mkPtok 31 (string_of_bytes [34; 92; 195; 169; 34]%N) 45 16 114) (mkPtok 6 ")" 47 4 116)) (Some (mkPtok 43 "`{ , }`" 47 6 117)) (mkPtok 40 "," 48 0 118))))] (mkPtok 3 "}" 49 4 119))); (DOption (mkOptionDef (mkSpan (mkPtok 1 "options" 50 0 120) (mkPtok 3 "}" 61 0 132)) (mkPtok 1 "options" 50 0 120) (mkPtok 2 "{" 51 4 121) [(mkOptionDecl (mkSpan (mkPtok 42 "zchar" 52 4 122) (mkPtok 41 ";" 58 0 129)) (mkPtok 42 "zchar" 52 4 122) (mkPtok 4 "=" 55 0 125) (VString (mkSpan (mkPtok 31 """abc""" 55 1 126) (mkPtok 31 """abc""" 55 1 126)) (mkPtok 31 """abc""" 55 1 126)) (Some (mkPtok 41 ";" 58 0 129)))] (mkPtok 3 "}" 61 0 132))); (DPacket (mkPacketDef (mkSpan (mkPtok 35 "packet" 61 2 133) (mkPtok 3 "}" 99 4 252)) None (mkPtok 35 "packet" 61 2 133) (mkPtok 42 "MetaDataX" 62 0 134) (mkPtok 2 "{" 62 10 135) [(mkFieldWithAttr (mkSpan (mkPtok 5 "@calculatedFrom(" 62 11 136) (mkPtok 40 "," 64 7 141)) [(FACalculatedFrom (mkSpan (mkPtok 5 "@calculatedFrom(" 62 11 136) (mkPtok 6 ")" 62 34 138)) (mkCalculatedFrom (mkSpan (mkPtok 5 "@calculatedFrom(" 62 11 136) (mkPtok 6 ")" 62 34 138)) (mkPtok 5 "@calculatedFrom(" 62 11 136) (mkPtok 31 """a\\""" 62 28 137) (mkPtok 6 ")" 62 34 138)))] (ObjectField (mkSpan (mkPtok 36 "repeat" 63 0 139) (mkPtok 40 "," 64 7 141)) (Some (mkPtok 36 "repeat" 63 0 139)) (mkPtok 42 "As" 64 4 140) None None (mkPtok 40 "," 64 7 141))); (mkFieldWithAttr (mkSpan (mkPtok 36 "repeat" 64 9 142) (mkPtok 40 "," 67 0 152)) [] (InerObjectField (mkSpan (mkPtok 36 "repeat" 64 9 142) (mkPtok 40 "," 67 0 152)) (Some (mkPtok 36 "repeat" 64 9 142)) (InerObjectDecl (mkSpan (mkPtok 42 "tag" 64 16 143) (mkPtok 3 "}" 66 0 151)) (mkPtok 42 "tag" 64 16 143) (mkPtok 2 "{" 64 20 144) [(MetaField (mkSpan (mkPtok 36 "repeat" 64 22 145) (mkPtok 40 "," 65 24 150)) (Some (mkPtok 36 "repeat" 64 22 145)) (mkMetaDecl (mkSpan (mkPtok 21 "uint16" 64 29 146) (mkPtok 40 "," 65 24 150)) (TyBasic (mkSpan (mkPtok 21 "uint16" 64 29 146) (mkPtok 21 "uint16" 64 29 146)) (mkBasicType (mkSpan (mkPtok 21 "uint16" 64 29 146) (mkPtok 21 "uint16" 64 29 146)) (mkPtok 21 "uint16" 64 29 146))) (mkPtok 42 "u128" 65 0 148) (Some (mkPtok 43 "`// not a comment`" 65 5 149)) (mkPtok 40 "," 65 24 150)))] (mkPtok 3 "}" 66 0 151)) (mkPtok 40 "," 67 0 152))); (mkFieldWithAttr (mkSpan (mkPtok 38 "match" 67 2 153) (mkPtok 40 "," 80 0 193)) [] (MatchField (mkSpan (mkPtok 38 "match" 67 2 153) (mkPtok 40 "," 80 0 193)) (mkMatchFieldDecl (mkSpan (mkPtok 38 "match" 67 2 153) (mkPtok 3 "}" 77 6 190)) (mkPtok 38 "match" 67 2 153) (mkPtok 42 "float" 68 0 154) (mkPtok 17 "as" 68 6 155) (mkPtok 42 "Logon" 68 9 156) (mkPtok 2 "{" 68 15 157) [(mkMatchPair (mkSpan (mkPtok 18 "[" 68 17 158) (mkPtok 42 "u8x" 68 37 162)) (MKList (mkKeyList (mkSpan (mkPtok 18 "[" 68 17 158) (mkPtok 13 "]" 68 33 160)) (mkPtok 18 "[" 68 17 158) (mkPtok 31 """// no comment""" 68 18 159) [] (mkPtok 13 "]" 68 33 160))) (mkPtok 39 ":" 68 35 161) (mkPtok 42 "u8x" 68 37 162) None); (mkMatchPair (mkSpan (mkPtok 30 "65535" 68 41 163) (mkPtok 40 "," 72 4 168)) (MKDigits (mkPtok 30 "65535" 68 41 163)) (mkPtok 39 ":" 69 0 164) (mkPtok 42 "crc" 72 0 167) (Some (mkPtok 40 "," 72 4 168))); (mkMatchPair (mkSpan (mkPtok 30 "10" 72 6 169) (mkPtok 42 "zchar" 72 11 171)) (MKDigits (mkPtok 30 "10" 72 6 169)) (mkPtok 39 ":" 72 8 170) (mkPtok 42 "zchar" 72 11 171) None); (mkMatchPair (mkSpan (mkPtok 30 "255" 72 17 172) (mkPtok 40 "," 73 4 175)) (MKDigits (mkPtok 30 "255" 72 17 172)) (mkPtok 39 ":" 72 20 173) (mkPtok 42 "Header" 72 21 174) (Some (mkPtok 40 "," 73 4 175))); (mkMatchPair (mkSpan (mkPtok 18 "[" 73 7 176) (mkPtok 40 "," 75 12 184)) (MKList (mkKeyList (mkSpan (mkPtok 18 "[" 73 7 176) (mkPtok 13 "]" 75 6 181)) (mkPtok 18 "[" 73 7 176) (mkPtok 30 "3" 74 0 178) [((mkPtok 40 "," 74 2 179), (mkPtok 31 """x y""" 75 0 180))] (mkPtok 13 "]" 75 6 181))) (mkPtok 39 ":" 75 8 182) (mkPtok 42 "Z9_" 75 9 183) (Some (mkPtok 40 "," 75 12 184))); (mkMatchPair (mkSpan (mkPtok 30 "1" 75 14 185) (mkPtok 40 "," 77 4 189)) (MKDigits (mkPtok 30 "1" 75 14 185)) (mkPtok 39 ":" 75 16 186) (mkPtok 42 "options1" 75 18 187) (Some (mkPtok 40 "," 77 4 189)))] (mkPtok 3 "}" 77 6 190)) (mkPtok 40 "," 80 0 193))); (mkFieldWithAttr (mkSpan (mkPtok 14 "zchar[" 80 2 194) (mkPtok 40 "," 83 0 200)) [] (MetaField (mkSpan (mkPtok 14 "zchar[" 80 2 194) (mkPtok 40 "," 83 0 200)) None (mkMetaDecl (mkSpan (mkPtok 14 "zchar[" 80 2 194) (mkPtok 40 "," 83 0 200)) (TyFixed (mkSpan (mkPtok 14 "zchar[" 80 2 194) (mkPtok 13 "]" 81 0 196)) (mkFixedString (mkSpan (mkPtok 14 "zchar[" 80 2 194) (mkPtok 13 "]" 81 0 196)) (mkPtok 14 "zchar[" 80 2 194) (mkPtok 30 "7" 80 8 195) (mkPtok 13 "]" 81 0 196))) (mkPtok 42 "metadata" 81 2 197) (Some (mkPtok 43 (string_of_bytes [96; 108; 105; 110; 101; 49; 10; 108; 105; 110; 101; 50; 96]%N) 81 11 198)) (mkPtok 40 "," 83 0 200)))); (mkFieldWithAttr (mkSpan (mkPtok 9 "@tag(" 84 4 201) (mkPtok 40 "," 98 2 249)) [(FATag (mkSpan (mkPtok 9 "@tag(" 84 4 201) (mkPtok 6 ")" 85 0 203)) (mkTagAttr (mkSpan (mkPtok 9 "@tag(" 84 4 201) (mkPtok 6 ")" 85 0 203)) (mkPtok 9 "@tag(" 84 4 201) (mkPtok 30 "0123456789" 84 10 202) (mkPtok 6 ")" 85 0 203)))] (MatchField (mkSpan (mkPtok 38 "match" 85 2 204) (mkPtok 40 "," 98 2 249)) (mkMatchFieldDecl (mkSpan (mkPtok 38 "match" 85 2 204) (mkPtok 3 "}" 98 0 248)) (mkPtok 38 "match" 85 2 204) (mkPtok 42 "MetaDataX" 86 4 205) (mkPtok 17 "as" 86 14 206) (mkPtok 42 "x" 86 17 207) (mkPtok 2 "{" 86 18 208) [(mkMatchPair (mkSpan (mkPtok 18 "[" 87 4 209) (mkPtok 40 "," 91 11 221)) (MKList (mkKeyList (mkSpan (mkPtok 18 "[" 87 4 209) (mkPtok 13 "]" 90 5 217)) (mkPtok 18 "[" 87 4 209) (mkPtok 30 "7" 87 5 210) [((mkPtok 40 "," 87 7 211), (mkPtok 30 "00" 87 9 212)); ((mkPtok 40 "," 87 12 213), (mkPtok 30 "0" 88 0 214)); ((mkPtok 40 "," 89 0 215), (mkPtok 30 "65535" 90 0 216))] (mkPtok 13 "]" 90 5 217))) (mkPtok 39 ":" 91 0 219) (mkPtok 42 "metadata" 91 2 220) (Some (mkPtok 40 "," 91 11 221))); (mkMatchPair (mkSpan (mkPtok 31 (string_of_bytes [34; 97; 9; 98; 34]%N) 92 0 222) (mkPtok 40 "," 94 0 227)) (MKString (mkPtok 31 (string_of_bytes [34; 97; 9; 98; 34]%N) 92 0 222)) (mkPtok 39 ":" 93 0 224) (mkPtok 42 "Z9_" 93 2 225) (Some (mkPtok 40 "," 94 0 227))); (mkMatchPair (mkSpan (mkPtok 18 "[" 94 2 228) (mkPtok 40 "," 94 21 233)) (MKList (mkKeyList (mkSpan (mkPtok 18 "[" 94 2 228) (mkPtok 13 "]" 94 6 230)) (mkPtok 18 "[" 94 2 228) (mkPtok 30 "10" 94 3 229) [] (mkPtok 13 "]" 94 6 230))) (mkPtok 39 ":" 94 9 231) (mkPtok 42 "MetaDataX" 94 11 232) (Some (mkPtok 40 "," 94 21 233))); (mkMatchPair (mkSpan (mkPtok 18 "[" 94 22 234) (mkPtok 40 "," 94 45 239)) (MKList (mkKeyList (mkSpan (mkPtok 18 "[" 94 22 234) (mkPtok 13 "]" 94 35 236)) (mkPtok 18 "[" 94 22 234) (mkPtok 30 "0123456789" 94 24 235) [] (mkPtok 13 "]" 94 35 236))) (mkPtok 39 ":" 94 37 237) (mkPtok 42 "rootA" 94 39 238) (Some (mkPtok 40 "," 94 45 239))); (mkMatchPair (mkSpan (mkPtok 18 "[" 94 47 240) (mkPtok 40 "," 97 0 247)) (MKList (mkKeyList (mkSpan (mkPtok 18 "[" 94 47 240) (mkPtok 13 "]" 96 0 244)) (mkPtok 18 "[" 94 47 240) (mkPtok 30 "255" 95 0 242) [] (mkPtok 13 "]" 96 0 244))) (mkPtok 39 ":" 96 2 245) (mkPtok 42 "tag" 96 4 246) (Some (mkPtok 40 "," 97 0 247)))] (mkPtok 3 "}" 98 0 248)) (mkPtok 40 "," 98 2 249))); (mkFieldWithAttr (mkSpan (mkPtok 42 "u8x" 99 0 250) (mkPtok 40 "," 99 3 251)) [] (ObjectField (mkSpan (mkPtok 42 "u8x" 99 0 250) (mkPtok 40 "," 99 3 251)) None (mkPtok 42 "u8x" 99 0 250) None None (mkPtok 40 "," 99 3 251)))] (mkPtok 3 "}" 99 4 252)))])).
Eval vm_compute in ("<<<M1837>>>" ++ check (runes_of_ascii "root packet trueish { uint64 chars `doc`
, repeat i16 lengthOf // @lengthOf(
`100% of %d` // c
,  @lengthOf(
int )  @rightPad ( '0'
    // 50% %s
    )	@calculatedFrom(  """" ) repeat metadata,f32 u128 @lengthOf(	asx  )
    `two words`,
_x  { Z9_ calculatedFrom //	t
`100% of %d` , repeat  repeatCount
{
    match // @lengthOf(
options1
    as charz { ""packet"" :Packet
    , [ 3
, 65535
    ]// `tick` ""quote"" 'q'
: Foo , /// triple
""1"" :
    body	, }, }
,
zchar[ 65535 ] x ,//x
}
,
@lengthOf(
rootA )
u //	t
@lengthOf(
    matchKey ) `{ , }`
    ,
    uint8
repeatCount @lengthOf(
    // " ++ [27880; 37322]%N ++ runes_of_ascii "
    repeatCount )`crlf
line`
,  repeat packetx body	`say ""hi""` ,
// `tick` ""quote"" 'q'
// packet A { u8 x, }
int8 Z9_	`a\` , } packet i64_{
@lengthOf(Z9_) repeat
zchar[
// packet A { u8 x, }
// a // b
0 ]T
// " ++ [128512]%N ++ runes_of_ascii " emoji
// @lengthOf(
,
    // 50% %s
    Header _x, /// triple
repeat Z9_ { metadata
, u8x Z9_
,
    float32 packetx `" ++ [233]%N ++ runes_of_ascii "`
,} , }root packet trueish// " ++ [128512]%N ++ runes_of_ascii " emoji
{ T Foo ,uint64
falsey  @calculatedFrom( ""abc"" ) ,
    }	packet	asx
{ }")).
Eval vm_compute in ("<<<M1869>>>" ++ check (runes_of_ascii "
packet charz{
// a // b
// a // b
char[
7 //	t
] asx @lengthOf( trueish )
    , /// triple
@leftPad ( ) @tag(0 ) @calculatedFrom( ""a\\"") repeat zchar[ 4294967296 ]Logon , @leftPad // " ++ [128512]%N ++ runes_of_ascii " emoji
( '\x00' ) match	u as u { 42 : // `tick` ""quote"" 'q'
pack , } , } packet MetaDataX {i8i8, @calculatedFrom(
    ""`tick`""
) match o
    as options1 { 255
    : A	, //
[1
    , 0, """" // " ++ [27880; 37322]%N ++ runes_of_ascii "
,
    ""packet""
,
""abc"" ]: zchar, 3 :
    u	, """"
:T
    ,	}	,
    // `tick` ""quote"" 'q'
    u8x	{// " ++ [128512]%N ++ runes_of_ascii " emoji
string_`{ , }` ,
} , }
// c
")).
Eval vm_compute in ("<<<M1901>>>" ++ check (@nil rune)).
Eval vm_compute in ("<<<M1933>>>" ++ check (runes_of_ascii "MetaData u128{	i8
// c
// " ++ [128512]%N ++ runes_of_ascii " emoji
roots
`doc` , } MetaData string_{ } root
packet // trailing space 
a1
    { }	root
    packet  u128 { @lengthOf(
    u8x )repeat char[
10 ]  _x `a\`
, } packet	Pad {} // " ++ [27880; 37322]%N)).
Eval vm_compute in ("<<<M1965>>>" ++ check (runes_of_ascii "
packet tag{ // " ++ [27880; 37322]%N ++ runes_of_ascii "
} root
    packet x { }  packet zchar { @tag(255
    )options1 // a // b
Packet, char[]
roots `it's` , @leftPad //x
( '\x00'
) char stringy @calculatedFrom(""\n""
), }")).
Eval vm_compute in ("<<<M1997>>>" ++ check (runes_of_ascii "packet tag /// triple
{
@rightPad( '\x00' ) char[] options1 @calculatedFrom(
    // trailing space 
    ""packet"" )
    ,char[ 1  ]
u128
    , u16 string_ `line1
line2` , uint64
    //x
    packetx
@calculatedFrom( ""\n"" )
//	t
// packet A { u8 x, }
,
// c
// a // b
}
packet charz// packet A { u8 x, }
{
    }
MetaData // a // b
A	{ charz string_`say ""hi""`
, chars
int ,}
")).
Eval vm_compute in ("<<<M2029>>>" ++ check (runes_of_ascii "MetaData repeatCount { float64 ,
} root packet  metadata {
char _x @lengthOf( trueish ), @leftPad
( ' '// " ++ [27880; 37322]%N ++ runes_of_ascii "
)/// triple
char[] len`doc` , // packet A { u8 x, }
repeatCount , }
")).
Eval vm_compute in ("<<<M2061>>>" ++ check (runes_of_ascii "MetaData repeatCount { float64 packetx,
} root packet  metadata char
{ _x @lengthOf( trueish ), @leftPad
( ' '// " ++ [27880; 37322]%N ++ runes_of_ascii "
)/// triple
char[] len`doc` , // packet A { u8 x, }
repeatCount , }
")).
Eval vm_compute in ("<<<M2093>>>" ++ check (runes_of_ascii "MetaData repeatCount { float64 packetx,
} root packet  metadata {
char _x @lengthOf( trueish )")).
Eval vm_compute in ("<<<M2125>>>" ++ check (runes_of_ascii "MetaData repeatCount { float64 packetx,
} root packet  metadata {
char _x @lengthOf( trueish ), @leftPad
( ' '// " ++ [27880; 37322]%N ++ runes_of_ascii "
)/// triple
char[] len`doc` `doc` , // packet A { u8 x, }
repeatCount , }
")).
Eval vm_compute in ("<<<M2157>>>" ++ check (runes_of_ascii "MetaData repeatCount { float64 packetx,
} root /packet  metadata {
char _x @lengthOf( trueish ), @leftPad
( ' '// " ++ [27880; 37322]%N ++ runes_of_ascii "
)/// triple
char[] len`doc` , // packet A { u8 x, }
repeatCount , }
")).
Eval vm_compute in ("<<<M2189>>>" ++ check (runes_of_ascii "options{
leftPad")).
Eval vm_compute in ("<<<M2221>>>" ++ check (runes_of_ascii "options{
leftPad
    =65535
;
a1 = true ; packetx packetx=  '\x00' ; packetx
=  """ ++ [28040; 24687]%N ++ runes_of_ascii """MetaDataX= // " ++ [27880; 37322]%N ++ runes_of_ascii "
false }root // c
packet // packet A { u8 x, }
Pad { repeat
u8 Header
// packet A { u8 x, }
//	t
`{ , }`
// a // b
//x
, }
")).
Eval vm_compute in ("<<<M2253>>>" ++ check (runes_of_ascii "options{
leftPad
    =65535
;
a1 = true ; packetx=  '\x00' ; packetx
=  options MetaDataX= // " ++ [27880; 37322]%N ++ runes_of_ascii "
false }root // c
packet // packet A { u8 x, }
Pad { repeat
u8 Header
// packet A { u8 x, }
//	t
`{ , }`
// a // b
//x
, }
")).
Eval vm_compute in ("<<<M2285>>>" ++ check (runes_of_ascii "options{
leftPad
    =65535
;
a1 = true ; packetx=  '\x00' ; packetx
=  """ ++ [28040; 24687]%N ++ runes_of_ascii """MetaDataX= // " ++ [27880; 37322]%N ++ runes_of_ascii "
false }root // c
packet // packet A { u8 x, }
 { repeat
u8 Header
// packet A { u8 x, }
//	t
`{ , }`
// a // b
//x
, }
")).
Eval vm_compute in ("<<<M2317>>>" ++ check (runes_of_ascii "options{
leftPad
    =65535
;
a1 = true ; packetx=  '\x00' ; packetx
=  """ ++ [28040; 24687]%N ++ runes_of_ascii """MetaDataX= // " ++ [27880; 37322]%N ++ runes_of_ascii "
false }root // c
packet // packet A { u8 x, }
Pad { repeat
u8 Header
// packet A { u8 x, }
//	t
`{ , }`
// a // b
//x
} ,
")).
Eval vm_compute in ("<<<M2349>>>" ++ check (runes_of_ascii "
`// not a comment` float
{	@calculatedFrom( """ ++ [233]%N ++ runes_of_ascii "t" ++ [233]%N ++ runes_of_ascii """ )
@rightPad ( '\x00' )
    @calculatedFrom( ""x y"" ) string chars  ,
    // a // b
    char[0 ]
    u	@lengthOf( i8i8 ) `{ , }` ,repeat char[] o //x
`// not a comment`, } // c")).
Eval vm_compute in ("<<<M2381>>>" ++ check (runes_of_ascii "
packet float
{	@calculatedFrom( """ ++ [233]%N ++ runes_of_ascii "t" ++ [233]%N ++ runes_of_ascii """ )
@rightPad  '\x00' )
    @calculatedFrom( ""x y"" ) string chars  ,
    // a // b
    char[0 ]
    u	@lengthOf( i8i8 ) `{ , }` ,repeat char[] o //x
`// not a comment`, } // c")).
Eval vm_compute in ("<<<M2413>>>" ++ check (runes_of_ascii "
packet float
{	@calculatedFrom( """ ++ [233]%N ++ runes_of_ascii "t" ++ [233]%N ++ runes_of_ascii """ )
@rightPad ( '\x00' )
    @calculatedFrom( ""x y"" ) chars string  ,
    // a // b
    char[0 ]
    u	@lengthOf( i8i8 ) `{ , }` ,repeat char[] o //x
`// not a comment`, } // c")).
Eval vm_compute in ("<<<M2445>>>" ++ check (runes_of_ascii "
packet float
{	@calculatedFrom( """ ++ [233]%N ++ runes_of_ascii "t" ++ [233]%N ++ runes_of_ascii """ )
@rightPad ( '\x00' )
    @calculatedFrom( ""x y"" ) string chars  ,
    // a // b
    char[0 ]")).
Eval vm_compute in ("<<<M2477>>>" ++ check (runes_of_ascii "
packet float
{	@calculatedFrom( """ ++ [233]%N ++ runes_of_ascii "t" ++ [233]%N ++ runes_of_ascii """ )
@rightPad ( '\x00' )
    @calculatedFrom( ""x y"" ) string chars  ,
    // a // b
    char[0 ]
    u	@lengthOf( i8i8 ) `{ , }` ,repeat char[] char[] o //x
`// not a comment`, } // c")).
Eval vm_compute in ("<<<M2509>>>" ++ check (runes_of_ascii "
packet float
{	@calculatedFrom( """ ++ [233]%N ++ runes_of_ascii "t" ++ [233]%N ++ runes_of_ascii """ )
@rightPad ( '\x00' )
    @calculatedFrom( ""x y"" ) string chars  `,
    // a // b
    char[0 ]
    u	@lengthOf( i8i8 ) `{ , }` ,repeat char[] o //x
`// not a comment`, } // c")).
Eval vm_compute in ("<<<M2541>>>" ++ check (runes_of_ascii "root packet u128")).
Eval vm_compute in ("<<<M2573>>>" ++ check (runes_of_ascii "root packet u128{
    repeat
    zchar[ 65535 ] u `" ++ [28040; 24687; 31867; 22411]%N ++ runes_of_ascii "` , ,// `tick` ""quote"" 'q'
} packet i64_ {repeatCount
    `
` ,	} // " ++ [128512]%N ++ runes_of_ascii " emoji")).
Eval vm_compute in ("<<<M2605>>>" ++ check (runes_of_ascii "root packet u128{
    repeat
    zchar[ 65535 ] u `" ++ [28040; 24687; 31867; 22411]%N ++ runes_of_ascii "` ,// `tick` ""quote"" 'q'
} packet i64_ {repeatCount
    zchar[ ,	} // " ++ [128512]%N ++ runes_of_ascii " emoji")).
Eval vm_compute in ("<<<M2637>>>" ++ check (runes_of_ascii "root packet na" ++ [239]%N ++ runes_of_ascii "ve{
    repeat
    zchar[ 65535 ] u `" ++ [28040; 24687; 31867; 22411]%N ++ runes_of_ascii "` ,// `tick` ""quote"" 'q'
} packet i64_ {repeatCount
    `
` ,	} // " ++ [128512]%N ++ runes_of_ascii " emoji")).
Eval vm_compute in ("<<<M2669>>>" ++ check (runes_of_ascii "
MetaData
roots { int8
    BodyLength ,//	t
} }
")).
Eval vm_compute in ("<<<M2701>>>" ++ check (runes_of_ascii "options Packet{ = ""CRC32""i8i8 = false; leftPad =
    '\x00'
    // `tick` ""quote"" 'q'
    ; o=255  ;
    // packet A { u8 x, }
    }")).
Eval vm_compute in ("<<<M2733>>>" ++ check (runes_of_ascii "options {Packet = ""CRC32""i8i8 =")).
Eval vm_compute in ("<<<M2765>>>" ++ check (runes_of_ascii "options {Packet = ""CRC32""i8i8 = false; leftPad =
    '\x00'
    // `tick` ""quote"" 'q'
    ; o= =255  ;
    // packet A { u8 x, }
    }")).
Eval vm_compute in ("<<<M2797>>>" ++ check (runes_of_ascii "options {Packet = ""C%RC32""i8i8 = false; leftPad =
    '\x00'
    // `tick` ""quote"" 'q'
    ; o=255  ;
    // packet A { u8 x, }
    }")).
Eval vm_compute in ("<<<T2797>>>" ++ terms [mkTok 1 "options" 1 0 false; mkTok 2 "{" 1 8 false; mkTok 42 "Packet" 1 9 false; mkTok 4 "=" 1 16 false; mkTok 31 """C%RC32""" 1 18 false; mkTok 42 "i8i8" 1 26 false; mkTok 4 "=" 1 31 false; mkTok 11 "false" 1 33 false; mkTok 41 ";" 1 38 false; mkTok 42 "leftPad" 1 40 false; mkTok 4 "=" 1 48 false; mkTok 33 "'\x00'" 2 4 false; mkTok 44 "// `tick` ""quote"" 'q'" 3 4 true; mkTok 41 ";" 4 4 false; mkTok 42 "o" 4 6 false; mkTok 4 "=" 4 7 false; mkTok 30 "255" 4 8 false; mkTok 41 ";" 4 13 false; mkTok 44 "// packet A { u8 x, }" 5 4 true; mkTok 3 "}" 6 4 false; mkTok 0 "<EOF>" 6 5 false] (mkPacket (mkPtok 1 "options" 1 0 0) (Some (mkPtok 3 "}" 6 4 19)) [(DOption (mkOptionDef (mkSpan (mkPtok 1 "options" 1 0 0) (mkPtok 3 "}" 6 4 19)) (mkPtok 1 "options" 1 0 0) (mkPtok 2 "{" 1 8 1) [(mkOptionDecl (mkSpan (mkPtok 42 "Packet" 1 9 2) (mkPtok 31 """C%RC32""" 1 18 4)) (mkPtok 42 "Packet" 1 9 2) (mkPtok 4 "=" 1 16 3) (VString (mkSpan (mkPtok 31 """C%RC32""" 1 18 4) (mkPtok 31 """C%RC32""" 1 18 4)) (mkPtok 31 """C%RC32""" 1 18 4)) None); (mkOptionDecl (mkSpan (mkPtok 42 "i8i8" 1 26 5) (mkPtok 41 ";" 1 38 8)) (mkPtok 42 "i8i8" 1 26 5) (mkPtok 4 "=" 1 31 6) (VFalse (mkSpan (mkPtok 11 "false" 1 33 7) (mkPtok 11 "false" 1 33 7)) (mkPtok 11 "false" 1 33 7)) (Some (mkPtok 41 ";" 1 38 8))); (mkOptionDecl (mkSpan (mkPtok 42 "leftPad" 1 40 9) (mkPtok 41 ";" 4 4 13)) (mkPtok 42 "leftPad" 1 40 9) (mkPtok 4 "=" 1 48 10) (VPaddingChar (mkSpan (mkPtok 33 "'\x00'" 2 4 11) (mkPtok 33 "'\x00'" 2 4 11)) (mkPtok 33 "'\x00'" 2 4 11)) (Some (mkPtok 41 ";" 4 4 13))); (mkOptionDecl (mkSpan (mkPtok 42 "o" 4 6 14) (mkPtok 41 ";" 4 13 17)) (mkPtok 42 "o" 4 6 14) (mkPtok 4 "=" 4 7 15) (VDigits (mkSpan (mkPtok 30 "255" 4 8 16) (mkPtok 30 "255" 4 8 16)) (mkPtok 30 "255" 4 8 16)) (Some (mkPtok 41 ";" 4 13 17)))] (mkPtok 3 "}" 6 4 19)))])).
Eval vm_compute in ("<<<M2829>>>" ++ check (runes_of_ascii "
packet metadata { @rightPad")).
Eval vm_compute in ("<<<M2861>>>" ++ check (runes_of_ascii "
packet metadata { @rightPad (
    // packet A { u8 x, }
    ' ' ) repeat u32	A
,matchKey matchKey ,
    @lengthOf( string_ ) @lengthOf( body )
    // a // b
    @lengthOf(float  )	repeat
int32 u8x
    // c
    `tab	here`
, } // a // b")).
Eval vm_compute in ("<<<M2893>>>" ++ check (runes_of_ascii "
packet metadata { @rightPad (
    // packet A { u8 x, }
    ' ' ) repeat u32	A
,matchKey ,
    @lengthOf( string_ ) @lengthOf( @lengthOf( )
    // a // b
    @lengthOf(float  )	repeat
int32 u8x
    // c
    `tab	here`
, } // a // b")).
Eval vm_compute in ("<<<M2925>>>" ++ check (runes_of_ascii "
packet metadata { @rightPad (
    // packet A { u8 x, }
    ' ' ) repeat u32	A
,matchKey ,
    @lengthOf( string_ ) @lengthOf( body )
    // a // b
    @lengthOf(float  )	repeat
int32 
    // c
    `tab	here`
, } // a // b")).
Eval vm_compute in ("<<<M2957>>>" ++ check (runes_of_ascii "
packet metadata { @rightPad ?(
    // packet A { u8 x, }
    ' ' ) repeat u32	A
,matchKey ,
    @lengthOf( string_ ) @lengthOf( body )
    // a // b
    @lengthOf(float  )	repeat
int32 u8x
    // c
    `tab	here`
, } // a // b")).
Eval vm_compute in ("<<<M2989>>>" ++ check (runes_of_ascii "packet x{
string
] , //	t
}
")).
Eval vm_compute in ("<<<M3021>>>" ++ check (runes_of_ascii "packet x{
string
caf" ++ [233]%N ++ runes_of_ascii "_1 , //	t
}
")).
Eval vm_compute in ("<<<M3053>>>" ++ check (runes_of_ascii "
MetaData Logon
{ // c
}root packet
    Pad Pad {
    } options
{
u
    =
    ""CRC32""
    // " ++ [128512]%N ++ runes_of_ascii " emoji
    i64_ = u16;
T =65535 x = ' '
    ; u128
= true ; }")).
Eval vm_compute in ("<<<M3085>>>" ++ check (runes_of_ascii "
MetaData Logon
{ // c
}root packet
    Pad {
    } options
{
u
    MetaData
    ""CRC32""
    // " ++ [128512]%N ++ runes_of_ascii " emoji
    i64_ = u16;
T =65535 x = ' '
    ; u128
= true ; }")).
Eval vm_compute in ("<<<M3117>>>" ++ check (runes_of_ascii "
MetaData Logon
{ // c
}root packet
    Pad {
    } options
{
u
    =
    ""CRC32""
    // " ++ [128512]%N ++ runes_of_ascii " emoji
    i64_ = u16;
T 65535 x = ' '
    ; u128
= true ; }")).
Eval vm_compute in ("<<<M3149>>>" ++ check (runes_of_ascii "
MetaData Logon
{ // c
}root packet
    Pad {
    } options
{
u
    =
    ""CRC32""
    // " ++ [128512]%N ++ runes_of_ascii " emoji
    i64_ = u16;
T =65535 x = ' '
    ; =
u128 true ; }")).
Eval vm_compute in ("<<<M3181>>>" ++ check (runes_of_ascii "
MetaData Logon
{ // c
}root packet
    Pad {
    } options
{
u
    =
    ""CRC32""
    /@/ " ++ [128512]%N ++ runes_of_ascii " emoji
    i64_ = u16;
T =65535 x = ' '
    ; u128
= true ; }")).
Eval vm_compute in ("<<<M3213>>>" ++ check (runes_of_ascii "MetaData body{}
	Packet { x_y_z @calculatedFrom(  ""a\\"")// `tick` ""quote"" 'q'
, }
")).
Eval vm_compute in ("<<<M3245>>>" ++ check (runes_of_ascii "MetaData body{}
packet	Packet { x_y_z @calculatedFrom(  ""a\\"",// `tick` ""quote"" 'q'
) }
")).
Eval vm_compute in ("<<<M3277>>>" ++ check (runes_of_ascii "MetaData " ++ [21517; 23383]%N ++ runes_of_ascii "{}
packet	Packet { x_y_z @calculatedFrom(  ""a\\"")// `tick` ""quote"" 'q'
, }
")).
Eval vm_compute in ("<<<M3309>>>" ++ check (runes_of_ascii "packet f32a {} root packet  {repeat u // " ++ [128512]%N ++ runes_of_ascii " emoji
`{ , }` , }
")).
Eval vm_compute in ("<<<M3341>>>" ++ check (runes_of_ascii "packet f32a {} root packet len {repeat u // " ++ [128512]%N ++ runes_of_ascii " emoji
`{ , }` , char
")).
Eval vm_compute in ("<<<M3373>>>" ++ check (runes_of_ascii "options{ _x=""\" ++ [233]%N ++ runes_of_ascii """
    Logon = 10	; Foo= 7;
i64_= char[]} options {
matchKey = ""// no comment"" // a // b
falsey = string
; trueish =
    4294967296
options1=
    ""it's"" string_	= true } options {
    /// triple
    }")).
Eval vm_compute in ("<<<M3405>>>" ++ check (runes_of_ascii "options{ _x=""\" ++ [233]%N ++ runes_of_ascii """;
    Logon = 10	; Foo= 7;
i64_= char[]} options {
matchKey = ""// no comment"" // a // b
falsey = string
; trueish =
    4294967296
options1
    ""it's"" string_	= true } options {
    /// triple
    }")).
Eval vm_compute in ("<<<M3437>>>" ++ check (runes_of_ascii "options{ _x=""\" ++ [233]%N ++ runes_of_ascii """;
    Logon = 10	; Foo= 7;
i64_= char[]} options {
matchKey = ""// no comment"" // a // b
falsey = string
; trueish =
    4294967296
options1=
    ""it's"" string_	= true } } options {
    /// triple
    }")).
Eval vm_compute in ("<<<M3469>>>" ++ check (runes_of_ascii "options{ _x=""\" ++ [233]%N ++ runes_of_ascii """;
    Logon = 10	; Foo= 7;
i64_= char[]} int16 {
matchKey = ""// no comment"" // a // b
falsey = string
; trueish =
    4294967296
options1=
    ""it's"" string_	= true } options {
    /// triple
    }")).
Eval vm_compute in ("<<<M3501>>>" ++ check (runes_of_ascii "u8x")).
Eval vm_compute in ("<<<M3533>>>" ++ check (runes_of_ascii "match")).
Eval vm_compute in ("<<<M3565>>>" ++ check (runes_of_ascii "/ /")).
Eval vm_compute in ("<<<M3597>>>" ++ check (runes_of_ascii "-1")).
Eval vm_compute in ("<<<M3629>>>" ++ check (runes_of_ascii "packet A { repeat x @calculatedFrom(""c""), }")).
Eval vm_compute in ("<<<M3661>>>" ++ check (runes_of_ascii "packet A { x @leftPad(), }")).
Eval vm_compute in ("<<<M3693>>>" ++ check (runes_of_ascii "packet A { @rightPad(' ') @lengthOf(b) @calculatedFrom(""c"") @tag(007) match k as n { 1 : B }, }")).
Eval vm_compute in ("<<<M3725>>>" ++ check (runes_of_ascii "options { a = 1 }")).
Eval vm_compute in ("<<<M3757>>>" ++ check (runes_of_ascii "//")).
Eval vm_compute in ("<<<M3789>>>" ++ check (runes_of_ascii "~q]X'0(=FBx%aI1lJv[{'xjMf_i@?f@")).
Eval vm_compute in ("<<<M3821>>>" ++ check (runes_of_ascii "s02+iUY_M""km`K+);`h{x")).
Eval vm_compute in ("<<<M3853>>>" ++ check (runes_of_ascii "t6\:8Tg{6ty")).
Eval vm_compute in ("<<<M3885>>>" ++ check (runes_of_ascii "Gs\s Qe^EB#3""gO5)%hO#""3x")).
Eval vm_compute in ("<<<M3917>>>" ++ check (runes_of_ascii "4j@j5,Ns;71&l_4PNC.zvaw(PJW?CR+EN*HnnA")).
Eval vm_compute in ("<<<M3949>>>" ++ check (runes_of_ascii "6""bw""vvN>c2,/jZ|[lY]V0##BQyj  q9_uV.6")).
Eval vm_compute in ("<<<M3981>>>" ++ check (runes_of_ascii "H|&mh]QYP[0X5Q^tisaspc)Q,[C")).
