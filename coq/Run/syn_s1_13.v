From FP Require Import Lexer Parser ShowPT Digest.
From Coq Require Import String List NArith.
Import ListNotations.
Open Scope string_scope.
Set Printing Width 100000000.
Set Printing Depth 100000000.
Definition nl : string := String (Ascii.ascii_of_nat 10) EmptyString.
Definition model_lex (rs : list rune) : string := show_toks (lex rs).
Definition model_parse (rs : list rune) : string :=
  show_pt (match lex rs with Some ts => parse ts | None => None end).
(* coqc is slow at printing long strings: digests first (Digest.v), full texts on demand *)
Definition check (rs : list rune) : string :=
  digest (model_lex rs) ++ " " ++ digest (model_parse rs).
Definition full (rs : list rune) : string := model_lex rs ++ nl ++ model_parse rs.
Definition terms (ts : list tok) (t : pt) : string :=
  digest (show_toks (Some ts)) ++ " " ++ digest (show_pt (Some t)) ++ " " ++ digest (show_pt (parse ts)).
Definition terms_full (ts : list tok) (t : pt) : string :=
  show_toks (Some ts) ++ nl ++ show_pt (Some t) ++ nl ++ show_pt (parse ts).
Eval vm_compute in ("<<<M13>>>" ++ check (runes_of_ascii "
packet msg_type
    // packet A { u8 x, }
    {//	t
string	packetx @lengthOf( charz )	, @calculatedFrom( """"  )
repeat char[ 0123456789
    ]
    // c
    int `it's` ,
    @rightPad (// packet A { u8 x, }
)
@tag( 42 )
    @calculatedFrom( ""`tick`""
) repeat
uint16
falsey  `" ++ [233]%N ++ runes_of_ascii "`
, i32 Foo , @tag(7 ) u64
chars@lengthOf(  BodyLength ), i16
    Z9_@lengthOf(/// triple
a1 ) ,@lengthOf(leftPad ) lengthOf body ``	, @tag(
    007 )
char[
    10 //x
]
_x
// a // b
// " ++ [27880; 37322]%N ++ runes_of_ascii "
@lengthOf(
    roots )	`
` , // a // b
@calculatedFrom(""a\\"" )
    float64 //	t
rootA`doc` , string T @calculatedFrom( """" ) , }")).
Eval vm_compute in ("<<<T13>>>" ++ terms [mkTok 35 "packet" 2 0 false; mkTok 42 "msg_type" 2 7 false; mkTok 44 "// packet A { u8 x, }" 3 4 true; mkTok 2 "{" 4 4 false; mkTok 44 (string_of_bytes [47; 47; 9; 116]%N) 4 5 true; mkTok 15 "string" 5 0 false; mkTok 42 "packetx" 5 7 false; mkTok 7 "@lengthOf(" 5 15 false; mkTok 42 "charz" 5 26 false; mkTok 6 ")" 5 32 false; mkTok 40 "," 5 34 false; mkTok 5 "@calculatedFrom(" 5 36 false; mkTok 31 """""" 5 53 false; mkTok 6 ")" 5 57 false; mkTok 36 "repeat" 6 0 false; mkTok 12 "char[" 6 7 false; mkTok 30 "0123456789" 6 13 false; mkTok 13 "]" 7 4 false; mkTok 44 "// c" 8 4 true; mkTok 42 "int" 9 4 false; mkTok 43 "`it's`" 9 8 false; mkTok 40 "," 9 15 false; mkTok 32 "@rightPad" 10 4 false; mkTok 8 "(" 10 14 false; mkTok 44 "// packet A { u8 x, }" 10 15 true; mkTok 6 ")" 11 0 false; mkTok 9 "@tag(" 12 0 false; mkTok 30 "42" 12 6 false; mkTok 6 ")" 12 9 false; mkTok 5 "@calculatedFrom(" 13 4 false; mkTok 31 """`tick`""" 13 21 false; mkTok 6 ")" 14 0 false; mkTok 36 "repeat" 14 2 false; mkTok 21 "uint16" 15 0 false; mkTok 42 "falsey" 16 0 false; mkTok 43 (string_of_bytes [96; 195; 169; 96]%N) 16 8 false; mkTok 40 "," 17 0 false; mkTok 26 "i32" 17 2 false; mkTok 42 "Foo" 17 6 false; mkTok 40 "," 17 10 false; mkTok 9 "@tag(" 17 12 false; mkTok 30 "7" 17 17 false; mkTok 6 ")" 17 19 false; mkTok 23 "u64" 17 21 false; mkTok 42 "chars" 18 0 false; mkTok 7 "@lengthOf(" 18 5 false; mkTok 42 "BodyLength" 18 17 false; mkTok 6 ")" 18 28 false; mkTok 40 "," 18 29 false; mkTok 25 "i16" 18 31 false; mkTok 42 "Z9_" 19 4 false; mkTok 7 "@lengthOf(" 19 7 false; mkTok 44 "/// triple" 19 17 true; mkTok 42 "a1" 20 0 false; mkTok 6 ")" 20 3 false; mkTok 40 "," 20 5 false; mkTok 7 "@lengthOf(" 20 6 false; mkTok 42 "leftPad" 20 16 false; mkTok 6 ")" 20 24 false; mkTok 42 "lengthOf" 20 26 false; mkTok 42 "body" 20 35 false; mkTok 43 "``" 20 40 false; mkTok 40 "," 20 43 false; mkTok 9 "@tag(" 20 45 false; mkTok 30 "007" 21 4 false; mkTok 6 ")" 21 8 false; mkTok 12 "char[" 22 0 false; mkTok 30 "10" 23 4 false; mkTok 44 "//x" 23 7 true; mkTok 13 "]" 24 0 false; mkTok 42 "_x" 25 0 false; mkTok 44 "// a // b" 26 0 true; mkTok 44 (string_of_bytes [47; 47; 32; 230; 179; 168; 233; 135; 138]%N) 27 0 true; mkTok 7 "@lengthOf(" 28 0 false; mkTok 42 "roots" 29 4 false; mkTok 6 ")" 29 10 false; mkTok 43 (string_of_bytes [96; 10; 96]%N) 29 12 false; mkTok 40 "," 30 2 false; mkTok 44 "// a // b" 30 4 true; mkTok 5 "@calculatedFrom(" 31 0 false; mkTok 31 """a\\""" 31 16 false; mkTok 6 ")" 31 22 false; mkTok 29 "float64" 32 4 false; mkTok 44 (string_of_bytes [47; 47; 9; 116]%N) 32 12 true; mkTok 42 "rootA" 33 0 false; mkTok 43 "`doc`" 33 5 false; mkTok 40 "," 33 11 false; mkTok 15 "string" 33 13 false; mkTok 42 "T" 33 20 false; mkTok 5 "@calculatedFrom(" 33 22 false; mkTok 31 """""" 33 39 false; mkTok 6 ")" 33 42 false; mkTok 40 "," 33 44 false; mkTok 3 "}" 33 46 false; mkTok 0 "<EOF>" 33 47 false] (mkPacket (mkPtok 35 "packet" 2 0 0) (Some (mkPtok 3 "}" 33 46 93)) [(DPacket (mkPacketDef (mkSpan (mkPtok 35 "packet" 2 0 0) (mkPtok 3 "}" 33 46 93)) None (mkPtok 35 "packet" 2 0 0) (mkPtok 42 "msg_type" 2 7 1) (mkPtok 2 "{" 4 4 3) [(mkFieldWithAttr (mkSpan (mkPtok 15 "string" 5 0 5) (mkPtok 40 "," 5 34 10)) [] (LengthField (mkSpan (mkPtok 15 "string" 5 0 5) (mkPtok 40 "," 5 34 10)) (mkLengthFieldDecl (mkSpan (mkPtok 15 "string" 5 0 5) (mkPtok 40 "," 5 34 10)) (Some (TyDynamic (mkSpan (mkPtok 15 "string" 5 0 5) (mkPtok 15 "string" 5 0 5)) (mkDynamicString (mkSpan (mkPtok 15 "string" 5 0 5) (mkPtok 15 "string" 5 0 5)) (mkPtok 15 "string" 5 0 5)))) (mkPtok 42 "packetx" 5 7 6) (mkLengthOf (mkSpan (mkPtok 7 "@lengthOf(" 5 15 7) (mkPtok 6 ")" 5 32 9)) (mkPtok 7 "@lengthOf(" 5 15 7) (mkPtok 42 "charz" 5 26 8) (mkPtok 6 ")" 5 32 9)) None (mkPtok 40 "," 5 34 10)))); (mkFieldWithAttr (mkSpan (mkPtok 5 "@calculatedFrom(" 5 36 11) (mkPtok 40 "," 9 15 21)) [(FACalculatedFrom (mkSpan (mkPtok 5 "@calculatedFrom(" 5 36 11) (mkPtok 6 ")" 5 57 13)) (mkCalculatedFrom (mkSpan (mkPtok 5 "@calculatedFrom(" 5 36 11) (mkPtok 6 ")" 5 57 13)) (mkPtok 5 "@calculatedFrom(" 5 36 11) (mkPtok 31 """""" 5 53 12) (mkPtok 6 ")" 5 57 13)))] (MetaField (mkSpan (mkPtok 36 "repeat" 6 0 14) (mkPtok 40 "," 9 15 21)) (Some (mkPtok 36 "repeat" 6 0 14)) (mkMetaDecl (mkSpan (mkPtok 12 "char[" 6 7 15) (mkPtok 40 "," 9 15 21)) (TyFixed (mkSpan (mkPtok 12 "char[" 6 7 15) (mkPtok 13 "]" 7 4 17)) (mkFixedString (mkSpan (mkPtok 12 "char[" 6 7 15) (mkPtok 13 "]" 7 4 17)) (mkPtok 12 "char[" 6 7 15) (mkPtok 30 "0123456789" 6 13 16) (mkPtok 13 "]" 7 4 17))) (mkPtok 42 "int" 9 4 19) (Some (mkPtok 43 "`it's`" 9 8 20)) (mkPtok 40 "," 9 15 21)))); (mkFieldWithAttr (mkSpan (mkPtok 32 "@rightPad" 10 4 22) (mkPtok 40 "," 17 0 36)) [(FAPadding (mkSpan (mkPtok 32 "@rightPad" 10 4 22) (mkPtok 6 ")" 11 0 25)) (mkPaddingAttr (mkSpan (mkPtok 32 "@rightPad" 10 4 22) (mkPtok 6 ")" 11 0 25)) (mkPtok 32 "@rightPad" 10 4 22) (mkPtok 8 "(" 10 14 23) None (mkPtok 6 ")" 11 0 25))); (FATag (mkSpan (mkPtok 9 "@tag(" 12 0 26) (mkPtok 6 ")" 12 9 28)) (mkTagAttr (mkSpan (mkPtok 9 "@tag(" 12 0 26) (mkPtok 6 ")" 12 9 28)) (mkPtok 9 "@tag(" 12 0 26) (mkPtok 30 "42" 12 6 27) (mkPtok 6 ")" 12 9 28))); (FACalculatedFrom (mkSpan (mkPtok 5 "@calculatedFrom(" 13 4 29) (mkPtok 6 ")" 14 0 31)) (mkCalculatedFrom (mkSpan (mkPtok 5 "@calculatedFrom(" 13 4 29) (mkPtok 6 ")" 14 0 31)) (mkPtok 5 "@calculatedFrom(" 13 4 29) (mkPtok 31 """`tick`""" 13 21 30) (mkPtok 6 ")" 14 0 31)))] (MetaField (mkSpan (mkPtok 36 "repeat" 14 2 32) (mkPtok 40 "," 17 0 36)) (Some (mkPtok 36 "repeat" 14 2 32)) (mkMetaDecl (mkSpan (mkPtok 21 "uint16" 15 0 33) (mkPtok 40 "," 17 0 36)) (TyBasic (mkSpan (mkPtok 21 "uint16" 15 0 33) (mkPtok 21 "uint16" 15 0 33)) (mkBasicType (mkSpan (mkPtok 21 "uint16" 15 0 33) (mkPtok 21 "uint16" 15 0 33)) (mkPtok 21 "uint16" 15 0 33))) (mkPtok 42 "falsey" 16 0 34) (Some (mkPtok 43 (string_of_bytes [96; 195; 169; 96]%N) 16 8 35)) (mkPtok 40 "," 17 0 36)))); (mkFieldWithAttr (mkSpan (mkPtok 26 "i32" 17 2 37) (mkPtok 40 "," 17 10 39)) [] (MetaField (mkSpan (mkPtok 26 "i32" 17 2 37) (mkPtok 40 "," 17 10 39)) None (mkMetaDecl (mkSpan (mkPtok 26 "i32" 17 2 37) (mkPtok 40 "," 17 10 39)) (TyBasic (mkSpan (mkPtok 26 "i32" 17 2 37) (mkPtok 26 "i32" 17 2 37)) (mkBasicType (mkSpan (mkPtok 26 "i32" 17 2 37) (mkPtok 26 "i32" 17 2 37)) (mkPtok 26 "i32" 17 2 37))) (mkPtok 42 "Foo" 17 6 38) None (mkPtok 40 "," 17 10 39)))); (mkFieldWithAttr (mkSpan (mkPtok 9 "@tag(" 17 12 40) (mkPtok 40 "," 18 29 48)) [(FATag (mkSpan (mkPtok 9 "@tag(" 17 12 40) (mkPtok 6 ")" 17 19 42)) (mkTagAttr (mkSpan (mkPtok 9 "@tag(" 17 12 40) (mkPtok 6 ")" 17 19 42)) (mkPtok 9 "@tag(" 17 12 40) (mkPtok 30 "7" 17 17 41) (mkPtok 6 ")" 17 19 42)))] (LengthField (mkSpan (mkPtok 23 "u64" 17 21 43) (mkPtok 40 "," 18 29 48)) (mkLengthFieldDecl (mkSpan (mkPtok 23 "u64" 17 21 43) (mkPtok 40 "," 18 29 48)) (Some (TyBasic (mkSpan (mkPtok 23 "u64" 17 21 43) (mkPtok 23 "u64" 17 21 43)) (mkBasicType (mkSpan (mkPtok 23 "u64" 17 21 43) (mkPtok 23 "u64" 17 21 43)) (mkPtok 23 "u64" 17 21 43)))) (mkPtok 42 "chars" 18 0 44) (mkLengthOf (mkSpan (mkPtok 7 "@lengthOf(" 18 5 45) (mkPtok 6 ")" 18 28 47)) (mkPtok 7 "@lengthOf(" 18 5 45) (mkPtok 42 "BodyLength" 18 17 46) (mkPtok 6 ")" 18 28 47)) None (mkPtok 40 "," 18 29 48)))); (mkFieldWithAttr (mkSpan (mkPtok 25 "i16" 18 31 49) (mkPtok 40 "," 20 5 55)) [] (LengthField (mkSpan (mkPtok 25 "i16" 18 31 49) (mkPtok 40 "," 20 5 55)) (mkLengthFieldDecl (mkSpan (mkPtok 25 "i16" 18 31 49) (mkPtok 40 "," 20 5 55)) (Some (TyBasic (mkSpan (mkPtok 25 "i16" 18 31 49) (mkPtok 25 "i16" 18 31 49)) (mkBasicType (mkSpan (mkPtok 25 "i16" 18 31 49) (mkPtok 25 "i16" 18 31 49)) (mkPtok 25 "i16" 18 31 49)))) (mkPtok 42 "Z9_" 19 4 50) (mkLengthOf (mkSpan (mkPtok 7 "@lengthOf(" 19 7 51) (mkPtok 6 ")" 20 3 54)) (mkPtok 7 "@lengthOf(" 19 7 51) (mkPtok 42 "a1" 20 0 53) (mkPtok 6 ")" 20 3 54)) None (mkPtok 40 "," 20 5 55)))); (mkFieldWithAttr (mkSpan (mkPtok 7 "@lengthOf(" 20 6 56) (mkPtok 40 "," 20 43 62)) [(FALengthOf (mkSpan (mkPtok 7 "@lengthOf(" 20 6 56) (mkPtok 6 ")" 20 24 58)) (mkLengthOf (mkSpan (mkPtok 7 "@lengthOf(" 20 6 56) (mkPtok 6 ")" 20 24 58)) (mkPtok 7 "@lengthOf(" 20 6 56) (mkPtok 42 "leftPad" 20 16 57) (mkPtok 6 ")" 20 24 58)))] (ObjectField (mkSpan (mkPtok 42 "lengthOf" 20 26 59) (mkPtok 40 "," 20 43 62)) None (mkPtok 42 "lengthOf" 20 26 59) (Some (mkPtok 42 "body" 20 35 60)) (Some (mkPtok 43 "``" 20 40 61)) (mkPtok 40 "," 20 43 62))); (mkFieldWithAttr (mkSpan (mkPtok 9 "@tag(" 20 45 63) (mkPtok 40 "," 30 2 77)) [(FATag (mkSpan (mkPtok 9 "@tag(" 20 45 63) (mkPtok 6 ")" 21 8 65)) (mkTagAttr (mkSpan (mkPtok 9 "@tag(" 20 45 63) (mkPtok 6 ")" 21 8 65)) (mkPtok 9 "@tag(" 20 45 63) (mkPtok 30 "007" 21 4 64) (mkPtok 6 ")" 21 8 65)))] (LengthField (mkSpan (mkPtok 12 "char[" 22 0 66) (mkPtok 40 "," 30 2 77)) (mkLengthFieldDecl (mkSpan (mkPtok 12 "char[" 22 0 66) (mkPtok 40 "," 30 2 77)) (Some (TyFixed (mkSpan (mkPtok 12 "char[" 22 0 66) (mkPtok 13 "]" 24 0 69)) (mkFixedString (mkSpan (mkPtok 12 "char[" 22 0 66) (mkPtok 13 "]" 24 0 69)) (mkPtok 12 "char[" 22 0 66) (mkPtok 30 "10" 23 4 67) (mkPtok 13 "]" 24 0 69)))) (mkPtok 42 "_x" 25 0 70) (mkLengthOf (mkSpan (mkPtok 7 "@lengthOf(" 28 0 73) (mkPtok 6 ")" 29 10 75)) (mkPtok 7 "@lengthOf(" 28 0 73) (mkPtok 42 "roots" 29 4 74) (mkPtok 6 ")" 29 10 75)) (Some (mkPtok 43 (string_of_bytes [96; 10; 96]%N) 29 12 76)) (mkPtok 40 "," 30 2 77)))); (mkFieldWithAttr (mkSpan (mkPtok 5 "@calculatedFrom(" 31 0 79) (mkPtok 40 "," 33 11 86)) [(FACalculatedFrom (mkSpan (mkPtok 5 "@calculatedFrom(" 31 0 79) (mkPtok 6 ")" 31 22 81)) (mkCalculatedFrom (mkSpan (mkPtok 5 "@calculatedFrom(" 31 0 79) (mkPtok 6 ")" 31 22 81)) (mkPtok 5 "@calculatedFrom(" 31 0 79) (mkPtok 31 """a\\""" 31 16 80) (mkPtok 6 ")" 31 22 81)))] (MetaField (mkSpan (mkPtok 29 "float64" 32 4 82) (mkPtok 40 "," 33 11 86)) None (mkMetaDecl (mkSpan (mkPtok 29 "float64" 32 4 82) (mkPtok 40 "," 33 11 86)) (TyBasic (mkSpan (mkPtok 29 "float64" 32 4 82) (mkPtok 29 "float64" 32 4 82)) (mkBasicType (mkSpan (mkPtok 29 "float64" 32 4 82) (mkPtok 29 "float64" 32 4 82)) (mkPtok 29 "float64" 32 4 82))) (mkPtok 42 "rootA" 33 0 84) (Some (mkPtok 43 "`doc`" 33 5 85)) (mkPtok 40 "," 33 11 86)))); (mkFieldWithAttr (mkSpan (mkPtok 15 "string" 33 13 87) (mkPtok 40 "," 33 44 92)) [] (CheckSumField (mkSpan (mkPtok 15 "string" 33 13 87) (mkPtok 40 "," 33 44 92)) (mkChecksumFieldDecl (mkSpan (mkPtok 15 "string" 33 13 87) (mkPtok 40 "," 33 44 92)) (Some (TyDynamic (mkSpan (mkPtok 15 "string" 33 13 87) (mkPtok 15 "string" 33 13 87)) (mkDynamicString (mkSpan (mkPtok 15 "string" 33 13 87) (mkPtok 15 "string" 33 13 87)) (mkPtok 15 "string" 33 13 87)))) (mkPtok 42 "T" 33 20 88) (mkCalculatedFrom (mkSpan (mkPtok 5 "@calculatedFrom(" 33 22 89) (mkPtok 6 ")" 33 42 91)) (mkPtok 5 "@calculatedFrom(" 33 22 89) (mkPtok 31 """""" 33 39 90) (mkPtok 6 ")" 33 42 91)) None (mkPtok 40 "," 33 44 92))))] (mkPtok 3 "}" 33 46 93)))])).
Eval vm_compute in ("<<<M45>>>" ++ check (runes_of_ascii "packet rootA { @rightPad( ' ') repeat
    Z9_ roots
``,	zchar
tag `two words` , @rightPad ( ' '
    )
len {
// trailing space 
//x
u128
`doc` ,u8x
    ,  char[ 0123456789 // a // b
]calculatedFrom  `" ++ [28040; 24687; 31867; 22411]%N ++ runes_of_ascii "`,msg_type
@lengthOf(
falsey)`u8 x,` , } ,
@calculatedFrom( """"	)	f64 charz
@lengthOf(msg_type) `it's`// trailing space 
,
    }
")).
Eval vm_compute in ("<<<M77>>>" ++ check (runes_of_ascii "MetaData calculatedFrom { // @lengthOf(
tag a1
, uint8 _x`crlf
line`,
// " ++ [27880; 37322]%N ++ runes_of_ascii "
// packet A { u8 x, }
string
    Z9_ ,uint8x A`line1
line2` ,char falsey , packetx Foo
,  }
MetaData body {
string x_y_z``
    , falsey zchar `line1
line2` , } options{ }
")).
Eval vm_compute in ("<<<M109>>>" ++ check (runes_of_ascii "packet
uint8x {match Pad as// " ++ [128512]%N ++ runes_of_ascii " emoji
repeatCount{ [0 ] :
lengthOf ,[""// no comment"" ] :
metadata ,} , metadata
// trailing space 
//
, zchar[/// triple
1
] trueish//	t
, @calculatedFrom(""a\""b"" ) match//x
roots as f32a { 4294967296
: i64_ , ""it's""
: a1 , [
    // trailing space 
    00	,
    0123456789 ] : As ,
255 : Packet , ""{,}"" :
T/// triple
0
    :
falsey } ,
    body @calculatedFrom( ""\n""
    // trailing space 
    ) , @calculatedFrom( """ ++ [128512]%N ++ runes_of_ascii """ )	@tag(
10 ) char[ 10 ]
    trueish `doc` ,	@tag( 255 ) repeat
    Z9_ { asx chars`// not a comment` , } , @lengthOf(Packet ) u16
    crc , }
    // `tick` ""quote"" 'q'
    options
{ BodyLength =
    i32 ; x// " ++ [128512]%N ++ runes_of_ascii " emoji
=
255
    ; u= 3 } options
{ }
packet
    calculatedFrom {	}
    //x
    root
packet Header {
    Pad {
repeatCount ,  uint16 zchar , match msg_type
as
pack
    /// triple
    {	""abc"" : repeatCount , ""{,}"" : repeatCount""a	b""	: calculatedFrom},
repeat string
Logon `a\` , }
,@lengthOf( x_y_z
    ) match
tag as repeatCount { 007 :  BodyLength , [
    //	t
    """ ++ [28040; 24687]%N ++ runes_of_ascii """ ] :
BodyLength 42: string_ ""// no comment""
// trailing space 
/// triple
: //
Z9_ , 4294967296:
    // " ++ [128512]%N ++ runes_of_ascii " emoji
    _x
    } , f64 u `it's` , zchar[ 00] f32a `doc` ,match
    i64_
    as Logon
    { 4294967296// a // b
:
metadata ,
}
, char[1 ]Pad
, zchar[  0123456789 ] float // @lengthOf(
`` , }

")).
Eval vm_compute in ("<<<M141>>>" ++ check (runes_of_ascii "MetaData pack { f64 A `{ , }` ,}

")).
Eval vm_compute in ("<<<M173>>>" ++ check (runes_of_ascii "packet A {
@lengthOf(
    lengthOf)int16 packetx // trailing space 
@calculatedFrom(""1"" )
    , repeat u64 Packet`
` , match trueish as /// triple
roots { 3
: A ,""x y""
// " ++ [27880; 37322]%N ++ runes_of_ascii "
//
:
BodyLength
    //
    ,
    42:Foo  , },
} packet As	{
    msg_type @lengthOf(
    /// triple
    u )
    , }root packet
    zchar
    {i8i8 i8i8
`
` ,zchar
    {int8	Foo
`a\`  , },
    f32 pack @lengthOf(
crc
// packet A { u8 x, }
// c
) , @calculatedFrom( ""{,}""	) // " ++ [27880; 37322]%N ++ runes_of_ascii "
match crc as
roots { 65535 : int ""packet""
:  float ,00 : zchar
// packet A { u8 x, }
// `tick` ""quote"" 'q'
, [ ""x y""] :
options1, ""it's""
:x, } , @lengthOf(
Packet)
    match x
    //	t
    as As{ //	t
0: lengthOf
,
    //	t
    3 : pack , ""it's""  : x_y_z ,
""a\""b"" : metadata
} , uint16
    i8i8, } // a // b")).
Eval vm_compute in ("<<<M205>>>" ++ check (runes_of_ascii "MetaData
    //x
    body
    // a // b
    { BodyLength stringy ,
    //	t
    zchar[ 42 ] o
    ,
i64_ lengthOf `{ , }` ,u8 MetaDataX  , }")).
Eval vm_compute in ("<<<M237>>>" ++ check (runes_of_ascii "
packet
Z9_  { } packet T
{
repeat
    charz {match float as // " ++ [128512]%N ++ runes_of_ascii " emoji
stringy {00 : f32a [ 00
    //x
    , 00 ,""a\\""
// packet A { u8 x, }
// a // b
, 0 ,	7, 0 ] : As , } ,//	t
uint32 asx ,
//
/// triple
repeat u8x {
    repeat
//x
//
u8 string_ ,
} , } , }
")).
Eval vm_compute in ("<<<T237>>>" ++ terms [mkTok 35 "packet" 2 0 false; mkTok 42 "Z9_" 3 0 false; mkTok 2 "{" 3 5 false; mkTok 3 "}" 3 7 false; mkTok 35 "packet" 3 9 false; mkTok 42 "T" 3 16 false; mkTok 2 "{" 4 0 false; mkTok 36 "repeat" 5 0 false; mkTok 42 "charz" 6 4 false; mkTok 2 "{" 6 10 false; mkTok 38 "match" 6 11 false; mkTok 42 "float" 6 17 false; mkTok 17 "as" 6 23 false; mkTok 44 (string_of_bytes [47; 47; 32; 240; 159; 152; 128; 32; 101; 109; 111; 106; 105]%N) 6 26 true; mkTok 42 "stringy" 7 0 false; mkTok 2 "{" 7 8 false; mkTok 30 "00" 7 9 false; mkTok 39 ":" 7 12 false; mkTok 42 "f32a" 7 14 false; mkTok 18 "[" 7 19 false; mkTok 30 "00" 7 21 false; mkTok 44 "//x" 8 4 true; mkTok 40 "," 9 4 false; mkTok 30 "00" 9 6 false; mkTok 40 "," 9 9 false; mkTok 31 """a\\""" 9 10 false; mkTok 44 "// packet A { u8 x, }" 10 0 true; mkTok 44 "// a // b" 11 0 true; mkTok 40 "," 12 0 false; mkTok 30 "0" 12 2 false; mkTok 40 "," 12 4 false; mkTok 30 "7" 12 6 false; mkTok 40 "," 12 7 false; mkTok 30 "0" 12 9 false; mkTok 13 "]" 12 11 false; mkTok 39 ":" 12 13 false; mkTok 42 "As" 12 15 false; mkTok 40 "," 12 18 false; mkTok 3 "}" 12 20 false; mkTok 40 "," 12 22 false; mkTok 44 (string_of_bytes [47; 47; 9; 116]%N) 12 23 true; mkTok 22 "uint32" 13 0 false; mkTok 42 "asx" 13 7 false; mkTok 40 "," 13 11 false; mkTok 44 "//" 14 0 true; mkTok 44 "/// triple" 15 0 true; mkTok 36 "repeat" 16 0 false; mkTok 42 "u8x" 16 7 false; mkTok 2 "{" 16 11 false; mkTok 36 "repeat" 17 4 false; mkTok 44 "//x" 18 0 true; mkTok 44 "//" 19 0 true; mkTok 20 "u8" 20 0 false; mkTok 42 "string_" 20 3 false; mkTok 40 "," 20 11 false; mkTok 3 "}" 21 0 false; mkTok 40 "," 21 2 false; mkTok 3 "}" 21 4 false; mkTok 40 "," 21 6 false; mkTok 3 "}" 21 8 false; mkTok 0 "<EOF>" 22 0 false] (mkPacket (mkPtok 35 "packet" 2 0 0) (Some (mkPtok 3 "}" 21 8 59)) [(DPacket (mkPacketDef (mkSpan (mkPtok 35 "packet" 2 0 0) (mkPtok 3 "}" 3 7 3)) None (mkPtok 35 "packet" 2 0 0) (mkPtok 42 "Z9_" 3 0 1) (mkPtok 2 "{" 3 5 2) [] (mkPtok 3 "}" 3 7 3))); (DPacket (mkPacketDef (mkSpan (mkPtok 35 "packet" 3 9 4) (mkPtok 3 "}" 21 8 59)) None (mkPtok 35 "packet" 3 9 4) (mkPtok 42 "T" 3 16 5) (mkPtok 2 "{" 4 0 6) [(mkFieldWithAttr (mkSpan (mkPtok 36 "repeat" 5 0 7) (mkPtok 40 "," 21 6 58)) [] (InerObjectField (mkSpan (mkPtok 36 "repeat" 5 0 7) (mkPtok 40 "," 21 6 58)) (Some (mkPtok 36 "repeat" 5 0 7)) (InerObjectDecl (mkSpan (mkPtok 42 "charz" 6 4 8) (mkPtok 3 "}" 21 4 57)) (mkPtok 42 "charz" 6 4 8) (mkPtok 2 "{" 6 10 9) [(MatchField (mkSpan (mkPtok 38 "match" 6 11 10) (mkPtok 40 "," 12 22 39)) (mkMatchFieldDecl (mkSpan (mkPtok 38 "match" 6 11 10) (mkPtok 3 "}" 12 20 38)) (mkPtok 38 "match" 6 11 10) (mkPtok 42 "float" 6 17 11) (mkPtok 17 "as" 6 23 12) (mkPtok 42 "stringy" 7 0 14) (mkPtok 2 "{" 7 8 15) [(mkMatchPair (mkSpan (mkPtok 30 "00" 7 9 16) (mkPtok 42 "f32a" 7 14 18)) (MKDigits (mkPtok 30 "00" 7 9 16)) (mkPtok 39 ":" 7 12 17) (mkPtok 42 "f32a" 7 14 18) None); (mkMatchPair (mkSpan (mkPtok 18 "[" 7 19 19) (mkPtok 40 "," 12 18 37)) (MKList (mkKeyList (mkSpan (mkPtok 18 "[" 7 19 19) (mkPtok 13 "]" 12 11 34)) (mkPtok 18 "[" 7 19 19) (mkPtok 30 "00" 7 21 20) [((mkPtok 40 "," 9 4 22), (mkPtok 30 "00" 9 6 23)); ((mkPtok 40 "," 9 9 24), (mkPtok 31 """a\\""" 9 10 25)); ((mkPtok 40 "," 12 0 28), (mkPtok 30 "0" 12 2 29)); ((mkPtok 40 "," 12 4 30), (mkPtok 30 "7" 12 6 31)); ((mkPtok 40 "," 12 7 32), (mkPtok 30 "0" 12 9 33))] (mkPtok 13 "]" 12 11 34))) (mkPtok 39 ":" 12 13 35) (mkPtok 42 "As" 12 15 36) (Some (mkPtok 40 "," 12 18 37)))] (mkPtok 3 "}" 12 20 38)) (mkPtok 40 "," 12 22 39)); (MetaField (mkSpan (mkPtok 22 "uint32" 13 0 41) (mkPtok 40 "," 13 11 43)) None (mkMetaDecl (mkSpan (mkPtok 22 "uint32" 13 0 41) (mkPtok 40 "," 13 11 43)) (TyBasic (mkSpan (mkPtok 22 "uint32" 13 0 41) (mkPtok 22 "uint32" 13 0 41)) (mkBasicType (mkSpan (mkPtok 22 "uint32" 13 0 41) (mkPtok 22 "uint32" 13 0 41)) (mkPtok 22 "uint32" 13 0 41))) (mkPtok 42 "asx" 13 7 42) None (mkPtok 40 "," 13 11 43))); (InerObjectField (mkSpan (mkPtok 36 "repeat" 16 0 46) (mkPtok 40 "," 21 2 56)) (Some (mkPtok 36 "repeat" 16 0 46)) (InerObjectDecl (mkSpan (mkPtok 42 "u8x" 16 7 47) (mkPtok 3 "}" 21 0 55)) (mkPtok 42 "u8x" 16 7 47) (mkPtok 2 "{" 16 11 48) [(MetaField (mkSpan (mkPtok 36 "repeat" 17 4 49) (mkPtok 40 "," 20 11 54)) (Some (mkPtok 36 "repeat" 17 4 49)) (mkMetaDecl (mkSpan (mkPtok 20 "u8" 20 0 52) (mkPtok 40 "," 20 11 54)) (TyBasic (mkSpan (mkPtok 20 "u8" 20 0 52) (mkPtok 20 "u8" 20 0 52)) (mkBasicType (mkSpan (mkPtok 20 "u8" 20 0 52) (mkPtok 20 "u8" 20 0 52)) (mkPtok 20 "u8" 20 0 52))) (mkPtok 42 "string_" 20 3 53) None (mkPtok 40 "," 20 11 54)))] (mkPtok 3 "}" 21 0 55)) (mkPtok 40 "," 21 2 56))] (mkPtok 3 "}" 21 4 57)) (mkPtok 40 "," 21 6 58)))] (mkPtok 3 "}" 21 8 59)))])).
Eval vm_compute in ("<<<M269>>>" ++ check (runes_of_ascii "

")).
Eval vm_compute in ("<<<M301>>>" ++ check (runes_of_ascii "
root packet	Foo {
Packet
{
u32 chars `{ , }`
// a // b
// " ++ [128512]%N ++ runes_of_ascii " emoji
, zchar[ // " ++ [27880; 37322]%N ++ runes_of_ascii "
255 ] Foo
    , } , f32a @lengthOf( MetaDataX ) `doc` , As`say ""hi""`
,  char[] crc @calculatedFrom( """ ++ [28040; 24687]%N ++ runes_of_ascii """
)`say ""hi""` ,	int32 T//x
`// not a comment` , @lengthOf( x )
    //
    pack
{  match
i8i8 as trueish
    { ""x y"" : BodyLength, [
// `tick` ""quote"" 'q'
// packet A { u8 x, }
""\n""
    ,007,
    ""// no comment"" ,
//x
// " ++ [128512]%N ++ runes_of_ascii " emoji
42
,
""1"" , 65535// " ++ [128512]%N ++ runes_of_ascii " emoji
,10 ] :
    a1 ,[ ""{,}""
]
: metadata
, ""a	b"" : As , }	,
} ,
match f32a	as
    A
    {""abc"": rootA
    4294967296 : /// triple
Z9_
    // c
    , [
007 , ""a\""b""	, 00
    , 42 ,
1	,0123456789 ,""x y""
] : Foo , }, char[ 7 ] i64_
    `it's` , @lengthOf( pack ) repeat As , } MetaData
charz	{ u64 asx, } packet x { }MetaData MetaDataX{A a1
    // " ++ [128512]%N ++ runes_of_ascii " emoji
    , char[]	x`a\` ,uint16 leftPad , }options
{
a1 =
    42
; BodyLength	= true
;
x_y_z =int16 } 	 ")).
Eval vm_compute in ("<<<M333>>>" ++ check (runes_of_ascii "
MetaData roots {
As  asx , char[1 ] roots
,
    // c
    char[
    007]
    matchKey ,/// triple
zchar[ 1	] len ,x_y_z
// trailing space 
/// triple
u128 , }")).
Eval vm_compute in ("<<<M365>>>" ++ check (runes_of_ascii "packet  f32a { }packet
metadata
{
@calculatedFrom(
""\" ++ [233]%N ++ runes_of_ascii """
) repeat _x { string
    // a // b
    falsey , } ,
@calculatedFrom( ""it's"" ) As leftPad `a\`
,	@calculatedFrom( ""abc""
) char[ //	t
0 ]roots	,  @tag(
    00 )match Pad as	roots
{ 10 :x_y_z , 00 :  len [ ""// no comment""	]// a // b
:  T }
    , a1 Header `" ++ [233]%N ++ runes_of_ascii "`
, // " ++ [27880; 37322]%N ++ runes_of_ascii "
}")).
Eval vm_compute in ("<<<M397>>>" ++ check (runes_of_ascii "options { x =3
    matchKey= ""a\""b"" // @lengthOf(
leftPad	= ""packet"" ; T = zchar[ 65535 ]; } MetaData
    MetaDataX {} MetaData // " ++ [128512]%N ++ runes_of_ascii " emoji
repeatCount {u8x Pad	, }
    packet
T{ @tag( 42  ) repeat MetaDataX `{ , }`
    // a // b
    , // @lengthOf(
float32 x@lengthOf( u8x  )
`
`
    ,int16 matchKey @calculatedFrom( ""\n""	) `two words` , }packet packetx
{_x
@calculatedFrom( ""a\""b""
)`a\`	,
} // a // b")).
Eval vm_compute in ("<<<M429>>>" ++ check (runes_of_ascii "MetaData
    Header { A float , } MetaData Pad { // trailing space 
string float `a\` ,
char[] tag
    ,
    // packet A { u8 x, }
    matchKey BodyLength ,char[ 65535 ] Header
, }")).
Eval vm_compute in ("<<<M461>>>" ++ check (runes_of_ascii "  packet u { repeat Packet
    `
` , string	x @calculatedFrom( ""x y"" )
`say ""hi""` , @tag( 42) repeat
stringy
, match len	as
    /// triple
    u {
[7 ,""it's""// " ++ [27880; 37322]%N ++ runes_of_ascii "
, 10 ,""a\\"" , 0, ""1""
] :float ,
    ""a	b""
: Foo , }
// `tick` ""quote"" 'q'
// c
, float ,repeat calculatedFrom
{ uint64
    body
,
    char[] uint8x
, int32 len ,f32a
@calculatedFrom( """ ++ [28040; 24687]%N ++ runes_of_ascii """
)
, }	, @leftPad ( /// triple
'\x00'
    )
    string
    body , match// " ++ [128512]%N ++ runes_of_ascii " emoji
msg_type as
    As	{	[ """ ++ [128512]%N ++ runes_of_ascii """ ,
    // packet A { u8 x, }
    ""abc""
// @lengthOf(
/// triple
]
    : msg_type // @lengthOf(
, [0123456789
    // trailing space 
    ,  10 ]:
A, ""1"": Foo , 7:
    string_ ,	""`tick`"" :	string_ 007	: int, }
,
}
    packet BodyLength
    {// trailing space 
match crc as Pad// `tick` ""quote"" 'q'
{
    [0123456789 , ""\n"" , ""x y"" ,
""\n"" , 7
    , ""1"" ] : // @lengthOf(
u8x
, [ 00
, ""abc"", """ ++ [128512]%N ++ runes_of_ascii """, ""a\\"" ,65535 ]:// " ++ [128512]%N ++ runes_of_ascii " emoji
pack ,	},
    @tag( 0 ) leftPad { char[]
    options1 @lengthOf(	asx
// a // b
// " ++ [128512]%N ++ runes_of_ascii " emoji
) ,char[ 0
] /// triple
As `crlf
line` ,	i64  crc ,
}
,
float64 asx , @leftPad ( // `tick` ""quote"" 'q'
' ' ) T@calculatedFrom( ""abc""),  }packet As {
    // " ++ [27880; 37322]%N ++ runes_of_ascii "
    string i64_ @calculatedFrom( ""\n"")
    ,@lengthOf( i8i8 )  @lengthOf( asx ) @rightPad('0'/// triple
)repeat uint64	MetaDataX,tag zchar /// triple
, @calculatedFrom( ""// no comment"") char[]u @calculatedFrom(// packet A { u8 x, }
""a\\""
// " ++ [27880; 37322]%N ++ runes_of_ascii "
//x
) `u8 x,`	, // trailing space 
@calculatedFrom(""" ++ [233]%N ++ runes_of_ascii "t" ++ [233]%N ++ runes_of_ascii """ ) // @lengthOf(
char[//
10 ]
repeatCount `
` , } packet f32a {
    Header  o ,
    } packet chars { @rightPad( '0' ) match
u128  as u8x {3 : i8i8
// `tick` ""quote"" 'q'
//	t
,
    255: charz [ 4294967296 , ""x y"",""" ++ [233]%N ++ runes_of_ascii "t" ++ [233]%N ++ runes_of_ascii """ ,
    ""{,}"" ]	:
x	,
    65535 : len }
, @lengthOf( u8x // " ++ [128512]%N ++ runes_of_ascii " emoji
)i16 Foo@lengthOf(  u8x // packet A { u8 x, }
),
@lengthOf( _x)@leftPad ( ' ' )
char[
    // `tick` ""quote"" 'q'
    255  ]
tag
    @calculatedFrom( ""it's"" )
// trailing space 
//
, @calculatedFrom("""" ) float32 i64_ `line1
line2` , repeat string
    roots,string // trailing space 
float, @lengthOf( Header ) @tag( 007
    ) @calculatedFrom( ""abc"" ) match
zchar  as
u8x { ""a	b"" : charz , 0 :	len ,
} ,zchar[ 00]MetaDataX
    @calculatedFrom(
    // c
    ""a\""b""
) `two words` ,} // `tick` ""quote"" 'q'")).
Eval vm_compute in ("<<<T461>>>" ++ terms [mkTok 35 "packet" 1 2 false; mkTok 42 "u" 1 9 false; mkTok 2 "{" 1 11 false; mkTok 36 "repeat" 1 13 false; mkTok 42 "Packet" 1 20 false; mkTok 43 (string_of_bytes [96; 10; 96]%N) 2 4 false; mkTok 40 "," 3 2 false; mkTok 15 "string" 3 4 false; mkTok 42 "x" 3 11 false; mkTok 5 "@calculatedFrom(" 3 13 false; mkTok 31 """x y""" 3 30 false; mkTok 6 ")" 3 36 false; mkTok 43 "`say ""hi""`" 4 0 false; mkTok 40 "," 4 11 false; mkTok 9 "@tag(" 4 13 false; mkTok 30 "42" 4 19 false; mkTok 6 ")" 4 21 false; mkTok 36 "repeat" 4 23 false; mkTok 42 "stringy" 5 0 false; mkTok 40 "," 6 0 false; mkTok 38 "match" 6 2 false; mkTok 42 "len" 6 8 false; mkTok 17 "as" 6 12 false; mkTok 44 "/// triple" 7 4 true; mkTok 42 "u" 8 4 false; mkTok 2 "{" 8 6 false; mkTok 18 "[" 9 0 false; mkTok 30 "7" 9 1 false; mkTok 40 "," 9 3 false; mkTok 31 """it's""" 9 4 false; mkTok 44 (string_of_bytes [47; 47; 32; 230; 179; 168; 233; 135; 138]%N) 9 10 true; mkTok 40 "," 10 0 false; mkTok 30 "10" 10 2 false; mkTok 40 "," 10 5 false; mkTok 31 """a\\""" 10 6 false; mkTok 40 "," 10 12 false; mkTok 30 "0" 10 14 false; mkTok 40 "," 10 15 false; mkTok 31 """1""" 10 17 false; mkTok 13 "]" 11 0 false; mkTok 39 ":" 11 2 false; mkTok 42 "float" 11 3 false; mkTok 40 "," 11 9 false; mkTok 31 (string_of_bytes [34; 97; 9; 98; 34]%N) 12 4 false; mkTok 39 ":" 13 0 false; mkTok 42 "Foo" 13 2 false; mkTok 40 "," 13 6 false; mkTok 3 "}" 13 8 false; mkTok 44 "// `tick` ""quote"" 'q'" 14 0 true; mkTok 44 "// c" 15 0 true; mkTok 40 "," 16 0 false; mkTok 42 "float" 16 2 false; mkTok 40 "," 16 8 false; mkTok 36 "repeat" 16 9 false; mkTok 42 "calculatedFrom" 16 16 false; mkTok 2 "{" 17 0 false; mkTok 23 "uint64" 17 2 false; mkTok 42 "body" 18 4 false; mkTok 40 "," 19 0 false; mkTok 16 "char[]" 20 4 false; mkTok 42 "uint8x" 20 11 false; mkTok 40 "," 21 0 false; mkTok 26 "int32" 21 2 false; mkTok 42 "len" 21 8 false; mkTok 40 "," 21 12 false; mkTok 42 "f32a" 21 13 false; mkTok 5 "@calculatedFrom(" 22 0 false; mkTok 31 (string_of_bytes [34; 230; 182; 136; 230; 129; 175; 34]%N) 22 17 false; mkTok 6 ")" 23 0 false; mkTok 40 "," 24 0 false; mkTok 3 "}" 24 2 false; mkTok 40 "," 24 4 false; mkTok 32 "@leftPad" 24 6 false; mkTok 8 "(" 24 15 false; mkTok 44 "/// triple" 24 17 true; mkTok 33 "'\x00'" 25 0 false; mkTok 6 ")" 26 4 false; mkTok 15 "string" 27 4 false; mkTok 42 "body" 28 4 false; mkTok 40 "," 28 9 false; mkTok 38 "match" 28 11 false; mkTok 44 (string_of_bytes [47; 47; 32; 240; 159; 152; 128; 32; 101; 109; 111; 106; 105]%N) 28 16 true; mkTok 42 "msg_type" 29 0 false; mkTok 17 "as" 29 9 false; mkTok 42 "As" 30 4 false; mkTok 2 "{" 30 7 false; mkTok 18 "[" 30 9 false; mkTok 31 (string_of_bytes [34; 240; 159; 152; 128; 34]%N) 30 11 false; mkTok 40 "," 30 15 false; mkTok 44 "// packet A { u8 x, }" 31 4 true; mkTok 31 """abc""" 32 4 false; mkTok 44 "// @lengthOf(" 33 0 true; mkTok 44 "/// triple" 34 0 true; mkTok 13 "]" 35 0 false; mkTok 39 ":" 36 4 false; mkTok 42 "msg_type" 36 6 false; mkTok 44 "// @lengthOf(" 36 15 true; mkTok 40 "," 37 0 false; mkTok 18 "[" 37 2 false; mkTok 30 "0123456789" 37 3 false; mkTok 44 "// trailing space " 38 4 true; mkTok 40 "," 39 4 false; mkTok 30 "10" 39 7 false; mkTok 13 "]" 39 10 false; mkTok 39 ":" 39 11 false; mkTok 42 "A" 40 0 false; mkTok 40 "," 40 1 false; mkTok 31 """1""" 40 3 false; mkTok 39 ":" 40 6 false; mkTok 42 "Foo" 40 8 false; mkTok 40 "," 40 12 false; mkTok 30 "7" 40 14 false; mkTok 39 ":" 40 15 false; mkTok 42 "string_" 41 4 false; mkTok 40 "," 41 12 false; mkTok 31 """`tick`""" 41 14 false; mkTok 39 ":" 41 23 false; mkTok 42 "string_" 41 25 false; mkTok 30 "007" 41 33 false; mkTok 39 ":" 41 37 false; mkTok 42 "int" 41 39 false; mkTok 40 "," 41 42 false; mkTok 3 "}" 41 44 false; mkTok 40 "," 42 0 false; mkTok 3 "}" 43 0 false; mkTok 35 "packet" 44 4 false; mkTok 42 "BodyLength" 44 11 false; mkTok 2 "{" 45 4 false; mkTok 44 "// trailing space " 45 5 true; mkTok 38 "match" 46 0 false; mkTok 42 "crc" 46 6 false; mkTok 17 "as" 46 10 false; mkTok 42 "Pad" 46 13 false; mkTok 44 "// `tick` ""quote"" 'q'" 46 16 true; mkTok 2 "{" 47 0 false; mkTok 18 "[" 48 4 false; mkTok 30 "0123456789" 48 5 false; mkTok 40 "," 48 16 false; mkTok 31 """\n""" 48 18 false; mkTok 40 "," 48 23 false; mkTok 31 """x y""" 48 25 false; mkTok 40 "," 48 31 false; mkTok 31 """\n""" 49 0 false; mkTok 40 "," 49 5 false; mkTok 30 "7" 49 7 false; mkTok 40 "," 50 4 false; mkTok 31 """1""" 50 6 false; mkTok 13 "]" 50 10 false; mkTok 39 ":" 50 12 false; mkTok 44 "// @lengthOf(" 50 14 true; mkTok 42 "u8x" 51 0 false; mkTok 40 "," 52 0 false; mkTok 18 "[" 52 2 false; mkTok 30 "00" 52 4 false; mkTok 40 "," 53 0 false; mkTok 31 """abc""" 53 2 false; mkTok 40 "," 53 7 false; mkTok 31 (string_of_bytes [34; 240; 159; 152; 128; 34]%N) 53 9 false; mkTok 40 "," 53 12 false; mkTok 31 """a\\""" 53 14 false; mkTok 40 "," 53 20 false; mkTok 30 "65535" 53 21 false; mkTok 13 "]" 53 27 false; mkTok 39 ":" 53 28 false; mkTok 44 (string_of_bytes [47; 47; 32; 240; 159; 152; 128; 32; 101; 109; 111; 106; 105]%N) 53 29 true; mkTok 42 "pack" 54 0 false; mkTok 40 "," 54 5 false; mkTok 3 "}" 54 7 false; mkTok 40 "," 54 8 false; mkTok 9 "@tag(" 55 4 false; mkTok 30 "0" 55 10 false; mkTok 6 ")" 55 12 false; mkTok 42 "leftPad" 55 14 false; mkTok 2 "{" 55 22 false; mkTok 16 "char[]" 55 24 false; mkTok 42 "options1" 56 4 false; mkTok 7 "@lengthOf(" 56 13 false; mkTok 42 "asx" 56 24 false; mkTok 44 "// a // b" 57 0 true; mkTok 44 (string_of_bytes [47; 47; 32; 240; 159; 152; 128; 32; 101; 109; 111; 106; 105]%N) 58 0 true; mkTok 6 ")" 59 0 false; mkTok 40 "," 59 2 false; mkTok 12 "char[" 59 3 false; mkTok 30 "0" 59 9 false; mkTok 13 "]" 60 0 false; mkTok 44 "/// triple" 60 2 true; mkTok 42 "As" 61 0 false; mkTok 43 (string_of_bytes [96; 99; 114; 108; 102; 13; 10; 108; 105; 110; 101; 96]%N) 61 3 false; mkTok 40 "," 62 6 false; mkTok 27 "i64" 62 8 false; mkTok 42 "crc" 62 13 false; mkTok 40 "," 62 17 false; mkTok 3 "}" 63 0 false; mkTok 40 "," 64 0 false; mkTok 29 "float64" 65 0 false; mkTok 42 "asx" 65 8 false; mkTok 40 "," 65 12 false; mkTok 32 "@leftPad" 65 14 false; mkTok 8 "(" 65 23 false; mkTok 44 "// `tick` ""quote"" 'q'" 65 25 true; mkTok 33 "' '" 66 0 false; mkTok 6 ")" 66 4 false; mkTok 42 "T" 66 6 false; mkTok 5 "@calculatedFrom(" 66 7 false; mkTok 31 """abc""" 66 24 false; mkTok 6 ")" 66 29 false; mkTok 40 "," 66 30 false; mkTok 3 "}" 66 33 false; mkTok 35 "packet" 66 34 false; mkTok 42 "As" 66 41 false; mkTok 2 "{" 66 44 false; mkTok 44 (string_of_bytes [47; 47; 32; 230; 179; 168; 233; 135; 138]%N) 67 4 true; mkTok 15 "string" 68 4 false; mkTok 42 "i64_" 68 11 false; mkTok 5 "@calculatedFrom(" 68 16 false; mkTok 31 """\n""" 68 33 false; mkTok 6 ")" 68 37 false; mkTok 40 "," 69 4 false; mkTok 7 "@lengthOf(" 69 5 false; mkTok 42 "i8i8" 69 16 false; mkTok 6 ")" 69 21 false; mkTok 7 "@lengthOf(" 69 24 false; mkTok 42 "asx" 69 35 false; mkTok 6 ")" 69 39 false; mkTok 32 "@rightPad" 69 41 false; mkTok 8 "(" 69 50 false; mkTok 33 "'0'" 69 51 false; mkTok 44 "/// triple" 69 54 true; mkTok 6 ")" 70 0 false; mkTok 36 "repeat" 70 1 false; mkTok 23 "uint64" 70 8 false; mkTok 42 "MetaDataX" 70 15 false; mkTok 40 "," 70 24 false; mkTok 42 "tag" 70 25 false; mkTok 42 "zchar" 70 29 false; mkTok 44 "/// triple" 70 35 true; mkTok 40 "," 71 0 false; mkTok 5 "@calculatedFrom(" 71 2 false; mkTok 31 """// no comment""" 71 19 false; mkTok 6 ")" 71 34 false; mkTok 16 "char[]" 71 36 false; mkTok 42 "u" 71 42 false; mkTok 5 "@calculatedFrom(" 71 44 false; mkTok 44 "// packet A { u8 x, }" 71 60 true; mkTok 31 """a\\""" 72 0 false; mkTok 44 (string_of_bytes [47; 47; 32; 230; 179; 168; 233; 135; 138]%N) 73 0 true; mkTok 44 "//x" 74 0 true; mkTok 6 ")" 75 0 false; mkTok 43 "`u8 x,`" 75 2 false; mkTok 40 "," 75 10 false; mkTok 44 "// trailing space " 75 12 true; mkTok 5 "@calculatedFrom(" 76 0 false; mkTok 31 (string_of_bytes [34; 195; 169; 116; 195; 169; 34]%N) 76 16 false; mkTok 6 ")" 76 22 false; mkTok 44 "// @lengthOf(" 76 24 true; mkTok 12 "char[" 77 0 false; mkTok 44 "//" 77 5 true; mkTok 30 "10" 78 0 false; mkTok 13 "]" 78 3 false; mkTok 42 "repeatCount" 79 0 false; mkTok 43 (string_of_bytes [96; 10; 96]%N) 79 12 false; mkTok 40 "," 80 2 false; mkTok 3 "}" 80 4 false; mkTok 35 "packet" 80 6 false; mkTok 42 "f32a" 80 13 false; mkTok 2 "{" 80 18 false; mkTok 42 "Header" 81 4 false; mkTok 42 "o" 81 12 false; mkTok 40 "," 81 14 false; mkTok 3 "}" 82 4 false; mkTok 35 "packet" 82 6 false; mkTok 42 "chars" 82 13 false; mkTok 2 "{" 82 19 false; mkTok 32 "@rightPad" 82 21 false; mkTok 8 "(" 82 30 false; mkTok 33 "'0'" 82 32 false; mkTok 6 ")" 82 36 false; mkTok 38 "match" 82 38 false; mkTok 42 "u128" 83 0 false; mkTok 17 "as" 83 6 false; mkTok 42 "u8x" 83 9 false; mkTok 2 "{" 83 13 false; mkTok 30 "3" 83 14 false; mkTok 39 ":" 83 16 false; mkTok 42 "i8i8" 83 18 false; mkTok 44 "// `tick` ""quote"" 'q'" 84 0 true; mkTok 44 (string_of_bytes [47; 47; 9; 116]%N) 85 0 true; mkTok 40 "," 86 0 false; mkTok 30 "255" 87 4 false; mkTok 39 ":" 87 7 false; mkTok 42 "charz" 87 9 false; mkTok 18 "[" 87 15 false; mkTok 30 "4294967296" 87 17 false; mkTok 40 "," 87 28 false; mkTok 31 """x y""" 87 30 false; mkTok 40 "," 87 35 false; mkTok 31 (string_of_bytes [34; 195; 169; 116; 195; 169; 34]%N) 87 36 false; mkTok 40 "," 87 42 false; mkTok 31 """{,}""" 88 4 false; mkTok 13 "]" 88 10 false; mkTok 39 ":" 88 12 false; mkTok 42 "x" 89 0 false; mkTok 40 "," 89 2 false; mkTok 30 "65535" 90 4 false; mkTok 39 ":" 90 10 false; mkTok 42 "len" 90 12 false; mkTok 3 "}" 90 16 false; mkTok 40 "," 91 0 false; mkTok 7 "@lengthOf(" 91 2 false; mkTok 42 "u8x" 91 13 false; mkTok 44 (string_of_bytes [47; 47; 32; 240; 159; 152; 128; 32; 101; 109; 111; 106; 105]%N) 91 17 true; mkTok 6 ")" 92 0 false; mkTok 25 "i16" 92 1 false; mkTok 42 "Foo" 92 5 false; mkTok 7 "@lengthOf(" 92 8 false; mkTok 42 "u8x" 92 20 false; mkTok 44 "// packet A { u8 x, }" 92 24 true; mkTok 6 ")" 93 0 false; mkTok 40 "," 93 1 false; mkTok 7 "@lengthOf(" 94 0 false; mkTok 42 "_x" 94 11 false; mkTok 6 ")" 94 13 false; mkTok 32 "@leftPad" 94 14 false; mkTok 8 "(" 94 23 false; mkTok 33 "' '" 94 25 false; mkTok 6 ")" 94 29 false; mkTok 12 "char[" 95 0 false; mkTok 44 "// `tick` ""quote"" 'q'" 96 4 true; mkTok 30 "255" 97 4 false; mkTok 13 "]" 97 9 false; mkTok 42 "tag" 98 0 false; mkTok 5 "@calculatedFrom(" 99 4 false; mkTok 31 """it's""" 99 21 false; mkTok 6 ")" 99 28 false; mkTok 44 "// trailing space " 100 0 true; mkTok 44 "//" 101 0 true; mkTok 40 "," 102 0 false; mkTok 5 "@calculatedFrom(" 102 2 false; mkTok 31 """""" 102 18 false; mkTok 6 ")" 102 21 false; mkTok 28 "float32" 102 23 false; mkTok 42 "i64_" 102 31 false; mkTok 43 (string_of_bytes [96; 108; 105; 110; 101; 49; 10; 108; 105; 110; 101; 50; 96]%N) 102 36 false; mkTok 40 "," 103 7 false; mkTok 36 "repeat" 103 9 false; mkTok 15 "string" 103 16 false; mkTok 42 "roots" 104 4 false; mkTok 40 "," 104 9 false; mkTok 15 "string" 104 10 false; mkTok 44 "// trailing space " 104 17 true; mkTok 42 "float" 105 0 false; mkTok 40 "," 105 5 false; mkTok 7 "@lengthOf(" 105 7 false; mkTok 42 "Header" 105 18 false; mkTok 6 ")" 105 25 false; mkTok 9 "@tag(" 105 27 false; mkTok 30 "007" 105 33 false; mkTok 6 ")" 106 4 false; mkTok 5 "@calculatedFrom(" 106 6 false; mkTok 31 """abc""" 106 23 false; mkTok 6 ")" 106 29 false; mkTok 38 "match" 106 31 false; mkTok 42 "zchar" 107 0 false; mkTok 17 "as" 107 7 false; mkTok 42 "u8x" 108 0 false; mkTok 2 "{" 108 4 false; mkTok 31 (string_of_bytes [34; 97; 9; 98; 34]%N) 108 6 false; mkTok 39 ":" 108 12 false; mkTok 42 "charz" 108 14 false; mkTok 40 "," 108 20 false; mkTok 30 "0" 108 22 false; mkTok 39 ":" 108 24 false; mkTok 42 "len" 108 26 false; mkTok 40 "," 108 30 false; mkTok 3 "}" 109 0 false; mkTok 40 "," 109 2 false; mkTok 14 "zchar[" 109 3 false; mkTok 30 "00" 109 10 false; mkTok 13 "]" 109 12 false; mkTok 42 "MetaDataX" 109 13 false; mkTok 5 "@calculatedFrom(" 110 4 false; mkTok 44 "// c" 111 4 true; mkTok 31 """a\""b""" 112 4 false; mkTok 6 ")" 113 0 false; mkTok 43 "`two words`" 113 2 false; mkTok 40 "," 113 14 false; mkTok 3 "}" 113 15 false; mkTok 44 "// `tick` ""quote"" 'q'" 113 17 true; mkTok 0 "<EOF>" 113 38 false] (mkPacket (mkPtok 35 "packet" 1 2 0) (Some (mkPtok 3 "}" 113 15 386)) [(DPacket (mkPacketDef (mkSpan (mkPtok 35 "packet" 1 2 0) (mkPtok 3 "}" 43 0 124)) None (mkPtok 35 "packet" 1 2 0) (mkPtok 42 "u" 1 9 1) (mkPtok 2 "{" 1 11 2) [(mkFieldWithAttr (mkSpan (mkPtok 36 "repeat" 1 13 3) (mkPtok 40 "," 3 2 6)) [] (ObjectField (mkSpan (mkPtok 36 "repeat" 1 13 3) (mkPtok 40 "," 3 2 6)) (Some (mkPtok 36 "repeat" 1 13 3)) (mkPtok 42 "Packet" 1 20 4) None (Some (mkPtok 43 (string_of_bytes [96; 10; 96]%N) 2 4 5)) (mkPtok 40 "," 3 2 6))); (mkFieldWithAttr (mkSpan (mkPtok 15 "string" 3 4 7) (mkPtok 40 "," 4 11 13)) [] (CheckSumField (mkSpan (mkPtok 15 "string" 3 4 7) (mkPtok 40 "," 4 11 13)) (mkChecksumFieldDecl (mkSpan (mkPtok 15 "string" 3 4 7) (mkPtok 40 "," 4 11 13)) (Some (TyDynamic (mkSpan (mkPtok 15 "string" 3 4 7) (mkPtok 15 "string" 3 4 7)) (mkDynamicString (mkSpan (mkPtok 15 "string" 3 4 7) (mkPtok 15 "string" 3 4 7)) (mkPtok 15 "string" 3 4 7)))) (mkPtok 42 "x" 3 11 8) (mkCalculatedFrom (mkSpan (mkPtok 5 "@calculatedFrom(" 3 13 9) (mkPtok 6 ")" 3 36 11)) (mkPtok 5 "@calculatedFrom(" 3 13 9) (mkPtok 31 """x y""" 3 30 10) (mkPtok 6 ")" 3 36 11)) (Some (mkPtok 43 "`say ""hi""`" 4 0 12)) (mkPtok 40 "," 4 11 13)))); (mkFieldWithAttr (mkSpan (mkPtok 9 "@tag(" 4 13 14) (mkPtok 40 "," 6 0 19)) [(FATag (mkSpan (mkPtok 9 "@tag(" 4 13 14) (mkPtok 6 ")" 4 21 16)) (mkTagAttr (mkSpan (mkPtok 9 "@tag(" 4 13 14) (mkPtok 6 ")" 4 21 16)) (mkPtok 9 "@tag(" 4 13 14) (mkPtok 30 "42" 4 19 15) (mkPtok 6 ")" 4 21 16)))] (ObjectField (mkSpan (mkPtok 36 "repeat" 4 23 17) (mkPtok 40 "," 6 0 19)) (Some (mkPtok 36 "repeat" 4 23 17)) (mkPtok 42 "stringy" 5 0 18) None None (mkPtok 40 "," 6 0 19))); (mkFieldWithAttr (mkSpan (mkPtok 38 "match" 6 2 20) (mkPtok 40 "," 16 0 50)) [] (MatchField (mkSpan (mkPtok 38 "match" 6 2 20) (mkPtok 40 "," 16 0 50)) (mkMatchFieldDecl (mkSpan (mkPtok 38 "match" 6 2 20) (mkPtok 3 "}" 13 8 47)) (mkPtok 38 "match" 6 2 20) (mkPtok 42 "len" 6 8 21) (mkPtok 17 "as" 6 12 22) (mkPtok 42 "u" 8 4 24) (mkPtok 2 "{" 8 6 25) [(mkMatchPair (mkSpan (mkPtok 18 "[" 9 0 26) (mkPtok 40 "," 11 9 42)) (MKList (mkKeyList (mkSpan (mkPtok 18 "[" 9 0 26) (mkPtok 13 "]" 11 0 39)) (mkPtok 18 "[" 9 0 26) (mkPtok 30 "7" 9 1 27) [((mkPtok 40 "," 9 3 28), (mkPtok 31 """it's""" 9 4 29)); ((mkPtok 40 "," 10 0 31), (mkPtok 30 "10" 10 2 32)); ((mkPtok 40 "," 10 5 33), (mkPtok 31 """a\\""" 10 6 34)); ((mkPtok 40 "," 10 12 35), (mkPtok 30 "0" 10 14 36)); ((mkPtok 40 "," 10 15 37), (mkPtok 31 """1""" 10 17 38))] (mkPtok 13 "]" 11 0 39))) (mkPtok 39 ":" 11 2 40) (mkPtok 42 "float" 11 3 41) (Some (mkPtok 40 "," 11 9 42))); (mkMatchPair (mkSpan (mkPtok 31 (string_of_bytes [34; 97; 9; 98; 34]%N) 12 4 43) (mkPtok 40 "," 13 6 46)) (MKString (mkPtok 31 (string_of_bytes [34; 97; 9; 98; 34]%N) 12 4 43)) (mkPtok 39 ":" 13 0 44) (mkPtok 42 "Foo" 13 2 45) (Some (mkPtok 40 "," 13 6 46)))] (mkPtok 3 "}" 13 8 47)) (mkPtok 40 "," 16 0 50))); (mkFieldWithAttr (mkSpan (mkPtok 42 "float" 16 2 51) (mkPtok 40 "," 16 8 52)) [] (ObjectField (mkSpan (mkPtok 42 "float" 16 2 51) (mkPtok 40 "," 16 8 52)) None (mkPtok 42 "float" 16 2 51) None None (mkPtok 40 "," 16 8 52))); (mkFieldWithAttr (mkSpan (mkPtok 36 "repeat" 16 9 53) (mkPtok 40 "," 24 4 71)) [] (InerObjectField (mkSpan (mkPtok 36 "repeat" 16 9 53) (mkPtok 40 "," 24 4 71)) (Some (mkPtok 36 "repeat" 16 9 53)) (InerObjectDecl (mkSpan (mkPtok 42 "calculatedFrom" 16 16 54) (mkPtok 3 "}" 24 2 70)) (mkPtok 42 "calculatedFrom" 16 16 54) (mkPtok 2 "{" 17 0 55) [(MetaField (mkSpan (mkPtok 23 "uint64" 17 2 56) (mkPtok 40 "," 19 0 58)) None (mkMetaDecl (mkSpan (mkPtok 23 "uint64" 17 2 56) (mkPtok 40 "," 19 0 58)) (TyBasic (mkSpan (mkPtok 23 "uint64" 17 2 56) (mkPtok 23 "uint64" 17 2 56)) (mkBasicType (mkSpan (mkPtok 23 "uint64" 17 2 56) (mkPtok 23 "uint64" 17 2 56)) (mkPtok 23 "uint64" 17 2 56))) (mkPtok 42 "body" 18 4 57) None (mkPtok 40 "," 19 0 58))); (MetaField (mkSpan (mkPtok 16 "char[]" 20 4 59) (mkPtok 40 "," 21 0 61)) None (mkMetaDecl (mkSpan (mkPtok 16 "char[]" 20 4 59) (mkPtok 40 "," 21 0 61)) (TyDynamic (mkSpan (mkPtok 16 "char[]" 20 4 59) (mkPtok 16 "char[]" 20 4 59)) (mkDynamicString (mkSpan (mkPtok 16 "char[]" 20 4 59) (mkPtok 16 "char[]" 20 4 59)) (mkPtok 16 "char[]" 20 4 59))) (mkPtok 42 "uint8x" 20 11 60) None (mkPtok 40 "," 21 0 61))); (MetaField (mkSpan (mkPtok 26 "int32" 21 2 62) (mkPtok 40 "," 21 12 64)) None (mkMetaDecl (mkSpan (mkPtok 26 "int32" 21 2 62) (mkPtok 40 "," 21 12 64)) (TyBasic (mkSpan (mkPtok 26 "int32" 21 2 62) (mkPtok 26 "int32" 21 2 62)) (mkBasicType (mkSpan (mkPtok 26 "int32" 21 2 62) (mkPtok 26 "int32" 21 2 62)) (mkPtok 26 "int32" 21 2 62))) (mkPtok 42 "len" 21 8 63) None (mkPtok 40 "," 21 12 64))); (CheckSumField (mkSpan (mkPtok 42 "f32a" 21 13 65) (mkPtok 40 "," 24 0 69)) (mkChecksumFieldDecl (mkSpan (mkPtok 42 "f32a" 21 13 65) (mkPtok 40 "," 24 0 69)) None (mkPtok 42 "f32a" 21 13 65) (mkCalculatedFrom (mkSpan (mkPtok 5 "@calculatedFrom(" 22 0 66) (mkPtok 6 ")" 23 0 68)) (mkPtok 5 "@calculatedFrom(" 22 0 66) (mkPtok 31 (string_of_bytes [34; 230; 182; 136; 230; 129; 175; 34]%N) 22 17 67) (mkPtok 6 ")" 23 0 68)) None (mkPtok 40 "," 24 0 69)))] (mkPtok 3 "}" 24 2 70)) (mkPtok 40 "," 24 4 71))); (mkFieldWithAttr (mkSpan (mkPtok 32 "@leftPad" 24 6 72) (mkPtok 40 "," 28 9 79)) [(FAPadding (mkSpan (mkPtok 32 "@leftPad" 24 6 72) (mkPtok 6 ")" 26 4 76)) (mkPaddingAttr (mkSpan (mkPtok 32 "@leftPad" 24 6 72) (mkPtok 6 ")" 26 4 76)) (mkPtok 32 "@leftPad" 24 6 72) (mkPtok 8 "(" 24 15 73) (Some (mkPtok 33 "'\x00'" 25 0 75)) (mkPtok 6 ")" 26 4 76)))] (MetaField (mkSpan (mkPtok 15 "string" 27 4 77) (mkPtok 40 "," 28 9 79)) None (mkMetaDecl (mkSpan (mkPtok 15 "string" 27 4 77) (mkPtok 40 "," 28 9 79)) (TyDynamic (mkSpan (mkPtok 15 "string" 27 4 77) (mkPtok 15 "string" 27 4 77)) (mkDynamicString (mkSpan (mkPtok 15 "string" 27 4 77) (mkPtok 15 "string" 27 4 77)) (mkPtok 15 "string" 27 4 77))) (mkPtok 42 "body" 28 4 78) None (mkPtok 40 "," 28 9 79)))); (mkFieldWithAttr (mkSpan (mkPtok 38 "match" 28 11 80) (mkPtok 40 "," 42 0 123)) [] (MatchField (mkSpan (mkPtok 38 "match" 28 11 80) (mkPtok 40 "," 42 0 123)) (mkMatchFieldDecl (mkSpan (mkPtok 38 "match" 28 11 80) (mkPtok 3 "}" 41 44 122)) (mkPtok 38 "match" 28 11 80) (mkPtok 42 "msg_type" 29 0 82) (mkPtok 17 "as" 29 9 83) (mkPtok 42 "As" 30 4 84) (mkPtok 2 "{" 30 7 85) [(mkMatchPair (mkSpan (mkPtok 18 "[" 30 9 86) (mkPtok 40 "," 37 0 97)) (MKList (mkKeyList (mkSpan (mkPtok 18 "[" 30 9 86) (mkPtok 13 "]" 35 0 93)) (mkPtok 18 "[" 30 9 86) (mkPtok 31 (string_of_bytes [34; 240; 159; 152; 128; 34]%N) 30 11 87) [((mkPtok 40 "," 30 15 88), (mkPtok 31 """abc""" 32 4 90))] (mkPtok 13 "]" 35 0 93))) (mkPtok 39 ":" 36 4 94) (mkPtok 42 "msg_type" 36 6 95) (Some (mkPtok 40 "," 37 0 97))); (mkMatchPair (mkSpan (mkPtok 18 "[" 37 2 98) (mkPtok 40 "," 40 1 106)) (MKList (mkKeyList (mkSpan (mkPtok 18 "[" 37 2 98) (mkPtok 13 "]" 39 10 103)) (mkPtok 18 "[" 37 2 98) (mkPtok 30 "0123456789" 37 3 99) [((mkPtok 40 "," 39 4 101), (mkPtok 30 "10" 39 7 102))] (mkPtok 13 "]" 39 10 103))) (mkPtok 39 ":" 39 11 104) (mkPtok 42 "A" 40 0 105) (Some (mkPtok 40 "," 40 1 106))); (mkMatchPair (mkSpan (mkPtok 31 """1""" 40 3 107) (mkPtok 40 "," 40 12 110)) (MKString (mkPtok 31 """1""" 40 3 107)) (mkPtok 39 ":" 40 6 108) (mkPtok 42 "Foo" 40 8 109) (Some (mkPtok 40 "," 40 12 110))); (mkMatchPair (mkSpan (mkPtok 30 "7" 40 14 111) (mkPtok 40 "," 41 12 114)) (MKDigits (mkPtok 30 "7" 40 14 111)) (mkPtok 39 ":" 40 15 112) (mkPtok 42 "string_" 41 4 113) (Some (mkPtok 40 "," 41 12 114))); (mkMatchPair (mkSpan (mkPtok 31 """`tick`""" 41 14 115) (mkPtok 42 "string_" 41 25 117)) (MKString (mkPtok 31 """`tick`""" 41 14 115)) (mkPtok 39 ":" 41 23 116) (mkPtok 42 "string_" 41 25 117) None); (mkMatchPair (mkSpan (mkPtok 30 "007" 41 33 118) (mkPtok 40 "," 41 42 121)) (MKDigits (mkPtok 30 "007" 41 33 118)) (mkPtok 39 ":" 41 37 119) (mkPtok 42 "int" 41 39 120) (Some (mkPtok 40 "," 41 42 121)))] (mkPtok 3 "}" 41 44 122)) (mkPtok 40 "," 42 0 123)))] (mkPtok 3 "}" 43 0 124))); (DPacket (mkPacketDef (mkSpan (mkPtok 35 "packet" 44 4 125) (mkPtok 3 "}" 66 33 207)) None (mkPtok 35 "packet" 44 4 125) (mkPtok 42 "BodyLength" 44 11 126) (mkPtok 2 "{" 45 4 127) [(mkFieldWithAttr (mkSpan (mkPtok 38 "match" 46 0 129) (mkPtok 40 "," 54 8 168)) [] (MatchField (mkSpan (mkPtok 38 "match" 46 0 129) (mkPtok 40 "," 54 8 168)) (mkMatchFieldDecl (mkSpan (mkPtok 38 "match" 46 0 129) (mkPtok 3 "}" 54 7 167)) (mkPtok 38 "match" 46 0 129) (mkPtok 42 "crc" 46 6 130) (mkPtok 17 "as" 46 10 131) (mkPtok 42 "Pad" 46 13 132) (mkPtok 2 "{" 47 0 134) [(mkMatchPair (mkSpan (mkPtok 18 "[" 48 4 135) (mkPtok 40 "," 52 0 151)) (MKList (mkKeyList (mkSpan (mkPtok 18 "[" 48 4 135) (mkPtok 13 "]" 50 10 147)) (mkPtok 18 "[" 48 4 135) (mkPtok 30 "0123456789" 48 5 136) [((mkPtok 40 "," 48 16 137), (mkPtok 31 """\n""" 48 18 138)); ((mkPtok 40 "," 48 23 139), (mkPtok 31 """x y""" 48 25 140)); ((mkPtok 40 "," 48 31 141), (mkPtok 31 """\n""" 49 0 142)); ((mkPtok 40 "," 49 5 143), (mkPtok 30 "7" 49 7 144)); ((mkPtok 40 "," 50 4 145), (mkPtok 31 """1""" 50 6 146))] (mkPtok 13 "]" 50 10 147))) (mkPtok 39 ":" 50 12 148) (mkPtok 42 "u8x" 51 0 150) (Some (mkPtok 40 "," 52 0 151))); (mkMatchPair (mkSpan (mkPtok 18 "[" 52 2 152) (mkPtok 40 "," 54 5 166)) (MKList (mkKeyList (mkSpan (mkPtok 18 "[" 52 2 152) (mkPtok 13 "]" 53 27 162)) (mkPtok 18 "[" 52 2 152) (mkPtok 30 "00" 52 4 153) [((mkPtok 40 "," 53 0 154), (mkPtok 31 """abc""" 53 2 155)); ((mkPtok 40 "," 53 7 156), (mkPtok 31 (string_of_bytes [34; 240; 159; 152; 128; 34]%N) 53 9 157)); ((mkPtok 40 "," 53 12 158), (mkPtok 31 """a\\""" 53 14 159)); ((mkPtok 40 "," 53 20 160), (mkPtok 30 "65535" 53 21 161))] (mkPtok 13 "]" 53 27 162))) (mkPtok 39 ":" 53 28 163) (mkPtok 42 "pack" 54 0 165) (Some (mkPtok 40 "," 54 5 166)))] (mkPtok 3 "}" 54 7 167)) (mkPtok 40 "," 54 8 168))); (mkFieldWithAttr (mkSpan (mkPtok 9 "@tag(" 55 4 169) (mkPtok 40 "," 64 0 193)) [(FATag (mkSpan (mkPtok 9 "@tag(" 55 4 169) (mkPtok 6 ")" 55 12 171)) (mkTagAttr (mkSpan (mkPtok 9 "@tag(" 55 4 169) (mkPtok 6 ")" 55 12 171)) (mkPtok 9 "@tag(" 55 4 169) (mkPtok 30 "0" 55 10 170) (mkPtok 6 ")" 55 12 171)))] (InerObjectField (mkSpan (mkPtok 42 "leftPad" 55 14 172) (mkPtok 40 "," 64 0 193)) None (InerObjectDecl (mkSpan (mkPtok 42 "leftPad" 55 14 172) (mkPtok 3 "}" 63 0 192)) (mkPtok 42 "leftPad" 55 14 172) (mkPtok 2 "{" 55 22 173) [(LengthField (mkSpan (mkPtok 16 "char[]" 55 24 174) (mkPtok 40 "," 59 2 181)) (mkLengthFieldDecl (mkSpan (mkPtok 16 "char[]" 55 24 174) (mkPtok 40 "," 59 2 181)) (Some (TyDynamic (mkSpan (mkPtok 16 "char[]" 55 24 174) (mkPtok 16 "char[]" 55 24 174)) (mkDynamicString (mkSpan (mkPtok 16 "char[]" 55 24 174) (mkPtok 16 "char[]" 55 24 174)) (mkPtok 16 "char[]" 55 24 174)))) (mkPtok 42 "options1" 56 4 175) (mkLengthOf (mkSpan (mkPtok 7 "@lengthOf(" 56 13 176) (mkPtok 6 ")" 59 0 180)) (mkPtok 7 "@lengthOf(" 56 13 176) (mkPtok 42 "asx" 56 24 177) (mkPtok 6 ")" 59 0 180)) None (mkPtok 40 "," 59 2 181))); (MetaField (mkSpan (mkPtok 12 "char[" 59 3 182) (mkPtok 40 "," 62 6 188)) None (mkMetaDecl (mkSpan (mkPtok 12 "char[" 59 3 182) (mkPtok 40 "," 62 6 188)) (TyFixed (mkSpan (mkPtok 12 "char[" 59 3 182) (mkPtok 13 "]" 60 0 184)) (mkFixedString (mkSpan (mkPtok 12 "char[" 59 3 182) (mkPtok 13 "]" 60 0 184)) (mkPtok 12 "char[" 59 3 182) (mkPtok 30 "0" 59 9 183) (mkPtok 13 "]" 60 0 184))) (mkPtok 42 "As" 61 0 186) (Some (mkPtok 43 (string_of_bytes [96; 99; 114; 108; 102; 13; 10; 108; 105; 110; 101; 96]%N) 61 3 187)) (mkPtok 40 "," 62 6 188))); (MetaField (mkSpan (mkPtok 27 "i64" 62 8 189) (mkPtok 40 "," 62 17 191)) None (mkMetaDecl (mkSpan (mkPtok 27 "i64" 62 8 189) (mkPtok 40 "," 62 17 191)) (TyBasic (mkSpan (mkPtok 27 "i64" 62 8 189) (mkPtok 27 "i64" 62 8 189)) (mkBasicType (mkSpan (mkPtok 27 "i64" 62 8 189) (mkPtok 27 "i64" 62 8 189)) (mkPtok 27 "i64" 62 8 189))) (mkPtok 42 "crc" 62 13 190) None (mkPtok 40 "," 62 17 191)))] (mkPtok 3 "}" 63 0 192)) (mkPtok 40 "," 64 0 193))); (mkFieldWithAttr (mkSpan (mkPtok 29 "float64" 65 0 194) (mkPtok 40 "," 65 12 196)) [] (MetaField (mkSpan (mkPtok 29 "float64" 65 0 194) (mkPtok 40 "," 65 12 196)) None (mkMetaDecl (mkSpan (mkPtok 29 "float64" 65 0 194) (mkPtok 40 "," 65 12 196)) (TyBasic (mkSpan (mkPtok 29 "float64" 65 0 194) (mkPtok 29 "float64" 65 0 194)) (mkBasicType (mkSpan (mkPtok 29 "float64" 65 0 194) (mkPtok 29 "float64" 65 0 194)) (mkPtok 29 "float64" 65 0 194))) (mkPtok 42 "asx" 65 8 195) None (mkPtok 40 "," 65 12 196)))); (mkFieldWithAttr (mkSpan (mkPtok 32 "@leftPad" 65 14 197) (mkPtok 40 "," 66 30 206)) [(FAPadding (mkSpan (mkPtok 32 "@leftPad" 65 14 197) (mkPtok 6 ")" 66 4 201)) (mkPaddingAttr (mkSpan (mkPtok 32 "@leftPad" 65 14 197) (mkPtok 6 ")" 66 4 201)) (mkPtok 32 "@leftPad" 65 14 197) (mkPtok 8 "(" 65 23 198) (Some (mkPtok 33 "' '" 66 0 200)) (mkPtok 6 ")" 66 4 201)))] (CheckSumField (mkSpan (mkPtok 42 "T" 66 6 202) (mkPtok 40 "," 66 30 206)) (mkChecksumFieldDecl (mkSpan (mkPtok 42 "T" 66 6 202) (mkPtok 40 "," 66 30 206)) None (mkPtok 42 "T" 66 6 202) (mkCalculatedFrom (mkSpan (mkPtok 5 "@calculatedFrom(" 66 7 203) (mkPtok 6 ")" 66 29 205)) (mkPtok 5 "@calculatedFrom(" 66 7 203) (mkPtok 31 """abc""" 66 24 204) (mkPtok 6 ")" 66 29 205)) None (mkPtok 40 "," 66 30 206))))] (mkPtok 3 "}" 66 33 207))); (DPacket (mkPacketDef (mkSpan (mkPtok 35 "packet" 66 34 208) (mkPtok 3 "}" 80 4 262)) None (mkPtok 35 "packet" 66 34 208) (mkPtok 42 "As" 66 41 209) (mkPtok 2 "{" 66 44 210) [(mkFieldWithAttr (mkSpan (mkPtok 15 "string" 68 4 212) (mkPtok 40 "," 69 4 217)) [] (CheckSumField (mkSpan (mkPtok 15 "string" 68 4 212) (mkPtok 40 "," 69 4 217)) (mkChecksumFieldDecl (mkSpan (mkPtok 15 "string" 68 4 212) (mkPtok 40 "," 69 4 217)) (Some (TyDynamic (mkSpan (mkPtok 15 "string" 68 4 212) (mkPtok 15 "string" 68 4 212)) (mkDynamicString (mkSpan (mkPtok 15 "string" 68 4 212) (mkPtok 15 "string" 68 4 212)) (mkPtok 15 "string" 68 4 212)))) (mkPtok 42 "i64_" 68 11 213) (mkCalculatedFrom (mkSpan (mkPtok 5 "@calculatedFrom(" 68 16 214) (mkPtok 6 ")" 68 37 216)) (mkPtok 5 "@calculatedFrom(" 68 16 214) (mkPtok 31 """\n""" 68 33 215) (mkPtok 6 ")" 68 37 216)) None (mkPtok 40 "," 69 4 217)))); (mkFieldWithAttr (mkSpan (mkPtok 7 "@lengthOf(" 69 5 218) (mkPtok 40 "," 70 24 232)) [(FALengthOf (mkSpan (mkPtok 7 "@lengthOf(" 69 5 218) (mkPtok 6 ")" 69 21 220)) (mkLengthOf (mkSpan (mkPtok 7 "@lengthOf(" 69 5 218) (mkPtok 6 ")" 69 21 220)) (mkPtok 7 "@lengthOf(" 69 5 218) (mkPtok 42 "i8i8" 69 16 219) (mkPtok 6 ")" 69 21 220))); (FALengthOf (mkSpan (mkPtok 7 "@lengthOf(" 69 24 221) (mkPtok 6 ")" 69 39 223)) (mkLengthOf (mkSpan (mkPtok 7 "@lengthOf(" 69 24 221) (mkPtok 6 ")" 69 39 223)) (mkPtok 7 "@lengthOf(" 69 24 221) (mkPtok 42 "asx" 69 35 222) (mkPtok 6 ")" 69 39 223))); (FAPadding (mkSpan (mkPtok 32 "@rightPad" 69 41 224) (mkPtok 6 ")" 70 0 228)) (mkPaddingAttr (mkSpan (mkPtok 32 "@rightPad" 69 41 224) (mkPtok 6 ")" 70 0 228)) (mkPtok 32 "@rightPad" 69 41 224) (mkPtok 8 "(" 69 50 225) (Some (mkPtok 33 "'0'" 69 51 226)) (mkPtok 6 ")" 70 0 228)))] (MetaField (mkSpan (mkPtok 36 "repeat" 70 1 229) (mkPtok 40 "," 70 24 232)) (Some (mkPtok 36 "repeat" 70 1 229)) (mkMetaDecl (mkSpan (mkPtok 23 "uint64" 70 8 230) (mkPtok 40 "," 70 24 232)) (TyBasic (mkSpan (mkPtok 23 "uint64" 70 8 230) (mkPtok 23 "uint64" 70 8 230)) (mkBasicType (mkSpan (mkPtok 23 "uint64" 70 8 230) (mkPtok 23 "uint64" 70 8 230)) (mkPtok 23 "uint64" 70 8 230))) (mkPtok 42 "MetaDataX" 70 15 231) None (mkPtok 40 "," 70 24 232)))); (mkFieldWithAttr (mkSpan (mkPtok 42 "tag" 70 25 233) (mkPtok 40 "," 71 0 236)) [] (ObjectField (mkSpan (mkPtok 42 "tag" 70 25 233) (mkPtok 40 "," 71 0 236)) None (mkPtok 42 "tag" 70 25 233) (Some (mkPtok 42 "zchar" 70 29 234)) None (mkPtok 40 "," 71 0 236))); (mkFieldWithAttr (mkSpan (mkPtok 5 "@calculatedFrom(" 71 2 237) (mkPtok 40 "," 75 10 249)) [(FACalculatedFrom (mkSpan (mkPtok 5 "@calculatedFrom(" 71 2 237) (mkPtok 6 ")" 71 34 239)) (mkCalculatedFrom (mkSpan (mkPtok 5 "@calculatedFrom(" 71 2 237) (mkPtok 6 ")" 71 34 239)) (mkPtok 5 "@calculatedFrom(" 71 2 237) (mkPtok 31 """// no comment""" 71 19 238) (mkPtok 6 ")" 71 34 239)))] (CheckSumField (mkSpan (mkPtok 16 "char[]" 71 36 240) (mkPtok 40 "," 75 10 249)) (mkChecksumFieldDecl (mkSpan (mkPtok 16 "char[]" 71 36 240) (mkPtok 40 "," 75 10 249)) (Some (TyDynamic (mkSpan (mkPtok 16 "char[]" 71 36 240) (mkPtok 16 "char[]" 71 36 240)) (mkDynamicString (mkSpan (mkPtok 16 "char[]" 71 36 240) (mkPtok 16 "char[]" 71 36 240)) (mkPtok 16 "char[]" 71 36 240)))) (mkPtok 42 "u" 71 42 241) (mkCalculatedFrom (mkSpan (mkPtok 5 "@calculatedFrom(" 71 44 242) (mkPtok 6 ")" 75 0 247)) (mkPtok 5 "@calculatedFrom(" 71 44 242) (mkPtok 31 """a\\""" 72 0 244) (mkPtok 6 ")" 75 0 247)) (Some (mkPtok 43 "`u8 x,`" 75 2 248)) (mkPtok 40 "," 75 10 249)))); (mkFieldWithAttr (mkSpan (mkPtok 5 "@calculatedFrom(" 76 0 251) (mkPtok 40 "," 80 2 261)) [(FACalculatedFrom (mkSpan (mkPtok 5 "@calculatedFrom(" 76 0 251) (mkPtok 6 ")" 76 22 253)) (mkCalculatedFrom (mkSpan (mkPtok 5 "@calculatedFrom(" 76 0 251) (mkPtok 6 ")" 76 22 253)) (mkPtok 5 "@calculatedFrom(" 76 0 251) (mkPtok 31 (string_of_bytes [34; 195; 169; 116; 195; 169; 34]%N) 76 16 252) (mkPtok 6 ")" 76 22 253)))] (MetaField (mkSpan (mkPtok 12 "char[" 77 0 255) (mkPtok 40 "," 80 2 261)) None (mkMetaDecl (mkSpan (mkPtok 12 "char[" 77 0 255) (mkPtok 40 "," 80 2 261)) (TyFixed (mkSpan (mkPtok 12 "char[" 77 0 255) (mkPtok 13 "]" 78 3 258)) (mkFixedString (mkSpan (mkPtok 12 "char[" 77 0 255) (mkPtok 13 "]" 78 3 258)) (mkPtok 12 "char[" 77 0 255) (mkPtok 30 "10" 78 0 257) (mkPtok 13 "]" 78 3 258))) (mkPtok 42 "repeatCount" 79 0 259) (Some (mkPtok 43 (string_of_bytes [96; 10; 96]%N) 79 12 260)) (mkPtok 40 "," 80 2 261))))] (mkPtok 3 "}" 80 4 262))); (DPacket (mkPacketDef (mkSpan (mkPtok 35 "packet" 80 6 263) (mkPtok 3 "}" 82 4 269)) None (mkPtok 35 "packet" 80 6 263) (mkPtok 42 "f32a" 80 13 264) (mkPtok 2 "{" 80 18 265) [(mkFieldWithAttr (mkSpan (mkPtok 42 "Header" 81 4 266) (mkPtok 40 "," 81 14 268)) [] (ObjectField (mkSpan (mkPtok 42 "Header" 81 4 266) (mkPtok 40 "," 81 14 268)) None (mkPtok 42 "Header" 81 4 266) (Some (mkPtok 42 "o" 81 12 267)) None (mkPtok 40 "," 81 14 268)))] (mkPtok 3 "}" 82 4 269))); (DPacket (mkPacketDef (mkSpan (mkPtok 35 "packet" 82 6 270) (mkPtok 3 "}" 113 15 386)) None (mkPtok 35 "packet" 82 6 270) (mkPtok 42 "chars" 82 13 271) (mkPtok 2 "{" 82 19 272) [(mkFieldWithAttr (mkSpan (mkPtok 32 "@rightPad" 82 21 273) (mkPtok 40 "," 91 0 307)) [(FAPadding (mkSpan (mkPtok 32 "@rightPad" 82 21 273) (mkPtok 6 ")" 82 36 276)) (mkPaddingAttr (mkSpan (mkPtok 32 "@rightPad" 82 21 273) (mkPtok 6 ")" 82 36 276)) (mkPtok 32 "@rightPad" 82 21 273) (mkPtok 8 "(" 82 30 274) (Some (mkPtok 33 "'0'" 82 32 275)) (mkPtok 6 ")" 82 36 276)))] (MatchField (mkSpan (mkPtok 38 "match" 82 38 277) (mkPtok 40 "," 91 0 307)) (mkMatchFieldDecl (mkSpan (mkPtok 38 "match" 82 38 277) (mkPtok 3 "}" 90 16 306)) (mkPtok 38 "match" 82 38 277) (mkPtok 42 "u128" 83 0 278) (mkPtok 17 "as" 83 6 279) (mkPtok 42 "u8x" 83 9 280) (mkPtok 2 "{" 83 13 281) [(mkMatchPair (mkSpan (mkPtok 30 "3" 83 14 282) (mkPtok 40 "," 86 0 287)) (MKDigits (mkPtok 30 "3" 83 14 282)) (mkPtok 39 ":" 83 16 283) (mkPtok 42 "i8i8" 83 18 284) (Some (mkPtok 40 "," 86 0 287))); (mkMatchPair (mkSpan (mkPtok 30 "255" 87 4 288) (mkPtok 42 "charz" 87 9 290)) (MKDigits (mkPtok 30 "255" 87 4 288)) (mkPtok 39 ":" 87 7 289) (mkPtok 42 "charz" 87 9 290) None); (mkMatchPair (mkSpan (mkPtok 18 "[" 87 15 291) (mkPtok 40 "," 89 2 302)) (MKList (mkKeyList (mkSpan (mkPtok 18 "[" 87 15 291) (mkPtok 13 "]" 88 10 299)) (mkPtok 18 "[" 87 15 291) (mkPtok 30 "4294967296" 87 17 292) [((mkPtok 40 "," 87 28 293), (mkPtok 31 """x y""" 87 30 294)); ((mkPtok 40 "," 87 35 295), (mkPtok 31 (string_of_bytes [34; 195; 169; 116; 195; 169; 34]%N) 87 36 296)); ((mkPtok 40 "," 87 42 297), (mkPtok 31 """{,}""" 88 4 298))] (mkPtok 13 "]" 88 10 299))) (mkPtok 39 ":" 88 12 300) (mkPtok 42 "x" 89 0 301) (Some (mkPtok 40 "," 89 2 302))); (mkMatchPair (mkSpan (mkPtok 30 "65535" 90 4 303) (mkPtok 42 "len" 90 12 305)) (MKDigits (mkPtok 30 "65535" 90 4 303)) (mkPtok 39 ":" 90 10 304) (mkPtok 42 "len" 90 12 305) None)] (mkPtok 3 "}" 90 16 306)) (mkPtok 40 "," 91 0 307))); (mkFieldWithAttr (mkSpan (mkPtok 7 "@lengthOf(" 91 2 308) (mkPtok 40 "," 93 1 318)) [(FALengthOf (mkSpan (mkPtok 7 "@lengthOf(" 91 2 308) (mkPtok 6 ")" 92 0 311)) (mkLengthOf (mkSpan (mkPtok 7 "@lengthOf(" 91 2 308) (mkPtok 6 ")" 92 0 311)) (mkPtok 7 "@lengthOf(" 91 2 308) (mkPtok 42 "u8x" 91 13 309) (mkPtok 6 ")" 92 0 311)))] (LengthField (mkSpan (mkPtok 25 "i16" 92 1 312) (mkPtok 40 "," 93 1 318)) (mkLengthFieldDecl (mkSpan (mkPtok 25 "i16" 92 1 312) (mkPtok 40 "," 93 1 318)) (Some (TyBasic (mkSpan (mkPtok 25 "i16" 92 1 312) (mkPtok 25 "i16" 92 1 312)) (mkBasicType (mkSpan (mkPtok 25 "i16" 92 1 312) (mkPtok 25 "i16" 92 1 312)) (mkPtok 25 "i16" 92 1 312)))) (mkPtok 42 "Foo" 92 5 313) (mkLengthOf (mkSpan (mkPtok 7 "@lengthOf(" 92 8 314) (mkPtok 6 ")" 93 0 317)) (mkPtok 7 "@lengthOf(" 92 8 314) (mkPtok 42 "u8x" 92 20 315) (mkPtok 6 ")" 93 0 317)) None (mkPtok 40 "," 93 1 318)))); (mkFieldWithAttr (mkSpan (mkPtok 7 "@lengthOf(" 94 0 319) (mkPtok 40 "," 102 0 336)) [(FALengthOf (mkSpan (mkPtok 7 "@lengthOf(" 94 0 319) (mkPtok 6 ")" 94 13 321)) (mkLengthOf (mkSpan (mkPtok 7 "@lengthOf(" 94 0 319) (mkPtok 6 ")" 94 13 321)) (mkPtok 7 "@lengthOf(" 94 0 319) (mkPtok 42 "_x" 94 11 320) (mkPtok 6 ")" 94 13 321))); (FAPadding (mkSpan (mkPtok 32 "@leftPad" 94 14 322) (mkPtok 6 ")" 94 29 325)) (mkPaddingAttr (mkSpan (mkPtok 32 "@leftPad" 94 14 322) (mkPtok 6 ")" 94 29 325)) (mkPtok 32 "@leftPad" 94 14 322) (mkPtok 8 "(" 94 23 323) (Some (mkPtok 33 "' '" 94 25 324)) (mkPtok 6 ")" 94 29 325)))] (CheckSumField (mkSpan (mkPtok 12 "char[" 95 0 326) (mkPtok 40 "," 102 0 336)) (mkChecksumFieldDecl (mkSpan (mkPtok 12 "char[" 95 0 326) (mkPtok 40 "," 102 0 336)) (Some (TyFixed (mkSpan (mkPtok 12 "char[" 95 0 326) (mkPtok 13 "]" 97 9 329)) (mkFixedString (mkSpan (mkPtok 12 "char[" 95 0 326) (mkPtok 13 "]" 97 9 329)) (mkPtok 12 "char[" 95 0 326) (mkPtok 30 "255" 97 4 328) (mkPtok 13 "]" 97 9 329)))) (mkPtok 42 "tag" 98 0 330) (mkCalculatedFrom (mkSpan (mkPtok 5 "@calculatedFrom(" 99 4 331) (mkPtok 6 ")" 99 28 333)) (mkPtok 5 "@calculatedFrom(" 99 4 331) (mkPtok 31 """it's""" 99 21 332) (mkPtok 6 ")" 99 28 333)) None (mkPtok 40 "," 102 0 336)))); (mkFieldWithAttr (mkSpan (mkPtok 5 "@calculatedFrom(" 102 2 337) (mkPtok 40 "," 103 7 343)) [(FACalculatedFrom (mkSpan (mkPtok 5 "@calculatedFrom(" 102 2 337) (mkPtok 6 ")" 102 21 339)) (mkCalculatedFrom (mkSpan (mkPtok 5 "@calculatedFrom(" 102 2 337) (mkPtok 6 ")" 102 21 339)) (mkPtok 5 "@calculatedFrom(" 102 2 337) (mkPtok 31 """""" 102 18 338) (mkPtok 6 ")" 102 21 339)))] (MetaField (mkSpan (mkPtok 28 "float32" 102 23 340) (mkPtok 40 "," 103 7 343)) None (mkMetaDecl (mkSpan (mkPtok 28 "float32" 102 23 340) (mkPtok 40 "," 103 7 343)) (TyBasic (mkSpan (mkPtok 28 "float32" 102 23 340) (mkPtok 28 "float32" 102 23 340)) (mkBasicType (mkSpan (mkPtok 28 "float32" 102 23 340) (mkPtok 28 "float32" 102 23 340)) (mkPtok 28 "float32" 102 23 340))) (mkPtok 42 "i64_" 102 31 341) (Some (mkPtok 43 (string_of_bytes [96; 108; 105; 110; 101; 49; 10; 108; 105; 110; 101; 50; 96]%N) 102 36 342)) (mkPtok 40 "," 103 7 343)))); (mkFieldWithAttr (mkSpan (mkPtok 36 "repeat" 103 9 344) (mkPtok 40 "," 104 9 347)) [] (MetaField (mkSpan (mkPtok 36 "repeat" 103 9 344) (mkPtok 40 "," 104 9 347)) (Some (mkPtok 36 "repeat" 103 9 344)) (mkMetaDecl (mkSpan (mkPtok 15 "string" 103 16 345) (mkPtok 40 "," 104 9 347)) (TyDynamic (mkSpan (mkPtok 15 "string" 103 16 345) (mkPtok 15 "string" 103 16 345)) (mkDynamicString (mkSpan (mkPtok 15 "string" 103 16 345) (mkPtok 15 "string" 103 16 345)) (mkPtok 15 "string" 103 16 345))) (mkPtok 42 "roots" 104 4 346) None (mkPtok 40 "," 104 9 347)))); (mkFieldWithAttr (mkSpan (mkPtok 15 "string" 104 10 348) (mkPtok 40 "," 105 5 351)) [] (MetaField (mkSpan (mkPtok 15 "string" 104 10 348) (mkPtok 40 "," 105 5 351)) None (mkMetaDecl (mkSpan (mkPtok 15 "string" 104 10 348) (mkPtok 40 "," 105 5 351)) (TyDynamic (mkSpan (mkPtok 15 "string" 104 10 348) (mkPtok 15 "string" 104 10 348)) (mkDynamicString (mkSpan (mkPtok 15 "string" 104 10 348) (mkPtok 15 "string" 104 10 348)) (mkPtok 15 "string" 104 10 348))) (mkPtok 42 "float" 105 0 350) None (mkPtok 40 "," 105 5 351)))); (mkFieldWithAttr (mkSpan (mkPtok 7 "@lengthOf(" 105 7 352) (mkPtok 40 "," 109 2 375)) [(FALengthOf (mkSpan (mkPtok 7 "@lengthOf(" 105 7 352) (mkPtok 6 ")" 105 25 354)) (mkLengthOf (mkSpan (mkPtok 7 "@lengthOf(" 105 7 352) (mkPtok 6 ")" 105 25 354)) (mkPtok 7 "@lengthOf(" 105 7 352) (mkPtok 42 "Header" 105 18 353) (mkPtok 6 ")" 105 25 354))); (FATag (mkSpan (mkPtok 9 "@tag(" 105 27 355) (mkPtok 6 ")" 106 4 357)) (mkTagAttr (mkSpan (mkPtok 9 "@tag(" 105 27 355) (mkPtok 6 ")" 106 4 357)) (mkPtok 9 "@tag(" 105 27 355) (mkPtok 30 "007" 105 33 356) (mkPtok 6 ")" 106 4 357))); (FACalculatedFrom (mkSpan (mkPtok 5 "@calculatedFrom(" 106 6 358) (mkPtok 6 ")" 106 29 360)) (mkCalculatedFrom (mkSpan (mkPtok 5 "@calculatedFrom(" 106 6 358) (mkPtok 6 ")" 106 29 360)) (mkPtok 5 "@calculatedFrom(" 106 6 358) (mkPtok 31 """abc""" 106 23 359) (mkPtok 6 ")" 106 29 360)))] (MatchField (mkSpan (mkPtok 38 "match" 106 31 361) (mkPtok 40 "," 109 2 375)) (mkMatchFieldDecl (mkSpan (mkPtok 38 "match" 106 31 361) (mkPtok 3 "}" 109 0 374)) (mkPtok 38 "match" 106 31 361) (mkPtok 42 "zchar" 107 0 362) (mkPtok 17 "as" 107 7 363) (mkPtok 42 "u8x" 108 0 364) (mkPtok 2 "{" 108 4 365) [(mkMatchPair (mkSpan (mkPtok 31 (string_of_bytes [34; 97; 9; 98; 34]%N) 108 6 366) (mkPtok 40 "," 108 20 369)) (MKString (mkPtok 31 (string_of_bytes [34; 97; 9; 98; 34]%N) 108 6 366)) (mkPtok 39 ":" 108 12 367) (mkPtok 42 "charz" 108 14 368) (Some (mkPtok 40 "," 108 20 369))); (mkMatchPair (mkSpan (mkPtok 30 "0" 108 22 370) (mkPtok 40 "," 108 30 373)) (MKDigits (mkPtok 30 "0" 108 22 370)) (mkPtok 39 ":" 108 24 371) (mkPtok 42 "len" 108 26 372) (Some (mkPtok 40 "," 108 30 373)))] (mkPtok 3 "}" 109 0 374)) (mkPtok 40 "," 109 2 375))); (mkFieldWithAttr (mkSpan (mkPtok 14 "zchar[" 109 3 376) (mkPtok 40 "," 113 14 385)) [] (CheckSumField (mkSpan (mkPtok 14 "zchar[" 109 3 376) (mkPtok 40 "," 113 14 385)) (mkChecksumFieldDecl (mkSpan (mkPtok 14 "zchar[" 109 3 376) (mkPtok 40 "," 113 14 385)) (Some (TyFixed (mkSpan (mkPtok 14 "zchar[" 109 3 376) (mkPtok 13 "]" 109 12 378)) (mkFixedString (mkSpan (mkPtok 14 "zchar[" 109 3 376) (mkPtok 13 "]" 109 12 378)) (mkPtok 14 "zchar[" 109 3 376) (mkPtok 30 "00" 109 10 377) (mkPtok 13 "]" 109 12 378)))) (mkPtok 42 "MetaDataX" 109 13 379) (mkCalculatedFrom (mkSpan (mkPtok 5 "@calculatedFrom(" 110 4 380) (mkPtok 6 ")" 113 0 383)) (mkPtok 5 "@calculatedFrom(" 110 4 380) (mkPtok 31 """a\""b""" 112 4 382) (mkPtok 6 ")" 113 0 383)) (Some (mkPtok 43 "`two words`" 113 2 384)) (mkPtok 40 "," 113 14 385))))] (mkPtok 3 "}" 113 15 386)))])).
Eval vm_compute in ("<<<M493>>>" ++ check (runes_of_ascii "options {zchar
    =
""packet"";o = ""CRC32"" ; len
= """" ;
}packet roots {// @lengthOf(
char
// `tick` ""quote"" 'q'
//x
f32a , } root packet
    x { char[ 7 ]
pack // " ++ [27880; 37322]%N ++ runes_of_ascii "
,	}  packet x { zchar[
// `tick` ""quote"" 'q'
// @lengthOf(
1
    ] A
@calculatedFrom( ""a\""b""
/// triple
// trailing space 
) , repeat metadata
Foo , u8x
lengthOf ,A Header, @calculatedFrom( ""CRC32"" )
@calculatedFrom(/// triple
""""  )
@leftPad ( '\x00' ) pack x_y_z,
}
")).
Eval vm_compute in ("<<<M525>>>" ++ check (runes_of_ascii "options { }// a // b
packet BodyLength {zchar[
0123456789
] packetx
`doc`
, repeat
msg_type `// not a comment`
// @lengthOf(
// c
,	zchar[00 ] len, chars
@lengthOf(  chars ) `a\`	, }
MetaData
_x {	asx MetaDataX `{ , }`, }
")).
Eval vm_compute in ("<<<M557>>>" ++ check (runes_of_ascii " //x")).
Eval vm_compute in ("<<<M589>>>" ++ check (runes_of_ascii "  options{ i8i8 = true// " ++ [128512]%N ++ runes_of_ascii " emoji
chars = 42
    /// triple
    ; }
")).
Eval vm_compute in ("<<<M621>>>" ++ check (runes_of_ascii "options{float
    =
    float32 ; }	options {//x
As =
    char[]; roots = ""it's""
}packet
    leftPad {@tag( 42 // trailing space 
)
    repeat _x `two words` ,@calculatedFrom(""x y"" ) repeat char[] Pad
, }
")).
Eval vm_compute in ("<<<M653>>>" ++ check (runes_of_ascii "root packet A { }
")).
Eval vm_compute in ("<<<M685>>>" ++ check (runes_of_ascii " // @lengthOf(")).
Eval vm_compute in ("<<<T685>>>" ++ terms [mkTok 44 "// @lengthOf(" 1 1 true; mkTok 0 "<EOF>" 1 14 false] (mkPacket (mkPtok 0 "<EOF>" 1 14 1) None [])).
Eval vm_compute in ("<<<M717>>>" ++ check (runes_of_ascii "
options {
f32a= i32
}options// trailing space 
{
    //x
    roots
=
    """" float ='0' ;int =
true x_y_z=' ' ;MetaDataX=// " ++ [128512]%N ++ runes_of_ascii " emoji
false
// packet A { u8 x, }
// " ++ [128512]%N ++ runes_of_ascii " emoji
;}
")).
Eval vm_compute in ("<<<M749>>>" ++ check (runes_of_ascii "// a // b
root	packet
//x
// `tick` ""quote"" 'q'
f32a { } root packet  packetx { match x_y_z as	Logon{ // `tick` ""quote"" 'q'
""" ++ [28040; 24687]%N ++ runes_of_ascii """
    : Packet
[ 7
] // @lengthOf(
:falsey
,	""`tick`""
: roots
    ,	""packet"" : u128 , } ,match falsey as metadata
{65535 :As
,  ""a\""b""
: crc,
""\" ++ [233]%N ++ runes_of_ascii """
: Logon
    , } , u8x `two words` , @tag( 0 )Z9_,}
// " ++ [128512]%N ++ runes_of_ascii " emoji
// " ++ [128512]%N ++ runes_of_ascii " emoji
options	{	options1 = false }")).
Eval vm_compute in ("<<<M781>>>" ++ check (runes_of_ascii "options
    { _x =
    float32
    ;} packet Packet
{char[ 255
]	tag @lengthOf(
    a1)
    ,match Packet as lengthOf { [ ""x y"" ,	1
    ] :metadata,
[""x y""
,// @lengthOf(
0//x
]  : // `tick` ""quote"" 'q'
metadata  },@lengthOf(rootA
) Header matchKey
, @lengthOf(leftPad)  char[] A `" ++ [233]%N ++ runes_of_ascii "`
,
} packet Logon{zchar[1 ]// c
f32a `{ , }` , i64_ @calculatedFrom( """ ++ [28040; 24687]%N ++ runes_of_ascii """)
    , @calculatedFrom( """ ++ [128512]%N ++ runes_of_ascii """) @lengthOf( T ) uint16 T
    @calculatedFrom( ""CRC32""//
)
    // packet A { u8 x, }
    , @tag( 65535 )// trailing space 
@lengthOf( body ) i8 o @lengthOf(// packet A { u8 x, }
MetaDataX ) // `tick` ""quote"" 'q'
`it's` ,match
    int as falsey {  [ ""// no comment""	,
255
/// triple
//	t
] :
MetaDataX , }
    , }
root packet msg_type  {	@calculatedFrom(""packet"") MetaDataX f32a `" ++ [233]%N ++ runes_of_ascii "`
,@calculatedFrom( ""// no comment""
    ) //
repeat
asx u128
,match
msg_type as u8x
    { 255	: T , [ 7 ]
:metadata , } ,
@lengthOf( body ) leftPad @calculatedFrom( ""it's"")  ,@leftPad	()metadata msg_type  `crlf
line` , @tag(
255 )repeat
    char[ 00 ] rootA // @lengthOf(
, match // " ++ [27880; 37322]%N ++ runes_of_ascii "
f32a as charz{  ""a	b"" : Header } , @lengthOf( options1// `tick` ""quote"" 'q'
)char[]
repeatCount  `u8 x,` // @lengthOf(
,	@lengthOf( o
// " ++ [128512]%N ++ runes_of_ascii " emoji
// c
) float64 crc
// " ++ [128512]%N ++ runes_of_ascii " emoji
// packet A { u8 x, }
@lengthOf( falsey // `tick` ""quote"" 'q'
)
,
} packet	_x {	repeat i64_
    // c
    { repeat A{ x_y_z { char[ 1
// c
// @lengthOf(
]Logon
, } , /// triple
} , } , } //	t")).
Eval vm_compute in ("<<<M813>>>" ++ check (runes_of_ascii "packet rootA{
char[4294967296 ] rootA@calculatedFrom(	""a	b""	) `crlf
line`, @calculatedFrom( """" )
// a // b
// trailing space 
pack@lengthOf(// packet A { u8 x, }
rootA)  `
`,
@rightPad (
' ' ) repeat stringy repeatCount`two words`, }")).
Eval vm_compute in ("<<<M845>>>" ++ check (runes_of_ascii "
")).
Eval vm_compute in ("<<<M877>>>" ++ check (runes_of_ascii "options
    {f32a
    =
'0' ; x_y_z
    =""\" ++ [233]%N ++ runes_of_ascii """ ;int	= ""1""	;  Z9_ = int16
; calculatedFrom =
true ;
}
MetaData
trueish{ x_y_z trueish `// not a comment`
, } packet zchar {@lengthOf(
As )
repeat
options1 { char[]
    //	t
    o @calculatedFrom( ""abc"" )
    , repeat pack /// triple
, }	, @calculatedFrom( ""a\""b"" ) Foo rootA
    ,match charz
as falsey { ""x y""
:x_y_z, 00 :	BodyLength ,  ""x y"" : x_y_z
, // @lengthOf(
}, Foo { repeat As{ repeat u A
    /// triple
    ,	repeat
Logon { uint8x @calculatedFrom(
""\n"" ) `{ , }` , i16 float ,},
f64 crc
`tab	here`
, repeat char[] As  ``
, } , calculatedFrom
{ match body as
    // a // b
    a1{
[""{,}"" , // trailing space 
""\n"" , """" // c
, ""1"" , """ ++ [128512]%N ++ runes_of_ascii """
    ] : BodyLength , ""a\\"" :	chars ,65535
: o// " ++ [27880; 37322]%N ++ runes_of_ascii "
[ ""\n"" ] : options1
    ""CRC32""	: BodyLength,},
repeat o {
    string
    rootA// c
, } ,
repeat  zchar[
65535 ] matchKey `" ++ [28040; 24687; 31867; 22411]%N ++ runes_of_ascii "`,
    }, char[]
    rootA `// not a comment` ,repeat
    T	Logon
`" ++ [28040; 24687; 31867; 22411]%N ++ runes_of_ascii "` , },
    @leftPad ( )@tag( 00
// " ++ [27880; 37322]%N ++ runes_of_ascii "
// " ++ [27880; 37322]%N ++ runes_of_ascii "
)@lengthOf(
Pad
    // packet A { u8 x, }
    )  match A as
a1{
    //
    65535 :stringy	[ ""a\""b"" // " ++ [128512]%N ++ runes_of_ascii " emoji
,
// a // b
// packet A { u8 x, }
""a\\"" ] :
/// triple
// trailing space 
As ,
// " ++ [27880; 37322]%N ++ runes_of_ascii "
//
""// no comment""
: repeatCount
    , """": body[""" ++ [28040; 24687]%N ++ runes_of_ascii """
    , """ ++ [233]%N ++ runes_of_ascii "t" ++ [233]%N ++ runes_of_ascii """]
    // @lengthOf(
    :
options1  , }, } // trailing space ")).
Eval vm_compute in ("<<<M909>>>" ++ check (runes_of_ascii "packet// `tick` ""quote"" 'q'
zchar { // c
} MetaData Header {Z9_ // a // b
pack , } MetaData asx { //	t
u Header
    ,
    zchar[ 3
    ]o
,
    As repeatCount
`" ++ [28040; 24687; 31867; 22411]%N ++ runes_of_ascii "`	,
//	t
//	t
rootA
tag //x
`u8 x,`
    , float64 options1 , char[] uint8x , }
")).
Eval vm_compute in ("<<<T909>>>" ++ terms [mkTok 35 "packet" 1 0 false; mkTok 44 "// `tick` ""quote"" 'q'" 1 6 true; mkTok 42 "zchar" 2 0 false; mkTok 2 "{" 2 6 false; mkTok 44 "// c" 2 8 true; mkTok 3 "}" 3 0 false; mkTok 37 "MetaData" 3 2 false; mkTok 42 "Header" 3 11 false; mkTok 2 "{" 3 18 false; mkTok 42 "Z9_" 3 19 false; mkTok 44 "// a // b" 3 23 true; mkTok 42 "pack" 4 0 false; mkTok 40 "," 4 5 false; mkTok 3 "}" 4 7 false; mkTok 37 "MetaData" 4 9 false; mkTok 42 "asx" 4 18 false; mkTok 2 "{" 4 22 false; mkTok 44 (string_of_bytes [47; 47; 9; 116]%N) 4 24 true; mkTok 42 "u" 5 0 false; mkTok 42 "Header" 5 2 false; mkTok 40 "," 6 4 false; mkTok 14 "zchar[" 7 4 false; mkTok 30 "3" 7 11 false; mkTok 13 "]" 8 4 false; mkTok 42 "o" 8 5 false; mkTok 40 "," 9 0 false; mkTok 42 "As" 10 4 false; mkTok 42 "repeatCount" 10 7 false; mkTok 43 (string_of_bytes [96; 230; 182; 136; 230; 129; 175; 231; 177; 187; 229; 158; 139; 96]%N) 11 0 false; mkTok 40 "," 11 7 false; mkTok 44 (string_of_bytes [47; 47; 9; 116]%N) 12 0 true; mkTok 44 (string_of_bytes [47; 47; 9; 116]%N) 13 0 true; mkTok 42 "rootA" 14 0 false; mkTok 42 "tag" 15 0 false; mkTok 44 "//x" 15 4 true; mkTok 43 "`u8 x,`" 16 0 false; mkTok 40 "," 17 4 false; mkTok 29 "float64" 17 6 false; mkTok 42 "options1" 17 14 false; mkTok 40 "," 17 23 false; mkTok 16 "char[]" 17 25 false; mkTok 42 "uint8x" 17 32 false; mkTok 40 "," 17 39 false; mkTok 3 "}" 17 41 false; mkTok 0 "<EOF>" 18 0 false] (mkPacket (mkPtok 35 "packet" 1 0 0) (Some (mkPtok 3 "}" 17 41 43)) [(DPacket (mkPacketDef (mkSpan (mkPtok 35 "packet" 1 0 0) (mkPtok 3 "}" 3 0 5)) None (mkPtok 35 "packet" 1 0 0) (mkPtok 42 "zchar" 2 0 2) (mkPtok 2 "{" 2 6 3) [] (mkPtok 3 "}" 3 0 5))); (DMeta (mkMetaDef (mkSpan (mkPtok 37 "MetaData" 3 2 6) (mkPtok 3 "}" 4 7 13)) (mkPtok 37 "MetaData" 3 2 6) (mkPtok 42 "Header" 3 11 7) (mkPtok 2 "{" 3 18 8) [(MIRef (mkRefMetaDecl (mkSpan (mkPtok 42 "Z9_" 3 19 9) (mkPtok 40 "," 4 5 12)) (mkPtok 42 "Z9_" 3 19 9) (mkPtok 42 "pack" 4 0 11) None (mkPtok 40 "," 4 5 12)))] (mkPtok 3 "}" 4 7 13))); (DMeta (mkMetaDef (mkSpan (mkPtok 37 "MetaData" 4 9 14) (mkPtok 3 "}" 17 41 43)) (mkPtok 37 "MetaData" 4 9 14) (mkPtok 42 "asx" 4 18 15) (mkPtok 2 "{" 4 22 16) [(MIRef (mkRefMetaDecl (mkSpan (mkPtok 42 "u" 5 0 18) (mkPtok 40 "," 6 4 20)) (mkPtok 42 "u" 5 0 18) (mkPtok 42 "Header" 5 2 19) None (mkPtok 40 "," 6 4 20))); (MIDecl (mkMetaDecl (mkSpan (mkPtok 14 "zchar[" 7 4 21) (mkPtok 40 "," 9 0 25)) (TyFixed (mkSpan (mkPtok 14 "zchar[" 7 4 21) (mkPtok 13 "]" 8 4 23)) (mkFixedString (mkSpan (mkPtok 14 "zchar[" 7 4 21) (mkPtok 13 "]" 8 4 23)) (mkPtok 14 "zchar[" 7 4 21) (mkPtok 30 "3" 7 11 22) (mkPtok 13 "]" 8 4 23))) (mkPtok 42 "o" 8 5 24) None (mkPtok 40 "," 9 0 25))); (MIRef (mkRefMetaDecl (mkSpan (mkPtok 42 "As" 10 4 26) (mkPtok 40 "," 11 7 29)) (mkPtok 42 "As" 10 4 26) (mkPtok 42 "repeatCount" 10 7 27) (Some (mkPtok 43 (string_of_bytes [96; 230; 182; 136; 230; 129; 175; 231; 177; 187; 229; 158; 139; 96]%N) 11 0 28)) (mkPtok 40 "," 11 7 29))); (MIRef (mkRefMetaDecl (mkSpan (mkPtok 42 "rootA" 14 0 32) (mkPtok 40 "," 17 4 36)) (mkPtok 42 "rootA" 14 0 32) (mkPtok 42 "tag" 15 0 33) (Some (mkPtok 43 "`u8 x,`" 16 0 35)) (mkPtok 40 "," 17 4 36))); (MIDecl (mkMetaDecl (mkSpan (mkPtok 29 "float64" 17 6 37) (mkPtok 40 "," 17 23 39)) (TyBasic (mkSpan (mkPtok 29 "float64" 17 6 37) (mkPtok 29 "float64" 17 6 37)) (mkBasicType (mkSpan (mkPtok 29 "float64" 17 6 37) (mkPtok 29 "float64" 17 6 37)) (mkPtok 29 "float64" 17 6 37))) (mkPtok 42 "options1" 17 14 38) None (mkPtok 40 "," 17 23 39))); (MIDecl (mkMetaDecl (mkSpan (mkPtok 16 "char[]" 17 25 40) (mkPtok 40 "," 17 39 42)) (TyDynamic (mkSpan (mkPtok 16 "char[]" 17 25 40) (mkPtok 16 "char[]" 17 25 40)) (mkDynamicString (mkSpan (mkPtok 16 "char[]" 17 25 40) (mkPtok 16 "char[]" 17 25 40)) (mkPtok 16 "char[]" 17 25 40))) (mkPtok 42 "uint8x" 17 32 41) None (mkPtok 40 "," 17 39 42)))] (mkPtok 3 "}" 17 41 43)))])).
Eval vm_compute in ("<<<M941>>>" ++ check (runes_of_ascii "root packet a1
{ uint64 body , @lengthOf(
rootA )
char[ 1
    ] zchar //
, BodyLength // @lengthOf(
,
string_
, char[] float
@lengthOf(lengthOf  ) , //
uint32 asx`" ++ [28040; 24687; 31867; 22411]%N ++ runes_of_ascii "` , char[]	uint8x @calculatedFrom( ""abc""
    )
, @tag( 255 )@calculatedFrom( ""a\\"" )zchar[
// a // b
// @lengthOf(
3 ]
    options1 ,
    } packet charz { @rightPad	( ' ' ) matchKey @lengthOf(u) `u8 x,` // @lengthOf(
,@lengthOf(len) @lengthOf(falsey)
    u @calculatedFrom( ""a\\"" ), match i8i8 as
    Packet {
    [""a	b"" ]
: roots // `tick` ""quote"" 'q'
,
    ""abc"":
    // trailing space 
    trueish	, [""a\\"",
    65535 ] // packet A { u8 x, }
:
    asx
0123456789:// " ++ [27880; 37322]%N ++ runes_of_ascii "
a1	, 1
// packet A { u8 x, }
//
:
    i64_ } ,  match len as Header {	[
    0
    , 0123456789 , 7 ,0 , ""\n""
    ,""a\\""
// a // b
//
]:
o
    , ""x y""
    // `tick` ""quote"" 'q'
    :
    crc [ 3 ,""\" ++ [233]%N ++ runes_of_ascii """  ]
    : lengthOf//
,  [10,""x y"" ] :
    u8x
1
:Packet /// triple
, 007 :
    Z9_ ,
} , @calculatedFrom(
""packet""
    ) @tag(65535) repeat Pad rootA , @tag(
4294967296  )@lengthOf(stringy ) crc //
@lengthOf( uint8x ) `" ++ [28040; 24687; 31867; 22411]%N ++ runes_of_ascii "` , }
    // @lengthOf(
    MetaData u8x { len
calculatedFrom	, // packet A { u8 x, }
u16 asx , } MetaData Logon
{ u16 chars  `` ,
A matchKey `a\`,char[007 ]Header , len uint8x,
    A Packet `line1
line2`
//	t
//x
,
string trueish
    `u8 x,` ,	}
")).
Eval vm_compute in ("<<<M973>>>" ++ check (runes_of_ascii "//x
")).
Eval vm_compute in ("<<<M1005>>>" ++ check (runes_of_ascii "options	{ // " ++ [27880; 37322]%N ++ runes_of_ascii "
zchar=	zchar[ 7
]	;
    asx = 10 ;
zchar
    = ""a\\"" ; float = 10
Logon
= '0';
    }MetaData	crc {
    }
")).
Eval vm_compute in ("<<<M1037>>>" ++ check (runes_of_ascii "root
packet roots
{
    // " ++ [128512]%N ++ runes_of_ascii " emoji
    calculatedFrom // c
x_y_z ,
    } // a // b")).
Eval vm_compute in ("<<<M1069>>>" ++ check (runes_of_ascii "packet BodyLength {
    uint16 tag // packet A { u8 x, }
, uint8 Header @lengthOf(
    chars )
, }
")).
Eval vm_compute in ("<<<M1101>>>" ++ check (runes_of_ascii "


")).
Eval vm_compute in ("<<<M1133>>>" ++ check (runes_of_ascii "root
    packet u {
    @leftPad (	' '
    // packet A { u8 x, }
    ) char[	7 ] msg_type @lengthOf( Header) , }
")).
Eval vm_compute in ("<<<T1133>>>" ++ terms [mkTok 34 "root" 1 0 false; mkTok 35 "packet" 2 4 false; mkTok 42 "u" 2 11 false; mkTok 2 "{" 2 13 false; mkTok 32 "@leftPad" 3 4 false; mkTok 8 "(" 3 13 false; mkTok 33 "' '" 3 15 false; mkTok 44 "// packet A { u8 x, }" 4 4 true; mkTok 6 ")" 5 4 false; mkTok 12 "char[" 5 6 false; mkTok 30 "7" 5 12 false; mkTok 13 "]" 5 14 false; mkTok 42 "msg_type" 5 16 false; mkTok 7 "@lengthOf(" 5 25 false; mkTok 42 "Header" 5 36 false; mkTok 6 ")" 5 42 false; mkTok 40 "," 5 44 false; mkTok 3 "}" 5 46 false; mkTok 0 "<EOF>" 6 0 false] (mkPacket (mkPtok 34 "root" 1 0 0) (Some (mkPtok 3 "}" 5 46 17)) [(DPacket (mkPacketDef (mkSpan (mkPtok 34 "root" 1 0 0) (mkPtok 3 "}" 5 46 17)) (Some (mkPtok 34 "root" 1 0 0)) (mkPtok 35 "packet" 2 4 1) (mkPtok 42 "u" 2 11 2) (mkPtok 2 "{" 2 13 3) [(mkFieldWithAttr (mkSpan (mkPtok 32 "@leftPad" 3 4 4) (mkPtok 40 "," 5 44 16)) [(FAPadding (mkSpan (mkPtok 32 "@leftPad" 3 4 4) (mkPtok 6 ")" 5 4 8)) (mkPaddingAttr (mkSpan (mkPtok 32 "@leftPad" 3 4 4) (mkPtok 6 ")" 5 4 8)) (mkPtok 32 "@leftPad" 3 4 4) (mkPtok 8 "(" 3 13 5) (Some (mkPtok 33 "' '" 3 15 6)) (mkPtok 6 ")" 5 4 8)))] (LengthField (mkSpan (mkPtok 12 "char[" 5 6 9) (mkPtok 40 "," 5 44 16)) (mkLengthFieldDecl (mkSpan (mkPtok 12 "char[" 5 6 9) (mkPtok 40 "," 5 44 16)) (Some (TyFixed (mkSpan (mkPtok 12 "char[" 5 6 9) (mkPtok 13 "]" 5 14 11)) (mkFixedString (mkSpan (mkPtok 12 "char[" 5 6 9) (mkPtok 13 "]" 5 14 11)) (mkPtok 12 "char[" 5 6 9) (mkPtok 30 "7" 5 12 10) (mkPtok 13 "]" 5 14 11)))) (mkPtok 42 "msg_type" 5 16 12) (mkLengthOf (mkSpan (mkPtok 7 "@lengthOf(" 5 25 13) (mkPtok 6 ")" 5 42 15)) (mkPtok 7 "@lengthOf(" 5 25 13) (mkPtok 42 "Header" 5 36 14) (mkPtok 6 ")" 5 42 15)) None (mkPtok 40 "," 5 44 16))))] (mkPtok 3 "}" 5 46 17)))])).
Eval vm_compute in ("<<<M1165>>>" ++ check (runes_of_ascii "packet
    Packet
// " ++ [128512]%N ++ runes_of_ascii " emoji
//	t
{ @leftPad
('\x00' )
    // `tick` ""quote"" 'q'
    match trueish as Pad { 65535 :Header ,
00 :// `tick` ""quote"" 'q'
roots
    [ """ ++ [233]%N ++ runes_of_ascii "t" ++ [233]%N ++ runes_of_ascii """ ,
""1"" , ""packet"" , 42 , 0, ""x y""
    ,
""" ++ [128512]%N ++ runes_of_ascii """ ,
""a	b"" ]
    :
BodyLength
, """ ++ [28040; 24687]%N ++ runes_of_ascii """ : Packet ,
[ """ ++ [128512]%N ++ runes_of_ascii """ ]: body } , } //x
options
    // a // b
    { /// triple
As = u16 }")).
Eval vm_compute in ("<<<M1197>>>" ++ check (runes_of_ascii "  MetaData	i64_ { // trailing space 
falsey asx	`u8 x,`  , } MetaData T
    { }
root packet msg_type
{ zchar[ 7	] options1@calculatedFrom(
    ""a	b"" )
`// not a comment`
    , @calculatedFrom( """ ++ [28040; 24687]%N ++ runes_of_ascii """) matchKey @lengthOf(//x
x_y_z
), uint64 len
,
    @tag(255) u32	A
// " ++ [128512]%N ++ runes_of_ascii " emoji
// packet A { u8 x, }
`` ,
    // c
    } // a // b")).
Eval vm_compute in ("<<<M1229>>>" ++ check (runes_of_ascii "packet T { @lengthOf(
Foo ) @tag( 10 )@lengthOf(rootA )chars `it's`,repeat
    char roots //	t
,
@tag(	0 ) match  charz as leftPad { 0 :tag
,} , Z9_ // trailing space 
u128 ,
    int32 int@calculatedFrom(  ""\n""  ) , @lengthOf( int )	Z9_
    // " ++ [27880; 37322]%N ++ runes_of_ascii "
    {
    repeat	char[] calculatedFrom`crlf
line`
,	zchar[0
    ] o @calculatedFrom( ""\" ++ [233]%N ++ runes_of_ascii """ ) ,
    u8x{_x
, // @lengthOf(
zchar[ 3 ] stringy @lengthOf( T) //	t
,
    // trailing space 
    uint8
body
    , char[]falsey
// `tick` ""quote"" 'q'
// @lengthOf(
@calculatedFrom( ""// no comment"" ) `" ++ [233]%N ++ runes_of_ascii "` , /// triple
}
, }
    , @tag(
1 )@calculatedFrom(""a\\""
    )
    // c
    @rightPad(
    '0')
    i32 tag @calculatedFrom(
    ""a\""b""
) `crlf
line` , match
    BodyLength as	f32a
    {[ 3
    ,""`tick`"" , ""`tick`"" , 007 , ""1"" , 65535// " ++ [128512]%N ++ runes_of_ascii " emoji
, //	t
1	,  0
] :
Z9_ ,
[ ""CRC32"" ,
    ""a\\""
] :
chars
,
""a\""b""
: roots , 1
: f32a
    , // " ++ [27880; 37322]%N ++ runes_of_ascii "
}
    , trueish{
//
/// triple
zchar{ match Pad
as tag {  [
0123456789 , 00
,
    7,""a	b"" , // @lengthOf(
""CRC32"" ] :
    options1 ,
    // @lengthOf(
    } , pack  { zchar[ 10
]
    chars ,}	,u `crlf
line`  , repeat // " ++ [27880; 37322]%N ++ runes_of_ascii "
int32 _x `two words` ,  } , }, // trailing space 
falsey
    As , } options {falsey // " ++ [128512]%N ++ runes_of_ascii " emoji
=
    ""abc"" ; Foo=	false ; } root
packet
A { @lengthOf(uint8x ) match u8x as
msg_type
{ [
007 , 00 ]: u128 , [	255 ,// a // b
""{,}""
    ,
    10
// " ++ [128512]%N ++ runes_of_ascii " emoji
// " ++ [27880; 37322]%N ++ runes_of_ascii "
, ""// no comment""	,""""  ,
    """ ++ [128512]%N ++ runes_of_ascii """ ] :
T ,255:string_ , ""`tick`"" :
As
},
}MetaData chars
{
char[	65535 ]
roots, i64 u128 , char[ 42]	pack // " ++ [128512]%N ++ runes_of_ascii " emoji
,} //x")).
Eval vm_compute in ("<<<M1261>>>" ++ check (runes_of_ascii "  options { } packet Logon{} packet Foo
{
    uint8x _x // a // b
`" ++ [28040; 24687; 31867; 22411]%N ++ runes_of_ascii "` ,
    } packet
u8x	{
rootA , }
    options
    // packet A { u8 x, }
    {
msg_type = false stringy=
    ' '
    } 	 ")).
Eval vm_compute in ("<<<M1293>>>" ++ check (runes_of_ascii "packet  lengthOf{
@tag( 65535 )	match crc as
    i8i8 {[65535 , 42 , ""it's"", ""x y"",
    7,
    // trailing space 
    ""a	b""
] : float , 00
: MetaDataX , 00 : options1 // " ++ [128512]%N ++ runes_of_ascii " emoji
,	1 :a1, 0 : packetx
    ,}
    , }")).
Eval vm_compute in ("<<<M1325>>>" ++ check (runes_of_ascii "root packet u128 {
@lengthOf(
// `tick` ""quote"" 'q'
//x
T) repeat Header
    , @tag(
    255) @tag(
    //x
    255 ) //x
u64
    crc
    , @tag( 65535
) @lengthOf( u128
)uint32 chars ,	} packet
i64_	{ i8 string_ @calculatedFrom(	""it's"" ) , @leftPad
( ' '
//	t
// " ++ [27880; 37322]%N ++ runes_of_ascii "
) repeat //x
Pad
{ repeat MetaDataX {
o packetx , roots Header ,
match falsey as
    roots {007  :msg_type ,[ 10	] :	T"""" // c
:Packet,	42
:msg_type ,
    }
, string
    string_`tab	here`
    , } ,
repeat  float64  repeatCount`doc` // packet A { u8 x, }
, // @lengthOf(
}
,match falsey as u8x
    { ""\" ++ [233]%N ++ runes_of_ascii """ : metadata 0 :repeatCount
    ,
    0123456789
:repeatCount , ""packet"": Foo
// @lengthOf(
// @lengthOf(
, 0123456789
: tag ,
    },
@lengthOf(
As )
match A	as // " ++ [128512]%N ++ runes_of_ascii " emoji
repeatCount{
    42  : a1
    ,65535
    :
Packet , 7 :	len """" : rootA """ ++ [233]%N ++ runes_of_ascii "t" ++ [233]%N ++ runes_of_ascii """ : rootA},
    @calculatedFrom( ""CRC32"" )
    repeatCount @calculatedFrom( ""`tick`"" )	,
f32 crc `doc` ,
crc  ,
// c
// packet A { u8 x, }
char[] Header
,
} 	 ")).
Eval vm_compute in ("<<<M1357>>>" ++ check (runes_of_ascii "options{ o = u8
    ; pack = true ; x = string
// @lengthOf(
// `tick` ""quote"" 'q'
} packet i64_// packet A { u8 x, }
{ @tag( 42
    /// triple
    )	@tag( 10
)	@lengthOf(len )
    match i8i8 as int // a // b
{ [
""""
,007 , ""abc""
    ,
00 , 255
, 00	,
    """ ++ [28040; 24687]%N ++ runes_of_ascii """]
    : MetaDataX ,
    10: _x , 4294967296 :BodyLength
    ,
    ""packet"" : len // packet A { u8 x, }
,""a	b""	: float , 10
    : f32a
}
, zchar  `// not a comment`/// triple
, u64 BodyLength	, @leftPad
    /// triple
    (
)@calculatedFrom( ""abc""
    ) match
Foo as //
T {
    [
    10
,""a	b"" ,	0123456789,
""it's""	, 3 ] :	pack ,  [ 3 ,
""CRC32"",
""it's""
, // @lengthOf(
""CRC32"" ,
""CRC32""
    ] :
crc , // c
""packet"" : //
msg_type ,
}
    ,
string_ o
    , @leftPad( ) char[] Header//	t
`{ , }`
    ,
@tag(  007)
    @lengthOf(  u128)
pack
    f32a , // packet A { u8 x, }
repeat tag{ repeat
As
    {
trueish,	}
,
repeat
    trueish { zchar[ 65535 ]stringy	,
    // " ++ [27880; 37322]%N ++ runes_of_ascii "
    }, zchar[ 65535]repeatCount// packet A { u8 x, }
, repeat u8 stringy , }  ,
} MetaData _x {string	o `" ++ [28040; 24687; 31867; 22411]%N ++ runes_of_ascii "`,matchKey trueish ,}
options
    { Packet=
' ' ; }
")).
Eval vm_compute in ("<<<T1357>>>" ++ terms [mkTok 1 "options" 1 0 false; mkTok 2 "{" 1 7 false; mkTok 42 "o" 1 9 false; mkTok 4 "=" 1 11 false; mkTok 20 "u8" 1 13 false; mkTok 41 ";" 2 4 false; mkTok 42 "pack" 2 6 false; mkTok 4 "=" 2 11 false; mkTok 10 "true" 2 13 false; mkTok 41 ";" 2 18 false; mkTok 42 "x" 2 20 false; mkTok 4 "=" 2 22 false; mkTok 15 "string" 2 24 false; mkTok 44 "// @lengthOf(" 3 0 true; mkTok 44 "// `tick` ""quote"" 'q'" 4 0 true; mkTok 3 "}" 5 0 false; mkTok 35 "packet" 5 2 false; mkTok 42 "i64_" 5 9 false; mkTok 44 "// packet A { u8 x, }" 5 13 true; mkTok 2 "{" 6 0 false; mkTok 9 "@tag(" 6 2 false; mkTok 30 "42" 6 8 false; mkTok 44 "/// triple" 7 4 true; mkTok 6 ")" 8 4 false; mkTok 9 "@tag(" 8 6 false; mkTok 30 "10" 8 12 false; mkTok 6 ")" 9 0 false; mkTok 7 "@lengthOf(" 9 2 false; mkTok 42 "len" 9 12 false; mkTok 6 ")" 9 16 false; mkTok 38 "match" 10 4 false; mkTok 42 "i8i8" 10 10 false; mkTok 17 "as" 10 15 false; mkTok 42 "int" 10 18 false; mkTok 44 "// a // b" 10 22 true; mkTok 2 "{" 11 0 false; mkTok 18 "[" 11 2 false; mkTok 31 """""" 12 0 false; mkTok 40 "," 13 0 false; mkTok 30 "007" 13 1 false; mkTok 40 "," 13 5 false; mkTok 31 """abc""" 13 7 false; mkTok 40 "," 14 4 false; mkTok 30 "00" 15 0 false; mkTok 40 "," 15 3 false; mkTok 30 "255" 15 5 false; mkTok 40 "," 16 0 false; mkTok 30 "00" 16 2 false; mkTok 40 "," 16 5 false; mkTok 31 (string_of_bytes [34; 230; 182; 136; 230; 129; 175; 34]%N) 17 4 false; mkTok 13 "]" 17 8 false; mkTok 39 ":" 18 4 false; mkTok 42 "MetaDataX" 18 6 false; mkTok 40 "," 18 16 false; mkTok 30 "10" 19 4 false; mkTok 39 ":" 19 6 false; mkTok 42 "_x" 19 8 false; mkTok 40 "," 19 11 false; mkTok 30 "4294967296" 19 13 false; mkTok 39 ":" 19 24 false; mkTok 42 "BodyLength" 19 25 false; mkTok 40 "," 20 4 false; mkTok 31 """packet""" 21 4 false; mkTok 39 ":" 21 13 false; mkTok 42 "len" 21 15 false; mkTok 44 "// packet A { u8 x, }" 21 19 true; mkTok 40 "," 22 0 false; mkTok 31 (string_of_bytes [34; 97; 9; 98; 34]%N) 22 1 false; mkTok 39 ":" 22 7 false; mkTok 42 "float" 22 9 false; mkTok 40 "," 22 15 false; mkTok 30 "10" 22 17 false; mkTok 39 ":" 23 4 false; mkTok 42 "f32a" 23 6 false; mkTok 3 "}" 24 0 false; mkTok 40 "," 25 0 false; mkTok 42 "zchar" 25 2 false; mkTok 43 "`// not a comment`" 25 9 false; mkTok 44 "/// triple" 25 27 true; mkTok 40 "," 26 0 false; mkTok 23 "u64" 26 2 false; mkTok 42 "BodyLength" 26 6 false; mkTok 40 "," 26 17 false; mkTok 32 "@leftPad" 26 19 false; mkTok 44 "/// triple" 27 4 true; mkTok 8 "(" 28 4 false; mkTok 6 ")" 29 0 false; mkTok 5 "@calculatedFrom(" 29 1 false; mkTok 31 """abc""" 29 18 false; mkTok 6 ")" 30 4 false; mkTok 38 "match" 30 6 false; mkTok 42 "Foo" 31 0 false; mkTok 17 "as" 31 4 false; mkTok 44 "//" 31 7 true; mkTok 42 "T" 32 0 false; mkTok 2 "{" 32 2 false; mkTok 18 "[" 33 4 false; mkTok 30 "10" 34 4 false; mkTok 40 "," 35 0 false; mkTok 31 (string_of_bytes [34; 97; 9; 98; 34]%N) 35 1 false; mkTok 40 "," 35 7 false; mkTok 30 "0123456789" 35 9 false; mkTok 40 "," 35 19 false; mkTok 31 """it's""" 36 0 false; mkTok 40 "," 36 7 false; mkTok 30 "3" 36 9 false; mkTok 13 "]" 36 11 false; mkTok 39 ":" 36 13 false; mkTok 42 "pack" 36 15 false; mkTok 40 "," 36 20 false; mkTok 18 "[" 36 23 false; mkTok 30 "3" 36 25 false; mkTok 40 "," 36 27 false; mkTok 31 """CRC32""" 37 0 false; mkTok 40 "," 37 7 false; mkTok 31 """it's""" 38 0 false; mkTok 40 "," 39 0 false; mkTok 44 "// @lengthOf(" 39 2 true; mkTok 31 """CRC32""" 40 0 false; mkTok 40 "," 40 8 false; mkTok 31 """CRC32""" 41 0 false; mkTok 13 "]" 42 4 false; mkTok 39 ":" 42 6 false; mkTok 42 "crc" 43 0 false; mkTok 40 "," 43 4 false; mkTok 44 "// c" 43 6 true; mkTok 31 """packet""" 44 0 false; mkTok 39 ":" 44 9 false; mkTok 44 "//" 44 11 true; mkTok 42 "msg_type" 45 0 false; mkTok 40 "," 45 9 false; mkTok 3 "}" 46 0 false; mkTok 40 "," 47 4 false; mkTok 42 "string_" 48 0 false; mkTok 42 "o" 48 8 false; mkTok 40 "," 49 4 false; mkTok 32 "@leftPad" 49 6 false; mkTok 8 "(" 49 14 false; mkTok 6 ")" 49 16 false; mkTok 16 "char[]" 49 18 false; mkTok 42 "Header" 49 25 false; mkTok 44 (string_of_bytes [47; 47; 9; 116]%N) 49 31 true; mkTok 43 "`{ , }`" 50 0 false; mkTok 40 "," 51 4 false; mkTok 9 "@tag(" 52 0 false; mkTok 30 "007" 52 7 false; mkTok 6 ")" 52 10 false; mkTok 7 "@lengthOf(" 53 4 false; mkTok 42 "u128" 53 16 false; mkTok 6 ")" 53 20 false; mkTok 42 "pack" 54 0 false; mkTok 42 "f32a" 55 4 false; mkTok 40 "," 55 9 false; mkTok 44 "// packet A { u8 x, }" 55 11 true; mkTok 36 "repeat" 56 0 false; mkTok 42 "tag" 56 7 false; mkTok 2 "{" 56 10 false; mkTok 36 "repeat" 56 12 false; mkTok 42 "As" 57 0 false; mkTok 2 "{" 58 4 false; mkTok 42 "trueish" 59 0 false; mkTok 40 "," 59 7 false; mkTok 3 "}" 59 9 false; mkTok 40 "," 60 0 false; mkTok 36 "repeat" 61 0 false; mkTok 42 "trueish" 62 4 false; mkTok 2 "{" 62 12 false; mkTok 14 "zchar[" 62 14 false; mkTok 30 "65535" 62 21 false; mkTok 13 "]" 62 27 false; mkTok 42 "stringy" 62 28 false; mkTok 40 "," 62 36 false; mkTok 44 (string_of_bytes [47; 47; 32; 230; 179; 168; 233; 135; 138]%N) 63 4 true; mkTok 3 "}" 64 4 false; mkTok 40 "," 64 5 false; mkTok 14 "zchar[" 64 7 false; mkTok 30 "65535" 64 14 false; mkTok 13 "]" 64 19 false; mkTok 42 "repeatCount" 64 20 false; mkTok 44 "// packet A { u8 x, }" 64 31 true; mkTok 40 "," 65 0 false; mkTok 36 "repeat" 65 2 false; mkTok 20 "u8" 65 9 false; mkTok 42 "stringy" 65 12 false; mkTok 40 "," 65 20 false; mkTok 3 "}" 65 22 false; mkTok 40 "," 65 25 false; mkTok 3 "}" 66 0 false; mkTok 37 "MetaData" 66 2 false; mkTok 42 "_x" 66 11 false; mkTok 2 "{" 66 14 false; mkTok 15 "string" 66 15 false; mkTok 42 "o" 66 22 false; mkTok 43 (string_of_bytes [96; 230; 182; 136; 230; 129; 175; 231; 177; 187; 229; 158; 139; 96]%N) 66 24 false; mkTok 40 "," 66 30 false; mkTok 42 "matchKey" 66 31 false; mkTok 42 "trueish" 66 40 false; mkTok 40 "," 66 48 false; mkTok 3 "}" 66 49 false; mkTok 1 "options" 67 0 false; mkTok 2 "{" 68 4 false; mkTok 42 "Packet" 68 6 false; mkTok 4 "=" 68 12 false; mkTok 33 "' '" 69 0 false; mkTok 41 ";" 69 4 false; mkTok 3 "}" 69 6 false; mkTok 0 "<EOF>" 70 0 false] (mkPacket (mkPtok 1 "options" 1 0 0) (Some (mkPtok 3 "}" 69 6 205)) [(DOption (mkOptionDef (mkSpan (mkPtok 1 "options" 1 0 0) (mkPtok 3 "}" 5 0 15)) (mkPtok 1 "options" 1 0 0) (mkPtok 2 "{" 1 7 1) [(mkOptionDecl (mkSpan (mkPtok 42 "o" 1 9 2) (mkPtok 41 ";" 2 4 5)) (mkPtok 42 "o" 1 9 2) (mkPtok 4 "=" 1 11 3) (VType (mkSpan (mkPtok 20 "u8" 1 13 4) (mkPtok 20 "u8" 1 13 4)) (TyBasic (mkSpan (mkPtok 20 "u8" 1 13 4) (mkPtok 20 "u8" 1 13 4)) (mkBasicType (mkSpan (mkPtok 20 "u8" 1 13 4) (mkPtok 20 "u8" 1 13 4)) (mkPtok 20 "u8" 1 13 4)))) (Some (mkPtok 41 ";" 2 4 5))); (mkOptionDecl (mkSpan (mkPtok 42 "pack" 2 6 6) (mkPtok 41 ";" 2 18 9)) (mkPtok 42 "pack" 2 6 6) (mkPtok 4 "=" 2 11 7) (VTrue (mkSpan (mkPtok 10 "true" 2 13 8) (mkPtok 10 "true" 2 13 8)) (mkPtok 10 "true" 2 13 8)) (Some (mkPtok 41 ";" 2 18 9))); (mkOptionDecl (mkSpan (mkPtok 42 "x" 2 20 10) (mkPtok 15 "string" 2 24 12)) (mkPtok 42 "x" 2 20 10) (mkPtok 4 "=" 2 22 11) (VType (mkSpan (mkPtok 15 "string" 2 24 12) (mkPtok 15 "string" 2 24 12)) (TyDynamic (mkSpan (mkPtok 15 "string" 2 24 12) (mkPtok 15 "string" 2 24 12)) (mkDynamicString (mkSpan (mkPtok 15 "string" 2 24 12) (mkPtok 15 "string" 2 24 12)) (mkPtok 15 "string" 2 24 12)))) None)] (mkPtok 3 "}" 5 0 15))); (DPacket (mkPacketDef (mkSpan (mkPtok 35 "packet" 5 2 16) (mkPtok 3 "}" 66 0 187)) None (mkPtok 35 "packet" 5 2 16) (mkPtok 42 "i64_" 5 9 17) (mkPtok 2 "{" 6 0 19) [(mkFieldWithAttr (mkSpan (mkPtok 9 "@tag(" 6 2 20) (mkPtok 40 "," 25 0 75)) [(FATag (mkSpan (mkPtok 9 "@tag(" 6 2 20) (mkPtok 6 ")" 8 4 23)) (mkTagAttr (mkSpan (mkPtok 9 "@tag(" 6 2 20) (mkPtok 6 ")" 8 4 23)) (mkPtok 9 "@tag(" 6 2 20) (mkPtok 30 "42" 6 8 21) (mkPtok 6 ")" 8 4 23))); (FATag (mkSpan (mkPtok 9 "@tag(" 8 6 24) (mkPtok 6 ")" 9 0 26)) (mkTagAttr (mkSpan (mkPtok 9 "@tag(" 8 6 24) (mkPtok 6 ")" 9 0 26)) (mkPtok 9 "@tag(" 8 6 24) (mkPtok 30 "10" 8 12 25) (mkPtok 6 ")" 9 0 26))); (FALengthOf (mkSpan (mkPtok 7 "@lengthOf(" 9 2 27) (mkPtok 6 ")" 9 16 29)) (mkLengthOf (mkSpan (mkPtok 7 "@lengthOf(" 9 2 27) (mkPtok 6 ")" 9 16 29)) (mkPtok 7 "@lengthOf(" 9 2 27) (mkPtok 42 "len" 9 12 28) (mkPtok 6 ")" 9 16 29)))] (MatchField (mkSpan (mkPtok 38 "match" 10 4 30) (mkPtok 40 "," 25 0 75)) (mkMatchFieldDecl (mkSpan (mkPtok 38 "match" 10 4 30) (mkPtok 3 "}" 24 0 74)) (mkPtok 38 "match" 10 4 30) (mkPtok 42 "i8i8" 10 10 31) (mkPtok 17 "as" 10 15 32) (mkPtok 42 "int" 10 18 33) (mkPtok 2 "{" 11 0 35) [(mkMatchPair (mkSpan (mkPtok 18 "[" 11 2 36) (mkPtok 40 "," 18 16 53)) (MKList (mkKeyList (mkSpan (mkPtok 18 "[" 11 2 36) (mkPtok 13 "]" 17 8 50)) (mkPtok 18 "[" 11 2 36) (mkPtok 31 """""" 12 0 37) [((mkPtok 40 "," 13 0 38), (mkPtok 30 "007" 13 1 39)); ((mkPtok 40 "," 13 5 40), (mkPtok 31 """abc""" 13 7 41)); ((mkPtok 40 "," 14 4 42), (mkPtok 30 "00" 15 0 43)); ((mkPtok 40 "," 15 3 44), (mkPtok 30 "255" 15 5 45)); ((mkPtok 40 "," 16 0 46), (mkPtok 30 "00" 16 2 47)); ((mkPtok 40 "," 16 5 48), (mkPtok 31 (string_of_bytes [34; 230; 182; 136; 230; 129; 175; 34]%N) 17 4 49))] (mkPtok 13 "]" 17 8 50))) (mkPtok 39 ":" 18 4 51) (mkPtok 42 "MetaDataX" 18 6 52) (Some (mkPtok 40 "," 18 16 53))); (mkMatchPair (mkSpan (mkPtok 30 "10" 19 4 54) (mkPtok 40 "," 19 11 57)) (MKDigits (mkPtok 30 "10" 19 4 54)) (mkPtok 39 ":" 19 6 55) (mkPtok 42 "_x" 19 8 56) (Some (mkPtok 40 "," 19 11 57))); (mkMatchPair (mkSpan (mkPtok 30 "4294967296" 19 13 58) (mkPtok 40 "," 20 4 61)) (MKDigits (mkPtok 30 "4294967296" 19 13 58)) (mkPtok 39 ":" 19 24 59) (mkPtok 42 "BodyLength" 19 25 60) (Some (mkPtok 40 "," 20 4 61))); (mkMatchPair (mkSpan (mkPtok 31 """packet""" 21 4 62) (mkPtok 40 "," 22 0 66)) (MKString (mkPtok 31 """packet""" 21 4 62)) (mkPtok 39 ":" 21 13 63) (mkPtok 42 "len" 21 15 64) (Some (mkPtok 40 "," 22 0 66))); (mkMatchPair (mkSpan (mkPtok 31 (string_of_bytes [34; 97; 9; 98; 34]%N) 22 1 67) (mkPtok 40 "," 22 15 70)) (MKString (mkPtok 31 (string_of_bytes [34; 97; 9; 98; 34]%N) 22 1 67)) (mkPtok 39 ":" 22 7 68) (mkPtok 42 "float" 22 9 69) (Some (mkPtok 40 "," 22 15 70))); (mkMatchPair (mkSpan (mkPtok 30 "10" 22 17 71) (mkPtok 42 "f32a" 23 6 73)) (MKDigits (mkPtok 30 "10" 22 17 71)) (mkPtok 39 ":" 23 4 72) (mkPtok 42 "f32a" 23 6 73) None)] (mkPtok 3 "}" 24 0 74)) (mkPtok 40 "," 25 0 75))); (mkFieldWithAttr (mkSpan (mkPtok 42 "zchar" 25 2 76) (mkPtok 40 "," 26 0 79)) [] (ObjectField (mkSpan (mkPtok 42 "zchar" 25 2 76) (mkPtok 40 "," 26 0 79)) None (mkPtok 42 "zchar" 25 2 76) None (Some (mkPtok 43 "`// not a comment`" 25 9 77)) (mkPtok 40 "," 26 0 79))); (mkFieldWithAttr (mkSpan (mkPtok 23 "u64" 26 2 80) (mkPtok 40 "," 26 17 82)) [] (MetaField (mkSpan (mkPtok 23 "u64" 26 2 80) (mkPtok 40 "," 26 17 82)) None (mkMetaDecl (mkSpan (mkPtok 23 "u64" 26 2 80) (mkPtok 40 "," 26 17 82)) (TyBasic (mkSpan (mkPtok 23 "u64" 26 2 80) (mkPtok 23 "u64" 26 2 80)) (mkBasicType (mkSpan (mkPtok 23 "u64" 26 2 80) (mkPtok 23 "u64" 26 2 80)) (mkPtok 23 "u64" 26 2 80))) (mkPtok 42 "BodyLength" 26 6 81) None (mkPtok 40 "," 26 17 82)))); (mkFieldWithAttr (mkSpan (mkPtok 32 "@leftPad" 26 19 83) (mkPtok 40 "," 47 4 132)) [(FAPadding (mkSpan (mkPtok 32 "@leftPad" 26 19 83) (mkPtok 6 ")" 29 0 86)) (mkPaddingAttr (mkSpan (mkPtok 32 "@leftPad" 26 19 83) (mkPtok 6 ")" 29 0 86)) (mkPtok 32 "@leftPad" 26 19 83) (mkPtok 8 "(" 28 4 85) None (mkPtok 6 ")" 29 0 86))); (FACalculatedFrom (mkSpan (mkPtok 5 "@calculatedFrom(" 29 1 87) (mkPtok 6 ")" 30 4 89)) (mkCalculatedFrom (mkSpan (mkPtok 5 "@calculatedFrom(" 29 1 87) (mkPtok 6 ")" 30 4 89)) (mkPtok 5 "@calculatedFrom(" 29 1 87) (mkPtok 31 """abc""" 29 18 88) (mkPtok 6 ")" 30 4 89)))] (MatchField (mkSpan (mkPtok 38 "match" 30 6 90) (mkPtok 40 "," 47 4 132)) (mkMatchFieldDecl (mkSpan (mkPtok 38 "match" 30 6 90) (mkPtok 3 "}" 46 0 131)) (mkPtok 38 "match" 30 6 90) (mkPtok 42 "Foo" 31 0 91) (mkPtok 17 "as" 31 4 92) (mkPtok 42 "T" 32 0 94) (mkPtok 2 "{" 32 2 95) [(mkMatchPair (mkSpan (mkPtok 18 "[" 33 4 96) (mkPtok 40 "," 36 20 109)) (MKList (mkKeyList (mkSpan (mkPtok 18 "[" 33 4 96) (mkPtok 13 "]" 36 11 106)) (mkPtok 18 "[" 33 4 96) (mkPtok 30 "10" 34 4 97) [((mkPtok 40 "," 35 0 98), (mkPtok 31 (string_of_bytes [34; 97; 9; 98; 34]%N) 35 1 99)); ((mkPtok 40 "," 35 7 100), (mkPtok 30 "0123456789" 35 9 101)); ((mkPtok 40 "," 35 19 102), (mkPtok 31 """it's""" 36 0 103)); ((mkPtok 40 "," 36 7 104), (mkPtok 30 "3" 36 9 105))] (mkPtok 13 "]" 36 11 106))) (mkPtok 39 ":" 36 13 107) (mkPtok 42 "pack" 36 15 108) (Some (mkPtok 40 "," 36 20 109))); (mkMatchPair (mkSpan (mkPtok 18 "[" 36 23 110) (mkPtok 40 "," 43 4 124)) (MKList (mkKeyList (mkSpan (mkPtok 18 "[" 36 23 110) (mkPtok 13 "]" 42 4 121)) (mkPtok 18 "[" 36 23 110) (mkPtok 30 "3" 36 25 111) [((mkPtok 40 "," 36 27 112), (mkPtok 31 """CRC32""" 37 0 113)); ((mkPtok 40 "," 37 7 114), (mkPtok 31 """it's""" 38 0 115)); ((mkPtok 40 "," 39 0 116), (mkPtok 31 """CRC32""" 40 0 118)); ((mkPtok 40 "," 40 8 119), (mkPtok 31 """CRC32""" 41 0 120))] (mkPtok 13 "]" 42 4 121))) (mkPtok 39 ":" 42 6 122) (mkPtok 42 "crc" 43 0 123) (Some (mkPtok 40 "," 43 4 124))); (mkMatchPair (mkSpan (mkPtok 31 """packet""" 44 0 126) (mkPtok 40 "," 45 9 130)) (MKString (mkPtok 31 """packet""" 44 0 126)) (mkPtok 39 ":" 44 9 127) (mkPtok 42 "msg_type" 45 0 129) (Some (mkPtok 40 "," 45 9 130)))] (mkPtok 3 "}" 46 0 131)) (mkPtok 40 "," 47 4 132))); (mkFieldWithAttr (mkSpan (mkPtok 42 "string_" 48 0 133) (mkPtok 40 "," 49 4 135)) [] (ObjectField (mkSpan (mkPtok 42 "string_" 48 0 133) (mkPtok 40 "," 49 4 135)) None (mkPtok 42 "string_" 48 0 133) (Some (mkPtok 42 "o" 48 8 134)) None (mkPtok 40 "," 49 4 135))); (mkFieldWithAttr (mkSpan (mkPtok 32 "@leftPad" 49 6 136) (mkPtok 40 "," 51 4 143)) [(FAPadding (mkSpan (mkPtok 32 "@leftPad" 49 6 136) (mkPtok 6 ")" 49 16 138)) (mkPaddingAttr (mkSpan (mkPtok 32 "@leftPad" 49 6 136) (mkPtok 6 ")" 49 16 138)) (mkPtok 32 "@leftPad" 49 6 136) (mkPtok 8 "(" 49 14 137) None (mkPtok 6 ")" 49 16 138)))] (MetaField (mkSpan (mkPtok 16 "char[]" 49 18 139) (mkPtok 40 "," 51 4 143)) None (mkMetaDecl (mkSpan (mkPtok 16 "char[]" 49 18 139) (mkPtok 40 "," 51 4 143)) (TyDynamic (mkSpan (mkPtok 16 "char[]" 49 18 139) (mkPtok 16 "char[]" 49 18 139)) (mkDynamicString (mkSpan (mkPtok 16 "char[]" 49 18 139) (mkPtok 16 "char[]" 49 18 139)) (mkPtok 16 "char[]" 49 18 139))) (mkPtok 42 "Header" 49 25 140) (Some (mkPtok 43 "`{ , }`" 50 0 142)) (mkPtok 40 "," 51 4 143)))); (mkFieldWithAttr (mkSpan (mkPtok 9 "@tag(" 52 0 144) (mkPtok 40 "," 55 9 152)) [(FATag (mkSpan (mkPtok 9 "@tag(" 52 0 144) (mkPtok 6 ")" 52 10 146)) (mkTagAttr (mkSpan (mkPtok 9 "@tag(" 52 0 144) (mkPtok 6 ")" 52 10 146)) (mkPtok 9 "@tag(" 52 0 144) (mkPtok 30 "007" 52 7 145) (mkPtok 6 ")" 52 10 146))); (FALengthOf (mkSpan (mkPtok 7 "@lengthOf(" 53 4 147) (mkPtok 6 ")" 53 20 149)) (mkLengthOf (mkSpan (mkPtok 7 "@lengthOf(" 53 4 147) (mkPtok 6 ")" 53 20 149)) (mkPtok 7 "@lengthOf(" 53 4 147) (mkPtok 42 "u128" 53 16 148) (mkPtok 6 ")" 53 20 149)))] (ObjectField (mkSpan (mkPtok 42 "pack" 54 0 150) (mkPtok 40 "," 55 9 152)) None (mkPtok 42 "pack" 54 0 150) (Some (mkPtok 42 "f32a" 55 4 151)) None (mkPtok 40 "," 55 9 152))); (mkFieldWithAttr (mkSpan (mkPtok 36 "repeat" 56 0 154) (mkPtok 40 "," 65 25 186)) [] (InerObjectField (mkSpan (mkPtok 36 "repeat" 56 0 154) (mkPtok 40 "," 65 25 186)) (Some (mkPtok 36 "repeat" 56 0 154)) (InerObjectDecl (mkSpan (mkPtok 42 "tag" 56 7 155) (mkPtok 3 "}" 65 22 185)) (mkPtok 42 "tag" 56 7 155) (mkPtok 2 "{" 56 10 156) [(InerObjectField (mkSpan (mkPtok 36 "repeat" 56 12 157) (mkPtok 40 "," 60 0 163)) (Some (mkPtok 36 "repeat" 56 12 157)) (InerObjectDecl (mkSpan (mkPtok 42 "As" 57 0 158) (mkPtok 3 "}" 59 9 162)) (mkPtok 42 "As" 57 0 158) (mkPtok 2 "{" 58 4 159) [(ObjectField (mkSpan (mkPtok 42 "trueish" 59 0 160) (mkPtok 40 "," 59 7 161)) None (mkPtok 42 "trueish" 59 0 160) None None (mkPtok 40 "," 59 7 161))] (mkPtok 3 "}" 59 9 162)) (mkPtok 40 "," 60 0 163)); (InerObjectField (mkSpan (mkPtok 36 "repeat" 61 0 164) (mkPtok 40 "," 64 5 174)) (Some (mkPtok 36 "repeat" 61 0 164)) (InerObjectDecl (mkSpan (mkPtok 42 "trueish" 62 4 165) (mkPtok 3 "}" 64 4 173)) (mkPtok 42 "trueish" 62 4 165) (mkPtok 2 "{" 62 12 166) [(MetaField (mkSpan (mkPtok 14 "zchar[" 62 14 167) (mkPtok 40 "," 62 36 171)) None (mkMetaDecl (mkSpan (mkPtok 14 "zchar[" 62 14 167) (mkPtok 40 "," 62 36 171)) (TyFixed (mkSpan (mkPtok 14 "zchar[" 62 14 167) (mkPtok 13 "]" 62 27 169)) (mkFixedString (mkSpan (mkPtok 14 "zchar[" 62 14 167) (mkPtok 13 "]" 62 27 169)) (mkPtok 14 "zchar[" 62 14 167) (mkPtok 30 "65535" 62 21 168) (mkPtok 13 "]" 62 27 169))) (mkPtok 42 "stringy" 62 28 170) None (mkPtok 40 "," 62 36 171)))] (mkPtok 3 "}" 64 4 173)) (mkPtok 40 "," 64 5 174)); (MetaField (mkSpan (mkPtok 14 "zchar[" 64 7 175) (mkPtok 40 "," 65 0 180)) None (mkMetaDecl (mkSpan (mkPtok 14 "zchar[" 64 7 175) (mkPtok 40 "," 65 0 180)) (TyFixed (mkSpan (mkPtok 14 "zchar[" 64 7 175) (mkPtok 13 "]" 64 19 177)) (mkFixedString (mkSpan (mkPtok 14 "zchar[" 64 7 175) (mkPtok 13 "]" 64 19 177)) (mkPtok 14 "zchar[" 64 7 175) (mkPtok 30 "65535" 64 14 176) (mkPtok 13 "]" 64 19 177))) (mkPtok 42 "repeatCount" 64 20 178) None (mkPtok 40 "," 65 0 180))); (MetaField (mkSpan (mkPtok 36 "repeat" 65 2 181) (mkPtok 40 "," 65 20 184)) (Some (mkPtok 36 "repeat" 65 2 181)) (mkMetaDecl (mkSpan (mkPtok 20 "u8" 65 9 182) (mkPtok 40 "," 65 20 184)) (TyBasic (mkSpan (mkPtok 20 "u8" 65 9 182) (mkPtok 20 "u8" 65 9 182)) (mkBasicType (mkSpan (mkPtok 20 "u8" 65 9 182) (mkPtok 20 "u8" 65 9 182)) (mkPtok 20 "u8" 65 9 182))) (mkPtok 42 "stringy" 65 12 183) None (mkPtok 40 "," 65 20 184)))] (mkPtok 3 "}" 65 22 185)) (mkPtok 40 "," 65 25 186)))] (mkPtok 3 "}" 66 0 187))); (DMeta (mkMetaDef (mkSpan (mkPtok 37 "MetaData" 66 2 188) (mkPtok 3 "}" 66 49 198)) (mkPtok 37 "MetaData" 66 2 188) (mkPtok 42 "_x" 66 11 189) (mkPtok 2 "{" 66 14 190) [(MIDecl (mkMetaDecl (mkSpan (mkPtok 15 "string" 66 15 191) (mkPtok 40 "," 66 30 194)) (TyDynamic (mkSpan (mkPtok 15 "string" 66 15 191) (mkPtok 15 "string" 66 15 191)) (mkDynamicString (mkSpan (mkPtok 15 "string" 66 15 191) (mkPtok 15 "string" 66 15 191)) (mkPtok 15 "string" 66 15 191))) (mkPtok 42 "o" 66 22 192) (Some (mkPtok 43 (string_of_bytes [96; 230; 182; 136; 230; 129; 175; 231; 177; 187; 229; 158; 139; 96]%N) 66 24 193)) (mkPtok 40 "," 66 30 194))); (MIRef (mkRefMetaDecl (mkSpan (mkPtok 42 "matchKey" 66 31 195) (mkPtok 40 "," 66 48 197)) (mkPtok 42 "matchKey" 66 31 195) (mkPtok 42 "trueish" 66 40 196) None (mkPtok 40 "," 66 48 197)))] (mkPtok 3 "}" 66 49 198))); (DOption (mkOptionDef (mkSpan (mkPtok 1 "options" 67 0 199) (mkPtok 3 "}" 69 6 205)) (mkPtok 1 "options" 67 0 199) (mkPtok 2 "{" 68 4 200) [(mkOptionDecl (mkSpan (mkPtok 42 "Packet" 68 6 201) (mkPtok 41 ";" 69 4 204)) (mkPtok 42 "Packet" 68 6 201) (mkPtok 4 "=" 68 12 202) (VPaddingChar (mkSpan (mkPtok 33 "' '" 69 0 203) (mkPtok 33 "' '" 69 0 203)) (mkPtok 33 "' '" 69 0 203)) (Some (mkPtok 41 ";" 69 4 204)))] (mkPtok 3 "}" 69 6 205)))])).
Eval vm_compute in ("<<<M1389>>>" ++ check (runes_of_ascii "MetaData a1	{ //x
u8 u8x,}
options
    // " ++ [128512]%N ++ runes_of_ascii " emoji
    { float
='0'/// triple
;
    // @lengthOf(
    pack =
// packet A { u8 x, }
// @lengthOf(
string
    ; }
MetaData
packetx {
tag
Foo`
`,  uint8x asx , uint16
body	,
T x ,// packet A { u8 x, }
float a1 `
`
    , matchKey  crc
, }
// a // b
")).
Eval vm_compute in ("<<<M1421>>>" ++ check (runes_of_ascii "options{ charz =
    0 ; rootA = false
;
// @lengthOf(
// packet A { u8 x, }
As
//	t
//x
=
    true ; Pad = '\x00' }
")).
Eval vm_compute in ("<<<M1453>>>" ++ check (runes_of_ascii "packet x { @tag(7 // " ++ [27880; 37322]%N ++ runes_of_ascii "
) @calculatedFrom(""{,}"")
    int16
    Packet @calculatedFrom(
""it's""
    ) `a\`
    ,charz f32a// @lengthOf(
, match metadata
    as BodyLength{ [ 65535 , 3, 1 ,00,// `tick` ""quote"" 'q'
""a	b""	]: // " ++ [27880; 37322]%N ++ runes_of_ascii "
stringy , /// triple
[ ""`tick`""
] :
//
// packet A { u8 x, }
float },
@tag(  007 ) @tag(7)leftPad @lengthOf(pack) , }
")).
Eval vm_compute in ("<<<M1485>>>" ++ check (runes_of_ascii "root
// a // b
// c
packet	i8i8 { }packet roots { // trailing space 
f64 uint8x ,@lengthOf(
    lengthOf // c
) roots @calculatedFrom( // a // b
""" ++ [128512]%N ++ runes_of_ascii """ )  `{ , }` //x
, i32 falsey,
    //
    }
")).
Eval vm_compute in ("<<<M1517>>>" ++ check (runes_of_ascii "

")).
Eval vm_compute in ("<<<M1549>>>" ++ check (runes_of_ascii "options { }
")).
Eval vm_compute in ("<<<M1581>>>" ++ check (runes_of_ascii "packet
trueish {  @tag(0123456789 )  repeat  zchar[ 7 ]repeatCount , }")).
Eval vm_compute in ("<<<T1581>>>" ++ terms [mkTok 35 "packet" 1 0 false; mkTok 42 "trueish" 2 0 false; mkTok 2 "{" 2 8 false; mkTok 9 "@tag(" 2 11 false; mkTok 30 "0123456789" 2 16 false; mkTok 6 ")" 2 27 false; mkTok 36 "repeat" 2 30 false; mkTok 14 "zchar[" 2 38 false; mkTok 30 "7" 2 45 false; mkTok 13 "]" 2 47 false; mkTok 42 "repeatCount" 2 48 false; mkTok 40 "," 2 60 false; mkTok 3 "}" 2 62 false; mkTok 0 "<EOF>" 2 63 false] (mkPacket (mkPtok 35 "packet" 1 0 0) (Some (mkPtok 3 "}" 2 62 12)) [(DPacket (mkPacketDef (mkSpan (mkPtok 35 "packet" 1 0 0) (mkPtok 3 "}" 2 62 12)) None (mkPtok 35 "packet" 1 0 0) (mkPtok 42 "trueish" 2 0 1) (mkPtok 2 "{" 2 8 2) [(mkFieldWithAttr (mkSpan (mkPtok 9 "@tag(" 2 11 3) (mkPtok 40 "," 2 60 11)) [(FATag (mkSpan (mkPtok 9 "@tag(" 2 11 3) (mkPtok 6 ")" 2 27 5)) (mkTagAttr (mkSpan (mkPtok 9 "@tag(" 2 11 3) (mkPtok 6 ")" 2 27 5)) (mkPtok 9 "@tag(" 2 11 3) (mkPtok 30 "0123456789" 2 16 4) (mkPtok 6 ")" 2 27 5)))] (MetaField (mkSpan (mkPtok 36 "repeat" 2 30 6) (mkPtok 40 "," 2 60 11)) (Some (mkPtok 36 "repeat" 2 30 6)) (mkMetaDecl (mkSpan (mkPtok 14 "zchar[" 2 38 7) (mkPtok 40 "," 2 60 11)) (TyFixed (mkSpan (mkPtok 14 "zchar[" 2 38 7) (mkPtok 13 "]" 2 47 9)) (mkFixedString (mkSpan (mkPtok 14 "zchar[" 2 38 7) (mkPtok 13 "]" 2 47 9)) (mkPtok 14 "zchar[" 2 38 7) (mkPtok 30 "7" 2 45 8) (mkPtok 13 "]" 2 47 9))) (mkPtok 42 "repeatCount" 2 48 10) None (mkPtok 40 "," 2 60 11))))] (mkPtok 3 "}" 2 62 12)))])).
Eval vm_compute in ("<<<M1613>>>" ++ check (runes_of_ascii "MetaData body // " ++ [128512]%N ++ runes_of_ascii " emoji
{
    // trailing space 
    uint64
Pad `" ++ [28040; 24687; 31867; 22411]%N ++ runes_of_ascii "`
, stringy Packet
    `tab	here` ,
    uint64  repeatCount `a\` ,uint64 x `a\` , }
")).
Eval vm_compute in ("<<<M1645>>>" ++ check (runes_of_ascii "MetaData A  {zchar[ 0123456789 ] x_y_z `it's` , Packet rootA , } MetaData
leftPad
{ }
    // a // b
    packet matchKey {	crc MetaDataX // c
,
match a1 as matchKey // trailing space 
{ 10: Pad
,
}
//x
//x
,
    // c
    match
A
    as
// trailing space 
// " ++ [27880; 37322]%N ++ runes_of_ascii "
uint8x { 42 : /// triple
u
, [""x y""]: u , 1 : crc ,
    [ """ ++ [233]%N ++ runes_of_ascii "t" ++ [233]%N ++ runes_of_ascii """,
42] /// triple
: msg_type ,
[ // packet A { u8 x, }
00 ]: Z9_	} , @tag(0) o, match a1
as Pad { ""`tick`"" :
uint8x // packet A { u8 x, }
[
""a\""b"" , 00 , ""\n""
    ,""// no comment"" , ""x y"" ] : u128[""it's"" , 4294967296 , ""a\""b"" ,
007 , 42 ]
    : options1 ,
    3
: leftPad
,
} ,i16 uint8x @calculatedFrom(
    ""\n""	)
    `it's` ,	repeat options1 {
    float32  int @calculatedFrom(
    // `tick` ""quote"" 'q'
    ""{,}"" ) `" ++ [233]%N ++ runes_of_ascii "` , repeat
float32 Packet	, } ,
f32 asx
    , }

")).
Eval vm_compute in ("<<<M1677>>>" ++ check (runes_of_ascii "packet
    lengthOf
{ packetx `{ , }` ,
match zchar
as As{
    """ ++ [128512]%N ++ runes_of_ascii """  :As	, [ 007 , ""a	b"" ,
""it's""
    , 007
    , /// triple
4294967296 ] :zchar [
    255 ]
: u128
// @lengthOf(
// trailing space 
, 0 :
x
1 :
A
    , 0 : charz } , match
    /// triple
    falsey as // @lengthOf(
x { 00	:
i8i8 , ""a\""b"": matchKey  , } ,charz `a\`
,	}// trailing space 
MetaData
falsey { x
// a // b
// a // b
calculatedFrom
`{ , }`
,	} //x")).
Eval vm_compute in ("<<<M1709>>>" ++ check (runes_of_ascii "root packet roots{ charz Logon , Header chars ,	@leftPad (
// `tick` ""quote"" 'q'
// trailing space 
) A {
    u16 lengthOf @calculatedFrom( ""it's"" ) `it's`
, }	,repeat	char[]
asx , char[ 1  ]i64_ ,
    repeat
crc { match calculatedFrom
// " ++ [27880; 37322]%N ++ runes_of_ascii "
// packet A { u8 x, }
as _x {
[
255 ]	: len , 42: matchKey, [4294967296
    ] : a1 , 10 : matchKey //	t
, //x
} , }, @calculatedFrom(""`tick`""//
) // @lengthOf(
int	T
    , i8
BodyLength ,float
    { f64 A `line1
line2`, i8i8 @calculatedFrom( ""packet""  )
`tab	here`
    ,repeat	char[] u ,
    // c
    }, @calculatedFrom(
// " ++ [128512]%N ++ runes_of_ascii " emoji
// packet A { u8 x, }
""x y"" ) u { match
Z9_ as // " ++ [27880; 37322]%N ++ runes_of_ascii "
o  {""abc""  : i8i8
,
7:	chars
,
    [ ""abc"" , 0 ] :
    Foo
    , [""it's"",
    ""a	b""
    , 255 ,  0123456789 , ""packet"" ] :Z9_	} ,  repeat uint16 uint8x ,repeat
x , string_
    // a // b
    ,}
, // " ++ [27880; 37322]%N ++ runes_of_ascii "
}
")).
Eval vm_compute in ("<<<M1741>>>" ++ check (runes_of_ascii "packet // c
leftPad { @lengthOf(
    //x
    tag )// `tick` ""quote"" 'q'
@leftPad( ) @tag( 65535  )
    match T as u8x
    {10
:Header [ 0 , ""CRC32"" ,
""" ++ [28040; 24687]%N ++ runes_of_ascii """
    ,	""" ++ [28040; 24687]%N ++ runes_of_ascii """	,
""" ++ [128512]%N ++ runes_of_ascii """ , ""\n"" /// triple
, 7 ] : packetx [ ""{,}"" ]
    // `tick` ""quote"" 'q'
    : rootA ""{,}"" : // " ++ [128512]%N ++ runes_of_ascii " emoji
As , ""\n"":
Logon , }	,
// a // b
// " ++ [27880; 37322]%N ++ runes_of_ascii "
repeat // a // b
Pad a1 , int trueish
    // packet A { u8 x, }
    `{ , }` , match	crc as charz { 0 :
// " ++ [128512]%N ++ runes_of_ascii " emoji
// " ++ [128512]%N ++ runes_of_ascii " emoji
T , /// triple
00
    : pack, [""""
,""" ++ [233]%N ++ runes_of_ascii "t" ++ [233]%N ++ runes_of_ascii """ ] // `tick` ""quote"" 'q'
:
    zchar
    , }	, match  float as charz{ ""a\\"" : u128  , [ ""`tick`"" /// triple
, 4294967296
,	"""", /// triple
00/// triple
]
: len""// no comment"":asx
    , } , @calculatedFrom( ""abc"" )
    @leftPad (  '\x00' ) i64_ {
char  As @lengthOf(  Z9_ ) `tab	here` , f32a
A `" ++ [28040; 24687; 31867; 22411]%N ++ runes_of_ascii "` ,	char[]u , },	u8 leftPad``,// @lengthOf(
zchar[
    0123456789 ] falsey
@calculatedFrom(
""abc""
)	, }
")).
Eval vm_compute in ("<<<M1773>>>" ++ check (runes_of_ascii "
packet
    zchar {
@rightPad
( )match o as matchKey
    // `tick` ""quote"" 'q'
    { 4294967296 : T , } , match u8x as uint8x { ""// no comment"" //	t
: T ,
[
00
    , 255 ,
""CRC32"" , ""{,}"" , ""CRC32""// c
,
    00] : tag ,[ """ ++ [28040; 24687]%N ++ runes_of_ascii """ ,
0123456789] :msg_type , ""it's""
// a // b
// @lengthOf(
: crc  0
: rootA ,} , @calculatedFrom(
""`tick`"")
    int {char[] trueish// packet A { u8 x, }
@lengthOf(
int )`line1
line2` , } ,u16
stringy `a\` , }
")).
Eval vm_compute in ("<<<M1805>>>" ++ check (runes_of_ascii "MetaData
    // `tick` ""quote"" 'q'
    Packet { calculatedFrom zchar
,  crc calculatedFrom `// not a comment` // a // b
, } MetaData Z9_  { Packet calculatedFrom
, string
msg_type ``
    , } packet string_{ int Packet
`" ++ [233]%N ++ runes_of_ascii "` , match
    string_
    as Foo
    // c
    {	007 :	u128 } ,a1 body ,@lengthOf(	repeatCount )
match roots as Foo // " ++ [128512]%N ++ runes_of_ascii " emoji
{ [
    ""x y"" , 007] :
    tag , 0 :i64_ , }
    ,@rightPad
( '0' )chars,
//x
// @lengthOf(
@tag(
1 )	match
// `tick` ""quote"" 'q'
// a // b
asx as float// " ++ [27880; 37322]%N ++ runes_of_ascii "
{ ""// no comment""
:
int , [ """" ]
    : f32a ,	},char[ 3 ]
    trueish`crlf
line`,
    @calculatedFrom( ""a\""b"" )
//	t
// `tick` ""quote"" 'q'
repeat
// c
// c
u64	trueish`say ""hi""`,
@lengthOf( leftPad  )
u128	As ,	string_ leftPad , }MetaData crc // @lengthOf(
{
MetaDataX Header,}
    //
    packet
matchKey {@rightPad// trailing space 
(
) @leftPad ( ' ')
@rightPad
(
)
char[] trueish @calculatedFrom(
    ""a	b"" )
    , @calculatedFrom(// " ++ [27880; 37322]%N ++ runes_of_ascii "
""a	b"" ) packetx  `tab	here` , @calculatedFrom( ""\n""
    )
int16 As
,
    @calculatedFrom(
""" ++ [28040; 24687]%N ++ runes_of_ascii """
)
match tag as
x { [
    007 ] :
trueish 007
    :matchKey ,4294967296
:
    // " ++ [27880; 37322]%N ++ runes_of_ascii "
    u8x // " ++ [27880; 37322]%N ++ runes_of_ascii "
[ ""// no comment""] :	x
} ,
    @leftPad ( ' '
) u16 charz , uint32 u8x,
/// triple
// c
} //x")).
Eval vm_compute in ("<<<T1805>>>" ++ terms [mkTok 37 "MetaData" 1 0 false; mkTok 44 "// `tick` ""quote"" 'q'" 2 4 true; mkTok 42 "Packet" 3 4 false; mkTok 2 "{" 3 11 false; mkTok 42 "calculatedFrom" 3 13 false; mkTok 42 "zchar" 3 28 false; mkTok 40 "," 4 0 false; mkTok 42 "crc" 4 3 false; mkTok 42 "calculatedFrom" 4 7 false; mkTok 43 "`// not a comment`" 4 22 false; mkTok 44 "// a // b" 4 41 true; mkTok 40 "," 5 0 false; mkTok 3 "}" 5 2 false; mkTok 37 "MetaData" 5 4 false; mkTok 42 "Z9_" 5 13 false; mkTok 2 "{" 5 18 false; mkTok 42 "Packet" 5 20 false; mkTok 42 "calculatedFrom" 5 27 false; mkTok 40 "," 6 0 false; mkTok 15 "string" 6 2 false; mkTok 42 "msg_type" 7 0 false; mkTok 43 "``" 7 9 false; mkTok 40 "," 8 4 false; mkTok 3 "}" 8 6 false; mkTok 35 "packet" 8 8 false; mkTok 42 "string_" 8 15 false; mkTok 2 "{" 8 22 false; mkTok 42 "int" 8 24 false; mkTok 42 "Packet" 8 28 false; mkTok 43 (string_of_bytes [96; 195; 169; 96]%N) 9 0 false; mkTok 40 "," 9 4 false; mkTok 38 "match" 9 6 false; mkTok 42 "string_" 10 4 false; mkTok 17 "as" 11 4 false; mkTok 42 "Foo" 11 7 false; mkTok 44 "// c" 12 4 true; mkTok 2 "{" 13 4 false; mkTok 30 "007" 13 6 false; mkTok 39 ":" 13 10 false; mkTok 42 "u128" 13 12 false; mkTok 3 "}" 13 17 false; mkTok 40 "," 13 19 false; mkTok 42 "a1" 13 20 false; mkTok 42 "body" 13 23 false; mkTok 40 "," 13 28 false; mkTok 7 "@lengthOf(" 13 29 false; mkTok 42 "repeatCount" 13 40 false; mkTok 6 ")" 13 52 false; mkTok 38 "match" 14 0 false; mkTok 42 "roots" 14 6 false; mkTok 17 "as" 14 12 false; mkTok 42 "Foo" 14 15 false; mkTok 44 (string_of_bytes [47; 47; 32; 240; 159; 152; 128; 32; 101; 109; 111; 106; 105]%N) 14 19 true; mkTok 2 "{" 15 0 false; mkTok 18 "[" 15 2 false; mkTok 31 """x y""" 16 4 false; mkTok 40 "," 16 10 false; mkTok 30 "007" 16 12 false; mkTok 13 "]" 16 15 false; mkTok 39 ":" 16 17 false; mkTok 42 "tag" 17 4 false; mkTok 40 "," 17 8 false; mkTok 30 "0" 17 10 false; mkTok 39 ":" 17 12 false; mkTok 42 "i64_" 17 13 false; mkTok 40 "," 17 18 false; mkTok 3 "}" 17 20 false; mkTok 40 "," 18 4 false; mkTok 32 "@rightPad" 18 5 false; mkTok 8 "(" 19 0 false; mkTok 33 "'0'" 19 2 false; mkTok 6 ")" 19 6 false; mkTok 42 "chars" 19 7 false; mkTok 40 "," 19 12 false; mkTok 44 "//x" 20 0 true; mkTok 44 "// @lengthOf(" 21 0 true; mkTok 9 "@tag(" 22 0 false; mkTok 30 "1" 23 0 false; mkTok 6 ")" 23 2 false; mkTok 38 "match" 23 4 false; mkTok 44 "// `tick` ""quote"" 'q'" 24 0 true; mkTok 44 "// a // b" 25 0 true; mkTok 42 "asx" 26 0 false; mkTok 17 "as" 26 4 false; mkTok 42 "float" 26 7 false; mkTok 44 (string_of_bytes [47; 47; 32; 230; 179; 168; 233; 135; 138]%N) 26 12 true; mkTok 2 "{" 27 0 false; mkTok 31 """// no comment""" 27 2 false; mkTok 39 ":" 28 0 false; mkTok 42 "int" 29 0 false; mkTok 40 "," 29 4 false; mkTok 18 "[" 29 6 false; mkTok 31 """""" 29 8 false; mkTok 13 "]" 29 11 false; mkTok 39 ":" 30 4 false; mkTok 42 "f32a" 30 6 false; mkTok 40 "," 30 11 false; mkTok 3 "}" 30 13 false; mkTok 40 "," 30 14 false; mkTok 12 "char[" 30 15 false; mkTok 30 "3" 30 21 false; mkTok 13 "]" 30 23 false; mkTok 42 "trueish" 31 4 false; mkTok 43 (string_of_bytes [96; 99; 114; 108; 102; 13; 10; 108; 105; 110; 101; 96]%N) 31 11 false; mkTok 40 "," 32 5 false; mkTok 5 "@calculatedFrom(" 33 4 false; mkTok 31 """a\""b""" 33 21 false; mkTok 6 ")" 33 28 false; mkTok 44 (string_of_bytes [47; 47; 9; 116]%N) 34 0 true; mkTok 44 "// `tick` ""quote"" 'q'" 35 0 true; mkTok 36 "repeat" 36 0 false; mkTok 44 "// c" 37 0 true; mkTok 44 "// c" 38 0 true; mkTok 23 "u64" 39 0 false; mkTok 42 "trueish" 39 4 false; mkTok 43 "`say ""hi""`" 39 11 false; mkTok 40 "," 39 21 false; mkTok 7 "@lengthOf(" 40 0 false; mkTok 42 "leftPad" 40 11 false; mkTok 6 ")" 40 20 false; mkTok 42 "u128" 41 0 false; mkTok 42 "As" 41 5 false; mkTok 40 "," 41 8 false; mkTok 42 "string_" 41 10 false; mkTok 42 "leftPad" 41 18 false; mkTok 40 "," 41 26 false; mkTok 3 "}" 41 28 false; mkTok 37 "MetaData" 41 29 false; mkTok 42 "crc" 41 38 false; mkTok 44 "// @lengthOf(" 41 42 true; mkTok 2 "{" 42 0 false; mkTok 42 "MetaDataX" 43 0 false; mkTok 42 "Header" 43 10 false; mkTok 40 "," 43 16 false; mkTok 3 "}" 43 17 false; mkTok 44 "//" 44 4 true; mkTok 35 "packet" 45 4 false; mkTok 42 "matchKey" 46 0 false; mkTok 2 "{" 46 9 false; mkTok 32 "@rightPad" 46 10 false; mkTok 44 "// trailing space " 46 19 true; mkTok 8 "(" 47 0 false; mkTok 6 ")" 48 0 false; mkTok 32 "@leftPad" 48 2 false; mkTok 8 "(" 48 11 false; mkTok 33 "' '" 48 13 false; mkTok 6 ")" 48 16 false; mkTok 32 "@rightPad" 49 0 false; mkTok 8 "(" 50 0 false; mkTok 6 ")" 51 0 false; mkTok 16 "char[]" 52 0 false; mkTok 42 "trueish" 52 7 false; mkTok 5 "@calculatedFrom(" 52 15 false; mkTok 31 (string_of_bytes [34; 97; 9; 98; 34]%N) 53 4 false; mkTok 6 ")" 53 10 false; mkTok 40 "," 54 4 false; mkTok 5 "@calculatedFrom(" 54 6 false; mkTok 44 (string_of_bytes [47; 47; 32; 230; 179; 168; 233; 135; 138]%N) 54 22 true; mkTok 31 (string_of_bytes [34; 97; 9; 98; 34]%N) 55 0 false; mkTok 6 ")" 55 6 false; mkTok 42 "packetx" 55 8 false; mkTok 43 (string_of_bytes [96; 116; 97; 98; 9; 104; 101; 114; 101; 96]%N) 55 17 false; mkTok 40 "," 55 28 false; mkTok 5 "@calculatedFrom(" 55 30 false; mkTok 31 """\n""" 55 47 false; mkTok 6 ")" 56 4 false; mkTok 25 "int16" 57 0 false; mkTok 42 "As" 57 6 false; mkTok 40 "," 58 0 false; mkTok 5 "@calculatedFrom(" 59 4 false; mkTok 31 (string_of_bytes [34; 230; 182; 136; 230; 129; 175; 34]%N) 60 0 false; mkTok 6 ")" 61 0 false; mkTok 38 "match" 62 0 false; mkTok 42 "tag" 62 6 false; mkTok 17 "as" 62 10 false; mkTok 42 "x" 63 0 false; mkTok 2 "{" 63 2 false; mkTok 18 "[" 63 4 false; mkTok 30 "007" 64 4 false; mkTok 13 "]" 64 8 false; mkTok 39 ":" 64 10 false; mkTok 42 "trueish" 65 0 false; mkTok 30 "007" 65 8 false; mkTok 39 ":" 66 4 false; mkTok 42 "matchKey" 66 5 false; mkTok 40 "," 66 14 false; mkTok 30 "4294967296" 66 15 false; mkTok 39 ":" 67 0 false; mkTok 44 (string_of_bytes [47; 47; 32; 230; 179; 168; 233; 135; 138]%N) 68 4 true; mkTok 42 "u8x" 69 4 false; mkTok 44 (string_of_bytes [47; 47; 32; 230; 179; 168; 233; 135; 138]%N) 69 8 true; mkTok 18 "[" 70 0 false; mkTok 31 """// no comment""" 70 2 false; mkTok 13 "]" 70 17 false; mkTok 39 ":" 70 19 false; mkTok 42 "x" 70 21 false; mkTok 3 "}" 71 0 false; mkTok 40 "," 71 2 false; mkTok 32 "@leftPad" 72 4 false; mkTok 8 "(" 72 13 false; mkTok 33 "' '" 72 15 false; mkTok 6 ")" 73 0 false; mkTok 21 "u16" 73 2 false; mkTok 42 "charz" 73 6 false; mkTok 40 "," 73 12 false; mkTok 22 "uint32" 73 14 false; mkTok 42 "u8x" 73 21 false; mkTok 40 "," 73 24 false; mkTok 44 "/// triple" 74 0 true; mkTok 44 "// c" 75 0 true; mkTok 3 "}" 76 0 false; mkTok 44 "//x" 76 2 true; mkTok 0 "<EOF>" 76 5 false] (mkPacket (mkPtok 37 "MetaData" 1 0 0) (Some (mkPtok 3 "}" 76 0 210)) [(DMeta (mkMetaDef (mkSpan (mkPtok 37 "MetaData" 1 0 0) (mkPtok 3 "}" 5 2 12)) (mkPtok 37 "MetaData" 1 0 0) (mkPtok 42 "Packet" 3 4 2) (mkPtok 2 "{" 3 11 3) [(MIRef (mkRefMetaDecl (mkSpan (mkPtok 42 "calculatedFrom" 3 13 4) (mkPtok 40 "," 4 0 6)) (mkPtok 42 "calculatedFrom" 3 13 4) (mkPtok 42 "zchar" 3 28 5) None (mkPtok 40 "," 4 0 6))); (MIRef (mkRefMetaDecl (mkSpan (mkPtok 42 "crc" 4 3 7) (mkPtok 40 "," 5 0 11)) (mkPtok 42 "crc" 4 3 7) (mkPtok 42 "calculatedFrom" 4 7 8) (Some (mkPtok 43 "`// not a comment`" 4 22 9)) (mkPtok 40 "," 5 0 11)))] (mkPtok 3 "}" 5 2 12))); (DMeta (mkMetaDef (mkSpan (mkPtok 37 "MetaData" 5 4 13) (mkPtok 3 "}" 8 6 23)) (mkPtok 37 "MetaData" 5 4 13) (mkPtok 42 "Z9_" 5 13 14) (mkPtok 2 "{" 5 18 15) [(MIRef (mkRefMetaDecl (mkSpan (mkPtok 42 "Packet" 5 20 16) (mkPtok 40 "," 6 0 18)) (mkPtok 42 "Packet" 5 20 16) (mkPtok 42 "calculatedFrom" 5 27 17) None (mkPtok 40 "," 6 0 18))); (MIDecl (mkMetaDecl (mkSpan (mkPtok 15 "string" 6 2 19) (mkPtok 40 "," 8 4 22)) (TyDynamic (mkSpan (mkPtok 15 "string" 6 2 19) (mkPtok 15 "string" 6 2 19)) (mkDynamicString (mkSpan (mkPtok 15 "string" 6 2 19) (mkPtok 15 "string" 6 2 19)) (mkPtok 15 "string" 6 2 19))) (mkPtok 42 "msg_type" 7 0 20) (Some (mkPtok 43 "``" 7 9 21)) (mkPtok 40 "," 8 4 22)))] (mkPtok 3 "}" 8 6 23))); (DPacket (mkPacketDef (mkSpan (mkPtok 35 "packet" 8 8 24) (mkPtok 3 "}" 41 28 126)) None (mkPtok 35 "packet" 8 8 24) (mkPtok 42 "string_" 8 15 25) (mkPtok 2 "{" 8 22 26) [(mkFieldWithAttr (mkSpan (mkPtok 42 "int" 8 24 27) (mkPtok 40 "," 9 4 30)) [] (ObjectField (mkSpan (mkPtok 42 "int" 8 24 27) (mkPtok 40 "," 9 4 30)) None (mkPtok 42 "int" 8 24 27) (Some (mkPtok 42 "Packet" 8 28 28)) (Some (mkPtok 43 (string_of_bytes [96; 195; 169; 96]%N) 9 0 29)) (mkPtok 40 "," 9 4 30))); (mkFieldWithAttr (mkSpan (mkPtok 38 "match" 9 6 31) (mkPtok 40 "," 13 19 41)) [] (MatchField (mkSpan (mkPtok 38 "match" 9 6 31) (mkPtok 40 "," 13 19 41)) (mkMatchFieldDecl (mkSpan (mkPtok 38 "match" 9 6 31) (mkPtok 3 "}" 13 17 40)) (mkPtok 38 "match" 9 6 31) (mkPtok 42 "string_" 10 4 32) (mkPtok 17 "as" 11 4 33) (mkPtok 42 "Foo" 11 7 34) (mkPtok 2 "{" 13 4 36) [(mkMatchPair (mkSpan (mkPtok 30 "007" 13 6 37) (mkPtok 42 "u128" 13 12 39)) (MKDigits (mkPtok 30 "007" 13 6 37)) (mkPtok 39 ":" 13 10 38) (mkPtok 42 "u128" 13 12 39) None)] (mkPtok 3 "}" 13 17 40)) (mkPtok 40 "," 13 19 41))); (mkFieldWithAttr (mkSpan (mkPtok 42 "a1" 13 20 42) (mkPtok 40 "," 13 28 44)) [] (ObjectField (mkSpan (mkPtok 42 "a1" 13 20 42) (mkPtok 40 "," 13 28 44)) None (mkPtok 42 "a1" 13 20 42) (Some (mkPtok 42 "body" 13 23 43)) None (mkPtok 40 "," 13 28 44))); (mkFieldWithAttr (mkSpan (mkPtok 7 "@lengthOf(" 13 29 45) (mkPtok 40 "," 18 4 67)) [(FALengthOf (mkSpan (mkPtok 7 "@lengthOf(" 13 29 45) (mkPtok 6 ")" 13 52 47)) (mkLengthOf (mkSpan (mkPtok 7 "@lengthOf(" 13 29 45) (mkPtok 6 ")" 13 52 47)) (mkPtok 7 "@lengthOf(" 13 29 45) (mkPtok 42 "repeatCount" 13 40 46) (mkPtok 6 ")" 13 52 47)))] (MatchField (mkSpan (mkPtok 38 "match" 14 0 48) (mkPtok 40 "," 18 4 67)) (mkMatchFieldDecl (mkSpan (mkPtok 38 "match" 14 0 48) (mkPtok 3 "}" 17 20 66)) (mkPtok 38 "match" 14 0 48) (mkPtok 42 "roots" 14 6 49) (mkPtok 17 "as" 14 12 50) (mkPtok 42 "Foo" 14 15 51) (mkPtok 2 "{" 15 0 53) [(mkMatchPair (mkSpan (mkPtok 18 "[" 15 2 54) (mkPtok 40 "," 17 8 61)) (MKList (mkKeyList (mkSpan (mkPtok 18 "[" 15 2 54) (mkPtok 13 "]" 16 15 58)) (mkPtok 18 "[" 15 2 54) (mkPtok 31 """x y""" 16 4 55) [((mkPtok 40 "," 16 10 56), (mkPtok 30 "007" 16 12 57))] (mkPtok 13 "]" 16 15 58))) (mkPtok 39 ":" 16 17 59) (mkPtok 42 "tag" 17 4 60) (Some (mkPtok 40 "," 17 8 61))); (mkMatchPair (mkSpan (mkPtok 30 "0" 17 10 62) (mkPtok 40 "," 17 18 65)) (MKDigits (mkPtok 30 "0" 17 10 62)) (mkPtok 39 ":" 17 12 63) (mkPtok 42 "i64_" 17 13 64) (Some (mkPtok 40 "," 17 18 65)))] (mkPtok 3 "}" 17 20 66)) (mkPtok 40 "," 18 4 67))); (mkFieldWithAttr (mkSpan (mkPtok 32 "@rightPad" 18 5 68) (mkPtok 40 "," 19 12 73)) [(FAPadding (mkSpan (mkPtok 32 "@rightPad" 18 5 68) (mkPtok 6 ")" 19 6 71)) (mkPaddingAttr (mkSpan (mkPtok 32 "@rightPad" 18 5 68) (mkPtok 6 ")" 19 6 71)) (mkPtok 32 "@rightPad" 18 5 68) (mkPtok 8 "(" 19 0 69) (Some (mkPtok 33 "'0'" 19 2 70)) (mkPtok 6 ")" 19 6 71)))] (ObjectField (mkSpan (mkPtok 42 "chars" 19 7 72) (mkPtok 40 "," 19 12 73)) None (mkPtok 42 "chars" 19 7 72) None None (mkPtok 40 "," 19 12 73))); (mkFieldWithAttr (mkSpan (mkPtok 9 "@tag(" 22 0 76) (mkPtok 40 "," 30 14 98)) [(FATag (mkSpan (mkPtok 9 "@tag(" 22 0 76) (mkPtok 6 ")" 23 2 78)) (mkTagAttr (mkSpan (mkPtok 9 "@tag(" 22 0 76) (mkPtok 6 ")" 23 2 78)) (mkPtok 9 "@tag(" 22 0 76) (mkPtok 30 "1" 23 0 77) (mkPtok 6 ")" 23 2 78)))] (MatchField (mkSpan (mkPtok 38 "match" 23 4 79) (mkPtok 40 "," 30 14 98)) (mkMatchFieldDecl (mkSpan (mkPtok 38 "match" 23 4 79) (mkPtok 3 "}" 30 13 97)) (mkPtok 38 "match" 23 4 79) (mkPtok 42 "asx" 26 0 82) (mkPtok 17 "as" 26 4 83) (mkPtok 42 "float" 26 7 84) (mkPtok 2 "{" 27 0 86) [(mkMatchPair (mkSpan (mkPtok 31 """// no comment""" 27 2 87) (mkPtok 40 "," 29 4 90)) (MKString (mkPtok 31 """// no comment""" 27 2 87)) (mkPtok 39 ":" 28 0 88) (mkPtok 42 "int" 29 0 89) (Some (mkPtok 40 "," 29 4 90))); (mkMatchPair (mkSpan (mkPtok 18 "[" 29 6 91) (mkPtok 40 "," 30 11 96)) (MKList (mkKeyList (mkSpan (mkPtok 18 "[" 29 6 91) (mkPtok 13 "]" 29 11 93)) (mkPtok 18 "[" 29 6 91) (mkPtok 31 """""" 29 8 92) [] (mkPtok 13 "]" 29 11 93))) (mkPtok 39 ":" 30 4 94) (mkPtok 42 "f32a" 30 6 95) (Some (mkPtok 40 "," 30 11 96)))] (mkPtok 3 "}" 30 13 97)) (mkPtok 40 "," 30 14 98))); (mkFieldWithAttr (mkSpan (mkPtok 12 "char[" 30 15 99) (mkPtok 40 "," 32 5 104)) [] (MetaField (mkSpan (mkPtok 12 "char[" 30 15 99) (mkPtok 40 "," 32 5 104)) None (mkMetaDecl (mkSpan (mkPtok 12 "char[" 30 15 99) (mkPtok 40 "," 32 5 104)) (TyFixed (mkSpan (mkPtok 12 "char[" 30 15 99) (mkPtok 13 "]" 30 23 101)) (mkFixedString (mkSpan (mkPtok 12 "char[" 30 15 99) (mkPtok 13 "]" 30 23 101)) (mkPtok 12 "char[" 30 15 99) (mkPtok 30 "3" 30 21 100) (mkPtok 13 "]" 30 23 101))) (mkPtok 42 "trueish" 31 4 102) (Some (mkPtok 43 (string_of_bytes [96; 99; 114; 108; 102; 13; 10; 108; 105; 110; 101; 96]%N) 31 11 103)) (mkPtok 40 "," 32 5 104)))); (mkFieldWithAttr (mkSpan (mkPtok 5 "@calculatedFrom(" 33 4 105) (mkPtok 40 "," 39 21 116)) [(FACalculatedFrom (mkSpan (mkPtok 5 "@calculatedFrom(" 33 4 105) (mkPtok 6 ")" 33 28 107)) (mkCalculatedFrom (mkSpan (mkPtok 5 "@calculatedFrom(" 33 4 105) (mkPtok 6 ")" 33 28 107)) (mkPtok 5 "@calculatedFrom(" 33 4 105) (mkPtok 31 """a\""b""" 33 21 106) (mkPtok 6 ")" 33 28 107)))] (MetaField (mkSpan (mkPtok 36 "repeat" 36 0 110) (mkPtok 40 "," 39 21 116)) (Some (mkPtok 36 "repeat" 36 0 110)) (mkMetaDecl (mkSpan (mkPtok 23 "u64" 39 0 113) (mkPtok 40 "," 39 21 116)) (TyBasic (mkSpan (mkPtok 23 "u64" 39 0 113) (mkPtok 23 "u64" 39 0 113)) (mkBasicType (mkSpan (mkPtok 23 "u64" 39 0 113) (mkPtok 23 "u64" 39 0 113)) (mkPtok 23 "u64" 39 0 113))) (mkPtok 42 "trueish" 39 4 114) (Some (mkPtok 43 "`say ""hi""`" 39 11 115)) (mkPtok 40 "," 39 21 116)))); (mkFieldWithAttr (mkSpan (mkPtok 7 "@lengthOf(" 40 0 117) (mkPtok 40 "," 41 8 122)) [(FALengthOf (mkSpan (mkPtok 7 "@lengthOf(" 40 0 117) (mkPtok 6 ")" 40 20 119)) (mkLengthOf (mkSpan (mkPtok 7 "@lengthOf(" 40 0 117) (mkPtok 6 ")" 40 20 119)) (mkPtok 7 "@lengthOf(" 40 0 117) (mkPtok 42 "leftPad" 40 11 118) (mkPtok 6 ")" 40 20 119)))] (ObjectField (mkSpan (mkPtok 42 "u128" 41 0 120) (mkPtok 40 "," 41 8 122)) None (mkPtok 42 "u128" 41 0 120) (Some (mkPtok 42 "As" 41 5 121)) None (mkPtok 40 "," 41 8 122))); (mkFieldWithAttr (mkSpan (mkPtok 42 "string_" 41 10 123) (mkPtok 40 "," 41 26 125)) [] (ObjectField (mkSpan (mkPtok 42 "string_" 41 10 123) (mkPtok 40 "," 41 26 125)) None (mkPtok 42 "string_" 41 10 123) (Some (mkPtok 42 "leftPad" 41 18 124)) None (mkPtok 40 "," 41 26 125)))] (mkPtok 3 "}" 41 28 126))); (DMeta (mkMetaDef (mkSpan (mkPtok 37 "MetaData" 41 29 127) (mkPtok 3 "}" 43 17 134)) (mkPtok 37 "MetaData" 41 29 127) (mkPtok 42 "crc" 41 38 128) (mkPtok 2 "{" 42 0 130) [(MIRef (mkRefMetaDecl (mkSpan (mkPtok 42 "MetaDataX" 43 0 131) (mkPtok 40 "," 43 16 133)) (mkPtok 42 "MetaDataX" 43 0 131) (mkPtok 42 "Header" 43 10 132) None (mkPtok 40 "," 43 16 133)))] (mkPtok 3 "}" 43 17 134))); (DPacket (mkPacketDef (mkSpan (mkPtok 35 "packet" 45 4 136) (mkPtok 3 "}" 76 0 210)) None (mkPtok 35 "packet" 45 4 136) (mkPtok 42 "matchKey" 46 0 137) (mkPtok 2 "{" 46 9 138) [(mkFieldWithAttr (mkSpan (mkPtok 32 "@rightPad" 46 10 139) (mkPtok 40 "," 54 4 155)) [(FAPadding (mkSpan (mkPtok 32 "@rightPad" 46 10 139) (mkPtok 6 ")" 48 0 142)) (mkPaddingAttr (mkSpan (mkPtok 32 "@rightPad" 46 10 139) (mkPtok 6 ")" 48 0 142)) (mkPtok 32 "@rightPad" 46 10 139) (mkPtok 8 "(" 47 0 141) None (mkPtok 6 ")" 48 0 142))); (FAPadding (mkSpan (mkPtok 32 "@leftPad" 48 2 143) (mkPtok 6 ")" 48 16 146)) (mkPaddingAttr (mkSpan (mkPtok 32 "@leftPad" 48 2 143) (mkPtok 6 ")" 48 16 146)) (mkPtok 32 "@leftPad" 48 2 143) (mkPtok 8 "(" 48 11 144) (Some (mkPtok 33 "' '" 48 13 145)) (mkPtok 6 ")" 48 16 146))); (FAPadding (mkSpan (mkPtok 32 "@rightPad" 49 0 147) (mkPtok 6 ")" 51 0 149)) (mkPaddingAttr (mkSpan (mkPtok 32 "@rightPad" 49 0 147) (mkPtok 6 ")" 51 0 149)) (mkPtok 32 "@rightPad" 49 0 147) (mkPtok 8 "(" 50 0 148) None (mkPtok 6 ")" 51 0 149)))] (CheckSumField (mkSpan (mkPtok 16 "char[]" 52 0 150) (mkPtok 40 "," 54 4 155)) (mkChecksumFieldDecl (mkSpan (mkPtok 16 "char[]" 52 0 150) (mkPtok 40 "," 54 4 155)) (Some (TyDynamic (mkSpan (mkPtok 16 "char[]" 52 0 150) (mkPtok 16 "char[]" 52 0 150)) (mkDynamicString (mkSpan (mkPtok 16 "char[]" 52 0 150) (mkPtok 16 "char[]" 52 0 150)) (mkPtok 16 "char[]" 52 0 150)))) (mkPtok 42 "trueish" 52 7 151) (mkCalculatedFrom (mkSpan (mkPtok 5 "@calculatedFrom(" 52 15 152) (mkPtok 6 ")" 53 10 154)) (mkPtok 5 "@calculatedFrom(" 52 15 152) (mkPtok 31 (string_of_bytes [34; 97; 9; 98; 34]%N) 53 4 153) (mkPtok 6 ")" 53 10 154)) None (mkPtok 40 "," 54 4 155)))); (mkFieldWithAttr (mkSpan (mkPtok 5 "@calculatedFrom(" 54 6 156) (mkPtok 40 "," 55 28 162)) [(FACalculatedFrom (mkSpan (mkPtok 5 "@calculatedFrom(" 54 6 156) (mkPtok 6 ")" 55 6 159)) (mkCalculatedFrom (mkSpan (mkPtok 5 "@calculatedFrom(" 54 6 156) (mkPtok 6 ")" 55 6 159)) (mkPtok 5 "@calculatedFrom(" 54 6 156) (mkPtok 31 (string_of_bytes [34; 97; 9; 98; 34]%N) 55 0 158) (mkPtok 6 ")" 55 6 159)))] (ObjectField (mkSpan (mkPtok 42 "packetx" 55 8 160) (mkPtok 40 "," 55 28 162)) None (mkPtok 42 "packetx" 55 8 160) None (Some (mkPtok 43 (string_of_bytes [96; 116; 97; 98; 9; 104; 101; 114; 101; 96]%N) 55 17 161)) (mkPtok 40 "," 55 28 162))); (mkFieldWithAttr (mkSpan (mkPtok 5 "@calculatedFrom(" 55 30 163) (mkPtok 40 "," 58 0 168)) [(FACalculatedFrom (mkSpan (mkPtok 5 "@calculatedFrom(" 55 30 163) (mkPtok 6 ")" 56 4 165)) (mkCalculatedFrom (mkSpan (mkPtok 5 "@calculatedFrom(" 55 30 163) (mkPtok 6 ")" 56 4 165)) (mkPtok 5 "@calculatedFrom(" 55 30 163) (mkPtok 31 """\n""" 55 47 164) (mkPtok 6 ")" 56 4 165)))] (MetaField (mkSpan (mkPtok 25 "int16" 57 0 166) (mkPtok 40 "," 58 0 168)) None (mkMetaDecl (mkSpan (mkPtok 25 "int16" 57 0 166) (mkPtok 40 "," 58 0 168)) (TyBasic (mkSpan (mkPtok 25 "int16" 57 0 166) (mkPtok 25 "int16" 57 0 166)) (mkBasicType (mkSpan (mkPtok 25 "int16" 57 0 166) (mkPtok 25 "int16" 57 0 166)) (mkPtok 25 "int16" 57 0 166))) (mkPtok 42 "As" 57 6 167) None (mkPtok 40 "," 58 0 168)))); (mkFieldWithAttr (mkSpan (mkPtok 5 "@calculatedFrom(" 59 4 169) (mkPtok 40 "," 71 2 197)) [(FACalculatedFrom (mkSpan (mkPtok 5 "@calculatedFrom(" 59 4 169) (mkPtok 6 ")" 61 0 171)) (mkCalculatedFrom (mkSpan (mkPtok 5 "@calculatedFrom(" 59 4 169) (mkPtok 6 ")" 61 0 171)) (mkPtok 5 "@calculatedFrom(" 59 4 169) (mkPtok 31 (string_of_bytes [34; 230; 182; 136; 230; 129; 175; 34]%N) 60 0 170) (mkPtok 6 ")" 61 0 171)))] (MatchField (mkSpan (mkPtok 38 "match" 62 0 172) (mkPtok 40 "," 71 2 197)) (mkMatchFieldDecl (mkSpan (mkPtok 38 "match" 62 0 172) (mkPtok 3 "}" 71 0 196)) (mkPtok 38 "match" 62 0 172) (mkPtok 42 "tag" 62 6 173) (mkPtok 17 "as" 62 10 174) (mkPtok 42 "x" 63 0 175) (mkPtok 2 "{" 63 2 176) [(mkMatchPair (mkSpan (mkPtok 18 "[" 63 4 177) (mkPtok 42 "trueish" 65 0 181)) (MKList (mkKeyList (mkSpan (mkPtok 18 "[" 63 4 177) (mkPtok 13 "]" 64 8 179)) (mkPtok 18 "[" 63 4 177) (mkPtok 30 "007" 64 4 178) [] (mkPtok 13 "]" 64 8 179))) (mkPtok 39 ":" 64 10 180) (mkPtok 42 "trueish" 65 0 181) None); (mkMatchPair (mkSpan (mkPtok 30 "007" 65 8 182) (mkPtok 40 "," 66 14 185)) (MKDigits (mkPtok 30 "007" 65 8 182)) (mkPtok 39 ":" 66 4 183) (mkPtok 42 "matchKey" 66 5 184) (Some (mkPtok 40 "," 66 14 185))); (mkMatchPair (mkSpan (mkPtok 30 "4294967296" 66 15 186) (mkPtok 42 "u8x" 69 4 189)) (MKDigits (mkPtok 30 "4294967296" 66 15 186)) (mkPtok 39 ":" 67 0 187) (mkPtok 42 "u8x" 69 4 189) None); (mkMatchPair (mkSpan (mkPtok 18 "[" 70 0 191) (mkPtok 42 "x" 70 21 195)) (MKList (mkKeyList (mkSpan (mkPtok 18 "[" 70 0 191) (mkPtok 13 "]" 70 17 193)) (mkPtok 18 "[" 70 0 191) (mkPtok 31 """// no comment""" 70 2 192) [] (mkPtok 13 "]" 70 17 193))) (mkPtok 39 ":" 70 19 194) (mkPtok 42 "x" 70 21 195) None)] (mkPtok 3 "}" 71 0 196)) (mkPtok 40 "," 71 2 197))); (mkFieldWithAttr (mkSpan (mkPtok 32 "@leftPad" 72 4 198) (mkPtok 40 "," 73 12 204)) [(FAPadding (mkSpan (mkPtok 32 "@leftPad" 72 4 198) (mkPtok 6 ")" 73 0 201)) (mkPaddingAttr (mkSpan (mkPtok 32 "@leftPad" 72 4 198) (mkPtok 6 ")" 73 0 201)) (mkPtok 32 "@leftPad" 72 4 198) (mkPtok 8 "(" 72 13 199) (Some (mkPtok 33 "' '" 72 15 200)) (mkPtok 6 ")" 73 0 201)))] (MetaField (mkSpan (mkPtok 21 "u16" 73 2 202) (mkPtok 40 "," 73 12 204)) None (mkMetaDecl (mkSpan (mkPtok 21 "u16" 73 2 202) (mkPtok 40 "," 73 12 204)) (TyBasic (mkSpan (mkPtok 21 "u16" 73 2 202) (mkPtok 21 "u16" 73 2 202)) (mkBasicType (mkSpan (mkPtok 21 "u16" 73 2 202) (mkPtok 21 "u16" 73 2 202)) (mkPtok 21 "u16" 73 2 202))) (mkPtok 42 "charz" 73 6 203) None (mkPtok 40 "," 73 12 204)))); (mkFieldWithAttr (mkSpan (mkPtok 22 "uint32" 73 14 205) (mkPtok 40 "," 73 24 207)) [] (MetaField (mkSpan (mkPtok 22 "uint32" 73 14 205) (mkPtok 40 "," 73 24 207)) None (mkMetaDecl (mkSpan (mkPtok 22 "uint32" 73 14 205) (mkPtok 40 "," 73 24 207)) (TyBasic (mkSpan (mkPtok 22 "uint32" 73 14 205) (mkPtok 22 "uint32" 73 14 205)) (mkBasicType (mkSpan (mkPtok 22 "uint32" 73 14 205) (mkPtok 22 "uint32" 73 14 205)) (mkPtok 22 "uint32" 73 14 205))) (mkPtok 42 "u8x" 73 21 206) None (mkPtok 40 "," 73 24 207))))] (mkPtok 3 "}" 76 0 210)))])).
Eval vm_compute in ("<<<M1837>>>" ++ check (runes_of_ascii "MetaData u128 { chars string_
, char[
007
    ]  body  `tab	here`
    , matchKey roots`tab	here`
    ,	zchar[ 1	] zchar `line1
line2`
, u64 i8i8//
, }// c
packet o {@leftPad// packet A { u8 x, }
()
char // packet A { u8 x, }
MetaDataX @calculatedFrom( //	t
""x y"" ) `u8 x,` ,
}

")).
Eval vm_compute in ("<<<M1869>>>" ++ check (runes_of_ascii "// packet A { u8 x, }
root packet Z9_
{
int32 rootA
    @calculatedFrom( // @lengthOf(
""a\""b"" )  `two words`, @lengthOf(
    //x
    pack	)@leftPad( '\x00' ) msg_type  @lengthOf( As
    )
, tag  , } /// triple")).
Eval vm_compute in ("<<<M1901>>>" ++ check (runes_of_ascii "// trailing space 
options{ float= '0' i8i8 //
=	""" ++ [128512]%N ++ runes_of_ascii """;
    int// a // b
=	00
    ;A
=char[ 65535 ] }")).
Eval vm_compute in ("<<<M1933>>>" ++ check (runes_of_ascii "packet
zchar{
    char[
    10 ]
stringy,
char[ 65535
] lengthOf
    `// not a comment`, int8 BodyLength //	t
@lengthOf(
Z9_
), } 	 ")).
Eval vm_compute in ("<<<M1965>>>" ++ check (runes_of_ascii "options{
int = char[] Packet= false; matchKey=
""packet"" //
; metadata	= true ; }
    MetaData o{ char[	1 ]
    len,uint16 i64_ // " ++ [128512]%N ++ runes_of_ascii " emoji
`say ""hi""` , u16
Header
, //	t
int16
    x
, asx
_x, }
// c
")).
Eval vm_compute in ("<<<M1997>>>" ++ check (runes_of_ascii "
root packet tag // trailing space 
{
    }
")).
Eval vm_compute in ("<<<M2029>>>" ++ check (runes_of_ascii "options{ i64_ =  ; trueish =
    '\x00'
    leftPad = ""a\\"" /// triple
; crc
    = 255; uint8x
=
""abc""
    ;}")).
Eval vm_compute in ("<<<M2061>>>" ++ check (runes_of_ascii "options{ i64_ = string ; trueish =
    '\x00'
    leftPad ""a\\"" = /// triple
; crc
    = 255; uint8x
=
""abc""
    ;}")).
Eval vm_compute in ("<<<M2093>>>" ++ check (runes_of_ascii "options{ i64_ = string ; trueish =
    '\x00'
    leftPad = ""a\\"" /// triple
; crc
    = 255")).
Eval vm_compute in ("<<<M2125>>>" ++ check (runes_of_ascii "options{ i64_ = string ; trueish =
    '\x00'
    leftPad = ""a\\"" /// triple
; crc
    = 255; uint8x
'1'=
""abc""
    ;}")).
Eval vm_compute in ("<<<M2157>>>" ++ check (runes_of_ascii "  packet
asx
{
/// triple
// @lengthOf(
stringy u32
`" ++ [28040; 24687; 31867; 22411]%N ++ runes_of_ascii "` ,} MetaData
    A {string  _x, zchar Header `a\`
// @lengthOf(
// packet A { u8 x, }
, char[] MetaDataX
,zchar[ 1 ]
    matchKey
    , char[] //
u,	char[0123456789 ]
    matchKey
    `{ , }`, }
")).
Eval vm_compute in ("<<<M2189>>>" ++ check (runes_of_ascii "  packet
asx
{
/// triple
// @lengthOf(
u32 stringy
`" ++ [28040; 24687; 31867; 22411]%N ++ runes_of_ascii "` ,} MetaData")).
Eval vm_compute in ("<<<M2221>>>" ++ check (runes_of_ascii "  packet
asx
{
/// triple
// @lengthOf(
u32 stringy
`" ++ [28040; 24687; 31867; 22411]%N ++ runes_of_ascii "` ,} MetaData
    A {string  _x, zchar Header `a\` `a\`
// @lengthOf(
// packet A { u8 x, }
, char[] MetaDataX
,zchar[ 1 ]
    matchKey
    , char[] //
u,	char[0123456789 ]
    matchKey
    `{ , }`, }
")).
Eval vm_compute in ("<<<M2253>>>" ++ check (runes_of_ascii "  packet
asx
{
/// triple
// @lengthOf(
u32 stringy
`" ++ [28040; 24687; 31867; 22411]%N ++ runes_of_ascii "` ,} MetaData
    A {string  _x, zchar Header `a\`
// @lengthOf(
// packet A { u8 x, }
, char[] MetaDataX
,zchar[ [ ]
    matchKey
    , char[] //
u,	char[0123456789 ]
    matchKey
    `{ , }`, }
")).
Eval vm_compute in ("<<<M2285>>>" ++ check (runes_of_ascii "  packet
asx
{
/// triple
// @lengthOf(
u32 stringy
`" ++ [28040; 24687; 31867; 22411]%N ++ runes_of_ascii "` ,} MetaData
    A {string  _x, zchar Header `a\`
// @lengthOf(
// packet A { u8 x, }
, char[] MetaDataX
,zchar[ 1 ]
    matchKey
    , char[] //
u,	0123456789 ]
    matchKey
    `{ , }`, }
")).
Eval vm_compute in ("<<<M2317>>>" ++ check (runes_of_ascii "  packet
asx
{
/// triple
// @lengthOf(
u32 stringy
`" ++ [28040; 24687; 31867; 22411]%N ++ runes_of_ascii "` ,} MetaData
    A {string  _x, zchar Header `a\`
// @lengthOf(
// packet A { u8 x, }
, char[] MetaDataX
,zchar[ 1 ]
    matchKey
    , char[] //
u,	char[0123456789 ]
    matchKey
    `{ , }`, root
")).
Eval vm_compute in ("<<<M2349>>>" ++ check (runes_of_ascii "root
    i64
Packet
{ // trailing space 
matchKey `tab	here` ,}")).
Eval vm_compute in ("<<<M2381>>>" ++ check (runes_of_ascii "root
    packet
Packet
{ // trailing space 
m")).
Eval vm_compute in ("<<<M2413>>>" ++ check (runes_of_ascii "options{ falsey falsey // a // b
=
    '0' } options { repeatCount =
true ; string_// a // b
=
// c
// " ++ [27880; 37322]%N ++ runes_of_ascii "
int64
// trailing space 
/// triple
; } // @lengthOf(")).
Eval vm_compute in ("<<<M2445>>>" ++ check (runes_of_ascii "options{ falsey // a // b
=
    '0' } options { '0' =
true ; string_// a // b
=
// c
// " ++ [27880; 37322]%N ++ runes_of_ascii "
int64
// trailing space 
/// triple
; } // @lengthOf(")).
Eval vm_compute in ("<<<M2477>>>" ++ check (runes_of_ascii "options{ falsey // a // b
=
    '0' } options { repeatCount =
true ; string_// a // b
=
// c
// " ++ [27880; 37322]%N ++ runes_of_ascii "
int64
// trailing space 
/// triple
 } // @lengthOf(")).
Eval vm_compute in ("<<<M2509>>>" ++ check (runes_of_ascii "options options{}root packet
metadata {
@lengthOf(x ) float32
body ``, }
    MetaData
Z9_
    {
    string string_ , Logon x
,
uint32
    // packet A { u8 x, }
    Z9_,asx
_x
    `tab	here` , }
")).
Eval vm_compute in ("<<<M2541>>>" ++ check (runes_of_ascii "options{}root packet
metadata char
@lengthOf(x ) float32
body ``, }
    MetaData
Z9_
    {
    string string_ , Logon x
,
uint32
    // packet A { u8 x, }
    Z9_,asx
_x
    `tab	here` , }
")).
Eval vm_compute in ("<<<M2573>>>" ++ check (runes_of_ascii "options{}root packet
metadata {
@lengthOf(x ) float32
body `` }
    MetaData
Z9_
    {
    string string_ , Logon x
,
uint32
    // packet A { u8 x, }
    Z9_,asx
_x
    `tab	here` , }
")).
Eval vm_compute in ("<<<M2605>>>" ++ check (runes_of_ascii "options{}root packet
metadata {
@lengthOf(x ) float32
body ``, }
    MetaData
Z9_
    {
    string , string_ Logon x
,
uint32
    // packet A { u8 x, }
    Z9_,asx
_x
    `tab	here` , }
")).
Eval vm_compute in ("<<<M2637>>>" ++ check (runes_of_ascii "options{}root packet
metadata {
@lengthOf(x ) float32
body ``, }
    MetaData
Z9_
    {
    string string_ , Logon x
,
uint32")).
Eval vm_compute in ("<<<M2669>>>" ++ check (runes_of_ascii "optio")).
Eval vm_compute in ("<<<M2701>>>" ++ check (runes_of_ascii "options {
    =falsey
""a\\"" ; }")).
Eval vm_compute in ("<<<M2733>>>" ++ check (runes_of_ascii "options {
    falsey=
""a\\"" ;` }")).
Eval vm_compute in ("<<<M2765>>>" ++ check (runes_of_ascii "MetaData f32a
{
    //	t
    }
    packet tag  {
}
")).
Eval vm_compute in ("<<<M2797>>>" ++ check (runes_of_ascii "M<etaData f32a
{
    //	t
    }root
    packet tag  {
}
")).
Eval vm_compute in ("<<<M2829>>>" ++ check (runes_of_ascii "
options
    {msg_type u8
    float32  }root
packet Z9_{ char /// triple
crc @lengthOf(
options1 ) //
,} MetaData a1{}
")).
Eval vm_compute in ("<<<M2861>>>" ++ check (runes_of_ascii "
options
    {msg_type =
    float32  }root
packet Z9_{  /// triple
crc @lengthOf(
options1 ) //
,} MetaData a1{}
")).
Eval vm_compute in ("<<<M2893>>>" ++ check (runes_of_ascii "
options
    {msg_type =
    float32  }root
packet Z9_{ char /// triple
crc @lengthOf(
options1 ) //
,MetaData } a1{}
")).
Eval vm_compute in ("<<<M2925>>>" ++ check (runes_of_ascii "
options
    {msg_type =
    float32  }root$
packet Z9_{ char /// triple
crc @lengthOf(
options1 ) //
,} MetaData a1{}
")).
Eval vm_compute in ("<<<M2957>>>" ++ check (runes_of_ascii "packet crc{ // " ++ [128512]%N ++ runes_of_ascii " emoji
repeat  i8i8
`a\`, }
")).
Eval vm_compute in ("<<<M2989>>>" ++ check (runes_of_ascii "packe%t crc{ // " ++ [128512]%N ++ runes_of_ascii " emoji
repeat string i8i8
`a\`, }
")).
Eval vm_compute in ("<<<M3021>>>" ++ check (runes_of_ascii "packet BodyLength {f64 MetaData zchar{ zchar[// @lengthOf(
42 ]
    pack , string_
A , char[]crc , _x trueish ,
// " ++ [27880; 37322]%N ++ runes_of_ascii "
// " ++ [128512]%N ++ runes_of_ascii " emoji
zchar[
    3 ]	T // trailing space 
, } packet body
{
    }
")).
Eval vm_compute in ("<<<M3053>>>" ++ check (runes_of_ascii "packet BodyLength {} MetaData zchar{ zchar[// @lengthOf(
42 ]
     , string_
A , char[]crc , _x trueish ,
// " ++ [27880; 37322]%N ++ runes_of_ascii "
// " ++ [128512]%N ++ runes_of_ascii " emoji
zchar[
    3 ]	T // trailing space 
, } packet body
{
    }
")).
Eval vm_compute in ("<<<M3085>>>" ++ check (runes_of_ascii "packet BodyLength {} MetaData zchar{ zchar[// @lengthOf(
42 ]
    pack , string_
A , char[], crc _x trueish ,
// " ++ [27880; 37322]%N ++ runes_of_ascii "
// " ++ [128512]%N ++ runes_of_ascii " emoji
zchar[
    3 ]	T // trailing space 
, } packet body
{
    }
")).
Eval vm_compute in ("<<<M3117>>>" ++ check (runes_of_ascii "packet BodyLength {} MetaData zchar{ zchar[// @lengthOf(
42 ]
    pack , string_
A , char[]crc , _x trueish ,
// " ++ [27880; 37322]%N ++ runes_of_ascii "
// " ++ [128512]%N ++ runes_of_ascii " emoji
zchar[")).
Eval vm_compute in ("<<<M3149>>>" ++ check (runes_of_ascii "packet BodyLength {} MetaData zchar{ zchar[// @lengthOf(
42 ]
    pack , string_
A , char[]crc , _x trueish ,
// " ++ [27880; 37322]%N ++ runes_of_ascii "
// " ++ [128512]%N ++ runes_of_ascii " emoji
zchar[
    3 ]	T // trailing space 
, } packet body
{ {
    }
")).
Eval vm_compute in ("<<<M3181>>>" ++ check (runes_of_ascii "string_
packet {@lengthOf( int ) match packetx as f32a {
    1 :	calculatedFrom , }  ,
    } packet len
    //	t
    { @calculatedFrom( """ ++ [233]%N ++ runes_of_ascii "t" ++ [233]%N ++ runes_of_ascii """ ) body Header , char[] lengthOf  `two words` ,chars{repeat string_ matchKey ,
    } ,
    }
")).
Eval vm_compute in ("<<<M3213>>>" ++ check (runes_of_ascii "packet
string_ {@lengthOf( int )")).
Eval vm_compute in ("<<<M3245>>>" ++ check (runes_of_ascii "packet
string_ {@lengthOf( int ) match packetx as f32a {
    1 :	calculatedFrom calculatedFrom , }  ,
    } packet len
    //	t
    { @calculatedFrom( """ ++ [233]%N ++ runes_of_ascii "t" ++ [233]%N ++ runes_of_ascii """ ) body Header , char[] lengthOf  `two words` ,chars{repeat string_ matchKey ,
    } ,
    }
")).
Eval vm_compute in ("<<<M3277>>>" ++ check (runes_of_ascii "packet
string_ {@lengthOf( int ) match packetx as f32a {
    1 :	calculatedFrom , }  ,
    } packet @lengthOf(
    //	t
    { @calculatedFrom( """ ++ [233]%N ++ runes_of_ascii "t" ++ [233]%N ++ runes_of_ascii """ ) body Header , char[] lengthOf  `two words` ,chars{repeat string_ matchKey ,
    } ,
    }
")).
Eval vm_compute in ("<<<M3309>>>" ++ check (runes_of_ascii "packet
string_ {@lengthOf( int ) match packetx as f32a {
    1 :	calculatedFrom , }  ,
    } packet len
    //	t
    { @calculatedFrom( """ ++ [233]%N ++ runes_of_ascii "t" ++ [233]%N ++ runes_of_ascii """ ) body Header  char[] lengthOf  `two words` ,chars{repeat string_ matchKey ,
    } ,
    }
")).
Eval vm_compute in ("<<<M3341>>>" ++ check (runes_of_ascii "packet
string_ {@lengthOf( int ) match packetx as f32a {
    1 :	calculatedFrom , }  ,
    } packet len
    //	t
    { @calculatedFrom( """ ++ [233]%N ++ runes_of_ascii "t" ++ [233]%N ++ runes_of_ascii """ ) body Header , char[] lengthOf  `two words` ,chars repeat{ string_ matchKey ,
    } ,
    }
")).
Eval vm_compute in ("<<<M3373>>>" ++ check (runes_of_ascii "packet
string_ {@lengthOf( int ) match packetx as f32a {
    1 :	calculatedFrom , }  ,
    } packet len
    //	t
    { @calculatedFrom( """ ++ [233]%N ++ runes_of_ascii "t" ++ [233]%N ++ runes_of_ascii """ ) body Header , char[] lengthOf  `two words` ,chars{repeat string_ matchKey ,
    }")).
Eval vm_compute in ("<<<M3405>>>" ++ check (runes_of_ascii "/// triple
root
packet // packet A { u8 x, }
chars { @lengthOf(charz )
true,  @tag(  0 ) // a // b
asx
    As
,
// trailing space 
// trailing space 
x_y_z {
repeat i16 charz , } ,	int16  crc ,}
")).
Eval vm_compute in ("<<<M3437>>>" ++ check (runes_of_ascii "/// triple
root
packet // packet A { u8 x, }
chars { @lengthOf(charz )
stringy@tag(  ,  0 ) // a // b
asx
    As
,
// trailing space 
// trailing space 
x_y_z {
repeat i16 charz , } ,	int16  crc ,}
")).
Eval vm_compute in ("<<<M3469>>>" ++ check (runes_of_ascii "/// triple
root
packet // packet A { u8 x, }
chars { @lengthOf(charz )
stringy,")).
Eval vm_compute in ("<<<M3501>>>" ++ check (runes_of_ascii "u8x")).
Eval vm_compute in ("<<<M3533>>>" ++ check (runes_of_ascii "match")).
Eval vm_compute in ("<<<M3565>>>" ++ check (runes_of_ascii "/ /")).
Eval vm_compute in ("<<<M3597>>>" ++ check (runes_of_ascii "-1")).
Eval vm_compute in ("<<<M3629>>>" ++ check (runes_of_ascii "packet A { repeat x @calculatedFrom(""c""), }")).
Eval vm_compute in ("<<<M3661>>>" ++ check (runes_of_ascii "packet A { x @leftPad(), }")).
Eval vm_compute in ("<<<M3693>>>" ++ check (runes_of_ascii "packet A { @rightPad(' ') @lengthOf(b) @calculatedFrom(""c"") @tag(007) match k as n { 1 : B }, }")).
Eval vm_compute in ("<<<M3725>>>" ++ check (runes_of_ascii "options { a = 1 }")).
Eval vm_compute in ("<<<M3757>>>" ++ check (runes_of_ascii "//")).
Eval vm_compute in ("<<<M3789>>>" ++ check (runes_of_ascii ">;[F3O[>-bU2x/'7qe+ed9_ks5gtvz]0HxB5m05")).
Eval vm_compute in ("<<<M3821>>>" ++ check (runes_of_ascii "Lo_ykz+9Xu;""4|qSO]{1*j;}C!@L<UI|")).
Eval vm_compute in ("<<<M3853>>>" ++ check (runes_of_ascii """^mnk%>I")).
Eval vm_compute in ("<<<M3885>>>" ++ check (runes_of_ascii ")$Z0zf1J-HkGp0jL+Y]p.:$m)3^YLJ8c&")).
Eval vm_compute in ("<<<M3917>>>" ++ check (runes_of_ascii "0pn%8M-rBvt|5 \C[hT@!;4*$%")).
Eval vm_compute in ("<<<M3949>>>" ++ check (runes_of_ascii "I6.v$")).
Eval vm_compute in ("<<<M3981>>>" ++ check (runes_of_ascii "1#c%.")).
