From FP Require Import Lexer Parser ShowPT Digest Formatter.
From Coq Require Import String List NArith.
Import ListNotations.
Open Scope string_scope.
Set Printing Width 100000000.
Set Printing Depth 100000000.
Definition show_fres (r : fres) : string :=
  match r with
  | FOk s => "OK:" ++ sh_escaped s ""
  | FErr s => "ERR:" ++ sh_escaped s ""
  | FPanic p => "PANIC:" ++ p
  end.
Definition check (rs : list rune) : string := digest (show_fres (format_res rs)).
Definition full (rs : list rune) : string := show_fres (format_res rs).
Eval vm_compute in ("<<<M32>>>" ++ check (runes_of_ascii "packet Logon{
f32a
// " ++ [27880; 37322]%N ++ runes_of_ascii "
// " ++ [128512]%N ++ runes_of_ascii " emoji
@lengthOf(
x ) `u8 x,` ,
@calculatedFrom(
    // `tick` ""quote"" 'q'
    ""a\""b"" // trailing space 
) @rightPad( '0'
)repeat int8
u128`doc` , match packetx //x
as
a1 { [
    // " ++ [27880; 37322]%N ++ runes_of_ascii "
    65535, """ ++ [128512]%N ++ runes_of_ascii """ ]
: packetx	,00 : x
,
// c
// @lengthOf(
} ,
    @calculatedFrom(""" ++ [28040; 24687]%N ++ runes_of_ascii """ )match
leftPad as lengthOf /// triple
{ 0
: packetx, [
    ""{,}"" // `tick` ""quote"" 'q'
,  0,
""CRC32"" , 4294967296
]
    :
    // @lengthOf(
    int
, """ ++ [28040; 24687]%N ++ runes_of_ascii """:A, [ 7
, 0  ,
""abc"" ,""CRC32"" ,""x y""// c
,
    //	t
    255
// a // b
// " ++ [27880; 37322]%N ++ runes_of_ascii "
, 007
, 1 // @lengthOf(
]	: _x } ,matchKey@lengthOf(tag ) , string BodyLength
    @calculatedFrom( ""packet""	)
/// triple
// a // b
, As @lengthOf(i8i8 ) `a\`
,int16 A@lengthOf( tag ) `// not a comment`
// " ++ [128512]%N ++ runes_of_ascii " emoji
//
,
}
MetaData metadata
//	t
// " ++ [128512]%N ++ runes_of_ascii " emoji
{
u32
// c
// a // b
a1 ,  u16 BodyLength `tab	here` // " ++ [128512]%N ++ runes_of_ascii " emoji
, int8
lengthOf// " ++ [27880; 37322]%N ++ runes_of_ascii "
,
    // " ++ [128512]%N ++ runes_of_ascii " emoji
    trueish x_y_z ,charz leftPad //
,} MetaData leftPad {	} packet rootA
{ match
    x
as
    int
    {0123456789// `tick` ""quote"" 'q'
: u8x
    ,
    0123456789
    :  tag
    ,	} , @lengthOf(A )
repeat
f32 body `a\` ,// trailing space 
i64	rootA
    // packet A { u8 x, }
    , @tag(007 ) match // @lengthOf(
Logon as metadata
    {
[""a	b"", // `tick` ""quote"" 'q'
65535
, ""abc"", 3 ,
10 , ""\" ++ [233]%N ++ runes_of_ascii """
]
    // packet A { u8 x, }
    :u128, 7
: // packet A { u8 x, }
zchar, 7 : stringy
    , 007
    :  string_ , """" : //x
a1 , }
,// c
i8
lengthOf// trailing space 
, float64 pack @calculatedFrom(""" ++ [128512]%N ++ runes_of_ascii """
) ,  repeatCount @calculatedFrom(
""// no comment"") , float // c
string_ , @leftPad // c
(
    '0' ) @calculatedFrom( ""a	b"" )@calculatedFrom( ""\" ++ [233]%N ++ runes_of_ascii """ ) // `tick` ""quote"" 'q'
match
    Logon as
    // @lengthOf(
    msg_type {	255 : roots, 255: x_y_z
// c
// packet A { u8 x, }
,	""it's""  :
len,[00 ,
    // packet A { u8 x, }
    42
    , ""\n"" ,007
    , ""1""
,//
""a\\"" , ""a\\""] :
f32a [
    42,	""a	b""
/// triple
//
]  :
    Header, [ """" , ""\" ++ [233]%N ++ runes_of_ascii """// `tick` ""quote"" 'q'
]
    : //
tag , } , // packet A { u8 x, }
int , }
    options // c
{uint8x = // @lengthOf(
""\n"" ;}
")).
Eval vm_compute in ("<<<M3962>>>" ++ check (runes_of_ascii "MetaData
	x	{string_
x
`tab	here`
,
	}
packet

    u { @tag(  1
)  match
x
as

    Z9_

{ 
""a\""b""
:
asx	}	, 	 // " ++ [128512]%N ++ runes_of_ascii " emoji
    leftPad@calculatedFrom(	""it's"")  `" ++ [28040; 24687; 31867; 22411]%N ++ runes_of_ascii "`  ,	//	t
    	@tag(
10)
    Packet
,u64 
        //x
    // a // b

stringy

@calculatedFrom(

    ""1"" )
`doc`  , char[
3
	]  // " ++ [128512]%N ++ runes_of_ascii " emoji
x_y_z@lengthOf( lengthOf )
`" ++ [28040; 24687; 31867; 22411]%N ++ runes_of_ascii "`

    , 
} root packet 
Pad
	{ int8
    Header @calculatedFrom(
	""1"" )  `u8 x,` , @calculatedFrom(	""" ++ [128512]%N ++ runes_of_ascii """ 	 // packet A { u8 x, }
    	)

int64 BodyLength 
`u8 x,`,

@leftPad (	' ' 
// a // b
	)  char[] float
    , 
@lengthOf(  //x
    	repeatCount
)
char[]  repeatCount 
,

}

    packet
    falsey 
    //
// `tick` ""quote"" 'q'
      { 
@calculatedFrom(
	""" ++ [28040; 24687]%N ++ runes_of_ascii """ )@rightPad(

    ) @leftPad  // c
  (

    '\x00'	)
    zchar[3]  i8i8 `tab	here`,
    } 
	    //x

	// packet A { u8 x, }
packet zchar {  Header 
@calculatedFrom( ""a\\""
	)

    , 	 // a // b
    	msg_type `` ,@calculatedFrom( """ ++ [28040; 24687]%N ++ runes_of_ascii """  )	Logon zchar

    ,

i32 u128@calculatedFrom( ""packet"" )
	// packet A { u8 x, }
  /// triple
,
        // `tick` ""quote"" 'q'
  // c
  u8	_x  `
` ,	@leftPad (
	'0'	) uint16
asx
`a\` ,  @calculatedFrom(
	""\n"")
@calculatedFrom( ""a	b""

    )
float64
	leftPad@lengthOf(

    // c

  repeatCount 
      /// triple
    	//
)`it's`
	,	match 
metadata  as

options1	{[42,
    1

    ]  // `tick` ""quote"" 'q'
  :

BodyLength  ""`tick`""  :_x ,

65535	:

asx ,  65535
	:
	BodyLength 
""a\\""

    :
	    //

	string_ }
	, match
/// triple
//
    uint8x  as
	chars
{
10
:	/// triple
	Logon	""// no comment""
	: float ,	/// triple

	[ 
""packet""
	,
7 ] :	MetaDataX
10 
:

asx 
,	""" ++ [28040; 24687]%N ++ runes_of_ascii """

    :  i64_
    ,
	}
    , }

")).
Eval vm_compute in ("<<<M279>>>" ++ check (runes_of_ascii "//x
root packet
// `tick` ""quote"" 'q'
// `tick` ""quote"" 'q'
i8i8 { u128{ repeat lengthOf Foo //
`u8 x,`
,MetaDataX	falsey
`two words` ,Pad{	u8 a1 @lengthOf( leftPad )
, }
    , int @calculatedFrom( // " ++ [128512]%N ++ runes_of_ascii " emoji
""a\\""
    ) `
`
    ,	}
    , Header
Logon , match rootA// c
as
    BodyLength
    // " ++ [27880; 37322]%N ++ runes_of_ascii "
    { """ ++ [28040; 24687]%N ++ runes_of_ascii """ :	Pad [ """ ++ [233]%N ++ runes_of_ascii "t" ++ [233]%N ++ runes_of_ascii """
    ,
1
] : _x , }, options1 `crlf
line` , repeat u	{ match	i8i8 as falsey
{// `tick` ""quote"" 'q'
[ 42 , 4294967296 ]: x_y_z ,42
:
    float ,
// `tick` ""quote"" 'q'
// c
3
    : packetx
, } , }
, charz ,
    }
    // a // b
    root packet float
// @lengthOf(
// c
{ repeat _x body `say ""hi""` , charz`// not a comment`,repeat lengthOf{
repeatCount { repeat
tag { zchar[ 42  ]
// a // b
// " ++ [27880; 37322]%N ++ runes_of_ascii "
leftPad
,repeat
    zchar[0123456789  ]T `crlf
line`,  char[]
trueish , zchar[ 007 // " ++ [128512]%N ++ runes_of_ascii " emoji
]	lengthOf @lengthOf(string_
)`" ++ [233]%N ++ runes_of_ascii "` ,
} ,repeat int32 As
,int8 chars	, i32 calculatedFrom`it's`, } /// triple
, zchar[ 00 ] chars ``
, }	,char[255
] charz @calculatedFrom(""1"" ) `doc` , // packet A { u8 x, }
match body
as rootA { ""CRC32"" :	A , [ 007
    , ""{,}""
    ,
    0 // `tick` ""quote"" 'q'
,""1""
    ,0123456789 ,""// no comment""// " ++ [27880; 37322]%N ++ runes_of_ascii "
, ""it's"", 1] :
    BodyLength 65535 : x_y_z [""`tick`""]  : a1 }, repeat	asx{ char[ 0123456789 ]
    i64_ `" ++ [28040; 24687; 31867; 22411]%N ++ runes_of_ascii "` ,
    } , @lengthOf(  x_y_z )
pack
@calculatedFrom(""" ++ [233]%N ++ runes_of_ascii "t" ++ [233]%N ++ runes_of_ascii """) ,@tag( 3
// trailing space 
//
) repeat uint64 o
    ,// @lengthOf(
}")).
Eval vm_compute in ("<<<M1213>>>" ++ check (runes_of_ascii "packet
u8x { int8 T,	string
    msg_type
@lengthOf(
    o )
    , uint64
pack `tab	here` , chars len  , @lengthOf( u8x )  repeat Packet _x `crlf
line` // `tick` ""quote"" 'q'
,@tag(255 ) @tag( 4294967296 ) @rightPad( )	match// c
metadata
as pack { // a // b
""a\""b"" : a1
// `tick` ""quote"" 'q'
// " ++ [27880; 37322]%N ++ runes_of_ascii "
,
    } ,
    a1 {match  Foo as trueish { [""a\""b"", ""a\""b""
] : x
"""" :
    tag ,// c
""1"" :
Foo ,
[
4294967296
,""`tick`"",65535 , 65535 , 10 ]	:
_x // " ++ [27880; 37322]%N ++ runes_of_ascii "
}
,} ,
    match	options1 as T{ [
    3 ] : Z9_//x
,	[ ""abc""]// trailing space 
:lengthOf, } ,// c
leftPad
`a\`// " ++ [27880; 37322]%N ++ runes_of_ascii "
,	} packet Packet {
repeat float64
    u8x `doc` , match metadata as int{ [ //
4294967296
    , // `tick` ""quote"" 'q'
0123456789 , 007,
""" ++ [128512]%N ++ runes_of_ascii """ ,
""1""] : x_y_z
    ,
    7
    :
int
    ,  007 :len""" ++ [28040; 24687]%N ++ runes_of_ascii """: string_ ,
} ,repeat	zchar[ 3 ]  pack `u8 x,`,@leftPad ('0'
)	char[ 007 ] x_y_z , zchar[ 10 ]u @lengthOf(
x
), repeat metadata//
`" ++ [28040; 24687; 31867; 22411]%N ++ runes_of_ascii "`  , options1
    { body
    @calculatedFrom(
// c
//	t
""abc""  )
    `
` , string crc  , char[	007	] A , }	,
@calculatedFrom( ""{,}"" ) @calculatedFrom(
    ""CRC32"") char[] Foo
`line1
line2`, @calculatedFrom( ""`tick`"" ) @rightPad
( '\x00' ) @tag(
// `tick` ""quote"" 'q'
// packet A { u8 x, }
10
) zchar[ 007  ] float, // a // b
repeat
    zchar[ 10
]Z9_
,
    // " ++ [128512]%N ++ runes_of_ascii " emoji
    }

")).
Eval vm_compute in ("<<<M913>>>" ++ check (runes_of_ascii "// packet A { u8 x, }
root
    packet
    u128
    {
// packet A { u8 x, }
// trailing space 
len T
`
`	, match Foo as
float { 0  : roots , [""`tick`"" ]
    : //
_x , } , @rightPad ( '0' ) @calculatedFrom( ""packet""  ) //
char[] x_y_z
    `crlf
line` , i64 msg_type , @rightPad ( ' ' ) @lengthOf( // c
roots)
Pad @calculatedFrom( """ ++ [233]%N ++ runes_of_ascii "t" ++ [233]%N ++ runes_of_ascii """)`" ++ [233]%N ++ runes_of_ascii "`	, }
    packet Logon { repeat len Z9_ , u8x@calculatedFrom( ""a\""b"" ) ,
    repeat int8 rootA `
` //
,string
//	t
//	t
Foo , // c
@lengthOf( float ) repeat// " ++ [128512]%N ++ runes_of_ascii " emoji
char[]
options1  , } root
packet x
    { @tag( //x
1
    )repeat string_ , f64	lengthOf , @tag( // " ++ [27880; 37322]%N ++ runes_of_ascii "
4294967296 ) repeat u8x
len  `" ++ [233]%N ++ runes_of_ascii "`
,
//	t
// `tick` ""quote"" 'q'
@rightPad
('\x00'  )@calculatedFrom(
""CRC32"")
    @tag( 3 ) falsey
{
    uint8 trueish
    `two words`
, // `tick` ""quote"" 'q'
} // @lengthOf(
,@calculatedFrom( """ ++ [233]%N ++ runes_of_ascii "t" ++ [233]%N ++ runes_of_ascii """ ) // " ++ [27880; 37322]%N ++ runes_of_ascii "
repeat
    zchar[00
] // packet A { u8 x, }
crc	`two words`,	T // " ++ [128512]%N ++ runes_of_ascii " emoji
, match i64_ as
    // " ++ [27880; 37322]%N ++ runes_of_ascii "
    msg_type	{""{,}"" :
u8x ""\" ++ [233]%N ++ runes_of_ascii """
: T , [	7
] : matchKey,
""`tick`"" : len , 42 : matchKey
,
} , // c
}
    options { x= zchar[
10 ] ; pack  = false
repeatCount =
true ; charz
    = '0' BodyLength = ""// no comment""; }

")).
Eval vm_compute in ("<<<M4269>>>" ++ check (runes_of_ascii "root packet options1 {
    repeat u {
        f64 roots,
    },
    zchar falsey `crlf
    line`,
    match u as Foo {
        42 : lengthOf,
        ""\n"" : crc,
        [4294967296, 4294967296, 3, ""\" ++ [233]%N ++ runes_of_ascii """, ""x y""] : o,
    },
    a1 `crlf
    line`,
    @rightPad()
    char[0123456789] x_y_z `line1
    line2`,
    @lengthOf(trueish)
    i32 A `u8 x,`,
}

packet packetx {
    // " ++ [128512]%N ++ runes_of_ascii " emoji
    match u as u8x {
        // " ++ [27880; 37322]%N ++ runes_of_ascii "
        255 : lengthOf,
        [
            """ ++ [233]%N ++ runes_of_ascii "t" ++ [233]%N ++ runes_of_ascii """, 7, 00, ""a\\"", 10,
            0, 007, 3
        ] : string_,
        0123456789 : f32a,
    },// trailing space 
    stringy @calculatedFrom(""\" ++ [233]%N ++ runes_of_ascii """) `line1
    line2`,
    @leftPad()
    zchar[10] trueish,// packet A { u8 x, }
}

root packet Logon {
    i64_ @lengthOf(int) `// not a comment`,
    @tag(3)
    match lengthOf as pack {
        42 : T,
        255 : int,
        007 : tag,
        4294967296 : _x,
    },
    @calculatedFrom(""packet"")
    @tag(10)
    @tag(65535)
    zchar[65535] roots,
    @rightPad(' ')
    @tag(7)
    // @lengthOf(
    string Packet @lengthOf(u) `tab	here`,
}

packet metadata {
}

root packet x {
}")).
Eval vm_compute in ("<<<M1185>>>" ++ check (runes_of_ascii "packet T { x repeatCount
`tab	here` ,
    repeat	a1 `a\`
, a1 @calculatedFrom( ""CRC32"" ),	repeat string msg_type`// not a comment`, // trailing space 
} packet
// @lengthOf(
// trailing space 
uint8x {zchar[65535 ] //x
roots,	i64_ stringy
,zchar[ 0123456789 ]
tag `" ++ [28040; 24687; 31867; 22411]%N ++ runes_of_ascii "` , @tag( 42) match
i8i8 as Header {	[ ""// no comment"" ,	""abc"" // c
,
    255 ,
65535/// triple
] : charz , 00 : /// triple
Z9_,} ,
uint8 int	@calculatedFrom(
    ""`tick`"") ,@lengthOf( asx ) match crc as trueish {
[ """" ,""// no comment""
    ,
42 ,
    // @lengthOf(
    ""packet""
    ]	: chars , 0 :
// packet A { u8 x, }
//
x
""packet"" : crc ,
} ,@calculatedFrom( ""{,}"" // a // b
)repeatCount ,
@tag( 7 ) BodyLength @calculatedFrom(
""a	b""
) ,	repeat u32 i64_ , }
packet
f32a
{@tag(
    //x
    42
    ) @tag( 10 ) string MetaDataX @calculatedFrom(""" ++ [28040; 24687]%N ++ runes_of_ascii """ // " ++ [27880; 37322]%N ++ runes_of_ascii "
)
    ,
    //	t
    crc {
a1 // a // b
@calculatedFrom( ""a\\"" ) `crlf
line`
,
    repeat zchar[10] A  , } , // " ++ [27880; 37322]%N ++ runes_of_ascii "
match Packet	as Pad // a // b
{ ""CRC32""
: msg_type
, } ,
repeat string A `doc` ,}
")).
Eval vm_compute in ("<<<M3520>>>" ++ check (runes_of_ascii "options{StringPrefixLenType =u8	;	ArrayPrefixLenType

=u8;
    FixedStringPadFromLeft =
true; FixedStringPadChar
    =  ' '

    ;
    }  packet Logout  {	repeat string Px , repeat  string seqNo ,InMsgkind64{ uint16 OrderId  , 
char[]count
    , repeat i32
venue,	}

    ,	}packet
    Heartbeat{
	float32 tag7,

    repeat InPrice50
    { repeat char[
	5 
] lastPx,

    InRef42
{
u8

pad0 , } , uint32
    Acct,	repeat
	Logout	, 
repeat char[

    5	]
Qty, } 
,repeat
	InSeqno30
{
    repeat
	Logout

    ,
}
    , @leftPad	('0'

) char[

    12	]Acct	,

    char[]

    Side2 ,
repeat string
msgKind,

} 
packet Ack  {

    Heartbeat,
char[	8 ]
seqNo
,
	float64	clOrdID

,  } 
packet
Trade{	char[]	OrderId

,

f64
Side2
,
	zchar[8 ] f1 , string	Qty , float64
seqNo
,repeat Logout

, }packet
    Order 
{
f32
	OrderId,	repeat	u8  x

    ,
    Ack

,  zchar[7]
    Note
	,
} 
root  packet 
Logon

    {  @rightPad
(  '\x00'
	)
char[ 9  ]f1
	,
}
")).
Eval vm_compute in ("<<<M832>>>" ++ check (runes_of_ascii "MetaData  rootA
    //	t
    {
} // " ++ [27880; 37322]%N ++ runes_of_ascii "
packet	tag {repeat
    lengthOf i8i8
    `a\` // @lengthOf(
,	@leftPad ('0') @rightPad
    ( '\x00' )  match
    chars as trueish
    { ""it's""
    : As
, ""x y"": u //	t
,
//x
/// triple
42
    // trailing space 
    :chars
,7: float ,
255 : Foo ,
    } , @calculatedFrom(""packet""
/// triple
// @lengthOf(
) match u128 as tag {	00 :  packetx
    ,255 : uint8x , [ ""{,}"" , """ ++ [128512]%N ++ runes_of_ascii """ ,// @lengthOf(
65535
, 10, // " ++ [27880; 37322]%N ++ runes_of_ascii "
7,
""packet"", // c
255 ,
    ""a\""b"" ] : o ,  0 : //
x_y_z
,
    } // `tick` ""quote"" 'q'
,
@tag( // " ++ [128512]%N ++ runes_of_ascii " emoji
0123456789 ) u { match pack as _x{
[  007 ,0123456789
] : charz , } ,
    char[
    42 ] u
    // " ++ [128512]%N ++ runes_of_ascii " emoji
    , } ,
    int8 trueish ,@lengthOf( a1) x // trailing space 
@calculatedFrom( ""\" ++ [233]%N ++ runes_of_ascii """ ) , @rightPad ( '0' )
    Packet Z9_,  @leftPad ('\x00' ) falsey
    { char[] msg_type	,
} ,}
root packet len {  options1 {
    uint16 As @lengthOf( //x
zchar ) `it's`
    , },
    }")).
Eval vm_compute in ("<<<M4401>>>" ++ check (runes_of_ascii "packet

    u
    {uint64

    u8x

    ,

@leftPad

('0' ) u16
    uint8x
	@lengthOf(
T )

    , @lengthOf(  
      // `tick` ""quote"" 'q'
	// `tick` ""quote"" 'q'
  lengthOf

    )@lengthOf(	msg_type  )
    u16
    tag	@calculatedFrom(  ""a\""b""

) 
	// a // b
	`crlf
line` 
,

}packet
As
	{
@calculatedFrom(
    ""a\\""
) u128{	int16 
string_  
  // c
      @lengthOf( Header  )
	, repeat
	i64_	`{ , }`

    , } ,	/// triple
  } 
root
packet
roots

{ 
@calculatedFrom(	//	t
	""`tick`""
    )i32

    Header 
`" ++ [233]%N ++ runes_of_ascii "`
,

    int8

T
, @rightPad(

' '	)

u32 charz`doc`, 
char[ 65535 ]  f32a  ,
metadata

    , }
    MetaData	T
{ u8x
roots

`it's`
    , options1  MetaDataX

    ,  int32  f32a, }
options
	{	// trailing space 

	f32a= '0'  Pad 
= 
    //x
	// trailing space 
0123456789;	repeatCount 
    // a // b

  =

char[]x_y_z
	    //x
// " ++ [27880; 37322]%N ++ runes_of_ascii "
= '\x00'
    }
")).
Eval vm_compute in ("<<<M882>>>" ++ check (runes_of_ascii "packet chars
{
    @leftPad	( '0'
    ) char[]
MetaDataX
@lengthOf(
Foo
) , @lengthOf(
    chars
)repeat
    BodyLength
    // `tick` ""quote"" 'q'
    ,	@lengthOf(MetaDataX  ) @lengthOf( A ) uint8x// trailing space 
{ u16 Pad @lengthOf(
// a // b
/// triple
charz ) `line1
line2`, i64_
{ match
    i8i8/// triple
as i8i8  {	7 :calculatedFrom 255 :
x_y_z
,
    0123456789
    : rootA""packet"" : string_ , 0123456789:  chars
,	}
//x
// " ++ [27880; 37322]%N ++ runes_of_ascii "
, } , } ,	zchar[3] Header	`two words` , i32 o , @tag(
4294967296)	pack
    ``
    ,
    repeatCount {
i8 // " ++ [128512]%N ++ runes_of_ascii " emoji
i64_ `
`	, asx
i64_ , crc { repeat zchar[
    255 ] repeatCount // c
,repeat uint8 Packet,
char
leftPad
// packet A { u8 x, }
// `tick` ""quote"" 'q'
, uint32 lengthOf	@lengthOf( charz ) , } /// triple
,
},
leftPad `` , repeat int16
Pad
    //x
    ,
repeat u matchKey, }
")).
Eval vm_compute in ("<<<M3525>>>" ++ check (runes_of_ascii "options {
    LittleEndian = true;
    StringPrefixLenType = u64;
    ArrayPrefixLenType = u8;
    FixedStringPadChar = '0';
}
packet Reject {
    i32 Ref,
    repeat f64 OrderId,
    repeat InNote12 {
        u8 pad0,
    },
    @leftPad(' ') char[6] count,
}
packet Logout {
    zchar[6] Tail,
    repeat string venue,
}
packet Cancel {
    u64 count,
    repeat char[5] lastPx,
    i64 Tail,
    repeat InF140 {
        repeat Logout,
        repeat Reject,
    },
}
root packet Trade {
    repeat InMsgkind39 {
        repeat Reject,
        char[4] Px,
    },
    string Acct,
    uint16 price,
    f32 OrderId,
    u16 x,
    u16 clOrdID @lengthOf(Body),
    match x as Body {
        178 : Logout,
        13 : Cancel,
        174 : Reject,
    },
    u16 Flags @calculatedFrom(""CRC32""),
}
")).
Eval vm_compute in ("<<<M3668>>>" ++ check (runes_of_ascii "

  packet As	{

    @lengthOf(
	chars
    )

@leftPad

    ( 
' ' )
string
	leftPad

@lengthOf( _x) ,

    @tag( 	 // " ++ [128512]%N ++ runes_of_ascii " emoji
00 

    /// triple
) match // " ++ [128512]%N ++ runes_of_ascii " emoji
A
as falsey
	{  // `tick` ""quote"" 'q'
0

    : i64_ ,

[""x y"" 
,
    ""a\""b""
, ""it's"" , 
""x y"" 
,

    007

,

    ""a	b""

    ] // `tick` ""quote"" 'q'

  :
roots 
65535
://x
  stringy	, },
    zchar[4294967296 
] 
string_ `it's`,int16
Logon `it's`	, 
@calculatedFrom(

    """ ++ [233]%N ++ runes_of_ascii "t" ++ [233]%N ++ runes_of_ascii """

)  repeat char[]// " ++ [27880; 37322]%N ++ runes_of_ascii "
  stringy `a\`  ,	repeat char[3  ]crc , @lengthOf(
msg_type)x{
u8x
    int	`two words`  , i8i8
_x  // packet A { u8 x, }

  `
`  ,
	int8  Logon 
@lengthOf(  Pad  ),

}	, 
@tag( 1 )

i64
	string_
    @calculatedFrom(""\" ++ [233]%N ++ runes_of_ascii """ )
    , 	 // packet A { u8 x, }
	char[]
Foo, 
}

")).
Eval vm_compute in ("<<<M4317>>>" ++ check (runes_of_ascii "packet Header {
    @lengthOf(BodyLength)
    string body @lengthOf(zchar) `two words`,
    @lengthOf(rootA)
    i32 metadata `it's`,
    @tag(00)
    // trailing space 
    msg_type @lengthOf(As),
    int {
        repeat string u128 `" ++ [233]%N ++ runes_of_ascii "`,
        match MetaDataX as packetx {
            [1, 0] : MetaDataX,
            ""{,}"" : calculatedFrom,
        },
        // trailing space 
        match asx as Logon {
            7 : uint8x,
            00 : x_y_z,
            ""\" ++ [233]%N ++ runes_of_ascii """ : o,
            """ ++ [233]%N ++ runes_of_ascii "t" ++ [233]%N ++ runes_of_ascii """ : chars,
        },
        body i64_ `crlf
        line`,
    },
    a1 `line1
    line2`,
    // `tick` ""quote"" 'q'
    // a // b
    chars `// not a comment`,
    @tag(7)
    leftPad charz,
    int64 a1 @calculatedFrom(""\n""),
}")).
Eval vm_compute in ("<<<M3827>>>" ++ check (runes_of_ascii "packet BodyLength {
    zchar[10] x @calculatedFrom(""""),
    @lengthOf(string_)
    metadata,
    @lengthOf(trueish)
    repeat chars {
        zchar[00] T @calculatedFrom(""a	b"") `crlf
                line`,
        char[0] chars,
    },
    uint8 rootA @lengthOf(int),
    @lengthOf(packetx)
    char[007] uint8x @calculatedFrom(""\" ++ [233]%N ++ runes_of_ascii """),
    u {
        char[] Pad @calculatedFrom(""\n""),
    },
    char[10] pack @lengthOf(_x) `two words`,
    char[] Logon @lengthOf(body),
    @lengthOf(matchKey)
    chars {
        uint16 pack,
        char[4294967296] options1 @calculatedFrom(""CRC32""),
        u32 i64_ `say ""hi""`,
        lengthOf `// not a comment`,
    },
    options1 @lengthOf(x),
}")).
Eval vm_compute in ("<<<M983>>>" ++ check (runes_of_ascii "packet
    // c
    i64_{ @calculatedFrom( ""it's""
    )// @lengthOf(
leftPad@lengthOf( repeatCount
    // " ++ [128512]%N ++ runes_of_ascii " emoji
    ) ,// `tick` ""quote"" 'q'
@tag( 00)int32 leftPad ,
    f64 float
,
@calculatedFrom(
""" ++ [233]%N ++ runes_of_ascii "t" ++ [233]%N ++ runes_of_ascii """ )
@calculatedFrom( ""{,}"")
match
falsey
as u {
3 : // trailing space 
chars	3//	t
:  repeatCount ,} , @calculatedFrom( """ ++ [128512]%N ++ runes_of_ascii """ ) char[ 10 ] x,
    char falsey @calculatedFrom( ""a\\"" )
,
// " ++ [27880; 37322]%N ++ runes_of_ascii "
// trailing space 
@tag(
    0123456789	) @rightPad( '\x00'
)
    zchar[ // " ++ [27880; 37322]%N ++ runes_of_ascii "
1 ] pack `say ""hi""`	, } packet
i64_{ zchar[  007 ] falsey `tab	here`  , } root packet
// a // b
// c
body {} packet roots{
}packet
x {
    string asx @lengthOf(string_
)
    //x
    ,	}
")).
Eval vm_compute in ("<<<M1019>>>" ++ check (runes_of_ascii "packet
Foo { @calculatedFrom( ""it's"")/// triple
@calculatedFrom( ""// no comment"" )	pack @calculatedFrom(
    ""// no comment"" ) `tab	here`
, }
root packet options1 { @tag( 42 ) // a // b
repeat char[ 42 // a // b
]
Packet `// not a comment`,	Logon { len ,  crc { zchar[ 65535
    ] msg_type
    @calculatedFrom( ""`tick`""
) ,}
    ,}, } packet matchKey
{ @lengthOf(int
    )
@calculatedFrom(
    ""// no comment""
)  @tag(7
// `tick` ""quote"" 'q'
// @lengthOf(
) x_y_z ,
    i16 x_y_z `say ""hi""`
    , @calculatedFrom(	""" ++ [233]%N ++ runes_of_ascii "t" ++ [233]%N ++ runes_of_ascii """
    )
    @calculatedFrom( //x
"""")
// a // b
//x
@tag(
4294967296 )
    // @lengthOf(
    BodyLength string_,	}")).
Eval vm_compute in ("<<<M1127>>>" ++ check (runes_of_ascii "packet calculatedFrom {// trailing space 
@lengthOf( // `tick` ""quote"" 'q'
crc
) string a1
`say ""hi""` // trailing space 
, repeat int64
    float `" ++ [28040; 24687; 31867; 22411]%N ++ runes_of_ascii "`
,
// trailing space 
// " ++ [128512]%N ++ runes_of_ascii " emoji
@calculatedFrom( ""`tick`""
    ) BodyLength
    @calculatedFrom(
    ""packet"" )
, char[ 65535
    ] pack
    // packet A { u8 x, }
    ,	}
packet
    //x
    Logon// a // b
{u falsey , repeat i8i8  , calculatedFrom @calculatedFrom(
    """ ++ [28040; 24687]%N ++ runes_of_ascii """
) ,
    // c
    repeat
    // " ++ [27880; 37322]%N ++ runes_of_ascii "
    A As ,  } MetaData uint8x {
matchKey
T
`" ++ [233]%N ++ runes_of_ascii "` ,o T // " ++ [128512]%N ++ runes_of_ascii " emoji
, char[
00] int
`crlf
line` , char[3
] pack // " ++ [128512]%N ++ runes_of_ascii " emoji
,
len a1 `say ""hi""`// c
,}")).
Eval vm_compute in ("<<<M124>>>" ++ check (runes_of_ascii "packet
crc// @lengthOf(
{ @rightPad ( '0' ) char[7
    // c
    ]
matchKey  @calculatedFrom( ""{,}"") , } packet x_y_z  {  @calculatedFrom( ""a\""b"" )
T
{ Header
{
    // packet A { u8 x, }
    lengthOf
packetx
`// not a comment` ,A
    i8i8 `crlf
line` , string o `line1
line2` ,
string_ @lengthOf( tag ) `line1
line2` , },
    } ,
match
lengthOf as	Z9_ {
""\" ++ [233]%N ++ runes_of_ascii """
: A , }
, match rootA as
matchKey// `tick` ""quote"" 'q'
{	[""`tick`""// @lengthOf(
,""x y""
] :  Packet, }
, //x
repeat zchar[
    1 ]// a // b
_x
// " ++ [128512]%N ++ runes_of_ascii " emoji
/// triple
, char[]
    msg_type , A rootA , } //")).
Eval vm_compute in ("<<<M1146>>>" ++ check (runes_of_ascii "options
    {
    // " ++ [27880; 37322]%N ++ runes_of_ascii "
    tag = ' '
leftPad // c
=  255 x_y_z=
uint32; // a // b
falsey= """ ++ [28040; 24687]%N ++ runes_of_ascii """ As  =""packet"" ; }packet As
{
@lengthOf( u ) repeat
u8 i8i8 `two words`,
@tag( 00 // " ++ [27880; 37322]%N ++ runes_of_ascii "
)@tag(	1 //x
)
    char[ 255 ] a1	@lengthOf( zchar )  , i32
    //
    u, repeat	float32 tag ,
    //
    A	,repeat uint8
//x
// `tick` ""quote"" 'q'
string_, @calculatedFrom(
""a\""b""	) @lengthOf(
Header )u{int8	asx ``, i32 Foo
@lengthOf( // " ++ [27880; 37322]%N ++ runes_of_ascii "
tag )`
` , }
    , float64 pack
    , @tag(10) Foo //	t
, match repeatCount as u8x { 42: o, } , }

")).
Eval vm_compute in ("<<<M795>>>" ++ check (runes_of_ascii "
packet rootA { string calculatedFrom@lengthOf(
matchKey )
, }packet rootA
    {
// " ++ [27880; 37322]%N ++ runes_of_ascii "
//
repeat string
string_ ,
} packet	x_y_z{ repeat	string i64_
    //x
    `two words` ,@leftPad (
// " ++ [27880; 37322]%N ++ runes_of_ascii "
// " ++ [128512]%N ++ runes_of_ascii " emoji
) repeat int64 Foo ,
match chars
as int {""" ++ [28040; 24687]%N ++ runes_of_ascii """
: o
    /// triple
    """ ++ [233]%N ++ runes_of_ascii "t" ++ [233]%N ++ runes_of_ascii """: crc,
4294967296 : repeatCount
// a // b
// @lengthOf(
, [1 ]  : As,
[ 255,""" ++ [128512]%N ++ runes_of_ascii """
    //
    , ""x y""	,
    ""{,}"", 4294967296,
"""" ,
    ""a\""b"" ,
00 ] : u128 , // " ++ [128512]%N ++ runes_of_ascii " emoji
""\" ++ [233]%N ++ runes_of_ascii """ : lengthOf ,
    } , int64 uint8x
    // c
    , }
")).
Eval vm_compute in ("<<<M785>>>" ++ check (runes_of_ascii "packet asx {
// c
// " ++ [27880; 37322]%N ++ runes_of_ascii "
u8 float , //	t
}
packet Logon { @tag(10 )@calculatedFrom(// @lengthOf(
""packet"" ) i64
    Logon @lengthOf(f32a ) ,zchar[ 1 ]stringy
    @calculatedFrom(
    ""// no comment"" )
    `crlf
line` ,
    // @lengthOf(
    match lengthOf as trueish { 255
: string_// `tick` ""quote"" 'q'
,
// c
// c
4294967296: u
    ,
    } , @tag( 7 ) tag{ repeat crc, zchar
    @calculatedFrom( ""\" ++ [233]%N ++ runes_of_ascii """
)`{ , }` , } , char[] msg_type, repeat string Packet
    `" ++ [28040; 24687; 31867; 22411]%N ++ runes_of_ascii "`  , }
//x
")).
Eval vm_compute in ("<<<M4496>>>" ++ check (runes_of_ascii "options {
    zchar = false;
    Packet = ""`tick`"";
    a1 = char[];
    Packet = 0123456789;
}

packet msg_type {
    /// triple
    @lengthOf(u128)
    body @lengthOf(len),
    @calculatedFrom(""CRC32"")
    zchar[007] repeatCount @lengthOf(Foo) `it's`,
    i16 leftPad @calculatedFrom(""a\\"") `u8 x,`,
    /// triple
    float,
    @lengthOf(a1)
    As @lengthOf(rootA) `doc`,// " ++ [128512]%N ++ runes_of_ascii " emoji
    f32 o @calculatedFrom(""a	b"") `tab	here`,
}

options {
}

options {
}")).
Eval vm_compute in ("<<<M726>>>" ++ check (runes_of_ascii "packet u
{
    @calculatedFrom( """"
)float64 i8i8
, @tag(42
)@lengthOf( Z9_ ) @tag(  00	) Logon  metadata , float64 packetx
// trailing space 
// a // b
,// c
char[]trueish@calculatedFrom(""// no comment"" )	`" ++ [28040; 24687; 31867; 22411]%N ++ runes_of_ascii "`	,leftPad
    , repeat  i32 x ,@calculatedFrom(	""" ++ [233]%N ++ runes_of_ascii "t" ++ [233]%N ++ runes_of_ascii """ )u16
    As,
repeat
    char[] Header , match
T
as falsey {
10
:
    string_ }
// " ++ [27880; 37322]%N ++ runes_of_ascii "
//x
, } packet A {zchar[ 42]
rootA
    ,f32	pack
@lengthOf(
    zchar)  , // @lengthOf(
}
")).
Eval vm_compute in ("<<<M456>>>" ++ check (runes_of_ascii "MetaData  rootA {
char[ 42 ] body `tab	here` , string pack, zchar[ 65535 ]A // trailing space 
`it's` ,i64_
    Pad , } MetaData
leftPad { int16 u, } packet trueish
{ @tag(00
    ) char[ 42 ]
    MetaDataX `crlf
line` , @lengthOf(asx  ) chars
charz
    ,@rightPad
//
// c
(
'0')
@lengthOf( a1 ) char[] Packet @calculatedFrom( ""x y"" )  `crlf
line` , len i8i8 , @rightPad (
    '\x00')options1 {	x
@lengthOf( Z9_ ) , } ,}")).
Eval vm_compute in ("<<<M3544>>>" ++ check (runes_of_ascii "options {
    LittleEndian = false;
    StringPrefixLenType = u8;
    ArrayPrefixLenType = u16;
    FixedStringPadFromLeft = false;
}
packet Heartbeat {
    u8 seqNo,
    @rightPad('\x00') char[8] x,
}
root packet Trade {
    repeat Heartbeat,
    float32 OrderId,
    i64 Acct,
    u16 Qty,
    u16 clOrdID,
    match clOrdID as Body {
        131 : Heartbeat,
    },
    u16 sym @calculatedFrom(""CRC32""),
}
")).
Eval vm_compute in ("<<<M1067>>>" ++ check (runes_of_ascii "packet
i64_	{
x_y_z
`it's`, o @lengthOf( i64_ )
    // a // b
    ,
    char[007	]trueish
// trailing space 
/// triple
@lengthOf( leftPad )
    ,
} MetaData tag {
    char[ 65535
]
// c
/// triple
pack ,
int64  Logon`two words` , // a // b
}
packet u8x
{ float64
    lengthOf , repeat char[]
As,
    u
BodyLength ,tag { repeat BodyLength	{// a // b
uint16 zchar `doc`,	}
    ,
    } , }
")).
Eval vm_compute in ("<<<M768>>>" ++ check (runes_of_ascii "
packet Pad
{@lengthOf(
x ) match Header as // c
A
// " ++ [27880; 37322]%N ++ runes_of_ascii "
// @lengthOf(
{  """ ++ [128512]%N ++ runes_of_ascii """
    : // c
x_y_z [""" ++ [233]%N ++ runes_of_ascii "t" ++ [233]%N ++ runes_of_ascii """ ]: body }// `tick` ""quote"" 'q'
, @calculatedFrom( ""a\""b""	)float32 uint8x ,	int16 roots, @calculatedFrom( ""abc"" ) i8 len
    // `tick` ""quote"" 'q'
    @lengthOf(
x_y_z ), }
    packet chars
    { string Packet `doc`	, rootA {
    repeat o , }
, pack stringy	`" ++ [28040; 24687; 31867; 22411]%N ++ runes_of_ascii "` , }")).
Eval vm_compute in ("<<<M3693>>>" ++ check (runes_of_ascii "//x
packet int
	{  repeat
options1
falsey
    , 
@lengthOf( // " ++ [128512]%N ++ runes_of_ascii " emoji
roots

    )

    f32 
Header @lengthOf( leftPad
    ) 
,  repeat

    crc uint8x

    ,

falsey{
	_x
	body  `
` , repeat	Packet	Foo
,
	uint64
As

@calculatedFrom(
	""1"" )`
`

    , repeat
	Header  ,
    } ,
char[ 7 ]  
      /// triple

Logon@calculatedFrom(
""a\\""
	) ,

}
")).
Eval vm_compute in ("<<<M74>>>" ++ check (runes_of_ascii "// packet A { u8 x, }
root packet
charz {
    matchKey { repeat
    Foo { // trailing space 
uint8 chars @lengthOf(	x
    ) , } //
, pack{rootA@lengthOf( MetaDataX// c
) , } // a // b
, roots{zchar[	10	]
    leftPad ,
    } ,	repeat pack
stringy`two words` ,	}, } packet rootA {char[ 10 ]
    x_y_z
`{ , }` , uint64 falsey ,
    // " ++ [27880; 37322]%N ++ runes_of_ascii "
    }
")).
Eval vm_compute in ("<<<M1370>>>" ++ check (runes_of_ascii "options	{ rootA =""" ++ [28040; 24687]%N ++ runes_of_ascii """
    ;a1 = // a // b
'\x00' ;
    asx=	' '} MetaData string_ { char[]
    i64_ `it's` ,  }
packet
float {@calculatedFrom(	""// no comment"" ) repeat char[]  Z9_, @lengthOf(
Foo
    ) uint16
u @calculatedFrom( ""\n"" )	, repeat uint32 a1 , // `tick` ""quote"" 'q'
Logon
// " ++ [128512]%N ++ runes_of_ascii " emoji
// " ++ [128512]%N ++ runes_of_ascii " emoji
`line1
line2`, }
//
")).
Eval vm_compute in ("<<<M4183>>>" ++ check (runes_of_ascii "MetaData u8x {
    packetx len `crlf
        line`,
    char[255] calculatedFrom `" ++ [28040; 24687; 31867; 22411]%N ++ runes_of_ascii "`,
    float64 MetaDataX `say ""hi""`,
    BodyLength charz `crlf
        line`,
}

packet lengthOf {
    //	t
    @tag(4294967296)
    uint8x @calculatedFrom(""\n"") `" ++ [28040; 24687; 31867; 22411]%N ++ runes_of_ascii "`,
    char calculatedFrom @calculatedFrom(""" ++ [28040; 24687]%N ++ runes_of_ascii """) `two words`,
}")).
Eval vm_compute in ("<<<M3808>>>" ++ check (runes_of_ascii "packet

body 
{ 
i32  options1

    ,} packet
int{repeat 
f32a
{

options1@calculatedFrom(  ""abc"" 	 // " ++ [27880; 37322]%N ++ runes_of_ascii "

	)

// a // b

, zchar[  4294967296
]
calculatedFrom
,	x_y_z
@calculatedFrom(
""packet""
)
`say ""hi""`
    ,
}
,
	}  packet
x_y_z 
{ repeat
float64

MetaDataX `crlf
line` //	t
,crc

A	``,  }

")).
Eval vm_compute in ("<<<M1420>>>" ++ check (runes_of_ascii "root packet Foo Foo // " ++ [128512]%N ++ runes_of_ascii " emoji
{ } options {
    // a // b
    tag // `tick` ""quote"" 'q'
= //	t
""""
    ; u8x = zchar[0  ] }
MetaData
    int {zchar[ 10]
lengthOf	`` , i64 u8x`// not a comment` ,MetaDataX pack// `tick` ""quote"" 'q'
`crlf
line`
, Logon charz `crlf
line`
    ,
    // a // b
    }
")).
Eval vm_compute in ("<<<M1450>>>" ++ check (runes_of_ascii "root packet Foo // " ++ [128512]%N ++ runes_of_ascii " emoji
{ } options {
    // a // b
    tag // `tick` ""quote"" 'q'
= = //	t
""""
    ; u8x = zchar[0  ] }
MetaData
    int {zchar[ 10]
lengthOf	`` , i64 u8x`// not a comment` ,MetaDataX pack// `tick` ""quote"" 'q'
`crlf
line`
, Logon charz `crlf
line`
    ,
    // a // b
    }
")).
Eval vm_compute in ("<<<M1619>>>" ++ check (runes_of_ascii "root packet Foo // " ++ [128512]%N ++ runes_of_ascii " emoji
{ } options {
    // a //# b
    tag // `tick` ""quote"" 'q'
= //	t
""""
    ; u8x = zchar[0  ] }
MetaData
    int {zchar[ 10]
lengthOf	`` , i64 u8x`// not a comment` ,MetaDataX pack// `tick` ""quote"" 'q'
`crlf
line`
, Logon charz `crlf
line`
    ,
    // a // b
    }
")).
Eval vm_compute in ("<<<M1551>>>" ++ check (runes_of_ascii "root packet Foo // " ++ [128512]%N ++ runes_of_ascii " emoji
{ } options {
    // a // b
    tag // `tick` ""quote"" 'q'
= //	t
""""
    ; u8x = zchar[0  ] }
MetaData
    int {zchar[ 10]
lengthOf	`` , i64 u8x, `// not a comment`MetaDataX pack// `tick` ""quote"" 'q'
`crlf
line`
, Logon charz `crlf
line`
    ,
    // a // b
    }
")).
Eval vm_compute in ("<<<M1599>>>" ++ check (runes_of_ascii "root packet Foo // " ++ [128512]%N ++ runes_of_ascii " emoji
{ } options {
    // a // b
    tag // `tick` ""quote"" 'q'
= //	t
""""
    ; u8x = zchar[0  ] }
MetaData
    int {zchar[ 10]
lengthOf	`` , i64 u8x`// not a comment` ,MetaDataX pack// `tick` ""quote"" 'q'
`crlf
line`
, Logon charz `crlf
line`
    ,
    // a // b
    
")).
Eval vm_compute in ("<<<M4363>>>" ++ check (runes_of_ascii "MetaData 
// a // b
	  uint8x	/// triple
	{
}packet matchKey{ @rightPad
    (
    )
	a1

    { zchar[ 1 ]

    u128 @calculatedFrom(
    ""a\""b"" ),
i64_
i8i8,  
      // c
	repeat

    int
roots
    ,
    i8
	charz 
    //
// packet A { u8 x, }
  ,}

    ,
}

options { 
}

")).
Eval vm_compute in ("<<<M3517>>>" ++ check (runes_of_ascii "options {
    LittleEndian = true;
    ArrayPrefixLenType = u64;
    FixedStringPadFromLeft = false;
}
packet Quote {
}
root packet Order {
    i64 Side2,
    Quote,
    u32 Px,
    match Px as Body {
        [119, 147] : Quote,
    },
    u16 Flags @calculatedFrom(""CR\
C32""),
}
")).
Eval vm_compute in ("<<<M601>>>" ++ check (runes_of_ascii "
options { } root packet lengthOf { repeat//x
int
    , string trueish @lengthOf( MetaDataX ) `say ""hi""` , int64 x_y_z
// trailing space 
// packet A { u8 x, }
, } packet // a // b
calculatedFrom
{@tag( 10
// packet A { u8 x, }
/// triple
) zchar leftPad
`it's` , }")).
Eval vm_compute in ("<<<M243>>>" ++ check (runes_of_ascii "packet leftPad{
    trueish { char[] charz	@calculatedFrom(  ""\n"" )
// @lengthOf(
//x
,
    } , @rightPad
    ( '0' ) @tag( 255 )len {
    zchar[
65535
] f32a , }
,f64
    i8i8	`` , } options {chars = 00 Pad =
    false // a // b
stringy =
string
    }
")).
Eval vm_compute in ("<<<M3813>>>" ++ check (runes_of_ascii "  packet  x_y_z 	 //x
  {
@tag(

0123456789 
) match// " ++ [27880; 37322]%N ++ runes_of_ascii "
  T	as

    roots
	{ 255	:  asx
,
[  1

    //x
,  3 
,	""`tick`""]
:
    Header

3 :
    pack	// " ++ [128512]%N ++ runes_of_ascii " emoji
	}
,

    u64 
a1/// triple
    `tab	here`	,
	_x  options1

    `{ , }`, }")).
Eval vm_compute in ("<<<M669>>>" ++ check (runes_of_ascii "
root packet roots { @tag( 42  )repeat // " ++ [128512]%N ++ runes_of_ascii " emoji
string //	t
options1,
}
MetaData crc{ pack metadata `line1
line2`
,	int64 asx
// a // b
//	t
, // " ++ [27880; 37322]%N ++ runes_of_ascii "
A float ,char[65535 ]Z9_ `tab	here`
,
u8 u128 `` // trailing space 
,// a // b
}
")).
Eval vm_compute in ("<<<M3747>>>" ++ check (runes_of_ascii "root packet BodyLength {
    //x
    //	t
    @rightPad(' ')
    f32 _x @lengthOf(Header) `" ++ [28040; 24687; 31867; 22411]%N ++ runes_of_ascii "`,
    @lengthOf(crc)
    // a // b
    @tag(007)
    char[] a1,
}

packet metadata {
    Foo @calculatedFrom(""\n""),
    char _x,
}")).
Eval vm_compute in ("<<<M2296>>>" ++ check (runes_of_ascii "MetaData Packet { }packet	asx  { @lengthOf( asx) falsey`crlf
line`
,
    }
    packet x	{uint32 uint32// @lengthOf(
rootA	,u32 options1 `say ""hi""` , @tag( 7
    )// packet A { u8 x, }
msg_type @lengthOf(
stringy	)	, }

")).
Eval vm_compute in ("<<<M2241>>>" ++ check (runes_of_ascii "MetaData Packet { }packet	asx  { { @lengthOf( asx) falsey`crlf
line`
,
    }
    packet x	{uint32// @lengthOf(
rootA	,u32 options1 `say ""hi""` , @tag( 7
    )// packet A { u8 x, }
msg_type @lengthOf(
stringy	)	, }

")).
Eval vm_compute in ("<<<M2390>>>" ++ check (runes_of_ascii "MetaData Packet { }packet	asx  { @lengthOf( asx) falsey`crlf
line`
,
    }
|    packet x	{uint32// @lengthOf(
rootA	,u32 options1 `say ""hi""` , @tag( 7
    )// packet A { u8 x, }
msg_type @lengthOf(
stringy	)	, }

")).
Eval vm_compute in ("<<<M2352>>>" ++ check (runes_of_ascii "MetaData Packet { }packet	asx  { @lengthOf( asx) falsey`crlf
line`
,
    }
    packet x	{uint32// @lengthOf(
rootA	,u32 options1 `say ""hi""` , @tag( 7
    )// packet A { u8 x, }
msg_type stringy
@lengthOf(	)	, }

")).
Eval vm_compute in ("<<<M1068>>>" ++ check (runes_of_ascii "MetaData pack
    {Header  len ,  } packet
i8i8	{pack @lengthOf( // @lengthOf(
int )
, }root packet
// `tick` ""quote"" 'q'
// c
MetaDataX {char[007 ] metadata ,}
MetaData //x
MetaDataX { int
    //x
    o , }
")).
Eval vm_compute in ("<<<M917>>>" ++ check (runes_of_ascii "options { uint8x = ""\n"" ;
// " ++ [128512]%N ++ runes_of_ascii " emoji
// packet A { u8 x, }
}packet
    //
    repeatCount {
roots
len ,
@lengthOf( f32a )
    // `tick` ""quote"" 'q'
    o `say ""hi""` ,
    }//	t
options //x
{ a1 = u32 ; }
")).
Eval vm_compute in ("<<<M715>>>" ++ check (runes_of_ascii "packet u128 // packet A { u8 x, }
{ @tag( 00 )
    // trailing space 
    i64 msg_type @calculatedFrom(
""x y"" ) , repeat //
calculatedFrom u//
, @rightPad
('0')repeat string chars`` , int8 metadata,}
")).
Eval vm_compute in ("<<<M13>>>" ++ check (runes_of_ascii "packet crc {
@tag(  0123456789// " ++ [128512]%N ++ runes_of_ascii " emoji
) i64 uint8x , }
MetaData i8i8 {
    zchar[
    65535 ] int, }	packet lengthOf  {
// trailing space 
//	t
@leftPad	('0')	falsey int ,	}
// @lengthOf(
")).
Eval vm_compute in ("<<<M4043>>>" ++ check (runes_of_ascii "MetaData	int
    {  string Z9_ `say ""hi""`
,	char[]  // @lengthOf(
	uint8x 	 // packet A { u8 x, }
	`// not a comment`  ,  char[]
    Foo
,trueish
	T
, 	 // " ++ [27880; 37322]%N ++ runes_of_ascii "
    asx  asx
    ,
}
")).
Eval vm_compute in ("<<<M3456>>>" ++ check (runes_of_ascii "// top
root // c0
packet P // c2a
  // c2b
{ u16 // c4
a // c5a
  // c5b
, // c6
u32 // c7
Sum @calculatedFrom(
    // c9
""CRC32"" // c10
) , // c12a
  // c12b
} // c13a
  // c13b
")).
Eval vm_compute in ("<<<M4514>>>" ++ check (runes_of_ascii "MetaData options1 {
    packetx x `
        `,//	t
}

options {
    x_y_z = true
    options1 = char[];
    body = 65535/// triple
    lengthOf = ""it's"";
    x = '\x00'
}")).
Eval vm_compute in ("<<<M1183>>>" ++ check (runes_of_ascii "packet Z9_
{@calculatedFrom( ""{,}"" ) roots //x
{ len {
    msg_type //x
,uint8x `{ , }`  , zchar[
// trailing space 
// " ++ [128512]%N ++ runes_of_ascii " emoji
0
] //	t
matchKey ,
    } , } , }
")).
Eval vm_compute in ("<<<M553>>>" ++ check (runes_of_ascii "MetaData
i64_ { float32 BodyLength
    // a // b
    , int8
tag
`two words` , roots
a1 `crlf
line` ,}  MetaData f32a { int64 o
    `tab	here`, i32
    A, }")).
Eval vm_compute in ("<<<M492>>>" ++ check (runes_of_ascii "
root
packet chars
    {
repeat
a1 { trueish x `" ++ [28040; 24687; 31867; 22411]%N ++ runes_of_ascii "` ,	},
}
MetaData metadata { int32
int
, f64 uint8x `say ""hi""` //
, i64 rootA `crlf
line` ,}
")).
Eval vm_compute in ("<<<M1653>>>" ++ check (runes_of_ascii "root packet /// triple
rootA {	i32
MetaDataX@calculatedFrom( @calculatedFrom( ""CRC32"" ) `line1
line2` , } MetaData BodyLength {
u8
rootA, } // c")).
Eval vm_compute in ("<<<M3829>>>" ++ check (runes_of_ascii "packet A {
    Inner {
        u8 x `
                x`,
        Deep {
            u8 y `
                        x`,
        },
    },
}")).
Eval vm_compute in ("<<<M1303>>>" ++ check (runes_of_ascii "root packet lengthOf { char[00 ]  x@lengthOf(
matchKey ) ,
    //	t
    float64 repeatCount // c
, @lengthOf(	zchar
)	char[]roots  ,	}
")).
Eval vm_compute in ("<<<M4261>>>" ++ check (runes_of_ascii "packet A {
    u8 a,
}

packet B {
    u16 b,
}

root packet P {
    u8 K,
    match K as M {
        1 : A,
        1 : B,
    },
}")).
Eval vm_compute in ("<<<M4398>>>" ++ check (runes_of_ascii "  packet	A

    {match k
    as n	{	[

""a"" 
,

    ""bb""
,
""c c""

    ,
""d"" ,

    ""e"",	""f""  ]
:
B,

    2: 
C 
} ,
    }")).
Eval vm_compute in ("<<<M1714>>>" ++ check (runes_of_ascii "root packet /// triple
rootA {	i32
MetaDataX@calculatedFrom( ""CRC32"" ) `line1
line2` , } MetaData BodyLength {
u8
rootA, A // c")).
Eval vm_compute in ("<<<M1705>>>" ++ check (runes_of_ascii "root packet /// triple
rootA {	i32
MetaDataX@calculatedFrom( ""CRC32"" ) `line1
line2` , } MetaData BodyLength {
u8
i8, } // c")).
Eval vm_compute in ("<<<M1806>>>" ++ check (runes_of_ascii "packet
    Pad // a // b
{ i8i8 @calculatedFrom( ""a	b"" ""a	b"") `u8 x,` ,
} options{ float// " ++ [128512]%N ++ runes_of_ascii " emoji
= f64 i64_
=//	t
00 }
")).
Eval vm_compute in ("<<<M3433>>>" ++ check (runes_of_ascii "packet B {
    u8 a,
}
root packet P {
    u8 K,
    u8 L @lengthOf(Body),
    match K as Body {
        1 : B,
    },
}
")).
Eval vm_compute in ("<<<M1868>>>" ++ check (runes_of_ascii "packet
    Pad // a // b
{ i8i8 @calculatedFrom( ""a	b"") `u8 x,` ,
} options{ float// " ++ [128512]%N ++ runes_of_ascii " emoji
= f64 i64_
=//	t
root }
")).
Eval vm_compute in ("<<<M4220>>>" ++ check (runes_of_ascii "
options	{i8i8

    =	""// no comment""

    ; o
= 
'0'Header  =
'0'
    ;

    a1 =
	zchar[  1
    ]

    }

")).
Eval vm_compute in ("<<<M437>>>" ++ check (runes_of_ascii "options { calculatedFrom= ""a\""b"" calculatedFrom=
i64 MetaDataX //
=  ""x y""msg_type = char[1
/// triple
// c
] ;} //x")).
Eval vm_compute in ("<<<M99>>>" ++ check (runes_of_ascii "// c
packet Logon
    {
@tag(
42 )
    repeat i64_ {As crc , }, } packet x_y_z { @lengthOf( x_y_z ) i8
u `it's`, }")).
Eval vm_compute in ("<<<M4408>>>" ++ check (runes_of_ascii "// top
root packet P {
    u16 a,// c6
    u32 Sum @calculatedFrom(""CRC32""),// c12a
    // c12b
}// c13a
// c13b")).
Eval vm_compute in ("<<<M1696>>>" ++ check (runes_of_ascii "root packet /// triple
rootA {	i32
MetaDataX@calculatedFrom( ""CRC32"" ) `line1
line2` , } MetaData BodyLength")).
Eval vm_compute in ("<<<M3040>>>" ++ check (runes_of_ascii "packet A {
    u16 len @lengthOf(body) `
x`,
    u32 crc @calculatedFrom(""CRC32"") `
x`,
    string body,
}")).
Eval vm_compute in ("<<<M2983>>>" ++ check (runes_of_ascii "packet A {
  match k as n {
    [""a"", 22, ""c c"", 4, ""e"", 66, ""g"", 8, ""i"", 10, ""k""] : B
    2 : C
  },
}")).
Eval vm_compute in ("<<<M3366>>>" ++ check (runes_of_ascii "packet calculatedFrom { @tag( 4294967296 ) u msg_type , char[ 3 ] crc @lengthOf(
// c
len ) `u8 x,` , }")).
Eval vm_compute in ("<<<M3928>>>" ++ check (runes_of_ascii "packet
Logon
{ 
@tag(	42 
) @rightPad	(  ' '	)@leftPad( ) repeat trueish {
string  T  ,
}  , } 	 // c")).
Eval vm_compute in ("<<<M1111>>>" ++ check (runes_of_ascii "
options { Foo=""`tick`""pack=
    //
    """ ++ [233]%N ++ runes_of_ascii "t" ++ [233]%N ++ runes_of_ascii """ ;leftPad
= false ; int
=char[] ; a1 =i16
    ;
}
")).
Eval vm_compute in ("<<<M961>>>" ++ check (runes_of_ascii "options  { }MetaData
    u128 {
int64 u8x
,lengthOf
    u128 `it's` // c
,}options//	t
{ // c
}")).
Eval vm_compute in ("<<<M3242>>>" ++ check (runes_of_ascii "packet Logon { @tag( 42 ) @rightPad ( ' ' ) @leftPad ( ) repeat // c
trueish { string T , } , }")).
Eval vm_compute in ("<<<M2032>>>" ++ check (runes_of_ascii "root
packet crc
    { f32a @calculatedFrom( """ ++ [233]%N ++ runes_of_ascii "t" ++ [233]%N ++ runes_of_ascii """ )
    `say ""hi""`, lengthOf `` ,  }@leftpad")).
Eval vm_compute in ("<<<M3674>>>" ++ check (runes_of_ascii "packet

A 
{
match k
as 
n
{ 
[
	1

,22

    ,

007

, 4
,
	5
	]	:
B ,
2:C
	}

    ,} ")).
Eval vm_compute in ("<<<M4309>>>" ++ check (runes_of_ascii "options {
    repeatCount = ""CRC32""
    x = true//x
    u = ""\" ++ [233]%N ++ runes_of_ascii """;
    stringy = '\x00';
}")).
Eval vm_compute in ("<<<M3778>>>" ++ check (runes_of_ascii "packet A {
    B b `a
        b`,
    B `a
        b`,
    repeat B bs `a
        b`,
}")).
Eval vm_compute in ("<<<M1964>>>" ++ check (runes_of_ascii "root
crc packet
    { f32a @calculatedFrom( """ ++ [233]%N ++ runes_of_ascii "t" ++ [233]%N ++ runes_of_ascii """ )
    `say ""hi""`, lengthOf `` ,  }")).
Eval vm_compute in ("<<<M2921>>>" ++ check (runes_of_ascii "packet A {
  match k as n {
    [""a"", ""bb"", 007, ""d"", ""e"", 66] : B,
    2 : C
  },
}")).
Eval vm_compute in ("<<<M2937>>>" ++ check (runes_of_ascii "packet A {
  match k as n {
    [1, 22, 007, 4, 5, 66, 7, 8] : B,
    2 : C
  },
}")).
Eval vm_compute in ("<<<M3309>>>" ++ check (runes_of_ascii "packet o { @tag( 42 ) repeat x
// c
{ char[ 0123456789 ] i64_ , } , } options { }")).
Eval vm_compute in ("<<<M1876>>>" ++ check (runes_of_ascii "packet
    Pad // a // b
{ i8i8 @calculatedFrom( ""a	b"") `u8 x,` ,
} options{ fl")).
Eval vm_compute in ("<<<M234>>>" ++ check (runes_of_ascii "packet	As{ match  repeatCount as metadata
{ 007 : //x
crc, ""a	b"" :
    A} , }
")).
Eval vm_compute in ("<<<M2713>>>" ++ check (runes_of_ascii "options repeat [ ] uint32 false match char[] @tag( MetaData string , float32")).
Eval vm_compute in ("<<<M3809>>>" ++ check (runes_of_ascii "// `tick` ""quote"" 'q'
options {
    leftPad = float32
}

root packet o {
}")).
Eval vm_compute in ("<<<M698>>>" ++ check (runes_of_ascii "root packet Z9_{ @rightPad(
    ) packetx `" ++ [233]%N ++ runes_of_ascii "` , }
root packet falsey {}")).
Eval vm_compute in ("<<<M3401>>>" ++ check (runes_of_ascii "MetaData _x { zchar[ // c
4294967296 ] lengthOf `// not a comment` , }")).
Eval vm_compute in ("<<<M269>>>" ++ check (runes_of_ascii "MetaData u8x { uint32 i8i8 `it's`, } options
{
    Logon
= '0'	; }
")).
Eval vm_compute in ("<<<M2200>>>" ++ check (runes_of_ascii "root
    // `tick` ""quote"" 'q'
    packet As { trueish` Packet , }
")).
Eval vm_compute in ("<<<M3640>>>" ++ check (runes_of_ascii "packet trueish {
    @calculatedFrom(""abc"")
    body `tab	here`,
}")).
Eval vm_compute in ("<<<M252>>>" ++ check (runes_of_ascii "packet
f32a { //
@tag( 1 )  Z9_ chars ,chars// " ++ [128512]%N ++ runes_of_ascii " emoji
`
`, }
")).
Eval vm_compute in ("<<<M1950>>>" ++ check (runes_of_ascii "
packet	As { @cal'\x01'culatedFrom(//x
""{,}""	)lengthOf , } 	 ")).
Eval vm_compute in ("<<<M2662>>>" ++ check (runes_of_ascii "options { a = true; b = false; c = '0'; d = ""s""; e = 007; }")).
Eval vm_compute in ("<<<M1936>>>" ++ check (runes_of_ascii "
packet	As { @calculatedFrom(//x
""{,}""	)lengthOf , } } 	 ")).
Eval vm_compute in ("<<<M2859>>>" ++ check (runes_of_ascii "packet A {
  match k as n {
    [1] : B
    2 : C
  },
}")).
Eval vm_compute in ("<<<M1739>>>" ++ check (runes_of_ascii "options options { }options {  } // `tick` ""quote"" 'q'")).
Eval vm_compute in ("<<<M985>>>" ++ check (runes_of_ascii "//
options {
    options1	= ""a\""b""}
// @lengthOf(
")).
Eval vm_compute in ("<<<M2028>>>" ++ check (runes_of_ascii "root
packet crc
    { f32a @calculatedFrom( """ ++ [233]%N ++ runes_of_ascii "t" ++ [65533]%N)).
Eval vm_compute in ("<<<M959>>>" ++ check (runes_of_ascii "packet i8i8 {
    } packet asx	{ uint8	pack, }
")).
Eval vm_compute in ("<<<M1342>>>" ++ check (runes_of_ascii "
packet u128  {  char[00// " ++ [128512]%N ++ runes_of_ascii " emoji
]
Pad , }
")).
Eval vm_compute in ("<<<M2825>>>" ++ check (runes_of_ascii "@lengthOf( @calculatedFrom( MetaDataX i8 i8 ;")).
Eval vm_compute in ("<<<M2559>>>" ++ check (runes_of_ascii "packet A { repeat match k as n { 1 : B }, }")).
Eval vm_compute in ("<<<M866>>>" ++ check (runes_of_ascii "packet
o
//	t
// `tick` ""quote"" 'q'
{
}
")).
Eval vm_compute in ("<<<M2190>>>" ++ check (runes_of_ascii "root
    // `tick` ""quote"" 'q'
    packe")).
Eval vm_compute in ("<<<M3732>>>" ++ check (runes_of_ascii "root packet A {
    u8 x `
        x`,
}")).
Eval vm_compute in ("<<<M2107>>>" ++ check (runes_of_ascii "MetaData {
x// " ++ [128512]%N ++ runes_of_ascii " emoji
i16 stringy , }")).
Eval vm_compute in ("<<<M2580>>>" ++ check (runes_of_ascii "packet A { zchar[3] x @lengthOf(y), }")).
Eval vm_compute in ("<<<M1305>>>" ++ check (runes_of_ascii "MetaData Header {
pack o`doc` ,
}
")).
Eval vm_compute in ("<<<M4467>>>" ++ check (runes_of_ascii "packet A {
    u8 x `d 	`,// c 	
}")).
Eval vm_compute in ("<<<M4022>>>" ++ check (runes_of_ascii "packet A {
    u8 x `d" ++ [12288]%N ++ runes_of_ascii "`,// c" ++ [12288]%N ++ runes_of_ascii "
}")).
Eval vm_compute in ("<<<M2783>>>" ++ check (runes_of_ascii "U^}|d}OPKLGCG6_a=z(#7;cXSYr;lQ")).
Eval vm_compute in ("<<<M2092>>>" ++ check (runes_of_ascii "MetaData A { u64 pack, }@tag ")).
Eval vm_compute in ("<<<M4424>>>" ++ check (runes_of_ascii "// c
packet
lengthOf{
}

")).
Eval vm_compute in ("<<<M820>>>" ++ check (runes_of_ascii "MetaData repeatCount
{
}
")).
Eval vm_compute in ("<<<M2091>>>" ++ check (runes_of_ascii "MetaData A { u64 pack~, }")).
Eval vm_compute in ("<<<M2053>>>" ++ check (runes_of_ascii "MetaData { A u64 pack, }")).
Eval vm_compute in ("<<<M3916>>>" ++ check (runes_of_ascii "packet repeatCount {
}//")).
Eval vm_compute in ("<<<M965>>>" ++ check (runes_of_ascii "options { } /// triple")).
Eval vm_compute in ("<<<M2698>>>" ++ check (runes_of_ascii "`" ++ [233]%N ++ runes_of_ascii "` int16 [ ( options")).
Eval vm_compute in ("<<<M4472>>>" ++ check (runes_of_ascii "

  // @lengthOf(
 
")).
Eval vm_compute in ("<<<M4300>>>" ++ check (runes_of_ascii "//
packet

crc{}

")).
Eval vm_compute in ("<<<M3086>>>" ++ check (runes_of_ascii "packet A {
}
// c" ++ [8192]%N)).
Eval vm_compute in ("<<<M2565>>>" ++ check (runes_of_ascii "packet A { u8 , }")).
Eval vm_compute in ("<<<M128>>>" ++ check (runes_of_ascii "packet i8i8
{}
")).
Eval vm_compute in ("<<<M2711>>>" ++ check ([65533; 65533]%N ++ runes_of_ascii "S" ++ [65533; 65533; 65533; 65533]%N ++ runes_of_ascii "L" ++ [65533]%N ++ runes_of_ascii "w" ++ [65533; 65533; 65533; 21; 65533]%N)).
Eval vm_compute in ("<<<M1914>>>" ++ check (runes_of_ascii "
packet	As {")).
Eval vm_compute in ("<<<M2633>>>" ++ check (runes_of_ascii "packet A {")).
Eval vm_compute in ("<<<M2435>>>" ++ check (runes_of_ascii "zchar[]")).
Eval vm_compute in ("<<<M2852>>>" ++ check (runes_of_ascii "uint32")).
Eval vm_compute in ("<<<M3065>>>" ++ check (runes_of_ascii "// c" ++ [12288]%N)).
Eval vm_compute in ("<<<M2513>>>" ++ check (runes_of_ascii """\\""")).
Eval vm_compute in ("<<<M2527>>>" ++ check (runes_of_ascii "1.5")).
Eval vm_compute in ("<<<M2535>>>" ++ check (runes_of_ascii "1_")).
