From FP Require Import Lexer Parser ShowPT Digest Formatter.
From Coq Require Import String List NArith.
Import ListNotations.
Open Scope string_scope.
Set Printing Width 100000000.
Set Printing Depth 100000000.
Definition show_fres (r : fres) : string :=
  match r with
  | FOk s => "OK:" ++ sh_escaped s ""
  | FErr s => "ERR:" ++ sh_escaped s ""
  | FPanic p => "PANIC:" ++ p
  end.
Definition check (rs : list rune) : string := digest (show_fres (format_res rs)).
Definition full (rs : list rune) : string := show_fres (format_res rs).
Eval vm_compute in ("<<<M1557>>>" ++ check (runes_of_ascii "  packet

    body{  Z9_ { string

leftPad 
`crlf
line`,  msg_type {// c
  uint64 
tag
`{ , }` ,
repeat
	f64
    BodyLength ,

    },  i8i8

BodyLength 
,
} 
	// " ++ [128512]%N ++ runes_of_ascii " emoji
  ,
falsey  //
,@leftPad
    ( 	 // c

  '0'

    ) 
@lengthOf( falsey	)f32
	Z9_	@lengthOf(

o

    ) ,
@calculatedFrom( """ ++ [233]%N ++ runes_of_ascii "t" ++ [233]%N ++ runes_of_ascii """)
repeat	string //x
As
,@lengthOf(
	falsey )

@calculatedFrom(
""a	b"")
@tag(3 )repeat	Header
    {

Packet
	@lengthOf(
    crc 
)	,
    repeat

int16	As  ,

repeat  uint16// packet A { u8 x, }
		f32a , }
,
	@lengthOf(
    float
	)

@tag(

3

)
    // a // b
	@tag( 	 // " ++ [128512]%N ++ runes_of_ascii " emoji
  10
) roots

    BodyLength  , 
string
tag	//	t
	,
	} MetaData  int

{ 
char[ 1	]
    As
,
Packet u128 ,  // c
      pack
	x_y_z

`{ , }`
, string_ len ,

    zchar[0]
Header
,	string zchar

    `
`	, }root packet
	uint8x
    {
    char[]

u128  ,
	}root

    packet crc

{	repeat
trueish{
f32
lengthOf
	`say ""hi""` 
,
i8 crc @calculatedFrom(

    """ ++ [233]%N ++ runes_of_ascii "t" ++ [233]%N ++ runes_of_ascii """)

    ,
match

Z9_
	as
repeatCount	{ 
[

3	]
: string_

,""it's""

:

    A
    0 :
    u8x
    65535 :

u128}, // trailing space 
	i32
    x, } , char[] pack`// not a comment` ,

char[]

leftPad

@calculatedFrom(

    """" ) 
`
`
,

    string
	o `doc`	,}

packet 	 // " ++ [27880; 37322]%N ++ runes_of_ascii "
  	rootA
    {  // " ++ [128512]%N ++ runes_of_ascii " emoji
repeat
	x_y_z { zchar[ 
    //	t
  //	t

	3 ]
	stringy `crlf
line`

    ,
    BodyLength 
BodyLength ``  , 
lengthOf @calculatedFrom(	""x y""
	), // c

	float64  
      // " ++ [27880; 37322]%N ++ runes_of_ascii "
      Logon@calculatedFrom(
""a\\""  ) 
, }, @lengthOf( Pad
)// `tick` ""quote"" 'q'
    @calculatedFrom( ""abc"")

@tag(  4294967296
)
uint8x
	@lengthOf(  // packet A { u8 x, }

crc )
	, @calculatedFrom(	//	t
	""" ++ [233]%N ++ runes_of_ascii "t" ++ [233]%N ++ runes_of_ascii """ ) string
u	@lengthOf(
    uint8x )

`// not a comment` , 
u
	metadata
`u8 x,`, 
} ")).
Eval vm_compute in ("<<<M1622>>>" ++ check (runes_of_ascii "

  options

{
u	=	""a\""b""
//	t
		//
	;Z9_ 
= ""// no comment"" ;	tag
    // " ++ [27880; 37322]%N ++ runes_of_ascii "
=7}

    root 
packet 
    // trailing space 

	As {
	}
packet 
Header

    { @lengthOf( 
Foo)

rootA @calculatedFrom(""\" ++ [233]%N ++ runes_of_ascii """

    ) , @calculatedFrom(""CRC32""	// a // b
) 
float64
	crc,
    repeat
char[	// packet A { u8 x, }
      007	]

    Logon
	, 	 //
@tag(
7 ) 

    //

  // c

@calculatedFrom(	""{,}"" )	@lengthOf(stringy
	)match//	t
    A
as 
    // " ++ [128512]%N ++ runes_of_ascii " emoji

// `tick` ""quote"" 'q'
  f32a 
{ 
    // `tick` ""quote"" 'q'

  [
	""a\\"" ,  1 , ""CRC32"",

    007
,	""a	b""	,	""\" ++ [233]%N ++ runes_of_ascii """]  :trueish,
    4294967296
	:  
  // c
	//x
    u8x ,  //
}
	,
@tag(

255

    )@lengthOf( u8x
	)
    @calculatedFrom(	""x y""
	)
	pack
{ uint16 uint8x, },match

    leftPad	as asx {  ""{,}""
    :
T
	007 
  //	t
    :  // @lengthOf(
	_x
1  : options1  , 
[
    42 
, 007	]  // a // b
  	:  calculatedFrom	, """ ++ [233]%N ++ runes_of_ascii "t" ++ [233]%N ++ runes_of_ascii """

:
lengthOf

}, 
u8x {

    int64  charz	`line1
line2` 
, } 
, repeat 
	    //x
Header 
BodyLength
`
`
	, 
@rightPad
(  // `tick` ""quote"" 'q'
'\x00'  )
@lengthOf(tag  )  match

    o	// trailing space 
as

uint8x{	[
	255 ]: _x

    ,	1
: matchKey , 
    // " ++ [128512]%N ++ runes_of_ascii " emoji
		//x
		65535
	: 
  // c
    // @lengthOf(

tag ,
0123456789	:	zchar ,""a\\"" :
	metadata ,

} 
, }")).
Eval vm_compute in ("<<<M210>>>" ++ check (runes_of_ascii "packet chars
    {
int32 trueish ,match Pad
as repeatCount { [0] :// " ++ [27880; 37322]%N ++ runes_of_ascii "
Pad
    , /// triple
3
: Foo , ""abc""
    :
i64_ //	t
, [255
    ,	3 ]
    :
Packet ,[
0123456789 // @lengthOf(
,""// no comment"" ]
: Packet , }
    , // c
match  a1 as u {[// `tick` ""quote"" 'q'
""abc""
, """ ++ [233]%N ++ runes_of_ascii "t" ++ [233]%N ++ runes_of_ascii """
, """" ,  0
    ,
    //	t
    255 ]
:u
    //	t
    ,
    } ,@tag(  10
    ) match a1
    as a1
{
    [42
    ]//
:packetx ,
    } ,@lengthOf(As ) repeat	char[0123456789] repeatCount`tab	here` ,string o `crlf
line` ,
//x
// a // b
As
    @lengthOf(//x
i8i8 )
    , string repeatCount @lengthOf( u128 ) ,
    //
    @tag( 00 ) repeat pack Logon , }	root packet Foo {@tag( 1)char[ // packet A { u8 x, }
3
]
i64_ ,
f32
// packet A { u8 x, }
// " ++ [27880; 37322]%N ++ runes_of_ascii "
charz , // `tick` ""quote"" 'q'
i8 zchar
    @lengthOf(// `tick` ""quote"" 'q'
MetaDataX ) /// triple
,@tag( 007 )u8 _x ,@tag(  255 ) msg_type@calculatedFrom(""`tick`"") `doc` ,  @calculatedFrom( """ ++ [233]%N ++ runes_of_ascii "t" ++ [233]%N ++ runes_of_ascii """ ) match len as /// triple
As {""// no comment"" : falsey ,
    }  , } MetaData leftPad{ x i8i8 , } //")).
Eval vm_compute in ("<<<M301>>>" ++ check (runes_of_ascii "root  packet
    MetaDataX { } options
    {
matchKey
= ""abc""
;i64_ =// a // b
7 ; len  = 1 x_y_z =//x
'0' ; } options { A
    = 7 len
// a // b
//x
=	zchar[4294967296 ]	;o
    = string ;
    int = false f32a = // trailing space 
""CRC32"" ;} root
    packet crc
    // " ++ [27880; 37322]%N ++ runes_of_ascii "
    { char[]
string_
    ,match i8i8 // c
as tag { //x
3 :packetx } ,  @rightPad(' '	)  repeat _x
// packet A { u8 x, }
//x
{ a1
trueish `// not a comment` , }	, int16// packet A { u8 x, }
Z9_ ,@lengthOf( uint8x
    // @lengthOf(
    )
// `tick` ""quote"" 'q'
// `tick` ""quote"" 'q'
zchar[
    // " ++ [128512]%N ++ runes_of_ascii " emoji
    4294967296  ]A
@lengthOf( i64_  ) //	t
`two words` ,repeat // " ++ [27880; 37322]%N ++ runes_of_ascii "
uint64 metadata
,
@calculatedFrom(
""packet"" ) string
//x
//	t
x
`it's`
, match	T
as asx
// " ++ [27880; 37322]%N ++ runes_of_ascii "
//	t
{ ""abc"" : A , ""it's""
:
    Logon, }  ,// packet A { u8 x, }
@calculatedFrom(
//
// a // b
""\n"" ) string _x , uint64 zchar @lengthOf(
lengthOf
) , } packet
uint8x { } // a // b")).
Eval vm_compute in ("<<<M1446>>>" ++ check (runes_of_ascii "options {
    LittleEndian = false;
    StringPrefixLenType = u16;
    ArrayPrefixLenType = u64;
    FixedStringPadFromLeft = true;
    FixedStringPadChar = ' ';
}
packet Logon {
    u16 Tail,
    repeat string x,
    i16 count,
    @leftPad('0') char[3] Note,
}
packet Fill {
}
packet Heartbeat {
}
packet Reject {
    string msgKind,
    repeat Logon,
    InFlags25 {
        repeat InPrice29 {
            u8 price,
            Logon,
            repeat char[1] Note,
        },
        char[] x,
        Fill,
    },
    repeat Heartbeat,
}
root packet Order {
    InNote88 {
        repeat i32 Acct,
        repeat i16 clOrdID,
        repeat Logon,
    },
    u16 tag7,
    match tag7 as Body {
        [14, 22] : Logon,
        55 : Heartbeat,
        93 : Reject,
        13 : Fill,
    },
}
")).
Eval vm_compute in ("<<<M1488>>>" ++ check (runes_of_ascii "options {
    StringPrefixLenType = u16;
    ArrayPrefixLenType = u32;
    FixedStringPadFromLeft = false;
    FixedStringPadChar = '0';
}

packet Logout {
    f64 f1,
    i16 Note,
    @rightPad('\x00')
    char[11] Flags,
}

packet Cancel {
    float64 msgKind,
}

packet Reject {
    InQty43 {
        float32 sym,
        char[10] Tail,
        uint8 venue,
        uint16 f1,
        char[9] Acct,
    },
}

packet Trade {
    char[] x,
    zchar[6] Note,
    repeat Reject,
}

root packet Order {
    Cancel,
    Logout,
    u64 Acct,
    u32 OrderId,
    match OrderId as Body {
        [127, 70] : Reject,
        177 : Trade,
        58 : Logout,
        75 : Cancel,
    },
    u32 Tail @calculatedFrom(""CR\
        C32""),
}")).
Eval vm_compute in ("<<<M31>>>" ++ check (runes_of_ascii "packet options1
    {@leftPad
( )
    @calculatedFrom( ""\n"" )
    @leftPad (
' ' // " ++ [27880; 37322]%N ++ runes_of_ascii "
)
chars
T `say ""hi""` // " ++ [27880; 37322]%N ++ runes_of_ascii "
,
    // @lengthOf(
    repeat zchar
{  metadata {
// @lengthOf(
// c
match A as x_y_z {""1"" :
// " ++ [128512]%N ++ runes_of_ascii " emoji
// c
string_// @lengthOf(
[""// no comment""  ,
10 ] : Foo""a\\"": Packet [""a	b"",
    65535 ]
    :	x
,
}
,
} , } // " ++ [128512]%N ++ runes_of_ascii " emoji
,
@rightPad (
) f32
msg_type
    , match f32a as body { [
    ""`tick`"" , ""\n"" ,
    ""a	b"" ,
""{,}"" , 255 ,""x y"", 3
]:// @lengthOf(
x ,
    ""CRC32""
: zchar	, ""x y"" :
rootA // `tick` ""quote"" 'q'
[ 00
    ,
    ""it's""	, 4294967296 ,""CRC32"" ]:
roots 4294967296 : Logon}, @leftPad
('0')pack `crlf
line`
, }")).
Eval vm_compute in ("<<<M20>>>" ++ check (runes_of_ascii "// " ++ [128512]%N ++ runes_of_ascii " emoji
MetaData o
    { } packet uint8x { uint8
    // c
    u128  @lengthOf(
body  )  `// not a comment` , @calculatedFrom( ""1"" ) options1{
    repeat Foo crc , zchar[ 255] MetaDataX
    /// triple
    @calculatedFrom( ""\" ++ [233]%N ++ runes_of_ascii """ ) , Foo { char[ 1 ] msg_type ,
    } ,
    },
float64
    falsey @lengthOf(
f32a )
,
    match
// packet A { u8 x, }
//
BodyLength
    as f32a
{ """ ++ [128512]%N ++ runes_of_ascii """
: x_y_z ,	""" ++ [128512]%N ++ runes_of_ascii """ :
    BodyLength ,""" ++ [28040; 24687]%N ++ runes_of_ascii """ : Foo
,
    } , @lengthOf( lengthOf ) repeat len , // " ++ [128512]%N ++ runes_of_ascii " emoji
crc float`line1
line2`
    , }MetaData repeatCount {
tag x, //	t
}
")).
Eval vm_compute in ("<<<M216>>>" ++ check (runes_of_ascii "packet repeatCount
{ f64 // @lengthOf(
_x
@lengthOf( zchar
) ,
Z9_ , calculatedFrom @lengthOf(rootA
)
    `{ , }` ,} packet a1{
    /// triple
    chars
@lengthOf(
tag ), metadata
    , }packet
Packet
    { //x
@tag( 65535 )  @leftPad ( )@tag( 42)	char[ 0123456789]
    /// triple
    float @calculatedFrom(""CRC32"" )
    `tab	here` , repeat int8 string_, u8
x_y_z
`crlf
line`, // @lengthOf(
@tag( 0123456789
)zchar[
1
]	lengthOf @calculatedFrom( ""it's"" ) , // " ++ [27880; 37322]%N ++ runes_of_ascii "
}
")).
Eval vm_compute in ("<<<M100>>>" ++ check (runes_of_ascii "packet roots {
    } packet metadata {
    @lengthOf( u) @tag(00 )
@lengthOf( Pad )  T @lengthOf( pack ),@rightPad
( '0' )lengthOf , @lengthOf(  u) char[]
    //
    A ,
match  Packet as // `tick` ""quote"" 'q'
a1{007
: leftPad 65535
    :// trailing space 
msg_type , ""a\\"" :
// " ++ [128512]%N ++ runes_of_ascii " emoji
// @lengthOf(
Z9_ """ ++ [233]%N ++ runes_of_ascii "t" ++ [233]%N ++ runes_of_ascii """
: A , ""// no comment""	:x_y_z,
4294967296 : a1
    ,/// triple
} ,f32	T
    , f64 roots	@lengthOf( int ), }")).
Eval vm_compute in ("<<<M1644>>>" ++ check (runes_of_ascii "
// top
packet 
    // c0
  Logon
// c1
	{ 
	// c2
@tag(
    // c3
	42
// c4
	  ) 

// c5
@rightPad 
// c6

( 
      // c7
	' ' 
	    // c8
  )

    // c9
    	@leftPad 
  // c10
	(
// c11
)  
  // c12
  repeat
    // c13
  trueish
	    // c14
  {
    // c15
    	string
	// c16
    T
// c17
    	, 
	// c18
} 
// c19

	, 
      // c20
  }
	    // c21
")).
Eval vm_compute in ("<<<M1126>>>" ++ check (runes_of_ascii "// top
packet
    // c0
Logon
    // c1
{
    // c2
@tag(
    // c3
42
    // c4
)
    // c5
@rightPad
    // c6
(
    // c7
' '
    // c8
)
    // c9
@leftPad
    // c10
(
    // c11
)
    // c12
repeat
    // c13
trueish
    // c14
{
    // c15
string
    // c16
T
    // c17
,
    // c18
}
    // c19
,
    // c20
}
    // c21
")).
Eval vm_compute in ("<<<M306>>>" ++ check (runes_of_ascii "
packet charz
    { @lengthOf( Pad
) match rootA as	string_ { [ 0123456789 ]
// a // b
//
: repeatCount [
    00 ,""it's""
] : T ,
    0 // packet A { u8 x, }
: stringy,
    4294967296 :
msg_type ,/// triple
} ,} packet lengthOf
{
@tag( 7 ) char[
    255 ]
float@calculatedFrom( ""packet"" ),  }
")).
Eval vm_compute in ("<<<M1409>>>" ++ check (runes_of_ascii "packet P1 {
    u8 a,
}
packet P2 {
    P1,
}
packet P3 {
    P2,
    P1,
}
packet P4 {
    repeat P3,
    P2,
}
root packet P5 {
    P4,
    P3,
    P1,
    u8 K,
    match K as Body {
        4 : P4,
        3 : P3,
        2 : P2,
        1 : P1,
    },
}
")).
Eval vm_compute in ("<<<M1684>>>" ++ check (runes_of_ascii "
options{

    FixedStringPadChar
	=
'0';	}
packet

Q { 
zchar[	4 ]
z
,@rightPad
(

'\x00'

)
char[3 ]	n

    ,
	char[

5
]
d  , }

    root
packet
    R

    {Q

,
    zchar[8
] top ,repeat  zchar[
    2  ]  zs

    ,} ")).
Eval vm_compute in ("<<<M572>>>" ++ check (runes_of_ascii "options
{
matchKey = 42/// triple
x='0' ;
// packet A { u8 x, }
//
charz
=
// packet A { u8 x, }
// trailing space 
'\x01'true  ; } MetaData BodyLength
{
uint8
pack,zchar[ 1]float ,  float32 x_y_z `` ,u32
_x,i16 body  , }
")).
Eval vm_compute in ("<<<M427>>>" ++ check (runes_of_ascii "options
{
matchKey = 42/// triple
x='0' ; ;
// packet A { u8 x, }
//
charz
=
// packet A { u8 x, }
// trailing space 
true  ; } MetaData BodyLength
{
uint8
pack,zchar[ 1]float ,  float32 x_y_z `` ,u32
_x,i16 body  , }
")).
Eval vm_compute in ("<<<M571>>>" ++ check (runes_of_ascii "opti~ons
{
matchKey = 42/// triple
x='0' ;
// packet A { u8 x, }
//
charz
=
// packet A { u8 x, }
// trailing space 
true  ; } MetaData BodyLength
{
uint8
pack,zchar[ 1]float ,  float32 x_y_z `` ,u32
_x,i16 body  , }
")).
Eval vm_compute in ("<<<M508>>>" ++ check (runes_of_ascii "options
{
matchKey = 42/// triple
x='0' ;
// packet A { u8 x, }
//
charz
=
// packet A { u8 x, }
// trailing space 
true  ; } MetaData BodyLength
{
uint8
pack,zchar[ 1]float float32  , x_y_z `` ,u32
_x,i16 body  , }
")).
Eval vm_compute in ("<<<M586>>>" ++ check (runes_of_ascii "options
{
matchKey = 42/// triple
x='0' ;
// packet A { u8 x, }
//
charz
=
// packet A { u8 x, }
// trailing space 
true  ; } MetaData BodyLength
{
uint8
pack,zchar[ 1]a" ++ [769]%N ++ runes_of_ascii "b ,  float32 x_y_z `` ,u32
_x,i16 body  , }
")).
Eval vm_compute in ("<<<M396>>>" ++ check (runes_of_ascii "options
{
 = 42/// triple
x='0' ;
// packet A { u8 x, }
//
charz
=
// packet A { u8 x, }
// trailing space 
true  ; } MetaData BodyLength
{
uint8
pack,zchar[ 1]float ,  float32 x_y_z `` ,u32
_x,i16 body  , }
")).
Eval vm_compute in ("<<<M174>>>" ++ check (runes_of_ascii "packet  f32a
    {//
match
//x
//
o
    // trailing space 
    as As { 10: //
roots
,// " ++ [27880; 37322]%N ++ runes_of_ascii "
[
255 // a // b
, 42 ,
    10 ,  00 ]:
    matchKey ,
} ,
}
    options { u128 = 65535 Packet = 3
;
}")).
Eval vm_compute in ("<<<M664>>>" ++ check (runes_of_ascii "// c
packet i64_ {	char[] calculatedFrom , } packet
trueish  {@calculatedFrom(
""a\\"" ) o { i32 falsey@lengthOf( uint8x ),
} , } // `tick` ""quo'1'te"" 'q'
options {// c
Z9_ = ' '//
}
")).
Eval vm_compute in ("<<<M3>>>" ++ check (runes_of_ascii "packet
    Foo{
    uint64  Header @lengthOf( float )
`
`
, // a // b
char[]_x,@tag( 10
    )
char[] Packet , uint16 stringy @lengthOf(
    calculatedFrom
), }//x
options	{ }")).
Eval vm_compute in ("<<<M1796>>>" ++ check (runes_of_ascii "packet A {
    match k as n {
        [
            ""a"", ""bb"", 007, ""d"", ""e"",
            66, ""g"", ""h"", 9, ""j"",
            ""k"", 12
        ] : B,
        2 : C,
    },
}")).
Eval vm_compute in ("<<<M1552>>>" ++ check (runes_of_ascii "
packet

    A

{match k
as
    n
	{

[ ""a""  , ""bb"" 
, 
007
,""d"" 
,
""e""
,

66
, 
""g"",

    ""h"" , 9

,
	""j"",
    ""k""] :
    B 
,
2  :

    C
} 
,
	}
")).
Eval vm_compute in ("<<<M1548>>>" ++ check (runes_of_ascii "packet A {
    match k as n {
        [
            ""a"", 22, ""c c"", 4, ""e"",
            66, ""g"", 8, ""i"", 10
        ] : B,
        2 : C,
    },
}")).
Eval vm_compute in ("<<<M1983>>>" ++ check (runes_of_ascii "

  packet 
calculatedFrom
	{ 
@tag( 4294967296 )

    u

msg_type
	    // c
,  char[

    3  ] crc@lengthOf(	len)
	`u8 x,` 
,
	}
")).
Eval vm_compute in ("<<<M678>>>" ++ check (runes_of_ascii "// c
packet i64_ {	char[] calculatedFrom , } packet
trueish  {@calculatedFrom(
""a\\"" ) o { i32 falsey@lengthOf( uint8x ),
} , }")).
Eval vm_compute in ("<<<M1621>>>" ++ check (runes_of_ascii "packet Foo {
    repeat int {
        string u @calculatedFrom(""packet"") ``,
    },
    zchar[007] A `doc`,
}

options {
}")).
Eval vm_compute in ("<<<M1671>>>" ++ check (runes_of_ascii "

  MetaData
    // trailing space 

  matchKey  {
u64 chars	// a // b
	,
i16
	lengthOf
	`// not a comment`	,//	t
} ")).
Eval vm_compute in ("<<<M628>>>" ++ check (runes_of_ascii "MetaData
    // trailing space 
    matchKey
{ u64 chars // a // b
,char[] lengthOf ,
    `// not a comment` //	t
}")).
Eval vm_compute in ("<<<M111>>>" ++ check (runes_of_ascii "root packet Pad {@tag(  3
)
    @calculatedFrom(
""a\""b""
    )repeat zchar[
    // " ++ [128512]%N ++ runes_of_ascii " emoji
    00 ] repeatCount , }")).
Eval vm_compute in ("<<<M1862>>>" ++ check (runes_of_ascii "packet	o {
	@tag( 42 
)
    repeat x

{	char[ 0123456789

    ] i64_
    ,}

    , // c

	} options  {

} ")).
Eval vm_compute in ("<<<M2023>>>" ++ check (runes_of_ascii "
packet 
o  {@tag( 
// c
	42
)

repeat
x
    {

char[

    0123456789  ] 
i64_, },
    } options {}")).
Eval vm_compute in ("<<<M1265>>>" ++ check (runes_of_ascii "packet calculatedFrom { @tag( 4294967296 ) u // c
msg_type , char[ 3 ] crc @lengthOf( len ) `u8 x,` , }")).
Eval vm_compute in ("<<<M1508>>>" ++ check (runes_of_ascii "packet calculatedFrom {
    @tag(4294967296)
    u msg_type,
    char[3] crc @lengthOf(len) `u8 x,`,
}")).
Eval vm_compute in ("<<<M903>>>" ++ check (runes_of_ascii "packet A {
  match k as n {
    [1, 22, 007, 4, 5, 66, 7, 8, 9, 10, 11, 12] : B,
    2 : C
  },
}")).
Eval vm_compute in ("<<<M1143>>>" ++ check (runes_of_ascii "packet Logon { @tag( 42 ) @rightPad
// c
( ' ' ) @leftPad ( ) repeat trueish { string T , } , }")).
Eval vm_compute in ("<<<M2008>>>" ++ check (runes_of_ascii "packet o {
    @tag(42)
    repeat x {
        char[0123456789] i64_,
    },
}

options {
}// c")).
Eval vm_compute in ("<<<M1760>>>" ++ check (runes_of_ascii "packet A {
    match k as n {
        [""a"", ""bb"", ""c c"", ""d""] : B,
        2 : C,
    },
}")).
Eval vm_compute in ("<<<M828>>>" ++ check (runes_of_ascii "packet A {
  match k as n {
    [""a"", ""bb"", ""c c"", ""d"", ""e"", ""f""] : B
    2 : C
  },
}")).
Eval vm_compute in ("<<<M846>>>" ++ check (runes_of_ascii "packet A {
  match k as n {
    [1, 22, ""c c"", 4, 5, ""f"", 7] : B,
    2 : C
  },
}")).
Eval vm_compute in ("<<<M1226>>>" ++ check (runes_of_ascii "packet o { @tag( 42 ) repeat x { char[ // c
0123456789 ] i64_ , } , } options { }")).
Eval vm_compute in ("<<<M1362>>>" ++ check (runes_of_ascii "options {
    FixedStringPadFromLeft = true;
}
root packet P {
    char[4] z,
}
")).
Eval vm_compute in ("<<<M2019>>>" ++ check (runes_of_ascii "MetaData M {
    u8 x `a
        b
      c`,
    T t `a
        b
      c`,
}")).
Eval vm_compute in ("<<<M889>>>" ++ check (runes_of_ascii "packet A { Inner { match k as n { [1,22,007,4,5,66,7,8,9,10] : B, }, }, }")).
Eval vm_compute in ("<<<M1307>>>" ++ check (runes_of_ascii "// c
MetaData _x { zchar[ 4294967296 ] lengthOf `// not a comment` , }")).
Eval vm_compute in ("<<<M1086>>>" ++ check (runes_of_ascii "packet A { match k as n { [ // a
 1 // b
 , // c
 2 ] // d
 : B }, }")).
Eval vm_compute in ("<<<M917>>>" ++ check (runes_of_ascii "packet A {
    B b `a
b`,
    B `a
b`,
    repeat B bs `a
b`,
}")).
Eval vm_compute in ("<<<M775>>>" ++ check (runes_of_ascii "packet A {
  match k as n {
    [""a""] : B
    2 : C
  },
}")).
Eval vm_compute in ("<<<M377>>>" ++ check (runes_of_ascii "// " ++ [27880; 37322]%N ++ runes_of_ascii "
MetaData u128 {  char[
    3 ] f32a `doc` , }")).
Eval vm_compute in ("<<<M435>>>" ++ check (runes_of_ascii "options
{
matchKey = 42/// triple
x='0' ;")).
Eval vm_compute in ("<<<M1118>>>" ++ check (runes_of_ascii "MetaData zchar { zchar[ 3 ] Pad , // c
}")).
Eval vm_compute in ("<<<M197>>>" ++ check (runes_of_ascii "  options { leftPad =	""it's""
    }
")).
Eval vm_compute in ("<<<M1925>>>" ++ check (runes_of_ascii "// c 
    packet  A

    {	}
")).
Eval vm_compute in ("<<<M1075>>>" ++ check (runes_of_ascii "MetaData M {
}// c
packet A {}")).
Eval vm_compute in ("<<<M1184>>>" ++ check (runes_of_ascii "
// c
options { u8x = 3 }")).
Eval vm_compute in ("<<<M1831>>>" ++ check (runes_of_ascii "
// c" ++ [8287]%N ++ runes_of_ascii "
	packet
A
{ }")).
Eval vm_compute in ("<<<M1923>>>" ++ check (runes_of_ascii "packet matchKey {
}")).
Eval vm_compute in ("<<<M1046>>>" ++ check (runes_of_ascii "// c" ++ [8203]%N ++ runes_of_ascii "
packet A {
}")).
Eval vm_compute in ("<<<M1812>>>" ++ check (runes_of_ascii "packet	i8i8

{

}")).
Eval vm_compute in ("<<<M1658>>>" ++ check (runes_of_ascii "

  //
")).
Eval vm_compute in ("<<<M729>>>" ++ check (runes_of_ascii "//")).
