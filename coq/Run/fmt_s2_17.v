From FP Require Import Lexer Parser ShowPT Digest Formatter.
From Coq Require Import String List NArith.
Import ListNotations.
Open Scope string_scope.
Set Printing Width 100000000.
Set Printing Depth 100000000.
Definition show_fres (r : fres) : string :=
  match r with
  | FOk s => "OK:" ++ sh_escaped s ""
  | FErr s => "ERR:" ++ sh_escaped s ""
  | FPanic p => "PANIC:" ++ p
  end.
Definition check (rs : list rune) : string := digest (show_fres (format_res rs)).
Definition full (rs : list rune) : string := show_fres (format_res rs).
Eval vm_compute in ("<<<M3588>>>" ++ check (runes_of_ascii "options {
    LittleEndian = true;
    StringPrefixLenType = u8;
    ArrayPrefixLenType = u16;
    FixedStringPadChar = '0';
    JavaPackage = ""com.example.msg"";
    GoPackage = ""msg"";
    GoModule = ""example.com/msg"";
}
MetaData Meta {
    u32 SeqNum `sequence number
more`,
    char[8] Symbol `symbol
more`,
    zchar[5] ZSym `z symbol
more`,
    string Note,
    Symbol AltSymbol `alias of symbol`,
    f64 Price,
}
packet Inner {
    u8 a,
    i16 b,
    string c,
}
packet Inner2 {
    u8 a2,
    char[3] c2,
}
packet Logon {
    u8 x,
    string user,
    repeat u16 codes,
}
packet Logout {
    u16 reason,
}
packet Empty {
}
root packet Msg {
    u8 su8,
    uint8 luint8,
    u16 su16,
    uint16 luint16,
    u32 su32,
    uint32 luint32,
    u64 su64,
    uint64 luint64,
    i8 si8,
    int8 lint8,
    i16 si16,
    int16 lint16,
    i32 si32,
    int32 lint32,
    i64 si64,
    int64 lint64,
    f32 sf32,
    float32 lfloat32,
    f64 sf64,
    float64 lfloat64,
    char[6] fsplain,
    @leftPad('0') char[4] fs0,
    @rightPad('0') char[5] fs1,
    @leftPad(' ') char[6] fs2,
    @rightPad(' ') char[7] fs3,
    @leftPad('\x00') char[8] fs4,
    @rightPad('\x00') char[9] fs5,
    @leftPad() char[10] fs6,
    @rightPad() char[11] fs7,
    zchar[7] fz,
    @leftPad('0') zchar[3] fzl0,
    string s1 `doc`,
    char[] s2,
    Inner,
    Sub {
        u8 q,
        string w,
        Deep {
            u16 z,
            repeat i32 zs,
        },
    },
    repeat u8 ru8,
    repeat u16 ru16,
    repeat u32 ru32,
    repeat u64 ru64,
    repeat i8 ri8,
    repeat i16 ri16,
    repeat i32 ri32,
    repeat i64 ri64,
    repeat f32 rf32,
    repeat f64 rf64,
    repeat string rstr,
    repeat char[] rstr2,
    repeat char[3] rfs,
    repeat zchar[3] rfz,
    repeat Inner2,
    repeat Grp {
        u8 k,
        char[2] v,
    },
    SeqNum,
    SeqNum seq2,
    repeat SeqNum seqs,
    Symbol,
    AltSymbol alt,
    ZSym,
    Note,
    repeat Symbol syms,
    Price px,
    u16 MsgType,
    u32 BodyLen @lengthOf(Body),
    match MsgType as Body {
        1 : Logon,
        [2, 3] : Logout,
        7 : Logon,
        9 : Empty,
    },
    u32 Checksum @calculatedFrom(""CRC32""),
}
")).
Eval vm_compute in ("<<<M617>>>" ++ check (runes_of_ascii "packet
//
// " ++ [128512]%N ++ runes_of_ascii " emoji
Z9_ {string	options1@calculatedFrom( ""// no comment"" ) `{ , }`
, @lengthOf( MetaDataX )  @tag( 1
)
    /// triple
    @calculatedFrom( ""it's""	) repeat packetx
/// triple
// @lengthOf(
,uint8x // " ++ [128512]%N ++ runes_of_ascii " emoji
@lengthOf( i8i8// a // b
) `say ""hi""` , // " ++ [27880; 37322]%N ++ runes_of_ascii "
@leftPad (
' ')char[
    //
    7 ] MetaDataX
    // " ++ [27880; 37322]%N ++ runes_of_ascii "
    , @tag( 65535 ) // @lengthOf(
trueish {	i8i8//
repeatCount,  },match body as i8i8{ 255
    : f32a ""a\""b"" :int[""CRC32""
// c
// trailing space 
]  : metadata// @lengthOf(
, } ,@lengthOf( pack ) repeat body  { Foo { repeat zchar[ 65535]
//x
//
string_ , zchar len // " ++ [128512]%N ++ runes_of_ascii " emoji
`100% of %d` , }
    ,
string Z9_ , match Packet
    as trueish
{
""" ++ [233]%N ++ runes_of_ascii "t" ++ [233]%N ++ runes_of_ascii """
:
pack , 4294967296 ://x
asx ,
}
, },
@calculatedFrom( ""\n"" )
//
// " ++ [27880; 37322]%N ++ runes_of_ascii "
@tag( 0  ) repeat Header
// `tick` ""quote"" 'q'
// trailing space 
{ Pad
    { pack{ repeat u16  tag , match calculatedFrom as trueish {""abc""
// c
// " ++ [128512]%N ++ runes_of_ascii " emoji
: metadata [ ""it's"" ,
255 ] :matchKey , 4294967296
// packet A { u8 x, }
// `tick` ""quote"" 'q'
:x_y_z
, [ ""`tick`"" ]: // @lengthOf(
asx , } , }
,//	t
char[ 255] pack , // " ++ [128512]%N ++ runes_of_ascii " emoji
uint32 BodyLength
    , } ,float ,
} , @calculatedFrom(
    ""a\\"" )
    //	t
    @tag(
10 ) // a // b
match	falsey as
// packet A { u8 x, }
// trailing space 
pack {
// a // b
/// triple
7  :
    x_y_z  ,[ ""a	b"" ,  ""packet"" ] :x_y_z, },	lengthOf{ int8
    uint8x ,}	, }// " ++ [27880; 37322]%N ++ runes_of_ascii "
packet A
{ }
packet
    // `tick` ""quote"" 'q'
    A
{
    // 50% %s
    @leftPad  ( ' '
    )  @calculatedFrom( // `tick` ""quote"" 'q'
""" ++ [233]%N ++ runes_of_ascii "t" ++ [233]%N ++ runes_of_ascii """ )MetaDataX @lengthOf( calculatedFrom//x
) // `tick` ""quote"" 'q'
`crlf
line`
, //	t
}
    packet	x_y_z {@rightPad // trailing space 
(' ' ) @lengthOf(leftPad)
@lengthOf( Header )
char[ //
0123456789	]	metadata
, }packet
options1 { }
")).
Eval vm_compute in ("<<<M3713>>>" ++ check (runes_of_ascii "// " ++ [27880; 37322]%N ++ runes_of_ascii "
packet rootA {
    u128 @lengthOf(Packet),
    _x @lengthOf(f32a) `" ++ [28040; 24687; 31867; 22411]%N ++ runes_of_ascii "`,
    calculatedFrom,
    @rightPad('0')
    // " ++ [27880; 37322]%N ++ runes_of_ascii "
    float {
        matchKey matchKey,
        f32 Header @calculatedFrom(""// no comment"") `doc`,
        uint8x metadata,
    },
    repeat string_ `" ++ [233]%N ++ runes_of_ascii "`,
    u32 charz,
}

packet i64_ {
    Z9_ asx,
    f32a `// not a comment`,
    char[] Packet @calculatedFrom(""\" ++ [233]%N ++ runes_of_ascii """) `100% of %d`,
    char[007] u128 @calculatedFrom(""""),
    crc `a\`,
    @calculatedFrom(""{,}"")
    //
    @calculatedFrom(""it's"")
    float64 chars,
    zchar @lengthOf(roots) ``,
    u8 lengthOf @lengthOf(x_y_z),
    @tag(65535)
    @tag(1)
    @calculatedFrom(""abc"")
    repeat uint8 u `// not a comment`,
}

options {
    i64_ = '0'
    zchar = """ ++ [233]%N ++ runes_of_ascii "t" ++ [233]%N ++ runes_of_ascii """;
    lengthOf = ""\" ++ [233]%N ++ runes_of_ascii """// 50% %s
    body = ' ';// trailing space 
    i8i8 = string;
}

//x
packet lengthOf {
    @calculatedFrom(""`tick`"")
    @lengthOf(float)
    // packet A { u8 x, }
    repeat o,
    i32 A `a\`,
    i8i8 @calculatedFrom(""CRC32"") `it's`,
    @leftPad(' ')
    @tag(10)
    // 50% %s
    char[] o @lengthOf(MetaDataX) ``,
    uint64 Z9_ @calculatedFrom(""// no comment"") `// not a comment`,
    @rightPad()
    f32a {
        char[] stringy,
    },
    @leftPad()
    zchar[10] trueish,
    char calculatedFrom `it's`,
}

MetaData i64_ {
    // @lengthOf(
    i8 roots,
    lengthOf pack,// trailing space 
    string Foo `100% of %d`,
    f32 u8x `two words`,
    char[] chars,
    zchar[10] u,
    //x
    // `tick` ""quote"" 'q'
}")).
Eval vm_compute in ("<<<M3656>>>" ++ check (runes_of_ascii "  packet  
  // trailing space 
  	// @lengthOf(
    	asx
{ 	 // 50% %s
	body
repeatCount

,

    @tag(  1	)
    repeat
	_x

BodyLength, } options	{ 
len
=	false	// packet A { u8 x, }
	;}
	packet msg_type
	{	// @lengthOf(
repeat string_  x 
,

    @tag( 
007 )
@calculatedFrom(""it's""
	)
	@lengthOf(
u8x  )uint32	BodyLength
,  @calculatedFrom( ""a\""b""

)  match
	a1 	 // " ++ [27880; 37322]%N ++ runes_of_ascii "
	as
matchKey 
{
00
	:

    options1
,  4294967296
	:// `tick` ""quote"" 'q'
    x_y_z 
,  // @lengthOf(

	[

    3 	 // packet A { u8 x, }
	,
""a	b"" ,
0123456789	]

:
i64_ ,0	: 
leftPad  , ""`tick`"" :
int 	 // " ++ [128512]%N ++ runes_of_ascii " emoji
[""" ++ [28040; 24687]%N ++ runes_of_ascii """]
// a // b
: 
Z9_
    , }	,  @rightPad(  )int32

    A , @calculatedFrom(  ""CRC32""

)
    @tag( 65535)

@lengthOf(
    packetx
)zchar[ 	 // packet A { u8 x, }
10 ] u8x
    `two words`,
    f32
zchar@lengthOf(  Packet
	)  ,

}MetaData
    u8x{ }
packet	tag	{
    repeat

u8 T
	`say ""hi""`,
    leftPad ,	@lengthOf( matchKey// @lengthOf(

	) 
  // trailing space 
	  /// triple
    match 
Foo

    as
T { [10  ,	10 ,

    ""1""	,
0 , 
""packet""
	, 4294967296,
    ""a\""b""

    ,

    7  ] //	t
:

    msg_type 
,  00 : 	 // packet A { u8 x, }

  Pad 
}
	,repeat packetx 
  // 50% %s
{ Header

Packet

    ,uint16

o ,
	} ,  @rightPad(  ' ')
    repeat int16 // trailing space 
  Logon	,}

")).
Eval vm_compute in ("<<<M84>>>" ++ check (runes_of_ascii "
packet lengthOf { @lengthOf(
// a // b
// packet A { u8 x, }
uint8x
) // " ++ [27880; 37322]%N ++ runes_of_ascii "
@lengthOf(	Pad
    ) // trailing space 
a1
@calculatedFrom(
""packet""
//x
// trailing space 
) ,  @lengthOf(
    i8i8
) repeat o
{ zchar[ 7 ]
// c
// " ++ [128512]%N ++ runes_of_ascii " emoji
leftPad @calculatedFrom( ""CRC32"" ), trueish@lengthOf(trueish ) , repeat u16	zchar `line1
line2` , repeat
    // 50% %s
    uint8 f32a `say ""hi""`
    ,
    // @lengthOf(
    } ,
match	uint8x
as
T{//	t
0 :
    Logon 0123456789 : Logon ,
""{,}"": stringy
    , }	, leftPad@calculatedFrom(
    // trailing space 
    ""{,}"")
`" ++ [233]%N ++ runes_of_ascii "`,@calculatedFrom(
    ""1"" )
    // `tick` ""quote"" 'q'
    string_ { match Header as leftPad { [ 255 ]: x , [ 7]: u8x
    ,
    /// triple
    [ 3
    ,
    """ ++ [128512]%N ++ runes_of_ascii """
, 255 , ""packet"",
""a	b"" , 7 , 1 // " ++ [27880; 37322]%N ++ runes_of_ascii "
]// " ++ [128512]%N ++ runes_of_ascii " emoji
:crc ,
""x y""
    // " ++ [128512]%N ++ runes_of_ascii " emoji
    : string_,[ 42, ""`tick`"" ]	:	zchar , // trailing space 
} ,} , } // trailing space 
packet u128 { i16 leftPad	@calculatedFrom(  ""packet"") , // " ++ [128512]%N ++ runes_of_ascii " emoji
i64_ @calculatedFrom( """ ++ [128512]%N ++ runes_of_ascii """
    // packet A { u8 x, }
    ) ,
repeat lengthOf
,As,
    // `tick` ""quote"" 'q'
    repeat
A { repeat string
    _x
`{ , }` ,
}
, } packet crc{
} MetaData
    //x
    float { // `tick` ""quote"" 'q'
int16 roots	, i32 i8i8 ,
    }
")).
Eval vm_compute in ("<<<M4213>>>" ++ check (runes_of_ascii "root packet A {
    match rootA as Packet {
        [3, ""// no comment"", """ ++ [128512]%N ++ runes_of_ascii """, """", """"] : int,
        [
            0, ""1"", """ ++ [128512]%N ++ runes_of_ascii """, 0, ""x y"",
            ""it's"", 00, ""it's""
        ] : pack,
        00 : trueish,
        0123456789 : A,
        [7, ""x y"", ""\" ++ [233]%N ++ runes_of_ascii """, ""1"", 0123456789] : Header,
        007 : repeatCount,
    },
    char[] repeatCount @calculatedFrom(""{,}""),// " ++ [128512]%N ++ runes_of_ascii " emoji
    float {
        match repeatCount as u8x {
            10 : a1,
            //	t
            3 : asx,
            // `tick` ""quote"" 'q'
            [""" ++ [28040; 24687]%N ++ runes_of_ascii """] : leftPad,
            7 : asx,
            007 : x,
            ""x y"" : Logon,
        },
        zchar[42] repeatCount @calculatedFrom(""\n""),
        float32 repeatCount `{ , }`,
        string tag `
                `,
    },
    x Logon `
        `,
    repeat u128,
    @calculatedFrom(""a\\"")
    zchar[3] Logon,
    @tag(007)
    Pad `100% of %d`,
}

packet chars {
    @lengthOf(lengthOf)
    @tag(10)
    repeat string_,
}

packet Z9_ {
    charz,
    match metadata as charz {
        7 : Foo,
        42 : float,
        ""a\""b"" : zchar,
        [1, 4294967296, ""it's"", 1] : crc,
    },
}")).
Eval vm_compute in ("<<<M542>>>" ++ check (runes_of_ascii "MetaData A
{ f64 matchKey`tab	here`  , int16 lengthOf , pack
    Foo, metadata
    x_y_z, f64
// packet A { u8 x, }
//	t
Z9_ ,}
    root packet packetx {
repeat
    // packet A { u8 x, }
    f32a Header `two words` ,
//	t
// " ++ [27880; 37322]%N ++ runes_of_ascii "
@rightPad( '0' ) repeat
i8i8 {uint8 body , }
, match MetaDataX as lengthOf
    {
[ 10 , 4294967296
, ""a\""b"" ,00
,	"""",4294967296,
""it's""
    , 1
    ]: _x , [ ""it's""
] : A
    , }
    , rootA
`" ++ [233]%N ++ runes_of_ascii "` , }
    packet As {
    @leftPad (
    '0'
) repeat
float32 repeatCount
    , char[
4294967296
] Z9_ @lengthOf( u) `doc` , repeat calculatedFrom {char[]packetx , repeat string options1	, } , repeat int , a1{ int16
    len @calculatedFrom(  ""1""
)
,
int8 x `line1
line2` , char[ 1
] asx
//	t
//
,
}, match Z9_ as msg_type {	255 : x_y_z ,
""\n"" : len , 65535
    : crc ,
""a\\""
//
// `tick` ""quote"" 'q'
://
A, ""CRC32"" :
Pad /// triple
[ 4294967296 ,
    ""packet"" ] :a1 , } ,
    repeat f32a `line1
line2`
,
@calculatedFrom( ""\" ++ [233]%N ++ runes_of_ascii """ ) len@calculatedFrom( """" ) `tab	here` ,} MetaData
    stringy {
    // @lengthOf(
    string
calculatedFrom, }
")).
Eval vm_compute in ("<<<M1154>>>" ++ check (runes_of_ascii "root packet f32a
{ zchar[ 7 ]	MetaDataX @calculatedFrom(""a	b""
)
// a // b
//x
,
@rightPad
(
' ')
repeat// " ++ [27880; 37322]%N ++ runes_of_ascii "
x { Packet Logon  , repeat Z9_	{
repeat
i32 repeatCount , }
, u16 u128 @lengthOf(
u128) , },
x_y_z  { match
    o as
    x {
7  : rootA	,
[""" ++ [233]%N ++ runes_of_ascii "t" ++ [233]%N ++ runes_of_ascii """ ,
    10 , ""a\""b""
    , 255
]:
Header
, ""`tick`"" : x/// triple
[ ""a\""b"" ,
    65535 ,""packet""  ,
""// no comment""/// triple
, ""// no comment"" ]  :
    len, [ ""`tick`"" ]	: options1 ,
} ,match float as charz{// @lengthOf(
7
:	u8x
//	t
//
00:	options1 ,[ 3
,""1""] : u8x,
""x y"":
    Header , ""a	b"" :
    // @lengthOf(
    chars ""it's"" : A
,	},
    } , u32	o @lengthOf(	BodyLength
)
// c
//x
`" ++ [233]%N ++ runes_of_ascii "` ,repeat char[]	len
// a // b
// " ++ [128512]%N ++ runes_of_ascii " emoji
`" ++ [233]%N ++ runes_of_ascii "`
    , @tag( 0123456789 ) repeat
i8 packetx `a\` ,int
    o
    `` , @tag( 007	) char[]i8i8
    @lengthOf( _x )
// `tick` ""quote"" 'q'
// `tick` ""quote"" 'q'
,
    repeat int
,
    } options {
// a // b
//
As  =
    // packet A { u8 x, }
    '0'len = 00 // " ++ [128512]%N ++ runes_of_ascii " emoji
; A
    = f64 }
packet
    x_y_z { }
")).
Eval vm_compute in ("<<<M115>>>" ++ check (runes_of_ascii "packet // a // b
body
{
    chars @calculatedFrom(
""it's"") ,
    repeat	body	, uint32 string_ `// not a comment` ,
    trueish As, f32a int ,
} packet f32a {  match matchKey
as zchar { 007// " ++ [128512]%N ++ runes_of_ascii " emoji
: A ,
    },	@tag( // 50% %s
4294967296
) match options1 as
crc {
10 : As
    ,
}
    , repeat  char[]	MetaDataX
    ,  repeat
zchar { uint64
    roots
`say ""hi""` , } ,
i32 uint8x // " ++ [27880; 37322]%N ++ runes_of_ascii "
,Header `// not a comment` , } packet  calculatedFrom// `tick` ""quote"" 'q'
{@calculatedFrom( ""\n"" ) crc	f32a , repeat //	t
i64
u, @leftPad ( '0') calculatedFrom
    @lengthOf( uint8x  ) ,As @lengthOf(
body) ,// packet A { u8 x, }
@lengthOf( crc
) @lengthOf(	x )charz @lengthOf( tag
// " ++ [128512]%N ++ runes_of_ascii " emoji
// c
)// " ++ [128512]%N ++ runes_of_ascii " emoji
`it's`
    ,
repeat uint32
MetaDataX , @leftPad ( '\x00') zchar[
3
//	t
// 50% %s
] int, }
// packet A { u8 x, }
// @lengthOf(
packet As
// @lengthOf(
//
{ @leftPad ( '\x00' ) repeat lengthOf pack `it's` , @lengthOf( rootA )u128
, } // " ++ [27880; 37322]%N)).
Eval vm_compute in ("<<<M4539>>>" ++ check (runes_of_ascii "packet Header {
    @lengthOf(matchKey)
    @lengthOf(metadata)
    @tag(4294967296)
    match f32a as chars {
        """ ++ [128512]%N ++ runes_of_ascii """ : int,
    },
    match roots as Packet {
        255 : x_y_z,
    },
    char[] trueish @lengthOf(i64_) `line1
    line2`,
    match f32a as x_y_z {
        255 : a1,
        7 : string_,
    },
    Pad @calculatedFrom(""" ++ [128512]%N ++ runes_of_ascii """),
    char[65535] pack,
    @lengthOf(x)
    // " ++ [27880; 37322]%N ++ runes_of_ascii "
    match metadata as metadata {
        42 : rootA,
        65535 : packetx,
        [7] : zchar,
        [""it's"", ""\n"", 42] : Logon,
        65535 : body,
        // trailing space 
    },
    @tag(00)
    @rightPad('\x00')
    float `two words`,
    tag {
        match calculatedFrom as rootA {
            [""1"", ""CRC32"", 1, 00] : _x,
            1 : Z9_,
            """" : x,
        },
    },
    @calculatedFrom(""" ++ [128512]%N ++ runes_of_ascii """)
    @lengthOf(lengthOf)
    @calculatedFrom("""")
    repeat int16 x,
}")).
Eval vm_compute in ("<<<M3575>>>" ++ check (runes_of_ascii "options { LittleEndian // c2a
  // c2b
= // c3a
  // c3b
true // c4
; } packet // c7
Logon
    // c8
{ // c9a
  // c9b
u8 // c10a
  // c10b
x // c11a
  // c11b
, // c12
} // c13
packet
    // c14
Logout // c15
{ // c16
u16 // c17
reason // c18a
  // c18b
, // c19
} // c20a
  // c20b
root packet
    // c22
Frame
    // c23
{ u16 // c25
Kind , // c27
u16 // c28
Kind2 , // c30a
  // c30b
match // c31a
  // c31b
Kind // c32
as // c33a
  // c33b
Body // c34a
  // c34b
{
    // c35
1 // c36a
  // c36b
: Logon , // c39
[ // c40
2 // c41a
  // c41b
, 3 // c43
, 4 ]
    // c46
: Logout , // c49
100 // c50
:
    // c51
Logon // c52a
  // c52b
,
    // c53
}
    // c54
, // c55
match Kind2
    // c57
as Trailer
    // c59
{ // c60a
  // c60b
0
    // c61
: // c62a
  // c62b
Logout // c63a
  // c63b
, }
    // c65
, // c66a
  // c66b
} // c67a
  // c67b
")).
Eval vm_compute in ("<<<M4106>>>" ++ check (runes_of_ascii "
MetaData

    // 50% %s

//	t

	tag

{ 
}
	root

packet int 
    // packet A { u8 x, }
{ @calculatedFrom(
""`tick`""
)

repeat string
len 
// c
      `a\` , 
@calculatedFrom(	""{,}""
)
	char[
0

    ]

    body
	@lengthOf(  MetaDataX 
)
	,

u32 
matchKey  @calculatedFrom( ""x y"" )	`say ""hi""` , repeat
    f32
leftPad//x
	,@rightPad

    ( )match
	crc
    as 
A

{[ ""x y""
, 4294967296 
,42
, """ ++ [233]%N ++ runes_of_ascii "t" ++ [233]%N ++ runes_of_ascii """ 
,

10
] :
a1

007
	:
x_y_z  ,
7 :repeatCount,

    ""abc""
: x  , 	 /// triple
		""""	:Logon[

""\n""
    ,0123456789
]
: roots// c
,
	} , match
	lengthOf
as
    zchar 
{  10 
:	u8x,
    42  : a1  [ 
""packet""
	] :  T
	,
[

    3 
    //	t
//
	,007

    , 65535 
,255  ,

    ""a\""b"" ,
10

, ""// no comment"" ] 
:

    metadata// packet A { u8 x, }

	255 :

    i64_

, } , float

metadata

,}")).
Eval vm_compute in ("<<<M662>>>" ++ check (runes_of_ascii "root packet
    repeatCount{
// c
// `tick` ""quote"" 'q'
repeat
i32 int , /// triple
matchKey	x_y_z	`" ++ [28040; 24687; 31867; 22411]%N ++ runes_of_ascii "` ,Z9_
    //	t
    @calculatedFrom(
""packet""
) `say ""hi""` // a // b
,repeat falsey {
match
i8i8 as
    float{""{,}"" : options1[ 4294967296 ]  :
    BodyLength, 42 : trueish ,// trailing space 
}
    , uint8 Z9_ , }
,
    }
    MetaData
    zchar {
    Header i8i8	`
` //
,
// packet A { u8 x, }
// c
metadata zchar// packet A { u8 x, }
, zchar[
// packet A { u8 x, }
//x
3  ]
float  , string
    matchKey  `a\` ,	stringy	x_y_z
`two words`
    ,
    } MetaData x {
    i8i8 float
`it's`
    // packet A { u8 x, }
    ,
_x zchar
//x
// packet A { u8 x, }
`a\`
// @lengthOf(
// 50% %s
,  f64 Foo
, char[
    0
] Z9_`line1
line2`
,	char[  42 ]
    //	t
    asx `it's` , }")).
Eval vm_compute in ("<<<M386>>>" ++ check (runes_of_ascii "
options {
// packet A { u8 x, }
//
Packet // " ++ [128512]%N ++ runes_of_ascii " emoji
= '\x00'options1  = false zchar =  u16 o	= ' ' ;  } options
{}
//	t
// `tick` ""quote"" 'q'
packet i64_	{} packet Packet { match
Z9_ as
    // " ++ [27880; 37322]%N ++ runes_of_ascii "
    falsey{
    65535
    : x_y_z
""CRC32"" :
    float, },
i8 len , @tag( 7)
repeat rootA
    x_y_z
    ,@tag( 00
//x
//x
)	zchar[007 ]
x_y_z
    // trailing space 
    `it's`  ,
    @calculatedFrom( ""CRC32"" ) @tag(10 )  char[] BodyLength , // trailing space 
repeat  string Header,@rightPad
    //
    ( ) i16 trueish `100% of %d` ,zchar[
    00 ] trueish ,	@rightPad
    ( )  @calculatedFrom( ""\n""
    )	repeat char[] MetaDataX
`doc` , } MetaData roots //x
{
zchar[42 ]  x ,string charz `u8 x,` ,string trueish
    , u16 falsey  ,
    }")).
Eval vm_compute in ("<<<M19>>>" ++ check (runes_of_ascii "packet	falsey{
@lengthOf(
//	t
// c
pack) int32 chars  ,
    zchar  `{ , }`,
    i8 BodyLength , match body
    as Logon
    { [
10 // trailing space 
]// a // b
:
    roots
    ,	""" ++ [128512]%N ++ runes_of_ascii """ // packet A { u8 x, }
:
metadata , } , @calculatedFrom(
//x
// " ++ [27880; 37322]%N ++ runes_of_ascii "
""" ++ [128512]%N ++ runes_of_ascii """ ) @lengthOf(
    u128 )
BodyLength
msg_type`" ++ [233]%N ++ runes_of_ascii "`, repeat
    falsey
// " ++ [27880; 37322]%N ++ runes_of_ascii "
// c
, @calculatedFrom( ""CRC32""	) repeat char[ 007	] uint8x	, }//	t
MetaData x {uint16 x
`tab	here`, i32	falsey, char[ 10] calculatedFrom`doc`
    , a1 BodyLength `" ++ [233]%N ++ runes_of_ascii "` ,// trailing space 
u8 Z9_`100% of %d`,i32 leftPad
    `two words` ,
}	MetaData
len
/// triple
// a // b
{ T Packet , int64	x `crlf
line` ,
    uint32 MetaDataX ,zchar[
4294967296 ] matchKey
`doc` , }
")).
Eval vm_compute in ("<<<M3751>>>" ++ check (runes_of_ascii "packet MetaDataX {
    @lengthOf(crc)
    //
    match u128 as float {
        ""a	b"" : Header,
        [3] : zchar,
        00 : leftPad,
        // packet A { u8 x, }
        """ ++ [233]%N ++ runes_of_ascii "t" ++ [233]%N ++ runes_of_ascii """ : repeatCount,
        42 : A,
    },//	t
}

packet options1 {
    match u128 as tag {
        7 : chars,
        // " ++ [27880; 37322]%N ++ runes_of_ascii "
        42 : options1,
        255 : x,
        255 : chars,
        // trailing space 
        [""" ++ [28040; 24687]%N ++ runes_of_ascii """] : stringy,
    },
    char[] stringy @calculatedFrom(""// no comment""),
    uint16 string_ `crlf
    line`,
    // c
}

root packet trueish {
    @lengthOf(matchKey)
    @lengthOf(T)
    repeat char[] u,
    @lengthOf(A)
    zchar[00] chars @lengthOf(T) `" ++ [28040; 24687; 31867; 22411]%N ++ runes_of_ascii "`,
}")).
Eval vm_compute in ("<<<M552>>>" ++ check (runes_of_ascii "MetaData
    // " ++ [27880; 37322]%N ++ runes_of_ascii "
    string_ {charz uint8x `say ""hi""`//	t
,float64 float , tag// @lengthOf(
As	`u8 x,` , }options { len = ' ' ; }root packet
i8i8 { match charz as	o  { [""" ++ [28040; 24687]%N ++ runes_of_ascii """, ""\" ++ [233]%N ++ runes_of_ascii """, 3	,
// packet A { u8 x, }
// @lengthOf(
007
, ""a\""b"" ,1 // c
] : msg_type ,""CRC32"" // " ++ [128512]%N ++ runes_of_ascii " emoji
: x  , }
, uint16 a1 @calculatedFrom( ""1""
    ) ,Z9_@calculatedFrom(
""abc""
)
`" ++ [28040; 24687; 31867; 22411]%N ++ runes_of_ascii "`
    ,
Header @lengthOf( len ) , @lengthOf( int
)  int64
// c
// packet A { u8 x, }
msg_type ,	trueish ,
uint64 Logon`two words` , float	{	a1 calculatedFrom
    `{ , }` , },@tag( 65535 )	_x /// triple
@lengthOf( tag )`say ""hi""`, } packet falsey
{
    // " ++ [27880; 37322]%N ++ runes_of_ascii "
    repeat x_y_z, }
")).
Eval vm_compute in ("<<<M4549>>>" ++ check (runes_of_ascii "packet float {
    @tag(7)
    @calculatedFrom(""a	b"")
    match Foo as zchar {
        00 : Logon,
        ""`tick`"" : Pad,
        [1, """ ++ [233]%N ++ runes_of_ascii "t" ++ [233]%N ++ runes_of_ascii """, ""// no comment"", ""\" ++ [233]%N ++ runes_of_ascii """, 007] : f32a,
        ""CRC32"" : i64_,
    },
    @lengthOf(A)
    // c
    char[0] u128 `u8 x,`,
}

packet Logon {
}

root packet a1 {
    f64 asx,
    @leftPad()
    char Pad,
    @leftPad()
    repeat msg_type `
        `,
    @lengthOf(tag)
    uint64 o @lengthOf(A),
    @lengthOf(Logon)
    /// triple
    //	t
    repeat string i8i8 `" ++ [233]%N ++ runes_of_ascii "`,
    char[65535] float,
}

options {
    Header = false;
    options1 = '0'
    asx = 65535;
    crc = '0';
}")).
Eval vm_compute in ("<<<M3646>>>" ++ check (runes_of_ascii "  packet
    Logon 

    // c
	{

@lengthOf(
	body ) 
repeat i8i8	`two words`  ,
repeat chars
Pad

    ,repeat
    a1 
    //	t
	  //
    {trueish
	x

    `
`

,}
,	@lengthOf(Header
) 
lengthOf

    BodyLength`u8 x,`

    ,
repeat  char[

    007	]packetx ,  @lengthOf(
f32a	)
	match 
crc
as

    stringy

    { [ ""a	b"" , """" 
,

    ""a	b""

,
1 , 255
    ]

    :matchKey  ,	} ,
	repeat
    string
    tag , 
@lengthOf( int )@rightPad  ()  @lengthOf(
leftPad )
	char[] T @lengthOf(	int )

`{ , }`
, 
} 
packet  u8x
	{  repeat
	char[]  // @lengthOf(
	stringy  , }")).
Eval vm_compute in ("<<<M485>>>" ++ check (runes_of_ascii "packet Z9_ {
@lengthOf( // c
_x )	@tag( 4294967296 ) lengthOf @lengthOf( string_ ) , @leftPad
( '0') repeat string crc , i8
    i8i8@lengthOf( A ) ,
    match As  as Packet
    {
00 :
    stringy
,65535 :  Pad  ""it's"" :x_y_z, """ ++ [233]%N ++ runes_of_ascii "t" ++ [233]%N ++ runes_of_ascii """ :
// `tick` ""quote"" 'q'
// a // b
float  , } , char o , @rightPad() f32a@calculatedFrom( ""a\""b"")
`// not a comment`	,@calculatedFrom(
    ""x y""
    )
string
    chars
    @calculatedFrom(""1""
    ) // 50% %s
`say ""hi""` , repeat
f64 matchKey, repeat
    char[]
i64_ `u8 x,`,
    char[
00 ] int  @lengthOf( string_ ),
    }
")).
Eval vm_compute in ("<<<M4111>>>" ++ check (runes_of_ascii "packet pack {
}

root packet msg_type {
    @calculatedFrom(""abc"")
    //
    u8 Packet @lengthOf(body),
    repeat u128 stringy,
    //
    repeat float64 u8x ``,
    match metadata as int {
        [4294967296, 0123456789, 007, """ ++ [128512]%N ++ runes_of_ascii """, ""1""] : x_y_z,
        7 : int,
        007 : len,
        """ ++ [28040; 24687]%N ++ runes_of_ascii """ : string_,
    },
    repeat zchar[3] pack `two words`,
    @calculatedFrom(""x y"")
    char[007] x_y_z,
    zchar[10] u @lengthOf(x),
}

packet repeatCount {
    string charz `it's`,
}

options {
    A = ""a\\""
    crc = true;
    crc = ' '
}")).
Eval vm_compute in ("<<<M4170>>>" ++ check (runes_of_ascii "  root packet
BodyLength { @tag(

    007	) @tag(

    0123456789
)
@lengthOf(	Pad ) 

    // packet A { u8 x, }
    match
    // @lengthOf(
	  zchar

as msg_type {
[
""`tick`"" ] : calculatedFrom 
,00

    :

    uint8x	, 0123456789	:

f32a
	[

    10

    ,""// no comment"" ,
""" ++ [233]%N ++ runes_of_ascii "t" ++ [233]%N ++ runes_of_ascii """
	, 7]  : chars //	t
	""x y""	:// 50% %s

zchar,
[	""a	b""
	,
	00	, ""a	b""
,
	65535

,
7
    ,""CRC32"" ,
	0123456789
    ]  :
    x

    // 50% %s
	  // a // b

	},  @lengthOf(
    Pad  //	t

	) repeat 
asx 
matchKey ,

    }")).
Eval vm_compute in ("<<<M3990>>>" ++ check (runes_of_ascii "// trailing space 
root	// `tick` ""quote"" 'q'
  packet	// `tick` ""quote"" 'q'
	  roots

    {
	match	crc
as
	Pad  {
    0:float [
    00 , ""\n""
, 
  //x

  // trailing space 
    	0 ,
    ""`tick`""

    ,
    65535
,
    // `tick` ""quote"" 'q'
""""  , 
""" ++ [28040; 24687]%N ++ runes_of_ascii """,
	4294967296 ]	:
// @lengthOf(
Z9_
,} 
,

}
root
packet
chars	{	// c
	@rightPad (	' '
) falsey
	{ rootA ,} , zchar[
0123456789
	] 
// 50% %s
  // " ++ [27880; 37322]%N ++ runes_of_ascii "
  msg_type @lengthOf(asx)	//	t

  ,

u@calculatedFrom(

    ""a	b"" )
	`a\` ,
} ")).
Eval vm_compute in ("<<<M3657>>>" ++ check (runes_of_ascii "// packet A { u8 x, }
root packet lengthOf {
    repeat int8 options1,
    string uint8x @lengthOf(len) `a\`,
    @lengthOf(i8i8)
    repeat int len,
    @calculatedFrom(""" ++ [233]%N ++ runes_of_ascii "t" ++ [233]%N ++ runes_of_ascii """)
    string u8x @calculatedFrom(""\n"") `it's`,
    @leftPad('0')
    @calculatedFrom(""CRC32"")
    @leftPad()
    i16 string_ `" ++ [233]%N ++ runes_of_ascii "`,
    @lengthOf(i64_)
    uint8 Foo,
    @tag(65535)
    // @lengthOf(
    rootA `it's`,
}

options {
    leftPad = ""it's""
}

MetaData x_y_z {
    string body,// c
}")).
Eval vm_compute in ("<<<M725>>>" ++ check (runes_of_ascii "options {BodyLength = int8; }
root
packet options1 { @tag( 007
    )
/// triple
// packet A { u8 x, }
@rightPad (  )// `tick` ""quote"" 'q'
char[]
    MetaDataX
    @calculatedFrom(
// " ++ [128512]%N ++ runes_of_ascii " emoji
// packet A { u8 x, }
""a	b"" ) `100% of %d`
    , float32 u8x , string
As@lengthOf(	tag
    ) , @tag(
4294967296
)@tag(
00 )@rightPad ( ' '
)body _x , i8 u8x `a\` ,	repeat
    int8  tag
`
` , char[] Pad  `u8 x,` ,
int64 rootA `
`
    ,
} options{ // c
}
")).
Eval vm_compute in ("<<<M4258>>>" ++ check (runes_of_ascii "root packet packetx {
    char[255] T,
    @tag(00)
    // packet A { u8 x, }
    len {
        string repeatCount `two words`,
        repeat Logon u,
        uint64 lengthOf,/// triple
        char[] Logon `{ , }`,
    },
    repeat u64 asx,
    @calculatedFrom(""a\""b"")
    repeat int8 MetaDataX,
    @calculatedFrom(""abc"")
    uint64 tag `// not a comment`,
    @tag(255)
    i8 len,// packet A { u8 x, }
    uint8 chars `it's`,
}")).
Eval vm_compute in ("<<<M3937>>>" ++ check (runes_of_ascii "packet u8x {
    char[1] roots,
    msg_type @calculatedFrom(""" ++ [28040; 24687]%N ++ runes_of_ascii """) `{ , }`,
    rootA,
}

packet stringy {
    charz,
    // 50% %s
    // `tick` ""quote"" 'q'
    repeat options1 {
        asx,
        Logon {
            i64_ metadata `
                        `,
        },
        i64 metadata,
        repeat packetx {
            charz @lengthOf(Header),
        },
    },
}

options {
    leftPad = 10;
}// " ++ [128512]%N ++ runes_of_ascii " emoji")).
Eval vm_compute in ("<<<M560>>>" ++ check (runes_of_ascii "
packet
calculatedFrom  { int16
float `u8 x,` , @rightPad (	)char[]
// a // b
// `tick` ""quote"" 'q'
Logon,char[ 3 // a // b
]packetx,
match As as
rootA {[ 4294967296
    // " ++ [128512]%N ++ runes_of_ascii " emoji
    ] : Logon
},} packet pack {  @lengthOf(charz )  repeat
int64 x_y_z , @calculatedFrom(""abc"" ) Z9_{
options1 @lengthOf( i64_ )
    , string stringy`tab	here`
, } , zchar[ 255
] uint8x
@lengthOf(
body) `two words` ,
}
")).
Eval vm_compute in ("<<<M1012>>>" ++ check (runes_of_ascii "options	{ asx
    /// triple
    =	""" ++ [28040; 24687]%N ++ runes_of_ascii """
;	_x=	""" ++ [128512]%N ++ runes_of_ascii """
_x
=
    int16
;
}
options {
    int= 255
; }packet a1 {
match	Foo // 50% %s
as Z9_
{
// @lengthOf(
/// triple
[
    ""packet""]
    : string_	,  },// @lengthOf(
@lengthOf( trueish	) repeat  i8i8	{ uint32 options1  @calculatedFrom( ""a	b"" )	`" ++ [233]%N ++ runes_of_ascii "`
// " ++ [128512]%N ++ runes_of_ascii " emoji
// packet A { u8 x, }
,
    string x @calculatedFrom( ""CRC32"")
    , } , //x
}")).
Eval vm_compute in ("<<<M4211>>>" ++ check (runes_of_ascii "  packet

uint8x  
  // packet A { u8 x, }
  	// @lengthOf(
    {
Header
{
	uint16 metadata

    @lengthOf(  // " ++ [27880; 37322]%N ++ runes_of_ascii "

MetaDataX  // c
	) `// not a comment` 
,	} ,

    metadata	repeatCount,
    repeat 
x_y_z, 
// @lengthOf(
    //
  chars
A
	,

packetx @calculatedFrom(""a\\"" )  /// triple
	`line1
line2`,
	char[

    007	//	t

] a1  @lengthOf(

A)

    `
`  ,
	} ")).
Eval vm_compute in ("<<<M521>>>" ++ check (runes_of_ascii "root
    packet string_ {  trueish{
f32a o , repeat  u8x
    `{ , }`
,} ,float32
    packetx
`a\`, // a // b
match  u128 // " ++ [128512]%N ++ runes_of_ascii " emoji
as f32a { """": x,  ""abc""
:
    pack  ,
""\" ++ [233]%N ++ runes_of_ascii """
    : f32a ""`tick`""
    : string_ // " ++ [27880; 37322]%N ++ runes_of_ascii "
, }, calculatedFrom@lengthOf( stringy //
)//
,
    @leftPad (' ' /// triple
) repeat uint64 len
// " ++ [27880; 37322]%N ++ runes_of_ascii "
// `tick` ""quote"" 'q'
`tab	here` , }")).
Eval vm_compute in ("<<<M4057>>>" ++ check (runes_of_ascii "packet a1 {
    @calculatedFrom(""`tick`"")
    rootA {
        // c
        BodyLength Z9_,
    },
    match Foo as int {
        007 : x_y_z,
        """ ++ [128512]%N ++ runes_of_ascii """ : roots,
        0123456789 : uint8x,
    },
    match A as stringy {
        [0123456789, ""CRC32""] : Foo,
    },
    @rightPad('0')
    u8 Packet,
    u8 MetaDataX @calculatedFrom(""`tick`""),
}")).
Eval vm_compute in ("<<<M3873>>>" ++ check (runes_of_ascii "// packet A { u8 x, }
  options
    { float =string }options {}packet	options1
    {

}	packet
	o {} 
MetaData float 
{tag	metadata
``
,
	i32	// 50% %s
    o
`// not a comment`, u32  len, 
zchar[ 3
] 
      // `tick` ""quote"" 'q'
  // " ++ [27880; 37322]%N ++ runes_of_ascii "

Header ,  o
    zchar

    ``
    ,
o 	 // @lengthOf(
		stringy

`two words`	//
	, }
")).
Eval vm_compute in ("<<<M10>>>" ++ check (runes_of_ascii "options
{ x_y_z = '\x00'
; // c
float
=char[
255
// @lengthOf(
//
] ;
Header
    = // packet A { u8 x, }
""a\\"" /// triple
;
// a // b
//
Pad =""a\\""
; crc= int32
; }packet
matchKey {	char[] T `two words`
    ,
string
roots
,	} MetaData
u
{ }
options{ _x = true
    ;  metadata// " ++ [128512]%N ++ runes_of_ascii " emoji
= true ; len= ' '  ;}
")).
Eval vm_compute in ("<<<M3777>>>" ++ check (runes_of_ascii "

  packet
i64_

{match

stringy as
    body
{""\n""
:

rootA
	,
    ""\" ++ [233]%N ++ runes_of_ascii """

    :

    zchar
3
: A[ """ ++ [128512]%N ++ runes_of_ascii """
	,  1 ,
	""" ++ [233]%N ++ runes_of_ascii "t" ++ [233]%N ++ runes_of_ascii """, 255 ,
0123456789

,
	007
]:pack
    , 
3 	 // trailing space 
	:
	tag
    ,
	[
""" ++ [128512]%N ++ runes_of_ascii """,

1	// " ++ [128512]%N ++ runes_of_ascii " emoji
	,""a	b""

    ,	""packet"",""a\\""
    ,  """ ++ [28040; 24687]%N ++ runes_of_ascii """
    , 10 ]
:
lengthOf  , } 
, }
")).
Eval vm_compute in ("<<<M4307>>>" ++ check (runes_of_ascii "packet _x {
    repeat string_ {
        repeat zchar[3] u `doc`,
    },
    A @calculatedFrom(""abc"") `u8 x,`,
    matchKey {
        /// triple
        // " ++ [128512]%N ++ runes_of_ascii " emoji
        repeat string body,
        zchar[4294967296] uint8x `u8 x,`,
        repeat Pad,
        Z9_ T,//x
    },
    u8 int,
}")).
Eval vm_compute in ("<<<M272>>>" ++ check (runes_of_ascii "root packet
    _x { @rightPad ( )//	t
i64 body  @calculatedFrom( ""a	b""
    // c
    )  ,} packet
    roots { match Foo as	Header{[
""\" ++ [233]%N ++ runes_of_ascii """
]
: msg_type, [ ""\" ++ [233]%N ++ runes_of_ascii """ ,
    65535 ,// 50% %s
""a\""b""] // " ++ [27880; 37322]%N ++ runes_of_ascii "
: // packet A { u8 x, }
calculatedFrom ,255 :// " ++ [27880; 37322]%N ++ runes_of_ascii "
int
,  ""packet""
    : leftPad
} ,	}

")).
Eval vm_compute in ("<<<M3731>>>" ++ check (runes_of_ascii "
packet i64_{char[]
        // `tick` ""quote"" 'q'
  	// a // b

  i8i8
@lengthOf( i8i8)
	`say ""hi""`,
}
root

    packet 
Logon
    { match 
Logon as
A
    {	[  4294967296

    ]

:
trueish""a\""b""
	: 
tag,
	[ 10 ,
""\" ++ [233]%N ++ runes_of_ascii """ ,
    ""x y""]: A
, """ ++ [233]%N ++ runes_of_ascii "t" ++ [233]%N ++ runes_of_ascii """:
rootA

} ,
}  MetaData 
falsey
{}")).
Eval vm_compute in ("<<<M2036>>>" ++ check (runes_of_ascii "packet	packetx { // trailing space 
x_y_z
{
string
charz ,
string x// @lengthOf(
`two words`
    ,  u8x { // `tick` ""quote"" 'q'
charz `100% of %d` // packet A { u8 x, }
,}// " ++ [27880; 37322]%N ++ runes_of_ascii "
,} , }
    // a // b
    packet metadata {  @leftPad # ( '0') repeat i32 options1 ,u64 uint8x , }
")).
Eval vm_compute in ("<<<M1938>>>" ++ check (runes_of_ascii "packet	packetx { // trailing space 
x_y_z
{
string
charz ,
string x// @lengthOf(
`two words`
    ,  u8x { // `tick` ""quote"" 'q'
charz `100% of %d` // packet A { u8 x, }
,}// " ++ [27880; 37322]%N ++ runes_of_ascii "
}, , }
    // a // b
    packet metadata {  @leftPad ( '0') repeat i32 options1 ,u64 uint8x , }
")).
Eval vm_compute in ("<<<M1936>>>" ++ check (runes_of_ascii "packet	packetx { // trailing space 
x_y_z
{
string
charz ,
string x// @lengthOf(
`two words`
    ,  u8x { // `tick` ""quote"" 'q'
charz `100% of %d` // packet A { u8 x, }
,}// " ++ [27880; 37322]%N ++ runes_of_ascii "
} , }
    // a // b
    packet metadata {  @leftPad ( '0') repeat i32 options1 ,u64 uint8x , }
")).
Eval vm_compute in ("<<<M4204>>>" ++ check (runes_of_ascii "options {
    Header = ' ';
    u128 = 42;
    // " ++ [128512]%N ++ runes_of_ascii " emoji
}

options {
    T = ""\" ++ [233]%N ++ runes_of_ascii """
    BodyLength = 0123456789
    Z9_ = string;
    leftPad = 255;
    x = ' ';// " ++ [27880; 37322]%N ++ runes_of_ascii "
}

packet Header {
}

root packet T {
    @lengthOf(calculatedFrom)
    float64 Z9_ @calculatedFrom(""" ++ [28040; 24687]%N ++ runes_of_ascii """),
}")).
Eval vm_compute in ("<<<M1317>>>" ++ check (runes_of_ascii "options { i8i8 // @lengthOf(
= // " ++ [128512]%N ++ runes_of_ascii " emoji
true}packet Header
{ @lengthOf( f32a
// @lengthOf(
// @lengthOf(
)// 50% %s
string
Header
    //
    `
`
, }
root // packet A { u8 x, }
packet calculatedFrom{ @rightPad () repeat matchKey string_// `tick` ""quote"" 'q'
,} //	t")).
Eval vm_compute in ("<<<M1921>>>" ++ check (runes_of_ascii "packet	packetx { // trailing space 
x_y_z
{
string
charz ,
string x// @lengthOf(
`two words`
    ,  u8x { // `tick` ""quote"" 'q'
charz  // packet A { u8 x, }
,}// " ++ [27880; 37322]%N ++ runes_of_ascii "
,} , }
    // a // b
    packet metadata {  @leftPad ( '0') repeat i32 options1 ,u64 uint8x , }
")).
Eval vm_compute in ("<<<M3859>>>" ++ check (runes_of_ascii "
packet  // 50% %s
    trueish{	lengthOf  len	``	, @leftPad	// @lengthOf(

( 
' '
)	@calculatedFrom( """" 
)

@tag(  4294967296 	 // packet A { u8 x, }
  )Z9_
	falsey`doc`,
	char[]
	lengthOf@lengthOf(charz  )

, u16
BodyLength
	`a\` 
    // trailing space 
	,  }")).
Eval vm_compute in ("<<<M3471>>>" ++ check (runes_of_ascii "// top
options // c0
{
    // c1
LittleEndian // c2a
  // c2b
= // c3
true ; // c5
} root // c7a
  // c7b
packet // c8a
  // c8b
P // c9
{ // c10
u16 a , u32 // c14
Sum // c15
@calculatedFrom( // c16
""CRC32"" // c17a
  // c17b
) // c18
,
    // c19
}
    // c20
")).
Eval vm_compute in ("<<<M2136>>>" ++ check (runes_of_ascii "packet// packet A { u8 x, }
repeatCount	{// packet A { u8 x, }
@leftPad ( '\x00'
) repeat u8x MetaDataX `crlf
line`,
    repeat
    char[] MetaDataX
    ,
u64	@calculatedFrom(uint8x""a\""b""
// c
// packet A { u8 x, }
) `tab	here`
,//
}MetaData pack
    {
    }
")).
Eval vm_compute in ("<<<M2054>>>" ++ check (runes_of_ascii "i16// packet A { u8 x, }
repeatCount	{// packet A { u8 x, }
@leftPad ( '\x00'
) repeat u8x MetaDataX `crlf
line`,
    repeat
    char[] MetaDataX
    ,
u64	uint8x@calculatedFrom(""a\""b""
// c
// packet A { u8 x, }
) `tab	here`
,//
}MetaData pack
    {
    }
")).
Eval vm_compute in ("<<<M193>>>" ++ check (runes_of_ascii "
MetaData options1{ asx trueish , i8i8
Header `
` , char[00
] stringy,
i16
    int `100% of %d`
    ,i64 o`crlf
line`
, string
u8x, } options// @lengthOf(
{ _x =4294967296 } //x
MetaData asx { // `tick` ""quote"" 'q'
zchar[ 42// a // b
]
uint8x
    , }
")).
Eval vm_compute in ("<<<M2094>>>" ++ check (runes_of_ascii "packet// packet A { u8 x, }
repeatCount	{// packet A { u8 x, }
@leftPad ( '\x00'
) repeat u8x  `crlf
line`,
    repeat
    char[] MetaDataX
    ,
u64	uint8x@calculatedFrom(""a\""b""
// c
// packet A { u8 x, }
) `tab	here`
,//
}MetaData pack
    {
    }
")).
Eval vm_compute in ("<<<M1621>>>" ++ check (runes_of_ascii "packet calculatedFrom
{ @calculatedFrom( ""a\\"" ) zchar[ 4294967296 $ ]
calculatedFrom@lengthOf( pack )	`100% of %d` ,char[]body@calculatedFrom( ""// no comment"" )  ,
@tag( 007) //x
int8
leftPad`it's` , repeat pack
    { repeat char[ 3] body
,},
}")).
Eval vm_compute in ("<<<M1416>>>" ++ check (runes_of_ascii "calculatedFrom packet
{ @calculatedFrom( ""a\\"" ) zchar[ 4294967296 ]
calculatedFrom@lengthOf( pack )	`100% of %d` ,char[]body@calculatedFrom( ""// no comment"" )  ,
@tag( 007) //x
int8
leftPad`it's` , repeat pack
    { repeat char[ 3] body
,},
}")).
Eval vm_compute in ("<<<M1580>>>" ++ check (runes_of_ascii "packet calculatedFrom
{ @calculatedFrom( ""a\\"" ) zchar[ 4294967296 ]
calculatedFrom@lengthOf( pack )	`100% of %d` ,char[]body@calculatedFrom( ""// no comment"" )  ,
@tag( 007) //x
int8
leftPad`it's` , repeat pack
    { repeat char[ ]3 body
,},
}")).
Eval vm_compute in ("<<<M1631>>>" ++ check (runes_of_ascii "packet calculatedFrom
{ @calculatedFrom( ""a\\"" ) zchar[ 4294967296 ]
calculatedFrom@lengthOf( pack )	`100% of %d` ,char[]" ++ [21517; 23383]%N ++ runes_of_ascii "@calculatedFrom( ""// no comment"" )  ,
@tag( 007) //x
int8
leftPad`it's` , repeat pack
    { repeat char[ 3] body
,},
}")).
Eval vm_compute in ("<<<M2178>>>" ++ check (runes_of_ascii "packet// packet A { u8 x, }
repeatCount	{// packet A { u8 x, }
@leftPad ( '\x00'
) repeat u8x MetaDataX `crlf
line`,
    repeat
    char[] MetaDataX
    ,
u64	uint8x@calculatedFrom(""a\""b""
// c
// packet A { u8 x, }
) `tab	here`
,//
}MetaData")).
Eval vm_compute in ("<<<M1980>>>" ++ check (runes_of_ascii "packet	packetx { // trailing space 
x_y_z
{
string
charz ,
string x// @lengthOf(
`two words`
    ,  u8x { // `tick` ""quote"" 'q'
charz `100% of %d` // packet A { u8 x, }
,}// " ++ [27880; 37322]%N ++ runes_of_ascii "
,} , }
    // a // b
    packet metadata {  @leftPad")).
Eval vm_compute in ("<<<M535>>>" ++ check (runes_of_ascii "options // 50% %s
{
    } MetaData u8x {
    string Header , uint16
    packetx ,roots x `it's`
    ,
// " ++ [27880; 37322]%N ++ runes_of_ascii "
//x
i64 options1 `" ++ [28040; 24687; 31867; 22411]%N ++ runes_of_ascii "` , }options { i8i8=
    """"; a1
=
string Logon= 4294967296 body = 0123456789
matchKey=true}
")).
Eval vm_compute in ("<<<M915>>>" ++ check (runes_of_ascii "// c
MetaData repeatCount {
pack
options1
,
    // 50% %s
    }
// " ++ [27880; 37322]%N ++ runes_of_ascii "
//x
root packet u8x {
string_ ,
    repeat msg_type
    { u128@lengthOf( o ) `` , }
, // c
repeat string
    u128 `doc` ,}
    packet	u { }
")).
Eval vm_compute in ("<<<M510>>>" ++ check (runes_of_ascii "  packet matchKey{rootA len`a\` ,
@calculatedFrom( """ ++ [128512]%N ++ runes_of_ascii """
)// `tick` ""quote"" 'q'
@calculatedFrom( ""\" ++ [233]%N ++ runes_of_ascii """ )  @leftPad(
    '0' )	float64
i8i8
    ,
    repeat
string_ lengthOf
    ,} packet u128 { } // a // b")).
Eval vm_compute in ("<<<M1076>>>" ++ check (runes_of_ascii "packet a1 {
@leftPad
( ) zchar[
    7] calculatedFrom ,
    //
    }
    /// triple
    root packet x
{}
options { pack= ""abc""trueish =255 ; BodyLength=
    u64 ;	Z9_
    = i64 /// triple
; }

")).
Eval vm_compute in ("<<<M2153>>>" ++ check (runes_of_ascii "packet// packet A { u8 x, }
repeatCount	{// packet A { u8 x, }
@leftPad ( '\x00'
) repeat u8x MetaDataX `crlf
line`,
    repeat
    char[] MetaDataX
    ,
u64	uint8x@calculatedFrom(""a\""b""")).
Eval vm_compute in ("<<<M3870>>>" ++ check (runes_of_ascii "options {
    Foo = '\x00'
    rootA = uint8//
    u128 = 7;
    x_y_z = char[0123456789];
}

MetaData lengthOf {
    Packet body,
    asx lengthOf `
    `,
    packetx As,
}// 50% %s")).
Eval vm_compute in ("<<<M3359>>>" ++ check (runes_of_ascii "// top
MetaData // c0
_x // c1
{ // c2
f64 // c3
charz // c4
`tab	here` // c5
, // c6
} // c7
options // c8
{ // c9
BodyLength // c10
= // c11
""" ++ [233]%N ++ runes_of_ascii "t" ++ [233]%N ++ runes_of_ascii """ // c12
; // c13
} // c14
")).
Eval vm_compute in ("<<<M3613>>>" ++ check (runes_of_ascii "
packet
	A { match

k 
as	n  {  [ 1

    ,
22	,

""c c""

    , 4 
,	5
    ,""f""  , 
7 ,

8	,  ""i""  ,

    10
	, 11 ,

""l""
	]:
	B

    2
:C

    }	,

    } ")).
Eval vm_compute in ("<<<M3755>>>" ++ check (runes_of_ascii "packet A {
    match k as n {
        [
            ""a"", 22, ""c c"", 4, ""e"",
            66, ""g"", 8, ""i"", 10,
            ""k""
        ] : B,
        2 : C,
    },
}")).
Eval vm_compute in ("<<<M1765>>>" ++ check (runes_of_ascii "options { } packet Packet{char[] i64_ ,
@tag(
    255) match
crc as i8i8{""{,}"" : trueish """" : Pad , ""a\\"" :
@rightPad ,
    1 :packetx
, """ ++ [128512]%N ++ runes_of_ascii """ : trueish , } , }")).
Eval vm_compute in ("<<<M4114>>>" ++ check (runes_of_ascii "  MetaData
	metadata

{ 
}

MetaData	rootA{i8	i64_,
	roots
	options1  `a\` 
,  
  // c
		lengthOf
Header , 
Z9_
    Foo

    , int16 BodyLength 
,

    }
")).
Eval vm_compute in ("<<<M2365>>>" ++ check (runes_of_ascii "
packet MetaDataX
{
    @leftPad
( // a // b
'0'
) i8 u @lengthOf(
MetaDataX
    ) `say ""hi""` ,	} MetaData BodyLength {
    asx
`" ++ [233]%N ++ runes_of_ascii "` x_y_z
, uint64 u128 , }
")).
Eval vm_compute in ("<<<M1773>>>" ++ check (runes_of_ascii "options { } packet Packet{char[] i64_ ,
@tag(
    255) match
crc as i8i8{""{,}"" : trueish """" : Pad , ""a\\"" :
Foo ,
    1 1 :packetx
, """ ++ [128512]%N ++ runes_of_ascii """ : trueish , } , }")).
Eval vm_compute in ("<<<M1680>>>" ++ check (runes_of_ascii "options { } packet Packet{char[] i64_ ,
repeat
    255) match
crc as i8i8{""{,}"" : trueish """" : Pad , ""a\\"" :
Foo ,
    1 :packetx
, """ ++ [128512]%N ++ runes_of_ascii """ : trueish , } , }")).
Eval vm_compute in ("<<<M1704>>>" ++ check (runes_of_ascii "options { } packet Packet{char[] i64_ ,
@tag(
    255) match
crc i8i8 as{""{,}"" : trueish """" : Pad , ""a\\"" :
Foo ,
    1 :packetx
, """ ++ [128512]%N ++ runes_of_ascii """ : trueish , } , }")).
Eval vm_compute in ("<<<M3805>>>" ++ check (runes_of_ascii "packet A {
    Inner {
        match k as n {
            [
                1, 22, 007, 4, 5,
                66, 7
            ] : B,
        },
    },
}")).
Eval vm_compute in ("<<<M3771>>>" ++ check (runes_of_ascii "

  MetaData
	metadata{

    // c
}
MetaData
    rootA {
i8
    i64_

, 
roots	options1
`a\`

, lengthOf  Header 
,
Z9_ Foo	,  int16 
BodyLength

, } ")).
Eval vm_compute in ("<<<M1847>>>" ++ check (runes_of_ascii "options { } packet a" ++ [769]%N ++ runes_of_ascii "b{char[] i64_ ,
@tag(
    255) match
crc as i8i8{""{,}"" : trueish """" : Pad , ""a\\"" :
Foo ,
    1 :packetx
, """ ++ [128512]%N ++ runes_of_ascii """ : trueish , } , }")).
Eval vm_compute in ("<<<M1648>>>" ++ check (runes_of_ascii "options { }  Packet{char[] i64_ ,
@tag(
    255) match
crc as i8i8{""{,}"" : trueish """" : Pad , ""a\\"" :
Foo ,
    1 :packetx
, """ ++ [128512]%N ++ runes_of_ascii """ : trueish , } , }")).
Eval vm_compute in ("<<<M3914>>>" ++ check (runes_of_ascii "MetaData metadata {
}

MetaData rootA {
    // c
    i8 i64_,
    roots options1 `a\`,
    lengthOf Header,
    Z9_ Foo,
    int16 BodyLength,
}")).
Eval vm_compute in ("<<<M2123>>>" ++ check (runes_of_ascii "packet// packet A { u8 x, }
repeatCount	{// packet A { u8 x, }
@leftPad ( '\x00'
) repeat u8x MetaDataX `crlf
line`,
    repeat
    char[]")).
Eval vm_compute in ("<<<M4020>>>" ++ check (runes_of_ascii "  root
    packet

zchar

    {
@leftPad

    ( '0' )
@rightPad
	(' '
	)@calculatedFrom( ""\" ++ [233]%N ++ runes_of_ascii """
)  repeat	uint32

    Header	,	}
")).
Eval vm_compute in ("<<<M4091>>>" ++ check (runes_of_ascii "
MetaData
float
	{uint8 BodyLength, }MetaData

    charz { 
      // c

	float32

trueish `a\` ,
i16 metadata  `say ""hi""` , }
")).
Eval vm_compute in ("<<<M3637>>>" ++ check (runes_of_ascii "packet A {
    match k as n {
        [
            1, 22, ""c c"", 4, 5,
            ""f""
        ] : B,
        2 : C,
    },
}")).
Eval vm_compute in ("<<<M3281>>>" ++ check (runes_of_ascii "MetaData metadata { } MetaData rootA { i8 i64_ ,
// c
roots options1 `a\` , lengthOf Header , Z9_ Foo , int16 BodyLength , }")).
Eval vm_compute in ("<<<M4511>>>" ++ check (runes_of_ascii "MetaData f32a {
}

MetaData calculatedFrom {
}

options {
    trueish = char[];
    MetaDataX = false;
    leftPad = int64
}")).
Eval vm_compute in ("<<<M3045>>>" ++ check (runes_of_ascii "packet A {
    Inner {
        u8 x `a
    b
  c`,
        Deep {
            u8 y `a
    b
  c`,
        },
    },
}")).
Eval vm_compute in ("<<<M4226>>>" ++ check (runes_of_ascii "

  packet A 
{ match k as n {
	[
1

,  22

,

    ""c c""

,
4 ,
    5
,	""f""
]

:
B 2  :

C

    }

    ,}

")).
Eval vm_compute in ("<<<M3320>>>" ++ check (runes_of_ascii "MetaData float // c
{ uint8 BodyLength , } MetaData charz { float32 trueish `a\` , i16 metadata `say ""hi""` , }")).
Eval vm_compute in ("<<<M3352>>>" ++ check (runes_of_ascii "MetaData float { uint8 BodyLength , } MetaData charz { float32 trueish `a\` , i16 metadata `say ""hi""` , // c
}")).
Eval vm_compute in ("<<<M3069>>>" ++ check (runes_of_ascii "packet A {
    Inner {
        u8 x `tab
	x`,
        Deep {
            u8 y `tab
	x`,
        },
    },
}")).
Eval vm_compute in ("<<<M3617>>>" ++ check (runes_of_ascii "
packet Foo

    {uint16
A @calculatedFrom(
	""a\\"") // packet A { u8 x, }
  `u8 x,`  ,
    }
	//	t
")).
Eval vm_compute in ("<<<M3647>>>" ++ check (runes_of_ascii "

  MetaData Z9_ 

// 50% %s
	  {x  u8x,	lengthOf
chars 
,uint32
options1
	,

    }  options {}
")).
Eval vm_compute in ("<<<M2961>>>" ++ check (runes_of_ascii "packet A {
  match k as n {
    [""a"", ""bb"", ""c c"", ""d"", ""e"", ""f"", ""g"", ""h""] : B,
    2 : C
  },
}")).
Eval vm_compute in ("<<<M2783>>>" ++ check (runes_of_ascii "'\x00' true options char[ u32 options packet uint16 int8 zchar[ repeat @tag( @calculatedFrom( 3")).
Eval vm_compute in ("<<<M3644>>>" ++ check (runes_of_ascii "packet	o {
	@tag(
    4294967296 
      // c
  	)
options1 @lengthOf(

    u8x
)
	`" ++ [233]%N ++ runes_of_ascii "`,
} ")).
Eval vm_compute in ("<<<M2260>>>" ++ check (runes_of_ascii "MetaData _x {string x `// not a comment` , string
i64_ // trailing space 
`a\` , ,
    }
")).
Eval vm_compute in ("<<<M2981>>>" ++ check (runes_of_ascii "packet A {
  match k as n {
    [1, 22, ""c c"", 4, 5, ""f"", 7, 8, ""i""] : B
    2 : C
  },
}")).
Eval vm_compute in ("<<<M2257>>>" ++ check (runes_of_ascii "MetaData _x {string x `// not a comment` , string
i64_ // trailing space 
f64 ,
    }
")).
Eval vm_compute in ("<<<M3440>>>" ++ check (runes_of_ascii "options {
    LittleEndian = true;
}
root packet P {
    repeat char cs,
    u8 x,
}
")).
Eval vm_compute in ("<<<M3100>>>" ++ check (runes_of_ascii "packet A {
    u32 crc @calculatedFrom(""%d%s""),
    @calculatedFrom(""%d%s"") u8 y,
}")).
Eval vm_compute in ("<<<M4081>>>" ++ check (runes_of_ascii "
packet Inner
{
u8 a ,  }

    root  packet
P
	{ Inner
ref_obj

,
u8
	x
,

} ")).
Eval vm_compute in ("<<<M2946>>>" ++ check (runes_of_ascii "packet A {
  match k as n {
    [1, 22, 007, 4, 5, 66, 7] : B,
    2 : C
  },
}")).
Eval vm_compute in ("<<<M590>>>" ++ check (runes_of_ascii "  MetaData u128 { BodyLength u8x ,
    zchar[ 255 ] metadata	`say ""hi""` ,
}
")).
Eval vm_compute in ("<<<M3385>>>" ++ check (runes_of_ascii "MetaData _x { f64 charz `tab	here` , } options { BodyLength
// c
= """ ++ [233]%N ++ runes_of_ascii "t" ++ [233]%N ++ runes_of_ascii """ ; }")).
Eval vm_compute in ("<<<M4514>>>" ++ check (runes_of_ascii "options{  T
	=	char	/// triple
;Logon	//x
	=  ' '
;
    i64_ = string

}
")).
Eval vm_compute in ("<<<M4347>>>" ++ check (runes_of_ascii "packet	calculatedFrom
    { string o
	`` ,body x_y_z, 	 // a // b
  }
")).
Eval vm_compute in ("<<<M2971>>>" ++ check (runes_of_ascii "packet A { Inner { match k as n { [1,22,007,4,5,66,7,8] : B, }, }, }")).
Eval vm_compute in ("<<<M466>>>" ++ check (runes_of_ascii "
MetaData
_x
{ rootA x_y_z `two words` , char[// a // b
255]tag,}
")).
Eval vm_compute in ("<<<M3735>>>" ++ check (runes_of_ascii "packet leftPad {
}

packet charz {
    @rightPad('0')
    tag T,
}")).
Eval vm_compute in ("<<<M2826>>>" ++ check (runes_of_ascii "f32 ] u64 ""// no comment"" char[ packet ; 10 zchar[ false root :")).
Eval vm_compute in ("<<<M1174>>>" ++ check (runes_of_ascii "MetaData pack {// `tick` ""quote"" 'q'
uint16 Logon `" ++ [28040; 24687; 31867; 22411]%N ++ runes_of_ascii "` ,}
")).
Eval vm_compute in ("<<<M61>>>" ++ check (runes_of_ascii "packet
metadata{// " ++ [27880; 37322]%N ++ runes_of_ascii "
uint8x @lengthOf( len)  `{ , }`, }
")).
Eval vm_compute in ("<<<M2803>>>" ++ check (runes_of_ascii "MetaData tag ( 007 float32 i32 @calculatedFrom( '0' i64")).
Eval vm_compute in ("<<<M4055>>>" ++ check (runes_of_ascii "packet A {
    match k as n {
        1 : B,
    },
}")).
Eval vm_compute in ("<<<M2299>>>" ++ check (runes_of_ascii "
MetaData Pad{ {
u32 rootA `line1
line2` ,
    }
")).
Eval vm_compute in ("<<<M2763>>>" ++ check (runes_of_ascii "repeat as string options @tag( as false { root as")).
Eval vm_compute in ("<<<M2603>>>" ++ check (runes_of_ascii "packet A { char[] x @calculatedFrom(""c"") `d`, }")).
Eval vm_compute in ("<<<M3839>>>" ++ check (runes_of_ascii "MetaData zchar {
    // c
    zchar[3] Pad,
}")).
Eval vm_compute in ("<<<M3915>>>" ++ check (runes_of_ascii "MetaData packetx {
    char[00] lengthOf,
}")).
Eval vm_compute in ("<<<M4344>>>" ++ check (runes_of_ascii "root packet len {
}

root packet i8i8 {
}")).
Eval vm_compute in ("<<<M1681>>>" ++ check (runes_of_ascii "options { } packet Packet{char[] i64_ ,")).
Eval vm_compute in ("<<<M2602>>>" ++ check (runes_of_ascii "packet A { zchar[3] x @lengthOf(y), }")).
Eval vm_compute in ("<<<M91>>>" ++ check (runes_of_ascii "root packet u {
    float32 a1
,	}")).
Eval vm_compute in ("<<<M2789>>>" ++ check (runes_of_ascii "~_m0cQuCM@kc~nu~;9epF=}`""T4g\\V*DD")).
Eval vm_compute in ("<<<M729>>>" ++ check (runes_of_ascii "MetaData crc {
    u16 roots
, }")).
Eval vm_compute in ("<<<M3084>>>" ++ check (runes_of_ascii "packet A {
    u8 x `%%d%!`,
}")).
Eval vm_compute in ("<<<M3913>>>" ++ check (runes_of_ascii "packet
    A{

} 

    // c" ++ [5760]%N ++ runes_of_ascii "
")).
Eval vm_compute in ("<<<M3921>>>" ++ check (runes_of_ascii "
packet A
{

}
    // c" ++ [8202]%N ++ runes_of_ascii "
")).
Eval vm_compute in ("<<<M2317>>>" ++ check (runes_of_ascii "
MetaData Pad{
u32 rootA")).
Eval vm_compute in ("<<<M4385>>>" ++ check (runes_of_ascii "// c" ++ [8203]%N ++ runes_of_ascii "
		packet  A {
}
")).
Eval vm_compute in ("<<<M1032>>>" ++ check (runes_of_ascii "MetaData	packetx { }
")).
Eval vm_compute in ("<<<M522>>>" ++ check (runes_of_ascii "root packet asx
{}
")).
Eval vm_compute in ("<<<M2681>>>" ++ check (runes_of_ascii "options { a = 1, }")).
Eval vm_compute in ("<<<M3179>>>" ++ check (runes_of_ascii "packet A {
}
// c" ++ [65279]%N)).
Eval vm_compute in ("<<<M3117>>>" ++ check (runes_of_ascii "packet A {
}// c" ++ [133]%N)).
Eval vm_compute in ("<<<M4523>>>" ++ check (runes_of_ascii "options {
}// " ++ [27880; 37322]%N)).
Eval vm_compute in ("<<<M4355>>>" ++ check (runes_of_ascii "packet Foo {
}")).
Eval vm_compute in ("<<<M1338>>>" ++ check (runes_of_ascii " // " ++ [128512]%N ++ runes_of_ascii " emoji")).
Eval vm_compute in ("<<<M3746>>>" ++ check (runes_of_ascii "// 50% %s")).
Eval vm_compute in ("<<<M2523>>>" ++ check (runes_of_ascii "// a
b")).
Eval vm_compute in ("<<<M2446>>>" ++ check (runes_of_ascii "char[")).
Eval vm_compute in ("<<<M3153>>>" ++ check (runes_of_ascii "// c" ++ [8287]%N)).
Eval vm_compute in ("<<<M2849>>>" ++ check (runes_of_ascii "@Fe)")).
Eval vm_compute in ("<<<M2570>>>" ++ check (runes_of_ascii "a" ++ [160]%N ++ runes_of_ascii "b")).
Eval vm_compute in ("<<<M2872>>>" ++ check ([65533]%N ++ runes_of_ascii "]")).
