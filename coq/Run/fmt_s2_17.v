From FP Require Import Lexer Parser ShowPT Digest Formatter.
From Coq Require Import String List NArith.
Import ListNotations.
Open Scope string_scope.
Set Printing Width 100000000.
Set Printing Depth 100000000.
Definition show_fres (r : fres) : string :=
  match r with
  | FOk s => "OK:" ++ sh_escaped s ""
  | FErr s => "ERR:" ++ sh_escaped s ""
  | FPanic p => "PANIC:" ++ p
  end.
Definition check (rs : list rune) : string := digest (show_fres (format_res rs)).
Definition full (rs : list rune) : string := show_fres (format_res rs).
Eval vm_compute in ("<<<M3682>>>" ++ check (runes_of_ascii "
packet Foo	{  @lengthOf(

    chars
)
@leftPad	( 
  //x

  ) repeat metadata
    // @lengthOf(
	  // c
	{
    // packet A { u8 x, }
  // " ++ [128512]%N ++ runes_of_ascii " emoji

  _x , 
u body

    ,
    match
A as
Logon	{ [ ""\" ++ [233]%N ++ runes_of_ascii """ , 
10
    , 7  ,
"""" , 0

//
// @lengthOf(
    ]  
  // packet A { u8 x, }
  : stringy
,""" ++ [128512]%N ++ runes_of_ascii """
	// `tick` ""quote"" 'q'
  :

msg_type  ,	}
,uint16  asx@calculatedFrom(  """ ++ [233]%N ++ runes_of_ascii "t" ++ [233]%N ++ runes_of_ascii """
	) ,
    }

    ,
    @lengthOf(
metadata) match 
matchKey
    as

o 
      //x

// `tick` ""quote"" 'q'
	{[65535
	,255
	]

    : rootA , 
} 
, @lengthOf(
Z9_
)

match  Header  as o
{

    4294967296 : pack
,
65535 
:  MetaDataX
,
	""CRC32"" :

leftPad
    ,
    [
""{,}"" 
]
    : 
calculatedFrom
, 	 //x

""" ++ [28040; 24687]%N ++ runes_of_ascii """// packet A { u8 x, }
    	:o 
""a\\"" :u
    ,  } , @tag(  42
)  @lengthOf( 
options1)

@lengthOf(
	o

) // c
  match options1  // `tick` ""quote"" 'q'
    	as

uint8x
    {
[
        //x
	  // " ++ [27880; 37322]%N ++ runes_of_ascii "
1 
,
	""CRC32""
    ,  ""a\\""
, 
    //x
	// c
    1,
	""// no comment""
	,007]
    // a // b
  // `tick` ""quote"" 'q'

  :

    int	0: repeatCount,
    0123456789
    :  f32a [ 
    //x
		// @lengthOf(

	255 ,	""\" ++ [233]%N ++ runes_of_ascii """  ,""a\\""

]
:  asx 
, 1 :

    Header 
      // trailing space 
	, } 
,
	match tag
as	_x 	 // a // b
	  {	00 :
lengthOf	, 	 // " ++ [27880; 37322]%N ++ runes_of_ascii "
	}

    ,
	repeat	char[]
i64_
,

    match

    // " ++ [27880; 37322]%N ++ runes_of_ascii "
  msg_type 
as
Pad // c
{  // a // b

	""// no comment""

:	asx

,  [
    """ ++ [28040; 24687]%N ++ runes_of_ascii """

,	""\" ++ [233]%N ++ runes_of_ascii """
	]  // c
		:  x
	,

0

:
	u , /// triple
      10:Foo

    ,  }
    , 

    // trailing space 
	/// triple
  	@rightPad(  ) 
    //	t
u8x,
    @leftPad
	(	'\x00'
	) u64	crc
@calculatedFrom(

    ""`tick`"" 
)	`
`
,

@lengthOf(	rootA) zchar[
00
]roots,
}MetaData

    MetaDataX	{ 
} packet

    len // " ++ [27880; 37322]%N ++ runes_of_ascii "
  {
	repeat

Z9_//x
    	{

    i8 
    //
i8i8 ,	}

    ,	match	repeatCount

    as  
  // trailing space 
	// " ++ [27880; 37322]%N ++ runes_of_ascii "
	asx
{	""{,}"":tag
    , 65535// trailing space 
:	Foo 
,
7:

    f32a ,  [
""" ++ [28040; 24687]%N ++ runes_of_ascii """

    ,

    0 ] :	//	t
    T
    ,[00

    ,

    """ ++ [128512]%N ++ runes_of_ascii """ 
    // " ++ [27880; 37322]%N ++ runes_of_ascii "
    ] :
    x_y_z 0123456789 :

    MetaDataX

    ,
	}
    , 
char[
	007
	] 
x
    `" ++ [233]%N ++ runes_of_ascii "`
    //	t
	// " ++ [27880; 37322]%N ++ runes_of_ascii "
  ,
	@leftPad (
    )  i16 
Logon
    @lengthOf( MetaDataX )

,}packet u8x{ } ")).
Eval vm_compute in ("<<<M3513>>>" ++ check (runes_of_ascii "options { // c1
LittleEndian
    // c2
= // c3
false ; // c5a
  // c5b
StringPrefixLenType // c6a
  // c6b
=
    // c7
u16
    // c8
; ArrayPrefixLenType
    // c10
= // c11
u32 // c12a
  // c12b
;
    // c13
} packet Order // c16
{ uint8 x // c19a
  // c19b
, // c20a
  // c20b
repeat // c21
string venue // c23a
  // c23b
,
    // c24
} // c25a
  // c25b
packet // c26a
  // c26b
Heartbeat
    // c27
{ // c28
i64 // c29
count
    // c30
, // c31a
  // c31b
zchar[ // c32a
  // c32b
1 // c33
] Qty , // c36
repeat
    // c37
InX29 // c38a
  // c38b
{ // c39a
  // c39b
InSeqno26
    // c40
{ // c41
int64 // c42
f1 // c43
, char[ // c45
5
    // c46
] Acct // c48a
  // c48b
,
    // c49
Order
    // c50
, } , // c53a
  // c53b
repeat InSide285 { // c56a
  // c56b
repeat // c57a
  // c57b
Order , // c59a
  // c59b
char[ 10 // c61
]
    // c62
Px // c63a
  // c63b
, zchar[ // c65
9 // c66
] // c67a
  // c67b
OrderId , }
    // c70
, // c71a
  // c71b
char[] // c72a
  // c72b
venue
    // c73
, Order // c75
, }
    // c77
,
    // c78
@rightPad // c79a
  // c79b
(
    // c80
'\x00' // c81
) // c82
char[ // c83a
  // c83b
4 // c84
] // c85a
  // c85b
clOrdID // c86
,
    // c87
}
    // c88
root // c89
packet
    // c90
Party // c91a
  // c91b
{ zchar[
    // c93
3 // c94a
  // c94b
] f1 , // c97
u32
    // c98
clOrdID , u32
    // c101
Px
    // c102
@lengthOf( // c103a
  // c103b
Body // c104
)
    // c105
,
    // c106
match // c107a
  // c107b
clOrdID // c108a
  // c108b
as Body
    // c110
{ // c111a
  // c111b
[
    // c112
180
    // c113
, // c114a
  // c114b
64 // c115a
  // c115b
]
    // c116
: Heartbeat , 11 :
    // c121
Order , // c123
} // c124a
  // c124b
,
    // c125
u32
    // c126
Side2 @calculatedFrom( // c128
""CRC32"" )
    // c130
, } // c132
")).
Eval vm_compute in ("<<<M3980>>>" ++ check (runes_of_ascii "// " ++ [128512]%N ++ runes_of_ascii " emoji
packet options1 {
    match MetaDataX as matchKey {
        4294967296 : i8i8,
        7 : Header,
    },
    crc Pad `doc`,
    @leftPad()
    repeat o f32a `u8 x,`,
    @lengthOf(calculatedFrom)
    repeat int32 body,// trailing space 
    @tag(0123456789)
    @tag(42)
    @calculatedFrom(""\n"")
    Foo {
        A,//x
    },
    @tag(3)
    @tag(3)
    char Header `it's`,
    repeat float {
        char[007] u8x `tab	here`,
        f32a {
            // packet A { u8 x, }
            match As as MetaDataX {
                4294967296 : u,
                1 : Pad,
                // " ++ [128512]%N ++ runes_of_ascii " emoji
                //x
                3 : x_y_z,
                """ ++ [28040; 24687]%N ++ runes_of_ascii """ : asx,
                1 : matchKey,
                """" : leftPad,
            },
            repeat i16 float `u8 x,`,
            match chars as int {
                """" : rootA,
                // c
                ""packet"" : f32a,
                [3, 4294967296, ""a	b"", """ ++ [28040; 24687]%N ++ runes_of_ascii """] : Packet,
                [
                    0123456789, 255, 00, ""a\""b"", ""a	b"",
                    ""\n"", ""a	b"", ""1""
                ] : stringy,
                0123456789 : lengthOf,
                10 : i64_,
            },
            matchKey {
                // a // b
                //	t
                repeat int16 zchar `crlf
                line`,
            },
        },
    },
    repeat Pad {
        float32 trueish `// not a comment`,
    },
    repeat char[0] i64_ `say ""hi""`,
    @tag(65535)
    // c
    u128,
}")).
Eval vm_compute in ("<<<M3783>>>" ++ check (runes_of_ascii "options {
    uint8x = u64;
    crc = '0'
    // @lengthOf(
    // " ++ [128512]%N ++ runes_of_ascii " emoji
    MetaDataX = '0';
    len = '0'
}

MetaData matchKey {
}

packet i64_ {
    BodyLength `tab	here`,
    @tag(00)
    repeat string_,
    @calculatedFrom(""" ++ [28040; 24687]%N ++ runes_of_ascii """)
    @leftPad('0')
    crc @calculatedFrom(""" ++ [233]%N ++ runes_of_ascii "t" ++ [233]%N ++ runes_of_ascii """),
    @tag(1)
    zchar[007] packetx `
    `,
    @leftPad('0')
    x @calculatedFrom(""packet""),
    @lengthOf(A)
    @calculatedFrom(""{,}"")
    @rightPad('0')
    string Header `say ""hi""`,
    @lengthOf(u8x)
    x Header `doc`,
}

packet uint8x {
    @leftPad('\x00')
    @lengthOf(leftPad)
    BodyLength u,
}

root packet A {
    @rightPad('\x00')
    @lengthOf(leftPad)
    char[4294967296] A @calculatedFrom(""// no comment""),
    @tag(42)
    @calculatedFrom(""packet"")
    @calculatedFrom(""" ++ [128512]%N ++ runes_of_ascii """)
    repeat Z9_ `" ++ [28040; 24687; 31867; 22411]%N ++ runes_of_ascii "`,
    rootA crc,
    Header,
    char[4294967296] charz `{ , }`,
    @calculatedFrom(""\n"")
    @calculatedFrom(""it's"")
    u64 stringy `" ++ [233]%N ++ runes_of_ascii "`,
    repeat options1 {
        body {
            lengthOf @calculatedFrom(""a\\""),
            options1 {
                repeat chars leftPad `two words`,
            },
        },
        repeat char[] _x,
        zchar[3] options1,
    },
    @lengthOf(packetx)
    @leftPad(' ')
    @lengthOf(rootA)
    float Packet,
    @tag(7)
    repeat u8 matchKey,
}")).
Eval vm_compute in ("<<<M534>>>" ++ check (runes_of_ascii "  packet roots
    {
@lengthOf(
    a1
)
    //x
    uint32 stringy `it's` ,
@tag( 0  ) string a1
//	t
//x
,match len as zchar {
    // @lengthOf(
    42 : lengthOf ,""" ++ [233]%N ++ runes_of_ascii "t" ++ [233]%N ++ runes_of_ascii """ : len """"
: Z9_
    ,} ,  @calculatedFrom(
    ""{,}""  ) // " ++ [128512]%N ++ runes_of_ascii " emoji
@tag(
    42 )rootA @lengthOf( repeatCount ) `" ++ [233]%N ++ runes_of_ascii "` // `tick` ""quote"" 'q'
,  BodyLength
    {
    f64 tag `u8 x,`
    ,
    //
    }	,	zchar[
255 ]
f32a `
` , @lengthOf( rootA )
a1 , @calculatedFrom( """ ++ [28040; 24687]%N ++ runes_of_ascii """ ) repeat u32  As `doc` ,	} packet o
{ repeat uint8
    A ,
    }MetaData u128{ int64 //	t
x_y_z `doc` , }options { asx // @lengthOf(
= 65535
; metadata //
= u32; pack = zchar[
    0123456789 ] }root
packet
lengthOf
{
@leftPad( '0' )
    @calculatedFrom(
// " ++ [27880; 37322]%N ++ runes_of_ascii "
//x
""it's"" ) int@calculatedFrom( ""`tick`"")
,i32 len
, @leftPad
( '\x00'
    )repeat	char[]falsey , @tag( 255
)
i32
lengthOf
    @lengthOf( MetaDataX )  , match int as A { 10
:
body ,	""abc"" :
    a1
,  }, metadata `a\`, int32 uint8x @lengthOf( repeatCount )
    ,@leftPad( )crc  body
,
    repeat
T
{
    // " ++ [128512]%N ++ runes_of_ascii " emoji
    float64 x,
char[] tag
    // trailing space 
    `say ""hi""`  , repeat Header { char[] string_ `say ""hi""`  ,Z9_
, }
, // " ++ [128512]%N ++ runes_of_ascii " emoji
}
    //x
    ,	}
")).
Eval vm_compute in ("<<<M4176>>>" ++ check (runes_of_ascii "packet chars {
    i8 Z9_,
    match zchar as Logon {
        00 : i8i8,
        [
            42, 10, 4294967296, ""// no comment"", ""it's"",
            ""`tick`"", ""x y"", ""a\""b""
        ] : leftPad,
        [""\" ++ [233]%N ++ runes_of_ascii """] : A,
        [""abc"", ""1""] : zchar,
        3 : x,
        3 : x_y_z,
    },
    uint8x @calculatedFrom(""{,}""),
}// `tick` ""quote"" 'q'

packet calculatedFrom {
    int32 T,
    @lengthOf(float)
    f32a len,
    @calculatedFrom(""" ++ [233]%N ++ runes_of_ascii "t" ++ [233]%N ++ runes_of_ascii """)
    int32 f32a @lengthOf(matchKey) `" ++ [233]%N ++ runes_of_ascii "`,
    charz @calculatedFrom(""x y""),
}

root packet stringy {
    @lengthOf(Logon)
    int64 len @calculatedFrom(""CRC32""),
    T @calculatedFrom(""1"") `line1
    line2`,
    @tag(255)
    @tag(7)
    @tag(007)
    repeat packetx len,
    @tag(1)
    repeat zchar[0] float,//
    @lengthOf(lengthOf)
    repeat x_y_z {
        char[10] u `
        `,
        MetaDataX a1 `u8 x,`,
    },
    @tag(1)
    string repeatCount `" ++ [28040; 24687; 31867; 22411]%N ++ runes_of_ascii "`,
    int8 int @calculatedFrom(""// no comment""),
}

packet asx {
    @leftPad('\x00')
    char[00] u8x @calculatedFrom(""" ++ [233]%N ++ runes_of_ascii "t" ++ [233]%N ++ runes_of_ascii """),
    zchar[007] asx @calculatedFrom(""" ++ [128512]%N ++ runes_of_ascii """),
    repeat MetaDataX metadata `
    `,
}")).
Eval vm_compute in ("<<<M4409>>>" ++ check (runes_of_ascii "
root packet

    asx  // trailing space 
	{trueish
lengthOf
    `line1
line2`

    ,
@rightPad

( )
    @rightPad
	(
'0' )
char[]
a1
	, 
} 
packet metadata {
stringy  `say ""hi""`

,  @lengthOf( 
int

)

match u8x  as
zchar
{
	""" ++ [128512]%N ++ runes_of_ascii """
    : repeatCount
,00

    :

Header,

4294967296
    : As
, 
    //	t
    255 
:

//x
    	u8x
, [//	t
    	0123456789
    ]: 
    // packet A { u8 x, }
	pack// `tick` ""quote"" 'q'
  , }	, @calculatedFrom(""" ++ [233]%N ++ runes_of_ascii "t" ++ [233]%N ++ runes_of_ascii """
)
repeat
    x_y_z
{ u16
len 
`say ""hi""`
,
},@tag(

    007 
) @leftPad

    ( 
'0'  // @lengthOf(

	)
match

options1
	as float { [ ""CRC32""	,  ""CRC32""] :x_y_z
    ,

    0 :

tag

    255 : Logon
,	//	t
	  42	:  string_ }	// c

,
repeat

zchar[ 007] 
u,

    T{ 	 //x
	char[]	asx
    ,

    match trueish
    as
    A
	{""1""
: tag ,  [
	""{,}"" ,
7
]  : Logon

,
	4294967296	:	calculatedFrom
	, ""it's"" :
uint8x ,

}

    ,

}
,@leftPad
    ( )	match

x_y_z 
as
Packet {[  """ ++ [28040; 24687]%N ++ runes_of_ascii """, 
4294967296 ] :
int
, }

    , char[]

int @calculatedFrom(	""\" ++ [233]%N ++ runes_of_ascii """

    ) 	 //	t
      `" ++ [233]%N ++ runes_of_ascii "` ,
}
")).
Eval vm_compute in ("<<<M3566>>>" ++ check (runes_of_ascii "//	t
MetaData i8i8 {
    char packetx `
        `,
    char[] Header `" ++ [233]%N ++ runes_of_ascii "`,
    u32 options1,
    Header i8i8 `two words`,
}

root packet Header {
    match falsey as pack {
        // c
        ""CRC32"" : crc,
    },
    o rootA,
    match rootA as u {
        [255, ""\n""] : metadata,
        42 : uint8x,
        [""" ++ [128512]%N ++ runes_of_ascii """] : float,
        // " ++ [128512]%N ++ runes_of_ascii " emoji
        ""\n"" : u,
        3 : MetaDataX,
    },
    @leftPad('\x00')
    float64 Packet @calculatedFrom(""abc"") `say ""hi""`,
    repeat u8x,
    @lengthOf(msg_type)
    uint8x {
        packetx repeatCount,
        asx @calculatedFrom(""x y""),
        zchar[007] u `say ""hi""`,
    },
    repeat i16 calculatedFrom `
        `,
    int16 T @calculatedFrom(""a	b""),
    @rightPad()
    char[00] Foo @lengthOf(pack) `tab	here`,
    uint8x `" ++ [28040; 24687; 31867; 22411]%N ++ runes_of_ascii "`,
}

options {
    x_y_z = 255;
    metadata = ""CRC32"";
    leftPad = ""{,}"";
    u128 = true
    tag = string;
}

root packet x_y_z {
    @lengthOf(body)
    int32 Z9_ @calculatedFrom(""{,}"") `" ++ [28040; 24687; 31867; 22411]%N ++ runes_of_ascii "`,
}")).
Eval vm_compute in ("<<<M3677>>>" ++ check (runes_of_ascii "

  packet  i8i8{

@leftPad  
      // c
	( 	 // " ++ [128512]%N ++ runes_of_ascii " emoji
	'0'
	    // @lengthOf(

	)
i16
    int, 
@calculatedFrom(""\n""
	) crc

@calculatedFrom(
""abc"" //	t
		)
    , 
	// packet A { u8 x, }
	int16

    trueish `it's`,// trailing space 
	@rightPad
( ' '  ) 
@tag(3

    )

@calculatedFrom(

    """"

) 
pack	{

i64_
falsey ,	i8i8
repeatCount 
,  repeat u16
    pack ,
u128
    //x
    	// " ++ [27880; 37322]%N ++ runes_of_ascii "
  @calculatedFrom(

    ""it's""
)
`" ++ [233]%N ++ runes_of_ascii "` 
,}

,
@calculatedFrom( 
""1"" 
)	match
	i64_

as  a1
{

    42 
: MetaDataX,	[ 
""{,}""

, ""abc"" 
,	""`tick`""
, 10

]:asx	, 	 //
65535 :
string_
}//x
,
    @calculatedFrom( """ ++ [128512]%N ++ runes_of_ascii """  )@lengthOf(_x ) @rightPad	(' '
)

    x{ 	 // packet A { u8 x, }
  f32 tag

    @lengthOf(  calculatedFrom )  ,
u32
    Logon`" ++ [28040; 24687; 31867; 22411]%N ++ runes_of_ascii "` ,

},  @lengthOf(// " ++ [128512]%N ++ runes_of_ascii " emoji
  zchar

    )
Packet  matchKey, 
@leftPad  /// triple
    ('0'
    )	f32 
charz`
`	//x
	,
	@rightPad ('0') char[
3

]

stringy  `tab	here` ,

}")).
Eval vm_compute in ("<<<M1084>>>" ++ check (runes_of_ascii "packet
lengthOf { crc @calculatedFrom(
"""" )  `two words` , @lengthOf(crc )
    // c
    @calculatedFrom( ""x y""
    ) u16 Logon
`line1
line2`
    ,
    } MetaData u128{ } packet
len {  match
    options1 as pack { 00
: BodyLength, }, @calculatedFrom( ""a	b""
) asx Z9_ `` , @rightPad	( ) u32 calculatedFrom @lengthOf( asx)`doc`
    , @calculatedFrom(
    """ ++ [28040; 24687]%N ++ runes_of_ascii """	)uint8x , repeat zchar[ // " ++ [128512]%N ++ runes_of_ascii " emoji
007 ]u128 ,
    stringy { repeat zchar[ 3 ] A
, repeat i64 o/// triple
`` ,
f32// @lengthOf(
packetx
    @calculatedFrom( ""\" ++ [233]%N ++ runes_of_ascii """ ) , packetx charz ,	}, match int as Z9_ { ""a\\"" :	crc
// " ++ [128512]%N ++ runes_of_ascii " emoji
// " ++ [128512]%N ++ runes_of_ascii " emoji
, """"
    /// triple
    : trueish , [00 , ""\" ++ [233]%N ++ runes_of_ascii """  , 4294967296 ] : Packet
,}
    ,
/// triple
// packet A { u8 x, }
u8
// packet A { u8 x, }
/// triple
msg_type
// @lengthOf(
//
@lengthOf(i64_ ) ,} root packet A{BodyLength @lengthOf( stringy ) ,
    rootA
As ,
repeat BodyLength options1	`a\` ,}")).
Eval vm_compute in ("<<<M721>>>" ++ check (runes_of_ascii "
packet a1 { @lengthOf( packetx ) A @lengthOf( T ) `tab	here`,zchar[// " ++ [128512]%N ++ runes_of_ascii " emoji
42
    //x
    ] Header, // " ++ [128512]%N ++ runes_of_ascii " emoji
@leftPad ( '0'
)
    match
o
as int
    { 1 :
    Logon ,} //x
, repeat// trailing space 
packetx `line1
line2` ,string x
    @calculatedFrom(
    ""CRC32"" )
, i8 repeatCount
    `// not a comment` , match i64_ // a // b
as x_y_z
{
    3
:
len , 4294967296
    : u8x
00	: crc
,[ 10,
007 ,3, 00
/// triple
// " ++ [27880; 37322]%N ++ runes_of_ascii "
,""" ++ [128512]%N ++ runes_of_ascii """ , 0123456789,0123456789	] : tag	,	42  :
// packet A { u8 x, }
//
repeatCount , }
, @lengthOf( f32a
    ) @lengthOf(
    stringy ) @calculatedFrom( ""\" ++ [233]%N ++ runes_of_ascii """
)
    repeat i64 As// trailing space 
,	@rightPad (
    ) repeat  leftPad {
uint32 crc
    @calculatedFrom( """ ++ [233]%N ++ runes_of_ascii "t" ++ [233]%N ++ runes_of_ascii """) ,  }
    , } MetaData Pad {  As
pack ,
    } root packet len{@calculatedFrom(  ""\" ++ [233]%N ++ runes_of_ascii """
) int64 a1@calculatedFrom( ""CRC32"" )// `tick` ""quote"" 'q'
,
}
// c
")).
Eval vm_compute in ("<<<M3997>>>" ++ check (runes_of_ascii "root

    packet

x
	{ 
f32

    uint8x@calculatedFrom( 
""it's""
	),

@calculatedFrom(	""CRC32"")
    uint8x 

// packet A { u8 x, }
// c
`line1
line2` ,
    match 
// packet A { u8 x, }
	uint8x	as
	falsey{

0: chars	""" ++ [128512]%N ++ runes_of_ascii """	// packet A { u8 x, }
		: roots,
	0123456789 :stringy
,
""x y""  :Logon
,
}  ,
    } 
packet	metadata	{ 
match	calculatedFrom
as
	repeatCount // c
  {
    ""it's""
:
    calculatedFrom
4294967296:
int
	, }

    ,  string

packetx,
match

T	// " ++ [128512]%N ++ runes_of_ascii " emoji

as

pack
{ 
// `tick` ""quote"" 'q'

// packet A { u8 x, }
    ""it's""
    :
//
    Z9_ ,

    00
:
    Packet 
,""""  :
    leftPad  ,
    [	65535
]:pack ,  }	,
}
	// " ++ [128512]%N ++ runes_of_ascii " emoji
      MetaData zchar{

Logon
	uint8x`" ++ [233]%N ++ runes_of_ascii "` 
,
    stringy
leftPad ,
	char[]  // packet A { u8 x, }
    As  `" ++ [28040; 24687; 31867; 22411]%N ++ runes_of_ascii "`	,

_x

trueish `two words`
    ,
	u8
o
`
`
, }
")).
Eval vm_compute in ("<<<M1071>>>" ++ check (runes_of_ascii "packet BodyLength {@calculatedFrom( ""1""
)@tag( 10
)
    @lengthOf(
Pad
) char[0123456789  ] asx `" ++ [233]%N ++ runes_of_ascii "`
    ,	char[]	msg_type
    @calculatedFrom(
""""	) , @tag(
4294967296 )repeat a1 {char[ 007
// c
//x
]
Logon
`crlf
line`,
    // a // b
    u32
    trueish `u8 x,` ,
match	Z9_	as body {
""1"" :	Packet, 0 :
x, } ,int16 options1 `" ++ [233]%N ++ runes_of_ascii "`
, }
    , }options
{ rootA = true ; // @lengthOf(
uint8x =
' ' matchKey
= char[]
    ; stringy = ' '  options1 = 4294967296 } options {stringy = true
chars =
    ' ' }packet T { string Pad @calculatedFrom( ""\" ++ [233]%N ++ runes_of_ascii """
    ) , //	t
repeat
MetaDataX{repeat
    u32 // `tick` ""quote"" 'q'
body `line1
line2` ,string crc
@lengthOf(
// trailing space 
// " ++ [27880; 37322]%N ++ runes_of_ascii "
As
) `" ++ [28040; 24687; 31867; 22411]%N ++ runes_of_ascii "`
    , } , /// triple
repeat
// c
// trailing space 
float32 Header
    `a\` , float`a\`  , }")).
Eval vm_compute in ("<<<M573>>>" ++ check (runes_of_ascii "packet pack
    // `tick` ""quote"" 'q'
    {@lengthOf(
charz ) repeat
int64 x_y_z  , @calculatedFrom(  ""abc"" )Z9_ //	t
{ options1@lengthOf( i64_ ) , string stringy `tab	here` , } , @rightPad ( ) chars	uint8x
`" ++ [233]%N ++ runes_of_ascii "` ,@tag(1)match
asx as string_{	00	:
    Header, [
// c
// c
42, 1 ,
    ""\" ++ [233]%N ++ runes_of_ascii """ , """ ++ [233]%N ++ runes_of_ascii "t" ++ [233]%N ++ runes_of_ascii """ , 255,
    """ ++ [128512]%N ++ runes_of_ascii """
    // " ++ [27880; 37322]%N ++ runes_of_ascii "
    ] : chars , // trailing space 
""" ++ [28040; 24687]%N ++ runes_of_ascii """
:rootA	[ 0123456789 , 4294967296 ,
""x y""
,
7 ,""\" ++ [233]%N ++ runes_of_ascii """ , 10
    ,""{,}""
    ,
1
    //
    ] :lengthOf ,	} ,
@calculatedFrom(
    ""packet"" )zchar[
65535	]Foo
`two words`,repeat// " ++ [128512]%N ++ runes_of_ascii " emoji
zchar[// " ++ [128512]%N ++ runes_of_ascii " emoji
255
    ] msg_type
    ,
@lengthOf(
rootA) char x // a // b
@lengthOf( x_y_z )
, @tag(	255
) @calculatedFrom( ""{,}""
) int64 Packet
// @lengthOf(
// trailing space 
`
` ,
Foo  , }")).
Eval vm_compute in ("<<<M592>>>" ++ check (runes_of_ascii "options
{ len=int8 /// triple
Header
= '0' ; } packet
options1 { @calculatedFrom( ""{,}"" ) repeat//
body , } packet uint8x {  repeat int8 f32a
,} packet	As {
    match	u128 as
    o { 0  :
    len ,
    // c
    }, @calculatedFrom( """" )  zchar // @lengthOf(
As , zchar[00] u8x	, @lengthOf(u8x )match	stringy as o
    { [
    ""1"" , ""\" ++ [233]%N ++ runes_of_ascii """ ]// " ++ [128512]%N ++ runes_of_ascii " emoji
: repeatCount ,  [ 7,
    // " ++ [27880; 37322]%N ++ runes_of_ascii "
    3
, ""1""
, 007
, ""\n"" , 0]
    : metadata,//	t
""it's"" : o
,  00
    : roots
, 4294967296 :
    uint8x  , } , @calculatedFrom(""it's""
)
@tag(3 ) int @lengthOf( int ) , char[] asx @calculatedFrom( ""a\""b"" ) `a\` , int16	charz,
    //	t
    string x_y_z@lengthOf( int	) `a\`
    , i64 o
,} root
    packet zchar { }
")).
Eval vm_compute in ("<<<M983>>>" ++ check (runes_of_ascii "packet
    // c
    i64_{ @calculatedFrom( ""it's""
    )// @lengthOf(
leftPad@lengthOf( repeatCount
    // " ++ [128512]%N ++ runes_of_ascii " emoji
    ) ,// `tick` ""quote"" 'q'
@tag( 00)int32 leftPad ,
    f64 float
,
@calculatedFrom(
""" ++ [233]%N ++ runes_of_ascii "t" ++ [233]%N ++ runes_of_ascii """ )
@calculatedFrom( ""{,}"")
match
falsey
as u {
3 : // trailing space 
chars	3//	t
:  repeatCount ,} , @calculatedFrom( """ ++ [128512]%N ++ runes_of_ascii """ ) char[ 10 ] x,
    char falsey @calculatedFrom( ""a\\"" )
,
// " ++ [27880; 37322]%N ++ runes_of_ascii "
// trailing space 
@tag(
    0123456789	) @rightPad( '\x00'
)
    zchar[ // " ++ [27880; 37322]%N ++ runes_of_ascii "
1 ] pack `say ""hi""`	, } packet
i64_{ zchar[  007 ] falsey `tab	here`  , } root packet
// a // b
// c
body {} packet roots{
}packet
x {
    string asx @lengthOf(string_
)
    //x
    ,	}
")).
Eval vm_compute in ("<<<M654>>>" ++ check (runes_of_ascii "options
    //	t
    { lengthOf
= ""a\""b""
    A =
    // packet A { u8 x, }
    false ; repeatCount=
7 ;body =// a // b
true ; } packet roots { string f32a ,} root packet crc{@rightPad
    ( '0' ) zchar[
42 ] zchar	@calculatedFrom(""abc"" )
    `// not a comment`,f32 x_y_z
,
repeat  packetx
    `u8 x,` //x
, @lengthOf(
tag
    ) f64	u8x `` , char[] options1//	t
, @lengthOf( matchKey	)
Logon @calculatedFrom(""{,}"" )
    `" ++ [28040; 24687; 31867; 22411]%N ++ runes_of_ascii "` , }
root packet
falsey { match // @lengthOf(
matchKey as asx{ ""\" ++ [233]%N ++ runes_of_ascii """:
i64_ [ 4294967296 , ""a\\"" ] : falsey [
3
    , 7,
    ""// no comment"" ,7 , ""CRC32"" , 0 ,
""// no comment""
    ,0 ] :
zchar
, },
}")).
Eval vm_compute in ("<<<M1135>>>" ++ check (runes_of_ascii "packet falsey { @leftPad
()
zchar[ 1 ]f32a,	_x // a // b
{ int32 u128 , rootA
, } , @rightPad
    ( '\x00' )
    // " ++ [27880; 37322]%N ++ runes_of_ascii "
    char matchKey	, @lengthOf( As )
match pack as
BodyLength
    {
    ""1""
:tag,[ 65535 ]
    :
msg_type
,
    [ ""`tick`"" ]: falsey ,
""// no comment"" : u128 ,} , // " ++ [128512]%N ++ runes_of_ascii " emoji
match len  as Z9_ {[
    ""a	b""
    , 10  ]:
    Foo, 255: int , 0123456789 : tag
,
1
    /// triple
    : metadata ,[
00 ,
4294967296 ,
    """ ++ [28040; 24687]%N ++ runes_of_ascii """ ] : //	t
roots ,
    [ 42	,4294967296 ,
10
    , 00 , 4294967296	]
: int  , } , @calculatedFrom( ""{,}""	)repeat _x // c
{tag // a // b
`doc` , }
    ,
    }
")).
Eval vm_compute in ("<<<M910>>>" ++ check (runes_of_ascii "packet repeatCount
    { match BodyLength as body{ 255: As ,	}	,_x @calculatedFrom(  ""x y"" ) `" ++ [233]%N ++ runes_of_ascii "` ,@calculatedFrom( ""1"" ) // @lengthOf(
repeat uint32 A , zchar[ 00 ] x_y_z
,  @rightPad (
'0' )@leftPad
( ' ' //x
) i32 lengthOf , repeat
// packet A { u8 x, }
//	t
i64 len `" ++ [28040; 24687; 31867; 22411]%N ++ runes_of_ascii "` ,
@calculatedFrom(""packet"" ) stringy
float , @calculatedFrom( ""{,}"" )
    repeat
    char[ 7
    ]u8x `two words`
,
    } options
    { int	=""a\""b"" ;
Header	=
    true; trueish = zchar[
00// packet A { u8 x, }
]; falsey = false ; Pad =
//	t
// `tick` ""quote"" 'q'
zchar[
1 ] }//
packet T{ }
")).
Eval vm_compute in ("<<<M4447>>>" ++ check (runes_of_ascii "options {
    T = ""x y"";
}

packet Z9_ {
    @leftPad('0')
    int16 Header @calculatedFrom(""1""),
    options1 @lengthOf(u8x) `// not a comment`,
    @calculatedFrom(""// no comment"")
    @lengthOf(pack)
    Header {
        i32 u `{ , }`,
        _x,
        char[7] crc @lengthOf(i64_),
    },// `tick` ""quote"" 'q'
    float @lengthOf(roots) `it's`,
}

packet stringy {
    @rightPad('\x00')
    @rightPad('0')
    @calculatedFrom(""" ++ [28040; 24687]%N ++ runes_of_ascii """)
    string a1,
    f32 uint8x @lengthOf(charz) `two words`,
    int32 x_y_z @lengthOf(string_),
}")).
Eval vm_compute in ("<<<M976>>>" ++ check (runes_of_ascii "root packet uint8x{ @tag( 7 ) @leftPad ( ) // a // b
repeat Logon {  chars @calculatedFrom( /// triple
""x y""  )	`tab	here`
    //x
    ,
match falsey
// `tick` ""quote"" 'q'
// c
as uint8x { 7
    :
Logon,[ ""\n""
,42
    // trailing space 
    ]
:repeatCount ,
10 : x , """ ++ [28040; 24687]%N ++ runes_of_ascii """
    :i64_ , // c
}
    ,u128
    @calculatedFrom( ""a	b"") `crlf
line`  ,  }
// " ++ [27880; 37322]%N ++ runes_of_ascii "
// `tick` ""quote"" 'q'
,
    } packet charz
    //x
    { @lengthOf( Packet)
    // " ++ [27880; 37322]%N ++ runes_of_ascii "
    i64 // trailing space 
lengthOf
`tab	here` ,/// triple
}")).
Eval vm_compute in ("<<<M3595>>>" ++ check (runes_of_ascii "

  root packet
	o{ } packet	T {zchar[
	4294967296]asx
`say ""hi""`,  } MetaData
f32a
{
f64
    MetaDataX`say ""hi""` 
      // packet A { u8 x, }

,

    x_y_z rootA
	`doc` , //	t
      u32  repeatCount 
/// triple
		,

string
T
,u8x
    u 
`doc` 
, }options

{
x_y_z=
    0 }// packet A { u8 x, }
      root packet  // c
	MetaDataX
{@calculatedFrom(
""abc""
	)
	@calculatedFrom(""" ++ [128512]%N ++ runes_of_ascii """
)
    @tag(
	3

    ) 
charz
@lengthOf(

    Packet)	`line1
line2`
    , }/// triple
")).
Eval vm_compute in ("<<<M384>>>" ++ check (runes_of_ascii "packet f32a { } packet trueish
{ @rightPad
// " ++ [27880; 37322]%N ++ runes_of_ascii "
// c
( ) rootA
@lengthOf(	Pad
    )
,@tag(
0 ) Logon @lengthOf(	trueish	) , As
    `
`,
repeat int8
    // " ++ [128512]%N ++ runes_of_ascii " emoji
    Logon,
@tag( 255
) // `tick` ""quote"" 'q'
char
    A ,i64
Header , match  Z9_
as falsey {
65535: x_y_z""CRC32"": // c
float	,}  , i8 len , @tag(  7 ) // `tick` ""quote"" 'q'
repeat rootA x_y_z
,
@tag(
    00) zchar[ 007 // " ++ [128512]%N ++ runes_of_ascii " emoji
] x_y_z`a\`  , } MetaData roots  { } // `tick` ""quote"" 'q'")).
Eval vm_compute in ("<<<M844>>>" ++ check (runes_of_ascii "packet
u128	{ string MetaDataX
@lengthOf(
matchKey ) , @lengthOf( calculatedFrom )
// " ++ [128512]%N ++ runes_of_ascii " emoji
// " ++ [128512]%N ++ runes_of_ascii " emoji
string // packet A { u8 x, }
uint8x `it's` , As @calculatedFrom(	""" ++ [233]%N ++ runes_of_ascii "t" ++ [233]%N ++ runes_of_ascii """)
    ,
} MetaData repeatCount{
    // c
    zchar[
    7 ]	msg_type // " ++ [128512]%N ++ runes_of_ascii " emoji
,// @lengthOf(
string trueish,u
As`doc`  ,
zchar
T	, string roots// c
`doc`,
} root packet o //
{repeat zchar[ 007
// a // b
//x
] u8x , repeat	char[4294967296 ]
    x ,u8x
    `{ , }` , }")).
Eval vm_compute in ("<<<M455>>>" ++ check (runes_of_ascii "root packet
// " ++ [27880; 37322]%N ++ runes_of_ascii "
// c
Pad { @leftPad ( '\x00') @leftPad ( ' ' )
    calculatedFrom
    // packet A { u8 x, }
    rootA `it's` , T`line1
line2` ,
    match pack as  int{
    //
    0: x_y_z [""1"", 0 ,10
// c
//
,
""" ++ [128512]%N ++ runes_of_ascii """
,
    65535 ,""CRC32"" ,
7] : string_ , [ 255  , ""abc""	, ""CRC32"", ""abc""
    ]: i8i8 10 :
Z9_
    , // " ++ [128512]%N ++ runes_of_ascii " emoji
}
    ,
    } options { }	MetaData T { //x
u uint8x,string_ _x , uint16 body`doc`
, uint32 tag `a\` , }")).
Eval vm_compute in ("<<<M3987>>>" ++ check (runes_of_ascii "packet roots {
}

packet metadata {
    @lengthOf(u)
    @tag(00)
    @lengthOf(Pad)
    T @lengthOf(pack),
    @rightPad('0')
    lengthOf,
    @lengthOf(u)
    char[] A,
    match Packet as a1 {
        007 : leftPad,
        65535 : msg_type,
        ""a\\"" : Z9_,
        """ ++ [233]%N ++ runes_of_ascii "t" ++ [233]%N ++ runes_of_ascii """ : A,
        ""// no comment"" : x_y_z,
        4294967296 : a1,
        /// triple
    },
    f32 T,
    f64 roots @lengthOf(int),
}")).
Eval vm_compute in ("<<<M818>>>" ++ check (runes_of_ascii "packet	lengthOf
{@calculatedFrom( ""a	b"" )
    char[]charz @calculatedFrom(	""`tick`"")
    `{ , }`
, } MetaData lengthOf {}  options
    { o =
    char[];
// `tick` ""quote"" 'q'
// trailing space 
}	packet o
{repeat repeatCount {repeat
    i8 Header `tab	here`
    ,
//
// packet A { u8 x, }
x_y_z rootA
`doc` , }, zchar[  65535
] _x `
` , @leftPad (
    '\x00'
) i32  options1 `crlf
line`
, }")).
Eval vm_compute in ("<<<M3498>>>" ++ check (runes_of_ascii "options {
    LittleEndian = false;
    StringPrefixLenType = u32;
    ArrayPrefixLenType = u16;
}
packet Party {
    @leftPad('0') char[12] Ref,
    repeat char[6] x,
}
packet Logon {
    uint32 clOrdID,
    Party,
}
root packet Ack {
    zchar[2] f1,
    u32 seqNo,
    u32 Side2 @lengthOf(Body),
    match seqNo as Body {
        43 : Logon,
        93 : Party,
    },
}
")).
Eval vm_compute in ("<<<M116>>>" ++ check (runes_of_ascii "options//	t
{
BodyLength
    = ""{,}"" tag	=
    ""// no comment"" ; } options {
    charz
= '\x00' ; // a // b
repeatCount
= 255// c
; _x
=
    """ ++ [128512]%N ++ runes_of_ascii """
    ; Foo= '0'	a1 ='0'
//x
//
}root packet falsey { i64 packetx@lengthOf( Header//	t
)`" ++ [28040; 24687; 31867; 22411]%N ++ runes_of_ascii "` ,
len @lengthOf( roots )
`a\` , zchar	@lengthOf( MetaDataX
    //x
    )
    `line1
line2`
    , } // packet A { u8 x, }")).
Eval vm_compute in ("<<<M4405>>>" ++ check (runes_of_ascii "MetaData zchar {
    packetx calculatedFrom `doc`,
    zchar[3] Z9_,
    char[65535] i64_,
    u64 lengthOf `
        `,
    zchar[00] Pad `{ , }`,
    A lengthOf `two words`,
}

MetaData BodyLength {
    char[3] u128,
    string MetaDataX,
    u8x i64_ `u8 x,`,
}

MetaData chars {
    string Logon `{ , }`,
    char[10] u,
    len repeatCount,
}")).
Eval vm_compute in ("<<<M45>>>" ++ check (runes_of_ascii "
packet stringy
{	falsey @lengthOf( MetaDataX )`crlf
line`
,match tag as uint8x{
""a\""b"" : charz
    , 00 :
    repeatCount , 10
: Header
    ""a	b""
    /// triple
    : Pad
,65535
    :
metadata
    ,
},
    @calculatedFrom( ""a\""b""
    )
    //x
    char[
    255 ]falsey , x_y_z
@calculatedFrom(  ""packet"")
    `tab	here` , }
")).
Eval vm_compute in ("<<<M4207>>>" ++ check (runes_of_ascii "packet trueish {
    pack @lengthOf(uint8x),
    A @calculatedFrom(""CRC32"") `say ""hi""`,
    repeat A {
        /// triple
        body `" ++ [28040; 24687; 31867; 22411]%N ++ runes_of_ascii "`,
        a1 body,
        o @calculatedFrom(""a	b""),
        repeat MetaDataX,
    },
    @rightPad()
    match o as metadata {
        65535 : _x,
        ""\" ++ [233]%N ++ runes_of_ascii """ : pack,
    },
}")).
Eval vm_compute in ("<<<M1467>>>" ++ check (runes_of_ascii "root packet Foo // " ++ [128512]%N ++ runes_of_ascii " emoji
{ } options {
    // a // b
    tag // `tick` ""quote"" 'q'
= //	t
""""
    ; @calculatedFrom( = zchar[0  ] }
MetaData
    int {zchar[ 10]
lengthOf	`` , i64 u8x`// not a comment` ,MetaDataX pack// `tick` ""quote"" 'q'
`crlf
line`
, Logon charz `crlf
line`
    ,
    // a // b
    }
")).
Eval vm_compute in ("<<<M4261>>>" ++ check (runes_of_ascii "packet repeatCount {
    @tag(7)
    int16 crc,
    zchar[007] a1 @lengthOf(falsey),
    repeat char[] Packet,
    o,
}

packet crc {
    @rightPad('\x00')
    @rightPad('0')
    i64 A,
    match stringy as o {
        4294967296 : chars,
    },
    body int,
    @calculatedFrom(""\n"")
    Packet,
}")).
Eval vm_compute in ("<<<M1522>>>" ++ check (runes_of_ascii "root packet Foo // " ++ [128512]%N ++ runes_of_ascii " emoji
{ } options {
    // a // b
    tag // `tick` ""quote"" 'q'
= //	t
""""
    ; u8x = zchar[0  ] }
MetaData
    int {zchar[ 10 i16
lengthOf	`` , i64 u8x`// not a comment` ,MetaDataX pack// `tick` ""quote"" 'q'
`crlf
line`
, Logon charz `crlf
line`
    ,
    // a // b
    }
")).
Eval vm_compute in ("<<<M1447>>>" ++ check (runes_of_ascii "root packet Foo // " ++ [128512]%N ++ runes_of_ascii " emoji
{ } options {
    // a // b
    true // `tick` ""quote"" 'q'
= //	t
""""
    ; u8x = zchar[0  ] }
MetaData
    int {zchar[ 10]
lengthOf	`` , i64 u8x`// not a comment` ,MetaDataX pack// `tick` ""quote"" 'q'
`crlf
line`
, Logon charz `crlf
line`
    ,
    // a // b
    }
")).
Eval vm_compute in ("<<<M1492>>>" ++ check (runes_of_ascii "root packet Foo // " ++ [128512]%N ++ runes_of_ascii " emoji
{ } options {
    // a // b
    tag // `tick` ""quote"" 'q'
= //	t
""""
    ; u8x = zchar[0  ] ,
MetaData
    int {zchar[ 10]
lengthOf	`` , i64 u8x`// not a comment` ,MetaDataX pack// `tick` ""quote"" 'q'
`crlf
line`
, Logon charz `crlf
line`
    ,
    // a // b
    }
")).
Eval vm_compute in ("<<<M1479>>>" ++ check (runes_of_ascii "root packet Foo // " ++ [128512]%N ++ runes_of_ascii " emoji
{ } options {
    // a // b
    tag // `tick` ""quote"" 'q'
= //	t
""""
    ; u8x = zchar[  ] }
MetaData
    int {zchar[ 10]
lengthOf	`` , i64 u8x`// not a comment` ,MetaDataX pack// `tick` ""quote"" 'q'
`crlf
line`
, Logon charz `crlf
line`
    ,
    // a // b
    }
")).
Eval vm_compute in ("<<<M192>>>" ++ check (runes_of_ascii "root
packet	i64_
    {
    }options{ chars
= char[
65535 ] body = ""abc""; u= ""`tick`"" trueish
='0' }options
{repeatCount= '\x00'
// " ++ [128512]%N ++ runes_of_ascii " emoji
/// triple
;
    f32a =""\n"" int
    /// triple
    = false Pad
= ""1""repeatCount =""// no comment""; }root packet string_
{i32 As `tab	here` , } // c")).
Eval vm_compute in ("<<<M1559>>>" ++ check (runes_of_ascii "root packet Foo // " ++ [128512]%N ++ runes_of_ascii " emoji
{ } options {
    // a // b
    tag // `tick` ""quote"" 'q'
= //	t
""""
    ; u8x = zchar[0  ] }
MetaData
    int {zchar[ 10]
lengthOf	`` , i64 u8x`// not a comment` , pack// `tick` ""quote"" 'q'
`crlf
line`
, Logon charz `crlf
line`
    ,
    // a // b
    }
")).
Eval vm_compute in ("<<<M522>>>" ++ check (runes_of_ascii "packet As{ // packet A { u8 x, }
repeatCount @lengthOf( Pad )`" ++ [28040; 24687; 31867; 22411]%N ++ runes_of_ascii "`, // c
}MetaData uint8x { char[
    3 ] o`say ""hi""`, uint16 A, leftPad
    matchKey ,char[] As `line1
line2`	, u32 string_ ,/// triple
metadata len , } packet
    options1 {metadata	options1// " ++ [27880; 37322]%N ++ runes_of_ascii "
,
}
")).
Eval vm_compute in ("<<<M3787>>>" ++ check (runes_of_ascii "

  root 

    //	t
    	packet
    Logon//
{
    @tag(  0123456789  )	@leftPad( ' ')
Packet	{	o  @calculatedFrom(""a	b"" ) `tab	here`
, }

,
repeat
leftPad

i8i8 `line1
line2`
,
i64
calculatedFrom , float32  stringy @calculatedFrom(""`tick`"" )

    , 
}

")).
Eval vm_compute in ("<<<M3631>>>" ++ check (runes_of_ascii "

  packet  MetaDataX

{
match
Header	as 	 // a // b
	  zchar {0
	:
	pack
    [	42
        // packet A { u8 x, }
	  // c
    	, 65535 ] :

crc
},  // @lengthOf(
@tag( 
1 
)
    @rightPad(	' ' 	 // " ++ [27880; 37322]%N ++ runes_of_ascii "
	)
    int64
	Foo
,}  // packet A { u8 x, }
")).
Eval vm_compute in ("<<<M82>>>" ++ check (runes_of_ascii "packet
x { char matchKey
    @lengthOf( x_y_z ) //
, }packet	trueish  {
    @tag( 255
    )
char calculatedFrom @lengthOf( Header ) , }
    MetaData options1
    // trailing space 
    { }
packet MetaDataX {
    }
    packet trueish{	}")).
Eval vm_compute in ("<<<M181>>>" ++ check (runes_of_ascii "root
packet BodyLength {
//x
//	t
@rightPad( ' ') f32
_x @lengthOf( Header )
`" ++ [28040; 24687; 31867; 22411]%N ++ runes_of_ascii "`
, @lengthOf( crc )
    // a // b
    @tag(
    007
) char[]// c
a1
    ,  } packet metadata { Foo@calculatedFrom( ""\n""), char _x
// " ++ [27880; 37322]%N ++ runes_of_ascii "
//	t
, }
")).
Eval vm_compute in ("<<<M4025>>>" ++ check (runes_of_ascii "packet Foo {
}

options {
    // a // b
    tag = """";
    u8x = zchar[0]
}

MetaData int {
    zchar[10] lengthOf ``,
    i64 u8x `// not a comment`,
    MetaDataX pack `crlf
    line`,
    Logon charz `crlf
    line`,
}")).
Eval vm_compute in ("<<<M2278>>>" ++ check (runes_of_ascii "MetaData Packet { }packet	asx  { @lengthOf( asx) falsey`crlf
line`
,
    char[
    packet x	{uint32// @lengthOf(
rootA	,u32 options1 `say ""hi""` , @tag( 7
    )// packet A { u8 x, }
msg_type @lengthOf(
stringy	)	, }

")).
Eval vm_compute in ("<<<M737>>>" ++ check (runes_of_ascii "  MetaData x
{Foo Header , char[ 0123456789 ] len
,
int64 i64_, char[
    42 ] i8i8,i16 /// triple
pack , int64 u8x
    `it's` ,
    }	packet pack // @lengthOf(
{ @calculatedFrom( ""// no comment"" )len matchKey
,}
")).
Eval vm_compute in ("<<<M2282>>>" ++ check (runes_of_ascii "MetaData Packet { }packet	asx  { @lengthOf( asx) falsey`crlf
line`
,
    }
    x packet	{uint32// @lengthOf(
rootA	,u32 options1 `say ""hi""` , @tag( 7
    )// packet A { u8 x, }
msg_type @lengthOf(
stringy	)	, }

")).
Eval vm_compute in ("<<<M2325>>>" ++ check (runes_of_ascii "MetaData Packet { }packet	asx  { @lengthOf( asx) falsey`crlf
line`
,
    }
    packet x	{uint32// @lengthOf(
rootA	,u32 options1 `say ""hi""`  @tag( 7
    )// packet A { u8 x, }
msg_type @lengthOf(
stringy	)	, }

")).
Eval vm_compute in ("<<<M2330>>>" ++ check (runes_of_ascii "MetaData Packet { }packet	asx  { @lengthOf( asx) falsey`crlf
line`
,
    }
    packet x	{uint32// @lengthOf(
rootA	,u32 options1 `say ""hi""` ,  7
    )// packet A { u8 x, }
msg_type @lengthOf(
stringy	)	, }

")).
Eval vm_compute in ("<<<M3868>>>" ++ check (runes_of_ascii "MetaData string_ {
    len MetaDataX `
    `,
    char[] options1,
    u tag,
    options1 Z9_,
    x f32a `line1
    line2`,
    zchar[0123456789] pack,
}

packet _x {
    @leftPad()
    char[10] roots,
}")).
Eval vm_compute in ("<<<M2359>>>" ++ check (runes_of_ascii "MetaData Packet { }packet	asx  { @lengthOf( asx) falsey`crlf
line`
,
    }
    packet x	{uint32// @lengthOf(
rootA	,u32 options1 `say ""hi""` , @tag( 7
    )// packet A { u8 x, }
msg_type @lengthOf(")).
Eval vm_compute in ("<<<M4230>>>" ++ check (runes_of_ascii "// top
packet B {
    // c2a
    // c2b
    u8 a,
}// c6

root packet P {
    u8 K,// c13
    match K as Body {
        // c18
        1 : B,
    },
    u16 L @lengthOf(Body),// c30a
}// c31a")).
Eval vm_compute in ("<<<M3923>>>" ++ check (runes_of_ascii "packet A {
    Inner {
        match k as n {
            [
                1, 22, 007, 4, 5,
                66, 7, 8, 9, 10,
                11
            ] : B,
        },
    },
}")).
Eval vm_compute in ("<<<M1062>>>" ++ check (runes_of_ascii "packet body /// triple
{ float32
zchar @lengthOf(
    x_y_z ), u64
int @calculatedFrom(
// trailing space 
//
""abc"" ) //x
,
    // " ++ [27880; 37322]%N ++ runes_of_ascii "
    }
root packet u
    //x
    { }
")).
Eval vm_compute in ("<<<M1330>>>" ++ check (runes_of_ascii "packet len{	}//	t
root packet Pad {char[] Header	, @lengthOf(	falsey
    )
    // " ++ [128512]%N ++ runes_of_ascii " emoji
    char[] Header , len`line1
line2`
,} packet asx { repeat int16
    u , }
")).
Eval vm_compute in ("<<<M3887>>>" ++ check (runes_of_ascii "packet A {
    match k as n {
        [
            1, 007, 5, 7, 9,
            11, ""bb"", ""d"", ""f"", ""h"",
            ""j""
        ] : B,
        2 : C,
    },
}")).
Eval vm_compute in ("<<<M422>>>" ++ check (runes_of_ascii "options { chars = ""abc"" ;}
    packet string_
{uint8x
x_y_z ,string
Header`
` , } packet pack// a // b
{ Z9_
@lengthOf( chars
    ) /// triple
`" ++ [233]%N ++ runes_of_ascii "` ,}
")).
Eval vm_compute in ("<<<M4107>>>" ++ check (runes_of_ascii "packet lengthOf {
    @leftPad()
    @tag(7)
    u8 BodyLength,
    char[1] chars `
    `,
    @tag(00)
    char[0] Z9_ @lengthOf(float) `u8 x,`,
}")).
Eval vm_compute in ("<<<M3932>>>" ++ check (runes_of_ascii "root packet T {
}

MetaData msg_type {
    i64_ i64_,
}

root packet x_y_z {
}

MetaData crc {
    o zchar `line1
    line2`,
}

packet x {
}")).
Eval vm_compute in ("<<<M1508>>>" ++ check (runes_of_ascii "root packet Foo // " ++ [128512]%N ++ runes_of_ascii " emoji
{ } options {
    // a // b
    tag // `tick` ""quote"" 'q'
= //	t
""""
    ; u8x = zchar[0  ] }
MetaData
    int")).
Eval vm_compute in ("<<<M4262>>>" ++ check (runes_of_ascii "// c
    packet Logon
{	@tag( 42
) 
repeat
i64_	{As
crc
	, } ,
} packet x_y_z {

    @lengthOf( 
x_y_z
	)
    i8
	u

`it's`
,
}")).
Eval vm_compute in ("<<<M70>>>" ++ check (runes_of_ascii "MetaData f32a{uint8 // a // b
repeatCount, x_y_z i8i8, f32 msg_type , charz
lengthOf `tab	here`, char[	7
    ]chars,float  x ,
}
")).
Eval vm_compute in ("<<<M1639>>>" ++ check (runes_of_ascii "root packet /// triple
rootA i32	{
MetaDataX@calculatedFrom( ""CRC32"" ) `line1
line2` , } MetaData BodyLength {
u8
rootA, } // c")).
Eval vm_compute in ("<<<M3888>>>" ++ check (runes_of_ascii "packet

    Logon

{

@tag(	42) @rightPad
    (' '

    ) @leftPad()
repeat

    trueish
{ string T
	// c
    ,} , }
")).
Eval vm_compute in ("<<<M368>>>" ++ check (runes_of_ascii "MetaData Header
    {
    f64 lengthOf,zchar[ 7 ] zchar
// `tick` ""quote"" 'q'
// `tick` ""quote"" 'q'
`doc` ,
len
x_y_z
, } 	 ")).
Eval vm_compute in ("<<<M1796>>>" ++ check (runes_of_ascii "packet
    Pad // a // b
{ i8i8 i8i8 @calculatedFrom( ""a	b"") `u8 x,` ,
} options{ float// " ++ [128512]%N ++ runes_of_ascii " emoji
= f64 i64_
=//	t
00 }
")).
Eval vm_compute in ("<<<M4222>>>" ++ check (runes_of_ascii "  packet	Logon
{
    @tag( 42  ) @rightPad
(
	' ' )@leftPad

    (

) 
// c
	repeat
    trueish 
{string
	T 
,
	} ,	}
")).
Eval vm_compute in ("<<<M1881>>>" ++ check (runes_of_ascii "packet
    Pad // a // b
{ i8i8 @calculatedFrom( ""a	b"") `u8 x,` ,
} options{ float// " ++ [128512]%N ++ runes_of_ascii " emoji
= f64 i64_
/=//	t
00 }
")).
Eval vm_compute in ("<<<M1852>>>" ++ check (runes_of_ascii "packet
    Pad // a // b
{ i8i8 @calculatedFrom( ""a	b"") `u8 x,` ,
} options{ float// " ++ [128512]%N ++ runes_of_ascii " emoji
= i64_ f64
=//	t
00 }
")).
Eval vm_compute in ("<<<M1667>>>" ++ check (runes_of_ascii "root packet /// triple
rootA {	i32
MetaDataX@calculatedFrom( ""CRC32"" )  , } MetaData BodyLength {
u8
rootA, } // c")).
Eval vm_compute in ("<<<M1795>>>" ++ check (runes_of_ascii "packet
    Pad // a // b
{  @calculatedFrom( ""a	b"") `u8 x,` ,
} options{ float// " ++ [128512]%N ++ runes_of_ascii " emoji
= f64 i64_
=//	t
00 }
")).
Eval vm_compute in ("<<<M1830>>>" ++ check (runes_of_ascii "packet
    Pad // a // b
{ i8i8 @calculatedFrom( ""a	b"") `u8 x,` ,
} { float// " ++ [128512]%N ++ runes_of_ascii " emoji
= f64 i64_
=//	t
00 }
")).
Eval vm_compute in ("<<<M2986>>>" ++ check (runes_of_ascii "packet A {
  match k as n {
    [""a"", ""bb"", 007, ""d"", ""e"", 66, ""g"", ""h"", 9, ""j"", ""k""] : B,
    2 : C
  },
}")).
Eval vm_compute in ("<<<M3451>>>" ++ check (runes_of_ascii "options {
    LittleEndian = true;
}
root packet P {
    u16 a,
    u32 Sum @calculatedFrom(""CRC32""),
}
")).
Eval vm_compute in ("<<<M3359>>>" ++ check (runes_of_ascii "packet calculatedFrom { @tag( 4294967296 ) u msg_type , char[ 3 // c
] crc @lengthOf( len ) `u8 x,` , }")).
Eval vm_compute in ("<<<M2980>>>" ++ check (runes_of_ascii "packet A {
  match k as n {
    [1, ""bb"", 007, ""d"", 5, ""f"", 7, ""h"", 9, ""j"", 11] : B,
    2 : C
  },
}")).
Eval vm_compute in ("<<<M575>>>" ++ check (runes_of_ascii "// @lengthOf(
packet o/// triple
{string
pack
, // packet A { u8 x, }
trueish `" ++ [233]%N ++ runes_of_ascii "`, } /// triple")).
Eval vm_compute in ("<<<M777>>>" ++ check (runes_of_ascii "
options
    {	matchKey =
0 BodyLength =
uint64 ; pack  = ""1"" ;
    f32a = i64 Foo=
    ""a	b"" }")).
Eval vm_compute in ("<<<M3241>>>" ++ check (runes_of_ascii "packet Logon { @tag( 42 ) @rightPad ( ' ' ) @leftPad ( )
// c
repeat trueish { string T , } , }")).
Eval vm_compute in ("<<<M4470>>>" ++ check (runes_of_ascii "
packet
	crc

    { f32a
    @calculatedFrom(""" ++ [233]%N ++ runes_of_ascii "t" ++ [233]%N ++ runes_of_ascii """
    )
    `say ""hi""` 
,

lengthOf
`` ,}
")).
Eval vm_compute in ("<<<M4016>>>" ++ check (runes_of_ascii "packet  o{  @tag( 42
) repeat x

{

char[

0123456789]

i64_ ,} , // c
	}	options 
{
    }")).
Eval vm_compute in ("<<<M2935>>>" ++ check (runes_of_ascii "packet A {
  match k as n {
    [""a"", ""bb"", 007, ""d"", ""e"", 66, ""g""] : B
    2 : C
  },
}")).
Eval vm_compute in ("<<<M2034>>>" ++ check (runes_of_ascii "root
packet " ++ [233]%N ++ runes_of_ascii "crc
    { f32a @calculatedFrom( """ ++ [233]%N ++ runes_of_ascii "t" ++ [233]%N ++ runes_of_ascii """ )
    `say ""hi""`, lengthOf `` ,  }")).
Eval vm_compute in ("<<<M2945>>>" ++ check (runes_of_ascii "packet A {
  match k as n {
    [1, 22, ""c c"", 4, 5, ""f"", 7, 8] : B,
    2 : C
  },
}")).
Eval vm_compute in ("<<<M177>>>" ++ check (runes_of_ascii "MetaData Header
{ trueish u8x , zchar[ 42 ] Packet
    , char asx	,// @lengthOf(
}")).
Eval vm_compute in ("<<<M3300>>>" ++ check (runes_of_ascii "packet o { @tag( // c
42 ) repeat x { char[ 0123456789 ] i64_ , } , } options { }")).
Eval vm_compute in ("<<<M3480>>>" ++ check (runes_of_ascii "packet orderItem {
    u8 a,
}
root packet newOrder {
    orderItem,
    u8 x,
}
")).
Eval vm_compute in ("<<<M3427>>>" ++ check (runes_of_ascii "packet Inner {
    u8 a,
}
root packet P {
    repeat Inner items,
    u8 x,
}
")).
Eval vm_compute in ("<<<M2888>>>" ++ check (runes_of_ascii "packet A {
  match k as n {
    [""a"", ""bb"", ""c c"", ""d""] : B
    2 : C
  },
}")).
Eval vm_compute in ("<<<M41>>>" ++ check (runes_of_ascii "MetaData// " ++ [128512]%N ++ runes_of_ascii " emoji
charz
{zchar[
    42] packetx
    `crlf
line` , } 	 ")).
Eval vm_compute in ("<<<M2893>>>" ++ check (runes_of_ascii "packet A {
  match k as n {
    [1, 22, ""c c"", 4] : B,
    2 : C
  },
}")).
Eval vm_compute in ("<<<M3404>>>" ++ check (runes_of_ascii "MetaData _x { zchar[ 4294967296
// c
] lengthOf `// not a comment` , }")).
Eval vm_compute in ("<<<M1204>>>" ++ check (runes_of_ascii "packet
    tag
{ //
@tag(
    007)
@tag( 007 ) u T `it's`, }
// c
")).
Eval vm_compute in ("<<<M2717>>>" ++ check (runes_of_ascii "@leftPad options [ `doc` uint64 root { zchar[ { MetaData ; MetaData")).
Eval vm_compute in ("<<<M4379>>>" ++ check (runes_of_ascii "// `tick` ""quote"" 'q'
packet zchar {
    repeat char[1] f32a ``,
}")).
Eval vm_compute in ("<<<M496>>>" ++ check (runes_of_ascii "packet T{	}
root
packet crc // `tick` ""quote"" 'q'
{ u8 Z9_, }")).
Eval vm_compute in ("<<<M2726>>>" ++ check (runes_of_ascii "@lengthOf( i16 } i16 packet rootA = false packet , u32 """ ++ [28040; 24687]%N ++ runes_of_ascii """ {")).
Eval vm_compute in ("<<<M1933>>>" ++ check (runes_of_ascii "
packet	As { @calculatedFrom(//x
""{,}""	)lengthOf int64 } 	 ")).
Eval vm_compute in ("<<<M1936>>>" ++ check (runes_of_ascii "
packet	As { @calculatedFrom(//x
""{,}""	)lengthOf , } } 	 ")).
Eval vm_compute in ("<<<M4153>>>" ++ check (runes_of_ascii "MetaData M

    {  u8 x
`tab
	x` ,
	T t `tab
	x`	,	}
")).
Eval vm_compute in ("<<<M1739>>>" ++ check (runes_of_ascii "options options { }options {  } // `tick` ""quote"" 'q'")).
Eval vm_compute in ("<<<M4044>>>" ++ check (runes_of_ascii "
//
options  { options1 =	""a\""b""}
// @lengthOf(
 
")).
Eval vm_compute in ("<<<M1896>>>" ++ check (runes_of_ascii "
	As { @calculatedFrom(//x
""{,}""	)lengthOf , } 	 ")).
Eval vm_compute in ("<<<M195>>>" ++ check (runes_of_ascii "root
packet
// packet A { u8 x, }
//	t
Z9_ {
}
")).
Eval vm_compute in ("<<<M1772>>>" ++ check (runes_of_ascii "options { }options {  } // `tick` ""quote"" " ++ [65279]%N ++ runes_of_ascii "'q'")).
Eval vm_compute in ("<<<M3906>>>" ++ check (runes_of_ascii "

  packet
	A

    {  u8
    x `a

b` ,
}

")).
Eval vm_compute in ("<<<M3036>>>" ++ check (runes_of_ascii "MetaData M {
    u8 x `x
`,
    T t `x
`,
}")).
Eval vm_compute in ("<<<M2144>>>" ++ check (runes_of_ascii "Met'1'aData x
{// " ++ [128512]%N ++ runes_of_ascii " emoji
i16 stringy , }")).
Eval vm_compute in ("<<<M2376>>>" ++ check (runes_of_ascii "MetaData Packet { }packet	asx  { @length")).
Eval vm_compute in ("<<<M4499>>>" ++ check (runes_of_ascii "MetaData matchKey {
    Packet As `" ++ [233]%N ++ runes_of_ascii "`,
}")).
Eval vm_compute in ("<<<M2107>>>" ++ check (runes_of_ascii "MetaData {
x// " ++ [128512]%N ++ runes_of_ascii " emoji
i16 stringy , }")).
Eval vm_compute in ("<<<M2669>>>" ++ check (runes_of_ascii "options { a = 1; } options { a = 1; }")).
Eval vm_compute in ("<<<M1198>>>" ++ check (runes_of_ascii "// packet A { u8 x, }
options { }
")).
Eval vm_compute in ("<<<M3175>>>" ++ check (runes_of_ascii "packet A { @tag( // a
 1 ) u8 x, }")).
Eval vm_compute in ("<<<M3043>>>" ++ check (runes_of_ascii "root packet A {
    u8 x `
x`,
}")).
Eval vm_compute in ("<<<M1438>>>" ++ check (runes_of_ascii "root packet Foo // " ++ [128512]%N ++ runes_of_ascii " emoji
{ }")).
Eval vm_compute in ("<<<M4138>>>" ++ check (runes_of_ascii "

  /// triple
	options {

}

")).
Eval vm_compute in ("<<<M2822>>>" ++ check ([65533; 65533; 65533; 65533]%N ++ runes_of_ascii "
" ++ [65533; 4; 4]%N ++ runes_of_ascii "#" ++ [65533]%N ++ runes_of_ascii "OXy" ++ [65533; 65533; 65533; 29; 65533]%N ++ runes_of_ascii "%9 I*" ++ [65533; 65533; 597; 65533; 65533]%N)).
Eval vm_compute in ("<<<M445>>>" ++ check (runes_of_ascii "
options  { Z9_ =	'\x00'}")).
Eval vm_compute in ("<<<M2087>>>" ++ check (runes_of_ascii "MetaData A { /u64 pack, }")).
Eval vm_compute in ("<<<M1192>>>" ++ check (runes_of_ascii "options { Foo= ' ' ;  }
")).
Eval vm_compute in ("<<<M3387>>>" ++ check (runes_of_ascii "packet lengthOf {
// c
}")).
Eval vm_compute in ("<<<M1150>>>" ++ check (runes_of_ascii "/// triple
options{	}
")).
Eval vm_compute in ("<<<M2573>>>" ++ check (runes_of_ascii "packet A { x `d` y, }")).
Eval vm_compute in ("<<<M3922>>>" ++ check (runes_of_ascii "packet o 
{ //x
	}
")).
Eval vm_compute in ("<<<M585>>>" ++ check (runes_of_ascii "MetaData
float {}
")).
Eval vm_compute in ("<<<M3096>>>" ++ check (runes_of_ascii "packet A {
}
// c" ++ [8232]%N)).
Eval vm_compute in ("<<<M2630>>>" ++ check (runes_of_ascii "packet A { } root")).
Eval vm_compute in ("<<<M851>>>" ++ check (runes_of_ascii "packet chars {	}")).
Eval vm_compute in ("<<<M2720>>>" ++ check (runes_of_ascii "I/Ek^_AdRTyN""]*")).
Eval vm_compute in ("<<<M742>>>" ++ check (runes_of_ascii "packet Z9_{}")).
Eval vm_compute in ("<<<M2626>>>" ++ check (runes_of_ascii "packet { }")).
Eval vm_compute in ("<<<M323>>>" ++ check (runes_of_ascii "// c


")).
Eval vm_compute in ("<<<M2470>>>" ++ check (runes_of_ascii "'\x00'")).
Eval vm_compute in ("<<<M2519>>>" ++ check (runes_of_ascii "`a
b`")).
Eval vm_compute in ("<<<M2467>>>" ++ check (runes_of_ascii "ROOT")).
Eval vm_compute in ("<<<M2499>>>" ++ check (runes_of_ascii "//")).
Eval vm_compute in ("<<<M2504>>>" ++ check (runes_of_ascii """""")).
Eval vm_compute in ("<<<M2680>>>" ++ check (runes_of_ascii "")).
