From FP Require Import Lexer Parser ShowPT Digest.
From Coq Require Import String List NArith.
Import ListNotations.
Open Scope string_scope.
Set Printing Width 100000000.
Set Printing Depth 100000000.
Definition nl : string := String (Ascii.ascii_of_nat 10) EmptyString.
Definition model_lex (rs : list rune) : string := show_toks (lex rs).
Definition model_parse (rs : list rune) : string :=
  show_pt (match lex rs with Some ts => parse ts | None => None end).
(* coqc is slow at printing long strings: digests first (Digest.v), full texts on demand *)
Definition check (rs : list rune) : string :=
  digest (model_lex rs) ++ " " ++ digest (model_parse rs).
Definition full (rs : list rune) : string := model_lex rs ++ nl ++ model_parse rs.
Definition terms (ts : list tok) (t : pt) : string :=
  digest (show_toks (Some ts)) ++ " " ++ digest (show_pt (Some t)) ++ " " ++ digest (show_pt (parse ts)).
Definition terms_full (ts : list tok) (t : pt) : string :=
  show_toks (Some ts) ++ nl ++ show_pt (Some t) ++ nl ++ show_pt (parse ts).
Eval vm_compute in ("<<<M1>>>" ++ check (runes_of_ascii "// `tick` ""quote"" 'q'
packet a1 // " ++ [27880; 37322]%N ++ runes_of_ascii "
{ @calculatedFrom( ""abc"" )chars `" ++ [28040; 24687; 31867; 22411]%N ++ runes_of_ascii "` ,	match
    crc as
    metadata{ 65535 :
trueish ""\" ++ [233]%N ++ runes_of_ascii """
: charz
    // " ++ [27880; 37322]%N ++ runes_of_ascii "
    ,""abc""
: MetaDataX [ ""packet"" ,
    ""// no comment""
    // `tick` ""quote"" 'q'
    , 0 , 00
    // a // b
    , ""// no comment"" ,""{,}""
    // " ++ [128512]%N ++ runes_of_ascii " emoji
    , 00 ] : i64_ , """ ++ [233]%N ++ runes_of_ascii "t" ++ [233]%N ++ runes_of_ascii """	: f32a
    , [""" ++ [128512]%N ++ runes_of_ascii """ , ""it's"" // `tick` ""quote"" 'q'
] :
    Foo}// `tick` ""quote"" 'q'
, @rightPad(	' ' ) repeat	char[ 1 ]
body
    `" ++ [28040; 24687; 31867; 22411]%N ++ runes_of_ascii "` , @calculatedFrom(
    """ ++ [233]%N ++ runes_of_ascii "t" ++ [233]%N ++ runes_of_ascii """ ) repeat
options1 i64_
    , match roots
as T { [
0 ,
""x y""	]: uint8x ,""" ++ [128512]%N ++ runes_of_ascii """
    :
    packetx	""packet"":
uint8x,// packet A { u8 x, }
""a	b"" :lengthOf ,
4294967296 :
    repeatCount
, } , string options1@calculatedFrom( ""x y""	) ,int
    ,
    // c
    o @calculatedFrom( ""packet"" ) `say ""hi""` ,	int a1 ,string_ { char[]Logon`say ""hi""`
, repeat
float32
    trueish ,} , } options{  BodyLength
// @lengthOf(
//	t
= '0' ;body
= true
    ;  i8i8 =
""packet""
} packet
zchar
    {u16
Logon  `a\`
    /// triple
    , } packet u128{
    }
")).
Eval vm_compute in ("<<<M11>>>" ++ check (runes_of_ascii "  MetaData //	t
len { char[ 007 ] T
, }packet
    chars {
@tag( 0
)
char[] stringy @calculatedFrom( ""a\""b"" //x
) `" ++ [233]%N ++ runes_of_ascii "`	,@tag( // trailing space 
65535
)	repeat
o MetaDataX
,
    crc@lengthOf( i8i8 ),
@calculatedFrom(
/// triple
// `tick` ""quote"" 'q'
""x y""
    ) roots@lengthOf(packetx ) , @calculatedFrom(  ""1"" )
@lengthOf( Logon
) @lengthOf( x ) repeat
    T pack, @lengthOf( lengthOf)@tag(  42 ) i64 crc // c
@calculatedFrom( ""packet"" ) `
` ,
i8i8
    `` , }  packet len
    {
match u128	as string_ { 65535 :u128 ,
    }
, As ,
    Header ,// " ++ [27880; 37322]%N ++ runes_of_ascii "
@rightPad
('\x00'
)
    @leftPad
    (
    '\x00' ) asx
    {
    /// triple
    repeat
BodyLength { asx {	repeat
u32
    // @lengthOf(
    Header , repeat
    i64  i64_,
// 50% %s
// `tick` ""quote"" 'q'
match rootA as float
    // c
    { [ 007 , ""CRC32"",
    7 ,
""it's"" , 7	, 3 ] : x_y_z , 007 : pack , } , char[]
metadata @lengthOf( BodyLength )
// " ++ [128512]%N ++ runes_of_ascii " emoji
// `tick` ""quote"" 'q'
,}
,
repeat
    char[00
] u `{ , }` // " ++ [27880; 37322]%N ++ runes_of_ascii "
,  repeat
zchar[
    3 ]	tag ,repeat crc
    int `line1
line2` ,} ,// `tick` ""quote"" 'q'
char[255 ] asx @lengthOf(chars)  ,int64
Foo
    ``
, _x{ T
{ string_	`" ++ [28040; 24687; 31867; 22411]%N ++ runes_of_ascii "` , char[] chars
    , }, repeat
    a1 { repeatCount
@lengthOf( o )
,i64 leftPad
,	zchar[
255// `tick` ""quote"" 'q'
]  float@calculatedFrom(  ""\" ++ [233]%N ++ runes_of_ascii """
), repeat string i8i8
,
// trailing space 
// `tick` ""quote"" 'q'
}  ,}, } , @calculatedFrom(
""abc""
) repeat f32a trueish `u8 x,`	, match calculatedFrom as
// packet A { u8 x, }
// @lengthOf(
stringy { [ 1, 65535
    ]
:u , } , } packet options1
    {
string calculatedFrom// a // b
`" ++ [233]%N ++ runes_of_ascii "`// c
,
    @lengthOf( x_y_z
    ) zchar[0123456789]
x_y_z// trailing space 
@lengthOf(
falsey ) `a\`
    ,	}
")).
Eval vm_compute in ("<<<M21>>>" ++ check (runes_of_ascii "MetaData MetaDataX { zchar[0  ] calculatedFrom
    // trailing space 
    , float32/// triple
matchKey
    , string_
//x
// " ++ [128512]%N ++ runes_of_ascii " emoji
calculatedFrom,	int lengthOf,
    } 	 ")).
Eval vm_compute in ("<<<M31>>>" ++ check (runes_of_ascii "root
    packet body {
    @calculatedFrom( ""a	b""	) repeat
int32
zchar
, lengthOf body ,
@rightPad
( ' '
    )uint8x { u64  body , } , @tag( 1 )
@leftPad ( '0' ) @calculatedFrom( """ ++ [233]%N ++ runes_of_ascii "t" ++ [233]%N ++ runes_of_ascii """
)
    u64
x @calculatedFrom( """ ++ [128512]%N ++ runes_of_ascii """
// packet A { u8 x, }
//x
)
    , x
    , @lengthOf( u128 ) _x
    T `` //	t
, @rightPad	(
'0' )  i64// trailing space 
a1 , string
trueish @calculatedFrom( ""// no comment""
    ) `
`, }packet
    tag
{ } MetaData body { T u
    , string f32a  , f64
Packet ,
lengthOf Header `tab	here` ,
    }
// c
//
packet T // @lengthOf(
{
@leftPad( )chars	, @calculatedFrom( ""1""  )
@lengthOf( tag) @lengthOf( Foo ) match charz as chars
    { 42 :
    // packet A { u8 x, }
    uint8x , """ ++ [28040; 24687]%N ++ runes_of_ascii """ :o , 0123456789:
    lengthOf
,[
    ""a\\"" ,
""CRC32""
    , ""a	b"" ,""CRC32""	, 0
,""CRC32"" , ""a\\"", """" ] : T ""it's"" :
    tag } //x
, i8 roots, @lengthOf( float)
@tag(10)body { chars// trailing space 
{repeat
int8 body ,
}  , repeat
    Header {char[]
leftPad , } , /// triple
match Logon as
    // " ++ [128512]%N ++ runes_of_ascii " emoji
    zchar {
    4294967296
: len  , ""a\""b"" // trailing space 
: A 00:x_y_z ,  }
,//	t
repeat i16 options1,} ,
    }options { }
")).
Eval vm_compute in ("<<<M41>>>" ++ check (runes_of_ascii "root
packet uint8x {}root packet  Pad
{}")).
Eval vm_compute in ("<<<T41>>>" ++ terms [mkTok 34 "root" 1 0 false; mkTok 35 "packet" 2 0 false; mkTok 42 "uint8x" 2 7 false; mkTok 2 "{" 2 14 false; mkTok 3 "}" 2 15 false; mkTok 34 "root" 2 16 false; mkTok 35 "packet" 2 21 false; mkTok 42 "Pad" 2 29 false; mkTok 2 "{" 3 0 false; mkTok 3 "}" 3 1 false; mkTok 0 "<EOF>" 3 2 false] (mkPacket (mkPtok 34 "root" 1 0 0) (Some (mkPtok 3 "}" 3 1 9)) [(DPacket (mkPacketDef (mkSpan (mkPtok 34 "root" 1 0 0) (mkPtok 3 "}" 2 15 4)) (Some (mkPtok 34 "root" 1 0 0)) (mkPtok 35 "packet" 2 0 1) (mkPtok 42 "uint8x" 2 7 2) (mkPtok 2 "{" 2 14 3) [] (mkPtok 3 "}" 2 15 4))); (DPacket (mkPacketDef (mkSpan (mkPtok 34 "root" 2 16 5) (mkPtok 3 "}" 3 1 9)) (Some (mkPtok 34 "root" 2 16 5)) (mkPtok 35 "packet" 2 21 6) (mkPtok 42 "Pad" 2 29 7) (mkPtok 2 "{" 3 0 8) [] (mkPtok 3 "}" 3 1 9)))])).
Eval vm_compute in ("<<<M51>>>" ++ check (runes_of_ascii "MetaData
x_y_z
{zchar[ 3
    ] // c
body ,}
")).
Eval vm_compute in ("<<<M61>>>" ++ check (runes_of_ascii " // @lengthOf(")).
Eval vm_compute in ("<<<M71>>>" ++ check (runes_of_ascii "options { _x= 0123456789
;	a1
    // @lengthOf(
    =
'0'
    ; }")).
Eval vm_compute in ("<<<M81>>>" ++ check (runes_of_ascii "options {	Z9_ // packet A { u8 x, }
=	'0'charz
= 10 T =
// `tick` ""quote"" 'q'
//
""// no comment"" ; }
")).
Eval vm_compute in ("<<<M91>>>" ++ check (runes_of_ascii "root packet
f32a { i8i8 @lengthOf( BodyLength) `line1
line2` , /// triple
string_ _x , zchar
,  char rootA
,@rightPad()
// @lengthOf(
// 50% %s
@lengthOf(
charz//
)
    u128 `it's`, i16 uint8x// packet A { u8 x, }
@lengthOf(tag )	, char[]
string_, // a // b
@calculatedFrom(
""a\""b""  ) //x
@calculatedFrom( ""\" ++ [233]%N ++ runes_of_ascii """) @calculatedFrom( // " ++ [128512]%N ++ runes_of_ascii " emoji
""packet"")
repeat A
    { match uint8x
as metadata
{  [ 65535
    ,""\" ++ [233]%N ++ runes_of_ascii """,	3]
: MetaDataX , } , x
    {
    repeat crc Pad `crlf
line` ,
u32 string_ `tab	here`	,} , //
falsey	@lengthOf( x
// " ++ [27880; 37322]%N ++ runes_of_ascii "
/// triple
) , match // a // b
a1 as
calculatedFrom { [ 1 // 50% %s
, 4294967296 ,
""""
    , 7 ] : matchKey[ """" , ""`tick`"" ]: x ,
    // c
    ""abc""
    //x
    :_x } // packet A { u8 x, }
, }
    ,match stringy // trailing space 
as repeatCount //
{
255 : falsey , ""it's""  :roots,[ """ ++ [128512]%N ++ runes_of_ascii """, 3 ,""// no comment""  ] :o [ 0123456789 ] :
    //	t
    uint8x
    ,
10 : int
,
0123456789 :	Header
    // `tick` ""quote"" 'q'
    ,
    }
, repeat
    //x
    MetaDataX , } MetaData tag
{u64 u ,// " ++ [128512]%N ++ runes_of_ascii " emoji
}
root packet
string_ { char[// packet A { u8 x, }
65535]// a // b
asx  @calculatedFrom(  ""{,}"")// c
,uint8x @calculatedFrom( // `tick` ""quote"" 'q'
""" ++ [233]%N ++ runes_of_ascii "t" ++ [233]%N ++ runes_of_ascii """ ) , string
repeatCount @calculatedFrom(	""abc""
) `crlf
line`,  @calculatedFrom(
    // @lengthOf(
    ""a\\"")	repeat // " ++ [27880; 37322]%N ++ runes_of_ascii "
char[ 1] matchKey //	t
`two words`,	} packet Z9_
{
// @lengthOf(
// c
@tag( 42 )
    //
    @calculatedFrom(
""1"" ) match u8x
as chars {[ ""CRC32"" ]
: packetx,""" ++ [233]%N ++ runes_of_ascii "t" ++ [233]%N ++ runes_of_ascii """
:tag
, 0123456789: calculatedFrom// a // b
, 7 : lengthOf , [ ""a	b"" , 65535 , 3	,
""`tick`""
    /// triple
    ,  255 //x
] :
    u8x , 4294967296
    :
    Header , } , @lengthOf(
// " ++ [27880; 37322]%N ++ runes_of_ascii "
// @lengthOf(
i64_ )	a1 `a\` , //x
f32a
    MetaDataX // " ++ [27880; 37322]%N ++ runes_of_ascii "
, @lengthOf(
    options1 )
Pad @lengthOf( Pad ) // " ++ [128512]%N ++ runes_of_ascii " emoji
`100% of %d` //	t
, // 50% %s
f32a
    `{ , }`
    ,
    match MetaDataX//
as asx  {""\" ++ [233]%N ++ runes_of_ascii """ : metadata
    ,} , @tag(
    255
)
char
calculatedFrom
    `crlf
line`, @lengthOf( leftPad )
repeatCount @lengthOf( int)
,}
packet
T
{ }
")).
Eval vm_compute in ("<<<M101>>>" ++ check (runes_of_ascii "packet
_x  { @calculatedFrom( ""a\""b""
    //	t
    )
// a // b
/// triple
@rightPad (// " ++ [27880; 37322]%N ++ runes_of_ascii "
)
    asx
/// triple
//x
{ char[ 7
    //	t
    ]//
As // " ++ [128512]%N ++ runes_of_ascii " emoji
`` , } , }")).
Eval vm_compute in ("<<<M111>>>" ++ check (runes_of_ascii "
MetaData	Header {// `tick` ""quote"" 'q'
i64_ i64_ /// triple
, chars falsey , // trailing space 
u32 MetaDataX//x
, Header metadata ,
zchar len, }options
{
    u8x = '0' calculatedFrom =zchar[ 4294967296	]
// trailing space 
// packet A { u8 x, }
} MetaData  Pad	{}")).
Eval vm_compute in ("<<<T111>>>" ++ terms [mkTok 37 "MetaData" 2 0 false; mkTok 42 "Header" 2 9 false; mkTok 2 "{" 2 16 false; mkTok 44 "// `tick` ""quote"" 'q'" 2 17 true; mkTok 42 "i64_" 3 0 false; mkTok 42 "i64_" 3 5 false; mkTok 44 "/// triple" 3 10 true; mkTok 40 "," 4 0 false; mkTok 42 "chars" 4 2 false; mkTok 42 "falsey" 4 8 false; mkTok 40 "," 4 15 false; mkTok 44 "// trailing space " 4 17 true; mkTok 22 "u32" 5 0 false; mkTok 42 "MetaDataX" 5 4 false; mkTok 44 "//x" 5 13 true; mkTok 40 "," 6 0 false; mkTok 42 "Header" 6 2 false; mkTok 42 "metadata" 6 9 false; mkTok 40 "," 6 18 false; mkTok 42 "zchar" 7 0 false; mkTok 42 "len" 7 6 false; mkTok 40 "," 7 9 false; mkTok 3 "}" 7 11 false; mkTok 1 "options" 7 12 false; mkTok 2 "{" 8 0 false; mkTok 42 "u8x" 9 4 false; mkTok 4 "=" 9 8 false; mkTok 33 "'0'" 9 10 false; mkTok 42 "calculatedFrom" 9 14 false; mkTok 4 "=" 9 29 false; mkTok 14 "zchar[" 9 30 false; mkTok 30 "4294967296" 9 37 false; mkTok 13 "]" 9 48 false; mkTok 44 "// trailing space " 10 0 true; mkTok 44 "// packet A { u8 x, }" 11 0 true; mkTok 3 "}" 12 0 false; mkTok 37 "MetaData" 12 2 false; mkTok 42 "Pad" 12 12 false; mkTok 2 "{" 12 16 false; mkTok 3 "}" 12 17 false; mkTok 0 "<EOF>" 12 18 false] (mkPacket (mkPtok 37 "MetaData" 2 0 0) (Some (mkPtok 3 "}" 12 17 39)) [(DMeta (mkMetaDef (mkSpan (mkPtok 37 "MetaData" 2 0 0) (mkPtok 3 "}" 7 11 22)) (mkPtok 37 "MetaData" 2 0 0) (mkPtok 42 "Header" 2 9 1) (mkPtok 2 "{" 2 16 2) [(MIRef (mkRefMetaDecl (mkSpan (mkPtok 42 "i64_" 3 0 4) (mkPtok 40 "," 4 0 7)) (mkPtok 42 "i64_" 3 0 4) (mkPtok 42 "i64_" 3 5 5) None (mkPtok 40 "," 4 0 7))); (MIRef (mkRefMetaDecl (mkSpan (mkPtok 42 "chars" 4 2 8) (mkPtok 40 "," 4 15 10)) (mkPtok 42 "chars" 4 2 8) (mkPtok 42 "falsey" 4 8 9) None (mkPtok 40 "," 4 15 10))); (MIDecl (mkMetaDecl (mkSpan (mkPtok 22 "u32" 5 0 12) (mkPtok 40 "," 6 0 15)) (TyBasic (mkSpan (mkPtok 22 "u32" 5 0 12) (mkPtok 22 "u32" 5 0 12)) (mkBasicType (mkSpan (mkPtok 22 "u32" 5 0 12) (mkPtok 22 "u32" 5 0 12)) (mkPtok 22 "u32" 5 0 12))) (mkPtok 42 "MetaDataX" 5 4 13) None (mkPtok 40 "," 6 0 15))); (MIRef (mkRefMetaDecl (mkSpan (mkPtok 42 "Header" 6 2 16) (mkPtok 40 "," 6 18 18)) (mkPtok 42 "Header" 6 2 16) (mkPtok 42 "metadata" 6 9 17) None (mkPtok 40 "," 6 18 18))); (MIRef (mkRefMetaDecl (mkSpan (mkPtok 42 "zchar" 7 0 19) (mkPtok 40 "," 7 9 21)) (mkPtok 42 "zchar" 7 0 19) (mkPtok 42 "len" 7 6 20) None (mkPtok 40 "," 7 9 21)))] (mkPtok 3 "}" 7 11 22))); (DOption (mkOptionDef (mkSpan (mkPtok 1 "options" 7 12 23) (mkPtok 3 "}" 12 0 35)) (mkPtok 1 "options" 7 12 23) (mkPtok 2 "{" 8 0 24) [(mkOptionDecl (mkSpan (mkPtok 42 "u8x" 9 4 25) (mkPtok 33 "'0'" 9 10 27)) (mkPtok 42 "u8x" 9 4 25) (mkPtok 4 "=" 9 8 26) (VPaddingChar (mkSpan (mkPtok 33 "'0'" 9 10 27) (mkPtok 33 "'0'" 9 10 27)) (mkPtok 33 "'0'" 9 10 27)) None); (mkOptionDecl (mkSpan (mkPtok 42 "calculatedFrom" 9 14 28) (mkPtok 13 "]" 9 48 32)) (mkPtok 42 "calculatedFrom" 9 14 28) (mkPtok 4 "=" 9 29 29) (VType (mkSpan (mkPtok 14 "zchar[" 9 30 30) (mkPtok 13 "]" 9 48 32)) (TyFixed (mkSpan (mkPtok 14 "zchar[" 9 30 30) (mkPtok 13 "]" 9 48 32)) (mkFixedString (mkSpan (mkPtok 14 "zchar[" 9 30 30) (mkPtok 13 "]" 9 48 32)) (mkPtok 14 "zchar[" 9 30 30) (mkPtok 30 "4294967296" 9 37 31) (mkPtok 13 "]" 9 48 32)))) None)] (mkPtok 3 "}" 12 0 35))); (DMeta (mkMetaDef (mkSpan (mkPtok 37 "MetaData" 12 2 36) (mkPtok 3 "}" 12 17 39)) (mkPtok 37 "MetaData" 12 2 36) (mkPtok 42 "Pad" 12 12 37) (mkPtok 2 "{" 12 16 38) [] (mkPtok 3 "}" 12 17 39)))])).
Eval vm_compute in ("<<<M121>>>" ++ check (runes_of_ascii "
packet Pad{ @lengthOf(
    msg_type)match u8x as u {
10: msg_type
// @lengthOf(
// c
255 : roots
    , ""CRC32""
:
// " ++ [128512]%N ++ runes_of_ascii " emoji
// `tick` ""quote"" 'q'
BodyLength [ 1, ""a\""b""  ] : trueish ,} ,
//	t
//	t
}")).
Eval vm_compute in ("<<<M131>>>" ++ check (runes_of_ascii "packet u8x {  @calculatedFrom( ""1""
)
// 50% %s
// " ++ [27880; 37322]%N ++ runes_of_ascii "
repeat	msg_type	{
repeat f64 Packet
    `{ , }` ,
repeat int32 rootA, zchar[ 3 ] // a // b
metadata ,zchar[00]x_y_z @calculatedFrom(
""CRC32"" ) ,
    }, leftPad
    zchar,@lengthOf( body  ) match Foo as _x {
// " ++ [128512]%N ++ runes_of_ascii " emoji
// " ++ [27880; 37322]%N ++ runes_of_ascii "
""" ++ [28040; 24687]%N ++ runes_of_ascii """
    : Packet }
,}	MetaData trueish{
    // `tick` ""quote"" 'q'
    zchar[ 0]
metadata `two words`
,
zchar
    x_y_z `
`
,// " ++ [27880; 37322]%N ++ runes_of_ascii "
u8x lengthOf , } packet u128 {  @calculatedFrom( ""a\""b"" ) repeat float32 As
`// not a comment`
, uint16 BodyLength
    @calculatedFrom(""a	b"" )  `` ,repeat zchar[
4294967296 ] stringy // @lengthOf(
`// not a comment`,@leftPad // 50% %s
(
'\x00'/// triple
) int8 body
, @lengthOf( stringy )
roots
{ zchar[ 10
] packetx, }
,@rightPad (  '\x00'
//
// " ++ [27880; 37322]%N ++ runes_of_ascii "
) As uint8x	,
// @lengthOf(
// c
repeat zchar[ 007] Packet,  string int , } packet// a // b
lengthOf {int64
u@lengthOf( rootA
    ) ,repeat pack
, repeat asx//x
{match string_ as // packet A { u8 x, }
Logon { 0123456789 : msg_type
    , } , repeat
    // " ++ [27880; 37322]%N ++ runes_of_ascii "
    rootA `{ , }`
    ,
    }
    , }
root packet int { }
")).
Eval vm_compute in ("<<<M141>>>" ++ check (runes_of_ascii "// @lengthOf(
packet repeatCount {	} MetaData o {asx crc , }
")).
Eval vm_compute in ("<<<M151>>>" ++ check (runes_of_ascii "//	t
packet asx
{ repeat i32 u8x ,
    @calculatedFrom( ""it's""
)
    match uint8x as matchKey { 1  :
// packet A { u8 x, }
// " ++ [128512]%N ++ runes_of_ascii " emoji
chars ,
    // `tick` ""quote"" 'q'
    [255 ]
:
    matchKey
, ""a	b"":	pack ,
    """" :	trueish
}, @leftPad ( '\x00')
char[]	A@calculatedFrom(""a\\""
    ),
    // trailing space 
    match //	t
MetaDataX as uint8x {
    [ ""a	b""
] : As  } , uint8x
{ matchKey {int x_y_z
    // packet A { u8 x, }
    ,}
    , //
}// @lengthOf(
, u8 Logon @lengthOf(  matchKey
    ) , float64 msg_type
@lengthOf( zchar ) ,float x_y_z , @rightPad (  '\x00')match	matchKey	as	lengthOf { [ """ ++ [233]%N ++ runes_of_ascii "t" ++ [233]%N ++ runes_of_ascii """
// packet A { u8 x, }
// 50% %s
,	""{,}""	,3	,// @lengthOf(
""\n""
    , 0
, ""1"" ,""x y"" ] : u
, 10 : // 50% %s
f32a  , 1: chars // @lengthOf(
,42
: Foo 65535: Header
    ,["""" ] : //x
body , } ,
    //x
    match
metadata as trueish { """"
:metadata ,""`tick`""
    : float,	255 : x ,
    } ,
} packet trueish { @lengthOf( stringy ) zchar[ 7 ] x `crlf
line` ,
repeat MetaDataX { i16 Z9_ `two words` , },  @lengthOf( zchar//
) match metadata as	a1 {
    [ // " ++ [128512]%N ++ runes_of_ascii " emoji
""CRC32"" ] : i8i8 ,""a	b""
    :x_y_z ,[ ""1""
,""abc"" ,007 , // `tick` ""quote"" 'q'
4294967296 , 00	,
""// no comment"" ,
    // `tick` ""quote"" 'q'
    ""a\""b""  ]	:
chars , [ ""`tick`"" , ""\" ++ [233]%N ++ runes_of_ascii """ ,	""x y""
,
""a	b"" , ""a\""b""
, ""`tick`""
    //x
    ,
00	] : leftPad, 65535 : Z9_
    // " ++ [128512]%N ++ runes_of_ascii " emoji
    , } , @lengthOf(
falsey )
repeat
    i8i8 ,@calculatedFrom( ""\n"" )// a // b
char[ 42	] // `tick` ""quote"" 'q'
charz  @calculatedFrom( """ ++ [128512]%N ++ runes_of_ascii """)
    , repeat char[] stringy `tab	here`, Packet  @lengthOf( BodyLength )  `" ++ [28040; 24687; 31867; 22411]%N ++ runes_of_ascii "` ,
string u128, i8 o
// c
// 50% %s
`
` , // 50% %s
@leftPad (
'0'
    ) repeat
string Header, } options{ crc =char[007
] packetx=7 ;	} 	 ")).
Eval vm_compute in ("<<<M161>>>" ++ check (runes_of_ascii "  packet
asx { match i8i8 as tag /// triple
{ 4294967296 : i8i8
,
10 : Header 10 : zchar }
    ,
uint8
    uint8x
    , repeat int a1`{ , }` // c
, @lengthOf( asx) // 50% %s
repeat
metadata
,  } MetaData
As{Packet A
,zchar[
0 ]Pad`two words`,
u16 T // @lengthOf(
, } // " ++ [27880; 37322]%N ++ runes_of_ascii "
root packet Header {
    float32//x
Foo@calculatedFrom(
""abc"" )
/// triple
// a // b
,@leftPad
    ( )
repeat string
    string_	, string leftPad // " ++ [128512]%N ++ runes_of_ascii " emoji
`say ""hi""` ,
    @tag(4294967296 )
    @calculatedFrom( """ ++ [28040; 24687]%N ++ runes_of_ascii """ )
    char[] // @lengthOf(
f32a @lengthOf(
    Pad
) , int64 Foo ,  zchar[
4294967296
]
    // @lengthOf(
    tag ,  asx `` ,
    // 50% %s
    T @lengthOf( A )
// a // b
// `tick` ""quote"" 'q'
`tab	here`	,}options
{
chars =
f32 }
")).
Eval vm_compute in ("<<<M171>>>" ++ check (runes_of_ascii "packet Foo {  @calculatedFrom( """"	)
@calculatedFrom( ""1"" ) @rightPad(
) int32
    As
@calculatedFrom( """" )
    `a\`
//x
//	t
,
@calculatedFrom( ""\n"" )
char[65535// @lengthOf(
] asx ,repeat // a // b
int8
    // packet A { u8 x, }
    trueish `` , } packet
A { @tag(4294967296 ) uint16 Logon @calculatedFrom(
    // `tick` ""quote"" 'q'
    """ ++ [233]%N ++ runes_of_ascii "t" ++ [233]%N ++ runes_of_ascii """ ), // `tick` ""quote"" 'q'
@lengthOf( As )
repeat MetaDataX
    falsey
`u8 x,` ,@calculatedFrom(""\n""
    )	match repeatCount
as
A {	4294967296 :
zchar
    } , match
crc
    // `tick` ""quote"" 'q'
    as float { 255
    :u , } ,} root
/// triple
//	t
packet matchKey { string MetaDataX `a\`
, BodyLength
{ match repeatCount as
len {//x
""" ++ [28040; 24687]%N ++ runes_of_ascii """ : asx 3  :
MetaDataX , """ ++ [28040; 24687]%N ++ runes_of_ascii """:// 50% %s
len
    ,  ""x y"":msg_type
,  [
    4294967296 ]
: asx ,
    ""it's""	: repeatCount ,}, zchar[ 0123456789
] Z9_ @calculatedFrom( ""a\\""  ) ,	repeat  zchar[10 ] lengthOf `
`,
uint16 tag `u8 x,` , } // " ++ [27880; 37322]%N ++ runes_of_ascii "
,@leftPad
    ( ) u128 trueish,
    // c
    }")).
Eval vm_compute in ("<<<M181>>>" ++ check (runes_of_ascii "
packet// 50% %s
rootA// 50% %s
{ //
}")).
Eval vm_compute in ("<<<T181>>>" ++ terms [mkTok 35 "packet" 2 0 false; mkTok 44 "// 50% %s" 2 6 true; mkTok 42 "rootA" 3 0 false; mkTok 44 "// 50% %s" 3 5 true; mkTok 2 "{" 4 0 false; mkTok 44 "//" 4 2 true; mkTok 3 "}" 5 0 false; mkTok 0 "<EOF>" 5 1 false] (mkPacket (mkPtok 35 "packet" 2 0 0) (Some (mkPtok 3 "}" 5 0 6)) [(DPacket (mkPacketDef (mkSpan (mkPtok 35 "packet" 2 0 0) (mkPtok 3 "}" 5 0 6)) None (mkPtok 35 "packet" 2 0 0) (mkPtok 42 "rootA" 3 0 2) (mkPtok 2 "{" 4 0 4) [] (mkPtok 3 "}" 5 0 6)))])).
Eval vm_compute in ("<<<M191>>>" ++ check (runes_of_ascii "
 // a // b")).
Eval vm_compute in ("<<<M201>>>" ++ check (runes_of_ascii "options // a // b
{
}
    root
    packet	A{
    @tag( 00 )
int64 u8x
,// @lengthOf(
@calculatedFrom( ""a\""b"" )// packet A { u8 x, }
repeat
    crc
    , @tag(
    10
) x_y_z , char[] u`line1
line2`	, }
    root packet leftPad { float
@lengthOf(
packetx )	, match msg_type
as
    // `tick` ""quote"" 'q'
    matchKey{ [ ""it's"" , ""x y"",
1 ] // " ++ [128512]%N ++ runes_of_ascii " emoji
:i8i8 , [ ""a	b""
, 42
// `tick` ""quote"" 'q'
// @lengthOf(
,
    // packet A { u8 x, }
    00 ] :
    string_// c
,  """ ++ [28040; 24687]%N ++ runes_of_ascii """ :asx,} ,char[ // a // b
0123456789
    ] roots  `say ""hi""` , }
// " ++ [27880; 37322]%N ++ runes_of_ascii "
")).
Eval vm_compute in ("<<<M211>>>" ++ check (runes_of_ascii "packet MetaDataX { int @calculatedFrom( ""`tick`"" ) ,
}")).
Eval vm_compute in ("<<<M221>>>" ++ check (runes_of_ascii "options {// " ++ [27880; 37322]%N ++ runes_of_ascii "
len =
    // a // b
    ""a\\""
    stringy = char[] ; // @lengthOf(
A = 0 ;	len =int64 packetx = ""`tick`"" }")).
Eval vm_compute in ("<<<M231>>>" ++ check (runes_of_ascii "
packet
    u128{
    // " ++ [128512]%N ++ runes_of_ascii " emoji
    a1	T
//x
//
`u8 x,` , repeat packetx { repeat zchar[ 255
    ] _x,
f32a@lengthOf( stringy ) ``, }
    , stringy ,asx @lengthOf( u128 )
, }

")).
Eval vm_compute in ("<<<M241>>>" ++ check (runes_of_ascii "
packet msg_type
{ match
    x_y_z as i8i8  { 0:As
// `tick` ""quote"" 'q'
//
,""packet"":
    // " ++ [27880; 37322]%N ++ runes_of_ascii "
    T
    , [
65535 , ""1"" ,00 , """ ++ [128512]%N ++ runes_of_ascii """
,  4294967296,
// " ++ [27880; 37322]%N ++ runes_of_ascii "
//	t
4294967296 ] : Logon// `tick` ""quote"" 'q'
,
[  ""\n"" ,// @lengthOf(
""packet"" ,
""// no comment""  ,1 , 1 ,
    ""`tick`""]  : rootA ,0123456789:falsey , } , As o , char[0 ]  float `// not a comment` , @calculatedFrom(""abc"")	@tag( 4294967296 ) repeat float32 BodyLength`crlf
line`
, msg_type @calculatedFrom(
""" ++ [128512]%N ++ runes_of_ascii """ )
// " ++ [27880; 37322]%N ++ runes_of_ascii "
// @lengthOf(
`a\` // `tick` ""quote"" 'q'
,
repeat int64 body , int16 a1 // trailing space 
@calculatedFrom( ""it's""
    // @lengthOf(
    ) , i16 //x
float `u8 x,`
    ,
    @leftPad // " ++ [27880; 37322]%N ++ runes_of_ascii "
(	'\x00' // " ++ [27880; 37322]%N ++ runes_of_ascii "
)// c
uint32 roots ,
    } packet Header { @calculatedFrom( ""`tick`"" ) char[
    00 ] packetx , @lengthOf( matchKey ) repeatCount
x_y_z
`{ , }` ,
}")).
Eval vm_compute in ("<<<M251>>>" ++ check (runes_of_ascii "packet	a1 {}")).
Eval vm_compute in ("<<<T251>>>" ++ terms [mkTok 35 "packet" 1 0 false; mkTok 42 "a1" 1 7 false; mkTok 2 "{" 1 10 false; mkTok 3 "}" 1 11 false; mkTok 0 "<EOF>" 1 12 false] (mkPacket (mkPtok 35 "packet" 1 0 0) (Some (mkPtok 3 "}" 1 11 3)) [(DPacket (mkPacketDef (mkSpan (mkPtok 35 "packet" 1 0 0) (mkPtok 3 "}" 1 11 3)) None (mkPtok 35 "packet" 1 0 0) (mkPtok 42 "a1" 1 7 1) (mkPtok 2 "{" 1 10 2) [] (mkPtok 3 "}" 1 11 3)))])).
Eval vm_compute in ("<<<M261>>>" ++ check (runes_of_ascii "root packet
x_y_z { repeat
    options1 {
int8 len // packet A { u8 x, }
, zchar[  00
] A // trailing space 
@calculatedFrom(
""CRC32""
    ), zchar[255 ] body
`line1
line2` ,
char[3  ]
// trailing space 
// packet A { u8 x, }
MetaDataX ,  } ,
    string zchar @calculatedFrom( ""\" ++ [233]%N ++ runes_of_ascii """ ) , }packet //	t
roots {
@rightPad ('\x00') repeat len
, string options1 ,	string As
    `" ++ [233]%N ++ runes_of_ascii "`
,
}")).
Eval vm_compute in ("<<<M271>>>" ++ check (runes_of_ascii "MetaData
o
    {
// 50% %s
// " ++ [27880; 37322]%N ++ runes_of_ascii "
Foo _x, }
MetaData // 50% %s
trueish //	t
{ u8 crc
`" ++ [233]%N ++ runes_of_ascii "` ,u64 charz `" ++ [28040; 24687; 31867; 22411]%N ++ runes_of_ascii "` , //x
zchar[
    00	] // @lengthOf(
string_,	}	packet// c
metadata { @leftPad ( '\x00') u128@lengthOf( len ) , @lengthOf(
    u128 // a // b
)
    x , @lengthOf(
int
    ) zchar[3 ] Logon @lengthOf(
Logon )  `" ++ [233]%N ++ runes_of_ascii "`
    ,Pad
    roots ,	} // 50% %s")).
Eval vm_compute in ("<<<M281>>>" ++ check (runes_of_ascii "options { Header
=
    ""a\\"" }packet x{ } packet repeatCount{zchar[ 00 ] asx,
@calculatedFrom( ""// no comment"" ) match body as Logon
{ ""abc""
:	chars
42	: A
,
""// no comment"":
crc , [ """"
]: f32a , 4294967296 : falsey ""x y""	: u8x },	@rightPad(
    ' ' ) u32
stringy @lengthOf(	lengthOf) ,  Foo `say ""hi""`// packet A { u8 x, }
,
crc `100% of %d` , @leftPad( '\x00' )
u8x o , zchar[
255	]
tag `u8 x,`	,} packet f32a { }
// @lengthOf(
// @lengthOf(
root packet
// packet A { u8 x, }
// 50% %s
msg_type {
@calculatedFrom(  ""`tick`""
    )char[]crc
, int	options1
, //
asx ,}
")).
Eval vm_compute in ("<<<M291>>>" ++ check (runes_of_ascii "MetaData u128 {} //	t")).
Eval vm_compute in ("<<<M301>>>" ++ check (runes_of_ascii "options {
	StringPrefixLenType = u16;
	ArrayPrefixLenType = u16;
}

packet SampleBinary {
    uint16 MsgType `" ++ [28040; 24687; 31867; 22411]%N ++ runes_of_ascii "`,
    u16 BodyLenght @lengthOf(Body) `" ++ [28040; 24687; 20307; 38271; 24230]%N ++ runes_of_ascii "`,
    match MsgType as Body {
        1 : Logon,
        2 : Logout,
        3 : Heartbeat,
        4 : RiskControlRequest,
        5 : RiskControlResponse,
    },
        @calculatedFrom(""CRC32"")
    u32 Ckecksum `" ++ [26657; 39564; 21644]%N ++ runes_of_ascii "`,
}

packet Logon {
     @leftPad('0')
    char[10] UserName `" ++ [29992; 25143; 21517]%N ++ runes_of_ascii "`,
    string Password `" ++ [23494; 30721]%N ++ runes_of_ascii "`,
    uint64 ClientId `" ++ [23458; 25143; 31471]%N ++ runes_of_ascii "ID`,
    u16 HeartbeatInterval `" ++ [24515; 36339; 38388; 38548]%N ++ runes_of_ascii "`,
}

packet Logout {
      @rightPad('0')
    char[10] UserName `" ++ [29992; 25143; 21517]%N ++ runes_of_ascii "`,
    uint64 ClientId `" ++ [23458; 25143; 31471]%N ++ runes_of_ascii "ID`,
}

packet Heartbeat {
}

packet RiskControlRequest {
    string UniqueOrderId `" ++ [21807; 19968; 35746; 21333; 21495]%N ++ runes_of_ascii "`,
    char[16] ClOrdID `" ++ [23458; 25143; 35746; 21333; 21495]%N ++ runes_of_ascii "`,
    char[3] MarketID `" ++ [24066; 22330]%N ++ runes_of_ascii "id`,
    char[12] SecurityID `" ++ [35777; 21048; 20195; 30721]%N ++ runes_of_ascii "`,
    char Side `" ++ [20080; 21334; 26041; 21521]%N ++ runes_of_ascii "`,
    char OrderType `" ++ [35746; 21333; 31867; 22411]%N ++ runes_of_ascii "`,
    u64 Price `" ++ [20215; 26684]%N ++ runes_of_ascii "`,
    u32 Qty `" ++ [25968; 37327]%N ++ runes_of_ascii "`,
    repeat string ExtraInfo `" ++ [38468; 21152; 20449; 24687]%N ++ runes_of_ascii "`,
    repeat SubOrder {
    		char[16] ClOrdID `" ++ [23376; 35746; 21333; 21495]%N ++ runes_of_ascii "`,
    		u64 Price `" ++ [23376; 35746; 21333; 20215; 26684]%N ++ runes_of_ascii "`,
    		u32 Qty `" ++ [23376; 35746; 21333; 25968; 37327]%N ++ runes_of_ascii "`,
    	},
}

packet RiskControlResponse {
    string UniqueOrderId `" ++ [21807; 19968; 35746; 21333; 21495]%N ++ runes_of_ascii "`,
    i32 Status `" ++ [29366; 24577]%N ++ runes_of_ascii "`,
    string Msg `" ++ [32467; 26524; 20449; 24687]%N ++ runes_of_ascii "`,
    repeat Detail,
}

packet Detail {
    string RuleName `" ++ [35268; 21017; 21517; 31216]%N ++ runes_of_ascii "`,
    u16 Code `" ++ [21407; 22240; 20195; 30721]%N ++ runes_of_ascii "`,
}")).
Eval vm_compute in ("<<<M311>>>" ++ check (runes_of_ascii "crc
MetaData	{ char[] Z9_`{ , }`,} options { tag =
    false } packet
// a // b
// @lengthOf(
Pad {Foo @calculatedFrom( // `tick` ""quote"" 'q'
""a\\"" ) ,
    trueish ,
    char[ 00]
    // " ++ [128512]%N ++ runes_of_ascii " emoji
    packetx , }
")).
Eval vm_compute in ("<<<M321>>>" ++ check (runes_of_ascii "MetaData
crc	char[] { Z9_`{ , }`,} options { tag =
    false } packet
// a // b
// @lengthOf(
Pad {Foo @calculatedFrom( // `tick` ""quote"" 'q'
""a\\"" ) ,
    trueish ,
    char[ 00]
    // " ++ [128512]%N ++ runes_of_ascii " emoji
    packetx , }
")).
Eval vm_compute in ("<<<M331>>>" ++ check (runes_of_ascii "MetaData
crc	{ char[] `{ , }`Z9_,} options { tag =
    false } packet
// a // b
// @lengthOf(
Pad {Foo @calculatedFrom( // `tick` ""quote"" 'q'
""a\\"" ) ,
    trueish ,
    char[ 00]
    // " ++ [128512]%N ++ runes_of_ascii " emoji
    packetx , }
")).
Eval vm_compute in ("<<<M341>>>" ++ check (runes_of_ascii "MetaData
crc	{ char[] Z9_`{ , }`}, options { tag =
    false } packet
// a // b
// @lengthOf(
Pad {Foo @calculatedFrom( // `tick` ""quote"" 'q'
""a\\"" ) ,
    trueish ,
    char[ 00]
    // " ++ [128512]%N ++ runes_of_ascii " emoji
    packetx , }
")).
Eval vm_compute in ("<<<M351>>>" ++ check (runes_of_ascii "MetaData
crc	{ char[] Z9_`{ , }`,} { options tag =
    false } packet
// a // b
// @lengthOf(
Pad {Foo @calculatedFrom( // `tick` ""quote"" 'q'
""a\\"" ) ,
    trueish ,
    char[ 00]
    // " ++ [128512]%N ++ runes_of_ascii " emoji
    packetx , }
")).
Eval vm_compute in ("<<<M361>>>" ++ check (runes_of_ascii "MetaData
crc	{ char[] Z9_`{ , }`,} options { = tag
    false } packet
// a // b
// @lengthOf(
Pad {Foo @calculatedFrom( // `tick` ""quote"" 'q'
""a\\"" ) ,
    trueish ,
    char[ 00]
    // " ++ [128512]%N ++ runes_of_ascii " emoji
    packetx , }
")).
Eval vm_compute in ("<<<M371>>>" ++ check (runes_of_ascii "MetaData
crc	{ char[] Z9_`{ , }`,} options { tag =
    } false packet
// a // b
// @lengthOf(
Pad {Foo @calculatedFrom( // `tick` ""quote"" 'q'
""a\\"" ) ,
    trueish ,
    char[ 00]
    // " ++ [128512]%N ++ runes_of_ascii " emoji
    packetx , }
")).
Eval vm_compute in ("<<<M381>>>" ++ check (runes_of_ascii "MetaData
crc	{ char[] Z9_`{ , }`,} options { tag =
    false } Pad
// a // b
// @lengthOf(
packet {Foo @calculatedFrom( // `tick` ""quote"" 'q'
""a\\"" ) ,
    trueish ,
    char[ 00]
    // " ++ [128512]%N ++ runes_of_ascii " emoji
    packetx , }
")).
Eval vm_compute in ("<<<M391>>>" ++ check (runes_of_ascii "MetaData
crc	{ char[] Z9_`{ , }`,} options { tag =
    false } packet
// a // b
// @lengthOf(
Pad Foo{ @calculatedFrom( // `tick` ""quote"" 'q'
""a\\"" ) ,
    trueish ,
    char[ 00]
    // " ++ [128512]%N ++ runes_of_ascii " emoji
    packetx , }
")).
Eval vm_compute in ("<<<M401>>>" ++ check (runes_of_ascii "MetaData
crc	{ char[] Z9_`{ , }`,} options { tag =
    false } packet
// a // b
// @lengthOf(
Pad {Foo ""a\\"" // `tick` ""quote"" 'q'
@calculatedFrom( ) ,
    trueish ,
    char[ 00]
    // " ++ [128512]%N ++ runes_of_ascii " emoji
    packetx , }
")).
Eval vm_compute in ("<<<M411>>>" ++ check (runes_of_ascii "MetaData
crc	{ char[] Z9_`{ , }`,} options { tag =
    false } packet
// a // b
// @lengthOf(
Pad {Foo @calculatedFrom( // `tick` ""quote"" 'q'
""a\\"" , )
    trueish ,
    char[ 00]
    // " ++ [128512]%N ++ runes_of_ascii " emoji
    packetx , }
")).
Eval vm_compute in ("<<<M421>>>" ++ check (runes_of_ascii "MetaData
crc	{ char[] Z9_`{ , }`,} options { tag =
    false } packet
// a // b
// @lengthOf(
Pad {Foo @calculatedFrom( // `tick` ""quote"" 'q'
""a\\"" ) ,
    , trueish
    char[ 00]
    // " ++ [128512]%N ++ runes_of_ascii " emoji
    packetx , }
")).
Eval vm_compute in ("<<<M431>>>" ++ check (runes_of_ascii "MetaData
crc	{ char[] Z9_`{ , }`,} options { tag =
    false } packet
// a // b
// @lengthOf(
Pad {Foo @calculatedFrom( // `tick` ""quote"" 'q'
""a\\"" ) ,
    trueish ,
    00 char[ ]
    // " ++ [128512]%N ++ runes_of_ascii " emoji
    packetx , }
")).
Eval vm_compute in ("<<<M441>>>" ++ check (runes_of_ascii "MetaData
crc	{ char[] Z9_`{ , }`,} options { tag =
    false } packet
// a // b
// @lengthOf(
Pad {Foo @calculatedFrom( // `tick` ""quote"" 'q'
""a\\"" ) ,
    trueish ,
    char[ 00 packetx
    // " ++ [128512]%N ++ runes_of_ascii " emoji
    ] , }
")).
Eval vm_compute in ("<<<M451>>>" ++ check (runes_of_ascii "MetaData
crc	{ char[] Z9_`{ , }`,} options { tag =
    false } packet
// a // b
// @lengthOf(
Pad {Foo @calculatedFrom( // `tick` ""quote"" 'q'
""a\\"" ) ,
    trueish ,
    char[ 00]
    // " ++ [128512]%N ++ runes_of_ascii " emoji
    packetx } ,
")).
Eval vm_compute in ("<<<M461>>>" ++ check (runes_of_ascii "MetaData
crc	{ char[] Z9_`{ , }`,} options { tag =
    false } packet
// a // b
// @lengthOf(
Pad {Foo @calculatedFrom( // `tick` ""quote"" 'q'
""a\\"" ) ,
    trueish ,
    char[ 00]
    ")).
Eval vm_compute in ("<<<M471>>>" ++ check (runes_of_ascii "MetaData
crc	{ char[] Z9_`{ , }`,} options { tag =
    false } packet
// a // b
// @lengthOf(
Pad {Foo @calculatedFrom( // `tick` ""quote"" 'q'
""a\\"" ) ,
    trueish '',
    char[ 00]
    // " ++ [128512]%N ++ runes_of_ascii " emoji
    packetx , }
")).
Eval vm_compute in ("<<<M481>>>" ++ check (runes_of_ascii "root packet _x	{ @rightPad (
' ' ) string u8x @lengthOf(
    _x
) , repeat Pad Pad  { // " ++ [128512]%N ++ runes_of_ascii " emoji
As
// `tick` ""quote"" 'q'
//x
{matchKey chars,
} , }, }")).
Eval vm_compute in ("<<<M491>>>" ++ check (runes_of_ascii "root packet _x	{ @rightPad 
' ' ) string u8x @lengthOf(
    _x
) , repeat Pad  { // " ++ [128512]%N ++ runes_of_ascii " emoji
As
// `tick` ""quote"" 'q'
//x
{matchKey chars,
} , }, }")).
Eval vm_compute in ("<<<M501>>>" ++ check (runes_of_ascii "root packet _x")).
Eval vm_compute in ("<<<M511>>>" ++ check (runes_of_ascii "root packet _x	{ @rightPad (
' ' ) string u8x @lengthOf(
    string
) , repeat Pad  { // " ++ [128512]%N ++ runes_of_ascii " emoji
As
// `tick` ""quote"" 'q'
//x
{matchKey chars,
} , }, }")).
Eval vm_compute in ("<<<M521>>>" ++ check (runes_of_ascii "root packet _x	{ @rightPad (
' ' ) string u8x @lengthOf(
    _x
) , , repeat Pad  { // " ++ [128512]%N ++ runes_of_ascii " emoji
As
// `tick` ""quote"" 'q'
//x
{matchKey chars,
} , }, }")).
Eval vm_compute in ("<<<M531>>>" ++ check (runes_of_ascii "root packet _x	{ @rightPad (
' ' ) ) string u8x @lengthOf(
    _x
) , repeat Pad  { // " ++ [128512]%N ++ runes_of_ascii " emoji
As
// `tick` ""quote"" 'q'
//x
{matchKey chars,
} , }, }")).
Eval vm_compute in ("<<<M541>>>" ++ check (runes_of_ascii "root packet _x	{ @rightPad (
' ' ) string u8x @lengthOf(
    _x
) , repeat Pad  { // " ++ [128512]%N ++ runes_of_ascii " emoji
As
// `tick` ""quote"" 'q'
//x
{")).
Eval vm_compute in ("<<<M551>>>" ++ check (runes_of_ascii "root packet _x	{ @rightPad (
' ' ) string u8x @lengthOf(
    _x
 , repeat Pad  { // " ++ [128512]%N ++ runes_of_ascii " emoji
As
// `tick` ""quote"" 'q'
//x
{matchKey chars,
} , }, }")).
Eval vm_compute in ("<<<M561>>>" ++ check (runes_of_ascii "root packet _x	{ @rightPad (
' ' ) string u8x @lengthOf(
    _x
) , repeat Pad  { // " ++ [128512]%N ++ runes_of_ascii " emoji
As
// `tick` ""quote"" 'q'
//x
{matchKey chars,
} , }, int16")).
Eval vm_compute in ("<<<M571>>>" ++ check (runes_of_ascii "/")).
Eval vm_compute in ("<<<M581>>>" ++ check ([65533; 15; 65533]%N ++ runes_of_ascii "bF" ++ [19]%N ++ runes_of_ascii "J" ++ [65533; 65533; 19]%N ++ runes_of_ascii "c&" ++ [65533; 65533; 65533; 65533; 65533]%N ++ runes_of_ascii "^'" ++ [65533; 65533]%N ++ runes_of_ascii "o" ++ [1]%N ++ runes_of_ascii ":	" ++ [65533; 65533]%N)).
Eval vm_compute in ("<<<M591>>>" ++ check (runes_of_ascii "u8 3 @leftPad @calculatedFrom( {")).
