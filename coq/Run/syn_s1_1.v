From FP Require Import Lexer Parser ShowPT Digest.
From Coq Require Import String List NArith.
Import ListNotations.
Open Scope string_scope.
Set Printing Width 100000000.
Set Printing Depth 100000000.
Definition nl : string := String (Ascii.ascii_of_nat 10) EmptyString.
Definition model_lex (rs : list rune) : string := show_toks (lex rs).
Definition model_parse (rs : list rune) : string :=
  show_pt (match lex rs with Some ts => parse ts | None => None end).
(* coqc is slow at printing long strings: digests first (Digest.v), full texts on demand *)
Definition check (rs : list rune) : string :=
  digest (model_lex rs) ++ " " ++ digest (model_parse rs).
Definition full (rs : list rune) : string := model_lex rs ++ nl ++ model_parse rs.
Definition terms (ts : list tok) (t : pt) : string :=
  digest (show_toks (Some ts)) ++ " " ++ digest (show_pt (Some t)) ++ " " ++ digest (show_pt (parse ts)).
Definition terms_full (ts : list tok) (t : pt) : string :=
  show_toks (Some ts) ++ nl ++ show_pt (Some t) ++ nl ++ show_pt (parse ts).
Eval vm_compute in ("<<<M1>>>" ++ check (runes_of_ascii "
packet
body { chars //x
`two words` , match crc as	metadata {65535
    :
    // c
    trueish ""\" ++ [233]%N ++ runes_of_ascii """ : charz , ""abc""	: MetaDataX [""packet"" , ""// no comment"",0
, 00
,
    ""// no comment"" ,""{,}"" , 00 ]:  i64_
// @lengthOf(
//	t
, """ ++ [233]%N ++ runes_of_ascii "t" ++ [233]%N ++ runes_of_ascii """ :f32a
, [
    """ ++ [128512]%N ++ runes_of_ascii """  , ""it's""
]
: Foo
}
    ,@rightPad
(  ' '
    /// triple
    ) repeat char[ 1]
    body `it's`
,
@tag( 007) @calculatedFrom(
    """ ++ [233]%N ++ runes_of_ascii "t" ++ [233]%N ++ runes_of_ascii """ )
// @lengthOf(
//
@calculatedFrom( ""a\""b""// trailing space 
)
repeat
i64_
{ roots /// triple
{ i16 // packet A { u8 x, }
Header`two words`, repeatCount `{ , }`,  f64
x @calculatedFrom( ""a	b"")
    // a // b
    ,repeatCount @calculatedFrom(// " ++ [27880; 37322]%N ++ runes_of_ascii "
"""" ) ,} ,repeat u8
BodyLength
    `crlf
line`	,
    // `tick` ""quote"" 'q'
    char As
@lengthOf(
    Foo) , } ,	char[] roots
    `line1
line2`,//
int a1, string_{ char[]Logon `line1
line2` , repeat float32 trueish
    ,
},
@leftPad ( '0' ) repeat metadata  {	rootA@lengthOf( // trailing space 
falsey	) ``
    ,
// " ++ [128512]%N ++ runes_of_ascii " emoji
// packet A { u8 x, }
} ,
} packet float
{u16
// trailing space 
// trailing space 
Logon // a // b
`tab	here`// @lengthOf(
,
// @lengthOf(
// c
u128 {zchar[255
// packet A { u8 x, }
//
]	charz`doc` , }
,
@tag(0 )	repeat Foo { i32 body
    @calculatedFrom( ""`tick`"" )
`" ++ [233]%N ++ runes_of_ascii "` ,} /// triple
,char[] o @calculatedFrom(""1"" ) `line1
line2` ,
@lengthOf(
// a // b
//x
zchar) i16 BodyLength
    @lengthOf(
    // " ++ [27880; 37322]%N ++ runes_of_ascii "
    BodyLength )
    , @lengthOf( T) @rightPad(
' ' )@lengthOf( T
)
repeat
u64 _x// " ++ [27880; 37322]%N ++ runes_of_ascii "
, match MetaDataX as // trailing space 
options1// trailing space 
{ //x
0123456789 :
    options1  , } , repeat u8 charz
, repeat i8i8 {// c
a1 ,len  { repeat string
o	,
    // a // b
    } ,	match zchar
as Logon {"""" : matchKey """ ++ [128512]%N ++ runes_of_ascii """	: u 007 :
repeatCount ,}  , // c
}
    ,
}
")).
Eval vm_compute in ("<<<M11>>>" ++ check (runes_of_ascii "options { falsey
= false}")).
Eval vm_compute in ("<<<M21>>>" ++ check (runes_of_ascii "options { x_y_z =  """ ++ [128512]%N ++ runes_of_ascii """
/// triple
// @lengthOf(
options1 =
""a\\""  ;
    x_y_z  = 255 ; } //x
packet
    charz {
    } // trailing space ")).
Eval vm_compute in ("<<<M31>>>" ++ check (runes_of_ascii "MetaData
T {crc /// triple
u8x `say ""hi""` , } // `tick` ""quote"" 'q'")).
Eval vm_compute in ("<<<M41>>>" ++ check (runes_of_ascii "packet// " ++ [128512]%N ++ runes_of_ascii " emoji
charz
    {
repeat options1 {char x_y_z
/// triple
//x
, T	{ string_ @calculatedFrom(""1"") , } ,
f64
    crc ,
u64 A
// trailing space 
/// triple
@calculatedFrom(""CRC32""	), } ,} MetaData MetaDataX //	t
{
}
root packet
u128{ string_  {
    repeat pack {
As matchKey , } ,} ,
}
")).
Eval vm_compute in ("<<<T41>>>" ++ terms [mkTok 35 "packet" 1 0 false; mkTok 44 (string_of_bytes [47; 47; 32; 240; 159; 152; 128; 32; 101; 109; 111; 106; 105]%N) 1 6 true; mkTok 42 "charz" 2 0 false; mkTok 2 "{" 3 4 false; mkTok 36 "repeat" 4 0 false; mkTok 42 "options1" 4 7 false; mkTok 2 "{" 4 16 false; mkTok 19 "char" 4 17 false; mkTok 42 "x_y_z" 4 22 false; mkTok 44 "/// triple" 5 0 true; mkTok 44 "//x" 6 0 true; mkTok 40 "," 7 0 false; mkTok 42 "T" 7 2 false; mkTok 2 "{" 7 4 false; mkTok 42 "string_" 7 6 false; mkTok 5 "@calculatedFrom(" 7 14 false; mkTok 31 """1""" 7 30 false; mkTok 6 ")" 7 33 false; mkTok 40 "," 7 35 false; mkTok 3 "}" 7 37 false; mkTok 40 "," 7 39 false; mkTok 29 "f64" 8 0 false; mkTok 42 "crc" 9 4 false; mkTok 40 "," 9 8 false; mkTok 23 "u64" 10 0 false; mkTok 42 "A" 10 4 false; mkTok 44 "// trailing space " 11 0 true; mkTok 44 "/// triple" 12 0 true; mkTok 5 "@calculatedFrom(" 13 0 false; mkTok 31 """CRC32""" 13 16 false; mkTok 6 ")" 13 24 false; mkTok 40 "," 13 25 false; mkTok 3 "}" 13 27 false; mkTok 40 "," 13 29 false; mkTok 3 "}" 13 30 false; mkTok 37 "MetaData" 13 32 false; mkTok 42 "MetaDataX" 13 41 false; mkTok 44 (string_of_bytes [47; 47; 9; 116]%N) 13 51 true; mkTok 2 "{" 14 0 false; mkTok 3 "}" 15 0 false; mkTok 34 "root" 16 0 false; mkTok 35 "packet" 16 5 false; mkTok 42 "u128" 17 0 false; mkTok 2 "{" 17 4 false; mkTok 42 "string_" 17 6 false; mkTok 2 "{" 17 15 false; mkTok 36 "repeat" 18 4 false; mkTok 42 "pack" 18 11 false; mkTok 2 "{" 18 16 false; mkTok 42 "As" 19 0 false; mkTok 42 "matchKey" 19 3 false; mkTok 40 "," 19 12 false; mkTok 3 "}" 19 14 false; mkTok 40 "," 19 16 false; mkTok 3 "}" 19 17 false; mkTok 40 "," 19 19 false; mkTok 3 "}" 20 0 false; mkTok 0 "<EOF>" 21 0 false] (mkPacket (mkPtok 35 "packet" 1 0 0) (Some (mkPtok 3 "}" 20 0 56)) [(DPacket (mkPacketDef (mkSpan (mkPtok 35 "packet" 1 0 0) (mkPtok 3 "}" 13 30 34)) None (mkPtok 35 "packet" 1 0 0) (mkPtok 42 "charz" 2 0 2) (mkPtok 2 "{" 3 4 3) [(mkFieldWithAttr (mkSpan (mkPtok 36 "repeat" 4 0 4) (mkPtok 40 "," 13 29 33)) [] (InerObjectField (mkSpan (mkPtok 36 "repeat" 4 0 4) (mkPtok 40 "," 13 29 33)) (Some (mkPtok 36 "repeat" 4 0 4)) (InerObjectDecl (mkSpan (mkPtok 42 "options1" 4 7 5) (mkPtok 3 "}" 13 27 32)) (mkPtok 42 "options1" 4 7 5) (mkPtok 2 "{" 4 16 6) [(MetaField (mkSpan (mkPtok 19 "char" 4 17 7) (mkPtok 40 "," 7 0 11)) None (mkMetaDecl (mkSpan (mkPtok 19 "char" 4 17 7) (mkPtok 40 "," 7 0 11)) (TyBasic (mkSpan (mkPtok 19 "char" 4 17 7) (mkPtok 19 "char" 4 17 7)) (mkBasicType (mkSpan (mkPtok 19 "char" 4 17 7) (mkPtok 19 "char" 4 17 7)) (mkPtok 19 "char" 4 17 7))) (mkPtok 42 "x_y_z" 4 22 8) None (mkPtok 40 "," 7 0 11))); (InerObjectField (mkSpan (mkPtok 42 "T" 7 2 12) (mkPtok 40 "," 7 39 20)) None (InerObjectDecl (mkSpan (mkPtok 42 "T" 7 2 12) (mkPtok 3 "}" 7 37 19)) (mkPtok 42 "T" 7 2 12) (mkPtok 2 "{" 7 4 13) [(CheckSumField (mkSpan (mkPtok 42 "string_" 7 6 14) (mkPtok 40 "," 7 35 18)) (mkChecksumFieldDecl (mkSpan (mkPtok 42 "string_" 7 6 14) (mkPtok 40 "," 7 35 18)) None (mkPtok 42 "string_" 7 6 14) (mkCalculatedFrom (mkSpan (mkPtok 5 "@calculatedFrom(" 7 14 15) (mkPtok 6 ")" 7 33 17)) (mkPtok 5 "@calculatedFrom(" 7 14 15) (mkPtok 31 """1""" 7 30 16) (mkPtok 6 ")" 7 33 17)) None (mkPtok 40 "," 7 35 18)))] (mkPtok 3 "}" 7 37 19)) (mkPtok 40 "," 7 39 20)); (MetaField (mkSpan (mkPtok 29 "f64" 8 0 21) (mkPtok 40 "," 9 8 23)) None (mkMetaDecl (mkSpan (mkPtok 29 "f64" 8 0 21) (mkPtok 40 "," 9 8 23)) (TyBasic (mkSpan (mkPtok 29 "f64" 8 0 21) (mkPtok 29 "f64" 8 0 21)) (mkBasicType (mkSpan (mkPtok 29 "f64" 8 0 21) (mkPtok 29 "f64" 8 0 21)) (mkPtok 29 "f64" 8 0 21))) (mkPtok 42 "crc" 9 4 22) None (mkPtok 40 "," 9 8 23))); (CheckSumField (mkSpan (mkPtok 23 "u64" 10 0 24) (mkPtok 40 "," 13 25 31)) (mkChecksumFieldDecl (mkSpan (mkPtok 23 "u64" 10 0 24) (mkPtok 40 "," 13 25 31)) (Some (TyBasic (mkSpan (mkPtok 23 "u64" 10 0 24) (mkPtok 23 "u64" 10 0 24)) (mkBasicType (mkSpan (mkPtok 23 "u64" 10 0 24) (mkPtok 23 "u64" 10 0 24)) (mkPtok 23 "u64" 10 0 24)))) (mkPtok 42 "A" 10 4 25) (mkCalculatedFrom (mkSpan (mkPtok 5 "@calculatedFrom(" 13 0 28) (mkPtok 6 ")" 13 24 30)) (mkPtok 5 "@calculatedFrom(" 13 0 28) (mkPtok 31 """CRC32""" 13 16 29) (mkPtok 6 ")" 13 24 30)) None (mkPtok 40 "," 13 25 31)))] (mkPtok 3 "}" 13 27 32)) (mkPtok 40 "," 13 29 33)))] (mkPtok 3 "}" 13 30 34))); (DMeta (mkMetaDef (mkSpan (mkPtok 37 "MetaData" 13 32 35) (mkPtok 3 "}" 15 0 39)) (mkPtok 37 "MetaData" 13 32 35) (mkPtok 42 "MetaDataX" 13 41 36) (mkPtok 2 "{" 14 0 38) [] (mkPtok 3 "}" 15 0 39))); (DPacket (mkPacketDef (mkSpan (mkPtok 34 "root" 16 0 40) (mkPtok 3 "}" 20 0 56)) (Some (mkPtok 34 "root" 16 0 40)) (mkPtok 35 "packet" 16 5 41) (mkPtok 42 "u128" 17 0 42) (mkPtok 2 "{" 17 4 43) [(mkFieldWithAttr (mkSpan (mkPtok 42 "string_" 17 6 44) (mkPtok 40 "," 19 19 55)) [] (InerObjectField (mkSpan (mkPtok 42 "string_" 17 6 44) (mkPtok 40 "," 19 19 55)) None (InerObjectDecl (mkSpan (mkPtok 42 "string_" 17 6 44) (mkPtok 3 "}" 19 17 54)) (mkPtok 42 "string_" 17 6 44) (mkPtok 2 "{" 17 15 45) [(InerObjectField (mkSpan (mkPtok 36 "repeat" 18 4 46) (mkPtok 40 "," 19 16 53)) (Some (mkPtok 36 "repeat" 18 4 46)) (InerObjectDecl (mkSpan (mkPtok 42 "pack" 18 11 47) (mkPtok 3 "}" 19 14 52)) (mkPtok 42 "pack" 18 11 47) (mkPtok 2 "{" 18 16 48) [(ObjectField (mkSpan (mkPtok 42 "As" 19 0 49) (mkPtok 40 "," 19 12 51)) None (mkPtok 42 "As" 19 0 49) (Some (mkPtok 42 "matchKey" 19 3 50)) None (mkPtok 40 "," 19 12 51))] (mkPtok 3 "}" 19 14 52)) (mkPtok 40 "," 19 16 53))] (mkPtok 3 "}" 19 17 54)) (mkPtok 40 "," 19 19 55)))] (mkPtok 3 "}" 20 0 56)))])).
Eval vm_compute in ("<<<M51>>>" ++ check (runes_of_ascii "packet
i8i8 {
    char[]
    string_
// " ++ [27880; 37322]%N ++ runes_of_ascii "
//
`tab	here` //
, @lengthOf(
    T )
    @lengthOf(
uint8x)@rightPad ( '\x00' ) zchar[ 4294967296 // packet A { u8 x, }
]	f32a @calculatedFrom(
// " ++ [27880; 37322]%N ++ runes_of_ascii "
//x
""CRC32"")
    `it's`	, } // @lengthOf(
root // packet A { u8 x, }
packet	A
    { @rightPad
//	t
// packet A { u8 x, }
( )
    @calculatedFrom(""" ++ [233]%N ++ runes_of_ascii "t" ++ [233]%N ++ runes_of_ascii """ )	string T`crlf
line`
    ,
    u64 falsey `two words`
//x
// trailing space 
,zchar[ 65535	] lengthOf
`doc` , match // `tick` ""quote"" 'q'
crc
as int { [ ""packet"",
    ""it's""
    ]
: body ,007
:
    // a // b
    leftPad
,	""{,}"" :
    Z9_, [ 0123456789
    , 00
    , ""a\\"" // " ++ [128512]%N ++ runes_of_ascii " emoji
, """ ++ [128512]%N ++ runes_of_ascii """  , ""\" ++ [233]%N ++ runes_of_ascii """
    , ""`tick`"", ""it's"",
    """ ++ [233]%N ++ runes_of_ascii "t" ++ [233]%N ++ runes_of_ascii """]
: x_y_z,} // c
,}
")).
Eval vm_compute in ("<<<M61>>>" ++ check (runes_of_ascii "// packet A { u8 x, }
")).
Eval vm_compute in ("<<<M71>>>" ++ check (runes_of_ascii "options { o =""x y""
//x
// trailing space 
; float
    = ""\n"" metadata
// " ++ [128512]%N ++ runes_of_ascii " emoji
// `tick` ""quote"" 'q'
=
    """ ++ [128512]%N ++ runes_of_ascii """;Logon
//
//	t
=
true
; i8i8  = string// @lengthOf(
}")).
Eval vm_compute in ("<<<M81>>>" ++ check (runes_of_ascii "root packet Foo {i16 BodyLength `// not a comment`
    // c
    ,
    //x
    }options { // packet A { u8 x, }
} options
    {Z9_ = // trailing space 
false msg_type //
=
true f32a = ' ' zchar  =""`tick`"";}
")).
Eval vm_compute in ("<<<M91>>>" ++ check (runes_of_ascii "packet Logon{
    repeat string
a1 `crlf
line` ,@lengthOf(
Pad
    ) match  Pad as
u8x
    { 4294967296
//
// " ++ [128512]%N ++ runes_of_ascii " emoji
: // `tick` ""quote"" 'q'
i8i8 , } ,
asx a1 ,
// a // b
// @lengthOf(
@lengthOf(body ) //x
msg_type int
,tag`line1
line2` , repeat
// packet A { u8 x, }
// packet A { u8 x, }
Z9_{ u16
    packetx	@calculatedFrom(
    ""it's"" ) , } , @lengthOf(
// " ++ [128512]%N ++ runes_of_ascii " emoji
//	t
Logon ) // " ++ [128512]%N ++ runes_of_ascii " emoji
@rightPad (
)	@calculatedFrom(""" ++ [233]%N ++ runes_of_ascii "t" ++ [233]%N ++ runes_of_ascii """ ) repeat roots	u128 // `tick` ""quote"" 'q'
,@calculatedFrom( ""{,}"") chars{ match // " ++ [128512]%N ++ runes_of_ascii " emoji
roots as Foo {
    10 :trueish
// trailing space 
// @lengthOf(
, },} , i8i8 ,@calculatedFrom( ""x y"" ) @calculatedFrom( ""a\""b"" ) repeat Z9_
{  f32a msg_type ,
repeat o{
// " ++ [128512]%N ++ runes_of_ascii " emoji
// @lengthOf(
zchar[ 0	]
charz @calculatedFrom(""CRC32"" ) ,
}
,}
    ,
} root
    packet	BodyLength
{ calculatedFrom
{
char[]x@calculatedFrom(
""\n""
)
    , // @lengthOf(
_x @calculatedFrom( ""`tick`""
    ),	repeat u128,float Packet
`" ++ [28040; 24687; 31867; 22411]%N ++ runes_of_ascii "`
    ,}
    , repeat Foo	{ uint64 a1
    // `tick` ""quote"" 'q'
    , } , /// triple
repeat char[ 42 ] matchKey `it's` ,	lengthOf{ // " ++ [27880; 37322]%N ++ runes_of_ascii "
u128 trueish  `// not a comment`, match
chars as MetaDataX {
00
    : x_y_z 1
: trueish, [ 0123456789 ]
    :	calculatedFrom , [
    ""CRC32"" ,	""\" ++ [233]%N ++ runes_of_ascii """
, ""// no comment""
    , ""it's"" ,	""packet""
    , 007 ] : Pad
,
} ,  } /// triple
, repeat char[] Logon // `tick` ""quote"" 'q'
, @leftPad
    ( '0' //x
) f32
    Pad
    @calculatedFrom(""CRC32"" ) , @lengthOf(
BodyLength )  options1 @calculatedFrom( ""`tick`"") , A {
// " ++ [27880; 37322]%N ++ runes_of_ascii "
//	t
uint8 charz`u8 x,`
, falsey x
`line1
line2`  , repeat
    int8 Packet
    ,zchar[ 1 ] float
    , }
, char[ 65535 ] matchKey
@calculatedFrom( //
""x y""
    ) // trailing space 
, @lengthOf( o//x
)match	chars
    as As {	1
    : f32a
,
} , }
packet
//	t
// packet A { u8 x, }
int
{ @calculatedFrom( // trailing space 
""// no comment"" ) @rightPad ( ) @calculatedFrom( """ ++ [233]%N ++ runes_of_ascii "t" ++ [233]%N ++ runes_of_ascii """ ) roots _x
/// triple
// trailing space 
`say ""hi""`	, // `tick` ""quote"" 'q'
} options { o= ""{,}"" Pad =
    255 ;  } // " ++ [27880; 37322]%N)).
Eval vm_compute in ("<<<M101>>>" ++ check (runes_of_ascii "options // " ++ [27880; 37322]%N ++ runes_of_ascii "
{
// packet A { u8 x, }
// a // b
}
    packet T {
    }
")).
Eval vm_compute in ("<<<M111>>>" ++ check (runes_of_ascii "
packet a1{ match /// triple
T as pack
{007 : Header ,} , calculatedFrom	, } MetaData
options1
    { }")).
Eval vm_compute in ("<<<T111>>>" ++ terms [mkTok 35 "packet" 2 0 false; mkTok 42 "a1" 2 7 false; mkTok 2 "{" 2 9 false; mkTok 38 "match" 2 11 false; mkTok 44 "/// triple" 2 17 true; mkTok 42 "T" 3 0 false; mkTok 17 "as" 3 2 false; mkTok 42 "pack" 3 5 false; mkTok 2 "{" 4 0 false; mkTok 30 "007" 4 1 false; mkTok 39 ":" 4 5 false; mkTok 42 "Header" 4 7 false; mkTok 40 "," 4 14 false; mkTok 3 "}" 4 15 false; mkTok 40 "," 4 17 false; mkTok 42 "calculatedFrom" 4 19 false; mkTok 40 "," 4 34 false; mkTok 3 "}" 4 36 false; mkTok 37 "MetaData" 4 38 false; mkTok 42 "options1" 5 0 false; mkTok 2 "{" 6 4 false; mkTok 3 "}" 6 6 false; mkTok 0 "<EOF>" 6 7 false] (mkPacket (mkPtok 35 "packet" 2 0 0) (Some (mkPtok 3 "}" 6 6 21)) [(DPacket (mkPacketDef (mkSpan (mkPtok 35 "packet" 2 0 0) (mkPtok 3 "}" 4 36 17)) None (mkPtok 35 "packet" 2 0 0) (mkPtok 42 "a1" 2 7 1) (mkPtok 2 "{" 2 9 2) [(mkFieldWithAttr (mkSpan (mkPtok 38 "match" 2 11 3) (mkPtok 40 "," 4 17 14)) [] (MatchField (mkSpan (mkPtok 38 "match" 2 11 3) (mkPtok 40 "," 4 17 14)) (mkMatchFieldDecl (mkSpan (mkPtok 38 "match" 2 11 3) (mkPtok 3 "}" 4 15 13)) (mkPtok 38 "match" 2 11 3) (mkPtok 42 "T" 3 0 5) (mkPtok 17 "as" 3 2 6) (mkPtok 42 "pack" 3 5 7) (mkPtok 2 "{" 4 0 8) [(mkMatchPair (mkSpan (mkPtok 30 "007" 4 1 9) (mkPtok 40 "," 4 14 12)) (MKDigits (mkPtok 30 "007" 4 1 9)) (mkPtok 39 ":" 4 5 10) (mkPtok 42 "Header" 4 7 11) (Some (mkPtok 40 "," 4 14 12)))] (mkPtok 3 "}" 4 15 13)) (mkPtok 40 "," 4 17 14))); (mkFieldWithAttr (mkSpan (mkPtok 42 "calculatedFrom" 4 19 15) (mkPtok 40 "," 4 34 16)) [] (ObjectField (mkSpan (mkPtok 42 "calculatedFrom" 4 19 15) (mkPtok 40 "," 4 34 16)) None (mkPtok 42 "calculatedFrom" 4 19 15) None None (mkPtok 40 "," 4 34 16)))] (mkPtok 3 "}" 4 36 17))); (DMeta (mkMetaDef (mkSpan (mkPtok 37 "MetaData" 4 38 18) (mkPtok 3 "}" 6 6 21)) (mkPtok 37 "MetaData" 4 38 18) (mkPtok 42 "options1" 5 0 19) (mkPtok 2 "{" 6 4 20) [] (mkPtok 3 "}" 6 6 21)))])).
Eval vm_compute in ("<<<M121>>>" ++ check (runes_of_ascii "packet string_ { trueish
{options1 @lengthOf( Z9_ ) `// not a comment` , // c
_x
    //	t
    @lengthOf( u128), /// triple
match packetx as charz{[
1 , 3 ,
""a\\"" //x
,10 ] : lengthOf ,
""" ++ [28040; 24687]%N ++ runes_of_ascii """
:float	""CRC32"" : // a // b
calculatedFrom
, """ ++ [128512]%N ++ runes_of_ascii """ : tag , 00
:
rootA, }
    ,} ,}")).
Eval vm_compute in ("<<<M131>>>" ++ check (runes_of_ascii "root packet pack { @calculatedFrom(	""`tick`"")
    @calculatedFrom(
    // " ++ [128512]%N ++ runes_of_ascii " emoji
    ""\n"" ) @tag( 0123456789 )match zchar as string_ {	[ ""packet"" ] //
:  i8i8 , [
0123456789 , 7	] :string_ ,
//x
// `tick` ""quote"" 'q'
0 : options1 ,
""\" ++ [233]%N ++ runes_of_ascii """
:// `tick` ""quote"" 'q'
Foo	,}
, @lengthOf(	calculatedFrom )
Foo	@lengthOf(
    x)
`crlf
line`
, lengthOf @lengthOf(int )  ,T , @lengthOf(  rootA) zchar[
007 ]
// " ++ [128512]%N ++ runes_of_ascii " emoji
// packet A { u8 x, }
x`crlf
line` , @calculatedFrom(
    ""\n""	) repeat f64	chars
, matchKey _x, }")).
Eval vm_compute in ("<<<M141>>>" ++ check (runes_of_ascii "MetaData pack { f64 A `{ , }` ,}

")).
Eval vm_compute in ("<<<M151>>>" ++ check (runes_of_ascii "root //	t
packet
BodyLength { zchar[ 10
]
u128
    ,
uint8 zchar ``
    , repeat falsey ,float64 chars@calculatedFrom( """ ++ [128512]%N ++ runes_of_ascii """
) , char[]matchKey, repeat //x
uint16 matchKey ,
@calculatedFrom( ""CRC32"" ) char[ 3 ] u `" ++ [28040; 24687; 31867; 22411]%N ++ runes_of_ascii "` , @leftPad ( '0'
    //	t
    ) u64  charz @calculatedFrom(""" ++ [128512]%N ++ runes_of_ascii """), }
root packet chars //
{} MetaData Z9_{ zchar[ 255 ] _x,int32 f32a , int8
asx `` ,
o
packetx // `tick` ""quote"" 'q'
, }
    options
// trailing space 
// c
{	A
=
4294967296
//
// packet A { u8 x, }
;
Foo = ""x y"" ;Foo =  ' ' } //	t")).
Eval vm_compute in ("<<<M161>>>" ++ check (runes_of_ascii "options { } packet
    //	t
    falsey /// triple
{	i64 calculatedFrom
    @calculatedFrom(
    //
    ""a\\"" )
`it's` ,
char[ 00 ] falsey ,	@calculatedFrom(""1"" ) @calculatedFrom( ""{,}""
    )
i32	float	,@tag(3 //
)
    @calculatedFrom(  ""CRC32"" ) int64 options1 @lengthOf(roots ) `two words` , @calculatedFrom(""a\\""	) repeat trueish { repeat charz
,trueish // trailing space 
tag //x
`two words` ,
repeat u64 Logon  `" ++ [28040; 24687; 31867; 22411]%N ++ runes_of_ascii "`,},
    @leftPad(
    //x
    '0'
)// " ++ [128512]%N ++ runes_of_ascii " emoji
@rightPad (
// " ++ [128512]%N ++ runes_of_ascii " emoji
//
' ' )
//	t
//
u roots,repeat
A	{i32 int
@lengthOf( zchar
)`" ++ [233]%N ++ runes_of_ascii "`
    ,
    }//	t
, u64 A , @tag( 10 ) char[]
u8x, zchar[
10 ] pack
//
// " ++ [27880; 37322]%N ++ runes_of_ascii "
@calculatedFrom(""1"" ) `say ""hi""` ,	} packet Z9_//	t
{// " ++ [27880; 37322]%N ++ runes_of_ascii "
@leftPad( '0')  repeat
// a // b
// @lengthOf(
As charz
, body @calculatedFrom( ""it's""
    )`crlf
line` ,
    // " ++ [27880; 37322]%N ++ runes_of_ascii "
    @leftPad ('0'
) zchar[ 4294967296 ]
A @calculatedFrom(""packet""
    // trailing space 
    ) `" ++ [233]%N ++ runes_of_ascii "`  , repeat body
    Header`" ++ [233]%N ++ runes_of_ascii "`,}
")).
Eval vm_compute in ("<<<M171>>>" ++ check (runes_of_ascii "MetaData
Packet {
    float	Pad ,u32 // " ++ [128512]%N ++ runes_of_ascii " emoji
Foo `it's`
    ,uint16 stringy
    , } packet
    stringy // @lengthOf(
{ @lengthOf(
    chars
) repeat f32 pack ,  @lengthOf(
rootA
)
    // @lengthOf(
    @calculatedFrom( ""CRC32""  ) char[] MetaDataX
    // a // b
    `" ++ [28040; 24687; 31867; 22411]%N ++ runes_of_ascii "` , @tag( 4294967296
    ) len	@calculatedFrom(""a	b"")
,
} packet
stringy { f32 leftPad/// triple
,
stringy { int	@calculatedFrom(""1"" ) `" ++ [233]%N ++ runes_of_ascii "`,	char[] o, zchar[ 0123456789  ]
    matchKey @lengthOf(	lengthOf )
`two words`
, }
,
@leftPad ('\x00'
) @lengthOf(
// " ++ [128512]%N ++ runes_of_ascii " emoji
/// triple
falsey) repeat string falsey
    `// not a comment` // trailing space 
, //	t
string Pad
    , }

")).
Eval vm_compute in ("<<<M181>>>" ++ check (runes_of_ascii "root
packet charz {// a // b
@rightPad
    //	t
    (
) @lengthOf(
    Pad ) @rightPad ( ' '
) MetaDataX @lengthOf( BodyLength
) `" ++ [28040; 24687; 31867; 22411]%N ++ runes_of_ascii "`
,
    repeatCount /// triple
A
`
`,	@tag(
    4294967296) // trailing space 
metadata u8x ,
    @calculatedFrom( ""packet"" ) repeat Pad // @lengthOf(
`say ""hi""`
,  } root packet// trailing space 
rootA {// " ++ [27880; 37322]%N ++ runes_of_ascii "
rootA	{ string trueish ,
}
    ,
} MetaData
lengthOf {
    } packet _x { repeat msg_type { char[ 65535 ]
crc ,	lengthOf
    {
    Packet ,
    // c
    string_
    @calculatedFrom(""a\""b""),
f32 rootA//
,
}	,
// " ++ [27880; 37322]%N ++ runes_of_ascii "
// `tick` ""quote"" 'q'
} ,i16 int  , @lengthOf( matchKey) //	t
i8i8 int `two words` ,
// packet A { u8 x, }
// @lengthOf(
repeat Logon{
repeat
    //	t
    uint8	f32a ,
    a1
    //
    { repeat char[1
] Foo , }  , uint8x
// @lengthOf(
// packet A { u8 x, }
{ char[ 4294967296 ]
T `{ , }`
, u32
    repeatCount `" ++ [28040; 24687; 31867; 22411]%N ++ runes_of_ascii "`
    // c
    ,} , }
    ,
repeat MetaDataX
, char[ 4294967296 ] i8i8//
@lengthOf( _x ) ,}
packet falsey {
    tag
{ char[ // " ++ [27880; 37322]%N ++ runes_of_ascii "
00
    // `tick` ""quote"" 'q'
    ] int@lengthOf( u128
    ) ,
}
,roots body ,u16 stringy
// trailing space 
// @lengthOf(
@lengthOf( Pad ) `line1
line2` ,
stringy
@lengthOf(  chars ) ,uint8 lengthOf
`" ++ [233]%N ++ runes_of_ascii "` ,
    // " ++ [128512]%N ++ runes_of_ascii " emoji
    }")).
Eval vm_compute in ("<<<T181>>>" ++ terms [mkTok 34 "root" 1 0 false; mkTok 35 "packet" 2 0 false; mkTok 42 "charz" 2 7 false; mkTok 2 "{" 2 13 false; mkTok 44 "// a // b" 2 14 true; mkTok 32 "@rightPad" 3 0 false; mkTok 44 (string_of_bytes [47; 47; 9; 116]%N) 4 4 true; mkTok 8 "(" 5 4 false; mkTok 6 ")" 6 0 false; mkTok 7 "@lengthOf(" 6 2 false; mkTok 42 "Pad" 7 4 false; mkTok 6 ")" 7 8 false; mkTok 32 "@rightPad" 7 10 false; mkTok 8 "(" 7 20 false; mkTok 33 "' '" 7 22 false; mkTok 6 ")" 8 0 false; mkTok 42 "MetaDataX" 8 2 false; mkTok 7 "@lengthOf(" 8 12 false; mkTok 42 "BodyLength" 8 23 false; mkTok 6 ")" 9 0 false; mkTok 43 (string_of_bytes [96; 230; 182; 136; 230; 129; 175; 231; 177; 187; 229; 158; 139; 96]%N) 9 2 false; mkTok 40 "," 10 0 false; mkTok 42 "repeatCount" 11 4 false; mkTok 44 "/// triple" 11 16 true; mkTok 42 "A" 12 0 false; mkTok 43 (string_of_bytes [96; 10; 96]%N) 13 0 false; mkTok 40 "," 14 1 false; mkTok 9 "@tag(" 14 3 false; mkTok 30 "4294967296" 15 4 false; mkTok 6 ")" 15 14 false; mkTok 44 "// trailing space " 15 16 true; mkTok 42 "metadata" 16 0 false; mkTok 42 "u8x" 16 9 false; mkTok 40 "," 16 13 false; mkTok 5 "@calculatedFrom(" 17 4 false; mkTok 31 """packet""" 17 21 false; mkTok 6 ")" 17 30 false; mkTok 36 "repeat" 17 32 false; mkTok 42 "Pad" 17 39 false; mkTok 44 "// @lengthOf(" 17 43 true; mkTok 43 "`say ""hi""`" 18 0 false; mkTok 40 "," 19 0 false; mkTok 3 "}" 19 3 false; mkTok 34 "root" 19 5 false; mkTok 35 "packet" 19 10 false; mkTok 44 "// trailing space " 19 16 true; mkTok 42 "rootA" 20 0 false; mkTok 2 "{" 20 6 false; mkTok 44 (string_of_bytes [47; 47; 32; 230; 179; 168; 233; 135; 138]%N) 20 7 true; mkTok 42 "rootA" 21 0 false; mkTok 2 "{" 21 6 false; mkTok 15 "string" 21 8 false; mkTok 42 "trueish" 21 15 false; mkTok 40 "," 21 23 false; mkTok 3 "}" 22 0 false; mkTok 40 "," 23 4 false; mkTok 3 "}" 24 0 false; mkTok 37 "MetaData" 24 2 false; mkTok 42 "lengthOf" 25 0 false; mkTok 2 "{" 25 9 false; mkTok 3 "}" 26 4 false; mkTok 35 "packet" 26 6 false; mkTok 42 "_x" 26 13 false; mkTok 2 "{" 26 16 false; mkTok 36 "repeat" 26 18 false; mkTok 42 "msg_type" 26 25 false; mkTok 2 "{" 26 34 false; mkTok 12 "char[" 26 36 false; mkTok 30 "65535" 26 42 false; mkTok 13 "]" 26 48 false; mkTok 42 "crc" 27 0 false; mkTok 40 "," 27 4 false; mkTok 42 "lengthOf" 27 6 false; mkTok 2 "{" 28 4 false; mkTok 42 "Packet" 29 4 false; mkTok 40 "," 29 11 false; mkTok 44 "// c" 30 4 true; mkTok 42 "string_" 31 4 false; mkTok 5 "@calculatedFrom(" 32 4 false; mkTok 31 """a\""b""" 32 20 false; mkTok 6 ")" 32 26 false; mkTok 40 "," 32 27 false; mkTok 28 "f32" 33 0 false; mkTok 42 "rootA" 33 4 false; mkTok 44 "//" 33 9 true; mkTok 40 "," 34 0 false; mkTok 3 "}" 35 0 false; mkTok 40 "," 35 2 false; mkTok 44 (string_of_bytes [47; 47; 32; 230; 179; 168; 233; 135; 138]%N) 36 0 true; mkTok 44 "// `tick` ""quote"" 'q'" 37 0 true; mkTok 3 "}" 38 0 false; mkTok 40 "," 38 2 false; mkTok 25 "i16" 38 3 false; mkTok 42 "int" 38 7 false; mkTok 40 "," 38 12 false; mkTok 7 "@lengthOf(" 38 14 false; mkTok 42 "matchKey" 38 25 false; mkTok 6 ")" 38 33 false; mkTok 44 (string_of_bytes [47; 47; 9; 116]%N) 38 35 true; mkTok 42 "i8i8" 39 0 false; mkTok 42 "int" 39 5 false; mkTok 43 "`two words`" 39 9 false; mkTok 40 "," 39 21 false; mkTok 44 "// packet A { u8 x, }" 40 0 true; mkTok 44 "// @lengthOf(" 41 0 true; mkTok 36 "repeat" 42 0 false; mkTok 42 "Logon" 42 7 false; mkTok 2 "{" 42 12 false; mkTok 36 "repeat" 43 0 false; mkTok 44 (string_of_bytes [47; 47; 9; 116]%N) 44 4 true; mkTok 20 "uint8" 45 4 false; mkTok 42 "f32a" 45 10 false; mkTok 40 "," 45 15 false; mkTok 42 "a1" 46 4 false; mkTok 44 "//" 47 4 true; mkTok 2 "{" 48 4 false; mkTok 36 "repeat" 48 6 false; mkTok 12 "char[" 48 13 false; mkTok 30 "1" 48 18 false; mkTok 13 "]" 49 0 false; mkTok 42 "Foo" 49 2 false; mkTok 40 "," 49 6 false; mkTok 3 "}" 49 8 false; mkTok 40 "," 49 11 false; mkTok 42 "uint8x" 49 13 false; mkTok 44 "// @lengthOf(" 50 0 true; mkTok 44 "// packet A { u8 x, }" 51 0 true; mkTok 2 "{" 52 0 false; mkTok 12 "char[" 52 2 false; mkTok 30 "4294967296" 52 8 false; mkTok 13 "]" 52 19 false; mkTok 42 "T" 53 0 false; mkTok 43 "`{ , }`" 53 2 false; mkTok 40 "," 54 0 false; mkTok 22 "u32" 54 2 false; mkTok 42 "repeatCount" 55 4 false; mkTok 43 (string_of_bytes [96; 230; 182; 136; 230; 129; 175; 231; 177; 187; 229; 158; 139; 96]%N) 55 16 false; mkTok 44 "// c" 56 4 true; mkTok 40 "," 57 4 false; mkTok 3 "}" 57 5 false; mkTok 40 "," 57 7 false; mkTok 3 "}" 57 9 false; mkTok 40 "," 58 4 false; mkTok 36 "repeat" 59 0 false; mkTok 42 "MetaDataX" 59 7 false; mkTok 40 "," 60 0 false; mkTok 12 "char[" 60 2 false; mkTok 30 "4294967296" 60 8 false; mkTok 13 "]" 60 19 false; mkTok 42 "i8i8" 60 21 false; mkTok 44 "//" 60 25 true; mkTok 7 "@lengthOf(" 61 0 false; mkTok 42 "_x" 61 11 false; mkTok 6 ")" 61 14 false; mkTok 40 "," 61 16 false; mkTok 3 "}" 61 17 false; mkTok 35 "packet" 62 0 false; mkTok 42 "falsey" 62 7 false; mkTok 2 "{" 62 14 false; mkTok 42 "tag" 63 4 false; mkTok 2 "{" 64 0 false; mkTok 12 "char[" 64 2 false; mkTok 44 (string_of_bytes [47; 47; 32; 230; 179; 168; 233; 135; 138]%N) 64 8 true; mkTok 30 "00" 65 0 false; mkTok 44 "// `tick` ""quote"" 'q'" 66 4 true; mkTok 13 "]" 67 4 false; mkTok 42 "int" 67 6 false; mkTok 7 "@lengthOf(" 67 9 false; mkTok 42 "u128" 67 20 false; mkTok 6 ")" 68 4 false; mkTok 40 "," 68 6 false; mkTok 3 "}" 69 0 false; mkTok 40 "," 70 0 false; mkTok 42 "roots" 70 1 false; mkTok 42 "body" 70 7 false; mkTok 40 "," 70 12 false; mkTok 21 "u16" 70 13 false; mkTok 42 "stringy" 70 17 false; mkTok 44 "// trailing space " 71 0 true; mkTok 44 "// @lengthOf(" 72 0 true; mkTok 7 "@lengthOf(" 73 0 false; mkTok 42 "Pad" 73 11 false; mkTok 6 ")" 73 15 false; mkTok 43 (string_of_bytes [96; 108; 105; 110; 101; 49; 10; 108; 105; 110; 101; 50; 96]%N) 73 17 false; mkTok 40 "," 74 7 false; mkTok 42 "stringy" 75 0 false; mkTok 7 "@lengthOf(" 76 0 false; mkTok 42 "chars" 76 12 false; mkTok 6 ")" 76 18 false; mkTok 40 "," 76 20 false; mkTok 20 "uint8" 76 21 false; mkTok 42 "lengthOf" 76 27 false; mkTok 43 (string_of_bytes [96; 195; 169; 96]%N) 77 0 false; mkTok 40 "," 77 4 false; mkTok 44 (string_of_bytes [47; 47; 32; 240; 159; 152; 128; 32; 101; 109; 111; 106; 105]%N) 78 4 true; mkTok 3 "}" 79 4 false; mkTok 0 "<EOF>" 79 5 false] (mkPacket (mkPtok 34 "root" 1 0 0) (Some (mkPtok 3 "}" 79 4 195)) [(DPacket (mkPacketDef (mkSpan (mkPtok 34 "root" 1 0 0) (mkPtok 3 "}" 19 3 42)) (Some (mkPtok 34 "root" 1 0 0)) (mkPtok 35 "packet" 2 0 1) (mkPtok 42 "charz" 2 7 2) (mkPtok 2 "{" 2 13 3) [(mkFieldWithAttr (mkSpan (mkPtok 32 "@rightPad" 3 0 5) (mkPtok 40 "," 10 0 21)) [(FAPadding (mkSpan (mkPtok 32 "@rightPad" 3 0 5) (mkPtok 6 ")" 6 0 8)) (mkPaddingAttr (mkSpan (mkPtok 32 "@rightPad" 3 0 5) (mkPtok 6 ")" 6 0 8)) (mkPtok 32 "@rightPad" 3 0 5) (mkPtok 8 "(" 5 4 7) None (mkPtok 6 ")" 6 0 8))); (FALengthOf (mkSpan (mkPtok 7 "@lengthOf(" 6 2 9) (mkPtok 6 ")" 7 8 11)) (mkLengthOf (mkSpan (mkPtok 7 "@lengthOf(" 6 2 9) (mkPtok 6 ")" 7 8 11)) (mkPtok 7 "@lengthOf(" 6 2 9) (mkPtok 42 "Pad" 7 4 10) (mkPtok 6 ")" 7 8 11))); (FAPadding (mkSpan (mkPtok 32 "@rightPad" 7 10 12) (mkPtok 6 ")" 8 0 15)) (mkPaddingAttr (mkSpan (mkPtok 32 "@rightPad" 7 10 12) (mkPtok 6 ")" 8 0 15)) (mkPtok 32 "@rightPad" 7 10 12) (mkPtok 8 "(" 7 20 13) (Some (mkPtok 33 "' '" 7 22 14)) (mkPtok 6 ")" 8 0 15)))] (LengthField (mkSpan (mkPtok 42 "MetaDataX" 8 2 16) (mkPtok 40 "," 10 0 21)) (mkLengthFieldDecl (mkSpan (mkPtok 42 "MetaDataX" 8 2 16) (mkPtok 40 "," 10 0 21)) None (mkPtok 42 "MetaDataX" 8 2 16) (mkLengthOf (mkSpan (mkPtok 7 "@lengthOf(" 8 12 17) (mkPtok 6 ")" 9 0 19)) (mkPtok 7 "@lengthOf(" 8 12 17) (mkPtok 42 "BodyLength" 8 23 18) (mkPtok 6 ")" 9 0 19)) (Some (mkPtok 43 (string_of_bytes [96; 230; 182; 136; 230; 129; 175; 231; 177; 187; 229; 158; 139; 96]%N) 9 2 20)) (mkPtok 40 "," 10 0 21)))); (mkFieldWithAttr (mkSpan (mkPtok 42 "repeatCount" 11 4 22) (mkPtok 40 "," 14 1 26)) [] (ObjectField (mkSpan (mkPtok 42 "repeatCount" 11 4 22) (mkPtok 40 "," 14 1 26)) None (mkPtok 42 "repeatCount" 11 4 22) (Some (mkPtok 42 "A" 12 0 24)) (Some (mkPtok 43 (string_of_bytes [96; 10; 96]%N) 13 0 25)) (mkPtok 40 "," 14 1 26))); (mkFieldWithAttr (mkSpan (mkPtok 9 "@tag(" 14 3 27) (mkPtok 40 "," 16 13 33)) [(FATag (mkSpan (mkPtok 9 "@tag(" 14 3 27) (mkPtok 6 ")" 15 14 29)) (mkTagAttr (mkSpan (mkPtok 9 "@tag(" 14 3 27) (mkPtok 6 ")" 15 14 29)) (mkPtok 9 "@tag(" 14 3 27) (mkPtok 30 "4294967296" 15 4 28) (mkPtok 6 ")" 15 14 29)))] (ObjectField (mkSpan (mkPtok 42 "metadata" 16 0 31) (mkPtok 40 "," 16 13 33)) None (mkPtok 42 "metadata" 16 0 31) (Some (mkPtok 42 "u8x" 16 9 32)) None (mkPtok 40 "," 16 13 33))); (mkFieldWithAttr (mkSpan (mkPtok 5 "@calculatedFrom(" 17 4 34) (mkPtok 40 "," 19 0 41)) [(FACalculatedFrom (mkSpan (mkPtok 5 "@calculatedFrom(" 17 4 34) (mkPtok 6 ")" 17 30 36)) (mkCalculatedFrom (mkSpan (mkPtok 5 "@calculatedFrom(" 17 4 34) (mkPtok 6 ")" 17 30 36)) (mkPtok 5 "@calculatedFrom(" 17 4 34) (mkPtok 31 """packet""" 17 21 35) (mkPtok 6 ")" 17 30 36)))] (ObjectField (mkSpan (mkPtok 36 "repeat" 17 32 37) (mkPtok 40 "," 19 0 41)) (Some (mkPtok 36 "repeat" 17 32 37)) (mkPtok 42 "Pad" 17 39 38) None (Some (mkPtok 43 "`say ""hi""`" 18 0 40)) (mkPtok 40 "," 19 0 41)))] (mkPtok 3 "}" 19 3 42))); (DPacket (mkPacketDef (mkSpan (mkPtok 34 "root" 19 5 43) (mkPtok 3 "}" 24 0 56)) (Some (mkPtok 34 "root" 19 5 43)) (mkPtok 35 "packet" 19 10 44) (mkPtok 42 "rootA" 20 0 46) (mkPtok 2 "{" 20 6 47) [(mkFieldWithAttr (mkSpan (mkPtok 42 "rootA" 21 0 49) (mkPtok 40 "," 23 4 55)) [] (InerObjectField (mkSpan (mkPtok 42 "rootA" 21 0 49) (mkPtok 40 "," 23 4 55)) None (InerObjectDecl (mkSpan (mkPtok 42 "rootA" 21 0 49) (mkPtok 3 "}" 22 0 54)) (mkPtok 42 "rootA" 21 0 49) (mkPtok 2 "{" 21 6 50) [(MetaField (mkSpan (mkPtok 15 "string" 21 8 51) (mkPtok 40 "," 21 23 53)) None (mkMetaDecl (mkSpan (mkPtok 15 "string" 21 8 51) (mkPtok 40 "," 21 23 53)) (TyDynamic (mkSpan (mkPtok 15 "string" 21 8 51) (mkPtok 15 "string" 21 8 51)) (mkDynamicString (mkSpan (mkPtok 15 "string" 21 8 51) (mkPtok 15 "string" 21 8 51)) (mkPtok 15 "string" 21 8 51))) (mkPtok 42 "trueish" 21 15 52) None (mkPtok 40 "," 21 23 53)))] (mkPtok 3 "}" 22 0 54)) (mkPtok 40 "," 23 4 55)))] (mkPtok 3 "}" 24 0 56))); (DMeta (mkMetaDef (mkSpan (mkPtok 37 "MetaData" 24 2 57) (mkPtok 3 "}" 26 4 60)) (mkPtok 37 "MetaData" 24 2 57) (mkPtok 42 "lengthOf" 25 0 58) (mkPtok 2 "{" 25 9 59) [] (mkPtok 3 "}" 26 4 60))); (DPacket (mkPacketDef (mkSpan (mkPtok 35 "packet" 26 6 61) (mkPtok 3 "}" 61 17 155)) None (mkPtok 35 "packet" 26 6 61) (mkPtok 42 "_x" 26 13 62) (mkPtok 2 "{" 26 16 63) [(mkFieldWithAttr (mkSpan (mkPtok 36 "repeat" 26 18 64) (mkPtok 40 "," 38 2 91)) [] (InerObjectField (mkSpan (mkPtok 36 "repeat" 26 18 64) (mkPtok 40 "," 38 2 91)) (Some (mkPtok 36 "repeat" 26 18 64)) (InerObjectDecl (mkSpan (mkPtok 42 "msg_type" 26 25 65) (mkPtok 3 "}" 38 0 90)) (mkPtok 42 "msg_type" 26 25 65) (mkPtok 2 "{" 26 34 66) [(MetaField (mkSpan (mkPtok 12 "char[" 26 36 67) (mkPtok 40 "," 27 4 71)) None (mkMetaDecl (mkSpan (mkPtok 12 "char[" 26 36 67) (mkPtok 40 "," 27 4 71)) (TyFixed (mkSpan (mkPtok 12 "char[" 26 36 67) (mkPtok 13 "]" 26 48 69)) (mkFixedString (mkSpan (mkPtok 12 "char[" 26 36 67) (mkPtok 13 "]" 26 48 69)) (mkPtok 12 "char[" 26 36 67) (mkPtok 30 "65535" 26 42 68) (mkPtok 13 "]" 26 48 69))) (mkPtok 42 "crc" 27 0 70) None (mkPtok 40 "," 27 4 71))); (InerObjectField (mkSpan (mkPtok 42 "lengthOf" 27 6 72) (mkPtok 40 "," 35 2 87)) None (InerObjectDecl (mkSpan (mkPtok 42 "lengthOf" 27 6 72) (mkPtok 3 "}" 35 0 86)) (mkPtok 42 "lengthOf" 27 6 72) (mkPtok 2 "{" 28 4 73) [(ObjectField (mkSpan (mkPtok 42 "Packet" 29 4 74) (mkPtok 40 "," 29 11 75)) None (mkPtok 42 "Packet" 29 4 74) None None (mkPtok 40 "," 29 11 75)); (CheckSumField (mkSpan (mkPtok 42 "string_" 31 4 77) (mkPtok 40 "," 32 27 81)) (mkChecksumFieldDecl (mkSpan (mkPtok 42 "string_" 31 4 77) (mkPtok 40 "," 32 27 81)) None (mkPtok 42 "string_" 31 4 77) (mkCalculatedFrom (mkSpan (mkPtok 5 "@calculatedFrom(" 32 4 78) (mkPtok 6 ")" 32 26 80)) (mkPtok 5 "@calculatedFrom(" 32 4 78) (mkPtok 31 """a\""b""" 32 20 79) (mkPtok 6 ")" 32 26 80)) None (mkPtok 40 "," 32 27 81))); (MetaField (mkSpan (mkPtok 28 "f32" 33 0 82) (mkPtok 40 "," 34 0 85)) None (mkMetaDecl (mkSpan (mkPtok 28 "f32" 33 0 82) (mkPtok 40 "," 34 0 85)) (TyBasic (mkSpan (mkPtok 28 "f32" 33 0 82) (mkPtok 28 "f32" 33 0 82)) (mkBasicType (mkSpan (mkPtok 28 "f32" 33 0 82) (mkPtok 28 "f32" 33 0 82)) (mkPtok 28 "f32" 33 0 82))) (mkPtok 42 "rootA" 33 4 83) None (mkPtok 40 "," 34 0 85)))] (mkPtok 3 "}" 35 0 86)) (mkPtok 40 "," 35 2 87))] (mkPtok 3 "}" 38 0 90)) (mkPtok 40 "," 38 2 91))); (mkFieldWithAttr (mkSpan (mkPtok 25 "i16" 38 3 92) (mkPtok 40 "," 38 12 94)) [] (MetaField (mkSpan (mkPtok 25 "i16" 38 3 92) (mkPtok 40 "," 38 12 94)) None (mkMetaDecl (mkSpan (mkPtok 25 "i16" 38 3 92) (mkPtok 40 "," 38 12 94)) (TyBasic (mkSpan (mkPtok 25 "i16" 38 3 92) (mkPtok 25 "i16" 38 3 92)) (mkBasicType (mkSpan (mkPtok 25 "i16" 38 3 92) (mkPtok 25 "i16" 38 3 92)) (mkPtok 25 "i16" 38 3 92))) (mkPtok 42 "int" 38 7 93) None (mkPtok 40 "," 38 12 94)))); (mkFieldWithAttr (mkSpan (mkPtok 7 "@lengthOf(" 38 14 95) (mkPtok 40 "," 39 21 102)) [(FALengthOf (mkSpan (mkPtok 7 "@lengthOf(" 38 14 95) (mkPtok 6 ")" 38 33 97)) (mkLengthOf (mkSpan (mkPtok 7 "@lengthOf(" 38 14 95) (mkPtok 6 ")" 38 33 97)) (mkPtok 7 "@lengthOf(" 38 14 95) (mkPtok 42 "matchKey" 38 25 96) (mkPtok 6 ")" 38 33 97)))] (ObjectField (mkSpan (mkPtok 42 "i8i8" 39 0 99) (mkPtok 40 "," 39 21 102)) None (mkPtok 42 "i8i8" 39 0 99) (Some (mkPtok 42 "int" 39 5 100)) (Some (mkPtok 43 "`two words`" 39 9 101)) (mkPtok 40 "," 39 21 102))); (mkFieldWithAttr (mkSpan (mkPtok 36 "repeat" 42 0 105) (mkPtok 40 "," 58 4 142)) [] (InerObjectField (mkSpan (mkPtok 36 "repeat" 42 0 105) (mkPtok 40 "," 58 4 142)) (Some (mkPtok 36 "repeat" 42 0 105)) (InerObjectDecl (mkSpan (mkPtok 42 "Logon" 42 7 106) (mkPtok 3 "}" 57 9 141)) (mkPtok 42 "Logon" 42 7 106) (mkPtok 2 "{" 42 12 107) [(MetaField (mkSpan (mkPtok 36 "repeat" 43 0 108) (mkPtok 40 "," 45 15 112)) (Some (mkPtok 36 "repeat" 43 0 108)) (mkMetaDecl (mkSpan (mkPtok 20 "uint8" 45 4 110) (mkPtok 40 "," 45 15 112)) (TyBasic (mkSpan (mkPtok 20 "uint8" 45 4 110) (mkPtok 20 "uint8" 45 4 110)) (mkBasicType (mkSpan (mkPtok 20 "uint8" 45 4 110) (mkPtok 20 "uint8" 45 4 110)) (mkPtok 20 "uint8" 45 4 110))) (mkPtok 42 "f32a" 45 10 111) None (mkPtok 40 "," 45 15 112))); (InerObjectField (mkSpan (mkPtok 42 "a1" 46 4 113) (mkPtok 40 "," 49 11 123)) None (InerObjectDecl (mkSpan (mkPtok 42 "a1" 46 4 113) (mkPtok 3 "}" 49 8 122)) (mkPtok 42 "a1" 46 4 113) (mkPtok 2 "{" 48 4 115) [(MetaField (mkSpan (mkPtok 36 "repeat" 48 6 116) (mkPtok 40 "," 49 6 121)) (Some (mkPtok 36 "repeat" 48 6 116)) (mkMetaDecl (mkSpan (mkPtok 12 "char[" 48 13 117) (mkPtok 40 "," 49 6 121)) (TyFixed (mkSpan (mkPtok 12 "char[" 48 13 117) (mkPtok 13 "]" 49 0 119)) (mkFixedString (mkSpan (mkPtok 12 "char[" 48 13 117) (mkPtok 13 "]" 49 0 119)) (mkPtok 12 "char[" 48 13 117) (mkPtok 30 "1" 48 18 118) (mkPtok 13 "]" 49 0 119))) (mkPtok 42 "Foo" 49 2 120) None (mkPtok 40 "," 49 6 121)))] (mkPtok 3 "}" 49 8 122)) (mkPtok 40 "," 49 11 123)); (InerObjectField (mkSpan (mkPtok 42 "uint8x" 49 13 124) (mkPtok 40 "," 57 7 140)) None (InerObjectDecl (mkSpan (mkPtok 42 "uint8x" 49 13 124) (mkPtok 3 "}" 57 5 139)) (mkPtok 42 "uint8x" 49 13 124) (mkPtok 2 "{" 52 0 127) [(MetaField (mkSpan (mkPtok 12 "char[" 52 2 128) (mkPtok 40 "," 54 0 133)) None (mkMetaDecl (mkSpan (mkPtok 12 "char[" 52 2 128) (mkPtok 40 "," 54 0 133)) (TyFixed (mkSpan (mkPtok 12 "char[" 52 2 128) (mkPtok 13 "]" 52 19 130)) (mkFixedString (mkSpan (mkPtok 12 "char[" 52 2 128) (mkPtok 13 "]" 52 19 130)) (mkPtok 12 "char[" 52 2 128) (mkPtok 30 "4294967296" 52 8 129) (mkPtok 13 "]" 52 19 130))) (mkPtok 42 "T" 53 0 131) (Some (mkPtok 43 "`{ , }`" 53 2 132)) (mkPtok 40 "," 54 0 133))); (MetaField (mkSpan (mkPtok 22 "u32" 54 2 134) (mkPtok 40 "," 57 4 138)) None (mkMetaDecl (mkSpan (mkPtok 22 "u32" 54 2 134) (mkPtok 40 "," 57 4 138)) (TyBasic (mkSpan (mkPtok 22 "u32" 54 2 134) (mkPtok 22 "u32" 54 2 134)) (mkBasicType (mkSpan (mkPtok 22 "u32" 54 2 134) (mkPtok 22 "u32" 54 2 134)) (mkPtok 22 "u32" 54 2 134))) (mkPtok 42 "repeatCount" 55 4 135) (Some (mkPtok 43 (string_of_bytes [96; 230; 182; 136; 230; 129; 175; 231; 177; 187; 229; 158; 139; 96]%N) 55 16 136)) (mkPtok 40 "," 57 4 138)))] (mkPtok 3 "}" 57 5 139)) (mkPtok 40 "," 57 7 140))] (mkPtok 3 "}" 57 9 141)) (mkPtok 40 "," 58 4 142))); (mkFieldWithAttr (mkSpan (mkPtok 36 "repeat" 59 0 143) (mkPtok 40 "," 60 0 145)) [] (ObjectField (mkSpan (mkPtok 36 "repeat" 59 0 143) (mkPtok 40 "," 60 0 145)) (Some (mkPtok 36 "repeat" 59 0 143)) (mkPtok 42 "MetaDataX" 59 7 144) None None (mkPtok 40 "," 60 0 145))); (mkFieldWithAttr (mkSpan (mkPtok 12 "char[" 60 2 146) (mkPtok 40 "," 61 16 154)) [] (LengthField (mkSpan (mkPtok 12 "char[" 60 2 146) (mkPtok 40 "," 61 16 154)) (mkLengthFieldDecl (mkSpan (mkPtok 12 "char[" 60 2 146) (mkPtok 40 "," 61 16 154)) (Some (TyFixed (mkSpan (mkPtok 12 "char[" 60 2 146) (mkPtok 13 "]" 60 19 148)) (mkFixedString (mkSpan (mkPtok 12 "char[" 60 2 146) (mkPtok 13 "]" 60 19 148)) (mkPtok 12 "char[" 60 2 146) (mkPtok 30 "4294967296" 60 8 147) (mkPtok 13 "]" 60 19 148)))) (mkPtok 42 "i8i8" 60 21 149) (mkLengthOf (mkSpan (mkPtok 7 "@lengthOf(" 61 0 151) (mkPtok 6 ")" 61 14 153)) (mkPtok 7 "@lengthOf(" 61 0 151) (mkPtok 42 "_x" 61 11 152) (mkPtok 6 ")" 61 14 153)) None (mkPtok 40 "," 61 16 154))))] (mkPtok 3 "}" 61 17 155))); (DPacket (mkPacketDef (mkSpan (mkPtok 35 "packet" 62 0 156) (mkPtok 3 "}" 79 4 195)) None (mkPtok 35 "packet" 62 0 156) (mkPtok 42 "falsey" 62 7 157) (mkPtok 2 "{" 62 14 158) [(mkFieldWithAttr (mkSpan (mkPtok 42 "tag" 63 4 159) (mkPtok 40 "," 70 0 172)) [] (InerObjectField (mkSpan (mkPtok 42 "tag" 63 4 159) (mkPtok 40 "," 70 0 172)) None (InerObjectDecl (mkSpan (mkPtok 42 "tag" 63 4 159) (mkPtok 3 "}" 69 0 171)) (mkPtok 42 "tag" 63 4 159) (mkPtok 2 "{" 64 0 160) [(LengthField (mkSpan (mkPtok 12 "char[" 64 2 161) (mkPtok 40 "," 68 6 170)) (mkLengthFieldDecl (mkSpan (mkPtok 12 "char[" 64 2 161) (mkPtok 40 "," 68 6 170)) (Some (TyFixed (mkSpan (mkPtok 12 "char[" 64 2 161) (mkPtok 13 "]" 67 4 165)) (mkFixedString (mkSpan (mkPtok 12 "char[" 64 2 161) (mkPtok 13 "]" 67 4 165)) (mkPtok 12 "char[" 64 2 161) (mkPtok 30 "00" 65 0 163) (mkPtok 13 "]" 67 4 165)))) (mkPtok 42 "int" 67 6 166) (mkLengthOf (mkSpan (mkPtok 7 "@lengthOf(" 67 9 167) (mkPtok 6 ")" 68 4 169)) (mkPtok 7 "@lengthOf(" 67 9 167) (mkPtok 42 "u128" 67 20 168) (mkPtok 6 ")" 68 4 169)) None (mkPtok 40 "," 68 6 170)))] (mkPtok 3 "}" 69 0 171)) (mkPtok 40 "," 70 0 172))); (mkFieldWithAttr (mkSpan (mkPtok 42 "roots" 70 1 173) (mkPtok 40 "," 70 12 175)) [] (ObjectField (mkSpan (mkPtok 42 "roots" 70 1 173) (mkPtok 40 "," 70 12 175)) None (mkPtok 42 "roots" 70 1 173) (Some (mkPtok 42 "body" 70 7 174)) None (mkPtok 40 "," 70 12 175))); (mkFieldWithAttr (mkSpan (mkPtok 21 "u16" 70 13 176) (mkPtok 40 "," 74 7 184)) [] (LengthField (mkSpan (mkPtok 21 "u16" 70 13 176) (mkPtok 40 "," 74 7 184)) (mkLengthFieldDecl (mkSpan (mkPtok 21 "u16" 70 13 176) (mkPtok 40 "," 74 7 184)) (Some (TyBasic (mkSpan (mkPtok 21 "u16" 70 13 176) (mkPtok 21 "u16" 70 13 176)) (mkBasicType (mkSpan (mkPtok 21 "u16" 70 13 176) (mkPtok 21 "u16" 70 13 176)) (mkPtok 21 "u16" 70 13 176)))) (mkPtok 42 "stringy" 70 17 177) (mkLengthOf (mkSpan (mkPtok 7 "@lengthOf(" 73 0 180) (mkPtok 6 ")" 73 15 182)) (mkPtok 7 "@lengthOf(" 73 0 180) (mkPtok 42 "Pad" 73 11 181) (mkPtok 6 ")" 73 15 182)) (Some (mkPtok 43 (string_of_bytes [96; 108; 105; 110; 101; 49; 10; 108; 105; 110; 101; 50; 96]%N) 73 17 183)) (mkPtok 40 "," 74 7 184)))); (mkFieldWithAttr (mkSpan (mkPtok 42 "stringy" 75 0 185) (mkPtok 40 "," 76 20 189)) [] (LengthField (mkSpan (mkPtok 42 "stringy" 75 0 185) (mkPtok 40 "," 76 20 189)) (mkLengthFieldDecl (mkSpan (mkPtok 42 "stringy" 75 0 185) (mkPtok 40 "," 76 20 189)) None (mkPtok 42 "stringy" 75 0 185) (mkLengthOf (mkSpan (mkPtok 7 "@lengthOf(" 76 0 186) (mkPtok 6 ")" 76 18 188)) (mkPtok 7 "@lengthOf(" 76 0 186) (mkPtok 42 "chars" 76 12 187) (mkPtok 6 ")" 76 18 188)) None (mkPtok 40 "," 76 20 189)))); (mkFieldWithAttr (mkSpan (mkPtok 20 "uint8" 76 21 190) (mkPtok 40 "," 77 4 193)) [] (MetaField (mkSpan (mkPtok 20 "uint8" 76 21 190) (mkPtok 40 "," 77 4 193)) None (mkMetaDecl (mkSpan (mkPtok 20 "uint8" 76 21 190) (mkPtok 40 "," 77 4 193)) (TyBasic (mkSpan (mkPtok 20 "uint8" 76 21 190) (mkPtok 20 "uint8" 76 21 190)) (mkBasicType (mkSpan (mkPtok 20 "uint8" 76 21 190) (mkPtok 20 "uint8" 76 21 190)) (mkPtok 20 "uint8" 76 21 190))) (mkPtok 42 "lengthOf" 76 27 191) (Some (mkPtok 43 (string_of_bytes [96; 195; 169; 96]%N) 77 0 192)) (mkPtok 40 "," 77 4 193))))] (mkPtok 3 "}" 79 4 195)))])).
Eval vm_compute in ("<<<M191>>>" ++ check (runes_of_ascii "MetaData float {
    lengthOf u128 `tab	here` ,u x ,
metadata crc `line1
line2` ,
} root
packet//
trueish { @leftPad (
'0'
    ) repeat zchar[ 10 ] lengthOf `u8 x,`
    ,@leftPad
// " ++ [27880; 37322]%N ++ runes_of_ascii "
// trailing space 
('\x00'	) zchar[ 255 ] tag
// a // b
// @lengthOf(
,
@leftPad	(
    ) u128 trueish, chars@lengthOf(
    i64_
) `it's` //	t
,
    @tag( 10 ) zchar[
    007 ] asx, char[
1]
    zchar,
// `tick` ""quote"" 'q'
// trailing space 
@tag( 7
    // packet A { u8 x, }
    ) @calculatedFrom(""packet""
    )	match  f32a as
uint8x{
00  :Header , 007// trailing space 
: charz ,[ 255 , """ ++ [233]%N ++ runes_of_ascii "t" ++ [233]%N ++ runes_of_ascii """ ] :
rootA
    // `tick` ""quote"" 'q'
    ""it's"" :
    lengthOf
,""x y"" :
pack //x
,
""" ++ [28040; 24687]%N ++ runes_of_ascii """
: _x , } , repeat Header { char[ 7] i8i8 ,char  msg_type @lengthOf(pack ) `line1
line2`
,
// packet A { u8 x, }
// a // b
uint8
crc @lengthOf(
zchar ) `line1
line2` ,} , } packet Foo
    { } packet// @lengthOf(
Foo { zchar[0123456789
    ]
    packetx
    @calculatedFrom(
""packet"" // packet A { u8 x, }
)
    `doc`  , zchar @calculatedFrom( ""\n""//	t
)
`
` , @leftPad  ( '\x00' )
    @tag( // trailing space 
65535 ) char[ 0
/// triple
// c
] metadata@calculatedFrom( ""a\""b"" ), repeat
    lengthOf{ lengthOf
`" ++ [233]%N ++ runes_of_ascii "`
    // `tick` ""quote"" 'q'
    ,
} , As , }
packet BodyLength {//x
@calculatedFrom( ""a\""b""
)
    @lengthOf( x ) @tag( 00
) Packet zchar
    `` ,
@tag(0123456789 )	repeat	char[ 255 ]  x `it's`,// a // b
u
// " ++ [128512]%N ++ runes_of_ascii " emoji
// c
{ match BodyLength
as
// packet A { u8 x, }
// `tick` ""quote"" 'q'
tag
    {3
: matchKey ,} ,
} ,@tag( 0123456789 )
    // " ++ [128512]%N ++ runes_of_ascii " emoji
    char	asx `line1
line2`,@lengthOf( chars ) @calculatedFrom(
""a	b"" )f64 len
    , match int as //x
BodyLength { 1
:
    Header ,[ 0 ] :// c
tag
""" ++ [28040; 24687]%N ++ runes_of_ascii """ :asx, } , @leftPad
( ' '
    ) metadata `crlf
line` ,
// `tick` ""quote"" 'q'
// trailing space 
len
@lengthOf( metadata
    ), zchar[  65535 ]
    A
@lengthOf( // c
trueish )
,@leftPad ( '0'
)
repeatCount Z9_
    `" ++ [233]%N ++ runes_of_ascii "`  ,
} 	 ")).
Eval vm_compute in ("<<<M201>>>" ++ check (runes_of_ascii "root
packet u{}
")).
Eval vm_compute in ("<<<M211>>>" ++ check (runes_of_ascii "options {
chars  =
    //x
    ' '	}
root packet	string_ {i8i8 @lengthOf(
Z9_ )
,	match int as chars // c
{ 007: body	,[ // packet A { u8 x, }
42 ] : int	, ""`tick`"" : options1
, } ,
@leftPad ( ' ' )uint16 crc `it's` , // a // b
float64  packetx
@lengthOf( crc // " ++ [27880; 37322]%N ++ runes_of_ascii "
)// trailing space 
, @tag(4294967296
) match int
as chars{4294967296
    : Foo ,
1:
asx 10
: Pad
    0123456789	: string_
,
3
// " ++ [27880; 37322]%N ++ runes_of_ascii "
// " ++ [128512]%N ++ runes_of_ascii " emoji
: T , ""it's""  : As  } , repeat  float falsey `say ""hi""`  ,
match uint8x as zchar { ""// no comment""
    : body
, 0123456789 : crc , ""{,}"" : o } ,repeat o chars ,uint32
As
`doc` ,
repeat trueish
{ char[
    7
] i64_
`{ , }`  , }
, } packet
    Packet {
zchar[ 0123456789 ] matchKey @lengthOf( chars
)  ,  x
//	t
// a // b
{
u64 o ,} , zchar[
    // a // b
    1 ]
    MetaDataX
@calculatedFrom(
"""" ), char[]lengthOf// trailing space 
@calculatedFrom( // " ++ [27880; 37322]%N ++ runes_of_ascii "
""a\""b""
) `
` ,@rightPad( ' ' ) //	t
uint16
len `a\` , @lengthOf( //x
tag )
char[ 65535
] pack ``, }
")).
Eval vm_compute in ("<<<M221>>>" ++ check (runes_of_ascii "root packet matchKey{f32a// " ++ [27880; 37322]%N ++ runes_of_ascii "
`u8 x,` ,	char[]u8x ,
@calculatedFrom( ""a\""b"" )
i32 i8i8 , }

")).
Eval vm_compute in ("<<<M231>>>" ++ check (runes_of_ascii "options	{ // packet A { u8 x, }
rootA
= true
    ; chars
=	true // packet A { u8 x, }
}options	{	lengthOf // @lengthOf(
= 3
trueish
= ' '
    ;
    /// triple
    crc
// trailing space 
// @lengthOf(
=
    // trailing space 
    true  ;
    rootA =""it's""; chars=
    int32 ;//x
}
")).
Eval vm_compute in ("<<<M241>>>" ++ check (runes_of_ascii "packet falsey { int64
BodyLength , @tag( 4294967296) // packet A { u8 x, }
@leftPad (
    )
match _x as Foo
//	t
// packet A { u8 x, }
{ ""\n"": asx
// `tick` ""quote"" 'q'
// `tick` ""quote"" 'q'
[ ""{,}""
,	4294967296, """ ++ [128512]%N ++ runes_of_ascii """//	t
, """ ++ [28040; 24687]%N ++ runes_of_ascii """,
""packet"", ""packet""
    // " ++ [27880; 37322]%N ++ runes_of_ascii "
    , ""x y"" ,
// trailing space 
// " ++ [128512]%N ++ runes_of_ascii " emoji
7 ]	: x_y_z	, } , // `tick` ""quote"" 'q'
A len`// not a comment`
    ,
    //
    repeat char[]
i64_ `crlf
line` ,
// trailing space 
// trailing space 
repeat char[] u `line1
line2`	, tag {string metadata ,
    } ,
// " ++ [27880; 37322]%N ++ runes_of_ascii "
// " ++ [128512]%N ++ runes_of_ascii " emoji
char[3
    ] falsey @lengthOf(
    leftPad ) `crlf
line`
,  } root	packet
MetaDataX {@lengthOf( //
u8x )
    match f32a as Header {[ ""a\""b""
//x
// `tick` ""quote"" 'q'
,255]:  u8x , ""packet""
:
uint8x
    ,""1""
:
_x , },
    Packet `doc` , zchar[
    3 // " ++ [128512]%N ++ runes_of_ascii " emoji
] u128 @lengthOf( asx  ) ,
    }  MetaData x/// triple
{
// `tick` ""quote"" 'q'
// `tick` ""quote"" 'q'
As  roots , char[
10	] crc
// " ++ [128512]%N ++ runes_of_ascii " emoji
/// triple
`{ , }` ,
    BodyLength
asx  `u8 x,` ,matchKey i8i8 , falsey pack `" ++ [233]%N ++ runes_of_ascii "`,leftPad metadata ,
    }
options { pack	= 0 tag
= f32 i64_ =""abc""	;
// " ++ [128512]%N ++ runes_of_ascii " emoji
// " ++ [128512]%N ++ runes_of_ascii " emoji
f32a=
    true ; } packet Foo { }
")).
Eval vm_compute in ("<<<M251>>>" ++ check (runes_of_ascii "packet
    uint8x { @tag(	0123456789 // a // b
) match u as
As
    {
    ""1""
    :	o ,4294967296 : charz [ ""CRC32""
    ]	: A , 42: zchar, ""CRC32"" : leftPad //	t
,
    """ ++ [28040; 24687]%N ++ runes_of_ascii """// " ++ [128512]%N ++ runes_of_ascii " emoji
: uint8x, } , }
    options {
u128 = uint32
}
    packet
chars
{
    // a // b
    float @lengthOf( _x ) // `tick` ""quote"" 'q'
, string
    chars@lengthOf(
matchKey
// @lengthOf(
// packet A { u8 x, }
) , match  crc as
    Z9_ {0123456789 : int
    ,""x y"" //
:
    rootA,	""`tick`""
    : As,
    // @lengthOf(
    } ,@tag(7 )
Pad @lengthOf( trueish  )`u8 x,`
,}
packet float
{ repeat Packet{ lengthOf {
    //
    repeat f32a`it's`
, } ,	o @lengthOf( calculatedFrom	)  , }
,}

")).
Eval vm_compute in ("<<<T251>>>" ++ terms [mkTok 35 "packet" 1 0 false; mkTok 42 "uint8x" 2 4 false; mkTok 2 "{" 2 11 false; mkTok 9 "@tag(" 2 13 false; mkTok 30 "0123456789" 2 19 false; mkTok 44 "// a // b" 2 30 true; mkTok 6 ")" 3 0 false; mkTok 38 "match" 3 2 false; mkTok 42 "u" 3 8 false; mkTok 17 "as" 3 10 false; mkTok 42 "As" 4 0 false; mkTok 2 "{" 5 4 false; mkTok 31 """1""" 6 4 false; mkTok 39 ":" 7 4 false; mkTok 42 "o" 7 6 false; mkTok 40 "," 7 8 false; mkTok 30 "4294967296" 7 9 false; mkTok 39 ":" 7 20 false; mkTok 42 "charz" 7 22 false; mkTok 18 "[" 7 28 false; mkTok 31 """CRC32""" 7 30 false; mkTok 13 "]" 8 4 false; mkTok 39 ":" 8 6 false; mkTok 42 "A" 8 8 false; mkTok 40 "," 8 10 false; mkTok 30 "42" 8 12 false; mkTok 39 ":" 8 14 false; mkTok 42 "zchar" 8 16 false; mkTok 40 "," 8 21 false; mkTok 31 """CRC32""" 8 23 false; mkTok 39 ":" 8 31 false; mkTok 42 "leftPad" 8 33 false; mkTok 44 (string_of_bytes [47; 47; 9; 116]%N) 8 41 true; mkTok 40 "," 9 0 false; mkTok 31 (string_of_bytes [34; 230; 182; 136; 230; 129; 175; 34]%N) 10 4 false; mkTok 44 (string_of_bytes [47; 47; 32; 240; 159; 152; 128; 32; 101; 109; 111; 106; 105]%N) 10 8 true; mkTok 39 ":" 11 0 false; mkTok 42 "uint8x" 11 2 false; mkTok 40 "," 11 8 false; mkTok 3 "}" 11 10 false; mkTok 40 "," 11 12 false; mkTok 3 "}" 11 14 false; mkTok 1 "options" 12 4 false; mkTok 2 "{" 12 12 false; mkTok 42 "u128" 13 0 false; mkTok 4 "=" 13 5 false; mkTok 22 "uint32" 13 7 false; mkTok 3 "}" 14 0 false; mkTok 35 "packet" 15 4 false; mkTok 42 "chars" 16 0 false; mkTok 2 "{" 17 0 false; mkTok 44 "// a // b" 18 4 true; mkTok 42 "float" 19 4 false; mkTok 7 "@lengthOf(" 19 10 false; mkTok 42 "_x" 19 21 false; mkTok 6 ")" 19 24 false; mkTok 44 "// `tick` ""quote"" 'q'" 19 26 true; mkTok 40 "," 20 0 false; mkTok 15 "string" 20 2 false; mkTok 42 "chars" 21 4 false; mkTok 7 "@lengthOf(" 21 9 false; mkTok 42 "matchKey" 22 0 false; mkTok 44 "// @lengthOf(" 23 0 true; mkTok 44 "// packet A { u8 x, }" 24 0 true; mkTok 6 ")" 25 0 false; mkTok 40 "," 25 2 false; mkTok 38 "match" 25 4 false; mkTok 42 "crc" 25 11 false; mkTok 17 "as" 25 15 false; mkTok 42 "Z9_" 26 4 false; mkTok 2 "{" 26 8 false; mkTok 30 "0123456789" 26 9 false; mkTok 39 ":" 26 20 false; mkTok 42 "int" 26 22 false; mkTok 40 "," 27 4 false; mkTok 31 """x y""" 27 5 false; mkTok 44 "//" 27 11 true; mkTok 39 ":" 28 0 false; mkTok 42 "rootA" 29 4 false; mkTok 40 "," 29 9 false; mkTok 31 """`tick`""" 29 11 false; mkTok 39 ":" 30 4 false; mkTok 42 "As" 30 6 false; mkTok 40 "," 30 8 false; mkTok 44 "// @lengthOf(" 31 4 true; mkTok 3 "}" 32 4 false; mkTok 40 "," 32 6 false; mkTok 9 "@tag(" 32 7 false; mkTok 30 "7" 32 12 false; mkTok 6 ")" 32 14 false; mkTok 42 "Pad" 33 0 false; mkTok 7 "@lengthOf(" 33 4 false; mkTok 42 "trueish" 33 15 false; mkTok 6 ")" 33 24 false; mkTok 43 "`u8 x,`" 33 25 false; mkTok 40 "," 34 0 false; mkTok 3 "}" 34 1 false; mkTok 35 "packet" 35 0 false; mkTok 42 "float" 35 7 false; mkTok 2 "{" 36 0 false; mkTok 36 "repeat" 36 2 false; mkTok 42 "Packet" 36 9 false; mkTok 2 "{" 36 15 false; mkTok 42 "lengthOf" 36 17 false; mkTok 2 "{" 36 26 false; mkTok 44 "//" 37 4 true; mkTok 36 "repeat" 38 4 false; mkTok 42 "f32a" 38 11 false; mkTok 43 "`it's`" 38 15 false; mkTok 40 "," 39 0 false; mkTok 3 "}" 39 2 false; mkTok 40 "," 39 4 false; mkTok 42 "o" 39 6 false; mkTok 7 "@lengthOf(" 39 8 false; mkTok 42 "calculatedFrom" 39 19 false; mkTok 6 ")" 39 34 false; mkTok 40 "," 39 37 false; mkTok 3 "}" 39 39 false; mkTok 40 "," 40 0 false; mkTok 3 "}" 40 1 false; mkTok 0 "<EOF>" 42 0 false] (mkPacket (mkPtok 35 "packet" 1 0 0) (Some (mkPtok 3 "}" 40 1 119)) [(DPacket (mkPacketDef (mkSpan (mkPtok 35 "packet" 1 0 0) (mkPtok 3 "}" 11 14 41)) None (mkPtok 35 "packet" 1 0 0) (mkPtok 42 "uint8x" 2 4 1) (mkPtok 2 "{" 2 11 2) [(mkFieldWithAttr (mkSpan (mkPtok 9 "@tag(" 2 13 3) (mkPtok 40 "," 11 12 40)) [(FATag (mkSpan (mkPtok 9 "@tag(" 2 13 3) (mkPtok 6 ")" 3 0 6)) (mkTagAttr (mkSpan (mkPtok 9 "@tag(" 2 13 3) (mkPtok 6 ")" 3 0 6)) (mkPtok 9 "@tag(" 2 13 3) (mkPtok 30 "0123456789" 2 19 4) (mkPtok 6 ")" 3 0 6)))] (MatchField (mkSpan (mkPtok 38 "match" 3 2 7) (mkPtok 40 "," 11 12 40)) (mkMatchFieldDecl (mkSpan (mkPtok 38 "match" 3 2 7) (mkPtok 3 "}" 11 10 39)) (mkPtok 38 "match" 3 2 7) (mkPtok 42 "u" 3 8 8) (mkPtok 17 "as" 3 10 9) (mkPtok 42 "As" 4 0 10) (mkPtok 2 "{" 5 4 11) [(mkMatchPair (mkSpan (mkPtok 31 """1""" 6 4 12) (mkPtok 40 "," 7 8 15)) (MKString (mkPtok 31 """1""" 6 4 12)) (mkPtok 39 ":" 7 4 13) (mkPtok 42 "o" 7 6 14) (Some (mkPtok 40 "," 7 8 15))); (mkMatchPair (mkSpan (mkPtok 30 "4294967296" 7 9 16) (mkPtok 42 "charz" 7 22 18)) (MKDigits (mkPtok 30 "4294967296" 7 9 16)) (mkPtok 39 ":" 7 20 17) (mkPtok 42 "charz" 7 22 18) None); (mkMatchPair (mkSpan (mkPtok 18 "[" 7 28 19) (mkPtok 40 "," 8 10 24)) (MKList (mkKeyList (mkSpan (mkPtok 18 "[" 7 28 19) (mkPtok 13 "]" 8 4 21)) (mkPtok 18 "[" 7 28 19) (mkPtok 31 """CRC32""" 7 30 20) [] (mkPtok 13 "]" 8 4 21))) (mkPtok 39 ":" 8 6 22) (mkPtok 42 "A" 8 8 23) (Some (mkPtok 40 "," 8 10 24))); (mkMatchPair (mkSpan (mkPtok 30 "42" 8 12 25) (mkPtok 40 "," 8 21 28)) (MKDigits (mkPtok 30 "42" 8 12 25)) (mkPtok 39 ":" 8 14 26) (mkPtok 42 "zchar" 8 16 27) (Some (mkPtok 40 "," 8 21 28))); (mkMatchPair (mkSpan (mkPtok 31 """CRC32""" 8 23 29) (mkPtok 40 "," 9 0 33)) (MKString (mkPtok 31 """CRC32""" 8 23 29)) (mkPtok 39 ":" 8 31 30) (mkPtok 42 "leftPad" 8 33 31) (Some (mkPtok 40 "," 9 0 33))); (mkMatchPair (mkSpan (mkPtok 31 (string_of_bytes [34; 230; 182; 136; 230; 129; 175; 34]%N) 10 4 34) (mkPtok 40 "," 11 8 38)) (MKString (mkPtok 31 (string_of_bytes [34; 230; 182; 136; 230; 129; 175; 34]%N) 10 4 34)) (mkPtok 39 ":" 11 0 36) (mkPtok 42 "uint8x" 11 2 37) (Some (mkPtok 40 "," 11 8 38)))] (mkPtok 3 "}" 11 10 39)) (mkPtok 40 "," 11 12 40)))] (mkPtok 3 "}" 11 14 41))); (DOption (mkOptionDef (mkSpan (mkPtok 1 "options" 12 4 42) (mkPtok 3 "}" 14 0 47)) (mkPtok 1 "options" 12 4 42) (mkPtok 2 "{" 12 12 43) [(mkOptionDecl (mkSpan (mkPtok 42 "u128" 13 0 44) (mkPtok 22 "uint32" 13 7 46)) (mkPtok 42 "u128" 13 0 44) (mkPtok 4 "=" 13 5 45) (VType (mkSpan (mkPtok 22 "uint32" 13 7 46) (mkPtok 22 "uint32" 13 7 46)) (TyBasic (mkSpan (mkPtok 22 "uint32" 13 7 46) (mkPtok 22 "uint32" 13 7 46)) (mkBasicType (mkSpan (mkPtok 22 "uint32" 13 7 46) (mkPtok 22 "uint32" 13 7 46)) (mkPtok 22 "uint32" 13 7 46)))) None)] (mkPtok 3 "}" 14 0 47))); (DPacket (mkPacketDef (mkSpan (mkPtok 35 "packet" 15 4 48) (mkPtok 3 "}" 34 1 96)) None (mkPtok 35 "packet" 15 4 48) (mkPtok 42 "chars" 16 0 49) (mkPtok 2 "{" 17 0 50) [(mkFieldWithAttr (mkSpan (mkPtok 42 "float" 19 4 52) (mkPtok 40 "," 20 0 57)) [] (LengthField (mkSpan (mkPtok 42 "float" 19 4 52) (mkPtok 40 "," 20 0 57)) (mkLengthFieldDecl (mkSpan (mkPtok 42 "float" 19 4 52) (mkPtok 40 "," 20 0 57)) None (mkPtok 42 "float" 19 4 52) (mkLengthOf (mkSpan (mkPtok 7 "@lengthOf(" 19 10 53) (mkPtok 6 ")" 19 24 55)) (mkPtok 7 "@lengthOf(" 19 10 53) (mkPtok 42 "_x" 19 21 54) (mkPtok 6 ")" 19 24 55)) None (mkPtok 40 "," 20 0 57)))); (mkFieldWithAttr (mkSpan (mkPtok 15 "string" 20 2 58) (mkPtok 40 "," 25 2 65)) [] (LengthField (mkSpan (mkPtok 15 "string" 20 2 58) (mkPtok 40 "," 25 2 65)) (mkLengthFieldDecl (mkSpan (mkPtok 15 "string" 20 2 58) (mkPtok 40 "," 25 2 65)) (Some (TyDynamic (mkSpan (mkPtok 15 "string" 20 2 58) (mkPtok 15 "string" 20 2 58)) (mkDynamicString (mkSpan (mkPtok 15 "string" 20 2 58) (mkPtok 15 "string" 20 2 58)) (mkPtok 15 "string" 20 2 58)))) (mkPtok 42 "chars" 21 4 59) (mkLengthOf (mkSpan (mkPtok 7 "@lengthOf(" 21 9 60) (mkPtok 6 ")" 25 0 64)) (mkPtok 7 "@lengthOf(" 21 9 60) (mkPtok 42 "matchKey" 22 0 61) (mkPtok 6 ")" 25 0 64)) None (mkPtok 40 "," 25 2 65)))); (mkFieldWithAttr (mkSpan (mkPtok 38 "match" 25 4 66) (mkPtok 40 "," 32 6 86)) [] (MatchField (mkSpan (mkPtok 38 "match" 25 4 66) (mkPtok 40 "," 32 6 86)) (mkMatchFieldDecl (mkSpan (mkPtok 38 "match" 25 4 66) (mkPtok 3 "}" 32 4 85)) (mkPtok 38 "match" 25 4 66) (mkPtok 42 "crc" 25 11 67) (mkPtok 17 "as" 25 15 68) (mkPtok 42 "Z9_" 26 4 69) (mkPtok 2 "{" 26 8 70) [(mkMatchPair (mkSpan (mkPtok 30 "0123456789" 26 9 71) (mkPtok 40 "," 27 4 74)) (MKDigits (mkPtok 30 "0123456789" 26 9 71)) (mkPtok 39 ":" 26 20 72) (mkPtok 42 "int" 26 22 73) (Some (mkPtok 40 "," 27 4 74))); (mkMatchPair (mkSpan (mkPtok 31 """x y""" 27 5 75) (mkPtok 40 "," 29 9 79)) (MKString (mkPtok 31 """x y""" 27 5 75)) (mkPtok 39 ":" 28 0 77) (mkPtok 42 "rootA" 29 4 78) (Some (mkPtok 40 "," 29 9 79))); (mkMatchPair (mkSpan (mkPtok 31 """`tick`""" 29 11 80) (mkPtok 40 "," 30 8 83)) (MKString (mkPtok 31 """`tick`""" 29 11 80)) (mkPtok 39 ":" 30 4 81) (mkPtok 42 "As" 30 6 82) (Some (mkPtok 40 "," 30 8 83)))] (mkPtok 3 "}" 32 4 85)) (mkPtok 40 "," 32 6 86))); (mkFieldWithAttr (mkSpan (mkPtok 9 "@tag(" 32 7 87) (mkPtok 40 "," 34 0 95)) [(FATag (mkSpan (mkPtok 9 "@tag(" 32 7 87) (mkPtok 6 ")" 32 14 89)) (mkTagAttr (mkSpan (mkPtok 9 "@tag(" 32 7 87) (mkPtok 6 ")" 32 14 89)) (mkPtok 9 "@tag(" 32 7 87) (mkPtok 30 "7" 32 12 88) (mkPtok 6 ")" 32 14 89)))] (LengthField (mkSpan (mkPtok 42 "Pad" 33 0 90) (mkPtok 40 "," 34 0 95)) (mkLengthFieldDecl (mkSpan (mkPtok 42 "Pad" 33 0 90) (mkPtok 40 "," 34 0 95)) None (mkPtok 42 "Pad" 33 0 90) (mkLengthOf (mkSpan (mkPtok 7 "@lengthOf(" 33 4 91) (mkPtok 6 ")" 33 24 93)) (mkPtok 7 "@lengthOf(" 33 4 91) (mkPtok 42 "trueish" 33 15 92) (mkPtok 6 ")" 33 24 93)) (Some (mkPtok 43 "`u8 x,`" 33 25 94)) (mkPtok 40 "," 34 0 95))))] (mkPtok 3 "}" 34 1 96))); (DPacket (mkPacketDef (mkSpan (mkPtok 35 "packet" 35 0 97) (mkPtok 3 "}" 40 1 119)) None (mkPtok 35 "packet" 35 0 97) (mkPtok 42 "float" 35 7 98) (mkPtok 2 "{" 36 0 99) [(mkFieldWithAttr (mkSpan (mkPtok 36 "repeat" 36 2 100) (mkPtok 40 "," 40 0 118)) [] (InerObjectField (mkSpan (mkPtok 36 "repeat" 36 2 100) (mkPtok 40 "," 40 0 118)) (Some (mkPtok 36 "repeat" 36 2 100)) (InerObjectDecl (mkSpan (mkPtok 42 "Packet" 36 9 101) (mkPtok 3 "}" 39 39 117)) (mkPtok 42 "Packet" 36 9 101) (mkPtok 2 "{" 36 15 102) [(InerObjectField (mkSpan (mkPtok 42 "lengthOf" 36 17 103) (mkPtok 40 "," 39 4 111)) None (InerObjectDecl (mkSpan (mkPtok 42 "lengthOf" 36 17 103) (mkPtok 3 "}" 39 2 110)) (mkPtok 42 "lengthOf" 36 17 103) (mkPtok 2 "{" 36 26 104) [(ObjectField (mkSpan (mkPtok 36 "repeat" 38 4 106) (mkPtok 40 "," 39 0 109)) (Some (mkPtok 36 "repeat" 38 4 106)) (mkPtok 42 "f32a" 38 11 107) None (Some (mkPtok 43 "`it's`" 38 15 108)) (mkPtok 40 "," 39 0 109))] (mkPtok 3 "}" 39 2 110)) (mkPtok 40 "," 39 4 111)); (LengthField (mkSpan (mkPtok 42 "o" 39 6 112) (mkPtok 40 "," 39 37 116)) (mkLengthFieldDecl (mkSpan (mkPtok 42 "o" 39 6 112) (mkPtok 40 "," 39 37 116)) None (mkPtok 42 "o" 39 6 112) (mkLengthOf (mkSpan (mkPtok 7 "@lengthOf(" 39 8 113) (mkPtok 6 ")" 39 34 115)) (mkPtok 7 "@lengthOf(" 39 8 113) (mkPtok 42 "calculatedFrom" 39 19 114) (mkPtok 6 ")" 39 34 115)) None (mkPtok 40 "," 39 37 116)))] (mkPtok 3 "}" 39 39 117)) (mkPtok 40 "," 40 0 118)))] (mkPtok 3 "}" 40 1 119)))])).
Eval vm_compute in ("<<<M261>>>" ++ check (runes_of_ascii "options { tag
=
false// c
; charz =
char[
    //
    4294967296 ] ; float = ' '; u =// `tick` ""quote"" 'q'
zchar[ 255
    ] x//x
=
    ""a\""b""}
packet leftPad /// triple
{match
As as
    falsey{ [ 10
    ,0123456789, 007
,
""" ++ [28040; 24687]%N ++ runes_of_ascii """
// a // b
// trailing space 
, //	t
""packet""	, ""`tick`"", ""1"" ] :
calculatedFrom , } ,@calculatedFrom(
    ""it's""
) float64// c
x_y_z @lengthOf(  leftPad ) , trueish
@lengthOf(packetx)
    , }options
{ string_	=
    ""a\""b"" ;
_x = false }
")).
Eval vm_compute in ("<<<M271>>>" ++ check (runes_of_ascii "
packet
crc{ } options
{ len= '0' } packet uint8x {T  charz `u8 x,` ,
}
    MetaData  packetx //	t
{
// `tick` ""quote"" 'q'
// trailing space 
} options
    { Header
    =""CRC32""
;
    charz =
    string MetaDataX
=
true ;}
")).
Eval vm_compute in ("<<<M281>>>" ++ check (runes_of_ascii "// trailing space 
packet
// packet A { u8 x, }
// packet A { u8 x, }
o {
@calculatedFrom(
""`tick`""
    //	t
    )repeat i8 rootA
, @calculatedFrom( ""`tick`""	)Logon
body`line1
line2` , // " ++ [128512]%N ++ runes_of_ascii " emoji
@lengthOf(crc )@tag( 0
) repeat
falsey string_ , @calculatedFrom(
"""" )
    lengthOf/// triple
, u16 calculatedFrom ,
    i8i8//x
tag `two words` , @tag( 1)	string rootA`u8 x,`
,match pack as int { [
""" ++ [233]%N ++ runes_of_ascii "t" ++ [233]%N ++ runes_of_ascii """
, ""\" ++ [233]%N ++ runes_of_ascii """	, 10 ,  0,
4294967296 , ""packet"" ,""" ++ [28040; 24687]%N ++ runes_of_ascii """
,""" ++ [233]%N ++ runes_of_ascii "t" ++ [233]%N ++ runes_of_ascii """ ] : int
//x
// trailing space 
, 3
    :zchar , """ ++ [128512]%N ++ runes_of_ascii """
:
options1, 00 // c
:x_y_z , 4294967296 :
chars , } ,float32 matchKey
    //x
    ,
T
,}
")).
Eval vm_compute in ("<<<M291>>>" ++ check (runes_of_ascii "// " ++ [128512]%N ++ runes_of_ascii " emoji
MetaData trueish {
    // @lengthOf(
    asx lengthOf
    // a // b
    , int8 // c
float`it's`
,}
MetaData
int{ int8
charz ,} packet asx { o @calculatedFrom(
""\" ++ [233]%N ++ runes_of_ascii """
    ) ,
}
")).
Eval vm_compute in ("<<<M301>>>" ++ check (runes_of_ascii "options {
	StringPrefixLenType = u16;
	ArrayPrefixLenType = u16;
}

packet SampleBinary {
    uint16 MsgType `" ++ [28040; 24687; 31867; 22411]%N ++ runes_of_ascii "`,
    u16 BodyLenght @lengthOf(Body) `" ++ [28040; 24687; 20307; 38271; 24230]%N ++ runes_of_ascii "`,
    match MsgType as Body {
        1 : Logon,
        2 : Logout,
        3 : Heartbeat,
        4 : RiskControlRequest,
        5 : RiskControlResponse,
    },
        @calculatedFrom(""CRC32"")
    u32 Ckecksum `" ++ [26657; 39564; 21644]%N ++ runes_of_ascii "`,
}

packet Logon {
     @leftPad('0')
    char[10] UserName `" ++ [29992; 25143; 21517]%N ++ runes_of_ascii "`,
    string Password `" ++ [23494; 30721]%N ++ runes_of_ascii "`,
    uint64 ClientId `" ++ [23458; 25143; 31471]%N ++ runes_of_ascii "ID`,
    u16 HeartbeatInterval `" ++ [24515; 36339; 38388; 38548]%N ++ runes_of_ascii "`,
}

packet Logout {
      @rightPad('0')
    char[10] UserName `" ++ [29992; 25143; 21517]%N ++ runes_of_ascii "`,
    uint64 ClientId `" ++ [23458; 25143; 31471]%N ++ runes_of_ascii "ID`,
}

packet Heartbeat {
}

packet RiskControlRequest {
    string UniqueOrderId `" ++ [21807; 19968; 35746; 21333; 21495]%N ++ runes_of_ascii "`,
    char[16] ClOrdID `" ++ [23458; 25143; 35746; 21333; 21495]%N ++ runes_of_ascii "`,
    char[3] MarketID `" ++ [24066; 22330]%N ++ runes_of_ascii "id`,
    char[12] SecurityID `" ++ [35777; 21048; 20195; 30721]%N ++ runes_of_ascii "`,
    char Side `" ++ [20080; 21334; 26041; 21521]%N ++ runes_of_ascii "`,
    char OrderType `" ++ [35746; 21333; 31867; 22411]%N ++ runes_of_ascii "`,
    u64 Price `" ++ [20215; 26684]%N ++ runes_of_ascii "`,
    u32 Qty `" ++ [25968; 37327]%N ++ runes_of_ascii "`,
    repeat string ExtraInfo `" ++ [38468; 21152; 20449; 24687]%N ++ runes_of_ascii "`,
    repeat SubOrder {
    		char[16] ClOrdID `" ++ [23376; 35746; 21333; 21495]%N ++ runes_of_ascii "`,
    		u64 Price `" ++ [23376; 35746; 21333; 20215; 26684]%N ++ runes_of_ascii "`,
    		u32 Qty `" ++ [23376; 35746; 21333; 25968; 37327]%N ++ runes_of_ascii "`,
    	},
}

packet RiskControlResponse {
    string UniqueOrderId `" ++ [21807; 19968; 35746; 21333; 21495]%N ++ runes_of_ascii "`,
    i32 Status `" ++ [29366; 24577]%N ++ runes_of_ascii "`,
    string Msg `" ++ [32467; 26524; 20449; 24687]%N ++ runes_of_ascii "`,
    repeat Detail,
}

packet Detail {
    string RuleName `" ++ [35268; 21017; 21517; 31216]%N ++ runes_of_ascii "`,
    u16 Code `" ++ [21407; 22240; 20195; 30721]%N ++ runes_of_ascii "`,
}")).
Eval vm_compute in ("<<<M311>>>" ++ check (runes_of_ascii "asx
packet
{ Z9_ Header// " ++ [128512]%N ++ runes_of_ascii " emoji
,} packet pack
    { }
")).
Eval vm_compute in ("<<<M321>>>" ++ check (runes_of_ascii "packet
asx
Z9_ { Header// " ++ [128512]%N ++ runes_of_ascii " emoji
,} packet pack
    { }
")).
Eval vm_compute in ("<<<M331>>>" ++ check (runes_of_ascii "packet
asx
{ Z9_ ,// " ++ [128512]%N ++ runes_of_ascii " emoji
Header} packet pack
    { }
")).
Eval vm_compute in ("<<<M341>>>" ++ check (runes_of_ascii "packet
asx
{ Z9_ Header// " ++ [128512]%N ++ runes_of_ascii " emoji
,packet } pack
    { }
")).
Eval vm_compute in ("<<<M351>>>" ++ check (runes_of_ascii "packet
asx
{ Z9_ Header// " ++ [128512]%N ++ runes_of_ascii " emoji
,} packet {
    pack }
")).
Eval vm_compute in ("<<<M361>>>" ++ check (runes_of_ascii "packet
asx
{ Z9_ Header// " ++ [128512]%N ++ runes_of_ascii " emoji
,} packet pack
    { ,
")).
Eval vm_compute in ("<<<M371>>>" ++ check (runes_of_ascii "packet
asx
{ Z9_ Header// " ++ [233; 128512]%N ++ runes_of_ascii " emoji
,} packet pack
    { }
")).
Eval vm_compute in ("<<<T371>>>" ++ terms [mkTok 35 "packet" 1 0 false; mkTok 42 "asx" 2 0 false; mkTok 2 "{" 3 0 false; mkTok 42 "Z9_" 3 2 false; mkTok 42 "Header" 3 6 false; mkTok 44 (string_of_bytes [47; 47; 32; 195; 169; 240; 159; 152; 128; 32; 101; 109; 111; 106; 105]%N) 3 12 true; mkTok 40 "," 4 0 false; mkTok 3 "}" 4 1 false; mkTok 35 "packet" 4 3 false; mkTok 42 "pack" 4 10 false; mkTok 2 "{" 5 4 false; mkTok 3 "}" 5 6 false; mkTok 0 "<EOF>" 6 0 false] (mkPacket (mkPtok 35 "packet" 1 0 0) (Some (mkPtok 3 "}" 5 6 11)) [(DPacket (mkPacketDef (mkSpan (mkPtok 35 "packet" 1 0 0) (mkPtok 3 "}" 4 1 7)) None (mkPtok 35 "packet" 1 0 0) (mkPtok 42 "asx" 2 0 1) (mkPtok 2 "{" 3 0 2) [(mkFieldWithAttr (mkSpan (mkPtok 42 "Z9_" 3 2 3) (mkPtok 40 "," 4 0 6)) [] (ObjectField (mkSpan (mkPtok 42 "Z9_" 3 2 3) (mkPtok 40 "," 4 0 6)) None (mkPtok 42 "Z9_" 3 2 3) (Some (mkPtok 42 "Header" 3 6 4)) None (mkPtok 40 "," 4 0 6)))] (mkPtok 3 "}" 4 1 7))); (DPacket (mkPacketDef (mkSpan (mkPtok 35 "packet" 4 3 8) (mkPtok 3 "}" 5 6 11)) None (mkPtok 35 "packet" 4 3 8) (mkPtok 42 "pack" 4 10 9) (mkPtok 2 "{" 5 4 10) [] (mkPtok 3 "}" 5 6 11)))])).
Eval vm_compute in ("<<<M381>>>" ++ check (runes_of_ascii "p'1'acket
asx
{ Z9_ Header// " ++ [128512]%N ++ runes_of_ascii " emoji
,} packet pack
    { }
")).
Eval vm_compute in ("<<<M391>>>" ++ check (runes_of_ascii "MetaData o o { char[ // `tick` ""quote"" 'q'
3] body, } packet o{
u8
charz ,
    }")).
Eval vm_compute in ("<<<M401>>>" ++ check (runes_of_ascii "MetaData o { char[ char[ // `tick` ""quote"" 'q'
3] body, } packet o{
u8
charz ,
    }")).
Eval vm_compute in ("<<<M411>>>" ++ check (runes_of_ascii "MetaData o { char[ // `tick` ""quote"" 'q'
3] ] body, } packet o{
u8
charz ,
    }")).
Eval vm_compute in ("<<<M421>>>" ++ check (runes_of_ascii "MetaData o { char[ // `tick` ""quote"" 'q'
3] body, , } packet o{
u8
charz ,
    }")).
Eval vm_compute in ("<<<M431>>>" ++ check (runes_of_ascii "MetaData o { char[ // `tick` ""quote"" 'q'
3] body, } packet packet o{
u8
charz ,
    }")).
Eval vm_compute in ("<<<M441>>>" ++ check (runes_of_ascii "MetaData o { char[ // `tick` ""quote"" 'q'
3] body, } packet o{ {
u8
charz ,
    }")).
Eval vm_compute in ("<<<M451>>>" ++ check (runes_of_ascii "MetaData o { char[ // `tick` ""quote"" 'q'
3] body, } packet o{
u8
charz charz ,
    }")).
Eval vm_compute in ("<<<M461>>>" ++ check (runes_of_ascii "MetaData o { char[ // `tick` ""quote"" 'q'
3] body, } packet o{
u8
charz ,
    } }")).
Eval vm_compute in ("<<<M471>>>" ++ check (runes_of_ascii "MetaData o "" { char[ // `tick` ""quote"" 'q'
3] body, } packet o{
u8
charz ,
    }")).
Eval vm_compute in ("<<<M481>>>" ++ check (runes_of_ascii "MetaData o { char[ // `tick` ""quote"" 'q'
3] body, } ?packet o{
u8
charz ,
    }")).
Eval vm_compute in ("<<<M491>>>" ++ check (runes_of_ascii "options calculatedFrom =	int8 ;}

")).
Eval vm_compute in ("<<<M501>>>" ++ check (runes_of_ascii "options {calculatedFrom 	int8 ;}

")).
Eval vm_compute in ("<<<M511>>>" ++ check (runes_of_ascii "options {calculatedFrom =	int8 }

")).
Eval vm_compute in ("<<<M521>>>" ++ check (runes_of_ascii "options")).
Eval vm_compute in ("<<<M531>>>" ++ check (runes_of_ascii "options {calculatedFrom =	int8 ;}

%")).
Eval vm_compute in ("<<<M541>>>" ++ check (runes_of_ascii "options {a" ++ [769]%N ++ runes_of_ascii "b =	int8 ;}

")).
Eval vm_compute in ("<<<M551>>>" ++ check (runes_of_ascii "
MetaData chars {Logon packetx,")).
Eval vm_compute in ("<<<M561>>>" ++ check (runes_of_ascii "
MetaData chars {Logon packetx,
    float calculatedFrom
,  [ i64_ ,	}")).
Eval vm_compute in ("<<<M571>>>" ++ check (runes_of_ascii "/")).
Eval vm_compute in ("<<<M581>>>" ++ check (runes_of_ascii "H" ++ [65533]%N ++ runes_of_ascii "X8F" ++ [65533; 65533; 65533]%N ++ runes_of_ascii "S" ++ [65533; 65533; 65533; 65533]%N ++ runes_of_ascii "K" ++ [65533; 1331; 65533]%N ++ runes_of_ascii "+" ++ [127; 65533]%N ++ runes_of_ascii ":&" ++ [65533; 65533]%N ++ runes_of_ascii "
" ++ [65533]%N ++ runes_of_ascii "." ++ [1685; 65533; 65533]%N ++ runes_of_ascii "%" ++ [65533]%N ++ runes_of_ascii "Z")).
Eval vm_compute in ("<<<M591>>>" ++ check (runes_of_ascii "} [ options @rightPad ""packet"" root packet char[ int8 }")).
