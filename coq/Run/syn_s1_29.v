From FP Require Import Lexer Parser ShowPT Digest.
From Coq Require Import String List NArith.
Import ListNotations.
Open Scope string_scope.
Set Printing Width 100000000.
Set Printing Depth 100000000.
Definition nl : string := String (Ascii.ascii_of_nat 10) EmptyString.
Definition model_lex (rs : list rune) : string := show_toks (lex rs).
Definition model_parse (rs : list rune) : string :=
  show_pt (match lex rs with Some ts => parse ts | None => None end).
(* coqc is slow at printing long strings: digests first (Digest.v), full texts on demand *)
Definition check (rs : list rune) : string :=
  digest (model_lex rs) ++ " " ++ digest (model_parse rs).
Definition full (rs : list rune) : string := model_lex rs ++ nl ++ model_parse rs.
Definition terms (ts : list tok) (t : pt) : string :=
  digest (show_toks (Some ts)) ++ " " ++ digest (show_pt (Some t)) ++ " " ++ digest (show_pt (parse ts)).
Definition terms_full (ts : list tok) (t : pt) : string :=
  show_toks (Some ts) ++ nl ++ show_pt (Some t) ++ nl ++ show_pt (parse ts).
Eval vm_compute in ("<<<M29>>>" ++ check (runes_of_ascii "packet
tag { repeat
    //
    T MetaDataX
    , @calculatedFrom(
//
/// triple
""`tick`""  ) @tag( 007 ) leftPad `tab	here` , @tag( 0123456789  )
char x , @tag(0 ) u64 tag
    ,
i8 roots
    // a // b
    ,
    @lengthOf(
float ) @tag( 10 )
// c
// `tick` ""quote"" 'q'
body { chars
{repeat int8  body , }  , repeat Header {char[]
    leftPad	, },	match  Logon as zchar  { 4294967296 :
    len , ""a\""b"":A //
00
: x_y_z,
} , repeat i16	options1
, }
    , @calculatedFrom( """ ++ [128512]%N ++ runes_of_ascii """)@rightPad ( '0'
) i16 Pad , //
int64
    As @lengthOf(
crc ) , } MetaData x_y_z {u crc
, } root packet
Z9_{ @calculatedFrom( ""{,}"" ) tag, @lengthOf( lengthOf ) zchar[  42 ] crc //x
`" ++ [233]%N ++ runes_of_ascii "`
// a // b
// @lengthOf(
, char[ 007 ] options1 ,
}packet
    // `tick` ""quote"" 'q'
    x {char	trueish
    ,	char[] packetx @calculatedFrom(""" ++ [28040; 24687]%N ++ runes_of_ascii """)
    `line1
line2` ,  zchar[
1
    ]
    Foo // " ++ [128512]%N ++ runes_of_ascii " emoji
, zchar[ 00 ]
A , match msg_type as tag { """" : leftPad , [ """ ++ [128512]%N ++ runes_of_ascii """ ,
    0 ,10
    ,  3//	t
] :
Z9_,  ""it's"":	float , 10 : calculatedFrom ""x y"" // @lengthOf(
:
    f32a
    007	: roots
    , } // `tick` ""quote"" 'q'
,} packet
    u{ // trailing space 
@calculatedFrom( ""\n"" ) @calculatedFrom( ""a\""b"" )	i64_
rootA , match // @lengthOf(
x as Logon {
    1
:
    body,
""a\\"" /// triple
: _x ""packet"" : BodyLength,
},
    //x
    @rightPad ( '\x00'//x
) @calculatedFrom( """ ++ [128512]%N ++ runes_of_ascii """ )	repeat stringy { match
//x
// packet A { u8 x, }
T as float { ""a\\"" : len
    0:
BodyLength , [ ""it's""
, ""{,}"" , 255 // a // b
, 0123456789, ""a\\"" ] :
    Logon, 3:rootA
    // " ++ [27880; 37322]%N ++ runes_of_ascii "
    ,
    }
//
// packet A { u8 x, }
,
} ,//
u16 uint8x `{ , }`,
// trailing space 
//x
@leftPad
    // a // b
    (
'0' )  string i64_@lengthOf(  stringy  ),
// `tick` ""quote"" 'q'
// @lengthOf(
u64 leftPad@calculatedFrom( // " ++ [27880; 37322]%N ++ runes_of_ascii "
""a	b"" ) , repeat // @lengthOf(
Header MetaDataX `a\`
, @lengthOf(stringy
    )	Packet
leftPad , @tag( 00 ) repeat zchar _x `tab	here` , i32	matchKey , }
")).
Eval vm_compute in ("<<<M61>>>" ++ check (runes_of_ascii "// packet A { u8 x, }
")).
Eval vm_compute in ("<<<M93>>>" ++ check (runes_of_ascii "//	t
packet
packetx { zchar , @lengthOf( x_y_z )o ,
}
    packet  Packet // " ++ [128512]%N ++ runes_of_ascii " emoji
{ match u128 as // a // b
Header{ [
    7
    ,""1""
]: u
    , ""x y"" :
charz 0123456789 : calculatedFrom
//	t
//x
} ,// " ++ [27880; 37322]%N ++ runes_of_ascii "
repeat  roots
tag
    ,}")).
Eval vm_compute in ("<<<M125>>>" ++ check (runes_of_ascii "root packet // c
falsey { roots { repeat x_y_z ,
} , char[] T `
` , char[	3 ]T/// triple
,zchar { repeat
zchar[ 65535 ]
    rootA  `tab	here`
    , int32 leftPad , }
,
// packet A { u8 x, }
// `tick` ""quote"" 'q'
repeat
    Packet
    //	t
    ,repeat
char[ 00 ] body`" ++ [233]%N ++ runes_of_ascii "` , @tag(
00// @lengthOf(
) a1 i64_
, i8i8 BodyLength `{ , }`
    , match
    crc as u8x
// a // b
//	t
{ [
    // `tick` ""quote"" 'q'
    0 ]:
    matchKey , [ 0123456789,
""a\\""
,
""abc"" ]:As , """ ++ [128512]%N ++ runes_of_ascii """ : tag, 7 :
    u8x , 42 : f32a 00 :options1 } // trailing space 
,} packet// " ++ [27880; 37322]%N ++ runes_of_ascii "
MetaDataX{@tag( 42)@leftPad ( ) @leftPad
    //x
    ( )  body i64_ , } packet int{ @calculatedFrom(
// " ++ [27880; 37322]%N ++ runes_of_ascii "
//
""" ++ [233]%N ++ runes_of_ascii "t" ++ [233]%N ++ runes_of_ascii """)
@tag(42 ) @leftPad	( '\x00' ) repeat u8x ,  repeat len , @tag(	255	)match calculatedFrom as Z9_ {  ""CRC32"" :	len,""packet"" : falsey, [65535,
42//x
]// @lengthOf(
: charz ,
} // @lengthOf(
,i8i8 ,match
i8i8
    as Foo // trailing space 
{ ""a\\"" : x , } , @leftPad
( ) char crc `say ""hi""` ,
} options {	Pad =
    zchar[ // trailing space 
0
]; pack="""" // c
;
    } root
    packet lengthOf
{ @leftPad ('0' ) A
    // trailing space 
    @calculatedFrom(
// " ++ [27880; 37322]%N ++ runes_of_ascii "
//
""\" ++ [233]%N ++ runes_of_ascii """),@calculatedFrom( ""abc""// c
)  repeat// c
char[] a1 ,repeat int  trueish  , @rightPad(
    '\x00'
    )// a // b
zchar[4294967296 ] _x ,repeat
stringy //
x	,@tag( 00  ) @lengthOf( int )  @tag( 0) u8	T	,
@tag(1 ) @lengthOf(
a1 ) @calculatedFrom( ""it's"" ) char[ 10 ] body ,  @lengthOf( f32a )
    rootA
@calculatedFrom(""{,}"" ), // " ++ [128512]%N ++ runes_of_ascii " emoji
} 	 ")).
Eval vm_compute in ("<<<T125>>>" ++ terms [mkTok 34 "root" 1 0 false; mkTok 35 "packet" 1 5 false; mkTok 44 "// c" 1 12 true; mkTok 42 "falsey" 2 0 false; mkTok 2 "{" 2 7 false; mkTok 42 "roots" 2 9 false; mkTok 2 "{" 2 15 false; mkTok 36 "repeat" 2 17 false; mkTok 42 "x_y_z" 2 24 false; mkTok 40 "," 2 30 false; mkTok 3 "}" 3 0 false; mkTok 40 "," 3 2 false; mkTok 16 "char[]" 3 4 false; mkTok 42 "T" 3 11 false; mkTok 43 (string_of_bytes [96; 10; 96]%N) 3 13 false; mkTok 40 "," 4 2 false; mkTok 12 "char[" 4 4 false; mkTok 30 "3" 4 10 false; mkTok 13 "]" 4 12 false; mkTok 42 "T" 4 13 false; mkTok 44 "/// triple" 4 14 true; mkTok 40 "," 5 0 false; mkTok 42 "zchar" 5 1 false; mkTok 2 "{" 5 7 false; mkTok 36 "repeat" 5 9 false; mkTok 14 "zchar[" 6 0 false; mkTok 30 "65535" 6 7 false; mkTok 13 "]" 6 13 false; mkTok 42 "rootA" 7 4 false; mkTok 43 (string_of_bytes [96; 116; 97; 98; 9; 104; 101; 114; 101; 96]%N) 7 11 false; mkTok 40 "," 8 4 false; mkTok 26 "int32" 8 6 false; mkTok 42 "leftPad" 8 12 false; mkTok 40 "," 8 20 false; mkTok 3 "}" 8 22 false; mkTok 40 "," 9 0 false; mkTok 44 "// packet A { u8 x, }" 10 0 true; mkTok 44 "// `tick` ""quote"" 'q'" 11 0 true; mkTok 36 "repeat" 12 0 false; mkTok 42 "Packet" 13 4 false; mkTok 44 (string_of_bytes [47; 47; 9; 116]%N) 14 4 true; mkTok 40 "," 15 4 false; mkTok 36 "repeat" 15 5 false; mkTok 12 "char[" 16 0 false; mkTok 30 "00" 16 6 false; mkTok 13 "]" 16 9 false; mkTok 42 "body" 16 11 false; mkTok 43 (string_of_bytes [96; 195; 169; 96]%N) 16 15 false; mkTok 40 "," 16 19 false; mkTok 9 "@tag(" 16 21 false; mkTok 30 "00" 17 0 false; mkTok 44 "// @lengthOf(" 17 2 true; mkTok 6 ")" 18 0 false; mkTok 42 "a1" 18 2 false; mkTok 42 "i64_" 18 5 false; mkTok 40 "," 19 0 false; mkTok 42 "i8i8" 19 2 false; mkTok 42 "BodyLength" 19 7 false; mkTok 43 "`{ , }`" 19 18 false; mkTok 40 "," 20 4 false; mkTok 38 "match" 20 6 false; mkTok 42 "crc" 21 4 false; mkTok 17 "as" 21 8 false; mkTok 42 "u8x" 21 11 false; mkTok 44 "// a // b" 22 0 true; mkTok 44 (string_of_bytes [47; 47; 9; 116]%N) 23 0 true; mkTok 2 "{" 24 0 false; mkTok 18 "[" 24 2 false; mkTok 44 "// `tick` ""quote"" 'q'" 25 4 true; mkTok 30 "0" 26 4 false; mkTok 13 "]" 26 6 false; mkTok 39 ":" 26 7 false; mkTok 42 "matchKey" 27 4 false; mkTok 40 "," 27 13 false; mkTok 18 "[" 27 15 false; mkTok 30 "0123456789" 27 17 false; mkTok 40 "," 27 27 false; mkTok 31 """a\\""" 28 0 false; mkTok 40 "," 29 0 false; mkTok 31 """abc""" 30 0 false; mkTok 13 "]" 30 6 false; mkTok 39 ":" 30 7 false; mkTok 42 "As" 30 8 false; mkTok 40 "," 30 11 false; mkTok 31 (string_of_bytes [34; 240; 159; 152; 128; 34]%N) 30 13 false; mkTok 39 ":" 30 17 false; mkTok 42 "tag" 30 19 false; mkTok 40 "," 30 22 false; mkTok 30 "7" 30 24 false; mkTok 39 ":" 30 26 false; mkTok 42 "u8x" 31 4 false; mkTok 40 "," 31 8 false; mkTok 30 "42" 31 10 false; mkTok 39 ":" 31 13 false; mkTok 42 "f32a" 31 15 false; mkTok 30 "00" 31 20 false; mkTok 39 ":" 31 23 false; mkTok 42 "options1" 31 24 false; mkTok 3 "}" 31 33 false; mkTok 44 "// trailing space " 31 35 true; mkTok 40 "," 32 0 false; mkTok 3 "}" 32 1 false; mkTok 35 "packet" 32 3 false; mkTok 44 (string_of_bytes [47; 47; 32; 230; 179; 168; 233; 135; 138]%N) 32 9 true; mkTok 42 "MetaDataX" 33 0 false; mkTok 2 "{" 33 9 false; mkTok 9 "@tag(" 33 10 false; mkTok 30 "42" 33 16 false; mkTok 6 ")" 33 18 false; mkTok 32 "@leftPad" 33 19 false; mkTok 8 "(" 33 28 false; mkTok 6 ")" 33 30 false; mkTok 32 "@leftPad" 33 32 false; mkTok 44 "//x" 34 4 true; mkTok 8 "(" 35 4 false; mkTok 6 ")" 35 6 false; mkTok 42 "body" 35 9 false; mkTok 42 "i64_" 35 14 false; mkTok 40 "," 35 19 false; mkTok 3 "}" 35 21 false; mkTok 35 "packet" 35 23 false; mkTok 42 "int" 35 30 false; mkTok 2 "{" 35 33 false; mkTok 5 "@calculatedFrom(" 35 35 false; mkTok 44 (string_of_bytes [47; 47; 32; 230; 179; 168; 233; 135; 138]%N) 36 0 true; mkTok 44 "//" 37 0 true; mkTok 31 (string_of_bytes [34; 195; 169; 116; 195; 169; 34]%N) 38 0 false; mkTok 6 ")" 38 5 false; mkTok 9 "@tag(" 39 0 false; mkTok 30 "42" 39 5 false; mkTok 6 ")" 39 8 false; mkTok 32 "@leftPad" 39 10 false; mkTok 8 "(" 39 19 false; mkTok 33 "'\x00'" 39 21 false; mkTok 6 ")" 39 28 false; mkTok 36 "repeat" 39 30 false; mkTok 42 "u8x" 39 37 false; mkTok 40 "," 39 41 false; mkTok 36 "repeat" 39 44 false; mkTok 42 "len" 39 51 false; mkTok 40 "," 39 55 false; mkTok 9 "@tag(" 39 57 false; mkTok 30 "255" 39 63 false; mkTok 6 ")" 39 67 false; mkTok 38 "match" 39 68 false; mkTok 42 "calculatedFrom" 39 74 false; mkTok 17 "as" 39 89 false; mkTok 42 "Z9_" 39 92 false; mkTok 2 "{" 39 96 false; mkTok 31 """CRC32""" 39 99 false; mkTok 39 ":" 39 107 false; mkTok 42 "len" 39 109 false; mkTok 40 "," 39 112 false; mkTok 31 """packet""" 39 113 false; mkTok 39 ":" 39 122 false; mkTok 42 "falsey" 39 124 false; mkTok 40 "," 39 130 false; mkTok 18 "[" 39 132 false; mkTok 30 "65535" 39 133 false; mkTok 40 "," 39 138 false; mkTok 30 "42" 40 0 false; mkTok 44 "//x" 40 2 true; mkTok 13 "]" 41 0 false; mkTok 44 "// @lengthOf(" 41 1 true; mkTok 39 ":" 42 0 false; mkTok 42 "charz" 42 2 false; mkTok 40 "," 42 8 false; mkTok 3 "}" 43 0 false; mkTok 44 "// @lengthOf(" 43 2 true; mkTok 40 "," 44 0 false; mkTok 42 "i8i8" 44 1 false; mkTok 40 "," 44 6 false; mkTok 38 "match" 44 7 false; mkTok 42 "i8i8" 45 0 false; mkTok 17 "as" 46 4 false; mkTok 42 "Foo" 46 7 false; mkTok 44 "// trailing space " 46 11 true; mkTok 2 "{" 47 0 false; mkTok 31 """a\\""" 47 2 false; mkTok 39 ":" 47 8 false; mkTok 42 "x" 47 10 false; mkTok 40 "," 47 12 false; mkTok 3 "}" 47 14 false; mkTok 40 "," 47 16 false; mkTok 32 "@leftPad" 47 18 false; mkTok 8 "(" 48 0 false; mkTok 6 ")" 48 2 false; mkTok 19 "char" 48 4 false; mkTok 42 "crc" 48 9 false; mkTok 43 "`say ""hi""`" 48 13 false; mkTok 40 "," 48 24 false; mkTok 3 "}" 49 0 false; mkTok 1 "options" 49 2 false; mkTok 2 "{" 49 10 false; mkTok 42 "Pad" 49 12 false; mkTok 4 "=" 49 16 false; mkTok 14 "zchar[" 50 4 false; mkTok 44 "// trailing space " 50 11 true; mkTok 30 "0" 51 0 false; mkTok 13 "]" 52 0 false; mkTok 41 ";" 52 1 false; mkTok 42 "pack" 52 3 false; mkTok 4 "=" 52 7 false; mkTok 31 """""" 52 8 false; mkTok 44 "// c" 52 11 true; mkTok 41 ";" 53 0 false; mkTok 3 "}" 54 4 false; mkTok 34 "root" 54 6 false; mkTok 35 "packet" 55 4 false; mkTok 42 "lengthOf" 55 11 false; mkTok 2 "{" 56 0 false; mkTok 32 "@leftPad" 56 2 false; mkTok 8 "(" 56 11 false; mkTok 33 "'0'" 56 12 false; mkTok 6 ")" 56 16 false; mkTok 42 "A" 56 18 false; mkTok 44 "// trailing space " 57 4 true; mkTok 5 "@calculatedFrom(" 58 4 false; mkTok 44 (string_of_bytes [47; 47; 32; 230; 179; 168; 233; 135; 138]%N) 59 0 true; mkTok 44 "//" 60 0 true; mkTok 31 (string_of_bytes [34; 92; 195; 169; 34]%N) 61 0 false; mkTok 6 ")" 61 4 false; mkTok 40 "," 61 5 false; mkTok 5 "@calculatedFrom(" 61 6 false; mkTok 31 """abc""" 61 23 false; mkTok 44 "// c" 61 28 true; mkTok 6 ")" 62 0 false; mkTok 36 "repeat" 62 3 false; mkTok 44 "// c" 62 9 true; mkTok 16 "char[]" 63 0 false; mkTok 42 "a1" 63 7 false; mkTok 40 "," 63 10 false; mkTok 36 "repeat" 63 11 false; mkTok 42 "int" 63 18 false; mkTok 42 "trueish" 63 23 false; mkTok 40 "," 63 32 false; mkTok 32 "@rightPad" 63 34 false; mkTok 8 "(" 63 43 false; mkTok 33 "'\x00'" 64 4 false; mkTok 6 ")" 65 4 false; mkTok 44 "// a // b" 65 5 true; mkTok 14 "zchar[" 66 0 false; mkTok 30 "4294967296" 66 6 false; mkTok 13 "]" 66 17 false; mkTok 42 "_x" 66 19 false; mkTok 40 "," 66 22 false; mkTok 36 "repeat" 66 23 false; mkTok 42 "stringy" 67 0 false; mkTok 44 "//" 67 8 true; mkTok 42 "x" 68 0 false; mkTok 40 "," 68 2 false; mkTok 9 "@tag(" 68 3 false; mkTok 30 "00" 68 9 false; mkTok 6 ")" 68 13 false; mkTok 7 "@lengthOf(" 68 15 false; mkTok 42 "int" 68 26 false; mkTok 6 ")" 68 30 false; mkTok 9 "@tag(" 68 33 false; mkTok 30 "0" 68 39 false; mkTok 6 ")" 68 40 false; mkTok 20 "u8" 68 42 false; mkTok 42 "T" 68 45 false; mkTok 40 "," 68 47 false; mkTok 9 "@tag(" 69 0 false; mkTok 30 "1" 69 5 false; mkTok 6 ")" 69 7 false; mkTok 7 "@lengthOf(" 69 9 false; mkTok 42 "a1" 70 0 false; mkTok 6 ")" 70 3 false; mkTok 5 "@calculatedFrom(" 70 5 false; mkTok 31 """it's""" 70 22 false; mkTok 6 ")" 70 29 false; mkTok 12 "char[" 70 31 false; mkTok 30 "10" 70 37 false; mkTok 13 "]" 70 40 false; mkTok 42 "body" 70 42 false; mkTok 40 "," 70 47 false; mkTok 7 "@lengthOf(" 70 50 false; mkTok 42 "f32a" 70 61 false; mkTok 6 ")" 70 66 false; mkTok 42 "rootA" 71 4 false; mkTok 5 "@calculatedFrom(" 72 0 false; mkTok 31 """{,}""" 72 16 false; mkTok 6 ")" 72 22 false; mkTok 40 "," 72 23 false; mkTok 44 (string_of_bytes [47; 47; 32; 240; 159; 152; 128; 32; 101; 109; 111; 106; 105]%N) 72 25 true; mkTok 3 "}" 73 0 false; mkTok 0 "<EOF>" 73 4 false] (mkPacket (mkPtok 34 "root" 1 0 0) (Some (mkPtok 3 "}" 73 0 286)) [(DPacket (mkPacketDef (mkSpan (mkPtok 34 "root" 1 0 0) (mkPtok 3 "}" 32 1 101)) (Some (mkPtok 34 "root" 1 0 0)) (mkPtok 35 "packet" 1 5 1) (mkPtok 42 "falsey" 2 0 3) (mkPtok 2 "{" 2 7 4) [(mkFieldWithAttr (mkSpan (mkPtok 42 "roots" 2 9 5) (mkPtok 40 "," 3 2 11)) [] (InerObjectField (mkSpan (mkPtok 42 "roots" 2 9 5) (mkPtok 40 "," 3 2 11)) None (InerObjectDecl (mkSpan (mkPtok 42 "roots" 2 9 5) (mkPtok 3 "}" 3 0 10)) (mkPtok 42 "roots" 2 9 5) (mkPtok 2 "{" 2 15 6) [(ObjectField (mkSpan (mkPtok 36 "repeat" 2 17 7) (mkPtok 40 "," 2 30 9)) (Some (mkPtok 36 "repeat" 2 17 7)) (mkPtok 42 "x_y_z" 2 24 8) None None (mkPtok 40 "," 2 30 9))] (mkPtok 3 "}" 3 0 10)) (mkPtok 40 "," 3 2 11))); (mkFieldWithAttr (mkSpan (mkPtok 16 "char[]" 3 4 12) (mkPtok 40 "," 4 2 15)) [] (MetaField (mkSpan (mkPtok 16 "char[]" 3 4 12) (mkPtok 40 "," 4 2 15)) None (mkMetaDecl (mkSpan (mkPtok 16 "char[]" 3 4 12) (mkPtok 40 "," 4 2 15)) (TyDynamic (mkSpan (mkPtok 16 "char[]" 3 4 12) (mkPtok 16 "char[]" 3 4 12)) (mkDynamicString (mkSpan (mkPtok 16 "char[]" 3 4 12) (mkPtok 16 "char[]" 3 4 12)) (mkPtok 16 "char[]" 3 4 12))) (mkPtok 42 "T" 3 11 13) (Some (mkPtok 43 (string_of_bytes [96; 10; 96]%N) 3 13 14)) (mkPtok 40 "," 4 2 15)))); (mkFieldWithAttr (mkSpan (mkPtok 12 "char[" 4 4 16) (mkPtok 40 "," 5 0 21)) [] (MetaField (mkSpan (mkPtok 12 "char[" 4 4 16) (mkPtok 40 "," 5 0 21)) None (mkMetaDecl (mkSpan (mkPtok 12 "char[" 4 4 16) (mkPtok 40 "," 5 0 21)) (TyFixed (mkSpan (mkPtok 12 "char[" 4 4 16) (mkPtok 13 "]" 4 12 18)) (mkFixedString (mkSpan (mkPtok 12 "char[" 4 4 16) (mkPtok 13 "]" 4 12 18)) (mkPtok 12 "char[" 4 4 16) (mkPtok 30 "3" 4 10 17) (mkPtok 13 "]" 4 12 18))) (mkPtok 42 "T" 4 13 19) None (mkPtok 40 "," 5 0 21)))); (mkFieldWithAttr (mkSpan (mkPtok 42 "zchar" 5 1 22) (mkPtok 40 "," 9 0 35)) [] (InerObjectField (mkSpan (mkPtok 42 "zchar" 5 1 22) (mkPtok 40 "," 9 0 35)) None (InerObjectDecl (mkSpan (mkPtok 42 "zchar" 5 1 22) (mkPtok 3 "}" 8 22 34)) (mkPtok 42 "zchar" 5 1 22) (mkPtok 2 "{" 5 7 23) [(MetaField (mkSpan (mkPtok 36 "repeat" 5 9 24) (mkPtok 40 "," 8 4 30)) (Some (mkPtok 36 "repeat" 5 9 24)) (mkMetaDecl (mkSpan (mkPtok 14 "zchar[" 6 0 25) (mkPtok 40 "," 8 4 30)) (TyFixed (mkSpan (mkPtok 14 "zchar[" 6 0 25) (mkPtok 13 "]" 6 13 27)) (mkFixedString (mkSpan (mkPtok 14 "zchar[" 6 0 25) (mkPtok 13 "]" 6 13 27)) (mkPtok 14 "zchar[" 6 0 25) (mkPtok 30 "65535" 6 7 26) (mkPtok 13 "]" 6 13 27))) (mkPtok 42 "rootA" 7 4 28) (Some (mkPtok 43 (string_of_bytes [96; 116; 97; 98; 9; 104; 101; 114; 101; 96]%N) 7 11 29)) (mkPtok 40 "," 8 4 30))); (MetaField (mkSpan (mkPtok 26 "int32" 8 6 31) (mkPtok 40 "," 8 20 33)) None (mkMetaDecl (mkSpan (mkPtok 26 "int32" 8 6 31) (mkPtok 40 "," 8 20 33)) (TyBasic (mkSpan (mkPtok 26 "int32" 8 6 31) (mkPtok 26 "int32" 8 6 31)) (mkBasicType (mkSpan (mkPtok 26 "int32" 8 6 31) (mkPtok 26 "int32" 8 6 31)) (mkPtok 26 "int32" 8 6 31))) (mkPtok 42 "leftPad" 8 12 32) None (mkPtok 40 "," 8 20 33)))] (mkPtok 3 "}" 8 22 34)) (mkPtok 40 "," 9 0 35))); (mkFieldWithAttr (mkSpan (mkPtok 36 "repeat" 12 0 38) (mkPtok 40 "," 15 4 41)) [] (ObjectField (mkSpan (mkPtok 36 "repeat" 12 0 38) (mkPtok 40 "," 15 4 41)) (Some (mkPtok 36 "repeat" 12 0 38)) (mkPtok 42 "Packet" 13 4 39) None None (mkPtok 40 "," 15 4 41))); (mkFieldWithAttr (mkSpan (mkPtok 36 "repeat" 15 5 42) (mkPtok 40 "," 16 19 48)) [] (MetaField (mkSpan (mkPtok 36 "repeat" 15 5 42) (mkPtok 40 "," 16 19 48)) (Some (mkPtok 36 "repeat" 15 5 42)) (mkMetaDecl (mkSpan (mkPtok 12 "char[" 16 0 43) (mkPtok 40 "," 16 19 48)) (TyFixed (mkSpan (mkPtok 12 "char[" 16 0 43) (mkPtok 13 "]" 16 9 45)) (mkFixedString (mkSpan (mkPtok 12 "char[" 16 0 43) (mkPtok 13 "]" 16 9 45)) (mkPtok 12 "char[" 16 0 43) (mkPtok 30 "00" 16 6 44) (mkPtok 13 "]" 16 9 45))) (mkPtok 42 "body" 16 11 46) (Some (mkPtok 43 (string_of_bytes [96; 195; 169; 96]%N) 16 15 47)) (mkPtok 40 "," 16 19 48)))); (mkFieldWithAttr (mkSpan (mkPtok 9 "@tag(" 16 21 49) (mkPtok 40 "," 19 0 55)) [(FATag (mkSpan (mkPtok 9 "@tag(" 16 21 49) (mkPtok 6 ")" 18 0 52)) (mkTagAttr (mkSpan (mkPtok 9 "@tag(" 16 21 49) (mkPtok 6 ")" 18 0 52)) (mkPtok 9 "@tag(" 16 21 49) (mkPtok 30 "00" 17 0 50) (mkPtok 6 ")" 18 0 52)))] (ObjectField (mkSpan (mkPtok 42 "a1" 18 2 53) (mkPtok 40 "," 19 0 55)) None (mkPtok 42 "a1" 18 2 53) (Some (mkPtok 42 "i64_" 18 5 54)) None (mkPtok 40 "," 19 0 55))); (mkFieldWithAttr (mkSpan (mkPtok 42 "i8i8" 19 2 56) (mkPtok 40 "," 20 4 59)) [] (ObjectField (mkSpan (mkPtok 42 "i8i8" 19 2 56) (mkPtok 40 "," 20 4 59)) None (mkPtok 42 "i8i8" 19 2 56) (Some (mkPtok 42 "BodyLength" 19 7 57)) (Some (mkPtok 43 "`{ , }`" 19 18 58)) (mkPtok 40 "," 20 4 59))); (mkFieldWithAttr (mkSpan (mkPtok 38 "match" 20 6 60) (mkPtok 40 "," 32 0 100)) [] (MatchField (mkSpan (mkPtok 38 "match" 20 6 60) (mkPtok 40 "," 32 0 100)) (mkMatchFieldDecl (mkSpan (mkPtok 38 "match" 20 6 60) (mkPtok 3 "}" 31 33 98)) (mkPtok 38 "match" 20 6 60) (mkPtok 42 "crc" 21 4 61) (mkPtok 17 "as" 21 8 62) (mkPtok 42 "u8x" 21 11 63) (mkPtok 2 "{" 24 0 66) [(mkMatchPair (mkSpan (mkPtok 18 "[" 24 2 67) (mkPtok 40 "," 27 13 73)) (MKList (mkKeyList (mkSpan (mkPtok 18 "[" 24 2 67) (mkPtok 13 "]" 26 6 70)) (mkPtok 18 "[" 24 2 67) (mkPtok 30 "0" 26 4 69) [] (mkPtok 13 "]" 26 6 70))) (mkPtok 39 ":" 26 7 71) (mkPtok 42 "matchKey" 27 4 72) (Some (mkPtok 40 "," 27 13 73))); (mkMatchPair (mkSpan (mkPtok 18 "[" 27 15 74) (mkPtok 40 "," 30 11 83)) (MKList (mkKeyList (mkSpan (mkPtok 18 "[" 27 15 74) (mkPtok 13 "]" 30 6 80)) (mkPtok 18 "[" 27 15 74) (mkPtok 30 "0123456789" 27 17 75) [((mkPtok 40 "," 27 27 76), (mkPtok 31 """a\\""" 28 0 77)); ((mkPtok 40 "," 29 0 78), (mkPtok 31 """abc""" 30 0 79))] (mkPtok 13 "]" 30 6 80))) (mkPtok 39 ":" 30 7 81) (mkPtok 42 "As" 30 8 82) (Some (mkPtok 40 "," 30 11 83))); (mkMatchPair (mkSpan (mkPtok 31 (string_of_bytes [34; 240; 159; 152; 128; 34]%N) 30 13 84) (mkPtok 40 "," 30 22 87)) (MKString (mkPtok 31 (string_of_bytes [34; 240; 159; 152; 128; 34]%N) 30 13 84)) (mkPtok 39 ":" 30 17 85) (mkPtok 42 "tag" 30 19 86) (Some (mkPtok 40 "," 30 22 87))); (mkMatchPair (mkSpan (mkPtok 30 "7" 30 24 88) (mkPtok 40 "," 31 8 91)) (MKDigits (mkPtok 30 "7" 30 24 88)) (mkPtok 39 ":" 30 26 89) (mkPtok 42 "u8x" 31 4 90) (Some (mkPtok 40 "," 31 8 91))); (mkMatchPair (mkSpan (mkPtok 30 "42" 31 10 92) (mkPtok 42 "f32a" 31 15 94)) (MKDigits (mkPtok 30 "42" 31 10 92)) (mkPtok 39 ":" 31 13 93) (mkPtok 42 "f32a" 31 15 94) None); (mkMatchPair (mkSpan (mkPtok 30 "00" 31 20 95) (mkPtok 42 "options1" 31 24 97)) (MKDigits (mkPtok 30 "00" 31 20 95)) (mkPtok 39 ":" 31 23 96) (mkPtok 42 "options1" 31 24 97) None)] (mkPtok 3 "}" 31 33 98)) (mkPtok 40 "," 32 0 100)))] (mkPtok 3 "}" 32 1 101))); (DPacket (mkPacketDef (mkSpan (mkPtok 35 "packet" 32 3 102) (mkPtok 3 "}" 35 21 119)) None (mkPtok 35 "packet" 32 3 102) (mkPtok 42 "MetaDataX" 33 0 104) (mkPtok 2 "{" 33 9 105) [(mkFieldWithAttr (mkSpan (mkPtok 9 "@tag(" 33 10 106) (mkPtok 40 "," 35 19 118)) [(FATag (mkSpan (mkPtok 9 "@tag(" 33 10 106) (mkPtok 6 ")" 33 18 108)) (mkTagAttr (mkSpan (mkPtok 9 "@tag(" 33 10 106) (mkPtok 6 ")" 33 18 108)) (mkPtok 9 "@tag(" 33 10 106) (mkPtok 30 "42" 33 16 107) (mkPtok 6 ")" 33 18 108))); (FAPadding (mkSpan (mkPtok 32 "@leftPad" 33 19 109) (mkPtok 6 ")" 33 30 111)) (mkPaddingAttr (mkSpan (mkPtok 32 "@leftPad" 33 19 109) (mkPtok 6 ")" 33 30 111)) (mkPtok 32 "@leftPad" 33 19 109) (mkPtok 8 "(" 33 28 110) None (mkPtok 6 ")" 33 30 111))); (FAPadding (mkSpan (mkPtok 32 "@leftPad" 33 32 112) (mkPtok 6 ")" 35 6 115)) (mkPaddingAttr (mkSpan (mkPtok 32 "@leftPad" 33 32 112) (mkPtok 6 ")" 35 6 115)) (mkPtok 32 "@leftPad" 33 32 112) (mkPtok 8 "(" 35 4 114) None (mkPtok 6 ")" 35 6 115)))] (ObjectField (mkSpan (mkPtok 42 "body" 35 9 116) (mkPtok 40 "," 35 19 118)) None (mkPtok 42 "body" 35 9 116) (Some (mkPtok 42 "i64_" 35 14 117)) None (mkPtok 40 "," 35 19 118)))] (mkPtok 3 "}" 35 21 119))); (DPacket (mkPacketDef (mkSpan (mkPtok 35 "packet" 35 23 120) (mkPtok 3 "}" 49 0 191)) None (mkPtok 35 "packet" 35 23 120) (mkPtok 42 "int" 35 30 121) (mkPtok 2 "{" 35 33 122) [(mkFieldWithAttr (mkSpan (mkPtok 5 "@calculatedFrom(" 35 35 123) (mkPtok 40 "," 39 41 137)) [(FACalculatedFrom (mkSpan (mkPtok 5 "@calculatedFrom(" 35 35 123) (mkPtok 6 ")" 38 5 127)) (mkCalculatedFrom (mkSpan (mkPtok 5 "@calculatedFrom(" 35 35 123) (mkPtok 6 ")" 38 5 127)) (mkPtok 5 "@calculatedFrom(" 35 35 123) (mkPtok 31 (string_of_bytes [34; 195; 169; 116; 195; 169; 34]%N) 38 0 126) (mkPtok 6 ")" 38 5 127))); (FATag (mkSpan (mkPtok 9 "@tag(" 39 0 128) (mkPtok 6 ")" 39 8 130)) (mkTagAttr (mkSpan (mkPtok 9 "@tag(" 39 0 128) (mkPtok 6 ")" 39 8 130)) (mkPtok 9 "@tag(" 39 0 128) (mkPtok 30 "42" 39 5 129) (mkPtok 6 ")" 39 8 130))); (FAPadding (mkSpan (mkPtok 32 "@leftPad" 39 10 131) (mkPtok 6 ")" 39 28 134)) (mkPaddingAttr (mkSpan (mkPtok 32 "@leftPad" 39 10 131) (mkPtok 6 ")" 39 28 134)) (mkPtok 32 "@leftPad" 39 10 131) (mkPtok 8 "(" 39 19 132) (Some (mkPtok 33 "'\x00'" 39 21 133)) (mkPtok 6 ")" 39 28 134)))] (ObjectField (mkSpan (mkPtok 36 "repeat" 39 30 135) (mkPtok 40 "," 39 41 137)) (Some (mkPtok 36 "repeat" 39 30 135)) (mkPtok 42 "u8x" 39 37 136) None None (mkPtok 40 "," 39 41 137))); (mkFieldWithAttr (mkSpan (mkPtok 36 "repeat" 39 44 138) (mkPtok 40 "," 39 55 140)) [] (ObjectField (mkSpan (mkPtok 36 "repeat" 39 44 138) (mkPtok 40 "," 39 55 140)) (Some (mkPtok 36 "repeat" 39 44 138)) (mkPtok 42 "len" 39 51 139) None None (mkPtok 40 "," 39 55 140))); (mkFieldWithAttr (mkSpan (mkPtok 9 "@tag(" 39 57 141) (mkPtok 40 "," 44 0 169)) [(FATag (mkSpan (mkPtok 9 "@tag(" 39 57 141) (mkPtok 6 ")" 39 67 143)) (mkTagAttr (mkSpan (mkPtok 9 "@tag(" 39 57 141) (mkPtok 6 ")" 39 67 143)) (mkPtok 9 "@tag(" 39 57 141) (mkPtok 30 "255" 39 63 142) (mkPtok 6 ")" 39 67 143)))] (MatchField (mkSpan (mkPtok 38 "match" 39 68 144) (mkPtok 40 "," 44 0 169)) (mkMatchFieldDecl (mkSpan (mkPtok 38 "match" 39 68 144) (mkPtok 3 "}" 43 0 167)) (mkPtok 38 "match" 39 68 144) (mkPtok 42 "calculatedFrom" 39 74 145) (mkPtok 17 "as" 39 89 146) (mkPtok 42 "Z9_" 39 92 147) (mkPtok 2 "{" 39 96 148) [(mkMatchPair (mkSpan (mkPtok 31 """CRC32""" 39 99 149) (mkPtok 40 "," 39 112 152)) (MKString (mkPtok 31 """CRC32""" 39 99 149)) (mkPtok 39 ":" 39 107 150) (mkPtok 42 "len" 39 109 151) (Some (mkPtok 40 "," 39 112 152))); (mkMatchPair (mkSpan (mkPtok 31 """packet""" 39 113 153) (mkPtok 40 "," 39 130 156)) (MKString (mkPtok 31 """packet""" 39 113 153)) (mkPtok 39 ":" 39 122 154) (mkPtok 42 "falsey" 39 124 155) (Some (mkPtok 40 "," 39 130 156))); (mkMatchPair (mkSpan (mkPtok 18 "[" 39 132 157) (mkPtok 40 "," 42 8 166)) (MKList (mkKeyList (mkSpan (mkPtok 18 "[" 39 132 157) (mkPtok 13 "]" 41 0 162)) (mkPtok 18 "[" 39 132 157) (mkPtok 30 "65535" 39 133 158) [((mkPtok 40 "," 39 138 159), (mkPtok 30 "42" 40 0 160))] (mkPtok 13 "]" 41 0 162))) (mkPtok 39 ":" 42 0 164) (mkPtok 42 "charz" 42 2 165) (Some (mkPtok 40 "," 42 8 166)))] (mkPtok 3 "}" 43 0 167)) (mkPtok 40 "," 44 0 169))); (mkFieldWithAttr (mkSpan (mkPtok 42 "i8i8" 44 1 170) (mkPtok 40 "," 44 6 171)) [] (ObjectField (mkSpan (mkPtok 42 "i8i8" 44 1 170) (mkPtok 40 "," 44 6 171)) None (mkPtok 42 "i8i8" 44 1 170) None None (mkPtok 40 "," 44 6 171))); (mkFieldWithAttr (mkSpan (mkPtok 38 "match" 44 7 172) (mkPtok 40 "," 47 16 183)) [] (MatchField (mkSpan (mkPtok 38 "match" 44 7 172) (mkPtok 40 "," 47 16 183)) (mkMatchFieldDecl (mkSpan (mkPtok 38 "match" 44 7 172) (mkPtok 3 "}" 47 14 182)) (mkPtok 38 "match" 44 7 172) (mkPtok 42 "i8i8" 45 0 173) (mkPtok 17 "as" 46 4 174) (mkPtok 42 "Foo" 46 7 175) (mkPtok 2 "{" 47 0 177) [(mkMatchPair (mkSpan (mkPtok 31 """a\\""" 47 2 178) (mkPtok 40 "," 47 12 181)) (MKString (mkPtok 31 """a\\""" 47 2 178)) (mkPtok 39 ":" 47 8 179) (mkPtok 42 "x" 47 10 180) (Some (mkPtok 40 "," 47 12 181)))] (mkPtok 3 "}" 47 14 182)) (mkPtok 40 "," 47 16 183))); (mkFieldWithAttr (mkSpan (mkPtok 32 "@leftPad" 47 18 184) (mkPtok 40 "," 48 24 190)) [(FAPadding (mkSpan (mkPtok 32 "@leftPad" 47 18 184) (mkPtok 6 ")" 48 2 186)) (mkPaddingAttr (mkSpan (mkPtok 32 "@leftPad" 47 18 184) (mkPtok 6 ")" 48 2 186)) (mkPtok 32 "@leftPad" 47 18 184) (mkPtok 8 "(" 48 0 185) None (mkPtok 6 ")" 48 2 186)))] (MetaField (mkSpan (mkPtok 19 "char" 48 4 187) (mkPtok 40 "," 48 24 190)) None (mkMetaDecl (mkSpan (mkPtok 19 "char" 48 4 187) (mkPtok 40 "," 48 24 190)) (TyBasic (mkSpan (mkPtok 19 "char" 48 4 187) (mkPtok 19 "char" 48 4 187)) (mkBasicType (mkSpan (mkPtok 19 "char" 48 4 187) (mkPtok 19 "char" 48 4 187)) (mkPtok 19 "char" 48 4 187))) (mkPtok 42 "crc" 48 9 188) (Some (mkPtok 43 "`say ""hi""`" 48 13 189)) (mkPtok 40 "," 48 24 190))))] (mkPtok 3 "}" 49 0 191))); (DOption (mkOptionDef (mkSpan (mkPtok 1 "options" 49 2 192) (mkPtok 3 "}" 54 4 206)) (mkPtok 1 "options" 49 2 192) (mkPtok 2 "{" 49 10 193) [(mkOptionDecl (mkSpan (mkPtok 42 "Pad" 49 12 194) (mkPtok 41 ";" 52 1 200)) (mkPtok 42 "Pad" 49 12 194) (mkPtok 4 "=" 49 16 195) (VType (mkSpan (mkPtok 14 "zchar[" 50 4 196) (mkPtok 13 "]" 52 0 199)) (TyFixed (mkSpan (mkPtok 14 "zchar[" 50 4 196) (mkPtok 13 "]" 52 0 199)) (mkFixedString (mkSpan (mkPtok 14 "zchar[" 50 4 196) (mkPtok 13 "]" 52 0 199)) (mkPtok 14 "zchar[" 50 4 196) (mkPtok 30 "0" 51 0 198) (mkPtok 13 "]" 52 0 199)))) (Some (mkPtok 41 ";" 52 1 200))); (mkOptionDecl (mkSpan (mkPtok 42 "pack" 52 3 201) (mkPtok 41 ";" 53 0 205)) (mkPtok 42 "pack" 52 3 201) (mkPtok 4 "=" 52 7 202) (VString (mkSpan (mkPtok 31 """""" 52 8 203) (mkPtok 31 """""" 52 8 203)) (mkPtok 31 """""" 52 8 203)) (Some (mkPtok 41 ";" 53 0 205)))] (mkPtok 3 "}" 54 4 206))); (DPacket (mkPacketDef (mkSpan (mkPtok 34 "root" 54 6 207) (mkPtok 3 "}" 73 0 286)) (Some (mkPtok 34 "root" 54 6 207)) (mkPtok 35 "packet" 55 4 208) (mkPtok 42 "lengthOf" 55 11 209) (mkPtok 2 "{" 56 0 210) [(mkFieldWithAttr (mkSpan (mkPtok 32 "@leftPad" 56 2 211) (mkPtok 40 "," 61 5 222)) [(FAPadding (mkSpan (mkPtok 32 "@leftPad" 56 2 211) (mkPtok 6 ")" 56 16 214)) (mkPaddingAttr (mkSpan (mkPtok 32 "@leftPad" 56 2 211) (mkPtok 6 ")" 56 16 214)) (mkPtok 32 "@leftPad" 56 2 211) (mkPtok 8 "(" 56 11 212) (Some (mkPtok 33 "'0'" 56 12 213)) (mkPtok 6 ")" 56 16 214)))] (CheckSumField (mkSpan (mkPtok 42 "A" 56 18 215) (mkPtok 40 "," 61 5 222)) (mkChecksumFieldDecl (mkSpan (mkPtok 42 "A" 56 18 215) (mkPtok 40 "," 61 5 222)) None (mkPtok 42 "A" 56 18 215) (mkCalculatedFrom (mkSpan (mkPtok 5 "@calculatedFrom(" 58 4 217) (mkPtok 6 ")" 61 4 221)) (mkPtok 5 "@calculatedFrom(" 58 4 217) (mkPtok 31 (string_of_bytes [34; 92; 195; 169; 34]%N) 61 0 220) (mkPtok 6 ")" 61 4 221)) None (mkPtok 40 "," 61 5 222)))); (mkFieldWithAttr (mkSpan (mkPtok 5 "@calculatedFrom(" 61 6 223) (mkPtok 40 "," 63 10 231)) [(FACalculatedFrom (mkSpan (mkPtok 5 "@calculatedFrom(" 61 6 223) (mkPtok 6 ")" 62 0 226)) (mkCalculatedFrom (mkSpan (mkPtok 5 "@calculatedFrom(" 61 6 223) (mkPtok 6 ")" 62 0 226)) (mkPtok 5 "@calculatedFrom(" 61 6 223) (mkPtok 31 """abc""" 61 23 224) (mkPtok 6 ")" 62 0 226)))] (MetaField (mkSpan (mkPtok 36 "repeat" 62 3 227) (mkPtok 40 "," 63 10 231)) (Some (mkPtok 36 "repeat" 62 3 227)) (mkMetaDecl (mkSpan (mkPtok 16 "char[]" 63 0 229) (mkPtok 40 "," 63 10 231)) (TyDynamic (mkSpan (mkPtok 16 "char[]" 63 0 229) (mkPtok 16 "char[]" 63 0 229)) (mkDynamicString (mkSpan (mkPtok 16 "char[]" 63 0 229) (mkPtok 16 "char[]" 63 0 229)) (mkPtok 16 "char[]" 63 0 229))) (mkPtok 42 "a1" 63 7 230) None (mkPtok 40 "," 63 10 231)))); (mkFieldWithAttr (mkSpan (mkPtok 36 "repeat" 63 11 232) (mkPtok 40 "," 63 32 235)) [] (ObjectField (mkSpan (mkPtok 36 "repeat" 63 11 232) (mkPtok 40 "," 63 32 235)) (Some (mkPtok 36 "repeat" 63 11 232)) (mkPtok 42 "int" 63 18 233) (Some (mkPtok 42 "trueish" 63 23 234)) None (mkPtok 40 "," 63 32 235))); (mkFieldWithAttr (mkSpan (mkPtok 32 "@rightPad" 63 34 236) (mkPtok 40 "," 66 22 245)) [(FAPadding (mkSpan (mkPtok 32 "@rightPad" 63 34 236) (mkPtok 6 ")" 65 4 239)) (mkPaddingAttr (mkSpan (mkPtok 32 "@rightPad" 63 34 236) (mkPtok 6 ")" 65 4 239)) (mkPtok 32 "@rightPad" 63 34 236) (mkPtok 8 "(" 63 43 237) (Some (mkPtok 33 "'\x00'" 64 4 238)) (mkPtok 6 ")" 65 4 239)))] (MetaField (mkSpan (mkPtok 14 "zchar[" 66 0 241) (mkPtok 40 "," 66 22 245)) None (mkMetaDecl (mkSpan (mkPtok 14 "zchar[" 66 0 241) (mkPtok 40 "," 66 22 245)) (TyFixed (mkSpan (mkPtok 14 "zchar[" 66 0 241) (mkPtok 13 "]" 66 17 243)) (mkFixedString (mkSpan (mkPtok 14 "zchar[" 66 0 241) (mkPtok 13 "]" 66 17 243)) (mkPtok 14 "zchar[" 66 0 241) (mkPtok 30 "4294967296" 66 6 242) (mkPtok 13 "]" 66 17 243))) (mkPtok 42 "_x" 66 19 244) None (mkPtok 40 "," 66 22 245)))); (mkFieldWithAttr (mkSpan (mkPtok 36 "repeat" 66 23 246) (mkPtok 40 "," 68 2 250)) [] (ObjectField (mkSpan (mkPtok 36 "repeat" 66 23 246) (mkPtok 40 "," 68 2 250)) (Some (mkPtok 36 "repeat" 66 23 246)) (mkPtok 42 "stringy" 67 0 247) (Some (mkPtok 42 "x" 68 0 249)) None (mkPtok 40 "," 68 2 250))); (mkFieldWithAttr (mkSpan (mkPtok 9 "@tag(" 68 3 251) (mkPtok 40 "," 68 47 262)) [(FATag (mkSpan (mkPtok 9 "@tag(" 68 3 251) (mkPtok 6 ")" 68 13 253)) (mkTagAttr (mkSpan (mkPtok 9 "@tag(" 68 3 251) (mkPtok 6 ")" 68 13 253)) (mkPtok 9 "@tag(" 68 3 251) (mkPtok 30 "00" 68 9 252) (mkPtok 6 ")" 68 13 253))); (FALengthOf (mkSpan (mkPtok 7 "@lengthOf(" 68 15 254) (mkPtok 6 ")" 68 30 256)) (mkLengthOf (mkSpan (mkPtok 7 "@lengthOf(" 68 15 254) (mkPtok 6 ")" 68 30 256)) (mkPtok 7 "@lengthOf(" 68 15 254) (mkPtok 42 "int" 68 26 255) (mkPtok 6 ")" 68 30 256))); (FATag (mkSpan (mkPtok 9 "@tag(" 68 33 257) (mkPtok 6 ")" 68 40 259)) (mkTagAttr (mkSpan (mkPtok 9 "@tag(" 68 33 257) (mkPtok 6 ")" 68 40 259)) (mkPtok 9 "@tag(" 68 33 257) (mkPtok 30 "0" 68 39 258) (mkPtok 6 ")" 68 40 259)))] (MetaField (mkSpan (mkPtok 20 "u8" 68 42 260) (mkPtok 40 "," 68 47 262)) None (mkMetaDecl (mkSpan (mkPtok 20 "u8" 68 42 260) (mkPtok 40 "," 68 47 262)) (TyBasic (mkSpan (mkPtok 20 "u8" 68 42 260) (mkPtok 20 "u8" 68 42 260)) (mkBasicType (mkSpan (mkPtok 20 "u8" 68 42 260) (mkPtok 20 "u8" 68 42 260)) (mkPtok 20 "u8" 68 42 260))) (mkPtok 42 "T" 68 45 261) None (mkPtok 40 "," 68 47 262)))); (mkFieldWithAttr (mkSpan (mkPtok 9 "@tag(" 69 0 263) (mkPtok 40 "," 70 47 276)) [(FATag (mkSpan (mkPtok 9 "@tag(" 69 0 263) (mkPtok 6 ")" 69 7 265)) (mkTagAttr (mkSpan (mkPtok 9 "@tag(" 69 0 263) (mkPtok 6 ")" 69 7 265)) (mkPtok 9 "@tag(" 69 0 263) (mkPtok 30 "1" 69 5 264) (mkPtok 6 ")" 69 7 265))); (FALengthOf (mkSpan (mkPtok 7 "@lengthOf(" 69 9 266) (mkPtok 6 ")" 70 3 268)) (mkLengthOf (mkSpan (mkPtok 7 "@lengthOf(" 69 9 266) (mkPtok 6 ")" 70 3 268)) (mkPtok 7 "@lengthOf(" 69 9 266) (mkPtok 42 "a1" 70 0 267) (mkPtok 6 ")" 70 3 268))); (FACalculatedFrom (mkSpan (mkPtok 5 "@calculatedFrom(" 70 5 269) (mkPtok 6 ")" 70 29 271)) (mkCalculatedFrom (mkSpan (mkPtok 5 "@calculatedFrom(" 70 5 269) (mkPtok 6 ")" 70 29 271)) (mkPtok 5 "@calculatedFrom(" 70 5 269) (mkPtok 31 """it's""" 70 22 270) (mkPtok 6 ")" 70 29 271)))] (MetaField (mkSpan (mkPtok 12 "char[" 70 31 272) (mkPtok 40 "," 70 47 276)) None (mkMetaDecl (mkSpan (mkPtok 12 "char[" 70 31 272) (mkPtok 40 "," 70 47 276)) (TyFixed (mkSpan (mkPtok 12 "char[" 70 31 272) (mkPtok 13 "]" 70 40 274)) (mkFixedString (mkSpan (mkPtok 12 "char[" 70 31 272) (mkPtok 13 "]" 70 40 274)) (mkPtok 12 "char[" 70 31 272) (mkPtok 30 "10" 70 37 273) (mkPtok 13 "]" 70 40 274))) (mkPtok 42 "body" 70 42 275) None (mkPtok 40 "," 70 47 276)))); (mkFieldWithAttr (mkSpan (mkPtok 7 "@lengthOf(" 70 50 277) (mkPtok 40 "," 72 23 284)) [(FALengthOf (mkSpan (mkPtok 7 "@lengthOf(" 70 50 277) (mkPtok 6 ")" 70 66 279)) (mkLengthOf (mkSpan (mkPtok 7 "@lengthOf(" 70 50 277) (mkPtok 6 ")" 70 66 279)) (mkPtok 7 "@lengthOf(" 70 50 277) (mkPtok 42 "f32a" 70 61 278) (mkPtok 6 ")" 70 66 279)))] (CheckSumField (mkSpan (mkPtok 42 "rootA" 71 4 280) (mkPtok 40 "," 72 23 284)) (mkChecksumFieldDecl (mkSpan (mkPtok 42 "rootA" 71 4 280) (mkPtok 40 "," 72 23 284)) None (mkPtok 42 "rootA" 71 4 280) (mkCalculatedFrom (mkSpan (mkPtok 5 "@calculatedFrom(" 72 0 281) (mkPtok 6 ")" 72 22 283)) (mkPtok 5 "@calculatedFrom(" 72 0 281) (mkPtok 31 """{,}""" 72 16 282) (mkPtok 6 ")" 72 22 283)) None (mkPtok 40 "," 72 23 284))))] (mkPtok 3 "}" 73 0 286)))])).
Eval vm_compute in ("<<<M157>>>" ++ check (runes_of_ascii "packet
    Header	{	repeat string
    Header
,
repeat options1  ,	zchar[
    //	t
    00 ] matchKey ,} options
// @lengthOf(
// `tick` ""quote"" 'q'
{charz= ""\n"" ; // a // b
BodyLength = ""x y"" u8x
    = ""x y""
    u // `tick` ""quote"" 'q'
= 255 }
MetaData u8x{
// a // b
// c
Z9_
i8i8 , float32  stringy , float msg_type // `tick` ""quote"" 'q'
`doc`
    ,
calculatedFrom T , Foo T `a\` , }	root
    packet
    roots
    {	@tag( 00
) /// triple
match// `tick` ""quote"" 'q'
len
    as roots {
    // @lengthOf(
    [ 4294967296 ]
    : tag ""// no comment"" :float ,"""" : uint8x ,
// " ++ [27880; 37322]%N ++ runes_of_ascii "
// trailing space 
007
    // " ++ [27880; 37322]%N ++ runes_of_ascii "
    :
    options1 , } , }")).
Eval vm_compute in ("<<<M189>>>" ++ check (runes_of_ascii "packet
// @lengthOf(
// " ++ [128512]%N ++ runes_of_ascii " emoji
Foo { @calculatedFrom( """" )
@calculatedFrom(""1""
) @rightPad () int32 As
@calculatedFrom( """"// a // b
)
    `say ""hi""` // c
, @calculatedFrom( ""\n""
)
// trailing space 
/// triple
char[// trailing space 
65535 ] asx ,
    repeat	int8 trueish `{ , }` ,
} root packet lengthOf{  }")).
Eval vm_compute in ("<<<M221>>>" ++ check (runes_of_ascii "root packet matchKey{f32a// " ++ [27880; 37322]%N ++ runes_of_ascii "
`u8 x,` ,	char[]u8x ,
@calculatedFrom( ""a\""b"" )
i32 i8i8 , }

")).
Eval vm_compute in ("<<<M253>>>" ++ check (runes_of_ascii "
packet/// triple
packetx {
} // " ++ [27880; 37322]%N)).
Eval vm_compute in ("<<<M285>>>" ++ check (runes_of_ascii "
root  packet zchar
    {zchar[007] Foo , }")).
Eval vm_compute in ("<<<M317>>>" ++ check (runes_of_ascii "root packet tag
    //x
    { @tag(
// trailing space 
//x
4294967296) zchar[ 255
    ]
    Foo	@calculatedFrom( ""\" ++ [233]%N ++ runes_of_ascii """  )// trailing space 
, @lengthOf( // packet A { u8 x, }
packetx
) @tag( 1) @lengthOf( string_ ) // a // b
zchar[
255] u	, Z9_ {repeat stringy  {repeat
body , }
    ,
    // `tick` ""quote"" 'q'
    } ,
    //
    repeat uint8  a1 , i64// c
tag  ,
    // " ++ [128512]%N ++ runes_of_ascii " emoji
    }
    packet uint8x { // a // b
@lengthOf( BodyLength	) @lengthOf( int )
    //
    uint64 As `{ , }` ,
    char[
65535	] zchar
// " ++ [27880; 37322]%N ++ runes_of_ascii "
// trailing space 
@lengthOf(
    stringy ) `tab	here` ,rootA @calculatedFrom( // a // b
""x y"" ) , repeat options1	{ i8i8 calculatedFrom,
// " ++ [27880; 37322]%N ++ runes_of_ascii "
// `tick` ""quote"" 'q'
}, repeat char[ 0]
    MetaDataX ,} //")).
Eval vm_compute in ("<<<M349>>>" ++ check (runes_of_ascii "

")).
Eval vm_compute in ("<<<T349>>>" ++ terms [mkTok 0 "<EOF>" 3 0 false] (mkPacket (mkPtok 0 "<EOF>" 3 0 0) None [])).
Eval vm_compute in ("<<<M381>>>" ++ check (runes_of_ascii "root
packet
f32a {
trueish
    falsey
, tag , repeat
    // trailing space 
    Pad{ u32
    i8i8 @calculatedFrom(""x y""
    )
, } ,@calculatedFrom( ""// no comment""  )@lengthOf( calculatedFrom
    ) @tag(	65535)  string T,
    }

")).
Eval vm_compute in ("<<<M413>>>" ++ check (runes_of_ascii "packet falsey
    //
    { @calculatedFrom( // @lengthOf(
""`tick`"" )
Pad
/// triple
// c
{
match
pack as roots { """ ++ [233]%N ++ runes_of_ascii "t" ++ [233]%N ++ runes_of_ascii """ : u ,
42: //
As""packet"" : Logon,
}
    ,}
    , } options
{ } root
    packet stringy { }")).
Eval vm_compute in ("<<<M445>>>" ++ check (runes_of_ascii "MetaData // `tick` ""quote"" 'q'
uint8x { char[// `tick` ""quote"" 'q'
7 ] Foo ,	float64
//x
/// triple
repeatCount
,/// triple
a1 uint8x `// not a comment` , }
    packet
Header{	@calculatedFrom( ""packet""  ) repeat calculatedFrom charz , } packet rootA { @calculatedFrom(""abc"") @calculatedFrom( """"	)	@lengthOf( // " ++ [128512]%N ++ runes_of_ascii " emoji
asx)
repeat
    repeatCount,
repeat// " ++ [128512]%N ++ runes_of_ascii " emoji
o {
crc options1
//x
// " ++ [128512]%N ++ runes_of_ascii " emoji
, zchar[
7] A	, Z9_	@lengthOf(Pad
) ,
calculatedFrom
    // trailing space 
    @calculatedFrom(
""a\""b"" ) // packet A { u8 x, }
, } , repeat a1 Foo `{ , }` ,
    charz , } options { body=
    """ ++ [28040; 24687]%N ++ runes_of_ascii """  ;
packetx // a // b
=
    0 }
MetaData _x // @lengthOf(
{ int16 crc, }")).
Eval vm_compute in ("<<<M477>>>" ++ check (runes_of_ascii "  MetaData chars { len metadata ,
    }
")).
Eval vm_compute in ("<<<M509>>>" ++ check (runes_of_ascii "
MetaData
    asx
// a // b
/// triple
{
char[]	Z9_ // " ++ [128512]%N ++ runes_of_ascii " emoji
`doc` , }
    packet roots { a1 @lengthOf( string_ ) ,	char[ 0123456789 ] Logon`
` , // " ++ [128512]%N ++ runes_of_ascii " emoji
@calculatedFrom(
""`tick`""  )
i64 u128
    //
    , i32 matchKey
    `doc` ,match asx as pack { /// triple
[ 0 ] : x_y_z
0123456789 :float,
00 : packetx
65535 : crc
,	4294967296
    :a1 } , falsey
float ,  @calculatedFrom(""CRC32"") // " ++ [128512]%N ++ runes_of_ascii " emoji
@lengthOf( body ) @lengthOf( MetaDataX )// @lengthOf(
leftPad
@calculatedFrom( """ ++ [28040; 24687]%N ++ runes_of_ascii """
)
`// not a comment`,
    uint8 packetx @calculatedFrom( ""a	b"")// packet A { u8 x, }
,}  packet
    Logon	{
    } packet zchar { /// triple
Z9_
{ repeat i8 Foo	,	f64
    // " ++ [128512]%N ++ runes_of_ascii " emoji
    falsey
`tab	here` // " ++ [27880; 37322]%N ++ runes_of_ascii "
,
match  msg_type as As{
255: roots
, [ 4294967296, 7
    , ""`tick`""
, 65535	] :
metadata, """ ++ [233]%N ++ runes_of_ascii "t" ++ [233]%N ++ runes_of_ascii """: x_y_z ""`tick`"" : x_y_z , [
    42 , ""CRC32"" , //x
""// no comment"",  0123456789	, ""// no comment"" , ""CRC32"" ,	""" ++ [128512]%N ++ runes_of_ascii """ ,
    ""{,}"" //
]:packetx, } , o@lengthOf(
msg_type ) `it's` , }	,	@calculatedFrom( """ ++ [28040; 24687]%N ++ runes_of_ascii """ )
uint64 x
`crlf
line` , zchar[
7 ]
Logon , repeat rootA matchKey `crlf
line` ,} // " ++ [27880; 37322]%N)).
Eval vm_compute in ("<<<M541>>>" ++ check (runes_of_ascii "packet Pad {
roots
    int , @lengthOf(string_	) repeat char[] x, @calculatedFrom( ""CRC32""
) u16 A	@lengthOf(  string_ ) `line1
line2` , i32 zchar
// `tick` ""quote"" 'q'
// " ++ [27880; 37322]%N ++ runes_of_ascii "
`say ""hi""`,match roots as i64_ /// triple
{
[ 4294967296,  ""abc"", ""x y"",// packet A { u8 x, }
""a	b"" ,
""a	b""] : Z9_ [ //x
""// no comment"" , ""\n"" , 42 ,
1 , ""\" ++ [233]%N ++ runes_of_ascii """
,1 , 7
    , 3
]:  Header  ,[ //x
""" ++ [128512]%N ++ runes_of_ascii """ , ""\" ++ [233]%N ++ runes_of_ascii """ ,
""\" ++ [233]%N ++ runes_of_ascii """
,00
    ,
    """ ++ [233]%N ++ runes_of_ascii "t" ++ [233]%N ++ runes_of_ascii """
, 1
, 00 ,	3 ] :	A , }, char[ 10
] a1
    ,	}

")).
Eval vm_compute in ("<<<M573>>>" ++ check (runes_of_ascii "
MetaData u
{} packet Header
{ i64 Logon ``	, }
")).
Eval vm_compute in ("<<<T573>>>" ++ terms [mkTok 37 "MetaData" 2 0 false; mkTok 42 "u" 2 9 false; mkTok 2 "{" 3 0 false; mkTok 3 "}" 3 1 false; mkTok 35 "packet" 3 3 false; mkTok 42 "Header" 3 10 false; mkTok 2 "{" 4 0 false; mkTok 27 "i64" 4 2 false; mkTok 42 "Logon" 4 6 false; mkTok 43 "``" 4 12 false; mkTok 40 "," 4 15 false; mkTok 3 "}" 4 17 false; mkTok 0 "<EOF>" 5 0 false] (mkPacket (mkPtok 37 "MetaData" 2 0 0) (Some (mkPtok 3 "}" 4 17 11)) [(DMeta (mkMetaDef (mkSpan (mkPtok 37 "MetaData" 2 0 0) (mkPtok 3 "}" 3 1 3)) (mkPtok 37 "MetaData" 2 0 0) (mkPtok 42 "u" 2 9 1) (mkPtok 2 "{" 3 0 2) [] (mkPtok 3 "}" 3 1 3))); (DPacket (mkPacketDef (mkSpan (mkPtok 35 "packet" 3 3 4) (mkPtok 3 "}" 4 17 11)) None (mkPtok 35 "packet" 3 3 4) (mkPtok 42 "Header" 3 10 5) (mkPtok 2 "{" 4 0 6) [(mkFieldWithAttr (mkSpan (mkPtok 27 "i64" 4 2 7) (mkPtok 40 "," 4 15 10)) [] (MetaField (mkSpan (mkPtok 27 "i64" 4 2 7) (mkPtok 40 "," 4 15 10)) None (mkMetaDecl (mkSpan (mkPtok 27 "i64" 4 2 7) (mkPtok 40 "," 4 15 10)) (TyBasic (mkSpan (mkPtok 27 "i64" 4 2 7) (mkPtok 27 "i64" 4 2 7)) (mkBasicType (mkSpan (mkPtok 27 "i64" 4 2 7) (mkPtok 27 "i64" 4 2 7)) (mkPtok 27 "i64" 4 2 7))) (mkPtok 42 "Logon" 4 6 8) (Some (mkPtok 43 "``" 4 12 9)) (mkPtok 40 "," 4 15 10))))] (mkPtok 3 "}" 4 17 11)))])).
Eval vm_compute in ("<<<M605>>>" ++ check (runes_of_ascii "options {
}
MetaData	x_y_z{
    string_ packetx ,  metadata// packet A { u8 x, }
o ,	char[
3 ]charz
// a // b
//x
, zchar
charz,}
MetaData
    /// triple
    T{ zchar[
3 ] len ,u x_y_z	, u64 A ,
} packet
zchar  { @tag(
    4294967296 ) @calculatedFrom( """ ++ [233]%N ++ runes_of_ascii "t" ++ [233]%N ++ runes_of_ascii """ ) @calculatedFrom( ""abc""
) match tag as  tag
    {
    """"
    :
    stringy ,
""" ++ [28040; 24687]%N ++ runes_of_ascii """:
    // trailing space 
    f32a ,4294967296 :
    matchKey ,	0
: msg_type // " ++ [27880; 37322]%N ++ runes_of_ascii "
,7 :
    //	t
    Logon
, 7
//
// @lengthOf(
:
trueish
,}
    , roots@calculatedFrom( // @lengthOf(
""" ++ [233]%N ++ runes_of_ascii "t" ++ [233]%N ++ runes_of_ascii """), BodyLength `" ++ [233]%N ++ runes_of_ascii "` , repeat  int zchar //
`
` , @leftPad () body @calculatedFrom(
    // packet A { u8 x, }
    """ ++ [233]%N ++ runes_of_ascii "t" ++ [233]%N ++ runes_of_ascii """	),}
    packet // a // b
Packet { @lengthOf(
    uint8x
    )
    // @lengthOf(
    i64_
    { u128	{
    stringy , }
,  }, T MetaDataX
`u8 x,`
    , @calculatedFrom("""" ) @lengthOf( // @lengthOf(
x_y_z )
    @calculatedFrom( ""1"" ) uint32 charz@calculatedFrom(""`tick`""	) `" ++ [233]%N ++ runes_of_ascii "`
,
    // @lengthOf(
    string
    u8x	@calculatedFrom( ""\" ++ [233]%N ++ runes_of_ascii """ ) `line1
line2` //
,@leftPad (
    )
string tag @lengthOf(
f32a ) `" ++ [233]%N ++ runes_of_ascii "`,@rightPad ( ) @tag(7)  @lengthOf(
    rootA
)
    // " ++ [128512]%N ++ runes_of_ascii " emoji
    repeat T matchKey , @lengthOf( metadata) zchar[
    10 ] _x @lengthOf( a1 // a // b
) , @leftPad(
) f32a o `{ , }`
    ,
}
// packet A { u8 x, }
")).
Eval vm_compute in ("<<<M637>>>" ++ check (runes_of_ascii "
options
{asx =
    // " ++ [27880; 37322]%N ++ runes_of_ascii "
    string ;}options
// " ++ [27880; 37322]%N ++ runes_of_ascii "
// trailing space 
{ repeatCount = zchar[0
    ] ; leftPad
// packet A { u8 x, }
// @lengthOf(
=
    string
    ; uint8x
= '0'
    ; }
//x
//	t
root packet uint8x { trueish x_y_z , As
// a // b
//	t
, zchar[//
00 ] uint8x @lengthOf( a1 ) //
`say ""hi""`
    ,
    @leftPad
    (  )
zchar[ 4294967296 ]
    // @lengthOf(
    metadata
    `say ""hi""` ,float32 u128
`line1
line2`, char[ 10]
    // " ++ [27880; 37322]%N ++ runes_of_ascii "
    lengthOf@calculatedFrom( ""CRC32""
) `doc` ,a1@lengthOf( chars )
,
    char[ 10 ] calculatedFrom
, repeat
uint32 As
    ,	}")).
Eval vm_compute in ("<<<M669>>>" ++ check (runes_of_ascii "
root	packet i64_ { roots a1	, @calculatedFrom(""`tick`"" )
i64 //
float `it's` ,@calculatedFrom(
""\n"" ) @calculatedFrom( ""1"" ) @tag(
    10 )	f64
trueish
`" ++ [28040; 24687; 31867; 22411]%N ++ runes_of_ascii "`	, trueish @calculatedFrom( ""\n"" ) ,}")).
Eval vm_compute in ("<<<M701>>>" ++ check (runes_of_ascii "MetaData
    //
    body
    {u16 roots `say ""hi""` , char[ 65535]
o
,
    uint32 Z9_
, char trueish `crlf
line`
, }
packet crc // packet A { u8 x, }
{
    u128 ,
repeat char[]trueish ,	string	asx  @lengthOf( zchar) // c
`crlf
line` , int
{ int
    u//
,
}
,  @tag(10 )
    // @lengthOf(
    zchar[
//x
//x
65535 ] /// triple
zchar@calculatedFrom( """ ++ [28040; 24687]%N ++ runes_of_ascii """ ) `a\`
    ,@rightPad ('\x00' ) string crc@lengthOf(
    // trailing space 
    o )
    ,match
rootA as len
    {[ 10  , 3// " ++ [27880; 37322]%N ++ runes_of_ascii "
, ""\n"" , """ ++ [233]%N ++ runes_of_ascii "t" ++ [233]%N ++ runes_of_ascii """
,
    ""packet""  ] :
    // a // b
    leftPad , 65535:
pack } , zchar[ 65535 ]
    //x
    asx `u8 x,`
    // a // b
    , i16
// @lengthOf(
// " ++ [27880; 37322]%N ++ runes_of_ascii "
roots`u8 x,` ,
// " ++ [128512]%N ++ runes_of_ascii " emoji
//
@leftPad ( )	f64 Packet
    ,
    } packet tag
    { @rightPad //
( '0' )repeat char[00 ] crc	,
    } packet stringy	{ char[] roots`" ++ [233]%N ++ runes_of_ascii "` //	t
,
    }")).
Eval vm_compute in ("<<<M733>>>" ++ check (runes_of_ascii "packet leftPad { u64 Foo
,
// c
// a // b
}
")).
Eval vm_compute in ("<<<M765>>>" ++ check (runes_of_ascii "MetaData  u8x{ msg_type T
    `it's` ,
// `tick` ""quote"" 'q'
// trailing space 
zchar[
    4294967296
]	len/// triple
, u32 chars `a\` , metadata calculatedFrom
`{ , }`
,
    } packet Z9_ {	}  root packet
Logon {}
/// triple
")).
Eval vm_compute in ("<<<M797>>>" ++ check (runes_of_ascii "packet u8x {@tag( 0)
match Header as	packetx
// " ++ [128512]%N ++ runes_of_ascii " emoji
//x
{""\n"":	o , 0 :
    Foo ,4294967296: rootA
,
    255 /// triple
:i8i8 }
,// `tick` ""quote"" 'q'
repeat //	t
uint8 stringy , chars ,
uint64 options1 `say ""hi""`
,@lengthOf( float )
    string leftPad ,  x body // packet A { u8 x, }
`line1
line2`
, @calculatedFrom(  ""// no comment"" ) uint16// a // b
chars @calculatedFrom(
""`tick`"" ) , }packet
    Header {@calculatedFrom(
    ""\" ++ [233]%N ++ runes_of_ascii """
)
zchar[ 007 ] As @lengthOf(
    // @lengthOf(
    Header )
, Header
// a // b
//x
@lengthOf( leftPad ) `doc` ,
    repeat zchar	calculatedFrom ,	@lengthOf( float// `tick` ""quote"" 'q'
) zchar[ 0123456789
    ] trueish`` /// triple
,
    match x as
string_ {
[
255] : A ,
""abc"" : Packet , [//x
""`tick`""
    ,10
    ]
: Pad,
    }
,}  packet len {// " ++ [128512]%N ++ runes_of_ascii " emoji
i8i8 body , } MetaData x
    {float32 Header , uint8 A ,i8i8
o , }

")).
Eval vm_compute in ("<<<T797>>>" ++ terms [mkTok 35 "packet" 1 0 false; mkTok 42 "u8x" 1 7 false; mkTok 2 "{" 1 11 false; mkTok 9 "@tag(" 1 12 false; mkTok 30 "0" 1 18 false; mkTok 6 ")" 1 19 false; mkTok 38 "match" 2 0 false; mkTok 42 "Header" 2 6 false; mkTok 17 "as" 2 13 false; mkTok 42 "packetx" 2 16 false; mkTok 44 (string_of_bytes [47; 47; 32; 240; 159; 152; 128; 32; 101; 109; 111; 106; 105]%N) 3 0 true; mkTok 44 "//x" 4 0 true; mkTok 2 "{" 5 0 false; mkTok 31 """\n""" 5 1 false; mkTok 39 ":" 5 5 false; mkTok 42 "o" 5 7 false; mkTok 40 "," 5 9 false; mkTok 30 "0" 5 11 false; mkTok 39 ":" 5 13 false; mkTok 42 "Foo" 6 4 false; mkTok 40 "," 6 8 false; mkTok 30 "4294967296" 6 9 false; mkTok 39 ":" 6 19 false; mkTok 42 "rootA" 6 21 false; mkTok 40 "," 7 0 false; mkTok 30 "255" 8 4 false; mkTok 44 "/// triple" 8 8 true; mkTok 39 ":" 9 0 false; mkTok 42 "i8i8" 9 1 false; mkTok 3 "}" 9 6 false; mkTok 40 "," 10 0 false; mkTok 44 "// `tick` ""quote"" 'q'" 10 1 true; mkTok 36 "repeat" 11 0 false; mkTok 44 (string_of_bytes [47; 47; 9; 116]%N) 11 7 true; mkTok 20 "uint8" 12 0 false; mkTok 42 "stringy" 12 6 false; mkTok 40 "," 12 14 false; mkTok 42 "chars" 12 16 false; mkTok 40 "," 12 22 false; mkTok 23 "uint64" 13 0 false; mkTok 42 "options1" 13 7 false; mkTok 43 "`say ""hi""`" 13 16 false; mkTok 40 "," 14 0 false; mkTok 7 "@lengthOf(" 14 1 false; mkTok 42 "float" 14 12 false; mkTok 6 ")" 14 18 false; mkTok 15 "string" 15 4 false; mkTok 42 "leftPad" 15 11 false; mkTok 40 "," 15 19 false; mkTok 42 "x" 15 22 false; mkTok 42 "body" 15 24 false; mkTok 44 "// packet A { u8 x, }" 15 29 true; mkTok 43 (string_of_bytes [96; 108; 105; 110; 101; 49; 10; 108; 105; 110; 101; 50; 96]%N) 16 0 false; mkTok 40 "," 18 0 false; mkTok 5 "@calculatedFrom(" 18 2 false; mkTok 31 """// no comment""" 18 20 false; mkTok 6 ")" 18 36 false; mkTok 21 "uint16" 18 38 false; mkTok 44 "// a // b" 18 44 true; mkTok 42 "chars" 19 0 false; mkTok 5 "@calculatedFrom(" 19 6 false; mkTok 31 """`tick`""" 20 0 false; mkTok 6 ")" 20 9 false; mkTok 40 "," 20 11 false; mkTok 3 "}" 20 13 false; mkTok 35 "packet" 20 14 false; mkTok 42 "Header" 21 4 false; mkTok 2 "{" 21 11 false; mkTok 5 "@calculatedFrom(" 21 12 false; mkTok 31 (string_of_bytes [34; 92; 195; 169; 34]%N) 22 4 false; mkTok 6 ")" 23 0 false; mkTok 14 "zchar[" 24 0 false; mkTok 30 "007" 24 7 false; mkTok 13 "]" 24 11 false; mkTok 42 "As" 24 13 false; mkTok 7 "@lengthOf(" 24 16 false; mkTok 44 "// @lengthOf(" 25 4 true; mkTok 42 "Header" 26 4 false; mkTok 6 ")" 26 11 false; mkTok 40 "," 27 0 false; mkTok 42 "Header" 27 2 false; mkTok 44 "// a // b" 28 0 true; mkTok 44 "//x" 29 0 true; mkTok 7 "@lengthOf(" 30 0 false; mkTok 42 "leftPad" 30 11 false; mkTok 6 ")" 30 19 false; mkTok 43 "`doc`" 30 21 false; mkTok 40 "," 30 27 false; mkTok 36 "repeat" 31 4 false; mkTok 42 "zchar" 31 11 false; mkTok 42 "calculatedFrom" 31 17 false; mkTok 40 "," 31 32 false; mkTok 7 "@lengthOf(" 31 34 false; mkTok 42 "float" 31 45 false; mkTok 44 "// `tick` ""quote"" 'q'" 31 50 true; mkTok 6 ")" 32 0 false; mkTok 14 "zchar[" 32 2 false; mkTok 30 "0123456789" 32 9 false; mkTok 13 "]" 33 4 false; mkTok 42 "trueish" 33 6 false; mkTok 43 "``" 33 13 false; mkTok 44 "/// triple" 33 16 true; mkTok 40 "," 34 0 false; mkTok 38 "match" 35 4 false; mkTok 42 "x" 35 10 false; mkTok 17 "as" 35 12 false; mkTok 42 "string_" 36 0 false; mkTok 2 "{" 36 8 false; mkTok 18 "[" 37 0 false; mkTok 30 "255" 38 0 false; mkTok 13 "]" 38 3 false; mkTok 39 ":" 38 5 false; mkTok 42 "A" 38 7 false; mkTok 40 "," 38 9 false; mkTok 31 """abc""" 39 0 false; mkTok 39 ":" 39 6 false; mkTok 42 "Packet" 39 8 false; mkTok 40 "," 39 15 false; mkTok 18 "[" 39 17 false; mkTok 44 "//x" 39 18 true; mkTok 31 """`tick`""" 40 0 false; mkTok 40 "," 41 4 false; mkTok 30 "10" 41 5 false; mkTok 13 "]" 42 4 false; mkTok 39 ":" 43 0 false; mkTok 42 "Pad" 43 2 false; mkTok 40 "," 43 5 false; mkTok 3 "}" 44 4 false; mkTok 40 "," 45 0 false; mkTok 3 "}" 45 1 false; mkTok 35 "packet" 45 4 false; mkTok 42 "len" 45 11 false; mkTok 2 "{" 45 15 false; mkTok 44 (string_of_bytes [47; 47; 32; 240; 159; 152; 128; 32; 101; 109; 111; 106; 105]%N) 45 16 true; mkTok 42 "i8i8" 46 0 false; mkTok 42 "body" 46 5 false; mkTok 40 "," 46 10 false; mkTok 3 "}" 46 12 false; mkTok 37 "MetaData" 46 14 false; mkTok 42 "x" 46 23 false; mkTok 2 "{" 47 4 false; mkTok 28 "float32" 47 5 false; mkTok 42 "Header" 47 13 false; mkTok 40 "," 47 20 false; mkTok 20 "uint8" 47 22 false; mkTok 42 "A" 47 28 false; mkTok 40 "," 47 30 false; mkTok 42 "i8i8" 47 31 false; mkTok 42 "o" 48 0 false; mkTok 40 "," 48 2 false; mkTok 3 "}" 48 4 false; mkTok 0 "<EOF>" 50 0 false] (mkPacket (mkPtok 35 "packet" 1 0 0) (Some (mkPtok 3 "}" 48 4 150)) [(DPacket (mkPacketDef (mkSpan (mkPtok 35 "packet" 1 0 0) (mkPtok 3 "}" 20 13 64)) None (mkPtok 35 "packet" 1 0 0) (mkPtok 42 "u8x" 1 7 1) (mkPtok 2 "{" 1 11 2) [(mkFieldWithAttr (mkSpan (mkPtok 9 "@tag(" 1 12 3) (mkPtok 40 "," 10 0 30)) [(FATag (mkSpan (mkPtok 9 "@tag(" 1 12 3) (mkPtok 6 ")" 1 19 5)) (mkTagAttr (mkSpan (mkPtok 9 "@tag(" 1 12 3) (mkPtok 6 ")" 1 19 5)) (mkPtok 9 "@tag(" 1 12 3) (mkPtok 30 "0" 1 18 4) (mkPtok 6 ")" 1 19 5)))] (MatchField (mkSpan (mkPtok 38 "match" 2 0 6) (mkPtok 40 "," 10 0 30)) (mkMatchFieldDecl (mkSpan (mkPtok 38 "match" 2 0 6) (mkPtok 3 "}" 9 6 29)) (mkPtok 38 "match" 2 0 6) (mkPtok 42 "Header" 2 6 7) (mkPtok 17 "as" 2 13 8) (mkPtok 42 "packetx" 2 16 9) (mkPtok 2 "{" 5 0 12) [(mkMatchPair (mkSpan (mkPtok 31 """\n""" 5 1 13) (mkPtok 40 "," 5 9 16)) (MKString (mkPtok 31 """\n""" 5 1 13)) (mkPtok 39 ":" 5 5 14) (mkPtok 42 "o" 5 7 15) (Some (mkPtok 40 "," 5 9 16))); (mkMatchPair (mkSpan (mkPtok 30 "0" 5 11 17) (mkPtok 40 "," 6 8 20)) (MKDigits (mkPtok 30 "0" 5 11 17)) (mkPtok 39 ":" 5 13 18) (mkPtok 42 "Foo" 6 4 19) (Some (mkPtok 40 "," 6 8 20))); (mkMatchPair (mkSpan (mkPtok 30 "4294967296" 6 9 21) (mkPtok 40 "," 7 0 24)) (MKDigits (mkPtok 30 "4294967296" 6 9 21)) (mkPtok 39 ":" 6 19 22) (mkPtok 42 "rootA" 6 21 23) (Some (mkPtok 40 "," 7 0 24))); (mkMatchPair (mkSpan (mkPtok 30 "255" 8 4 25) (mkPtok 42 "i8i8" 9 1 28)) (MKDigits (mkPtok 30 "255" 8 4 25)) (mkPtok 39 ":" 9 0 27) (mkPtok 42 "i8i8" 9 1 28) None)] (mkPtok 3 "}" 9 6 29)) (mkPtok 40 "," 10 0 30))); (mkFieldWithAttr (mkSpan (mkPtok 36 "repeat" 11 0 32) (mkPtok 40 "," 12 14 36)) [] (MetaField (mkSpan (mkPtok 36 "repeat" 11 0 32) (mkPtok 40 "," 12 14 36)) (Some (mkPtok 36 "repeat" 11 0 32)) (mkMetaDecl (mkSpan (mkPtok 20 "uint8" 12 0 34) (mkPtok 40 "," 12 14 36)) (TyBasic (mkSpan (mkPtok 20 "uint8" 12 0 34) (mkPtok 20 "uint8" 12 0 34)) (mkBasicType (mkSpan (mkPtok 20 "uint8" 12 0 34) (mkPtok 20 "uint8" 12 0 34)) (mkPtok 20 "uint8" 12 0 34))) (mkPtok 42 "stringy" 12 6 35) None (mkPtok 40 "," 12 14 36)))); (mkFieldWithAttr (mkSpan (mkPtok 42 "chars" 12 16 37) (mkPtok 40 "," 12 22 38)) [] (ObjectField (mkSpan (mkPtok 42 "chars" 12 16 37) (mkPtok 40 "," 12 22 38)) None (mkPtok 42 "chars" 12 16 37) None None (mkPtok 40 "," 12 22 38))); (mkFieldWithAttr (mkSpan (mkPtok 23 "uint64" 13 0 39) (mkPtok 40 "," 14 0 42)) [] (MetaField (mkSpan (mkPtok 23 "uint64" 13 0 39) (mkPtok 40 "," 14 0 42)) None (mkMetaDecl (mkSpan (mkPtok 23 "uint64" 13 0 39) (mkPtok 40 "," 14 0 42)) (TyBasic (mkSpan (mkPtok 23 "uint64" 13 0 39) (mkPtok 23 "uint64" 13 0 39)) (mkBasicType (mkSpan (mkPtok 23 "uint64" 13 0 39) (mkPtok 23 "uint64" 13 0 39)) (mkPtok 23 "uint64" 13 0 39))) (mkPtok 42 "options1" 13 7 40) (Some (mkPtok 43 "`say ""hi""`" 13 16 41)) (mkPtok 40 "," 14 0 42)))); (mkFieldWithAttr (mkSpan (mkPtok 7 "@lengthOf(" 14 1 43) (mkPtok 40 "," 15 19 48)) [(FALengthOf (mkSpan (mkPtok 7 "@lengthOf(" 14 1 43) (mkPtok 6 ")" 14 18 45)) (mkLengthOf (mkSpan (mkPtok 7 "@lengthOf(" 14 1 43) (mkPtok 6 ")" 14 18 45)) (mkPtok 7 "@lengthOf(" 14 1 43) (mkPtok 42 "float" 14 12 44) (mkPtok 6 ")" 14 18 45)))] (MetaField (mkSpan (mkPtok 15 "string" 15 4 46) (mkPtok 40 "," 15 19 48)) None (mkMetaDecl (mkSpan (mkPtok 15 "string" 15 4 46) (mkPtok 40 "," 15 19 48)) (TyDynamic (mkSpan (mkPtok 15 "string" 15 4 46) (mkPtok 15 "string" 15 4 46)) (mkDynamicString (mkSpan (mkPtok 15 "string" 15 4 46) (mkPtok 15 "string" 15 4 46)) (mkPtok 15 "string" 15 4 46))) (mkPtok 42 "leftPad" 15 11 47) None (mkPtok 40 "," 15 19 48)))); (mkFieldWithAttr (mkSpan (mkPtok 42 "x" 15 22 49) (mkPtok 40 "," 18 0 53)) [] (ObjectField (mkSpan (mkPtok 42 "x" 15 22 49) (mkPtok 40 "," 18 0 53)) None (mkPtok 42 "x" 15 22 49) (Some (mkPtok 42 "body" 15 24 50)) (Some (mkPtok 43 (string_of_bytes [96; 108; 105; 110; 101; 49; 10; 108; 105; 110; 101; 50; 96]%N) 16 0 52)) (mkPtok 40 "," 18 0 53))); (mkFieldWithAttr (mkSpan (mkPtok 5 "@calculatedFrom(" 18 2 54) (mkPtok 40 "," 20 11 63)) [(FACalculatedFrom (mkSpan (mkPtok 5 "@calculatedFrom(" 18 2 54) (mkPtok 6 ")" 18 36 56)) (mkCalculatedFrom (mkSpan (mkPtok 5 "@calculatedFrom(" 18 2 54) (mkPtok 6 ")" 18 36 56)) (mkPtok 5 "@calculatedFrom(" 18 2 54) (mkPtok 31 """// no comment""" 18 20 55) (mkPtok 6 ")" 18 36 56)))] (CheckSumField (mkSpan (mkPtok 21 "uint16" 18 38 57) (mkPtok 40 "," 20 11 63)) (mkChecksumFieldDecl (mkSpan (mkPtok 21 "uint16" 18 38 57) (mkPtok 40 "," 20 11 63)) (Some (TyBasic (mkSpan (mkPtok 21 "uint16" 18 38 57) (mkPtok 21 "uint16" 18 38 57)) (mkBasicType (mkSpan (mkPtok 21 "uint16" 18 38 57) (mkPtok 21 "uint16" 18 38 57)) (mkPtok 21 "uint16" 18 38 57)))) (mkPtok 42 "chars" 19 0 59) (mkCalculatedFrom (mkSpan (mkPtok 5 "@calculatedFrom(" 19 6 60) (mkPtok 6 ")" 20 9 62)) (mkPtok 5 "@calculatedFrom(" 19 6 60) (mkPtok 31 """`tick`""" 20 0 61) (mkPtok 6 ")" 20 9 62)) None (mkPtok 40 "," 20 11 63))))] (mkPtok 3 "}" 20 13 64))); (DPacket (mkPacketDef (mkSpan (mkPtok 35 "packet" 20 14 65) (mkPtok 3 "}" 45 1 129)) None (mkPtok 35 "packet" 20 14 65) (mkPtok 42 "Header" 21 4 66) (mkPtok 2 "{" 21 11 67) [(mkFieldWithAttr (mkSpan (mkPtok 5 "@calculatedFrom(" 21 12 68) (mkPtok 40 "," 27 0 79)) [(FACalculatedFrom (mkSpan (mkPtok 5 "@calculatedFrom(" 21 12 68) (mkPtok 6 ")" 23 0 70)) (mkCalculatedFrom (mkSpan (mkPtok 5 "@calculatedFrom(" 21 12 68) (mkPtok 6 ")" 23 0 70)) (mkPtok 5 "@calculatedFrom(" 21 12 68) (mkPtok 31 (string_of_bytes [34; 92; 195; 169; 34]%N) 22 4 69) (mkPtok 6 ")" 23 0 70)))] (LengthField (mkSpan (mkPtok 14 "zchar[" 24 0 71) (mkPtok 40 "," 27 0 79)) (mkLengthFieldDecl (mkSpan (mkPtok 14 "zchar[" 24 0 71) (mkPtok 40 "," 27 0 79)) (Some (TyFixed (mkSpan (mkPtok 14 "zchar[" 24 0 71) (mkPtok 13 "]" 24 11 73)) (mkFixedString (mkSpan (mkPtok 14 "zchar[" 24 0 71) (mkPtok 13 "]" 24 11 73)) (mkPtok 14 "zchar[" 24 0 71) (mkPtok 30 "007" 24 7 72) (mkPtok 13 "]" 24 11 73)))) (mkPtok 42 "As" 24 13 74) (mkLengthOf (mkSpan (mkPtok 7 "@lengthOf(" 24 16 75) (mkPtok 6 ")" 26 11 78)) (mkPtok 7 "@lengthOf(" 24 16 75) (mkPtok 42 "Header" 26 4 77) (mkPtok 6 ")" 26 11 78)) None (mkPtok 40 "," 27 0 79)))); (mkFieldWithAttr (mkSpan (mkPtok 42 "Header" 27 2 80) (mkPtok 40 "," 30 27 87)) [] (LengthField (mkSpan (mkPtok 42 "Header" 27 2 80) (mkPtok 40 "," 30 27 87)) (mkLengthFieldDecl (mkSpan (mkPtok 42 "Header" 27 2 80) (mkPtok 40 "," 30 27 87)) None (mkPtok 42 "Header" 27 2 80) (mkLengthOf (mkSpan (mkPtok 7 "@lengthOf(" 30 0 83) (mkPtok 6 ")" 30 19 85)) (mkPtok 7 "@lengthOf(" 30 0 83) (mkPtok 42 "leftPad" 30 11 84) (mkPtok 6 ")" 30 19 85)) (Some (mkPtok 43 "`doc`" 30 21 86)) (mkPtok 40 "," 30 27 87)))); (mkFieldWithAttr (mkSpan (mkPtok 36 "repeat" 31 4 88) (mkPtok 40 "," 31 32 91)) [] (ObjectField (mkSpan (mkPtok 36 "repeat" 31 4 88) (mkPtok 40 "," 31 32 91)) (Some (mkPtok 36 "repeat" 31 4 88)) (mkPtok 42 "zchar" 31 11 89) (Some (mkPtok 42 "calculatedFrom" 31 17 90)) None (mkPtok 40 "," 31 32 91))); (mkFieldWithAttr (mkSpan (mkPtok 7 "@lengthOf(" 31 34 92) (mkPtok 40 "," 34 0 102)) [(FALengthOf (mkSpan (mkPtok 7 "@lengthOf(" 31 34 92) (mkPtok 6 ")" 32 0 95)) (mkLengthOf (mkSpan (mkPtok 7 "@lengthOf(" 31 34 92) (mkPtok 6 ")" 32 0 95)) (mkPtok 7 "@lengthOf(" 31 34 92) (mkPtok 42 "float" 31 45 93) (mkPtok 6 ")" 32 0 95)))] (MetaField (mkSpan (mkPtok 14 "zchar[" 32 2 96) (mkPtok 40 "," 34 0 102)) None (mkMetaDecl (mkSpan (mkPtok 14 "zchar[" 32 2 96) (mkPtok 40 "," 34 0 102)) (TyFixed (mkSpan (mkPtok 14 "zchar[" 32 2 96) (mkPtok 13 "]" 33 4 98)) (mkFixedString (mkSpan (mkPtok 14 "zchar[" 32 2 96) (mkPtok 13 "]" 33 4 98)) (mkPtok 14 "zchar[" 32 2 96) (mkPtok 30 "0123456789" 32 9 97) (mkPtok 13 "]" 33 4 98))) (mkPtok 42 "trueish" 33 6 99) (Some (mkPtok 43 "``" 33 13 100)) (mkPtok 40 "," 34 0 102)))); (mkFieldWithAttr (mkSpan (mkPtok 38 "match" 35 4 103) (mkPtok 40 "," 45 0 128)) [] (MatchField (mkSpan (mkPtok 38 "match" 35 4 103) (mkPtok 40 "," 45 0 128)) (mkMatchFieldDecl (mkSpan (mkPtok 38 "match" 35 4 103) (mkPtok 3 "}" 44 4 127)) (mkPtok 38 "match" 35 4 103) (mkPtok 42 "x" 35 10 104) (mkPtok 17 "as" 35 12 105) (mkPtok 42 "string_" 36 0 106) (mkPtok 2 "{" 36 8 107) [(mkMatchPair (mkSpan (mkPtok 18 "[" 37 0 108) (mkPtok 40 "," 38 9 113)) (MKList (mkKeyList (mkSpan (mkPtok 18 "[" 37 0 108) (mkPtok 13 "]" 38 3 110)) (mkPtok 18 "[" 37 0 108) (mkPtok 30 "255" 38 0 109) [] (mkPtok 13 "]" 38 3 110))) (mkPtok 39 ":" 38 5 111) (mkPtok 42 "A" 38 7 112) (Some (mkPtok 40 "," 38 9 113))); (mkMatchPair (mkSpan (mkPtok 31 """abc""" 39 0 114) (mkPtok 40 "," 39 15 117)) (MKString (mkPtok 31 """abc""" 39 0 114)) (mkPtok 39 ":" 39 6 115) (mkPtok 42 "Packet" 39 8 116) (Some (mkPtok 40 "," 39 15 117))); (mkMatchPair (mkSpan (mkPtok 18 "[" 39 17 118) (mkPtok 40 "," 43 5 126)) (MKList (mkKeyList (mkSpan (mkPtok 18 "[" 39 17 118) (mkPtok 13 "]" 42 4 123)) (mkPtok 18 "[" 39 17 118) (mkPtok 31 """`tick`""" 40 0 120) [((mkPtok 40 "," 41 4 121), (mkPtok 30 "10" 41 5 122))] (mkPtok 13 "]" 42 4 123))) (mkPtok 39 ":" 43 0 124) (mkPtok 42 "Pad" 43 2 125) (Some (mkPtok 40 "," 43 5 126)))] (mkPtok 3 "}" 44 4 127)) (mkPtok 40 "," 45 0 128)))] (mkPtok 3 "}" 45 1 129))); (DPacket (mkPacketDef (mkSpan (mkPtok 35 "packet" 45 4 130) (mkPtok 3 "}" 46 12 137)) None (mkPtok 35 "packet" 45 4 130) (mkPtok 42 "len" 45 11 131) (mkPtok 2 "{" 45 15 132) [(mkFieldWithAttr (mkSpan (mkPtok 42 "i8i8" 46 0 134) (mkPtok 40 "," 46 10 136)) [] (ObjectField (mkSpan (mkPtok 42 "i8i8" 46 0 134) (mkPtok 40 "," 46 10 136)) None (mkPtok 42 "i8i8" 46 0 134) (Some (mkPtok 42 "body" 46 5 135)) None (mkPtok 40 "," 46 10 136)))] (mkPtok 3 "}" 46 12 137))); (DMeta (mkMetaDef (mkSpan (mkPtok 37 "MetaData" 46 14 138) (mkPtok 3 "}" 48 4 150)) (mkPtok 37 "MetaData" 46 14 138) (mkPtok 42 "x" 46 23 139) (mkPtok 2 "{" 47 4 140) [(MIDecl (mkMetaDecl (mkSpan (mkPtok 28 "float32" 47 5 141) (mkPtok 40 "," 47 20 143)) (TyBasic (mkSpan (mkPtok 28 "float32" 47 5 141) (mkPtok 28 "float32" 47 5 141)) (mkBasicType (mkSpan (mkPtok 28 "float32" 47 5 141) (mkPtok 28 "float32" 47 5 141)) (mkPtok 28 "float32" 47 5 141))) (mkPtok 42 "Header" 47 13 142) None (mkPtok 40 "," 47 20 143))); (MIDecl (mkMetaDecl (mkSpan (mkPtok 20 "uint8" 47 22 144) (mkPtok 40 "," 47 30 146)) (TyBasic (mkSpan (mkPtok 20 "uint8" 47 22 144) (mkPtok 20 "uint8" 47 22 144)) (mkBasicType (mkSpan (mkPtok 20 "uint8" 47 22 144) (mkPtok 20 "uint8" 47 22 144)) (mkPtok 20 "uint8" 47 22 144))) (mkPtok 42 "A" 47 28 145) None (mkPtok 40 "," 47 30 146))); (MIRef (mkRefMetaDecl (mkSpan (mkPtok 42 "i8i8" 47 31 147) (mkPtok 40 "," 48 2 149)) (mkPtok 42 "i8i8" 47 31 147) (mkPtok 42 "o" 48 0 148) None (mkPtok 40 "," 48 2 149)))] (mkPtok 3 "}" 48 4 150)))])).
Eval vm_compute in ("<<<M829>>>" ++ check (runes_of_ascii "root packet i8i8
// `tick` ""quote"" 'q'
// packet A { u8 x, }
{ string calculatedFrom @calculatedFrom( ""a	b"" //x
)
    , @calculatedFrom(
""abc"") // " ++ [27880; 37322]%N ++ runes_of_ascii "
int32 float// " ++ [128512]%N ++ runes_of_ascii " emoji
,
//x
// a // b
@calculatedFrom( ""a\""b"")
repeat u64 BodyLength
,
    }
")).
Eval vm_compute in ("<<<M861>>>" ++ check (runes_of_ascii "MetaData string_{ Header
    u128`tab	here` ,i64 Z9_
// " ++ [27880; 37322]%N ++ runes_of_ascii "
/// triple
, x matchKey
,string
u, f64
    Foo, }

")).
Eval vm_compute in ("<<<M893>>>" ++ check (runes_of_ascii "
MetaData crc  {
} packet options1
{ u32 int@lengthOf(
int), @leftPad
    /// triple
    ( '\x00' )  repeat string uint8x
,
@lengthOf(
    T )
zchar trueish , @leftPad( )
int32 // a // b
i8i8 @lengthOf( u8x
    // " ++ [27880; 37322]%N ++ runes_of_ascii "
    ),
// c
// " ++ [27880; 37322]%N ++ runes_of_ascii "
repeatCount@calculatedFrom( ""x y"" )
    ,
    Logon	falsey ,}options {
int
= ""\n"" //	t
len=true ; _x= char
As =	int16
    ; }packet Z9_ { repeat rootA
    , @lengthOf( a1 )  string_
trueish
    `" ++ [233]%N ++ runes_of_ascii "` ,
int8	Foo , @tag(
007) repeat falsey`// not a comment` /// triple
, @tag(  0
)f64 x @calculatedFrom( ""a\\""
    // c
    ) `// not a comment` , // `tick` ""quote"" 'q'
uint64
Header
,
u8 charz	@calculatedFrom( """ ++ [128512]%N ++ runes_of_ascii """) `" ++ [28040; 24687; 31867; 22411]%N ++ runes_of_ascii "` , i32 As @lengthOf(
a1) `{ , }` , @calculatedFrom(
    ""a	b"")
uint16 x ,
}
")).
Eval vm_compute in ("<<<M925>>>" ++ check (runes_of_ascii "
")).
Eval vm_compute in ("<<<M957>>>" ++ check (runes_of_ascii "packet string_ {
zchar[ 65535 ]
    stringy `
`
,
    // `tick` ""quote"" 'q'
    @lengthOf( As) string
Packet
    ,
} packet	Foo {@tag( 255)
lengthOf@calculatedFrom(
    ""{,}""
) ,
    }root packet MetaDataX {
@leftPad( '0'  )
    stringy`{ , }` , }
")).
Eval vm_compute in ("<<<M989>>>" ++ check (runes_of_ascii "
packet _x  {repeat int8
    trueish
,// packet A { u8 x, }
}

")).
Eval vm_compute in ("<<<M1021>>>" ++ check (runes_of_ascii "root
packet // " ++ [128512]%N ++ runes_of_ascii " emoji
msg_type
    {
zchar[ 1  ] float
    @lengthOf( A )
    // packet A { u8 x, }
    , u8x {// @lengthOf(
repeat trueish {match
    crc as Logon {
    [ 1, 7 ]
: // @lengthOf(
A
,} , } ,  } ,@tag(255
    // c
    ) match A as options1 { 7:body ,
    [	""x y"", 3 /// triple
, 0 ,7  , 0123456789] : tag ,
    ""x y"" : crc
    }	,	match stringy// packet A { u8 x, }
as Z9_ { ""it's""
// a // b
// " ++ [128512]%N ++ runes_of_ascii " emoji
: x_y_z
    //
    ,	1
:pack }
, //	t
}
MetaData repeatCount
    {
}
")).
Eval vm_compute in ("<<<T1021>>>" ++ terms [mkTok 34 "root" 1 0 false; mkTok 35 "packet" 2 0 false; mkTok 44 (string_of_bytes [47; 47; 32; 240; 159; 152; 128; 32; 101; 109; 111; 106; 105]%N) 2 7 true; mkTok 42 "msg_type" 3 0 false; mkTok 2 "{" 4 4 false; mkTok 14 "zchar[" 5 0 false; mkTok 30 "1" 5 7 false; mkTok 13 "]" 5 10 false; mkTok 42 "float" 5 12 false; mkTok 7 "@lengthOf(" 6 4 false; mkTok 42 "A" 6 15 false; mkTok 6 ")" 6 17 false; mkTok 44 "// packet A { u8 x, }" 7 4 true; mkTok 40 "," 8 4 false; mkTok 42 "u8x" 8 6 false; mkTok 2 "{" 8 10 false; mkTok 44 "// @lengthOf(" 8 11 true; mkTok 36 "repeat" 9 0 false; mkTok 42 "trueish" 9 7 false; mkTok 2 "{" 9 15 false; mkTok 38 "match" 9 16 false; mkTok 42 "crc" 10 4 false; mkTok 17 "as" 10 8 false; mkTok 42 "Logon" 10 11 false; mkTok 2 "{" 10 17 false; mkTok 18 "[" 11 4 false; mkTok 30 "1" 11 6 false; mkTok 40 "," 11 7 false; mkTok 30 "7" 11 9 false; mkTok 13 "]" 11 11 false; mkTok 39 ":" 12 0 false; mkTok 44 "// @lengthOf(" 12 2 true; mkTok 42 "A" 13 0 false; mkTok 40 "," 14 0 false; mkTok 3 "}" 14 1 false; mkTok 40 "," 14 3 false; mkTok 3 "}" 14 5 false; mkTok 40 "," 14 7 false; mkTok 3 "}" 14 10 false; mkTok 40 "," 14 12 false; mkTok 9 "@tag(" 14 13 false; mkTok 30 "255" 14 18 false; mkTok 44 "// c" 15 4 true; mkTok 6 ")" 16 4 false; mkTok 38 "match" 16 6 false; mkTok 42 "A" 16 12 false; mkTok 17 "as" 16 14 false; mkTok 42 "options1" 16 17 false; mkTok 2 "{" 16 26 false; mkTok 30 "7" 16 28 false; mkTok 39 ":" 16 29 false; mkTok 42 "body" 16 30 false; mkTok 40 "," 16 35 false; mkTok 18 "[" 17 4 false; mkTok 31 """x y""" 17 6 false; mkTok 40 "," 17 11 false; mkTok 30 "3" 17 13 false; mkTok 44 "/// triple" 17 15 true; mkTok 40 "," 18 0 false; mkTok 30 "0" 18 2 false; mkTok 40 "," 18 4 false; mkTok 30 "7" 18 5 false; mkTok 40 "," 18 8 false; mkTok 30 "0123456789" 18 10 false; mkTok 13 "]" 18 20 false; mkTok 39 ":" 18 22 false; mkTok 42 "tag" 18 24 false; mkTok 40 "," 18 28 false; mkTok 31 """x y""" 19 4 false; mkTok 39 ":" 19 10 false; mkTok 42 "crc" 19 12 false; mkTok 3 "}" 20 4 false; mkTok 40 "," 20 6 false; mkTok 38 "match" 20 8 false; mkTok 42 "stringy" 20 14 false; mkTok 44 "// packet A { u8 x, }" 20 21 true; mkTok 17 "as" 21 0 false; mkTok 42 "Z9_" 21 3 false; mkTok 2 "{" 21 7 false; mkTok 31 """it's""" 21 9 false; mkTok 44 "// a // b" 22 0 true; mkTok 44 (string_of_bytes [47; 47; 32; 240; 159; 152; 128; 32; 101; 109; 111; 106; 105]%N) 23 0 true; mkTok 39 ":" 24 0 false; mkTok 42 "x_y_z" 24 2 false; mkTok 44 "//" 25 4 true; mkTok 40 "," 26 4 false; mkTok 30 "1" 26 6 false; mkTok 39 ":" 27 0 false; mkTok 42 "pack" 27 1 false; mkTok 3 "}" 27 6 false; mkTok 40 "," 28 0 false; mkTok 44 (string_of_bytes [47; 47; 9; 116]%N) 28 2 true; mkTok 3 "}" 29 0 false; mkTok 37 "MetaData" 30 0 false; mkTok 42 "repeatCount" 30 9 false; mkTok 2 "{" 31 4 false; mkTok 3 "}" 32 0 false; mkTok 0 "<EOF>" 33 0 false] (mkPacket (mkPtok 34 "root" 1 0 0) (Some (mkPtok 3 "}" 32 0 96)) [(DPacket (mkPacketDef (mkSpan (mkPtok 34 "root" 1 0 0) (mkPtok 3 "}" 29 0 92)) (Some (mkPtok 34 "root" 1 0 0)) (mkPtok 35 "packet" 2 0 1) (mkPtok 42 "msg_type" 3 0 3) (mkPtok 2 "{" 4 4 4) [(mkFieldWithAttr (mkSpan (mkPtok 14 "zchar[" 5 0 5) (mkPtok 40 "," 8 4 13)) [] (LengthField (mkSpan (mkPtok 14 "zchar[" 5 0 5) (mkPtok 40 "," 8 4 13)) (mkLengthFieldDecl (mkSpan (mkPtok 14 "zchar[" 5 0 5) (mkPtok 40 "," 8 4 13)) (Some (TyFixed (mkSpan (mkPtok 14 "zchar[" 5 0 5) (mkPtok 13 "]" 5 10 7)) (mkFixedString (mkSpan (mkPtok 14 "zchar[" 5 0 5) (mkPtok 13 "]" 5 10 7)) (mkPtok 14 "zchar[" 5 0 5) (mkPtok 30 "1" 5 7 6) (mkPtok 13 "]" 5 10 7)))) (mkPtok 42 "float" 5 12 8) (mkLengthOf (mkSpan (mkPtok 7 "@lengthOf(" 6 4 9) (mkPtok 6 ")" 6 17 11)) (mkPtok 7 "@lengthOf(" 6 4 9) (mkPtok 42 "A" 6 15 10) (mkPtok 6 ")" 6 17 11)) None (mkPtok 40 "," 8 4 13)))); (mkFieldWithAttr (mkSpan (mkPtok 42 "u8x" 8 6 14) (mkPtok 40 "," 14 12 39)) [] (InerObjectField (mkSpan (mkPtok 42 "u8x" 8 6 14) (mkPtok 40 "," 14 12 39)) None (InerObjectDecl (mkSpan (mkPtok 42 "u8x" 8 6 14) (mkPtok 3 "}" 14 10 38)) (mkPtok 42 "u8x" 8 6 14) (mkPtok 2 "{" 8 10 15) [(InerObjectField (mkSpan (mkPtok 36 "repeat" 9 0 17) (mkPtok 40 "," 14 7 37)) (Some (mkPtok 36 "repeat" 9 0 17)) (InerObjectDecl (mkSpan (mkPtok 42 "trueish" 9 7 18) (mkPtok 3 "}" 14 5 36)) (mkPtok 42 "trueish" 9 7 18) (mkPtok 2 "{" 9 15 19) [(MatchField (mkSpan (mkPtok 38 "match" 9 16 20) (mkPtok 40 "," 14 3 35)) (mkMatchFieldDecl (mkSpan (mkPtok 38 "match" 9 16 20) (mkPtok 3 "}" 14 1 34)) (mkPtok 38 "match" 9 16 20) (mkPtok 42 "crc" 10 4 21) (mkPtok 17 "as" 10 8 22) (mkPtok 42 "Logon" 10 11 23) (mkPtok 2 "{" 10 17 24) [(mkMatchPair (mkSpan (mkPtok 18 "[" 11 4 25) (mkPtok 40 "," 14 0 33)) (MKList (mkKeyList (mkSpan (mkPtok 18 "[" 11 4 25) (mkPtok 13 "]" 11 11 29)) (mkPtok 18 "[" 11 4 25) (mkPtok 30 "1" 11 6 26) [((mkPtok 40 "," 11 7 27), (mkPtok 30 "7" 11 9 28))] (mkPtok 13 "]" 11 11 29))) (mkPtok 39 ":" 12 0 30) (mkPtok 42 "A" 13 0 32) (Some (mkPtok 40 "," 14 0 33)))] (mkPtok 3 "}" 14 1 34)) (mkPtok 40 "," 14 3 35))] (mkPtok 3 "}" 14 5 36)) (mkPtok 40 "," 14 7 37))] (mkPtok 3 "}" 14 10 38)) (mkPtok 40 "," 14 12 39))); (mkFieldWithAttr (mkSpan (mkPtok 9 "@tag(" 14 13 40) (mkPtok 40 "," 20 6 72)) [(FATag (mkSpan (mkPtok 9 "@tag(" 14 13 40) (mkPtok 6 ")" 16 4 43)) (mkTagAttr (mkSpan (mkPtok 9 "@tag(" 14 13 40) (mkPtok 6 ")" 16 4 43)) (mkPtok 9 "@tag(" 14 13 40) (mkPtok 30 "255" 14 18 41) (mkPtok 6 ")" 16 4 43)))] (MatchField (mkSpan (mkPtok 38 "match" 16 6 44) (mkPtok 40 "," 20 6 72)) (mkMatchFieldDecl (mkSpan (mkPtok 38 "match" 16 6 44) (mkPtok 3 "}" 20 4 71)) (mkPtok 38 "match" 16 6 44) (mkPtok 42 "A" 16 12 45) (mkPtok 17 "as" 16 14 46) (mkPtok 42 "options1" 16 17 47) (mkPtok 2 "{" 16 26 48) [(mkMatchPair (mkSpan (mkPtok 30 "7" 16 28 49) (mkPtok 40 "," 16 35 52)) (MKDigits (mkPtok 30 "7" 16 28 49)) (mkPtok 39 ":" 16 29 50) (mkPtok 42 "body" 16 30 51) (Some (mkPtok 40 "," 16 35 52))); (mkMatchPair (mkSpan (mkPtok 18 "[" 17 4 53) (mkPtok 40 "," 18 28 67)) (MKList (mkKeyList (mkSpan (mkPtok 18 "[" 17 4 53) (mkPtok 13 "]" 18 20 64)) (mkPtok 18 "[" 17 4 53) (mkPtok 31 """x y""" 17 6 54) [((mkPtok 40 "," 17 11 55), (mkPtok 30 "3" 17 13 56)); ((mkPtok 40 "," 18 0 58), (mkPtok 30 "0" 18 2 59)); ((mkPtok 40 "," 18 4 60), (mkPtok 30 "7" 18 5 61)); ((mkPtok 40 "," 18 8 62), (mkPtok 30 "0123456789" 18 10 63))] (mkPtok 13 "]" 18 20 64))) (mkPtok 39 ":" 18 22 65) (mkPtok 42 "tag" 18 24 66) (Some (mkPtok 40 "," 18 28 67))); (mkMatchPair (mkSpan (mkPtok 31 """x y""" 19 4 68) (mkPtok 42 "crc" 19 12 70)) (MKString (mkPtok 31 """x y""" 19 4 68)) (mkPtok 39 ":" 19 10 69) (mkPtok 42 "crc" 19 12 70) None)] (mkPtok 3 "}" 20 4 71)) (mkPtok 40 "," 20 6 72))); (mkFieldWithAttr (mkSpan (mkPtok 38 "match" 20 8 73) (mkPtok 40 "," 28 0 90)) [] (MatchField (mkSpan (mkPtok 38 "match" 20 8 73) (mkPtok 40 "," 28 0 90)) (mkMatchFieldDecl (mkSpan (mkPtok 38 "match" 20 8 73) (mkPtok 3 "}" 27 6 89)) (mkPtok 38 "match" 20 8 73) (mkPtok 42 "stringy" 20 14 74) (mkPtok 17 "as" 21 0 76) (mkPtok 42 "Z9_" 21 3 77) (mkPtok 2 "{" 21 7 78) [(mkMatchPair (mkSpan (mkPtok 31 """it's""" 21 9 79) (mkPtok 40 "," 26 4 85)) (MKString (mkPtok 31 """it's""" 21 9 79)) (mkPtok 39 ":" 24 0 82) (mkPtok 42 "x_y_z" 24 2 83) (Some (mkPtok 40 "," 26 4 85))); (mkMatchPair (mkSpan (mkPtok 30 "1" 26 6 86) (mkPtok 42 "pack" 27 1 88)) (MKDigits (mkPtok 30 "1" 26 6 86)) (mkPtok 39 ":" 27 0 87) (mkPtok 42 "pack" 27 1 88) None)] (mkPtok 3 "}" 27 6 89)) (mkPtok 40 "," 28 0 90)))] (mkPtok 3 "}" 29 0 92))); (DMeta (mkMetaDef (mkSpan (mkPtok 37 "MetaData" 30 0 93) (mkPtok 3 "}" 32 0 96)) (mkPtok 37 "MetaData" 30 0 93) (mkPtok 42 "repeatCount" 30 9 94) (mkPtok 2 "{" 31 4 95) [] (mkPtok 3 "}" 32 0 96)))])).
Eval vm_compute in ("<<<M1053>>>" ++ check (runes_of_ascii "

")).
Eval vm_compute in ("<<<M1085>>>" ++ check (runes_of_ascii "options {
    calculatedFrom //x
=float64; x_y_z = 00 } packet roots { @lengthOf( trueish)  zchar[
// trailing space 
// c
42  ] charz , } MetaData Header {  }")).
Eval vm_compute in ("<<<M1117>>>" ++ check (runes_of_ascii "MetaData charz {calculatedFrom leftPad
    ,}
")).
Eval vm_compute in ("<<<M1149>>>" ++ check (runes_of_ascii "MetaData u
    // packet A { u8 x, }
    { packetx A
    , /// triple
zchar[ 10 ] Packet
    `" ++ [28040; 24687; 31867; 22411]%N ++ runes_of_ascii "`,
char[ 10 ]x
    ,
}
")).
Eval vm_compute in ("<<<M1181>>>" ++ check (runes_of_ascii "// @lengthOf(
MetaData Logon	{	char[]
//	t
// " ++ [27880; 37322]%N ++ runes_of_ascii "
Foo // c
, T
roots , char[65535 ] Z9_ ,
}
")).
Eval vm_compute in ("<<<M1213>>>" ++ check (runes_of_ascii "

")).
Eval vm_compute in ("<<<M1245>>>" ++ check (runes_of_ascii "packet asx {@tag(// trailing space 
00 )
options1, string repeatCount @calculatedFrom( ""// no comment"" ) `// not a comment`,	@leftPad
(
    '0')
@tag(
    42) packetx @lengthOf(msg_type
// " ++ [128512]%N ++ runes_of_ascii " emoji
/// triple
) `{ , }` // packet A { u8 x, }
,  }  packet
roots { @tag(	1 ) // `tick` ""quote"" 'q'
@tag( 1 ) @lengthOf( // @lengthOf(
BodyLength ) char[ 0123456789
]MetaDataX , /// triple
} MetaData	string_ { }
")).
Eval vm_compute in ("<<<T1245>>>" ++ terms [mkTok 35 "packet" 1 0 false; mkTok 42 "asx" 1 7 false; mkTok 2 "{" 1 11 false; mkTok 9 "@tag(" 1 12 false; mkTok 44 "// trailing space " 1 17 true; mkTok 30 "00" 2 0 false; mkTok 6 ")" 2 3 false; mkTok 42 "options1" 3 0 false; mkTok 40 "," 3 8 false; mkTok 15 "string" 3 10 false; mkTok 42 "repeatCount" 3 17 false; mkTok 5 "@calculatedFrom(" 3 29 false; mkTok 31 """// no comment""" 3 46 false; mkTok 6 ")" 3 62 false; mkTok 43 "`// not a comment`" 3 64 false; mkTok 40 "," 3 82 false; mkTok 32 "@leftPad" 3 84 false; mkTok 8 "(" 4 0 false; mkTok 33 "'0'" 5 4 false; mkTok 6 ")" 5 7 false; mkTok 9 "@tag(" 6 0 false; mkTok 30 "42" 7 4 false; mkTok 6 ")" 7 6 false; mkTok 42 "packetx" 7 8 false; mkTok 7 "@lengthOf(" 7 16 false; mkTok 42 "msg_type" 7 26 false; mkTok 44 (string_of_bytes [47; 47; 32; 240; 159; 152; 128; 32; 101; 109; 111; 106; 105]%N) 8 0 true; mkTok 44 "/// triple" 9 0 true; mkTok 6 ")" 10 0 false; mkTok 43 "`{ , }`" 10 2 false; mkTok 44 "// packet A { u8 x, }" 10 10 true; mkTok 40 "," 11 0 false; mkTok 3 "}" 11 3 false; mkTok 35 "packet" 11 6 false; mkTok 42 "roots" 12 0 false; mkTok 2 "{" 12 6 false; mkTok 9 "@tag(" 12 8 false; mkTok 30 "1" 12 14 false; mkTok 6 ")" 12 16 false; mkTok 44 "// `tick` ""quote"" 'q'" 12 18 true; mkTok 9 "@tag(" 13 0 false; mkTok 30 "1" 13 6 false; mkTok 6 ")" 13 8 false; mkTok 7 "@lengthOf(" 13 10 false; mkTok 44 "// @lengthOf(" 13 21 true; mkTok 42 "BodyLength" 14 0 false; mkTok 6 ")" 14 11 false; mkTok 12 "char[" 14 13 false; mkTok 30 "0123456789" 14 19 false; mkTok 13 "]" 15 0 false; mkTok 42 "MetaDataX" 15 1 false; mkTok 40 "," 15 11 false; mkTok 44 "/// triple" 15 13 true; mkTok 3 "}" 16 0 false; mkTok 37 "MetaData" 16 2 false; mkTok 42 "string_" 16 11 false; mkTok 2 "{" 16 19 false; mkTok 3 "}" 16 21 false; mkTok 0 "<EOF>" 17 0 false] (mkPacket (mkPtok 35 "packet" 1 0 0) (Some (mkPtok 3 "}" 16 21 57)) [(DPacket (mkPacketDef (mkSpan (mkPtok 35 "packet" 1 0 0) (mkPtok 3 "}" 11 3 32)) None (mkPtok 35 "packet" 1 0 0) (mkPtok 42 "asx" 1 7 1) (mkPtok 2 "{" 1 11 2) [(mkFieldWithAttr (mkSpan (mkPtok 9 "@tag(" 1 12 3) (mkPtok 40 "," 3 8 8)) [(FATag (mkSpan (mkPtok 9 "@tag(" 1 12 3) (mkPtok 6 ")" 2 3 6)) (mkTagAttr (mkSpan (mkPtok 9 "@tag(" 1 12 3) (mkPtok 6 ")" 2 3 6)) (mkPtok 9 "@tag(" 1 12 3) (mkPtok 30 "00" 2 0 5) (mkPtok 6 ")" 2 3 6)))] (ObjectField (mkSpan (mkPtok 42 "options1" 3 0 7) (mkPtok 40 "," 3 8 8)) None (mkPtok 42 "options1" 3 0 7) None None (mkPtok 40 "," 3 8 8))); (mkFieldWithAttr (mkSpan (mkPtok 15 "string" 3 10 9) (mkPtok 40 "," 3 82 15)) [] (CheckSumField (mkSpan (mkPtok 15 "string" 3 10 9) (mkPtok 40 "," 3 82 15)) (mkChecksumFieldDecl (mkSpan (mkPtok 15 "string" 3 10 9) (mkPtok 40 "," 3 82 15)) (Some (TyDynamic (mkSpan (mkPtok 15 "string" 3 10 9) (mkPtok 15 "string" 3 10 9)) (mkDynamicString (mkSpan (mkPtok 15 "string" 3 10 9) (mkPtok 15 "string" 3 10 9)) (mkPtok 15 "string" 3 10 9)))) (mkPtok 42 "repeatCount" 3 17 10) (mkCalculatedFrom (mkSpan (mkPtok 5 "@calculatedFrom(" 3 29 11) (mkPtok 6 ")" 3 62 13)) (mkPtok 5 "@calculatedFrom(" 3 29 11) (mkPtok 31 """// no comment""" 3 46 12) (mkPtok 6 ")" 3 62 13)) (Some (mkPtok 43 "`// not a comment`" 3 64 14)) (mkPtok 40 "," 3 82 15)))); (mkFieldWithAttr (mkSpan (mkPtok 32 "@leftPad" 3 84 16) (mkPtok 40 "," 11 0 31)) [(FAPadding (mkSpan (mkPtok 32 "@leftPad" 3 84 16) (mkPtok 6 ")" 5 7 19)) (mkPaddingAttr (mkSpan (mkPtok 32 "@leftPad" 3 84 16) (mkPtok 6 ")" 5 7 19)) (mkPtok 32 "@leftPad" 3 84 16) (mkPtok 8 "(" 4 0 17) (Some (mkPtok 33 "'0'" 5 4 18)) (mkPtok 6 ")" 5 7 19))); (FATag (mkSpan (mkPtok 9 "@tag(" 6 0 20) (mkPtok 6 ")" 7 6 22)) (mkTagAttr (mkSpan (mkPtok 9 "@tag(" 6 0 20) (mkPtok 6 ")" 7 6 22)) (mkPtok 9 "@tag(" 6 0 20) (mkPtok 30 "42" 7 4 21) (mkPtok 6 ")" 7 6 22)))] (LengthField (mkSpan (mkPtok 42 "packetx" 7 8 23) (mkPtok 40 "," 11 0 31)) (mkLengthFieldDecl (mkSpan (mkPtok 42 "packetx" 7 8 23) (mkPtok 40 "," 11 0 31)) None (mkPtok 42 "packetx" 7 8 23) (mkLengthOf (mkSpan (mkPtok 7 "@lengthOf(" 7 16 24) (mkPtok 6 ")" 10 0 28)) (mkPtok 7 "@lengthOf(" 7 16 24) (mkPtok 42 "msg_type" 7 26 25) (mkPtok 6 ")" 10 0 28)) (Some (mkPtok 43 "`{ , }`" 10 2 29)) (mkPtok 40 "," 11 0 31))))] (mkPtok 3 "}" 11 3 32))); (DPacket (mkPacketDef (mkSpan (mkPtok 35 "packet" 11 6 33) (mkPtok 3 "}" 16 0 53)) None (mkPtok 35 "packet" 11 6 33) (mkPtok 42 "roots" 12 0 34) (mkPtok 2 "{" 12 6 35) [(mkFieldWithAttr (mkSpan (mkPtok 9 "@tag(" 12 8 36) (mkPtok 40 "," 15 11 51)) [(FATag (mkSpan (mkPtok 9 "@tag(" 12 8 36) (mkPtok 6 ")" 12 16 38)) (mkTagAttr (mkSpan (mkPtok 9 "@tag(" 12 8 36) (mkPtok 6 ")" 12 16 38)) (mkPtok 9 "@tag(" 12 8 36) (mkPtok 30 "1" 12 14 37) (mkPtok 6 ")" 12 16 38))); (FATag (mkSpan (mkPtok 9 "@tag(" 13 0 40) (mkPtok 6 ")" 13 8 42)) (mkTagAttr (mkSpan (mkPtok 9 "@tag(" 13 0 40) (mkPtok 6 ")" 13 8 42)) (mkPtok 9 "@tag(" 13 0 40) (mkPtok 30 "1" 13 6 41) (mkPtok 6 ")" 13 8 42))); (FALengthOf (mkSpan (mkPtok 7 "@lengthOf(" 13 10 43) (mkPtok 6 ")" 14 11 46)) (mkLengthOf (mkSpan (mkPtok 7 "@lengthOf(" 13 10 43) (mkPtok 6 ")" 14 11 46)) (mkPtok 7 "@lengthOf(" 13 10 43) (mkPtok 42 "BodyLength" 14 0 45) (mkPtok 6 ")" 14 11 46)))] (MetaField (mkSpan (mkPtok 12 "char[" 14 13 47) (mkPtok 40 "," 15 11 51)) None (mkMetaDecl (mkSpan (mkPtok 12 "char[" 14 13 47) (mkPtok 40 "," 15 11 51)) (TyFixed (mkSpan (mkPtok 12 "char[" 14 13 47) (mkPtok 13 "]" 15 0 49)) (mkFixedString (mkSpan (mkPtok 12 "char[" 14 13 47) (mkPtok 13 "]" 15 0 49)) (mkPtok 12 "char[" 14 13 47) (mkPtok 30 "0123456789" 14 19 48) (mkPtok 13 "]" 15 0 49))) (mkPtok 42 "MetaDataX" 15 1 50) None (mkPtok 40 "," 15 11 51))))] (mkPtok 3 "}" 16 0 53))); (DMeta (mkMetaDef (mkSpan (mkPtok 37 "MetaData" 16 2 54) (mkPtok 3 "}" 16 21 57)) (mkPtok 37 "MetaData" 16 2 54) (mkPtok 42 "string_" 16 11 55) (mkPtok 2 "{" 16 19 56) [] (mkPtok 3 "}" 16 21 57)))])).
Eval vm_compute in ("<<<M1277>>>" ++ check (runes_of_ascii "  packet  uint8x // a // b
{
    //x
    } MetaData A
    /// triple
    {float32 options1 , roots
    uint8x
    , trueish asx , string options1 `" ++ [28040; 24687; 31867; 22411]%N ++ runes_of_ascii "`
    , i32 int
,
    u// " ++ [128512]%N ++ runes_of_ascii " emoji
As `doc` ,
} packet Header {
    char[]
A
, // a // b
repeat metadata{match
    /// triple
    leftPad as Foo { ""a\""b"" : msg_type
    // `tick` ""quote"" 'q'
    }
    , } , char[] trueish  ,
matchKey  {
char[ 4294967296//	t
] roots	@calculatedFrom( ""x y"" ) , }, i8// " ++ [128512]%N ++ runes_of_ascii " emoji
MetaDataX@calculatedFrom(  ""packet""
), }
")).
Eval vm_compute in ("<<<M1309>>>" ++ check (runes_of_ascii "packet
f32a {
i64_  falsey ,match
/// triple
//
i8i8 as _x { // " ++ [27880; 37322]%N ++ runes_of_ascii "
0
    //x
    : Logon,[65535 , ""x y""
    ]:Header ,
4294967296//x
: Foo, /// triple
} ,
@tag( 0123456789 )	u8x msg_type
`say ""hi""`  , }  packet
    // a // b
    Z9_  {
    repeatCount leftPad  `two words` // `tick` ""quote"" 'q'
,
}
    MetaData
calculatedFrom{ u charz `{ , }`
,
    u64 T //x
`tab	here`, Foo	options1 `" ++ [233]%N ++ runes_of_ascii "` ,
char[] x
`doc` ,i8i8
u8x  ,}

")).
Eval vm_compute in ("<<<M1341>>>" ++ check (runes_of_ascii "packet T {@rightPad
() @tag(00
    ) char[]
a1
    @calculatedFrom(
    ""a\""b""
    )
    `two words`
    , }
")).
Eval vm_compute in ("<<<M1373>>>" ++ check (runes_of_ascii "MetaData
    //	t
    i8i8  {
    u8 string_ `crlf
line` ,} root // trailing space 
packet MetaDataX
{ @rightPad
    //
    ( ' '
)char[] MetaDataX
@lengthOf(
packetx	) ,//	t
} packet packetx	{ @lengthOf(
uint8x )//
trueish`doc`	,
@calculatedFrom(
    ""a\""b""
)
    @rightPad
    (' '
) @calculatedFrom(  ""a\\""
) repeat zchar[7/// triple
]asx	, @tag( 1
) char[3 ] string_
    , string_
@lengthOf(
Logon// a // b
) ,	@rightPad ( // " ++ [128512]%N ++ runes_of_ascii " emoji
'\x00' )@leftPad
//x
// " ++ [128512]%N ++ runes_of_ascii " emoji
(
    // " ++ [128512]%N ++ runes_of_ascii " emoji
    '0' )	repeat
As
    // packet A { u8 x, }
    { trueish { leftPad{i64 crc
,
u8 zchar @lengthOf(
    f32a
)
    // packet A { u8 x, }
    ,
tag @lengthOf( Z9_ )	`// not a comment` , Z9_  _x , }
,// packet A { u8 x, }
char[ 00] Foo `a\` , }	,} , @tag( 7 // packet A { u8 x, }
) char[
    4294967296 ] u128	, }
// packet A { u8 x, }
")).
Eval vm_compute in ("<<<M1405>>>" ++ check (runes_of_ascii "packet
    body { @tag(255 ) int @lengthOf( matchKey
    ) `tab	here` ,
}
    packet Z9_ { @lengthOf( As
)
    repeat _x
lengthOf ,	@tag( 0123456789
    ) repeat
uint8x ,int64  stringy@calculatedFrom(
    ""{,}"" )`crlf
line`
, //x
@lengthOf(	i8i8)@tag( 4294967296	) @rightPad ( // c
'0' // `tick` ""quote"" 'q'
) char[
    // c
    3]
int , } packet roots { } root
packet body { match f32a as  u8x{//x
""\" ++ [233]%N ++ runes_of_ascii """ //x
:	chars, } , @tag(255 )
@tag( 00) trueish
Header, @tag( //x
1)
match
A
    as falsey { [""a\""b"" ]: i64_ ,// trailing space 
[ 7 ,""packet"" , ""{,}""
, 4294967296 , 007] :u128 , 0
:
string_ , 007 : x
    , 1 :As ,
    }
    , @lengthOf(
    options1 ) repeat u16  Header
`` ,string trueish
, // " ++ [128512]%N ++ runes_of_ascii " emoji
@lengthOf( len ) x repeatCount
    `crlf
line` ,
    }
")).
Eval vm_compute in ("<<<M1437>>>" ++ check (runes_of_ascii "MetaData Pad
{	roots	f32a , char[ 10
// trailing space 
//	t
] u8x	, //	t
calculatedFrom
A , }
packet leftPad	{ roots// " ++ [27880; 37322]%N ++ runes_of_ascii "
@lengthOf(
string_) `two words`
,@tag(
255
)match o as options1	{ [
    0 //
, ""1""
,
""" ++ [128512]%N ++ runes_of_ascii """
//x
//	t
,42 ]
    :
    //
    i8i8
    , } , /// triple
repeatCount msg_type , }	options
{
    }")).
Eval vm_compute in ("<<<M1469>>>" ++ check (runes_of_ascii "root  packet
roots {
repeat rootA`{ , }`
,BodyLength, @lengthOf(
    int )
    u64	pack
`// not a comment` , chars @lengthOf( crc
) // packet A { u8 x, }
,
// @lengthOf(
// `tick` ""quote"" 'q'
tag `u8 x,` , match x_y_z	as chars{// " ++ [128512]%N ++ runes_of_ascii " emoji
[ 65535 ,""x y""// a // b
,
    10	, 4294967296]: //x
repeatCount,
[ 255 ] // @lengthOf(
: i8i8,4294967296
    : metadata
, [ 10 , """", 255 ,0 , ""abc""
    , 10 ]  :rootA
    // @lengthOf(
    ,
[ ""1"" , ""1""
    ]
:uint8x , ["""" , 10
    // trailing space 
    ]
:
    options1 ,} ,  }packet trueish {uint16
i64_ , }
    packet zchar
    {Logon {
// " ++ [27880; 37322]%N ++ runes_of_ascii "
// @lengthOf(
match pack as
asx {[
1 ,// `tick` ""quote"" 'q'
10] : Logon , [7 ]: pack
, [
42,  ""// no comment"" ,
    7 ,00 ,65535
]
    : x
, //
""1""
: uint8x, """" :A 65535	:
u8x } ,
}  ,x `u8 x,`, @tag( 65535
) string stringy `say ""hi""`  , repeat uint16 leftPad `
` ,
match options1
as Foo
    { ""abc"" : falsey	,
3:	T
    ,}
,zchar[ 4294967296 ]
charz
    @lengthOf(	As) , i64 Packet , @lengthOf( MetaDataX ) @lengthOf( metadata	) @calculatedFrom( """ ++ [128512]%N ++ runes_of_ascii """ ) uint8 T @calculatedFrom( """ ++ [128512]%N ++ runes_of_ascii """ ) `" ++ [233]%N ++ runes_of_ascii "` , } // `tick` ""quote"" 'q'")).
Eval vm_compute in ("<<<T1469>>>" ++ terms [mkTok 34 "root" 1 0 false; mkTok 35 "packet" 1 6 false; mkTok 42 "roots" 2 0 false; mkTok 2 "{" 2 6 false; mkTok 36 "repeat" 3 0 false; mkTok 42 "rootA" 3 7 false; mkTok 43 "`{ , }`" 3 12 false; mkTok 40 "," 4 0 false; mkTok 42 "BodyLength" 4 1 false; mkTok 40 "," 4 11 false; mkTok 7 "@lengthOf(" 4 13 false; mkTok 42 "int" 5 4 false; mkTok 6 ")" 5 8 false; mkTok 23 "u64" 6 4 false; mkTok 42 "pack" 6 8 false; mkTok 43 "`// not a comment`" 7 0 false; mkTok 40 "," 7 19 false; mkTok 42 "chars" 7 21 false; mkTok 7 "@lengthOf(" 7 27 false; mkTok 42 "crc" 7 38 false; mkTok 6 ")" 8 0 false; mkTok 44 "// packet A { u8 x, }" 8 2 true; mkTok 40 "," 9 0 false; mkTok 44 "// @lengthOf(" 10 0 true; mkTok 44 "// `tick` ""quote"" 'q'" 11 0 true; mkTok 42 "tag" 12 0 false; mkTok 43 "`u8 x,`" 12 4 false; mkTok 40 "," 12 12 false; mkTok 38 "match" 12 14 false; mkTok 42 "x_y_z" 12 20 false; mkTok 17 "as" 12 26 false; mkTok 42 "chars" 12 29 false; mkTok 2 "{" 12 34 false; mkTok 44 (string_of_bytes [47; 47; 32; 240; 159; 152; 128; 32; 101; 109; 111; 106; 105]%N) 12 35 true; mkTok 18 "[" 13 0 false; mkTok 30 "65535" 13 2 false; mkTok 40 "," 13 8 false; mkTok 31 """x y""" 13 9 false; mkTok 44 "// a // b" 13 14 true; mkTok 40 "," 14 0 false; mkTok 30 "10" 15 4 false; mkTok 40 "," 15 7 false; mkTok 30 "4294967296" 15 9 false; mkTok 13 "]" 15 19 false; mkTok 39 ":" 15 20 false; mkTok 44 "//x" 15 22 true; mkTok 42 "repeatCount" 16 0 false; mkTok 40 "," 16 11 false; mkTok 18 "[" 17 0 false; mkTok 30 "255" 17 2 false; mkTok 13 "]" 17 6 false; mkTok 44 "// @lengthOf(" 17 8 true; mkTok 39 ":" 18 0 false; mkTok 42 "i8i8" 18 2 false; mkTok 40 "," 18 6 false; mkTok 30 "4294967296" 18 7 false; mkTok 39 ":" 19 4 false; mkTok 42 "metadata" 19 6 false; mkTok 40 "," 20 0 false; mkTok 18 "[" 20 2 false; mkTok 30 "10" 20 4 false; mkTok 40 "," 20 7 false; mkTok 31 """""" 20 9 false; mkTok 40 "," 20 11 false; mkTok 30 "255" 20 13 false; mkTok 40 "," 20 17 false; mkTok 30 "0" 20 18 false; mkTok 40 "," 20 20 false; mkTok 31 """abc""" 20 22 false; mkTok 40 "," 21 4 false; mkTok 30 "10" 21 6 false; mkTok 13 "]" 21 9 false; mkTok 39 ":" 21 12 false; mkTok 42 "rootA" 21 13 false; mkTok 44 "// @lengthOf(" 22 4 true; mkTok 40 "," 23 4 false; mkTok 18 "[" 24 0 false; mkTok 31 """1""" 24 2 false; mkTok 40 "," 24 6 false; mkTok 31 """1""" 24 8 false; mkTok 13 "]" 25 4 false; mkTok 39 ":" 26 0 false; mkTok 42 "uint8x" 26 1 false; mkTok 40 "," 26 8 false; mkTok 18 "[" 26 10 false; mkTok 31 """""" 26 11 false; mkTok 40 "," 26 14 false; mkTok 30 "10" 26 16 false; mkTok 44 "// trailing space " 27 4 true; mkTok 13 "]" 28 4 false; mkTok 39 ":" 29 0 false; mkTok 42 "options1" 30 4 false; mkTok 40 "," 30 13 false; mkTok 3 "}" 30 14 false; mkTok 40 "," 30 16 false; mkTok 3 "}" 30 19 false; mkTok 35 "packet" 30 20 false; mkTok 42 "trueish" 30 27 false; mkTok 2 "{" 30 35 false; mkTok 21 "uint16" 30 36 false; mkTok 42 "i64_" 31 0 false; mkTok 40 "," 31 5 false; mkTok 3 "}" 31 7 false; mkTok 35 "packet" 32 4 false; mkTok 42 "zchar" 32 11 false; mkTok 2 "{" 33 4 false; mkTok 42 "Logon" 33 5 false; mkTok 2 "{" 33 11 false; mkTok 44 (string_of_bytes [47; 47; 32; 230; 179; 168; 233; 135; 138]%N) 34 0 true; mkTok 44 "// @lengthOf(" 35 0 true; mkTok 38 "match" 36 0 false; mkTok 42 "pack" 36 6 false; mkTok 17 "as" 36 11 false; mkTok 42 "asx" 37 0 false; mkTok 2 "{" 37 4 false; mkTok 18 "[" 37 5 false; mkTok 30 "1" 38 0 false; mkTok 40 "," 38 2 false; mkTok 44 "// `tick` ""quote"" 'q'" 38 3 true; mkTok 30 "10" 39 0 false; mkTok 13 "]" 39 2 false; mkTok 39 ":" 39 4 false; mkTok 42 "Logon" 39 6 false; mkTok 40 "," 39 12 false; mkTok 18 "[" 39 14 false; mkTok 30 "7" 39 15 false; mkTok 13 "]" 39 17 false; mkTok 39 ":" 39 18 false; mkTok 42 "pack" 39 20 false; mkTok 40 "," 40 0 false; mkTok 18 "[" 40 2 false; mkTok 30 "42" 41 0 false; mkTok 40 "," 41 2 false; mkTok 31 """// no comment""" 41 5 false; mkTok 40 "," 41 21 false; mkTok 30 "7" 42 4 false; mkTok 40 "," 42 6 false; mkTok 30 "00" 42 7 false; mkTok 40 "," 42 10 false; mkTok 30 "65535" 42 11 false; mkTok 13 "]" 43 0 false; mkTok 39 ":" 44 4 false; mkTok 42 "x" 44 6 false; mkTok 40 "," 45 0 false; mkTok 44 "//" 45 2 true; mkTok 31 """1""" 46 0 false; mkTok 39 ":" 47 0 false; mkTok 42 "uint8x" 47 2 false; mkTok 40 "," 47 8 false; mkTok 31 """""" 47 10 false; mkTok 39 ":" 47 13 false; mkTok 42 "A" 47 14 false; mkTok 30 "65535" 47 16 false; mkTok 39 ":" 47 22 false; mkTok 42 "u8x" 48 0 false; mkTok 3 "}" 48 4 false; mkTok 40 "," 48 6 false; mkTok 3 "}" 49 0 false; mkTok 40 "," 49 3 false; mkTok 42 "x" 49 4 false; mkTok 43 "`u8 x,`" 49 6 false; mkTok 40 "," 49 13 false; mkTok 9 "@tag(" 49 15 false; mkTok 30 "65535" 49 21 false; mkTok 6 ")" 50 0 false; mkTok 15 "string" 50 2 false; mkTok 42 "stringy" 50 9 false; mkTok 43 "`say ""hi""`" 50 17 false; mkTok 40 "," 50 29 false; mkTok 36 "repeat" 50 31 false; mkTok 21 "uint16" 50 38 false; mkTok 42 "leftPad" 50 45 false; mkTok 43 (string_of_bytes [96; 10; 96]%N) 50 53 false; mkTok 40 "," 51 2 false; mkTok 38 "match" 52 0 false; mkTok 42 "options1" 52 6 false; mkTok 17 "as" 53 0 false; mkTok 42 "Foo" 53 3 false; mkTok 2 "{" 54 4 false; mkTok 31 """abc""" 54 6 false; mkTok 39 ":" 54 12 false; mkTok 42 "falsey" 54 14 false; mkTok 40 "," 54 21 false; mkTok 30 "3" 55 0 false; mkTok 39 ":" 55 1 false; mkTok 42 "T" 55 3 false; mkTok 40 "," 56 4 false; mkTok 3 "}" 56 5 false; mkTok 40 "," 57 0 false; mkTok 14 "zchar[" 57 1 false; mkTok 30 "4294967296" 57 8 false; mkTok 13 "]" 57 19 false; mkTok 42 "charz" 58 0 false; mkTok 7 "@lengthOf(" 59 4 false; mkTok 42 "As" 59 15 false; mkTok 6 ")" 59 17 false; mkTok 40 "," 59 19 false; mkTok 27 "i64" 59 21 false; mkTok 42 "Packet" 59 25 false; mkTok 40 "," 59 32 false; mkTok 7 "@lengthOf(" 59 34 false; mkTok 42 "MetaDataX" 59 45 false; mkTok 6 ")" 59 55 false; mkTok 7 "@lengthOf(" 59 57 false; mkTok 42 "metadata" 59 68 false; mkTok 6 ")" 59 77 false; mkTok 5 "@calculatedFrom(" 59 79 false; mkTok 31 (string_of_bytes [34; 240; 159; 152; 128; 34]%N) 59 96 false; mkTok 6 ")" 59 100 false; mkTok 20 "uint8" 59 102 false; mkTok 42 "T" 59 108 false; mkTok 5 "@calculatedFrom(" 59 110 false; mkTok 31 (string_of_bytes [34; 240; 159; 152; 128; 34]%N) 59 127 false; mkTok 6 ")" 59 131 false; mkTok 43 (string_of_bytes [96; 195; 169; 96]%N) 59 133 false; mkTok 40 "," 59 137 false; mkTok 3 "}" 59 139 false; mkTok 44 "// `tick` ""quote"" 'q'" 59 141 true; mkTok 0 "<EOF>" 59 162 false] (mkPacket (mkPtok 34 "root" 1 0 0) (Some (mkPtok 3 "}" 59 139 216)) [(DPacket (mkPacketDef (mkSpan (mkPtok 34 "root" 1 0 0) (mkPtok 3 "}" 30 19 95)) (Some (mkPtok 34 "root" 1 0 0)) (mkPtok 35 "packet" 1 6 1) (mkPtok 42 "roots" 2 0 2) (mkPtok 2 "{" 2 6 3) [(mkFieldWithAttr (mkSpan (mkPtok 36 "repeat" 3 0 4) (mkPtok 40 "," 4 0 7)) [] (ObjectField (mkSpan (mkPtok 36 "repeat" 3 0 4) (mkPtok 40 "," 4 0 7)) (Some (mkPtok 36 "repeat" 3 0 4)) (mkPtok 42 "rootA" 3 7 5) None (Some (mkPtok 43 "`{ , }`" 3 12 6)) (mkPtok 40 "," 4 0 7))); (mkFieldWithAttr (mkSpan (mkPtok 42 "BodyLength" 4 1 8) (mkPtok 40 "," 4 11 9)) [] (ObjectField (mkSpan (mkPtok 42 "BodyLength" 4 1 8) (mkPtok 40 "," 4 11 9)) None (mkPtok 42 "BodyLength" 4 1 8) None None (mkPtok 40 "," 4 11 9))); (mkFieldWithAttr (mkSpan (mkPtok 7 "@lengthOf(" 4 13 10) (mkPtok 40 "," 7 19 16)) [(FALengthOf (mkSpan (mkPtok 7 "@lengthOf(" 4 13 10) (mkPtok 6 ")" 5 8 12)) (mkLengthOf (mkSpan (mkPtok 7 "@lengthOf(" 4 13 10) (mkPtok 6 ")" 5 8 12)) (mkPtok 7 "@lengthOf(" 4 13 10) (mkPtok 42 "int" 5 4 11) (mkPtok 6 ")" 5 8 12)))] (MetaField (mkSpan (mkPtok 23 "u64" 6 4 13) (mkPtok 40 "," 7 19 16)) None (mkMetaDecl (mkSpan (mkPtok 23 "u64" 6 4 13) (mkPtok 40 "," 7 19 16)) (TyBasic (mkSpan (mkPtok 23 "u64" 6 4 13) (mkPtok 23 "u64" 6 4 13)) (mkBasicType (mkSpan (mkPtok 23 "u64" 6 4 13) (mkPtok 23 "u64" 6 4 13)) (mkPtok 23 "u64" 6 4 13))) (mkPtok 42 "pack" 6 8 14) (Some (mkPtok 43 "`// not a comment`" 7 0 15)) (mkPtok 40 "," 7 19 16)))); (mkFieldWithAttr (mkSpan (mkPtok 42 "chars" 7 21 17) (mkPtok 40 "," 9 0 22)) [] (LengthField (mkSpan (mkPtok 42 "chars" 7 21 17) (mkPtok 40 "," 9 0 22)) (mkLengthFieldDecl (mkSpan (mkPtok 42 "chars" 7 21 17) (mkPtok 40 "," 9 0 22)) None (mkPtok 42 "chars" 7 21 17) (mkLengthOf (mkSpan (mkPtok 7 "@lengthOf(" 7 27 18) (mkPtok 6 ")" 8 0 20)) (mkPtok 7 "@lengthOf(" 7 27 18) (mkPtok 42 "crc" 7 38 19) (mkPtok 6 ")" 8 0 20)) None (mkPtok 40 "," 9 0 22)))); (mkFieldWithAttr (mkSpan (mkPtok 42 "tag" 12 0 25) (mkPtok 40 "," 12 12 27)) [] (ObjectField (mkSpan (mkPtok 42 "tag" 12 0 25) (mkPtok 40 "," 12 12 27)) None (mkPtok 42 "tag" 12 0 25) None (Some (mkPtok 43 "`u8 x,`" 12 4 26)) (mkPtok 40 "," 12 12 27))); (mkFieldWithAttr (mkSpan (mkPtok 38 "match" 12 14 28) (mkPtok 40 "," 30 16 94)) [] (MatchField (mkSpan (mkPtok 38 "match" 12 14 28) (mkPtok 40 "," 30 16 94)) (mkMatchFieldDecl (mkSpan (mkPtok 38 "match" 12 14 28) (mkPtok 3 "}" 30 14 93)) (mkPtok 38 "match" 12 14 28) (mkPtok 42 "x_y_z" 12 20 29) (mkPtok 17 "as" 12 26 30) (mkPtok 42 "chars" 12 29 31) (mkPtok 2 "{" 12 34 32) [(mkMatchPair (mkSpan (mkPtok 18 "[" 13 0 34) (mkPtok 40 "," 16 11 47)) (MKList (mkKeyList (mkSpan (mkPtok 18 "[" 13 0 34) (mkPtok 13 "]" 15 19 43)) (mkPtok 18 "[" 13 0 34) (mkPtok 30 "65535" 13 2 35) [((mkPtok 40 "," 13 8 36), (mkPtok 31 """x y""" 13 9 37)); ((mkPtok 40 "," 14 0 39), (mkPtok 30 "10" 15 4 40)); ((mkPtok 40 "," 15 7 41), (mkPtok 30 "4294967296" 15 9 42))] (mkPtok 13 "]" 15 19 43))) (mkPtok 39 ":" 15 20 44) (mkPtok 42 "repeatCount" 16 0 46) (Some (mkPtok 40 "," 16 11 47))); (mkMatchPair (mkSpan (mkPtok 18 "[" 17 0 48) (mkPtok 40 "," 18 6 54)) (MKList (mkKeyList (mkSpan (mkPtok 18 "[" 17 0 48) (mkPtok 13 "]" 17 6 50)) (mkPtok 18 "[" 17 0 48) (mkPtok 30 "255" 17 2 49) [] (mkPtok 13 "]" 17 6 50))) (mkPtok 39 ":" 18 0 52) (mkPtok 42 "i8i8" 18 2 53) (Some (mkPtok 40 "," 18 6 54))); (mkMatchPair (mkSpan (mkPtok 30 "4294967296" 18 7 55) (mkPtok 40 "," 20 0 58)) (MKDigits (mkPtok 30 "4294967296" 18 7 55)) (mkPtok 39 ":" 19 4 56) (mkPtok 42 "metadata" 19 6 57) (Some (mkPtok 40 "," 20 0 58))); (mkMatchPair (mkSpan (mkPtok 18 "[" 20 2 59) (mkPtok 40 "," 23 4 75)) (MKList (mkKeyList (mkSpan (mkPtok 18 "[" 20 2 59) (mkPtok 13 "]" 21 9 71)) (mkPtok 18 "[" 20 2 59) (mkPtok 30 "10" 20 4 60) [((mkPtok 40 "," 20 7 61), (mkPtok 31 """""" 20 9 62)); ((mkPtok 40 "," 20 11 63), (mkPtok 30 "255" 20 13 64)); ((mkPtok 40 "," 20 17 65), (mkPtok 30 "0" 20 18 66)); ((mkPtok 40 "," 20 20 67), (mkPtok 31 """abc""" 20 22 68)); ((mkPtok 40 "," 21 4 69), (mkPtok 30 "10" 21 6 70))] (mkPtok 13 "]" 21 9 71))) (mkPtok 39 ":" 21 12 72) (mkPtok 42 "rootA" 21 13 73) (Some (mkPtok 40 "," 23 4 75))); (mkMatchPair (mkSpan (mkPtok 18 "[" 24 0 76) (mkPtok 40 "," 26 8 83)) (MKList (mkKeyList (mkSpan (mkPtok 18 "[" 24 0 76) (mkPtok 13 "]" 25 4 80)) (mkPtok 18 "[" 24 0 76) (mkPtok 31 """1""" 24 2 77) [((mkPtok 40 "," 24 6 78), (mkPtok 31 """1""" 24 8 79))] (mkPtok 13 "]" 25 4 80))) (mkPtok 39 ":" 26 0 81) (mkPtok 42 "uint8x" 26 1 82) (Some (mkPtok 40 "," 26 8 83))); (mkMatchPair (mkSpan (mkPtok 18 "[" 26 10 84) (mkPtok 40 "," 30 13 92)) (MKList (mkKeyList (mkSpan (mkPtok 18 "[" 26 10 84) (mkPtok 13 "]" 28 4 89)) (mkPtok 18 "[" 26 10 84) (mkPtok 31 """""" 26 11 85) [((mkPtok 40 "," 26 14 86), (mkPtok 30 "10" 26 16 87))] (mkPtok 13 "]" 28 4 89))) (mkPtok 39 ":" 29 0 90) (mkPtok 42 "options1" 30 4 91) (Some (mkPtok 40 "," 30 13 92)))] (mkPtok 3 "}" 30 14 93)) (mkPtok 40 "," 30 16 94)))] (mkPtok 3 "}" 30 19 95))); (DPacket (mkPacketDef (mkSpan (mkPtok 35 "packet" 30 20 96) (mkPtok 3 "}" 31 7 102)) None (mkPtok 35 "packet" 30 20 96) (mkPtok 42 "trueish" 30 27 97) (mkPtok 2 "{" 30 35 98) [(mkFieldWithAttr (mkSpan (mkPtok 21 "uint16" 30 36 99) (mkPtok 40 "," 31 5 101)) [] (MetaField (mkSpan (mkPtok 21 "uint16" 30 36 99) (mkPtok 40 "," 31 5 101)) None (mkMetaDecl (mkSpan (mkPtok 21 "uint16" 30 36 99) (mkPtok 40 "," 31 5 101)) (TyBasic (mkSpan (mkPtok 21 "uint16" 30 36 99) (mkPtok 21 "uint16" 30 36 99)) (mkBasicType (mkSpan (mkPtok 21 "uint16" 30 36 99) (mkPtok 21 "uint16" 30 36 99)) (mkPtok 21 "uint16" 30 36 99))) (mkPtok 42 "i64_" 31 0 100) None (mkPtok 40 "," 31 5 101))))] (mkPtok 3 "}" 31 7 102))); (DPacket (mkPacketDef (mkSpan (mkPtok 35 "packet" 32 4 103) (mkPtok 3 "}" 59 139 216)) None (mkPtok 35 "packet" 32 4 103) (mkPtok 42 "zchar" 32 11 104) (mkPtok 2 "{" 33 4 105) [(mkFieldWithAttr (mkSpan (mkPtok 42 "Logon" 33 5 106) (mkPtok 40 "," 49 3 158)) [] (InerObjectField (mkSpan (mkPtok 42 "Logon" 33 5 106) (mkPtok 40 "," 49 3 158)) None (InerObjectDecl (mkSpan (mkPtok 42 "Logon" 33 5 106) (mkPtok 3 "}" 49 0 157)) (mkPtok 42 "Logon" 33 5 106) (mkPtok 2 "{" 33 11 107) [(MatchField (mkSpan (mkPtok 38 "match" 36 0 110) (mkPtok 40 "," 48 6 156)) (mkMatchFieldDecl (mkSpan (mkPtok 38 "match" 36 0 110) (mkPtok 3 "}" 48 4 155)) (mkPtok 38 "match" 36 0 110) (mkPtok 42 "pack" 36 6 111) (mkPtok 17 "as" 36 11 112) (mkPtok 42 "asx" 37 0 113) (mkPtok 2 "{" 37 4 114) [(mkMatchPair (mkSpan (mkPtok 18 "[" 37 5 115) (mkPtok 40 "," 39 12 123)) (MKList (mkKeyList (mkSpan (mkPtok 18 "[" 37 5 115) (mkPtok 13 "]" 39 2 120)) (mkPtok 18 "[" 37 5 115) (mkPtok 30 "1" 38 0 116) [((mkPtok 40 "," 38 2 117), (mkPtok 30 "10" 39 0 119))] (mkPtok 13 "]" 39 2 120))) (mkPtok 39 ":" 39 4 121) (mkPtok 42 "Logon" 39 6 122) (Some (mkPtok 40 "," 39 12 123))); (mkMatchPair (mkSpan (mkPtok 18 "[" 39 14 124) (mkPtok 40 "," 40 0 129)) (MKList (mkKeyList (mkSpan (mkPtok 18 "[" 39 14 124) (mkPtok 13 "]" 39 17 126)) (mkPtok 18 "[" 39 14 124) (mkPtok 30 "7" 39 15 125) [] (mkPtok 13 "]" 39 17 126))) (mkPtok 39 ":" 39 18 127) (mkPtok 42 "pack" 39 20 128) (Some (mkPtok 40 "," 40 0 129))); (mkMatchPair (mkSpan (mkPtok 18 "[" 40 2 130) (mkPtok 40 "," 45 0 143)) (MKList (mkKeyList (mkSpan (mkPtok 18 "[" 40 2 130) (mkPtok 13 "]" 43 0 140)) (mkPtok 18 "[" 40 2 130) (mkPtok 30 "42" 41 0 131) [((mkPtok 40 "," 41 2 132), (mkPtok 31 """// no comment""" 41 5 133)); ((mkPtok 40 "," 41 21 134), (mkPtok 30 "7" 42 4 135)); ((mkPtok 40 "," 42 6 136), (mkPtok 30 "00" 42 7 137)); ((mkPtok 40 "," 42 10 138), (mkPtok 30 "65535" 42 11 139))] (mkPtok 13 "]" 43 0 140))) (mkPtok 39 ":" 44 4 141) (mkPtok 42 "x" 44 6 142) (Some (mkPtok 40 "," 45 0 143))); (mkMatchPair (mkSpan (mkPtok 31 """1""" 46 0 145) (mkPtok 40 "," 47 8 148)) (MKString (mkPtok 31 """1""" 46 0 145)) (mkPtok 39 ":" 47 0 146) (mkPtok 42 "uint8x" 47 2 147) (Some (mkPtok 40 "," 47 8 148))); (mkMatchPair (mkSpan (mkPtok 31 """""" 47 10 149) (mkPtok 42 "A" 47 14 151)) (MKString (mkPtok 31 """""" 47 10 149)) (mkPtok 39 ":" 47 13 150) (mkPtok 42 "A" 47 14 151) None); (mkMatchPair (mkSpan (mkPtok 30 "65535" 47 16 152) (mkPtok 42 "u8x" 48 0 154)) (MKDigits (mkPtok 30 "65535" 47 16 152)) (mkPtok 39 ":" 47 22 153) (mkPtok 42 "u8x" 48 0 154) None)] (mkPtok 3 "}" 48 4 155)) (mkPtok 40 "," 48 6 156))] (mkPtok 3 "}" 49 0 157)) (mkPtok 40 "," 49 3 158))); (mkFieldWithAttr (mkSpan (mkPtok 42 "x" 49 4 159) (mkPtok 40 "," 49 13 161)) [] (ObjectField (mkSpan (mkPtok 42 "x" 49 4 159) (mkPtok 40 "," 49 13 161)) None (mkPtok 42 "x" 49 4 159) None (Some (mkPtok 43 "`u8 x,`" 49 6 160)) (mkPtok 40 "," 49 13 161))); (mkFieldWithAttr (mkSpan (mkPtok 9 "@tag(" 49 15 162) (mkPtok 40 "," 50 29 168)) [(FATag (mkSpan (mkPtok 9 "@tag(" 49 15 162) (mkPtok 6 ")" 50 0 164)) (mkTagAttr (mkSpan (mkPtok 9 "@tag(" 49 15 162) (mkPtok 6 ")" 50 0 164)) (mkPtok 9 "@tag(" 49 15 162) (mkPtok 30 "65535" 49 21 163) (mkPtok 6 ")" 50 0 164)))] (MetaField (mkSpan (mkPtok 15 "string" 50 2 165) (mkPtok 40 "," 50 29 168)) None (mkMetaDecl (mkSpan (mkPtok 15 "string" 50 2 165) (mkPtok 40 "," 50 29 168)) (TyDynamic (mkSpan (mkPtok 15 "string" 50 2 165) (mkPtok 15 "string" 50 2 165)) (mkDynamicString (mkSpan (mkPtok 15 "string" 50 2 165) (mkPtok 15 "string" 50 2 165)) (mkPtok 15 "string" 50 2 165))) (mkPtok 42 "stringy" 50 9 166) (Some (mkPtok 43 "`say ""hi""`" 50 17 167)) (mkPtok 40 "," 50 29 168)))); (mkFieldWithAttr (mkSpan (mkPtok 36 "repeat" 50 31 169) (mkPtok 40 "," 51 2 173)) [] (MetaField (mkSpan (mkPtok 36 "repeat" 50 31 169) (mkPtok 40 "," 51 2 173)) (Some (mkPtok 36 "repeat" 50 31 169)) (mkMetaDecl (mkSpan (mkPtok 21 "uint16" 50 38 170) (mkPtok 40 "," 51 2 173)) (TyBasic (mkSpan (mkPtok 21 "uint16" 50 38 170) (mkPtok 21 "uint16" 50 38 170)) (mkBasicType (mkSpan (mkPtok 21 "uint16" 50 38 170) (mkPtok 21 "uint16" 50 38 170)) (mkPtok 21 "uint16" 50 38 170))) (mkPtok 42 "leftPad" 50 45 171) (Some (mkPtok 43 (string_of_bytes [96; 10; 96]%N) 50 53 172)) (mkPtok 40 "," 51 2 173)))); (mkFieldWithAttr (mkSpan (mkPtok 38 "match" 52 0 174) (mkPtok 40 "," 57 0 188)) [] (MatchField (mkSpan (mkPtok 38 "match" 52 0 174) (mkPtok 40 "," 57 0 188)) (mkMatchFieldDecl (mkSpan (mkPtok 38 "match" 52 0 174) (mkPtok 3 "}" 56 5 187)) (mkPtok 38 "match" 52 0 174) (mkPtok 42 "options1" 52 6 175) (mkPtok 17 "as" 53 0 176) (mkPtok 42 "Foo" 53 3 177) (mkPtok 2 "{" 54 4 178) [(mkMatchPair (mkSpan (mkPtok 31 """abc""" 54 6 179) (mkPtok 40 "," 54 21 182)) (MKString (mkPtok 31 """abc""" 54 6 179)) (mkPtok 39 ":" 54 12 180) (mkPtok 42 "falsey" 54 14 181) (Some (mkPtok 40 "," 54 21 182))); (mkMatchPair (mkSpan (mkPtok 30 "3" 55 0 183) (mkPtok 40 "," 56 4 186)) (MKDigits (mkPtok 30 "3" 55 0 183)) (mkPtok 39 ":" 55 1 184) (mkPtok 42 "T" 55 3 185) (Some (mkPtok 40 "," 56 4 186)))] (mkPtok 3 "}" 56 5 187)) (mkPtok 40 "," 57 0 188))); (mkFieldWithAttr (mkSpan (mkPtok 14 "zchar[" 57 1 189) (mkPtok 40 "," 59 19 196)) [] (LengthField (mkSpan (mkPtok 14 "zchar[" 57 1 189) (mkPtok 40 "," 59 19 196)) (mkLengthFieldDecl (mkSpan (mkPtok 14 "zchar[" 57 1 189) (mkPtok 40 "," 59 19 196)) (Some (TyFixed (mkSpan (mkPtok 14 "zchar[" 57 1 189) (mkPtok 13 "]" 57 19 191)) (mkFixedString (mkSpan (mkPtok 14 "zchar[" 57 1 189) (mkPtok 13 "]" 57 19 191)) (mkPtok 14 "zchar[" 57 1 189) (mkPtok 30 "4294967296" 57 8 190) (mkPtok 13 "]" 57 19 191)))) (mkPtok 42 "charz" 58 0 192) (mkLengthOf (mkSpan (mkPtok 7 "@lengthOf(" 59 4 193) (mkPtok 6 ")" 59 17 195)) (mkPtok 7 "@lengthOf(" 59 4 193) (mkPtok 42 "As" 59 15 194) (mkPtok 6 ")" 59 17 195)) None (mkPtok 40 "," 59 19 196)))); (mkFieldWithAttr (mkSpan (mkPtok 27 "i64" 59 21 197) (mkPtok 40 "," 59 32 199)) [] (MetaField (mkSpan (mkPtok 27 "i64" 59 21 197) (mkPtok 40 "," 59 32 199)) None (mkMetaDecl (mkSpan (mkPtok 27 "i64" 59 21 197) (mkPtok 40 "," 59 32 199)) (TyBasic (mkSpan (mkPtok 27 "i64" 59 21 197) (mkPtok 27 "i64" 59 21 197)) (mkBasicType (mkSpan (mkPtok 27 "i64" 59 21 197) (mkPtok 27 "i64" 59 21 197)) (mkPtok 27 "i64" 59 21 197))) (mkPtok 42 "Packet" 59 25 198) None (mkPtok 40 "," 59 32 199)))); (mkFieldWithAttr (mkSpan (mkPtok 7 "@lengthOf(" 59 34 200) (mkPtok 40 "," 59 137 215)) [(FALengthOf (mkSpan (mkPtok 7 "@lengthOf(" 59 34 200) (mkPtok 6 ")" 59 55 202)) (mkLengthOf (mkSpan (mkPtok 7 "@lengthOf(" 59 34 200) (mkPtok 6 ")" 59 55 202)) (mkPtok 7 "@lengthOf(" 59 34 200) (mkPtok 42 "MetaDataX" 59 45 201) (mkPtok 6 ")" 59 55 202))); (FALengthOf (mkSpan (mkPtok 7 "@lengthOf(" 59 57 203) (mkPtok 6 ")" 59 77 205)) (mkLengthOf (mkSpan (mkPtok 7 "@lengthOf(" 59 57 203) (mkPtok 6 ")" 59 77 205)) (mkPtok 7 "@lengthOf(" 59 57 203) (mkPtok 42 "metadata" 59 68 204) (mkPtok 6 ")" 59 77 205))); (FACalculatedFrom (mkSpan (mkPtok 5 "@calculatedFrom(" 59 79 206) (mkPtok 6 ")" 59 100 208)) (mkCalculatedFrom (mkSpan (mkPtok 5 "@calculatedFrom(" 59 79 206) (mkPtok 6 ")" 59 100 208)) (mkPtok 5 "@calculatedFrom(" 59 79 206) (mkPtok 31 (string_of_bytes [34; 240; 159; 152; 128; 34]%N) 59 96 207) (mkPtok 6 ")" 59 100 208)))] (CheckSumField (mkSpan (mkPtok 20 "uint8" 59 102 209) (mkPtok 40 "," 59 137 215)) (mkChecksumFieldDecl (mkSpan (mkPtok 20 "uint8" 59 102 209) (mkPtok 40 "," 59 137 215)) (Some (TyBasic (mkSpan (mkPtok 20 "uint8" 59 102 209) (mkPtok 20 "uint8" 59 102 209)) (mkBasicType (mkSpan (mkPtok 20 "uint8" 59 102 209) (mkPtok 20 "uint8" 59 102 209)) (mkPtok 20 "uint8" 59 102 209)))) (mkPtok 42 "T" 59 108 210) (mkCalculatedFrom (mkSpan (mkPtok 5 "@calculatedFrom(" 59 110 211) (mkPtok 6 ")" 59 131 213)) (mkPtok 5 "@calculatedFrom(" 59 110 211) (mkPtok 31 (string_of_bytes [34; 240; 159; 152; 128; 34]%N) 59 127 212) (mkPtok 6 ")" 59 131 213)) (Some (mkPtok 43 (string_of_bytes [96; 195; 169; 96]%N) 59 133 214)) (mkPtok 40 "," 59 137 215))))] (mkPtok 3 "}" 59 139 216)))])).
Eval vm_compute in ("<<<M1501>>>" ++ check (runes_of_ascii "options{rootA
    =
""it's"" ;//x
}
")).
Eval vm_compute in ("<<<M1533>>>" ++ check (runes_of_ascii "packet
//x
//
calculatedFrom
{ }

")).
Eval vm_compute in ("<<<M1565>>>" ++ check (runes_of_ascii "root packet f32a	{ @calculatedFrom( ""\n"" )float64 len ,
charz @lengthOf(
    BodyLength ) ,
@calculatedFrom( ""\" ++ [233]%N ++ runes_of_ascii """ )  @lengthOf(	A )
    // trailing space 
    @calculatedFrom(""{,}""
) match As as roots {
    4294967296 :// packet A { u8 x, }
zchar
, },
    }")).
Eval vm_compute in ("<<<M1597>>>" ++ check (runes_of_ascii "MetaData T  { char[ 0
]A,
uint64
trueish `say ""hi""`,
int64 body
    , uint64
f32a /// triple
`" ++ [233]%N ++ runes_of_ascii "`
,	}
    root packet T
    {
@tag( // " ++ [128512]%N ++ runes_of_ascii " emoji
10 ) match x_y_z as calculatedFrom	{  """ ++ [233]%N ++ runes_of_ascii "t" ++ [233]%N ++ runes_of_ascii """
    : i8i8 } , tag { repeat Header
    // c
    x_y_z
`it's`  , } , match u128 //x
as options1
    //x
    {255 : calculatedFrom ,
    }
    , @calculatedFrom(  ""\n""
) repeat zchar[ 255 ] trueish `doc`,	repeat o{	string i64_ ,repeat char[ 65535
// @lengthOf(
/// triple
]int, float32 metadata `crlf
line`,
    repeat matchKey { repeat u128 roots // @lengthOf(
`" ++ [233]%N ++ runes_of_ascii "`,  match  i8i8 as options1 {
    ""{,}""// a // b
:	roots } // `tick` ""quote"" 'q'
, asx @lengthOf(calculatedFrom )
`crlf
line` , repeat int64
Packet
    , } ,
    }
, @leftPad
(
    // " ++ [27880; 37322]%N ++ runes_of_ascii "
    ' '
    // c
    )
    repeat zchar {
    uint8 u,}
,
}	options { // c
}	MetaData string_{
x_y_z zchar
    `a\` ,
    // " ++ [27880; 37322]%N ++ runes_of_ascii "
    len len
    // " ++ [128512]%N ++ runes_of_ascii " emoji
    `doc`
, T float , packetx Header , } MetaData rootA {
string int
    , uint16 int `{ , }` , uint16// trailing space 
charz // " ++ [27880; 37322]%N ++ runes_of_ascii "
,uint8x f32a `crlf
line` ,
    }
")).
Eval vm_compute in ("<<<M1629>>>" ++ check (runes_of_ascii "  packet i64_  { repeat i32
    x , @tag(
0123456789
)
    i64_ Foo `say ""hi""` // " ++ [27880; 37322]%N ++ runes_of_ascii "
, @calculatedFrom(""it's""
    ) @lengthOf( MetaDataX ) @lengthOf(
    // a // b
    u128
    ) x_y_z`say ""hi""`
    ,
    // `tick` ""quote"" 'q'
    @rightPad  () @tag( 4294967296 ) i64_ ,	} MetaData len { // @lengthOf(
char[] BodyLength `crlf
line` ,}")).
Eval vm_compute in ("<<<M1661>>>" ++ check (runes_of_ascii "packet
T{repeat// `tick` ""quote"" 'q'
char[
0] roots`doc`, @calculatedFrom(
    ""// no comment""
    ) @lengthOf( x )
//x
// " ++ [128512]%N ++ runes_of_ascii " emoji
Packet ,@leftPad	(
'\x00' ) @tag( 7 ) @tag( 10 ) repeat	char[]
u `" ++ [28040; 24687; 31867; 22411]%N ++ runes_of_ascii "` ,	char[ 007] Z9_ `two words` ,  repeat uint8	calculatedFrom `" ++ [233]%N ++ runes_of_ascii "` , //
@calculatedFrom(
    """ ++ [28040; 24687]%N ++ runes_of_ascii """ )
    Z9_	, @rightPad (	' ')zchar[	0123456789 ] string_	,
repeat  body
,  char[]	calculatedFrom	,
}
")).
Eval vm_compute in ("<<<M1693>>>" ++ check (runes_of_ascii "options { u = char  }")).
Eval vm_compute in ("<<<T1693>>>" ++ terms [mkTok 1 "options" 1 0 false; mkTok 2 "{" 1 8 false; mkTok 42 "u" 1 10 false; mkTok 4 "=" 1 12 false; mkTok 19 "char" 1 14 false; mkTok 3 "}" 1 20 false; mkTok 0 "<EOF>" 1 21 false] (mkPacket (mkPtok 1 "options" 1 0 0) (Some (mkPtok 3 "}" 1 20 5)) [(DOption (mkOptionDef (mkSpan (mkPtok 1 "options" 1 0 0) (mkPtok 3 "}" 1 20 5)) (mkPtok 1 "options" 1 0 0) (mkPtok 2 "{" 1 8 1) [(mkOptionDecl (mkSpan (mkPtok 42 "u" 1 10 2) (mkPtok 19 "char" 1 14 4)) (mkPtok 42 "u" 1 10 2) (mkPtok 4 "=" 1 12 3) (VType (mkSpan (mkPtok 19 "char" 1 14 4) (mkPtok 19 "char" 1 14 4)) (TyBasic (mkSpan (mkPtok 19 "char" 1 14 4) (mkPtok 19 "char" 1 14 4)) (mkBasicType (mkSpan (mkPtok 19 "char" 1 14 4) (mkPtok 19 "char" 1 14 4)) (mkPtok 19 "char" 1 14 4)))) None)] (mkPtok 3 "}" 1 20 5)))])).
Eval vm_compute in ("<<<M1725>>>" ++ check (runes_of_ascii "
")).
Eval vm_compute in ("<<<M1757>>>" ++ check (runes_of_ascii "MetaData f32a{}
// a // b
")).
Eval vm_compute in ("<<<M1789>>>" ++ check (runes_of_ascii "packet  T { repeat T{
    int16 T  @calculatedFrom( ""abc"" ) , } ,
} options
    { crc =int16; options1='\x00'
    ;
packetx=
    """" ; }
    // " ++ [27880; 37322]%N ++ runes_of_ascii "
    MetaData rootA
{//
char[ 0123456789
]repeatCount , _x
pack `crlf
line` ,  zchar[ 7] // c
rootA `
`
,}
// c
")).
Eval vm_compute in ("<<<M1821>>>" ++ check (runes_of_ascii "packet _x  {	repeat A , @tag(	65535
    ) int32 u8x
, @rightPad(
    '0' ) roots @lengthOf(
    f32a ) , // packet A { u8 x, }
}
packet a1
    //x
    { repeat	char[]
    crc	`` ,
// c
//x
f64 u
// " ++ [27880; 37322]%N ++ runes_of_ascii "
//	t
, repeat u16
string_ `a\`
,  }")).
Eval vm_compute in ("<<<M1853>>>" ++ check (runes_of_ascii "
packet falsey { @tag( 255 )
repeat uint64 a1
    , repeat _x // a // b
`tab	here`,
repeat f32a
{ repeat chars
    // packet A { u8 x, }
    o `{ , }`
// packet A { u8 x, }
// `tick` ""quote"" 'q'
,} ,
@lengthOf( i64_ ) tag
{ repeat string i8i8 ,
char crc@calculatedFrom(	""" ++ [28040; 24687]%N ++ runes_of_ascii """ ) , options1
metadata
    , } ,@rightPad // packet A { u8 x, }
(
    ) _x`tab	here` ,
    float32
x
    , @lengthOf( body ) @leftPad
(
    '0'
    )
    @lengthOf( asx )
    repeat//	t
zchar[7 ] As
, body Z9_
, //x
@calculatedFrom( ""1""
) zchar[ 007  ]Logon @calculatedFrom(
""" ++ [233]%N ++ runes_of_ascii "t" ++ [233]%N ++ runes_of_ascii """ // @lengthOf(
)// " ++ [128512]%N ++ runes_of_ascii " emoji
, //	t
@calculatedFrom(	""1"") @calculatedFrom( ""a\""b"" )@tag(
4294967296
) repeat
    i8i8`a\`, } //x")).
Eval vm_compute in ("<<<M1885>>>" ++ check (runes_of_ascii "packet
    o { char[0//x
] options1 `a\`
,
// @lengthOf(
//x
uint8 uint8x, } options {
asx ='\x00'; string_
=
    ""`tick`"" //
;
crc
=f64;
// trailing space 
// a // b
}
    packet BodyLength { @leftPad (' '
)	@tag(10
) // " ++ [128512]%N ++ runes_of_ascii " emoji
@calculatedFrom(  """ ++ [128512]%N ++ runes_of_ascii """	)
Z9_{
match/// triple
chars as u128  {
    [ ""it's""
    ]: Logon	, 255
: T , """ ++ [233]%N ++ runes_of_ascii "t" ++ [233]%N ++ runes_of_ascii """ :  metadata  },
    } , @lengthOf(
    Z9_ ) crc x
    `doc`
,
@lengthOf( options1 )
// " ++ [128512]%N ++ runes_of_ascii " emoji
//x
string stringy
    ,
    u16
    // trailing space 
    calculatedFrom
    @calculatedFrom(
// " ++ [128512]%N ++ runes_of_ascii " emoji
// " ++ [128512]%N ++ runes_of_ascii " emoji
""abc"") , @tag(255 )
    @tag(3	) /// triple
@lengthOf( Z9_
    ) i64 msg_type @lengthOf( pack )
,	char[ 1 ]
pack @lengthOf( roots ) ,
    repeat
    zchar`it's` ,uint8x `line1
line2` , // packet A { u8 x, }
char[] a1 //
@calculatedFrom( ""abc"" )`it's` , repeat u128
    //	t
    pack, }// " ++ [128512]%N ++ runes_of_ascii " emoji
MetaData
    len {
f32
    roots `
` ,} //	t")).
Eval vm_compute in ("<<<M1917>>>" ++ check (runes_of_ascii "
packet len { }
root packet
    zchar{	} packet x {char[] As @lengthOf( T
)
`crlf
line` ,char[ 10	] repeatCount `line1
line2`, }")).
Eval vm_compute in ("<<<T1917>>>" ++ terms [mkTok 35 "packet" 2 0 false; mkTok 42 "len" 2 7 false; mkTok 2 "{" 2 11 false; mkTok 3 "}" 2 13 false; mkTok 34 "root" 3 0 false; mkTok 35 "packet" 3 5 false; mkTok 42 "zchar" 4 4 false; mkTok 2 "{" 4 9 false; mkTok 3 "}" 4 11 false; mkTok 35 "packet" 4 13 false; mkTok 42 "x" 4 20 false; mkTok 2 "{" 4 22 false; mkTok 16 "char[]" 4 23 false; mkTok 42 "As" 4 30 false; mkTok 7 "@lengthOf(" 4 33 false; mkTok 42 "T" 4 44 false; mkTok 6 ")" 5 0 false; mkTok 43 (string_of_bytes [96; 99; 114; 108; 102; 13; 10; 108; 105; 110; 101; 96]%N) 6 0 false; mkTok 40 "," 7 6 false; mkTok 12 "char[" 7 7 false; mkTok 30 "10" 7 13 false; mkTok 13 "]" 7 16 false; mkTok 42 "repeatCount" 7 18 false; mkTok 43 (string_of_bytes [96; 108; 105; 110; 101; 49; 10; 108; 105; 110; 101; 50; 96]%N) 7 30 false; mkTok 40 "," 8 6 false; mkTok 3 "}" 8 8 false; mkTok 0 "<EOF>" 8 9 false] (mkPacket (mkPtok 35 "packet" 2 0 0) (Some (mkPtok 3 "}" 8 8 25)) [(DPacket (mkPacketDef (mkSpan (mkPtok 35 "packet" 2 0 0) (mkPtok 3 "}" 2 13 3)) None (mkPtok 35 "packet" 2 0 0) (mkPtok 42 "len" 2 7 1) (mkPtok 2 "{" 2 11 2) [] (mkPtok 3 "}" 2 13 3))); (DPacket (mkPacketDef (mkSpan (mkPtok 34 "root" 3 0 4) (mkPtok 3 "}" 4 11 8)) (Some (mkPtok 34 "root" 3 0 4)) (mkPtok 35 "packet" 3 5 5) (mkPtok 42 "zchar" 4 4 6) (mkPtok 2 "{" 4 9 7) [] (mkPtok 3 "}" 4 11 8))); (DPacket (mkPacketDef (mkSpan (mkPtok 35 "packet" 4 13 9) (mkPtok 3 "}" 8 8 25)) None (mkPtok 35 "packet" 4 13 9) (mkPtok 42 "x" 4 20 10) (mkPtok 2 "{" 4 22 11) [(mkFieldWithAttr (mkSpan (mkPtok 16 "char[]" 4 23 12) (mkPtok 40 "," 7 6 18)) [] (LengthField (mkSpan (mkPtok 16 "char[]" 4 23 12) (mkPtok 40 "," 7 6 18)) (mkLengthFieldDecl (mkSpan (mkPtok 16 "char[]" 4 23 12) (mkPtok 40 "," 7 6 18)) (Some (TyDynamic (mkSpan (mkPtok 16 "char[]" 4 23 12) (mkPtok 16 "char[]" 4 23 12)) (mkDynamicString (mkSpan (mkPtok 16 "char[]" 4 23 12) (mkPtok 16 "char[]" 4 23 12)) (mkPtok 16 "char[]" 4 23 12)))) (mkPtok 42 "As" 4 30 13) (mkLengthOf (mkSpan (mkPtok 7 "@lengthOf(" 4 33 14) (mkPtok 6 ")" 5 0 16)) (mkPtok 7 "@lengthOf(" 4 33 14) (mkPtok 42 "T" 4 44 15) (mkPtok 6 ")" 5 0 16)) (Some (mkPtok 43 (string_of_bytes [96; 99; 114; 108; 102; 13; 10; 108; 105; 110; 101; 96]%N) 6 0 17)) (mkPtok 40 "," 7 6 18)))); (mkFieldWithAttr (mkSpan (mkPtok 12 "char[" 7 7 19) (mkPtok 40 "," 8 6 24)) [] (MetaField (mkSpan (mkPtok 12 "char[" 7 7 19) (mkPtok 40 "," 8 6 24)) None (mkMetaDecl (mkSpan (mkPtok 12 "char[" 7 7 19) (mkPtok 40 "," 8 6 24)) (TyFixed (mkSpan (mkPtok 12 "char[" 7 7 19) (mkPtok 13 "]" 7 16 21)) (mkFixedString (mkSpan (mkPtok 12 "char[" 7 7 19) (mkPtok 13 "]" 7 16 21)) (mkPtok 12 "char[" 7 7 19) (mkPtok 30 "10" 7 13 20) (mkPtok 13 "]" 7 16 21))) (mkPtok 42 "repeatCount" 7 18 22) (Some (mkPtok 43 (string_of_bytes [96; 108; 105; 110; 101; 49; 10; 108; 105; 110; 101; 50; 96]%N) 7 30 23)) (mkPtok 40 "," 8 6 24))))] (mkPtok 3 "}" 8 8 25)))])).
Eval vm_compute in ("<<<M1949>>>" ++ check (runes_of_ascii "
MetaData
A
{	float32 f32a ,} 	 ")).
Eval vm_compute in ("<<<M1981>>>" ++ check (runes_of_ascii "//x
options  {// trailing space 
}packet crc {
@tag( //
4294967296 ) u8x
@lengthOf(
u8x
)`// not a comment` // @lengthOf(
, @lengthOf(
leftPad)
repeat i8 f32a,
//x
/// triple
repeat roots string_ `" ++ [233]%N ++ runes_of_ascii "`  , @lengthOf(f32a
)
    char[]
// `tick` ""quote"" 'q'
// " ++ [27880; 37322]%N ++ runes_of_ascii "
x @calculatedFrom(	""\n"") `crlf
line`
,
u32
    asx @lengthOf( BodyLength ) , repeat string zchar
`say ""hi""`	,
calculatedFrom @lengthOf(
packetx ) `it's` ,@calculatedFrom( ""abc"" ) repeat char[] int ,	chars @lengthOf( msg_type )
,
@tag(
7
    ) char[ 1 ] body ,} // @lengthOf(")).
Eval vm_compute in ("<<<M2013>>>" ++ check (@nil rune)).
Eval vm_compute in ("<<<M2045>>>" ++ check (runes_of_ascii "options{ i64_ = string ; trueish = =
    '\x00'
    leftPad = ""a\\"" /// triple
; crc
    = 255; uint8x
=
""abc""
    ;}")).
Eval vm_compute in ("<<<M2077>>>" ++ check (runes_of_ascii "options{ i64_ = string ; trueish =
    '\x00'
    leftPad = ""a\\"" /// triple
; i64
    = 255; uint8x
=
""abc""
    ;}")).
Eval vm_compute in ("<<<M2109>>>" ++ check (runes_of_ascii "options{ i64_ = string ; trueish =
    '\x00'
    leftPad = ""a\\"" /// triple
; crc
    = 255; uint8x
=
""abc""
    }")).
Eval vm_compute in ("<<<T2109>>>" ++ terms [mkTok 1 "options" 1 0 false; mkTok 2 "{" 1 7 false; mkTok 42 "i64_" 1 9 false; mkTok 4 "=" 1 14 false; mkTok 15 "string" 1 16 false; mkTok 41 ";" 1 23 false; mkTok 42 "trueish" 1 25 false; mkTok 4 "=" 1 33 false; mkTok 33 "'\x00'" 2 4 false; mkTok 42 "leftPad" 3 4 false; mkTok 4 "=" 3 12 false; mkTok 31 """a\\""" 3 14 false; mkTok 44 "/// triple" 3 20 true; mkTok 41 ";" 4 0 false; mkTok 42 "crc" 4 2 false; mkTok 4 "=" 5 4 false; mkTok 30 "255" 5 6 false; mkTok 41 ";" 5 9 false; mkTok 42 "uint8x" 5 11 false; mkTok 4 "=" 6 0 false; mkTok 31 """abc""" 7 0 false; mkTok 3 "}" 8 4 false; mkTok 0 "<EOF>" 8 5 false] (mkPacket (mkPtok 1 "options" 1 0 0) (Some (mkPtok 3 "}" 8 4 21)) [(DOption (mkOptionDef (mkSpan (mkPtok 1 "options" 1 0 0) (mkPtok 3 "}" 8 4 21)) (mkPtok 1 "options" 1 0 0) (mkPtok 2 "{" 1 7 1) [(mkOptionDecl (mkSpan (mkPtok 42 "i64_" 1 9 2) (mkPtok 41 ";" 1 23 5)) (mkPtok 42 "i64_" 1 9 2) (mkPtok 4 "=" 1 14 3) (VType (mkSpan (mkPtok 15 "string" 1 16 4) (mkPtok 15 "string" 1 16 4)) (TyDynamic (mkSpan (mkPtok 15 "string" 1 16 4) (mkPtok 15 "string" 1 16 4)) (mkDynamicString (mkSpan (mkPtok 15 "string" 1 16 4) (mkPtok 15 "string" 1 16 4)) (mkPtok 15 "string" 1 16 4)))) (Some (mkPtok 41 ";" 1 23 5))); (mkOptionDecl (mkSpan (mkPtok 42 "trueish" 1 25 6) (mkPtok 33 "'\x00'" 2 4 8)) (mkPtok 42 "trueish" 1 25 6) (mkPtok 4 "=" 1 33 7) (VPaddingChar (mkSpan (mkPtok 33 "'\x00'" 2 4 8) (mkPtok 33 "'\x00'" 2 4 8)) (mkPtok 33 "'\x00'" 2 4 8)) None); (mkOptionDecl (mkSpan (mkPtok 42 "leftPad" 3 4 9) (mkPtok 41 ";" 4 0 13)) (mkPtok 42 "leftPad" 3 4 9) (mkPtok 4 "=" 3 12 10) (VString (mkSpan (mkPtok 31 """a\\""" 3 14 11) (mkPtok 31 """a\\""" 3 14 11)) (mkPtok 31 """a\\""" 3 14 11)) (Some (mkPtok 41 ";" 4 0 13))); (mkOptionDecl (mkSpan (mkPtok 42 "crc" 4 2 14) (mkPtok 41 ";" 5 9 17)) (mkPtok 42 "crc" 4 2 14) (mkPtok 4 "=" 5 4 15) (VDigits (mkSpan (mkPtok 30 "255" 5 6 16) (mkPtok 30 "255" 5 6 16)) (mkPtok 30 "255" 5 6 16)) (Some (mkPtok 41 ";" 5 9 17))); (mkOptionDecl (mkSpan (mkPtok 42 "uint8x" 5 11 18) (mkPtok 31 """abc""" 7 0 20)) (mkPtok 42 "uint8x" 5 11 18) (mkPtok 4 "=" 6 0 19) (VString (mkSpan (mkPtok 31 """abc""" 7 0 20) (mkPtok 31 """abc""" 7 0 20)) (mkPtok 31 """abc""" 7 0 20)) None)] (mkPtok 3 "}" 8 4 21)))])).
Eval vm_compute in ("<<<M2141>>>" ++ check (runes_of_ascii "  packet packet
asx
{
/// triple
// @lengthOf(
u32 stringy
`" ++ [28040; 24687; 31867; 22411]%N ++ runes_of_ascii "` ,} MetaData
    A {string  _x, zchar Header `a\`
// @lengthOf(
// packet A { u8 x, }
, char[] MetaDataX
,zchar[ 1 ]
    matchKey
    , char[] //
u,	char[0123456789 ]
    matchKey
    `{ , }`, }
")).
Eval vm_compute in ("<<<M2173>>>" ++ check (runes_of_ascii "  packet
asx
{
/// triple
// @lengthOf(
u32 stringy
`" ++ [28040; 24687; 31867; 22411]%N ++ runes_of_ascii "` )} MetaData
    A {string  _x, zchar Header `a\`
// @lengthOf(
// packet A { u8 x, }
, char[] MetaDataX
,zchar[ 1 ]
    matchKey
    , char[] //
u,	char[0123456789 ]
    matchKey
    `{ , }`, }
")).
Eval vm_compute in ("<<<M2205>>>" ++ check (runes_of_ascii "  packet
asx
{
/// triple
// @lengthOf(
u32 stringy
`" ++ [28040; 24687; 31867; 22411]%N ++ runes_of_ascii "` ,} MetaData
    A {string  _x zchar Header `a\`
// @lengthOf(
// packet A { u8 x, }
, char[] MetaDataX
,zchar[ 1 ]
    matchKey
    , char[] //
u,	char[0123456789 ]
    matchKey
    `{ , }`, }
")).
Eval vm_compute in ("<<<M2237>>>" ++ check (runes_of_ascii "  packet
asx
{
/// triple
// @lengthOf(
u32 stringy
`" ++ [28040; 24687; 31867; 22411]%N ++ runes_of_ascii "` ,} MetaData
    A {string  _x, zchar Header `a\`
// @lengthOf(
// packet A { u8 x, }
, char[] ,
MetaDataX zchar[ 1 ]
    matchKey
    , char[] //
u,	char[0123456789 ]
    matchKey
    `{ , }`, }
")).
Eval vm_compute in ("<<<M2269>>>" ++ check (runes_of_ascii "  packet
asx
{
/// triple
// @lengthOf(
u32 stringy
`" ++ [28040; 24687; 31867; 22411]%N ++ runes_of_ascii "` ,} MetaData
    A {string  _x, zchar Header `a\`
// @lengthOf(
// packet A { u8 x, }
, char[] MetaDataX
,zchar[ 1 ]
    matchKey")).
Eval vm_compute in ("<<<M2301>>>" ++ check (runes_of_ascii "  packet
asx
{
/// triple
// @lengthOf(
u32 stringy
`" ++ [28040; 24687; 31867; 22411]%N ++ runes_of_ascii "` ,} MetaData
    A {string  _x, zchar Header `a\`
// @lengthOf(
// packet A { u8 x, }
, char[] MetaDataX
,zchar[ 1 ]
    matchKey
    , char[] //
u,	char[0123456789 ]
    matchKey matchKey
    `{ , }`, }
")).
Eval vm_compute in ("<<<M2333>>>" ++ check (runes_of_ascii "  packet
asx
{
/// triple
// @lengthOf(
u32 stringy
`" ++ [28040; 24687; 31867; 22411]%N ++ runes_of_ascii "` ,} MetaData
    A {string  _x, zchar Header `a\`
// @lengthOf(
// packet A { u8 x, }
, char[] MetaDataX
,zchar[ 1 ]
    matchKey
    , char[] //
u,	char[0123456789 ]
    matchKey
    `{ , @leftpad}`, }
")).
Eval vm_compute in ("<<<T2333>>>" ++ terms [mkTok 35 "packet" 1 2 false; mkTok 42 "asx" 2 0 false; mkTok 2 "{" 3 0 false; mkTok 44 "/// triple" 4 0 true; mkTok 44 "// @lengthOf(" 5 0 true; mkTok 22 "u32" 6 0 false; mkTok 42 "stringy" 6 4 false; mkTok 43 (string_of_bytes [96; 230; 182; 136; 230; 129; 175; 231; 177; 187; 229; 158; 139; 96]%N) 7 0 false; mkTok 40 "," 7 7 false; mkTok 3 "}" 7 8 false; mkTok 37 "MetaData" 7 10 false; mkTok 42 "A" 8 4 false; mkTok 2 "{" 8 6 false; mkTok 15 "string" 8 7 false; mkTok 42 "_x" 8 15 false; mkTok 40 "," 8 17 false; mkTok 42 "zchar" 8 19 false; mkTok 42 "Header" 8 25 false; mkTok 43 "`a\`" 8 32 false; mkTok 44 "// @lengthOf(" 9 0 true; mkTok 44 "// packet A { u8 x, }" 10 0 true; mkTok 40 "," 11 0 false; mkTok 16 "char[]" 11 2 false; mkTok 42 "MetaDataX" 11 9 false; mkTok 40 "," 12 0 false; mkTok 14 "zchar[" 12 1 false; mkTok 30 "1" 12 8 false; mkTok 13 "]" 12 10 false; mkTok 42 "matchKey" 13 4 false; mkTok 40 "," 14 4 false; mkTok 16 "char[]" 14 6 false; mkTok 44 "//" 14 13 true; mkTok 42 "u" 15 0 false; mkTok 40 "," 15 1 false; mkTok 12 "char[" 15 3 false; mkTok 30 "0123456789" 15 8 false; mkTok 13 "]" 15 19 false; mkTok 42 "matchKey" 16 4 false; mkTok 43 "`{ , @leftpad}`" 17 4 false; mkTok 40 "," 17 19 false; mkTok 3 "}" 17 21 false; mkTok 0 "<EOF>" 18 0 false] (mkPacket (mkPtok 35 "packet" 1 2 0) (Some (mkPtok 3 "}" 17 21 40)) [(DPacket (mkPacketDef (mkSpan (mkPtok 35 "packet" 1 2 0) (mkPtok 3 "}" 7 8 9)) None (mkPtok 35 "packet" 1 2 0) (mkPtok 42 "asx" 2 0 1) (mkPtok 2 "{" 3 0 2) [(mkFieldWithAttr (mkSpan (mkPtok 22 "u32" 6 0 5) (mkPtok 40 "," 7 7 8)) [] (MetaField (mkSpan (mkPtok 22 "u32" 6 0 5) (mkPtok 40 "," 7 7 8)) None (mkMetaDecl (mkSpan (mkPtok 22 "u32" 6 0 5) (mkPtok 40 "," 7 7 8)) (TyBasic (mkSpan (mkPtok 22 "u32" 6 0 5) (mkPtok 22 "u32" 6 0 5)) (mkBasicType (mkSpan (mkPtok 22 "u32" 6 0 5) (mkPtok 22 "u32" 6 0 5)) (mkPtok 22 "u32" 6 0 5))) (mkPtok 42 "stringy" 6 4 6) (Some (mkPtok 43 (string_of_bytes [96; 230; 182; 136; 230; 129; 175; 231; 177; 187; 229; 158; 139; 96]%N) 7 0 7)) (mkPtok 40 "," 7 7 8))))] (mkPtok 3 "}" 7 8 9))); (DMeta (mkMetaDef (mkSpan (mkPtok 37 "MetaData" 7 10 10) (mkPtok 3 "}" 17 21 40)) (mkPtok 37 "MetaData" 7 10 10) (mkPtok 42 "A" 8 4 11) (mkPtok 2 "{" 8 6 12) [(MIDecl (mkMetaDecl (mkSpan (mkPtok 15 "string" 8 7 13) (mkPtok 40 "," 8 17 15)) (TyDynamic (mkSpan (mkPtok 15 "string" 8 7 13) (mkPtok 15 "string" 8 7 13)) (mkDynamicString (mkSpan (mkPtok 15 "string" 8 7 13) (mkPtok 15 "string" 8 7 13)) (mkPtok 15 "string" 8 7 13))) (mkPtok 42 "_x" 8 15 14) None (mkPtok 40 "," 8 17 15))); (MIRef (mkRefMetaDecl (mkSpan (mkPtok 42 "zchar" 8 19 16) (mkPtok 40 "," 11 0 21)) (mkPtok 42 "zchar" 8 19 16) (mkPtok 42 "Header" 8 25 17) (Some (mkPtok 43 "`a\`" 8 32 18)) (mkPtok 40 "," 11 0 21))); (MIDecl (mkMetaDecl (mkSpan (mkPtok 16 "char[]" 11 2 22) (mkPtok 40 "," 12 0 24)) (TyDynamic (mkSpan (mkPtok 16 "char[]" 11 2 22) (mkPtok 16 "char[]" 11 2 22)) (mkDynamicString (mkSpan (mkPtok 16 "char[]" 11 2 22) (mkPtok 16 "char[]" 11 2 22)) (mkPtok 16 "char[]" 11 2 22))) (mkPtok 42 "MetaDataX" 11 9 23) None (mkPtok 40 "," 12 0 24))); (MIDecl (mkMetaDecl (mkSpan (mkPtok 14 "zchar[" 12 1 25) (mkPtok 40 "," 14 4 29)) (TyFixed (mkSpan (mkPtok 14 "zchar[" 12 1 25) (mkPtok 13 "]" 12 10 27)) (mkFixedString (mkSpan (mkPtok 14 "zchar[" 12 1 25) (mkPtok 13 "]" 12 10 27)) (mkPtok 14 "zchar[" 12 1 25) (mkPtok 30 "1" 12 8 26) (mkPtok 13 "]" 12 10 27))) (mkPtok 42 "matchKey" 13 4 28) None (mkPtok 40 "," 14 4 29))); (MIDecl (mkMetaDecl (mkSpan (mkPtok 16 "char[]" 14 6 30) (mkPtok 40 "," 15 1 33)) (TyDynamic (mkSpan (mkPtok 16 "char[]" 14 6 30) (mkPtok 16 "char[]" 14 6 30)) (mkDynamicString (mkSpan (mkPtok 16 "char[]" 14 6 30) (mkPtok 16 "char[]" 14 6 30)) (mkPtok 16 "char[]" 14 6 30))) (mkPtok 42 "u" 15 0 32) None (mkPtok 40 "," 15 1 33))); (MIDecl (mkMetaDecl (mkSpan (mkPtok 12 "char[" 15 3 34) (mkPtok 40 "," 17 19 39)) (TyFixed (mkSpan (mkPtok 12 "char[" 15 3 34) (mkPtok 13 "]" 15 19 36)) (mkFixedString (mkSpan (mkPtok 12 "char[" 15 3 34) (mkPtok 13 "]" 15 19 36)) (mkPtok 12 "char[" 15 3 34) (mkPtok 30 "0123456789" 15 8 35) (mkPtok 13 "]" 15 19 36))) (mkPtok 42 "matchKey" 16 4 37) (Some (mkPtok 43 "`{ , @leftpad}`" 17 4 38)) (mkPtok 40 "," 17 19 39)))] (mkPtok 3 "}" 17 21 40)))])).
Eval vm_compute in ("<<<M2365>>>" ++ check (runes_of_ascii "root
    packet
Packet
{")).
Eval vm_compute in ("<<<M2397>>>" ++ check (runes_of_ascii "root
    packet
Packet
{ // trailing space 
matchKey `tab	here` % ,}")).
Eval vm_compute in ("<<<M2429>>>" ++ check (runes_of_ascii "options{ falsey // a // b
=
    '0' options } { repeatCount =
true ; string_// a // b
=
// c
// " ++ [27880; 37322]%N ++ runes_of_ascii "
int64
// trailing space 
/// triple
; } // @lengthOf(")).
Eval vm_compute in ("<<<M2461>>>" ++ check (runes_of_ascii "options{ falsey // a // b
=
    '0' } options { repeatCount =
true")).
Eval vm_compute in ("<<<M2493>>>" ++ check (runes_of_ascii "options{ falsey // a // b
\ =
    '0' } options { repeatCount =
true ; string_// a // b
=
// c
// " ++ [27880; 37322]%N ++ runes_of_ascii "
int64
// trailing space 
/// triple
; } // @lengthOf(")).
Eval vm_compute in ("<<<M2525>>>" ++ check (runes_of_ascii "options{}packet root
metadata {
@lengthOf(x ) float32
body ``, }
    MetaData
Z9_
    {
    string string_ , Logon x
,
uint32
    // packet A { u8 x, }
    Z9_,asx
_x
    `tab	here` , }
")).
Eval vm_compute in ("<<<M2557>>>" ++ check (runes_of_ascii "options{}root packet
metadata {
@lengthOf(x")).
Eval vm_compute in ("<<<M2589>>>" ++ check (runes_of_ascii "options{}root packet
metadata {
@lengthOf(x ) float32
body ``, }
    MetaData
Z9_ Z9_
    {
    string string_ , Logon x
,
uint32
    // packet A { u8 x, }
    Z9_,asx
_x
    `tab	here` , }
")).
Eval vm_compute in ("<<<M2621>>>" ++ check (runes_of_ascii "options{}root packet
metadata {
@lengthOf(x ) float32
body ``, }
    MetaData
Z9_
    {
    string string_ , Logon float32
,
uint32
    // packet A { u8 x, }
    Z9_,asx
_x
    `tab	here` , }
")).
Eval vm_compute in ("<<<M2653>>>" ++ check (runes_of_ascii "options{}root packet
metadata {
@lengthOf(x ) float32
body ``, }
    MetaData
Z9_
    {
    string string_ , Logon x
,
uint32
    // packet A { u8 x, }
    Z9_,asx
_x
     , }
")).
Eval vm_compute in ("<<<M2685>>>" ++ check (runes_of_ascii "options{}root packet
'1'metadata {
@lengthOf(x ) float32
body ``, }
    MetaData
Z9_
    {
    string string_ , Logon x
,
uint32
    // packet A { u8 x, }
    Z9_,asx
_x
    `tab	here` , }
")).
Eval vm_compute in ("<<<M2717>>>" ++ check (runes_of_ascii "options {
    falsey=
""a\\"" = }")).
Eval vm_compute in ("<<<M2749>>>" ++ check (@nil rune)).
Eval vm_compute in ("<<<M2781>>>" ++ check (runes_of_ascii "MetaData f32a
{
    //	t
    }root
    packet tag  { {
}
")).
Eval vm_compute in ("<<<M2813>>>" ++ check (runes_of_ascii "
{
    options msg_type =
    float32  }root
packet Z9_{ char /// triple
crc @lengthOf(
options1 ) //
,} MetaData a1{}
")).
Eval vm_compute in ("<<<M2845>>>" ++ check (runes_of_ascii "
options
    {msg_type =
    float32  }")).
Eval vm_compute in ("<<<M2877>>>" ++ check (runes_of_ascii "
options
    {msg_type =
    float32  }root
packet Z9_{ char /// triple
crc @lengthOf(
options1 options1 ) //
,} MetaData a1{}
")).
Eval vm_compute in ("<<<M2909>>>" ++ check (runes_of_ascii "
options
    {msg_type =
    float32  }root
packet Z9_{ char /// triple
crc @lengthOf(
options1 ) //
,} MetaData a1 char[}
")).
Eval vm_compute in ("<<<M2941>>>" ++ check (@nil rune)).
Eval vm_compute in ("<<<M2973>>>" ++ check (runes_of_ascii "packet crc{ // " ++ [128512]%N ++ runes_of_ascii " emoji
repeat string i8i8
`a\`, , }
")).
Eval vm_compute in ("<<<M3005>>>" ++ check (runes_of_ascii "BodyLength packet {} MetaData zchar{ zchar[// @lengthOf(
42 ]
    pack , string_
A , char[]crc , _x trueish ,
// " ++ [27880; 37322]%N ++ runes_of_ascii "
// " ++ [128512]%N ++ runes_of_ascii " emoji
zchar[
    3 ]	T // trailing space 
, } packet body
{
    }
")).
Eval vm_compute in ("<<<M3037>>>" ++ check (runes_of_ascii "packet BodyLength {} MetaData zchar")).
Eval vm_compute in ("<<<M3069>>>" ++ check (runes_of_ascii "packet BodyLength {} MetaData zchar{ zchar[// @lengthOf(
42 ]
    pack , string_
A A , char[]crc , _x trueish ,
// " ++ [27880; 37322]%N ++ runes_of_ascii "
// " ++ [128512]%N ++ runes_of_ascii " emoji
zchar[
    3 ]	T // trailing space 
, } packet body
{
    }
")).
Eval vm_compute in ("<<<M3101>>>" ++ check (runes_of_ascii "packet BodyLength {} MetaData zchar{ zchar[// @lengthOf(
42 ]
    pack , string_
A , char[]crc , _x [ ,
// " ++ [27880; 37322]%N ++ runes_of_ascii "
// " ++ [128512]%N ++ runes_of_ascii " emoji
zchar[
    3 ]	T // trailing space 
, } packet body
{
    }
")).
Eval vm_compute in ("<<<M3133>>>" ++ check (runes_of_ascii "packet BodyLength {} MetaData zchar{ zchar[// @lengthOf(
42 ]
    pack , string_
A , char[]crc , _x trueish ,
// " ++ [27880; 37322]%N ++ runes_of_ascii "
// " ++ [128512]%N ++ runes_of_ascii " emoji
zchar[
    3 ]	T // trailing space 
,  packet body
{
    }
")).
Eval vm_compute in ("<<<M3165>>>" ++ check (runes_of_ascii "packet BodyLength {} MetaData zchar{ zchar[// @lengthOf(
42 ]
    pack , string_
A , char[]crc , _x trueish ,
// " ++ [27880; 37322]%N ++ runes_of_ascii "
// " ++ [128512]%N ++ runes_of_ascii " emoji
zchar[
    3 ]	T // trailing space 
, } pa/cket body
{
    }
")).
Eval vm_compute in ("<<<M3197>>>" ++ check (runes_of_ascii "packet
string_ {@calculatedFrom( int ) match packetx as f32a {
    1 :	calculatedFrom , }  ,
    } packet len
    //	t
    { @calculatedFrom( """ ++ [233]%N ++ runes_of_ascii "t" ++ [233]%N ++ runes_of_ascii """ ) body Header , char[] lengthOf  `two words` ,chars{repeat string_ matchKey ,
    } ,
    }
")).
Eval vm_compute in ("<<<M3229>>>" ++ check (runes_of_ascii "packet
string_ {@lengthOf( int ) match packetx as f32a 
    1 :	calculatedFrom , }  ,
    } packet len
    //	t
    { @calculatedFrom( """ ++ [233]%N ++ runes_of_ascii "t" ++ [233]%N ++ runes_of_ascii """ ) body Header , char[] lengthOf  `two words` ,chars{repeat string_ matchKey ,
    } ,
    }
")).
Eval vm_compute in ("<<<M3261>>>" ++ check (runes_of_ascii "packet
string_ {@lengthOf( int ) match packetx as f32a {
    1 :	calculatedFrom , }  }
    , packet len
    //	t
    { @calculatedFrom( """ ++ [233]%N ++ runes_of_ascii "t" ++ [233]%N ++ runes_of_ascii """ ) body Header , char[] lengthOf  `two words` ,chars{repeat string_ matchKey ,
    } ,
    }
")).
Eval vm_compute in ("<<<M3293>>>" ++ check (runes_of_ascii "packet
string_ {@lengthOf( int ) match packetx as f32a {
    1 :	calculatedFrom , }  ,
    } packet len
    //	t
    { @calculatedFrom(")).
Eval vm_compute in ("<<<M3325>>>" ++ check (runes_of_ascii "packet
string_ {@lengthOf( int ) match packetx as f32a {
    1 :	calculatedFrom , }  ,
    } packet len
    //	t
    { @calculatedFrom( """ ++ [233]%N ++ runes_of_ascii "t" ++ [233]%N ++ runes_of_ascii """ ) body Header , char[] lengthOf  `two words` `two words` ,chars{repeat string_ matchKey ,
    } ,
    }
")).
Eval vm_compute in ("<<<M3357>>>" ++ check (runes_of_ascii "packet
string_ {@lengthOf( int ) match packetx as f32a {
    1 :	calculatedFrom , }  ,
    } packet len
    //	t
    { @calculatedFrom( """ ++ [233]%N ++ runes_of_ascii "t" ++ [233]%N ++ runes_of_ascii """ ) body Header , char[] lengthOf  `two words` ,chars{repeat string_ u32 ,
    } ,
    }
")).
Eval vm_compute in ("<<<M3389>>>" ++ check (runes_of_ascii "packet
string_ {@lengthOf( int ) match packetx as f32a {
    1 :	calculatedFrom , }  ,
    } packet len
    //	t
    { @calculatedFrom( """ ++ [233]%N ++ runes_of_ascii "t" ++ [233]%N ++ runes_of_ascii """ ) body Header , char[] lengthOf  `two words` ,chars{repeat '\x01' string_ matchKey ,
    } ,
    }
")).
Eval vm_compute in ("<<<M3421>>>" ++ check (runes_of_ascii "/// triple
root
packet // packet A { u8 x, }
chars { @lengthOf(charz )
stringy,  @tag(  0 ) // a // b
asx
    As
@lengthOf(
// trailing space 
// trailing space 
x_y_z {
repeat i16 charz , } ,	int16  crc ,}
")).
Eval vm_compute in ("<<<M3453>>>" ++ check (runes_of_ascii "/// triple
root
packet // packet A { u8 x, }
chars { @lengthOf(charz )
stringy,  @tag(  0  // a // b
asx
    As
,
// trailing space 
// trailing space 
x_y_z {
repeat i16 charz , } ,	int16  crc ,}
")).
Eval vm_compute in ("<<<M3485>>>" ++ check (runes_of_ascii "/// triple
root
packet // packet A { u8 x, }
chars { @lengthOf(charz )")).
Eval vm_compute in ("<<<M3517>>>" ++ check (runes_of_ascii "asx")).
Eval vm_compute in ("<<<M3549>>>" ++ check (runes_of_ascii "@leftPadx")).
Eval vm_compute in ("<<<M3581>>>" ++ check (runes_of_ascii """a\b""")).
Eval vm_compute in ("<<<M3613>>>" ++ check (runes_of_ascii "a
b")).
Eval vm_compute in ("<<<M3645>>>" ++ check (runes_of_ascii "packet A { char[ x ] y, }")).
Eval vm_compute in ("<<<M3677>>>" ++ check (runes_of_ascii "packet A { match k as n { [1,""a"",2] : B, }, }")).
Eval vm_compute in ("<<<M3709>>>" ++ check (runes_of_ascii "root options { }")).
Eval vm_compute in ("<<<M3741>>>" ++ check (runes_of_ascii "options { a = 1; } options { a = 1; }")).
Eval vm_compute in ("<<<M3773>>>" ++ check (runes_of_ascii ".tD Mnu'g/.}>q1p]n9,uB")).
Eval vm_compute in ("<<<M3805>>>" ++ check (runes_of_ascii "0Z3<4fse<s[m},X2orm*f^!KlnY,b+oEX9$")).
Eval vm_compute in ("<<<M3837>>>" ++ check (runes_of_ascii "Wn\sz6HV$t=Sr@^8")).
Eval vm_compute in ("<<<M3869>>>" ++ check (runes_of_ascii "dQR5D*DVQ*OeMIS7pUcyRUV|.FQefis")).
Eval vm_compute in ("<<<M3901>>>" ++ check (runes_of_ascii "HrbO>")).
Eval vm_compute in ("<<<M3933>>>" ++ check (runes_of_ascii "dR9[@ LH:""Z5{~?>G<aH!jZz$QbneO8RJdx")).
Eval vm_compute in ("<<<M3965>>>" ++ check (runes_of_ascii "na~!hvAE`[9m{,.fDyrP~@4%*.vf-wLy ")).
Eval vm_compute in ("<<<M3997>>>" ++ check (runes_of_ascii "F;!=@\hzu")).
