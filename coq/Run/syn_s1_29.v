From FP Require Import Lexer Parser ShowPT Digest.
From Coq Require Import String List NArith.
Import ListNotations.
Open Scope string_scope.
Set Printing Width 100000000.
Set Printing Depth 100000000.
Definition nl : string := String (Ascii.ascii_of_nat 10) EmptyString.
Definition model_lex (rs : list rune) : string := show_toks (lex rs).
Definition model_parse (rs : list rune) : string :=
  show_pt (match lex rs with Some ts => parse ts | None => None end).
(* coqc is slow at printing long strings: digests first (Digest.v), full texts on demand *)
Definition check (rs : list rune) : string :=
  digest (model_lex rs) ++ " " ++ digest (model_parse rs).
Definition full (rs : list rune) : string := model_lex rs ++ nl ++ model_parse rs.
Definition terms (ts : list tok) (t : pt) : string :=
  digest (show_toks (Some ts)) ++ " " ++ digest (show_pt (Some t)) ++ " " ++ digest (show_pt (parse ts)).
Definition terms_full (ts : list tok) (t : pt) : string :=
  show_toks (Some ts) ++ nl ++ show_pt (Some t) ++ nl ++ show_pt (parse ts).
Eval vm_compute in ("<<<M29>>>" ++ check (runes_of_ascii " 	 ")).
Eval vm_compute in ("<<<M61>>>" ++ check (runes_of_ascii " // @lengthOf(")).
Eval vm_compute in ("<<<M93>>>" ++ check (runes_of_ascii "// c
root /// triple
packet Pad
    {
    }
")).
Eval vm_compute in ("<<<M125>>>" ++ check (runes_of_ascii "packet zchar { @tag( 65535 ) @tag(
10 ) charz , char[] MetaDataX
@calculatedFrom( ""x y"" )	`line1
line2` ,
    } 	 ")).
Eval vm_compute in ("<<<T125>>>" ++ terms [mkTok 35 "packet" 1 0 false; mkTok 42 "zchar" 1 7 false; mkTok 2 "{" 1 13 false; mkTok 9 "@tag(" 1 15 false; mkTok 30 "65535" 1 21 false; mkTok 6 ")" 1 27 false; mkTok 9 "@tag(" 1 29 false; mkTok 30 "10" 2 0 false; mkTok 6 ")" 2 3 false; mkTok 42 "charz" 2 5 false; mkTok 40 "," 2 11 false; mkTok 16 "char[]" 2 13 false; mkTok 42 "MetaDataX" 2 20 false; mkTok 5 "@calculatedFrom(" 3 0 false; mkTok 31 """x y""" 3 17 false; mkTok 6 ")" 3 23 false; mkTok 43 (string_of_bytes [96; 108; 105; 110; 101; 49; 10; 108; 105; 110; 101; 50; 96]%N) 3 25 false; mkTok 40 "," 4 7 false; mkTok 3 "}" 5 4 false; mkTok 0 "<EOF>" 5 8 false] (mkPacket (mkPtok 35 "packet" 1 0 0) (Some (mkPtok 3 "}" 5 4 18)) [(DPacket (mkPacketDef (mkSpan (mkPtok 35 "packet" 1 0 0) (mkPtok 3 "}" 5 4 18)) None (mkPtok 35 "packet" 1 0 0) (mkPtok 42 "zchar" 1 7 1) (mkPtok 2 "{" 1 13 2) [(mkFieldWithAttr (mkSpan (mkPtok 9 "@tag(" 1 15 3) (mkPtok 40 "," 2 11 10)) [(FATag (mkSpan (mkPtok 9 "@tag(" 1 15 3) (mkPtok 6 ")" 1 27 5)) (mkTagAttr (mkSpan (mkPtok 9 "@tag(" 1 15 3) (mkPtok 6 ")" 1 27 5)) (mkPtok 9 "@tag(" 1 15 3) (mkPtok 30 "65535" 1 21 4) (mkPtok 6 ")" 1 27 5))); (FATag (mkSpan (mkPtok 9 "@tag(" 1 29 6) (mkPtok 6 ")" 2 3 8)) (mkTagAttr (mkSpan (mkPtok 9 "@tag(" 1 29 6) (mkPtok 6 ")" 2 3 8)) (mkPtok 9 "@tag(" 1 29 6) (mkPtok 30 "10" 2 0 7) (mkPtok 6 ")" 2 3 8)))] (ObjectField (mkSpan (mkPtok 42 "charz" 2 5 9) (mkPtok 40 "," 2 11 10)) None (mkPtok 42 "charz" 2 5 9) None None (mkPtok 40 "," 2 11 10))); (mkFieldWithAttr (mkSpan (mkPtok 16 "char[]" 2 13 11) (mkPtok 40 "," 4 7 17)) [] (CheckSumField (mkSpan (mkPtok 16 "char[]" 2 13 11) (mkPtok 40 "," 4 7 17)) (mkChecksumFieldDecl (mkSpan (mkPtok 16 "char[]" 2 13 11) (mkPtok 40 "," 4 7 17)) (Some (TyDynamic (mkSpan (mkPtok 16 "char[]" 2 13 11) (mkPtok 16 "char[]" 2 13 11)) (mkDynamicString (mkSpan (mkPtok 16 "char[]" 2 13 11) (mkPtok 16 "char[]" 2 13 11)) (mkPtok 16 "char[]" 2 13 11)))) (mkPtok 42 "MetaDataX" 2 20 12) (mkCalculatedFrom (mkSpan (mkPtok 5 "@calculatedFrom(" 3 0 13) (mkPtok 6 ")" 3 23 15)) (mkPtok 5 "@calculatedFrom(" 3 0 13) (mkPtok 31 """x y""" 3 17 14) (mkPtok 6 ")" 3 23 15)) (Some (mkPtok 43 (string_of_bytes [96; 108; 105; 110; 101; 49; 10; 108; 105; 110; 101; 50; 96]%N) 3 25 16)) (mkPtok 40 "," 4 7 17))))] (mkPtok 3 "}" 5 4 18)))])).
Eval vm_compute in ("<<<M157>>>" ++ check (runes_of_ascii "packet calculatedFrom {	char matchKey, zchar[
//	t
// `tick` ""quote"" 'q'
7]  x_y_z `// not a comment`
    , @leftPad
( ' ' ) // packet A { u8 x, }
@rightPad // trailing space 
(
    )repeat  Header	`` ,
body  { repeat i32
BodyLength, } , match Foo as//x
pack {
    0
: _x// @lengthOf(
,
    }
    , int64
Foo
`100% of %d`
    // `tick` ""quote"" 'q'
    ,
} packet asx{}options
{ o =007; } packet A
{ }	options { Logon = true}
")).
Eval vm_compute in ("<<<M189>>>" ++ check (runes_of_ascii "options {As	= 007 x
    // a // b
    =
    false ; x_y_z // trailing space 
= ""a\\""
//
// 50% %s
; }
packet BodyLength{
    @tag(  255
)// " ++ [128512]%N ++ runes_of_ascii " emoji
match trueish
    // c
    as Pad {
""a\\"" : calculatedFrom	, ""a	b""//
:leftPad
    } , }
MetaData calculatedFrom{
    char[ 3 ]matchKey , char[ 4294967296  ] matchKey	, o x_y_z
, lengthOf packetx
    `crlf
line`,
// packet A { u8 x, }
//	t
}
")).
Eval vm_compute in ("<<<M221>>>" ++ check (runes_of_ascii "options {// " ++ [27880; 37322]%N ++ runes_of_ascii "
len =
    // a // b
    ""a\\""
    stringy = char[] ; // @lengthOf(
A = 0 ;	len =int64 packetx = ""`tick`"" }")).
Eval vm_compute in ("<<<M253>>>" ++ check (runes_of_ascii "packet calculatedFrom { @leftPad	( /// triple
'\x00') match asx as
x  { 0 :T
,}, roots Pad
, @lengthOf( o) packetx { BodyLength { f64 charz ,
// c
//x
Packet  , repeat A {
Header , } ,repeat
Pad
f32a
    `a\`  , } ,
    repeat options1 , } ,
    @leftPad ( ' ' ) repeat packetx { //
int16 Logon  , } , float32
    rootA	@calculatedFrom( ""a\\""), char[] u	,
tag leftPad `doc`
,@calculatedFrom(	""" ++ [28040; 24687]%N ++ runes_of_ascii """ )
match roots as trueish
{[
    255 ,
""a\""b""
    , ""1""
, ""\n""
,
42 , 42  , 65535 ,
10]
: u8x,[ // trailing space 
""""
, ""CRC32"" ,
3 ,
    255, 0123456789 ,
""packet"", ""a	b""
, """"
]
:leftPad ,
0123456789  : crc
    , ""a\""b"" : Header , 1 :string_ 65535	: a1 } , repeat// `tick` ""quote"" 'q'
crc ,
    }
")).
Eval vm_compute in ("<<<M285>>>" ++ check (runes_of_ascii "
")).
Eval vm_compute in ("<<<M317>>>" ++ check (runes_of_ascii "packet matchKey {
pack { repeat i32 body
    , string
/// triple
// 50% %s
crc
    @lengthOf(
As  )
, } , @lengthOf( len )repeat f64 u// @lengthOf(
, uint8 matchKey
    ,/// triple
@lengthOf(Logon )int32
a1  `crlf
line` ,A@lengthOf( msg_type/// triple
)
,@leftPad ( ' ') asx@lengthOf( tag
    ), u32 crc
`u8 x,` ,//x
char[] Header`// not a comment`// packet A { u8 x, }
,
@rightPad (' ' ) repeat A`a\`	,
}packet repeatCount
    {  } packet lengthOf
//
// @lengthOf(
{
// a // b
// c
match As
//	t
// `tick` ""quote"" 'q'
as
    asx
{ ""CRC32"" : rootA
    ,
""a	b"" : packetx , } , }
root
    packet
matchKey {
    @leftPad (
    '\x00') uint16
trueish
    @lengthOf( i64_ ) `{ , }`
,	@lengthOf(	i64_	) int calculatedFrom ,@leftPad
    //
    ( '0' ) float64 body ,}")).
Eval vm_compute in ("<<<M349>>>" ++ check (runes_of_ascii "
packet uint8x {
    @lengthOf(
// a // b
//x
falsey ) // " ++ [128512]%N ++ runes_of_ascii " emoji
uint32 int , @lengthOf( BodyLength // c
)
    // trailing space 
    @calculatedFrom(
    ""a\""b""
) repeat
matchKey u/// triple
,
    asx MetaDataX `line1
line2` ,
@leftPad ( '\x00'
) repeat i64_ len,
    u, @calculatedFrom(
""abc""	) char[// 50% %s
65535 ]
    MetaDataX
// c
// @lengthOf(
`" ++ [28040; 24687; 31867; 22411]%N ++ runes_of_ascii "`, } 	 ")).
Eval vm_compute in ("<<<T349>>>" ++ terms [mkTok 35 "packet" 2 0 false; mkTok 42 "uint8x" 2 7 false; mkTok 2 "{" 2 14 false; mkTok 7 "@lengthOf(" 3 4 false; mkTok 44 "// a // b" 4 0 true; mkTok 44 "//x" 5 0 true; mkTok 42 "falsey" 6 0 false; mkTok 6 ")" 6 7 false; mkTok 44 (string_of_bytes [47; 47; 32; 240; 159; 152; 128; 32; 101; 109; 111; 106; 105]%N) 6 9 true; mkTok 22 "uint32" 7 0 false; mkTok 42 "int" 7 7 false; mkTok 40 "," 7 11 false; mkTok 7 "@lengthOf(" 7 13 false; mkTok 42 "BodyLength" 7 24 false; mkTok 44 "// c" 7 35 true; mkTok 6 ")" 8 0 false; mkTok 44 "// trailing space " 9 4 true; mkTok 5 "@calculatedFrom(" 10 4 false; mkTok 31 """a\""b""" 11 4 false; mkTok 6 ")" 12 0 false; mkTok 36 "repeat" 12 2 false; mkTok 42 "matchKey" 13 0 false; mkTok 42 "u" 13 9 false; mkTok 44 "/// triple" 13 10 true; mkTok 40 "," 14 0 false; mkTok 42 "asx" 15 4 false; mkTok 42 "MetaDataX" 15 8 false; mkTok 43 (string_of_bytes [96; 108; 105; 110; 101; 49; 10; 108; 105; 110; 101; 50; 96]%N) 15 18 false; mkTok 40 "," 16 7 false; mkTok 32 "@leftPad" 17 0 false; mkTok 8 "(" 17 9 false; mkTok 33 "'\x00'" 17 11 false; mkTok 6 ")" 18 0 false; mkTok 36 "repeat" 18 2 false; mkTok 42 "i64_" 18 9 false; mkTok 42 "len" 18 14 false; mkTok 40 "," 18 17 false; mkTok 42 "u" 19 4 false; mkTok 40 "," 19 5 false; mkTok 5 "@calculatedFrom(" 19 7 false; mkTok 31 """abc""" 20 0 false; mkTok 6 ")" 20 6 false; mkTok 12 "char[" 20 8 false; mkTok 44 "// 50% %s" 20 13 true; mkTok 30 "65535" 21 0 false; mkTok 13 "]" 21 6 false; mkTok 42 "MetaDataX" 22 4 false; mkTok 44 "// c" 23 0 true; mkTok 44 "// @lengthOf(" 24 0 true; mkTok 43 (string_of_bytes [96; 230; 182; 136; 230; 129; 175; 231; 177; 187; 229; 158; 139; 96]%N) 25 0 false; mkTok 40 "," 25 6 false; mkTok 3 "}" 25 8 false; mkTok 0 "<EOF>" 25 12 false] (mkPacket (mkPtok 35 "packet" 2 0 0) (Some (mkPtok 3 "}" 25 8 51)) [(DPacket (mkPacketDef (mkSpan (mkPtok 35 "packet" 2 0 0) (mkPtok 3 "}" 25 8 51)) None (mkPtok 35 "packet" 2 0 0) (mkPtok 42 "uint8x" 2 7 1) (mkPtok 2 "{" 2 14 2) [(mkFieldWithAttr (mkSpan (mkPtok 7 "@lengthOf(" 3 4 3) (mkPtok 40 "," 7 11 11)) [(FALengthOf (mkSpan (mkPtok 7 "@lengthOf(" 3 4 3) (mkPtok 6 ")" 6 7 7)) (mkLengthOf (mkSpan (mkPtok 7 "@lengthOf(" 3 4 3) (mkPtok 6 ")" 6 7 7)) (mkPtok 7 "@lengthOf(" 3 4 3) (mkPtok 42 "falsey" 6 0 6) (mkPtok 6 ")" 6 7 7)))] (MetaField (mkSpan (mkPtok 22 "uint32" 7 0 9) (mkPtok 40 "," 7 11 11)) None (mkMetaDecl (mkSpan (mkPtok 22 "uint32" 7 0 9) (mkPtok 40 "," 7 11 11)) (TyBasic (mkSpan (mkPtok 22 "uint32" 7 0 9) (mkPtok 22 "uint32" 7 0 9)) (mkBasicType (mkSpan (mkPtok 22 "uint32" 7 0 9) (mkPtok 22 "uint32" 7 0 9)) (mkPtok 22 "uint32" 7 0 9))) (mkPtok 42 "int" 7 7 10) None (mkPtok 40 "," 7 11 11)))); (mkFieldWithAttr (mkSpan (mkPtok 7 "@lengthOf(" 7 13 12) (mkPtok 40 "," 14 0 24)) [(FALengthOf (mkSpan (mkPtok 7 "@lengthOf(" 7 13 12) (mkPtok 6 ")" 8 0 15)) (mkLengthOf (mkSpan (mkPtok 7 "@lengthOf(" 7 13 12) (mkPtok 6 ")" 8 0 15)) (mkPtok 7 "@lengthOf(" 7 13 12) (mkPtok 42 "BodyLength" 7 24 13) (mkPtok 6 ")" 8 0 15))); (FACalculatedFrom (mkSpan (mkPtok 5 "@calculatedFrom(" 10 4 17) (mkPtok 6 ")" 12 0 19)) (mkCalculatedFrom (mkSpan (mkPtok 5 "@calculatedFrom(" 10 4 17) (mkPtok 6 ")" 12 0 19)) (mkPtok 5 "@calculatedFrom(" 10 4 17) (mkPtok 31 """a\""b""" 11 4 18) (mkPtok 6 ")" 12 0 19)))] (ObjectField (mkSpan (mkPtok 36 "repeat" 12 2 20) (mkPtok 40 "," 14 0 24)) (Some (mkPtok 36 "repeat" 12 2 20)) (mkPtok 42 "matchKey" 13 0 21) (Some (mkPtok 42 "u" 13 9 22)) None (mkPtok 40 "," 14 0 24))); (mkFieldWithAttr (mkSpan (mkPtok 42 "asx" 15 4 25) (mkPtok 40 "," 16 7 28)) [] (ObjectField (mkSpan (mkPtok 42 "asx" 15 4 25) (mkPtok 40 "," 16 7 28)) None (mkPtok 42 "asx" 15 4 25) (Some (mkPtok 42 "MetaDataX" 15 8 26)) (Some (mkPtok 43 (string_of_bytes [96; 108; 105; 110; 101; 49; 10; 108; 105; 110; 101; 50; 96]%N) 15 18 27)) (mkPtok 40 "," 16 7 28))); (mkFieldWithAttr (mkSpan (mkPtok 32 "@leftPad" 17 0 29) (mkPtok 40 "," 18 17 36)) [(FAPadding (mkSpan (mkPtok 32 "@leftPad" 17 0 29) (mkPtok 6 ")" 18 0 32)) (mkPaddingAttr (mkSpan (mkPtok 32 "@leftPad" 17 0 29) (mkPtok 6 ")" 18 0 32)) (mkPtok 32 "@leftPad" 17 0 29) (mkPtok 8 "(" 17 9 30) (Some (mkPtok 33 "'\x00'" 17 11 31)) (mkPtok 6 ")" 18 0 32)))] (ObjectField (mkSpan (mkPtok 36 "repeat" 18 2 33) (mkPtok 40 "," 18 17 36)) (Some (mkPtok 36 "repeat" 18 2 33)) (mkPtok 42 "i64_" 18 9 34) (Some (mkPtok 42 "len" 18 14 35)) None (mkPtok 40 "," 18 17 36))); (mkFieldWithAttr (mkSpan (mkPtok 42 "u" 19 4 37) (mkPtok 40 "," 19 5 38)) [] (ObjectField (mkSpan (mkPtok 42 "u" 19 4 37) (mkPtok 40 "," 19 5 38)) None (mkPtok 42 "u" 19 4 37) None None (mkPtok 40 "," 19 5 38))); (mkFieldWithAttr (mkSpan (mkPtok 5 "@calculatedFrom(" 19 7 39) (mkPtok 40 "," 25 6 50)) [(FACalculatedFrom (mkSpan (mkPtok 5 "@calculatedFrom(" 19 7 39) (mkPtok 6 ")" 20 6 41)) (mkCalculatedFrom (mkSpan (mkPtok 5 "@calculatedFrom(" 19 7 39) (mkPtok 6 ")" 20 6 41)) (mkPtok 5 "@calculatedFrom(" 19 7 39) (mkPtok 31 """abc""" 20 0 40) (mkPtok 6 ")" 20 6 41)))] (MetaField (mkSpan (mkPtok 12 "char[" 20 8 42) (mkPtok 40 "," 25 6 50)) None (mkMetaDecl (mkSpan (mkPtok 12 "char[" 20 8 42) (mkPtok 40 "," 25 6 50)) (TyFixed (mkSpan (mkPtok 12 "char[" 20 8 42) (mkPtok 13 "]" 21 6 45)) (mkFixedString (mkSpan (mkPtok 12 "char[" 20 8 42) (mkPtok 13 "]" 21 6 45)) (mkPtok 12 "char[" 20 8 42) (mkPtok 30 "65535" 21 0 44) (mkPtok 13 "]" 21 6 45))) (mkPtok 42 "MetaDataX" 22 4 46) (Some (mkPtok 43 (string_of_bytes [96; 230; 182; 136; 230; 129; 175; 231; 177; 187; 229; 158; 139; 96]%N) 25 0 49)) (mkPtok 40 "," 25 6 50))))] (mkPtok 3 "}" 25 8 51)))])).
Eval vm_compute in ("<<<M381>>>" ++ check (runes_of_ascii "
MetaData tag
{ f32 float , char[ 0123456789] a1 , len	metadata`line1
line2` ,
    char[]body ,matchKey A // 50% %s
,
    }
")).
Eval vm_compute in ("<<<M413>>>" ++ check (runes_of_ascii "// c
MetaData tag{char[] u , }
")).
Eval vm_compute in ("<<<M445>>>" ++ check (runes_of_ascii " 	 ")).
Eval vm_compute in ("<<<M477>>>" ++ check (runes_of_ascii "root packet roots { } packet repeatCount
    {f32 lengthOf ,}
packet f32a {
uint64
    lengthOf @lengthOf( Foo ) ,
    @lengthOf( As)/// triple
@tag( 0)match chars
// @lengthOf(
// trailing space 
as // a // b
uint8x{ [ ""x y""
, ""// no comment""	] // 50% %s
:
    // trailing space 
    stringy // " ++ [27880; 37322]%N ++ runes_of_ascii "
,[ 1 ] : A,
""`tick`"" :
// c
/// triple
metadata 10 :
// a // b
//
zchar 007 :  u128, } ,	string_ , x_y_z ``, }
")).
Eval vm_compute in ("<<<M509>>>" ++ check (runes_of_ascii "root packet // `tick` ""quote"" 'q'
Packet
// `tick` ""quote"" 'q'
// `tick` ""quote"" 'q'
{ char i64_,match
crc
    as
trueish
{007
    :pack  ,[""a\\"" , 255 // a // b
] :
a1 , // packet A { u8 x, }
} ,MetaDataX{
char[ 1
]
    Z9_ `100% of %d` ,
    } ,	@calculatedFrom( ""a	b"" ) @tag( 3 // trailing space 
)@tag(42) match stringy  as calculatedFrom
    //	t
    { """ ++ [233]%N ++ runes_of_ascii "t" ++ [233]%N ++ runes_of_ascii """
:
Z9_ , ""\n"":
    uint8x ,[""x y"",
    ""packet"", ""it's""]: repeatCount
    }
, @tag(
65535 )	int16 x `doc` , @leftPad ( '0' )char[]
options1
    , // 50% %s
match len
as // a // b
As	{ [ ""x y""
    , 00 , // " ++ [128512]%N ++ runes_of_ascii " emoji
""it's""
    ,
    ""1"" , // @lengthOf(
10	, ""`tick`""
    , ""// no comment""] :
crc	,
    3:
T,} ,}options{ calculatedFrom = f64 calculatedFrom= '\x00'
; zchar = f32
;
    } packet lengthOf  {i8
leftPad
    ,i8 uint8x @calculatedFrom(
    ""packet"" ) `100% of %d` ,
@calculatedFrom("""" )@tag( 007 )char[ 10
]
    T // @lengthOf(
@calculatedFrom(	""""
) , u8x
    {// " ++ [128512]%N ++ runes_of_ascii " emoji
zchar
    // 50% %s
    @lengthOf( u)  `100% of %d`	,	}
, float // trailing space 
`" ++ [233]%N ++ runes_of_ascii "`,
i64 packetx  , @lengthOf( BodyLength)	string calculatedFrom
    , repeat
    zchar[
00 //
] roots, }packet
    T // packet A { u8 x, }
{ }
//x
")).
Eval vm_compute in ("<<<M541>>>" ++ check (runes_of_ascii "options
{
matchKey =
    ' '; } root packet options1 {  @tag(
    1 // trailing space 
) char[]
repeatCount // a // b
`tab	here` ,
@lengthOf( rootA )
zchar[ 42 //	t
]// c
o,
match Header as
i64_
{[ ""x y"" , ""1"", 3
] : int,""" ++ [128512]%N ++ runes_of_ascii """
: options1, [
    ""abc"" ] // a // b
: body , 65535 : roots
//	t
// a // b
, // " ++ [128512]%N ++ runes_of_ascii " emoji
} , msg_type /// triple
charz ,string f32a
`// not a comment`  ,repeat
int ,
char[
0 ] _x`two words` ,  i16 metadata// packet A { u8 x, }
@lengthOf(  metadata ) `two words`
    ,
    }
MetaData uint8x { len stringy `{ , }`
, } options { u128
=
/// triple
// a // b
00;// `tick` ""quote"" 'q'
Pad =
char[ 7 ] ; calculatedFrom
=
    """ ++ [28040; 24687]%N ++ runes_of_ascii """crc=
    char[]	; Z9_ =	'0';
} packet rootA{
    // a // b
    repeat
    x_y_z
    , }
")).
Eval vm_compute in ("<<<M573>>>" ++ check (runes_of_ascii "root	packet chars { @leftPad('0' ) f32
options1 @lengthOf(
x )
    `it's`  , } packet i8i8{// trailing space 
uint8 //x
body
,zchar[ 65535 ] pack	@lengthOf( leftPad
) , @lengthOf( lengthOf
    ) u8 i8i8 @lengthOf(
f32a ),	}
    packet u8x
    // packet A { u8 x, }
    { }")).
Eval vm_compute in ("<<<T573>>>" ++ terms [mkTok 34 "root" 1 0 false; mkTok 35 "packet" 1 5 false; mkTok 42 "chars" 1 12 false; mkTok 2 "{" 1 18 false; mkTok 32 "@leftPad" 1 20 false; mkTok 8 "(" 1 28 false; mkTok 33 "'0'" 1 29 false; mkTok 6 ")" 1 33 false; mkTok 28 "f32" 1 35 false; mkTok 42 "options1" 2 0 false; mkTok 7 "@lengthOf(" 2 9 false; mkTok 42 "x" 3 0 false; mkTok 6 ")" 3 2 false; mkTok 43 "`it's`" 4 4 false; mkTok 40 "," 4 12 false; mkTok 3 "}" 4 14 false; mkTok 35 "packet" 4 16 false; mkTok 42 "i8i8" 4 23 false; mkTok 2 "{" 4 27 false; mkTok 44 "// trailing space " 4 28 true; mkTok 20 "uint8" 5 0 false; mkTok 44 "//x" 5 6 true; mkTok 42 "body" 6 0 false; mkTok 40 "," 7 0 false; mkTok 14 "zchar[" 7 1 false; mkTok 30 "65535" 7 8 false; mkTok 13 "]" 7 14 false; mkTok 42 "pack" 7 16 false; mkTok 7 "@lengthOf(" 7 21 false; mkTok 42 "leftPad" 7 32 false; mkTok 6 ")" 8 0 false; mkTok 40 "," 8 2 false; mkTok 7 "@lengthOf(" 8 4 false; mkTok 42 "lengthOf" 8 15 false; mkTok 6 ")" 9 4 false; mkTok 20 "u8" 9 6 false; mkTok 42 "i8i8" 9 9 false; mkTok 7 "@lengthOf(" 9 14 false; mkTok 42 "f32a" 10 0 false; mkTok 6 ")" 10 5 false; mkTok 40 "," 10 6 false; mkTok 3 "}" 10 8 false; mkTok 35 "packet" 11 4 false; mkTok 42 "u8x" 11 11 false; mkTok 44 "// packet A { u8 x, }" 12 4 true; mkTok 2 "{" 13 4 false; mkTok 3 "}" 13 6 false; mkTok 0 "<EOF>" 13 7 false] (mkPacket (mkPtok 34 "root" 1 0 0) (Some (mkPtok 3 "}" 13 6 46)) [(DPacket (mkPacketDef (mkSpan (mkPtok 34 "root" 1 0 0) (mkPtok 3 "}" 4 14 15)) (Some (mkPtok 34 "root" 1 0 0)) (mkPtok 35 "packet" 1 5 1) (mkPtok 42 "chars" 1 12 2) (mkPtok 2 "{" 1 18 3) [(mkFieldWithAttr (mkSpan (mkPtok 32 "@leftPad" 1 20 4) (mkPtok 40 "," 4 12 14)) [(FAPadding (mkSpan (mkPtok 32 "@leftPad" 1 20 4) (mkPtok 6 ")" 1 33 7)) (mkPaddingAttr (mkSpan (mkPtok 32 "@leftPad" 1 20 4) (mkPtok 6 ")" 1 33 7)) (mkPtok 32 "@leftPad" 1 20 4) (mkPtok 8 "(" 1 28 5) (Some (mkPtok 33 "'0'" 1 29 6)) (mkPtok 6 ")" 1 33 7)))] (LengthField (mkSpan (mkPtok 28 "f32" 1 35 8) (mkPtok 40 "," 4 12 14)) (mkLengthFieldDecl (mkSpan (mkPtok 28 "f32" 1 35 8) (mkPtok 40 "," 4 12 14)) (Some (TyBasic (mkSpan (mkPtok 28 "f32" 1 35 8) (mkPtok 28 "f32" 1 35 8)) (mkBasicType (mkSpan (mkPtok 28 "f32" 1 35 8) (mkPtok 28 "f32" 1 35 8)) (mkPtok 28 "f32" 1 35 8)))) (mkPtok 42 "options1" 2 0 9) (mkLengthOf (mkSpan (mkPtok 7 "@lengthOf(" 2 9 10) (mkPtok 6 ")" 3 2 12)) (mkPtok 7 "@lengthOf(" 2 9 10) (mkPtok 42 "x" 3 0 11) (mkPtok 6 ")" 3 2 12)) (Some (mkPtok 43 "`it's`" 4 4 13)) (mkPtok 40 "," 4 12 14))))] (mkPtok 3 "}" 4 14 15))); (DPacket (mkPacketDef (mkSpan (mkPtok 35 "packet" 4 16 16) (mkPtok 3 "}" 10 8 41)) None (mkPtok 35 "packet" 4 16 16) (mkPtok 42 "i8i8" 4 23 17) (mkPtok 2 "{" 4 27 18) [(mkFieldWithAttr (mkSpan (mkPtok 20 "uint8" 5 0 20) (mkPtok 40 "," 7 0 23)) [] (MetaField (mkSpan (mkPtok 20 "uint8" 5 0 20) (mkPtok 40 "," 7 0 23)) None (mkMetaDecl (mkSpan (mkPtok 20 "uint8" 5 0 20) (mkPtok 40 "," 7 0 23)) (TyBasic (mkSpan (mkPtok 20 "uint8" 5 0 20) (mkPtok 20 "uint8" 5 0 20)) (mkBasicType (mkSpan (mkPtok 20 "uint8" 5 0 20) (mkPtok 20 "uint8" 5 0 20)) (mkPtok 20 "uint8" 5 0 20))) (mkPtok 42 "body" 6 0 22) None (mkPtok 40 "," 7 0 23)))); (mkFieldWithAttr (mkSpan (mkPtok 14 "zchar[" 7 1 24) (mkPtok 40 "," 8 2 31)) [] (LengthField (mkSpan (mkPtok 14 "zchar[" 7 1 24) (mkPtok 40 "," 8 2 31)) (mkLengthFieldDecl (mkSpan (mkPtok 14 "zchar[" 7 1 24) (mkPtok 40 "," 8 2 31)) (Some (TyFixed (mkSpan (mkPtok 14 "zchar[" 7 1 24) (mkPtok 13 "]" 7 14 26)) (mkFixedString (mkSpan (mkPtok 14 "zchar[" 7 1 24) (mkPtok 13 "]" 7 14 26)) (mkPtok 14 "zchar[" 7 1 24) (mkPtok 30 "65535" 7 8 25) (mkPtok 13 "]" 7 14 26)))) (mkPtok 42 "pack" 7 16 27) (mkLengthOf (mkSpan (mkPtok 7 "@lengthOf(" 7 21 28) (mkPtok 6 ")" 8 0 30)) (mkPtok 7 "@lengthOf(" 7 21 28) (mkPtok 42 "leftPad" 7 32 29) (mkPtok 6 ")" 8 0 30)) None (mkPtok 40 "," 8 2 31)))); (mkFieldWithAttr (mkSpan (mkPtok 7 "@lengthOf(" 8 4 32) (mkPtok 40 "," 10 6 40)) [(FALengthOf (mkSpan (mkPtok 7 "@lengthOf(" 8 4 32) (mkPtok 6 ")" 9 4 34)) (mkLengthOf (mkSpan (mkPtok 7 "@lengthOf(" 8 4 32) (mkPtok 6 ")" 9 4 34)) (mkPtok 7 "@lengthOf(" 8 4 32) (mkPtok 42 "lengthOf" 8 15 33) (mkPtok 6 ")" 9 4 34)))] (LengthField (mkSpan (mkPtok 20 "u8" 9 6 35) (mkPtok 40 "," 10 6 40)) (mkLengthFieldDecl (mkSpan (mkPtok 20 "u8" 9 6 35) (mkPtok 40 "," 10 6 40)) (Some (TyBasic (mkSpan (mkPtok 20 "u8" 9 6 35) (mkPtok 20 "u8" 9 6 35)) (mkBasicType (mkSpan (mkPtok 20 "u8" 9 6 35) (mkPtok 20 "u8" 9 6 35)) (mkPtok 20 "u8" 9 6 35)))) (mkPtok 42 "i8i8" 9 9 36) (mkLengthOf (mkSpan (mkPtok 7 "@lengthOf(" 9 14 37) (mkPtok 6 ")" 10 5 39)) (mkPtok 7 "@lengthOf(" 9 14 37) (mkPtok 42 "f32a" 10 0 38) (mkPtok 6 ")" 10 5 39)) None (mkPtok 40 "," 10 6 40))))] (mkPtok 3 "}" 10 8 41))); (DPacket (mkPacketDef (mkSpan (mkPtok 35 "packet" 11 4 42) (mkPtok 3 "}" 13 6 46)) None (mkPtok 35 "packet" 11 4 42) (mkPtok 42 "u8x" 11 11 43) (mkPtok 2 "{" 13 4 45) [] (mkPtok 3 "}" 13 6 46)))])).
Eval vm_compute in ("<<<M605>>>" ++ check (runes_of_ascii "
options{ //	t
roots =
// c
// " ++ [27880; 37322]%N ++ runes_of_ascii "
65535
; Packet=
""abc"" options1 =
'\x00'
    ;}
    packet pack {
    @tag(
//x
// trailing space 
255  )@calculatedFrom( ""\" ++ [233]%N ++ runes_of_ascii """
// a // b
//
) u {	repeat MetaDataX
_x , char[ // @lengthOf(
255 ]
int @calculatedFrom( ""\n""
)
// a // b
//
,
repeat
    i8 leftPad , match roots as tag { 1	:BodyLength 255 :	asx , ""a\""b""
:matchKey, } , } ,	@rightPad( '\x00' ) u8x u128// `tick` ""quote"" 'q'
`it's` //	t
, @leftPad (
'0' )
//
// " ++ [27880; 37322]%N ++ runes_of_ascii "
charz{ i8 roots
@lengthOf(MetaDataX),  _x float `doc` , x_y_z , } , repeat  string	MetaDataX `" ++ [28040; 24687; 31867; 22411]%N ++ runes_of_ascii "` // " ++ [128512]%N ++ runes_of_ascii " emoji
, @leftPad ( ' ') @tag(	42 )string// " ++ [27880; 37322]%N ++ runes_of_ascii "
BodyLength
@lengthOf(
i8i8 ) ,	BodyLength _x`100% of %d` , } packet rootA { @tag(
3 ) u8 x , // a // b
}
")).
Eval vm_compute in ("<<<M637>>>" ++ check (runes_of_ascii "root
packet
    i8i8	{ } packet u8x {uint8x  o ,
    string_ { tag
    float `crlf
line`
    , } ,
    repeat // " ++ [128512]%N ++ runes_of_ascii " emoji
char[ 7]
stringy `two words` // trailing space 
, }
")).
Eval vm_compute in ("<<<M669>>>" ++ check (runes_of_ascii "options { rootA = string ;
} packet string_ {repeat a1 Packet , }
")).
Eval vm_compute in ("<<<M701>>>" ++ check (runes_of_ascii "options{ charz =// " ++ [128512]%N ++ runes_of_ascii " emoji
false ; body =
//	t
//x
'\x00' ; int = '0' } 	 ")).
Eval vm_compute in ("<<<M733>>>" ++ check (runes_of_ascii "MetaData
    MetaDataX{ char[ 65535 // c
]
falsey  ,
//	t
// @lengthOf(
asx
lengthOf`say ""hi""`,	u8 // `tick` ""quote"" 'q'
metadata , string body`
` // " ++ [128512]%N ++ runes_of_ascii " emoji
,
} MetaData tag
    {
    char[ 007] u8x , x_y_z zchar
    // a // b
    `line1
line2`
, A As ,
}
MetaData msg_type { uint32 pack`tab	here` , }
    options {trueish
    =
false
    i8i8
    = 007 ;
    int
=
char[]
; }")).
Eval vm_compute in ("<<<M765>>>" ++ check (runes_of_ascii "// a // b
packet o { match rootA as
    matchKey {"""" ://
body ,
0 :
    i8i8 // trailing space 
65535 : x_y_z , [""" ++ [233]%N ++ runes_of_ascii "t" ++ [233]%N ++ runes_of_ascii """
, 00
] // packet A { u8 x, }
:charz ,//
}, /// triple
zchar[ 10  ] calculatedFrom
    `
`
,
@tag(	00 ) @calculatedFrom( ""\" ++ [233]%N ++ runes_of_ascii """ ) i16 stringy,}MetaData
    //
    string_ { uint8 u8x , u u8x
    ,
    string
    /// triple
    body ,	}
")).
Eval vm_compute in ("<<<M797>>>" ++ check (runes_of_ascii "packet stringy
{repeat
u
// c
//x
`tab	here` , crc,
    repeat a1 { x trueish
    `it's`
, zchar[
1]
roots @lengthOf( lengthOf) ,int16 f32a//x
, uint32
    // " ++ [128512]%N ++ runes_of_ascii " emoji
    a1
@lengthOf( u ) , } , match
    // " ++ [128512]%N ++ runes_of_ascii " emoji
    Logon as
//	t
/// triple
u128 { [ ""x y""]
    : uint8x ""// no comment"" : pack , ""1"":
//	t
// `tick` ""quote"" 'q'
crc , } ,u16 uint8x @lengthOf( int
    // trailing space 
    ) ,  @tag( 007)//x
repeat f32a , }
")).
Eval vm_compute in ("<<<T797>>>" ++ terms [mkTok 35 "packet" 1 0 false; mkTok 42 "stringy" 1 7 false; mkTok 2 "{" 2 0 false; mkTok 36 "repeat" 2 1 false; mkTok 42 "u" 3 0 false; mkTok 44 "// c" 4 0 true; mkTok 44 "//x" 5 0 true; mkTok 43 (string_of_bytes [96; 116; 97; 98; 9; 104; 101; 114; 101; 96]%N) 6 0 false; mkTok 40 "," 6 11 false; mkTok 42 "crc" 6 13 false; mkTok 40 "," 6 16 false; mkTok 36 "repeat" 7 4 false; mkTok 42 "a1" 7 11 false; mkTok 2 "{" 7 14 false; mkTok 42 "x" 7 16 false; mkTok 42 "trueish" 7 18 false; mkTok 43 "`it's`" 8 4 false; mkTok 40 "," 9 0 false; mkTok 14 "zchar[" 9 2 false; mkTok 30 "1" 10 0 false; mkTok 13 "]" 10 1 false; mkTok 42 "roots" 11 0 false; mkTok 7 "@lengthOf(" 11 6 false; mkTok 42 "lengthOf" 11 17 false; mkTok 6 ")" 11 25 false; mkTok 40 "," 11 27 false; mkTok 25 "int16" 11 28 false; mkTok 42 "f32a" 11 34 false; mkTok 44 "//x" 11 38 true; mkTok 40 "," 12 0 false; mkTok 22 "uint32" 12 2 false; mkTok 44 (string_of_bytes [47; 47; 32; 240; 159; 152; 128; 32; 101; 109; 111; 106; 105]%N) 13 4 true; mkTok 42 "a1" 14 4 false; mkTok 7 "@lengthOf(" 15 0 false; mkTok 42 "u" 15 11 false; mkTok 6 ")" 15 13 false; mkTok 40 "," 15 15 false; mkTok 3 "}" 15 17 false; mkTok 40 "," 15 19 false; mkTok 38 "match" 15 21 false; mkTok 44 (string_of_bytes [47; 47; 32; 240; 159; 152; 128; 32; 101; 109; 111; 106; 105]%N) 16 4 true; mkTok 42 "Logon" 17 4 false; mkTok 17 "as" 17 10 false; mkTok 44 (string_of_bytes [47; 47; 9; 116]%N) 18 0 true; mkTok 44 "/// triple" 19 0 true; mkTok 42 "u128" 20 0 false; mkTok 2 "{" 20 5 false; mkTok 18 "[" 20 7 false; mkTok 31 """x y""" 20 9 false; mkTok 13 "]" 20 14 false; mkTok 39 ":" 21 4 false; mkTok 42 "uint8x" 21 6 false; mkTok 31 """// no comment""" 21 13 false; mkTok 39 ":" 21 29 false; mkTok 42 "pack" 21 31 false; mkTok 40 "," 21 36 false; mkTok 31 """1""" 21 38 false; mkTok 39 ":" 21 41 false; mkTok 44 (string_of_bytes [47; 47; 9; 116]%N) 22 0 true; mkTok 44 "// `tick` ""quote"" 'q'" 23 0 true; mkTok 42 "crc" 24 0 false; mkTok 40 "," 24 4 false; mkTok 3 "}" 24 6 false; mkTok 40 "," 24 8 false; mkTok 21 "u16" 24 9 false; mkTok 42 "uint8x" 24 13 false; mkTok 7 "@lengthOf(" 24 20 false; mkTok 42 "int" 24 31 false; mkTok 44 "// trailing space " 25 4 true; mkTok 6 ")" 26 4 false; mkTok 40 "," 26 6 false; mkTok 9 "@tag(" 26 9 false; mkTok 30 "007" 26 15 false; mkTok 6 ")" 26 18 false; mkTok 44 "//x" 26 19 true; mkTok 36 "repeat" 27 0 false; mkTok 42 "f32a" 27 7 false; mkTok 40 "," 27 12 false; mkTok 3 "}" 27 14 false; mkTok 0 "<EOF>" 28 0 false] (mkPacket (mkPtok 35 "packet" 1 0 0) (Some (mkPtok 3 "}" 27 14 78)) [(DPacket (mkPacketDef (mkSpan (mkPtok 35 "packet" 1 0 0) (mkPtok 3 "}" 27 14 78)) None (mkPtok 35 "packet" 1 0 0) (mkPtok 42 "stringy" 1 7 1) (mkPtok 2 "{" 2 0 2) [(mkFieldWithAttr (mkSpan (mkPtok 36 "repeat" 2 1 3) (mkPtok 40 "," 6 11 8)) [] (ObjectField (mkSpan (mkPtok 36 "repeat" 2 1 3) (mkPtok 40 "," 6 11 8)) (Some (mkPtok 36 "repeat" 2 1 3)) (mkPtok 42 "u" 3 0 4) None (Some (mkPtok 43 (string_of_bytes [96; 116; 97; 98; 9; 104; 101; 114; 101; 96]%N) 6 0 7)) (mkPtok 40 "," 6 11 8))); (mkFieldWithAttr (mkSpan (mkPtok 42 "crc" 6 13 9) (mkPtok 40 "," 6 16 10)) [] (ObjectField (mkSpan (mkPtok 42 "crc" 6 13 9) (mkPtok 40 "," 6 16 10)) None (mkPtok 42 "crc" 6 13 9) None None (mkPtok 40 "," 6 16 10))); (mkFieldWithAttr (mkSpan (mkPtok 36 "repeat" 7 4 11) (mkPtok 40 "," 15 19 38)) [] (InerObjectField (mkSpan (mkPtok 36 "repeat" 7 4 11) (mkPtok 40 "," 15 19 38)) (Some (mkPtok 36 "repeat" 7 4 11)) (InerObjectDecl (mkSpan (mkPtok 42 "a1" 7 11 12) (mkPtok 3 "}" 15 17 37)) (mkPtok 42 "a1" 7 11 12) (mkPtok 2 "{" 7 14 13) [(ObjectField (mkSpan (mkPtok 42 "x" 7 16 14) (mkPtok 40 "," 9 0 17)) None (mkPtok 42 "x" 7 16 14) (Some (mkPtok 42 "trueish" 7 18 15)) (Some (mkPtok 43 "`it's`" 8 4 16)) (mkPtok 40 "," 9 0 17)); (LengthField (mkSpan (mkPtok 14 "zchar[" 9 2 18) (mkPtok 40 "," 11 27 25)) (mkLengthFieldDecl (mkSpan (mkPtok 14 "zchar[" 9 2 18) (mkPtok 40 "," 11 27 25)) (Some (TyFixed (mkSpan (mkPtok 14 "zchar[" 9 2 18) (mkPtok 13 "]" 10 1 20)) (mkFixedString (mkSpan (mkPtok 14 "zchar[" 9 2 18) (mkPtok 13 "]" 10 1 20)) (mkPtok 14 "zchar[" 9 2 18) (mkPtok 30 "1" 10 0 19) (mkPtok 13 "]" 10 1 20)))) (mkPtok 42 "roots" 11 0 21) (mkLengthOf (mkSpan (mkPtok 7 "@lengthOf(" 11 6 22) (mkPtok 6 ")" 11 25 24)) (mkPtok 7 "@lengthOf(" 11 6 22) (mkPtok 42 "lengthOf" 11 17 23) (mkPtok 6 ")" 11 25 24)) None (mkPtok 40 "," 11 27 25))); (MetaField (mkSpan (mkPtok 25 "int16" 11 28 26) (mkPtok 40 "," 12 0 29)) None (mkMetaDecl (mkSpan (mkPtok 25 "int16" 11 28 26) (mkPtok 40 "," 12 0 29)) (TyBasic (mkSpan (mkPtok 25 "int16" 11 28 26) (mkPtok 25 "int16" 11 28 26)) (mkBasicType (mkSpan (mkPtok 25 "int16" 11 28 26) (mkPtok 25 "int16" 11 28 26)) (mkPtok 25 "int16" 11 28 26))) (mkPtok 42 "f32a" 11 34 27) None (mkPtok 40 "," 12 0 29))); (LengthField (mkSpan (mkPtok 22 "uint32" 12 2 30) (mkPtok 40 "," 15 15 36)) (mkLengthFieldDecl (mkSpan (mkPtok 22 "uint32" 12 2 30) (mkPtok 40 "," 15 15 36)) (Some (TyBasic (mkSpan (mkPtok 22 "uint32" 12 2 30) (mkPtok 22 "uint32" 12 2 30)) (mkBasicType (mkSpan (mkPtok 22 "uint32" 12 2 30) (mkPtok 22 "uint32" 12 2 30)) (mkPtok 22 "uint32" 12 2 30)))) (mkPtok 42 "a1" 14 4 32) (mkLengthOf (mkSpan (mkPtok 7 "@lengthOf(" 15 0 33) (mkPtok 6 ")" 15 13 35)) (mkPtok 7 "@lengthOf(" 15 0 33) (mkPtok 42 "u" 15 11 34) (mkPtok 6 ")" 15 13 35)) None (mkPtok 40 "," 15 15 36)))] (mkPtok 3 "}" 15 17 37)) (mkPtok 40 "," 15 19 38))); (mkFieldWithAttr (mkSpan (mkPtok 38 "match" 15 21 39) (mkPtok 40 "," 24 8 63)) [] (MatchField (mkSpan (mkPtok 38 "match" 15 21 39) (mkPtok 40 "," 24 8 63)) (mkMatchFieldDecl (mkSpan (mkPtok 38 "match" 15 21 39) (mkPtok 3 "}" 24 6 62)) (mkPtok 38 "match" 15 21 39) (mkPtok 42 "Logon" 17 4 41) (mkPtok 17 "as" 17 10 42) (mkPtok 42 "u128" 20 0 45) (mkPtok 2 "{" 20 5 46) [(mkMatchPair (mkSpan (mkPtok 18 "[" 20 7 47) (mkPtok 42 "uint8x" 21 6 51)) (MKList (mkKeyList (mkSpan (mkPtok 18 "[" 20 7 47) (mkPtok 13 "]" 20 14 49)) (mkPtok 18 "[" 20 7 47) (mkPtok 31 """x y""" 20 9 48) [] (mkPtok 13 "]" 20 14 49))) (mkPtok 39 ":" 21 4 50) (mkPtok 42 "uint8x" 21 6 51) None); (mkMatchPair (mkSpan (mkPtok 31 """// no comment""" 21 13 52) (mkPtok 40 "," 21 36 55)) (MKString (mkPtok 31 """// no comment""" 21 13 52)) (mkPtok 39 ":" 21 29 53) (mkPtok 42 "pack" 21 31 54) (Some (mkPtok 40 "," 21 36 55))); (mkMatchPair (mkSpan (mkPtok 31 """1""" 21 38 56) (mkPtok 40 "," 24 4 61)) (MKString (mkPtok 31 """1""" 21 38 56)) (mkPtok 39 ":" 21 41 57) (mkPtok 42 "crc" 24 0 60) (Some (mkPtok 40 "," 24 4 61)))] (mkPtok 3 "}" 24 6 62)) (mkPtok 40 "," 24 8 63))); (mkFieldWithAttr (mkSpan (mkPtok 21 "u16" 24 9 64) (mkPtok 40 "," 26 6 70)) [] (LengthField (mkSpan (mkPtok 21 "u16" 24 9 64) (mkPtok 40 "," 26 6 70)) (mkLengthFieldDecl (mkSpan (mkPtok 21 "u16" 24 9 64) (mkPtok 40 "," 26 6 70)) (Some (TyBasic (mkSpan (mkPtok 21 "u16" 24 9 64) (mkPtok 21 "u16" 24 9 64)) (mkBasicType (mkSpan (mkPtok 21 "u16" 24 9 64) (mkPtok 21 "u16" 24 9 64)) (mkPtok 21 "u16" 24 9 64)))) (mkPtok 42 "uint8x" 24 13 65) (mkLengthOf (mkSpan (mkPtok 7 "@lengthOf(" 24 20 66) (mkPtok 6 ")" 26 4 69)) (mkPtok 7 "@lengthOf(" 24 20 66) (mkPtok 42 "int" 24 31 67) (mkPtok 6 ")" 26 4 69)) None (mkPtok 40 "," 26 6 70)))); (mkFieldWithAttr (mkSpan (mkPtok 9 "@tag(" 26 9 71) (mkPtok 40 "," 27 12 77)) [(FATag (mkSpan (mkPtok 9 "@tag(" 26 9 71) (mkPtok 6 ")" 26 18 73)) (mkTagAttr (mkSpan (mkPtok 9 "@tag(" 26 9 71) (mkPtok 6 ")" 26 18 73)) (mkPtok 9 "@tag(" 26 9 71) (mkPtok 30 "007" 26 15 72) (mkPtok 6 ")" 26 18 73)))] (ObjectField (mkSpan (mkPtok 36 "repeat" 27 0 75) (mkPtok 40 "," 27 12 77)) (Some (mkPtok 36 "repeat" 27 0 75)) (mkPtok 42 "f32a" 27 7 76) None None (mkPtok 40 "," 27 12 77)))] (mkPtok 3 "}" 27 14 78)))])).
Eval vm_compute in ("<<<M829>>>" ++ check (runes_of_ascii "root packet Logon { zchar[ 00 ] roots  @calculatedFrom(	""a\""b""
)  ,} MetaData /// triple
int{ float roots , char	u8x  `u8 x,` , uint64	_x , u128 chars  `doc`,
zchar string_
    ,	char[	1
] string_ , } packet trueish
{
asx { msg_type { repeat string A `// not a comment` , }
// 50% %s
// packet A { u8 x, }
, }	, u32 asx
@calculatedFrom( ""packet""
    )
, match  u128 as	len { [
"""" , ""\n""
    ]
    : i64_, 0123456789
:options1 ""abc"" : As// " ++ [27880; 37322]%N ++ runes_of_ascii "
[	007 , 3 , ""{,}""
    , ""`tick`""
, ""a	b"" ,
    10 , ""abc"" ]
: u128 , } , uint32 i64_
    @lengthOf( i8i8)
,
    // packet A { u8 x, }
    u64 charz @calculatedFrom(
    ""{,}""
    )
`say ""hi""`	, match charz
as //x
calculatedFrom
{ [ ""a	b"" , 4294967296 ,
    10	,
1 ,  0, 0123456789
    ]
//x
// " ++ [128512]%N ++ runes_of_ascii " emoji
:
msg_type ,
""it's"" : Pad ,3	:
    MetaDataX
3: lengthOf ""a\\"" :
int
, 007 :Header } ,// c
@calculatedFrom( ""it's"" ) u8  asx // " ++ [27880; 37322]%N ++ runes_of_ascii "
@lengthOf( Foo // packet A { u8 x, }
)
`{ , }`
    ,
    // @lengthOf(
    @calculatedFrom(
""a\\"" ) len @calculatedFrom(
""""  ) `tab	here` , T
falsey//x
,
As@lengthOf( leftPad
) , } MetaData u8x { A Header`{ , }` ,zchar[ 42  ]  crc  `doc` , _x
    lengthOf, charz
lengthOf, }
")).
Eval vm_compute in ("<<<M861>>>" ++ check (runes_of_ascii "root  packet	BodyLength { @tag( 1 ) f64
    x_y_z `it's` , @calculatedFrom(""packet"") @calculatedFrom( ""CRC32""
/// triple
/// triple
)// c
char /// triple
Pad
    //	t
    , string msg_type , }")).
Eval vm_compute in ("<<<M893>>>" ++ check (runes_of_ascii "MetaData
    msg_type { }	packet  Pad {@calculatedFrom( """ ++ [28040; 24687]%N ++ runes_of_ascii """) repeat
char[ 7 ] T , }
MetaData BodyLength
{ Packet Pad , o int `crlf
line`
, string string_ // `tick` ""quote"" 'q'
, BodyLength	u, int
repeatCount , // packet A { u8 x, }
}")).
Eval vm_compute in ("<<<M925>>>" ++ check (runes_of_ascii "  packet	falsey /// triple
{ f32 uint8x `" ++ [28040; 24687; 31867; 22411]%N ++ runes_of_ascii "`,
    } // " ++ [27880; 37322]%N ++ runes_of_ascii "
packet _x
// " ++ [27880; 37322]%N ++ runes_of_ascii "
// @lengthOf(
{	}root packet lengthOf	{
    // @lengthOf(
    trueish
    , }")).
Eval vm_compute in ("<<<M957>>>" ++ check (runes_of_ascii "MetaData crc  {char[] packetx
    , } MetaData f32a { string
    o`
` ,
    }  packet  Packet {repeat
i8i8 i64_
,
}")).
Eval vm_compute in ("<<<M989>>>" ++ check (runes_of_ascii "options
{
}")).
Eval vm_compute in ("<<<M1021>>>" ++ check (runes_of_ascii "
packet Packet  {
    @tag(
3 )
u8x { string_ @lengthOf(
options1 )
, options1 @lengthOf(u128 ) , float64
Foo @calculatedFrom( ""abc"" ) `two words` ,
//	t
// 50% %s
char[]falsey @lengthOf(o), // `tick` ""quote"" 'q'
} ,}
packet zchar { }
")).
Eval vm_compute in ("<<<T1021>>>" ++ terms [mkTok 35 "packet" 2 0 false; mkTok 42 "Packet" 2 7 false; mkTok 2 "{" 2 15 false; mkTok 9 "@tag(" 3 4 false; mkTok 30 "3" 4 0 false; mkTok 6 ")" 4 2 false; mkTok 42 "u8x" 5 0 false; mkTok 2 "{" 5 4 false; mkTok 42 "string_" 5 6 false; mkTok 7 "@lengthOf(" 5 14 false; mkTok 42 "options1" 6 0 false; mkTok 6 ")" 6 9 false; mkTok 40 "," 7 0 false; mkTok 42 "options1" 7 2 false; mkTok 7 "@lengthOf(" 7 11 false; mkTok 42 "u128" 7 21 false; mkTok 6 ")" 7 26 false; mkTok 40 "," 7 28 false; mkTok 29 "float64" 7 30 false; mkTok 42 "Foo" 8 0 false; mkTok 5 "@calculatedFrom(" 8 4 false; mkTok 31 """abc""" 8 21 false; mkTok 6 ")" 8 27 false; mkTok 43 "`two words`" 8 29 false; mkTok 40 "," 8 41 false; mkTok 44 (string_of_bytes [47; 47; 9; 116]%N) 9 0 true; mkTok 44 "// 50% %s" 10 0 true; mkTok 16 "char[]" 11 0 false; mkTok 42 "falsey" 11 6 false; mkTok 7 "@lengthOf(" 11 13 false; mkTok 42 "o" 11 23 false; mkTok 6 ")" 11 24 false; mkTok 40 "," 11 25 false; mkTok 44 "// `tick` ""quote"" 'q'" 11 27 true; mkTok 3 "}" 12 0 false; mkTok 40 "," 12 2 false; mkTok 3 "}" 12 3 false; mkTok 35 "packet" 13 0 false; mkTok 42 "zchar" 13 7 false; mkTok 2 "{" 13 13 false; mkTok 3 "}" 13 15 false; mkTok 0 "<EOF>" 14 0 false] (mkPacket (mkPtok 35 "packet" 2 0 0) (Some (mkPtok 3 "}" 13 15 40)) [(DPacket (mkPacketDef (mkSpan (mkPtok 35 "packet" 2 0 0) (mkPtok 3 "}" 12 3 36)) None (mkPtok 35 "packet" 2 0 0) (mkPtok 42 "Packet" 2 7 1) (mkPtok 2 "{" 2 15 2) [(mkFieldWithAttr (mkSpan (mkPtok 9 "@tag(" 3 4 3) (mkPtok 40 "," 12 2 35)) [(FATag (mkSpan (mkPtok 9 "@tag(" 3 4 3) (mkPtok 6 ")" 4 2 5)) (mkTagAttr (mkSpan (mkPtok 9 "@tag(" 3 4 3) (mkPtok 6 ")" 4 2 5)) (mkPtok 9 "@tag(" 3 4 3) (mkPtok 30 "3" 4 0 4) (mkPtok 6 ")" 4 2 5)))] (InerObjectField (mkSpan (mkPtok 42 "u8x" 5 0 6) (mkPtok 40 "," 12 2 35)) None (InerObjectDecl (mkSpan (mkPtok 42 "u8x" 5 0 6) (mkPtok 3 "}" 12 0 34)) (mkPtok 42 "u8x" 5 0 6) (mkPtok 2 "{" 5 4 7) [(LengthField (mkSpan (mkPtok 42 "string_" 5 6 8) (mkPtok 40 "," 7 0 12)) (mkLengthFieldDecl (mkSpan (mkPtok 42 "string_" 5 6 8) (mkPtok 40 "," 7 0 12)) None (mkPtok 42 "string_" 5 6 8) (mkLengthOf (mkSpan (mkPtok 7 "@lengthOf(" 5 14 9) (mkPtok 6 ")" 6 9 11)) (mkPtok 7 "@lengthOf(" 5 14 9) (mkPtok 42 "options1" 6 0 10) (mkPtok 6 ")" 6 9 11)) None (mkPtok 40 "," 7 0 12))); (LengthField (mkSpan (mkPtok 42 "options1" 7 2 13) (mkPtok 40 "," 7 28 17)) (mkLengthFieldDecl (mkSpan (mkPtok 42 "options1" 7 2 13) (mkPtok 40 "," 7 28 17)) None (mkPtok 42 "options1" 7 2 13) (mkLengthOf (mkSpan (mkPtok 7 "@lengthOf(" 7 11 14) (mkPtok 6 ")" 7 26 16)) (mkPtok 7 "@lengthOf(" 7 11 14) (mkPtok 42 "u128" 7 21 15) (mkPtok 6 ")" 7 26 16)) None (mkPtok 40 "," 7 28 17))); (CheckSumField (mkSpan (mkPtok 29 "float64" 7 30 18) (mkPtok 40 "," 8 41 24)) (mkChecksumFieldDecl (mkSpan (mkPtok 29 "float64" 7 30 18) (mkPtok 40 "," 8 41 24)) (Some (TyBasic (mkSpan (mkPtok 29 "float64" 7 30 18) (mkPtok 29 "float64" 7 30 18)) (mkBasicType (mkSpan (mkPtok 29 "float64" 7 30 18) (mkPtok 29 "float64" 7 30 18)) (mkPtok 29 "float64" 7 30 18)))) (mkPtok 42 "Foo" 8 0 19) (mkCalculatedFrom (mkSpan (mkPtok 5 "@calculatedFrom(" 8 4 20) (mkPtok 6 ")" 8 27 22)) (mkPtok 5 "@calculatedFrom(" 8 4 20) (mkPtok 31 """abc""" 8 21 21) (mkPtok 6 ")" 8 27 22)) (Some (mkPtok 43 "`two words`" 8 29 23)) (mkPtok 40 "," 8 41 24))); (LengthField (mkSpan (mkPtok 16 "char[]" 11 0 27) (mkPtok 40 "," 11 25 32)) (mkLengthFieldDecl (mkSpan (mkPtok 16 "char[]" 11 0 27) (mkPtok 40 "," 11 25 32)) (Some (TyDynamic (mkSpan (mkPtok 16 "char[]" 11 0 27) (mkPtok 16 "char[]" 11 0 27)) (mkDynamicString (mkSpan (mkPtok 16 "char[]" 11 0 27) (mkPtok 16 "char[]" 11 0 27)) (mkPtok 16 "char[]" 11 0 27)))) (mkPtok 42 "falsey" 11 6 28) (mkLengthOf (mkSpan (mkPtok 7 "@lengthOf(" 11 13 29) (mkPtok 6 ")" 11 24 31)) (mkPtok 7 "@lengthOf(" 11 13 29) (mkPtok 42 "o" 11 23 30) (mkPtok 6 ")" 11 24 31)) None (mkPtok 40 "," 11 25 32)))] (mkPtok 3 "}" 12 0 34)) (mkPtok 40 "," 12 2 35)))] (mkPtok 3 "}" 12 3 36))); (DPacket (mkPacketDef (mkSpan (mkPtok 35 "packet" 13 0 37) (mkPtok 3 "}" 13 15 40)) None (mkPtok 35 "packet" 13 0 37) (mkPtok 42 "zchar" 13 7 38) (mkPtok 2 "{" 13 13 39) [] (mkPtok 3 "}" 13 15 40)))])).
Eval vm_compute in ("<<<M1053>>>" ++ check (runes_of_ascii "// " ++ [27880; 37322]%N ++ runes_of_ascii "
packet len
    {
repeat
metadata uint8x
`say ""hi""` ,}")).
Eval vm_compute in ("<<<M1085>>>" ++ check (runes_of_ascii "packet asx { //
}packet Z9_ { @rightPad
(
    '\x00' ) leftPad  @calculatedFrom("""")
    ,
@calculatedFrom( ""packet"" )
    roots calculatedFrom `two words` , @calculatedFrom( ""x y"") @calculatedFrom( // `tick` ""quote"" 'q'
""a\""b"" ) repeat x
    // " ++ [128512]%N ++ runes_of_ascii " emoji
    charz
    , repeat	f32a
{ char[] // `tick` ""quote"" 'q'
falsey @lengthOf(pack ),
zchar[
10 ] options1 @lengthOf(// 50% %s
float
    ),char[ 00
    ]
Packet @lengthOf(chars
    ) , } ,@calculatedFrom( ""a	b"" ) T
BodyLength `doc`	,@tag( 10
    )match
x as msg_type
    {
    007 :
    /// triple
    Z9_ ,
[255
// " ++ [128512]%N ++ runes_of_ascii " emoji
// `tick` ""quote"" 'q'
, ""a	b"" // `tick` ""quote"" 'q'
] :
    lengthOf , } ,
}packet tag
    //x
    {
    Logon @calculatedFrom(""\" ++ [233]%N ++ runes_of_ascii """
),
repeat f32a
{
    int8 Logon @lengthOf(repeatCount ) `100% of %d` ,}
, @calculatedFrom( ""{,}""
    )
@leftPad ( '0'
    ) @tag( 255//
) int32 MetaDataX`it's`,@rightPad
    ( '0' )@calculatedFrom( """ ++ [128512]%N ++ runes_of_ascii """
) Pad
x , zchar[  007	]
    MetaDataX , } packet BodyLength {
}packet calculatedFrom
{// packet A { u8 x, }
}
")).
Eval vm_compute in ("<<<M1117>>>" ++ check (runes_of_ascii " 	 ")).
Eval vm_compute in ("<<<M1149>>>" ++ check (runes_of_ascii "packet crc {
}
")).
Eval vm_compute in ("<<<M1181>>>" ++ check (runes_of_ascii "MetaData metadata  {x tag , float64
chars
,// packet A { u8 x, }
}	root	packet Pad
    {
} options
    {
    }")).
Eval vm_compute in ("<<<M1213>>>" ++ check (runes_of_ascii "options { body // packet A { u8 x, }
=
    ""\" ++ [233]%N ++ runes_of_ascii """
; }
options{chars =  ""x y"" } packet BodyLength	{ chars@calculatedFrom( //	t
""" ++ [233]%N ++ runes_of_ascii "t" ++ [233]%N ++ runes_of_ascii """  )
`100% of %d`
    , @calculatedFrom( ""a	b"" // " ++ [128512]%N ++ runes_of_ascii " emoji
) int32
    msg_type , } packet
    metadata
{
    @leftPad(
    ) u8 u128 ,u , //	t
trueish , stringy	trueish//	t
,@lengthOf(
Pad) pack
{
char[ 10
    ] charz `u8 x,` , }, repeat char leftPad , @rightPad ( '0' ) i64
    int@lengthOf( pack)
, char[] charz , // @lengthOf(
match _x // c
as pack { //x
3 :	body	,
[ ""// no comment"" ,
""a\""b""]
:
uint8x , 3 :lengthOf , } , matchKey
    // 50% %s
    , }
")).
Eval vm_compute in ("<<<M1245>>>" ++ check (runes_of_ascii "MetaData
// " ++ [128512]%N ++ runes_of_ascii " emoji
/// triple
roots { // packet A { u8 x, }
}  MetaData  stringy
{ }
")).
Eval vm_compute in ("<<<T1245>>>" ++ terms [mkTok 37 "MetaData" 1 0 false; mkTok 44 (string_of_bytes [47; 47; 32; 240; 159; 152; 128; 32; 101; 109; 111; 106; 105]%N) 2 0 true; mkTok 44 "/// triple" 3 0 true; mkTok 42 "roots" 4 0 false; mkTok 2 "{" 4 6 false; mkTok 44 "// packet A { u8 x, }" 4 8 true; mkTok 3 "}" 5 0 false; mkTok 37 "MetaData" 5 3 false; mkTok 42 "stringy" 5 13 false; mkTok 2 "{" 6 0 false; mkTok 3 "}" 6 2 false; mkTok 0 "<EOF>" 7 0 false] (mkPacket (mkPtok 37 "MetaData" 1 0 0) (Some (mkPtok 3 "}" 6 2 10)) [(DMeta (mkMetaDef (mkSpan (mkPtok 37 "MetaData" 1 0 0) (mkPtok 3 "}" 5 0 6)) (mkPtok 37 "MetaData" 1 0 0) (mkPtok 42 "roots" 4 0 3) (mkPtok 2 "{" 4 6 4) [] (mkPtok 3 "}" 5 0 6))); (DMeta (mkMetaDef (mkSpan (mkPtok 37 "MetaData" 5 3 7) (mkPtok 3 "}" 6 2 10)) (mkPtok 37 "MetaData" 5 3 7) (mkPtok 42 "stringy" 5 13 8) (mkPtok 2 "{" 6 0 9) [] (mkPtok 3 "}" 6 2 10)))])).
Eval vm_compute in ("<<<M1277>>>" ++ check (runes_of_ascii "//
options { } packet leftPad{ }packet trueish{
    i8 pack	,
} packet body {
}
")).
Eval vm_compute in ("<<<M1309>>>" ++ check (runes_of_ascii "MetaData a1{  }
")).
Eval vm_compute in ("<<<M1341>>>" ++ check (runes_of_ascii "  packet len	{ string tag , @calculatedFrom(
    """ ++ [233]%N ++ runes_of_ascii "t" ++ [233]%N ++ runes_of_ascii """)
repeat Z9_{ // " ++ [27880; 37322]%N ++ runes_of_ascii "
zchar[ 65535// c
] //	t
len @lengthOf( matchKey
) ,
//
/// triple
} ,  }MetaData float {
f32a rootA // trailing space 
`" ++ [233]%N ++ runes_of_ascii "`
    , // trailing space 
}
")).
Eval vm_compute in ("<<<M1373>>>" ++ check (runes_of_ascii "// c
options{
chars = '\x00' ; pack = true
float
=0123456789// c
}packet i64_ { string lengthOf
    @lengthOf(
    u8x // " ++ [128512]%N ++ runes_of_ascii " emoji
)
    `it's`	, msg_type	`" ++ [233]%N ++ runes_of_ascii "` ,
    f32 body `line1
line2`,A // " ++ [27880; 37322]%N ++ runes_of_ascii "
{zchar[0] Foo // 50% %s
@lengthOf( x ) ,
i32 body @calculatedFrom(""`tick`"" )`doc`
,
} ,u8	i8i8 @lengthOf( Logon //
) `a\`, } 	 ")).
Eval vm_compute in ("<<<M1405>>>" ++ check (runes_of_ascii "options { rootA
= """ ++ [233]%N ++ runes_of_ascii "t" ++ [233]%N ++ runes_of_ascii """ tag =
true body
=	'0' }
    root packet
    leftPad{}")).
Eval vm_compute in ("<<<M1437>>>" ++ check (runes_of_ascii "//	t
packet int	{ chars falsey`u8 x,`	,char[ 3 // `tick` ""quote"" 'q'
] asx
@lengthOf(string_ ) `say ""hi""`, @calculatedFrom(
""" ++ [128512]%N ++ runes_of_ascii """ )
u64 x_y_z `line1
line2`
    ,
} packet leftPad { @calculatedFrom(
    //
    ""it's""	)
uint8 chars
    `two words`,@calculatedFrom(""CRC32""
) @lengthOf(
    o)repeat char[4294967296] x/// triple
,@calculatedFrom(""CRC32""
) float64 Packet `it's` , @tag(	65535 )
char[]f32a @calculatedFrom( ""x y"" ) `doc`  ,// c
} 	 ")).
Eval vm_compute in ("<<<M1469>>>" ++ check (runes_of_ascii "MetaData  chars{ i64	zchar `a\`
    , } // " ++ [27880; 37322]%N ++ runes_of_ascii "
packet f32a
    { @tag( 00
    ) match
    // 50% %s
    BodyLength as u128
    { [0 ] : rootA , [	""{,}""
    , 0
    ]: matchKey ""it's""
: stringy ,
""""	: As, }, @calculatedFrom( ""a\\"" // @lengthOf(
)
//x
// packet A { u8 x, }
matchKey	@lengthOf( i8i8 )`a\`
,@calculatedFrom(	""it's"" ) string
    x_y_z, // `tick` ""quote"" 'q'
@lengthOf(repeatCount
) //x
char[ 00 ]Header  `
`,
    // a // b
    } root
    packet u
{ As @lengthOf( f32a ) `" ++ [233]%N ++ runes_of_ascii "` , @calculatedFrom( ""it's"" )
@tag(7
)  zchar[
0 //x
]
    As	@lengthOf( //
zchar
    ) `say ""hi""`,// `tick` ""quote"" 'q'
@rightPad ( '\x00' )
match/// triple
T as len { 4294967296: metadata ,0: x } ,  repeat
// `tick` ""quote"" 'q'
// " ++ [128512]%N ++ runes_of_ascii " emoji
trueish , // @lengthOf(
@calculatedFrom(""" ++ [233]%N ++ runes_of_ascii "t" ++ [233]%N ++ runes_of_ascii """
) @lengthOf( lengthOf
    )
    @rightPad( '\x00' )repeat char[  255  ] string_ `" ++ [233]%N ++ runes_of_ascii "`
, T	{
repeat
// 50% %s
// c
crc msg_type
,uint64
    u8x
    , len
BodyLength ,
    }
,	} MetaData BodyLength{options1 MetaDataX ,
    }
")).
Eval vm_compute in ("<<<T1469>>>" ++ terms [mkTok 37 "MetaData" 1 0 false; mkTok 42 "chars" 1 10 false; mkTok 2 "{" 1 15 false; mkTok 27 "i64" 1 17 false; mkTok 42 "zchar" 1 21 false; mkTok 43 "`a\`" 1 27 false; mkTok 40 "," 2 4 false; mkTok 3 "}" 2 6 false; mkTok 44 (string_of_bytes [47; 47; 32; 230; 179; 168; 233; 135; 138]%N) 2 8 true; mkTok 35 "packet" 3 0 false; mkTok 42 "f32a" 3 7 false; mkTok 2 "{" 4 4 false; mkTok 9 "@tag(" 4 6 false; mkTok 30 "00" 4 12 false; mkTok 6 ")" 5 4 false; mkTok 38 "match" 5 6 false; mkTok 44 "// 50% %s" 6 4 true; mkTok 42 "BodyLength" 7 4 false; mkTok 17 "as" 7 15 false; mkTok 42 "u128" 7 18 false; mkTok 2 "{" 8 4 false; mkTok 18 "[" 8 6 false; mkTok 30 "0" 8 7 false; mkTok 13 "]" 8 9 false; mkTok 39 ":" 8 11 false; mkTok 42 "rootA" 8 13 false; mkTok 40 "," 8 19 false; mkTok 18 "[" 8 21 false; mkTok 31 """{,}""" 8 23 false; mkTok 40 "," 9 4 false; mkTok 30 "0" 9 6 false; mkTok 13 "]" 10 4 false; mkTok 39 ":" 10 5 false; mkTok 42 "matchKey" 10 7 false; mkTok 31 """it's""" 10 16 false; mkTok 39 ":" 11 0 false; mkTok 42 "stringy" 11 2 false; mkTok 40 "," 11 10 false; mkTok 31 """""" 12 0 false; mkTok 39 ":" 12 3 false; mkTok 42 "As" 12 5 false; mkTok 40 "," 12 7 false; mkTok 3 "}" 12 9 false; mkTok 40 "," 12 10 false; mkTok 5 "@calculatedFrom(" 12 12 false; mkTok 31 """a\\""" 12 29 false; mkTok 44 "// @lengthOf(" 12 35 true; mkTok 6 ")" 13 0 false; mkTok 44 "//x" 14 0 true; mkTok 44 "// packet A { u8 x, }" 15 0 true; mkTok 42 "matchKey" 16 0 false; mkTok 7 "@lengthOf(" 16 9 false; mkTok 42 "i8i8" 16 20 false; mkTok 6 ")" 16 25 false; mkTok 43 "`a\`" 16 26 false; mkTok 40 "," 17 0 false; mkTok 5 "@calculatedFrom(" 17 1 false; mkTok 31 """it's""" 17 18 false; mkTok 6 ")" 17 25 false; mkTok 15 "string" 17 27 false; mkTok 42 "x_y_z" 18 4 false; mkTok 40 "," 18 9 false; mkTok 44 "// `tick` ""quote"" 'q'" 18 11 true; mkTok 7 "@lengthOf(" 19 0 false; mkTok 42 "repeatCount" 19 10 false; mkTok 6 ")" 20 0 false; mkTok 44 "//x" 20 2 true; mkTok 12 "char[" 21 0 false; mkTok 30 "00" 21 6 false; mkTok 13 "]" 21 9 false; mkTok 42 "Header" 21 10 false; mkTok 43 (string_of_bytes [96; 10; 96]%N) 21 18 false; mkTok 40 "," 22 1 false; mkTok 44 "// a // b" 23 4 true; mkTok 3 "}" 24 4 false; mkTok 34 "root" 24 6 false; mkTok 35 "packet" 25 4 false; mkTok 42 "u" 25 11 false; mkTok 2 "{" 26 0 false; mkTok 42 "As" 26 2 false; mkTok 7 "@lengthOf(" 26 5 false; mkTok 42 "f32a" 26 16 false; mkTok 6 ")" 26 21 false; mkTok 43 (string_of_bytes [96; 195; 169; 96]%N) 26 23 false; mkTok 40 "," 26 27 false; mkTok 5 "@calculatedFrom(" 26 29 false; mkTok 31 """it's""" 26 46 false; mkTok 6 ")" 26 53 false; mkTok 9 "@tag(" 27 0 false; mkTok 30 "7" 27 5 false; mkTok 6 ")" 28 0 false; mkTok 14 "zchar[" 28 3 false; mkTok 30 "0" 29 0 false; mkTok 44 "//x" 29 2 true; mkTok 13 "]" 30 0 false; mkTok 42 "As" 31 4 false; mkTok 7 "@lengthOf(" 31 7 false; mkTok 44 "//" 31 18 true; mkTok 42 "zchar" 32 0 false; mkTok 6 ")" 33 4 false; mkTok 43 "`say ""hi""`" 33 6 false; mkTok 40 "," 33 16 false; mkTok 44 "// `tick` ""quote"" 'q'" 33 17 true; mkTok 32 "@rightPad" 34 0 false; mkTok 8 "(" 34 10 false; mkTok 33 "'\x00'" 34 12 false; mkTok 6 ")" 34 19 false; mkTok 38 "match" 35 0 false; mkTok 44 "/// triple" 35 5 true; mkTok 42 "T" 36 0 false; mkTok 17 "as" 36 2 false; mkTok 42 "len" 36 5 false; mkTok 2 "{" 36 9 false; mkTok 30 "4294967296" 36 11 false; mkTok 39 ":" 36 21 false; mkTok 42 "metadata" 36 23 false; mkTok 40 "," 36 32 false; mkTok 30 "0" 36 33 false; mkTok 39 ":" 36 34 false; mkTok 42 "x" 36 36 false; mkTok 3 "}" 36 38 false; mkTok 40 "," 36 40 false; mkTok 36 "repeat" 36 43 false; mkTok 44 "// `tick` ""quote"" 'q'" 37 0 true; mkTok 44 (string_of_bytes [47; 47; 32; 240; 159; 152; 128; 32; 101; 109; 111; 106; 105]%N) 38 0 true; mkTok 42 "trueish" 39 0 false; mkTok 40 "," 39 8 false; mkTok 44 "// @lengthOf(" 39 10 true; mkTok 5 "@calculatedFrom(" 40 0 false; mkTok 31 (string_of_bytes [34; 195; 169; 116; 195; 169; 34]%N) 40 16 false; mkTok 6 ")" 41 0 false; mkTok 7 "@lengthOf(" 41 2 false; mkTok 42 "lengthOf" 41 13 false; mkTok 6 ")" 42 4 false; mkTok 32 "@rightPad" 43 4 false; mkTok 8 "(" 43 13 false; mkTok 33 "'\x00'" 43 15 false; mkTok 6 ")" 43 22 false; mkTok 36 "repeat" 43 23 false; mkTok 12 "char[" 43 30 false; mkTok 30 "255" 43 37 false; mkTok 13 "]" 43 42 false; mkTok 42 "string_" 43 44 false; mkTok 43 (string_of_bytes [96; 195; 169; 96]%N) 43 52 false; mkTok 40 "," 44 0 false; mkTok 42 "T" 44 2 false; mkTok 2 "{" 44 4 false; mkTok 36 "repeat" 45 0 false; mkTok 44 "// 50% %s" 46 0 true; mkTok 44 "// c" 47 0 true; mkTok 42 "crc" 48 0 false; mkTok 42 "msg_type" 48 4 false; mkTok 40 "," 49 0 false; mkTok 23 "uint64" 49 1 false; mkTok 42 "u8x" 50 4 false; mkTok 40 "," 51 4 false; mkTok 42 "len" 51 6 false; mkTok 42 "BodyLength" 52 0 false; mkTok 40 "," 52 11 false; mkTok 3 "}" 53 4 false; mkTok 40 "," 54 0 false; mkTok 3 "}" 54 2 false; mkTok 37 "MetaData" 54 4 false; mkTok 42 "BodyLength" 54 13 false; mkTok 2 "{" 54 23 false; mkTok 42 "options1" 54 24 false; mkTok 42 "MetaDataX" 54 33 false; mkTok 40 "," 54 43 false; mkTok 3 "}" 55 4 false; mkTok 0 "<EOF>" 56 0 false] (mkPacket (mkPtok 37 "MetaData" 1 0 0) (Some (mkPtok 3 "}" 55 4 168)) [(DMeta (mkMetaDef (mkSpan (mkPtok 37 "MetaData" 1 0 0) (mkPtok 3 "}" 2 6 7)) (mkPtok 37 "MetaData" 1 0 0) (mkPtok 42 "chars" 1 10 1) (mkPtok 2 "{" 1 15 2) [(MIDecl (mkMetaDecl (mkSpan (mkPtok 27 "i64" 1 17 3) (mkPtok 40 "," 2 4 6)) (TyBasic (mkSpan (mkPtok 27 "i64" 1 17 3) (mkPtok 27 "i64" 1 17 3)) (mkBasicType (mkSpan (mkPtok 27 "i64" 1 17 3) (mkPtok 27 "i64" 1 17 3)) (mkPtok 27 "i64" 1 17 3))) (mkPtok 42 "zchar" 1 21 4) (Some (mkPtok 43 "`a\`" 1 27 5)) (mkPtok 40 "," 2 4 6)))] (mkPtok 3 "}" 2 6 7))); (DPacket (mkPacketDef (mkSpan (mkPtok 35 "packet" 3 0 9) (mkPtok 3 "}" 24 4 74)) None (mkPtok 35 "packet" 3 0 9) (mkPtok 42 "f32a" 3 7 10) (mkPtok 2 "{" 4 4 11) [(mkFieldWithAttr (mkSpan (mkPtok 9 "@tag(" 4 6 12) (mkPtok 40 "," 12 10 43)) [(FATag (mkSpan (mkPtok 9 "@tag(" 4 6 12) (mkPtok 6 ")" 5 4 14)) (mkTagAttr (mkSpan (mkPtok 9 "@tag(" 4 6 12) (mkPtok 6 ")" 5 4 14)) (mkPtok 9 "@tag(" 4 6 12) (mkPtok 30 "00" 4 12 13) (mkPtok 6 ")" 5 4 14)))] (MatchField (mkSpan (mkPtok 38 "match" 5 6 15) (mkPtok 40 "," 12 10 43)) (mkMatchFieldDecl (mkSpan (mkPtok 38 "match" 5 6 15) (mkPtok 3 "}" 12 9 42)) (mkPtok 38 "match" 5 6 15) (mkPtok 42 "BodyLength" 7 4 17) (mkPtok 17 "as" 7 15 18) (mkPtok 42 "u128" 7 18 19) (mkPtok 2 "{" 8 4 20) [(mkMatchPair (mkSpan (mkPtok 18 "[" 8 6 21) (mkPtok 40 "," 8 19 26)) (MKList (mkKeyList (mkSpan (mkPtok 18 "[" 8 6 21) (mkPtok 13 "]" 8 9 23)) (mkPtok 18 "[" 8 6 21) (mkPtok 30 "0" 8 7 22) [] (mkPtok 13 "]" 8 9 23))) (mkPtok 39 ":" 8 11 24) (mkPtok 42 "rootA" 8 13 25) (Some (mkPtok 40 "," 8 19 26))); (mkMatchPair (mkSpan (mkPtok 18 "[" 8 21 27) (mkPtok 42 "matchKey" 10 7 33)) (MKList (mkKeyList (mkSpan (mkPtok 18 "[" 8 21 27) (mkPtok 13 "]" 10 4 31)) (mkPtok 18 "[" 8 21 27) (mkPtok 31 """{,}""" 8 23 28) [((mkPtok 40 "," 9 4 29), (mkPtok 30 "0" 9 6 30))] (mkPtok 13 "]" 10 4 31))) (mkPtok 39 ":" 10 5 32) (mkPtok 42 "matchKey" 10 7 33) None); (mkMatchPair (mkSpan (mkPtok 31 """it's""" 10 16 34) (mkPtok 40 "," 11 10 37)) (MKString (mkPtok 31 """it's""" 10 16 34)) (mkPtok 39 ":" 11 0 35) (mkPtok 42 "stringy" 11 2 36) (Some (mkPtok 40 "," 11 10 37))); (mkMatchPair (mkSpan (mkPtok 31 """""" 12 0 38) (mkPtok 40 "," 12 7 41)) (MKString (mkPtok 31 """""" 12 0 38)) (mkPtok 39 ":" 12 3 39) (mkPtok 42 "As" 12 5 40) (Some (mkPtok 40 "," 12 7 41)))] (mkPtok 3 "}" 12 9 42)) (mkPtok 40 "," 12 10 43))); (mkFieldWithAttr (mkSpan (mkPtok 5 "@calculatedFrom(" 12 12 44) (mkPtok 40 "," 17 0 55)) [(FACalculatedFrom (mkSpan (mkPtok 5 "@calculatedFrom(" 12 12 44) (mkPtok 6 ")" 13 0 47)) (mkCalculatedFrom (mkSpan (mkPtok 5 "@calculatedFrom(" 12 12 44) (mkPtok 6 ")" 13 0 47)) (mkPtok 5 "@calculatedFrom(" 12 12 44) (mkPtok 31 """a\\""" 12 29 45) (mkPtok 6 ")" 13 0 47)))] (LengthField (mkSpan (mkPtok 42 "matchKey" 16 0 50) (mkPtok 40 "," 17 0 55)) (mkLengthFieldDecl (mkSpan (mkPtok 42 "matchKey" 16 0 50) (mkPtok 40 "," 17 0 55)) None (mkPtok 42 "matchKey" 16 0 50) (mkLengthOf (mkSpan (mkPtok 7 "@lengthOf(" 16 9 51) (mkPtok 6 ")" 16 25 53)) (mkPtok 7 "@lengthOf(" 16 9 51) (mkPtok 42 "i8i8" 16 20 52) (mkPtok 6 ")" 16 25 53)) (Some (mkPtok 43 "`a\`" 16 26 54)) (mkPtok 40 "," 17 0 55)))); (mkFieldWithAttr (mkSpan (mkPtok 5 "@calculatedFrom(" 17 1 56) (mkPtok 40 "," 18 9 61)) [(FACalculatedFrom (mkSpan (mkPtok 5 "@calculatedFrom(" 17 1 56) (mkPtok 6 ")" 17 25 58)) (mkCalculatedFrom (mkSpan (mkPtok 5 "@calculatedFrom(" 17 1 56) (mkPtok 6 ")" 17 25 58)) (mkPtok 5 "@calculatedFrom(" 17 1 56) (mkPtok 31 """it's""" 17 18 57) (mkPtok 6 ")" 17 25 58)))] (MetaField (mkSpan (mkPtok 15 "string" 17 27 59) (mkPtok 40 "," 18 9 61)) None (mkMetaDecl (mkSpan (mkPtok 15 "string" 17 27 59) (mkPtok 40 "," 18 9 61)) (TyDynamic (mkSpan (mkPtok 15 "string" 17 27 59) (mkPtok 15 "string" 17 27 59)) (mkDynamicString (mkSpan (mkPtok 15 "string" 17 27 59) (mkPtok 15 "string" 17 27 59)) (mkPtok 15 "string" 17 27 59))) (mkPtok 42 "x_y_z" 18 4 60) None (mkPtok 40 "," 18 9 61)))); (mkFieldWithAttr (mkSpan (mkPtok 7 "@lengthOf(" 19 0 63) (mkPtok 40 "," 22 1 72)) [(FALengthOf (mkSpan (mkPtok 7 "@lengthOf(" 19 0 63) (mkPtok 6 ")" 20 0 65)) (mkLengthOf (mkSpan (mkPtok 7 "@lengthOf(" 19 0 63) (mkPtok 6 ")" 20 0 65)) (mkPtok 7 "@lengthOf(" 19 0 63) (mkPtok 42 "repeatCount" 19 10 64) (mkPtok 6 ")" 20 0 65)))] (MetaField (mkSpan (mkPtok 12 "char[" 21 0 67) (mkPtok 40 "," 22 1 72)) None (mkMetaDecl (mkSpan (mkPtok 12 "char[" 21 0 67) (mkPtok 40 "," 22 1 72)) (TyFixed (mkSpan (mkPtok 12 "char[" 21 0 67) (mkPtok 13 "]" 21 9 69)) (mkFixedString (mkSpan (mkPtok 12 "char[" 21 0 67) (mkPtok 13 "]" 21 9 69)) (mkPtok 12 "char[" 21 0 67) (mkPtok 30 "00" 21 6 68) (mkPtok 13 "]" 21 9 69))) (mkPtok 42 "Header" 21 10 70) (Some (mkPtok 43 (string_of_bytes [96; 10; 96]%N) 21 18 71)) (mkPtok 40 "," 22 1 72))))] (mkPtok 3 "}" 24 4 74))); (DPacket (mkPacketDef (mkSpan (mkPtok 34 "root" 24 6 75) (mkPtok 3 "}" 54 2 161)) (Some (mkPtok 34 "root" 24 6 75)) (mkPtok 35 "packet" 25 4 76) (mkPtok 42 "u" 25 11 77) (mkPtok 2 "{" 26 0 78) [(mkFieldWithAttr (mkSpan (mkPtok 42 "As" 26 2 79) (mkPtok 40 "," 26 27 84)) [] (LengthField (mkSpan (mkPtok 42 "As" 26 2 79) (mkPtok 40 "," 26 27 84)) (mkLengthFieldDecl (mkSpan (mkPtok 42 "As" 26 2 79) (mkPtok 40 "," 26 27 84)) None (mkPtok 42 "As" 26 2 79) (mkLengthOf (mkSpan (mkPtok 7 "@lengthOf(" 26 5 80) (mkPtok 6 ")" 26 21 82)) (mkPtok 7 "@lengthOf(" 26 5 80) (mkPtok 42 "f32a" 26 16 81) (mkPtok 6 ")" 26 21 82)) (Some (mkPtok 43 (string_of_bytes [96; 195; 169; 96]%N) 26 23 83)) (mkPtok 40 "," 26 27 84)))); (mkFieldWithAttr (mkSpan (mkPtok 5 "@calculatedFrom(" 26 29 85) (mkPtok 40 "," 33 16 101)) [(FACalculatedFrom (mkSpan (mkPtok 5 "@calculatedFrom(" 26 29 85) (mkPtok 6 ")" 26 53 87)) (mkCalculatedFrom (mkSpan (mkPtok 5 "@calculatedFrom(" 26 29 85) (mkPtok 6 ")" 26 53 87)) (mkPtok 5 "@calculatedFrom(" 26 29 85) (mkPtok 31 """it's""" 26 46 86) (mkPtok 6 ")" 26 53 87))); (FATag (mkSpan (mkPtok 9 "@tag(" 27 0 88) (mkPtok 6 ")" 28 0 90)) (mkTagAttr (mkSpan (mkPtok 9 "@tag(" 27 0 88) (mkPtok 6 ")" 28 0 90)) (mkPtok 9 "@tag(" 27 0 88) (mkPtok 30 "7" 27 5 89) (mkPtok 6 ")" 28 0 90)))] (LengthField (mkSpan (mkPtok 14 "zchar[" 28 3 91) (mkPtok 40 "," 33 16 101)) (mkLengthFieldDecl (mkSpan (mkPtok 14 "zchar[" 28 3 91) (mkPtok 40 "," 33 16 101)) (Some (TyFixed (mkSpan (mkPtok 14 "zchar[" 28 3 91) (mkPtok 13 "]" 30 0 94)) (mkFixedString (mkSpan (mkPtok 14 "zchar[" 28 3 91) (mkPtok 13 "]" 30 0 94)) (mkPtok 14 "zchar[" 28 3 91) (mkPtok 30 "0" 29 0 92) (mkPtok 13 "]" 30 0 94)))) (mkPtok 42 "As" 31 4 95) (mkLengthOf (mkSpan (mkPtok 7 "@lengthOf(" 31 7 96) (mkPtok 6 ")" 33 4 99)) (mkPtok 7 "@lengthOf(" 31 7 96) (mkPtok 42 "zchar" 32 0 98) (mkPtok 6 ")" 33 4 99)) (Some (mkPtok 43 "`say ""hi""`" 33 6 100)) (mkPtok 40 "," 33 16 101)))); (mkFieldWithAttr (mkSpan (mkPtok 32 "@rightPad" 34 0 103) (mkPtok 40 "," 36 40 121)) [(FAPadding (mkSpan (mkPtok 32 "@rightPad" 34 0 103) (mkPtok 6 ")" 34 19 106)) (mkPaddingAttr (mkSpan (mkPtok 32 "@rightPad" 34 0 103) (mkPtok 6 ")" 34 19 106)) (mkPtok 32 "@rightPad" 34 0 103) (mkPtok 8 "(" 34 10 104) (Some (mkPtok 33 "'\x00'" 34 12 105)) (mkPtok 6 ")" 34 19 106)))] (MatchField (mkSpan (mkPtok 38 "match" 35 0 107) (mkPtok 40 "," 36 40 121)) (mkMatchFieldDecl (mkSpan (mkPtok 38 "match" 35 0 107) (mkPtok 3 "}" 36 38 120)) (mkPtok 38 "match" 35 0 107) (mkPtok 42 "T" 36 0 109) (mkPtok 17 "as" 36 2 110) (mkPtok 42 "len" 36 5 111) (mkPtok 2 "{" 36 9 112) [(mkMatchPair (mkSpan (mkPtok 30 "4294967296" 36 11 113) (mkPtok 40 "," 36 32 116)) (MKDigits (mkPtok 30 "4294967296" 36 11 113)) (mkPtok 39 ":" 36 21 114) (mkPtok 42 "metadata" 36 23 115) (Some (mkPtok 40 "," 36 32 116))); (mkMatchPair (mkSpan (mkPtok 30 "0" 36 33 117) (mkPtok 42 "x" 36 36 119)) (MKDigits (mkPtok 30 "0" 36 33 117)) (mkPtok 39 ":" 36 34 118) (mkPtok 42 "x" 36 36 119) None)] (mkPtok 3 "}" 36 38 120)) (mkPtok 40 "," 36 40 121))); (mkFieldWithAttr (mkSpan (mkPtok 36 "repeat" 36 43 122) (mkPtok 40 "," 39 8 126)) [] (ObjectField (mkSpan (mkPtok 36 "repeat" 36 43 122) (mkPtok 40 "," 39 8 126)) (Some (mkPtok 36 "repeat" 36 43 122)) (mkPtok 42 "trueish" 39 0 125) None None (mkPtok 40 "," 39 8 126))); (mkFieldWithAttr (mkSpan (mkPtok 5 "@calculatedFrom(" 40 0 128) (mkPtok 40 "," 44 0 144)) [(FACalculatedFrom (mkSpan (mkPtok 5 "@calculatedFrom(" 40 0 128) (mkPtok 6 ")" 41 0 130)) (mkCalculatedFrom (mkSpan (mkPtok 5 "@calculatedFrom(" 40 0 128) (mkPtok 6 ")" 41 0 130)) (mkPtok 5 "@calculatedFrom(" 40 0 128) (mkPtok 31 (string_of_bytes [34; 195; 169; 116; 195; 169; 34]%N) 40 16 129) (mkPtok 6 ")" 41 0 130))); (FALengthOf (mkSpan (mkPtok 7 "@lengthOf(" 41 2 131) (mkPtok 6 ")" 42 4 133)) (mkLengthOf (mkSpan (mkPtok 7 "@lengthOf(" 41 2 131) (mkPtok 6 ")" 42 4 133)) (mkPtok 7 "@lengthOf(" 41 2 131) (mkPtok 42 "lengthOf" 41 13 132) (mkPtok 6 ")" 42 4 133))); (FAPadding (mkSpan (mkPtok 32 "@rightPad" 43 4 134) (mkPtok 6 ")" 43 22 137)) (mkPaddingAttr (mkSpan (mkPtok 32 "@rightPad" 43 4 134) (mkPtok 6 ")" 43 22 137)) (mkPtok 32 "@rightPad" 43 4 134) (mkPtok 8 "(" 43 13 135) (Some (mkPtok 33 "'\x00'" 43 15 136)) (mkPtok 6 ")" 43 22 137)))] (MetaField (mkSpan (mkPtok 36 "repeat" 43 23 138) (mkPtok 40 "," 44 0 144)) (Some (mkPtok 36 "repeat" 43 23 138)) (mkMetaDecl (mkSpan (mkPtok 12 "char[" 43 30 139) (mkPtok 40 "," 44 0 144)) (TyFixed (mkSpan (mkPtok 12 "char[" 43 30 139) (mkPtok 13 "]" 43 42 141)) (mkFixedString (mkSpan (mkPtok 12 "char[" 43 30 139) (mkPtok 13 "]" 43 42 141)) (mkPtok 12 "char[" 43 30 139) (mkPtok 30 "255" 43 37 140) (mkPtok 13 "]" 43 42 141))) (mkPtok 42 "string_" 43 44 142) (Some (mkPtok 43 (string_of_bytes [96; 195; 169; 96]%N) 43 52 143)) (mkPtok 40 "," 44 0 144)))); (mkFieldWithAttr (mkSpan (mkPtok 42 "T" 44 2 145) (mkPtok 40 "," 54 0 160)) [] (InerObjectField (mkSpan (mkPtok 42 "T" 44 2 145) (mkPtok 40 "," 54 0 160)) None (InerObjectDecl (mkSpan (mkPtok 42 "T" 44 2 145) (mkPtok 3 "}" 53 4 159)) (mkPtok 42 "T" 44 2 145) (mkPtok 2 "{" 44 4 146) [(ObjectField (mkSpan (mkPtok 36 "repeat" 45 0 147) (mkPtok 40 "," 49 0 152)) (Some (mkPtok 36 "repeat" 45 0 147)) (mkPtok 42 "crc" 48 0 150) (Some (mkPtok 42 "msg_type" 48 4 151)) None (mkPtok 40 "," 49 0 152)); (MetaField (mkSpan (mkPtok 23 "uint64" 49 1 153) (mkPtok 40 "," 51 4 155)) None (mkMetaDecl (mkSpan (mkPtok 23 "uint64" 49 1 153) (mkPtok 40 "," 51 4 155)) (TyBasic (mkSpan (mkPtok 23 "uint64" 49 1 153) (mkPtok 23 "uint64" 49 1 153)) (mkBasicType (mkSpan (mkPtok 23 "uint64" 49 1 153) (mkPtok 23 "uint64" 49 1 153)) (mkPtok 23 "uint64" 49 1 153))) (mkPtok 42 "u8x" 50 4 154) None (mkPtok 40 "," 51 4 155))); (ObjectField (mkSpan (mkPtok 42 "len" 51 6 156) (mkPtok 40 "," 52 11 158)) None (mkPtok 42 "len" 51 6 156) (Some (mkPtok 42 "BodyLength" 52 0 157)) None (mkPtok 40 "," 52 11 158))] (mkPtok 3 "}" 53 4 159)) (mkPtok 40 "," 54 0 160)))] (mkPtok 3 "}" 54 2 161))); (DMeta (mkMetaDef (mkSpan (mkPtok 37 "MetaData" 54 4 162) (mkPtok 3 "}" 55 4 168)) (mkPtok 37 "MetaData" 54 4 162) (mkPtok 42 "BodyLength" 54 13 163) (mkPtok 2 "{" 54 23 164) [(MIRef (mkRefMetaDecl (mkSpan (mkPtok 42 "options1" 54 24 165) (mkPtok 40 "," 54 43 167)) (mkPtok 42 "options1" 54 24 165) (mkPtok 42 "MetaDataX" 54 33 166) None (mkPtok 40 "," 54 43 167)))] (mkPtok 3 "}" 55 4 168)))])).
Eval vm_compute in ("<<<M1501>>>" ++ check (runes_of_ascii "  ")).
Eval vm_compute in ("<<<M1533>>>" ++ check (@nil rune)).
Eval vm_compute in ("<<<M1565>>>" ++ check (runes_of_ascii "
root packet x_y_z { string trueish
    @lengthOf( falsey	) ,
char[] asx ,  @tag(
0123456789)	stringy `tab	here`
    , @leftPad
(
'0')	@calculatedFrom(
    // " ++ [27880; 37322]%N ++ runes_of_ascii "
    ""abc""	)
u , @calculatedFrom(
    """ ++ [233]%N ++ runes_of_ascii "t" ++ [233]%N ++ runes_of_ascii """
)	@lengthOf(Packet) @lengthOf( uint8x )repeat x_y_z
{
    repeat char
chars, }
    , }

")).
Eval vm_compute in ("<<<M1597>>>" ++ check (runes_of_ascii "MetaData
    Packet
    { uint8 As `
`
    ,
    } MetaData charz{ //x
char[	65535 ]
    // `tick` ""quote"" 'q'
    repeatCount, Header BodyLength ,
char[ 0123456789 ]Logon
,}
    MetaData i8i8	{ uint8 Z9_ ,}
    packet // trailing space 
string_
{ repeat
string_ { // packet A { u8 x, }
f64 asx
, }  ,  string
asx	@lengthOf(
    asx
) ,} root packet len { string BodyLength `say ""hi""` , Header
    _x `" ++ [28040; 24687; 31867; 22411]%N ++ runes_of_ascii "` //
, }
")).
Eval vm_compute in ("<<<M1629>>>" ++ check (runes_of_ascii "
packet Foo
    // packet A { u8 x, }
    {@rightPad // @lengthOf(
(
'\x00' )
int16 x// 50% %s
,}")).
Eval vm_compute in ("<<<M1661>>>" ++ check (runes_of_ascii "packet len{
repeatCount`say ""hi""`
    ,
} packet rootA
{
zchar[1 ]	chars
    ,  @calculatedFrom(
    """ ++ [28040; 24687]%N ++ runes_of_ascii """ ) pack `doc` , @calculatedFrom(""x y"" )  char[]  x_y_z
`// not a comment` , @lengthOf( int) string
_x// packet A { u8 x, }
, match As	as
Foo	{0123456789	: float [ """ ++ [233]%N ++ runes_of_ascii "t" ++ [233]%N ++ runes_of_ascii """ ,	""" ++ [28040; 24687]%N ++ runes_of_ascii """
]
:packetx
,""1"" :// trailing space 
u128, [ 00
// " ++ [128512]%N ++ runes_of_ascii " emoji
/// triple
, 0123456789 ]
    : stringy
, ""x y"" : int ,0123456789
:	len ,
    // " ++ [128512]%N ++ runes_of_ascii " emoji
    }
    ,	@lengthOf(  roots
) match Foo as float	{65535 // " ++ [27880; 37322]%N ++ runes_of_ascii "
: Z9_
[
    3 ,0
, 4294967296 /// triple
, 10
,
    ""1"" ,
    ""it's""
    ,
    // 50% %s
    3 ] : // packet A { u8 x, }
body ""\" ++ [233]%N ++ runes_of_ascii """ //x
:packetx [ ""`tick`""
]	: packetx }
, }")).
Eval vm_compute in ("<<<M1693>>>" ++ check (runes_of_ascii "packet matchKey  {@rightPad ( '0' ) u64 float ,}
")).
Eval vm_compute in ("<<<T1693>>>" ++ terms [mkTok 35 "packet" 1 0 false; mkTok 42 "matchKey" 1 7 false; mkTok 2 "{" 1 17 false; mkTok 32 "@rightPad" 1 18 false; mkTok 8 "(" 1 28 false; mkTok 33 "'0'" 1 30 false; mkTok 6 ")" 1 34 false; mkTok 23 "u64" 1 36 false; mkTok 42 "float" 1 40 false; mkTok 40 "," 1 46 false; mkTok 3 "}" 1 47 false; mkTok 0 "<EOF>" 2 0 false] (mkPacket (mkPtok 35 "packet" 1 0 0) (Some (mkPtok 3 "}" 1 47 10)) [(DPacket (mkPacketDef (mkSpan (mkPtok 35 "packet" 1 0 0) (mkPtok 3 "}" 1 47 10)) None (mkPtok 35 "packet" 1 0 0) (mkPtok 42 "matchKey" 1 7 1) (mkPtok 2 "{" 1 17 2) [(mkFieldWithAttr (mkSpan (mkPtok 32 "@rightPad" 1 18 3) (mkPtok 40 "," 1 46 9)) [(FAPadding (mkSpan (mkPtok 32 "@rightPad" 1 18 3) (mkPtok 6 ")" 1 34 6)) (mkPaddingAttr (mkSpan (mkPtok 32 "@rightPad" 1 18 3) (mkPtok 6 ")" 1 34 6)) (mkPtok 32 "@rightPad" 1 18 3) (mkPtok 8 "(" 1 28 4) (Some (mkPtok 33 "'0'" 1 30 5)) (mkPtok 6 ")" 1 34 6)))] (MetaField (mkSpan (mkPtok 23 "u64" 1 36 7) (mkPtok 40 "," 1 46 9)) None (mkMetaDecl (mkSpan (mkPtok 23 "u64" 1 36 7) (mkPtok 40 "," 1 46 9)) (TyBasic (mkSpan (mkPtok 23 "u64" 1 36 7) (mkPtok 23 "u64" 1 36 7)) (mkBasicType (mkSpan (mkPtok 23 "u64" 1 36 7) (mkPtok 23 "u64" 1 36 7)) (mkPtok 23 "u64" 1 36 7))) (mkPtok 42 "float" 1 40 8) None (mkPtok 40 "," 1 46 9))))] (mkPtok 3 "}" 1 47 10)))])).
Eval vm_compute in ("<<<M1725>>>" ++ check (runes_of_ascii "// a // b
MetaData falsey{
lengthOf T ,
    // " ++ [128512]%N ++ runes_of_ascii " emoji
    T rootA ,
    BodyLength Header,zchar[
    007 ]float ,} // a // b")).
Eval vm_compute in ("<<<M1757>>>" ++ check (runes_of_ascii "root	packet msg_type	{
}")).
Eval vm_compute in ("<<<M1789>>>" ++ check (runes_of_ascii "MetaData matchKey {tag
    i8i8  , body
trueish `" ++ [233]%N ++ runes_of_ascii "` , calculatedFrom	leftPad , i8 stringy ,}")).
Eval vm_compute in ("<<<M1821>>>" ++ check (runes_of_ascii "
packet pack { u32 falsey `
`
    //
    , } 	 ")).
Eval vm_compute in ("<<<M1853>>>" ++ check (runes_of_ascii "MetaData chars // " ++ [128512]%N ++ runes_of_ascii " emoji
{ asx u8x , char[ 255 ] Packet `` ,	Logon Logon
,
} //")).
Eval vm_compute in ("<<<M1885>>>" ++ check (runes_of_ascii "root packet i64_
    {}
")).
Eval vm_compute in ("<<<M1917>>>" ++ check (runes_of_ascii "options// " ++ [128512]%N ++ runes_of_ascii " emoji
{
A =""packet""}
")).
Eval vm_compute in ("<<<T1917>>>" ++ terms [mkTok 1 "options" 1 0 false; mkTok 44 (string_of_bytes [47; 47; 32; 240; 159; 152; 128; 32; 101; 109; 111; 106; 105]%N) 1 7 true; mkTok 2 "{" 2 0 false; mkTok 42 "A" 3 0 false; mkTok 4 "=" 3 2 false; mkTok 31 """packet""" 3 3 false; mkTok 3 "}" 3 11 false; mkTok 0 "<EOF>" 4 0 false] (mkPacket (mkPtok 1 "options" 1 0 0) (Some (mkPtok 3 "}" 3 11 6)) [(DOption (mkOptionDef (mkSpan (mkPtok 1 "options" 1 0 0) (mkPtok 3 "}" 3 11 6)) (mkPtok 1 "options" 1 0 0) (mkPtok 2 "{" 2 0 2) [(mkOptionDecl (mkSpan (mkPtok 42 "A" 3 0 3) (mkPtok 31 """packet""" 3 3 5)) (mkPtok 42 "A" 3 0 3) (mkPtok 4 "=" 3 2 4) (VString (mkSpan (mkPtok 31 """packet""" 3 3 5) (mkPtok 31 """packet""" 3 3 5)) (mkPtok 31 """packet""" 3 3 5)) None)] (mkPtok 3 "}" 3 11 6)))])).
Eval vm_compute in ("<<<M1949>>>" ++ check (runes_of_ascii "packet uint8x {}  options{
    }
options	{a1	=
//
// " ++ [27880; 37322]%N ++ runes_of_ascii "
int64; }
    options {
    f32a
// 50% %s
// a // b
= char[ 0123456789	] } packet
    crc
{ // a // b
@leftPad ( '0'// " ++ [128512]%N ++ runes_of_ascii " emoji
) pack u8x ,
zchar[ 3
    ] f32a @lengthOf( As), repeat float64 Foo `it's` ,@tag(// `tick` ""quote"" 'q'
7 )roots f32a `line1
line2`
    ,MetaDataX o , @tag(
00  ) match matchKey // c
as roots
/// triple
// `tick` ""quote"" 'q'
{0
// packet A { u8 x, }
// " ++ [128512]%N ++ runes_of_ascii " emoji
:	msg_type,	""CRC32"" :u [
65535	]: len ""{,}"": crc , 4294967296 : falsey, [ ""x y"" , ""CRC32"" , 3 ,""abc"",	3,	""""
,0]: Pad // c
, //
} , @lengthOf( MetaDataX) repeat u16 metadata`doc`
// " ++ [128512]%N ++ runes_of_ascii " emoji
// " ++ [128512]%N ++ runes_of_ascii " emoji
,
    @leftPad( ' ' ) match roots as u128
{
""" ++ [128512]%N ++ runes_of_ascii """ : float , ""CRC32"" :
    falsey ,}
    ,
    // " ++ [128512]%N ++ runes_of_ascii " emoji
    @leftPad
( ' ' ) float32
    Z9_ @lengthOf(// trailing space 
f32a
    )`tab	here`
, @leftPad ( // a // b
)
zchar[
    0
    // `tick` ""quote"" 'q'
    ] BodyLength  ,}
")).
Eval vm_compute in ("<<<M1981>>>" ++ check (runes_of_ascii "options{ lengthOf= ""x y""
    } packet a1 { char[] matchKey `line1
line2`
    ,
    tag packetx  `{ , }` ,
// `tick` ""quote"" 'q'
// `tick` ""quote"" 'q'
} // " ++ [27880; 37322]%N ++ runes_of_ascii "
root packet
a1
    {} options
{ pack = // @lengthOf(
7	;
    // " ++ [27880; 37322]%N ++ runes_of_ascii "
    }
")).
Eval vm_compute in ("<<<M2013>>>" ++ check (@nil rune)).
Eval vm_compute in ("<<<M2045>>>" ++ check (runes_of_ascii "MetaData repeatCount { float64 packetx,
} root root packet  metadata {
char _x @lengthOf( trueish ), @leftPad
( ' '// " ++ [27880; 37322]%N ++ runes_of_ascii "
)/// triple
char[] len`doc` , // packet A { u8 x, }
repeatCount , }
")).
Eval vm_compute in ("<<<M2077>>>" ++ check (runes_of_ascii "MetaData repeatCount { float64 packetx,
} root packet  metadata {
char _x uint32 trueish ), @leftPad
( ' '// " ++ [27880; 37322]%N ++ runes_of_ascii "
)/// triple
char[] len`doc` , // packet A { u8 x, }
repeatCount , }
")).
Eval vm_compute in ("<<<M2109>>>" ++ check (runes_of_ascii "MetaData repeatCount { float64 packetx,
} root packet  metadata {
char _x @lengthOf( trueish ), @leftPad
( ' '// " ++ [27880; 37322]%N ++ runes_of_ascii "
/// triple
char[] len`doc` , // packet A { u8 x, }
repeatCount , }
")).
Eval vm_compute in ("<<<M2141>>>" ++ check (runes_of_ascii "MetaData repeatCount { float64 packetx,
} root packet  metadata {
char _x @lengthOf( trueish ), @leftPad
( ' '// " ++ [27880; 37322]%N ++ runes_of_ascii "
)/// triple
char[] len`doc` , // packet A { u8 x, }
repeatCount } ,
")).
Eval vm_compute in ("<<<M2173>>>" ++ check (runes_of_ascii "A{
leftPad
    =65535
;
a1 = true ; packetx=  '\x00' ; packetx
=  """ ++ [28040; 24687]%N ++ runes_of_ascii """MetaDataX= // " ++ [27880; 37322]%N ++ runes_of_ascii "
false }root // c
packet // packet A { u8 x, }
Pad { repeat
u8 Header
// packet A { u8 x, }
//	t
`{ , }`
// a // b
//x
, }
")).
Eval vm_compute in ("<<<M2205>>>" ++ check (runes_of_ascii "options{
leftPad
    =65535
;
a1  true ; packetx=  '\x00' ; packetx
=  """ ++ [28040; 24687]%N ++ runes_of_ascii """MetaDataX= // " ++ [27880; 37322]%N ++ runes_of_ascii "
false }root // c
packet // packet A { u8 x, }
Pad { repeat
u8 Header
// packet A { u8 x, }
//	t
`{ , }`
// a // b
//x
, }
")).
Eval vm_compute in ("<<<M2237>>>" ++ check (runes_of_ascii "options{
leftPad
    =65535
;
a1 = true ; packetx=  '\x00' packetx ;
=  """ ++ [28040; 24687]%N ++ runes_of_ascii """MetaDataX= // " ++ [27880; 37322]%N ++ runes_of_ascii "
false }root // c
packet // packet A { u8 x, }
Pad { repeat
u8 Header
// packet A { u8 x, }
//	t
`{ , }`
// a // b
//x
, }
")).
Eval vm_compute in ("<<<M2269>>>" ++ check (runes_of_ascii "options{
leftPad
    =65535
;
a1 = true ; packetx=  '\x00' ; packetx
=  """ ++ [28040; 24687]%N ++ runes_of_ascii """MetaDataX=")).
Eval vm_compute in ("<<<M2301>>>" ++ check (runes_of_ascii "options{
leftPad
    =65535
;
a1 = true ; packetx=  '\x00' ; packetx
=  """ ++ [28040; 24687]%N ++ runes_of_ascii """MetaDataX= // " ++ [27880; 37322]%N ++ runes_of_ascii "
false }root // c
packet // packet A { u8 x, }
Pad { repeat
u8 u8 Header
// packet A { u8 x, }
//	t
`{ , }`
// a // b
//x
, }
")).
Eval vm_compute in ("<<<M2333>>>" ++ check (runes_of_ascii "options{
leftPad
    =65535
;
a1 = true ; packetx=  '\x00' ; " ++ [233]%N ++ runes_of_ascii "packetx
=  """ ++ [28040; 24687]%N ++ runes_of_ascii """MetaDataX= // " ++ [27880; 37322]%N ++ runes_of_ascii "
false }root // c
packet // packet A { u8 x, }
Pad { repeat
u8 Header
// packet A { u8 x, }
//	t
`{ , }`
// a // b
//x
, }
")).
Eval vm_compute in ("<<<M2365>>>" ++ check (runes_of_ascii "
packet float
{")).
Eval vm_compute in ("<<<M2397>>>" ++ check (runes_of_ascii "
packet float
{	@calculatedFrom( """ ++ [233]%N ++ runes_of_ascii "t" ++ [233]%N ++ runes_of_ascii """ )
@rightPad ( '\x00' )
    @calculatedFrom( @calculatedFrom( ""x y"" ) string chars  ,
    // a // b
    char[0 ]
    u	@lengthOf( i8i8 ) `{ , }` ,repeat char[] o //x
`// not a comment`, } // c")).
Eval vm_compute in ("<<<M2429>>>" ++ check (runes_of_ascii "
packet float
{	@calculatedFrom( """ ++ [233]%N ++ runes_of_ascii "t" ++ [233]%N ++ runes_of_ascii """ )
@rightPad ( '\x00' )
    @calculatedFrom( ""x y"" ) string chars  ,
    // a // b
    MetaData 0 ]
    u	@lengthOf( i8i8 ) `{ , }` ,repeat char[] o //x
`// not a comment`, } // c")).
Eval vm_compute in ("<<<M2461>>>" ++ check (runes_of_ascii "
packet float
{	@calculatedFrom( """ ++ [233]%N ++ runes_of_ascii "t" ++ [233]%N ++ runes_of_ascii """ )
@rightPad ( '\x00' )
    @calculatedFrom( ""x y"" ) string chars  ,
    // a // b
    char[0 ]
    u	@lengthOf( i8i8 )  ,repeat char[] o //x
`// not a comment`, } // c")).
Eval vm_compute in ("<<<T2461>>>" ++ terms [mkTok 35 "packet" 2 0 false; mkTok 42 "float" 2 7 false; mkTok 2 "{" 3 0 false; mkTok 5 "@calculatedFrom(" 3 2 false; mkTok 31 (string_of_bytes [34; 195; 169; 116; 195; 169; 34]%N) 3 19 false; mkTok 6 ")" 3 25 false; mkTok 32 "@rightPad" 4 0 false; mkTok 8 "(" 4 10 false; mkTok 33 "'\x00'" 4 12 false; mkTok 6 ")" 4 19 false; mkTok 5 "@calculatedFrom(" 5 4 false; mkTok 31 """x y""" 5 21 false; mkTok 6 ")" 5 27 false; mkTok 15 "string" 5 29 false; mkTok 42 "chars" 5 36 false; mkTok 40 "," 5 43 false; mkTok 44 "// a // b" 6 4 true; mkTok 12 "char[" 7 4 false; mkTok 30 "0" 7 9 false; mkTok 13 "]" 7 11 false; mkTok 42 "u" 8 4 false; mkTok 7 "@lengthOf(" 8 6 false; mkTok 42 "i8i8" 8 17 false; mkTok 6 ")" 8 22 false; mkTok 40 "," 8 25 false; mkTok 36 "repeat" 8 26 false; mkTok 16 "char[]" 8 33 false; mkTok 42 "o" 8 40 false; mkTok 44 "//x" 8 42 true; mkTok 43 "`// not a comment`" 9 0 false; mkTok 40 "," 9 18 false; mkTok 3 "}" 9 20 false; mkTok 44 "// c" 9 22 true; mkTok 0 "<EOF>" 9 26 false] (mkPacket (mkPtok 35 "packet" 2 0 0) (Some (mkPtok 3 "}" 9 20 31)) [(DPacket (mkPacketDef (mkSpan (mkPtok 35 "packet" 2 0 0) (mkPtok 3 "}" 9 20 31)) None (mkPtok 35 "packet" 2 0 0) (mkPtok 42 "float" 2 7 1) (mkPtok 2 "{" 3 0 2) [(mkFieldWithAttr (mkSpan (mkPtok 5 "@calculatedFrom(" 3 2 3) (mkPtok 40 "," 5 43 15)) [(FACalculatedFrom (mkSpan (mkPtok 5 "@calculatedFrom(" 3 2 3) (mkPtok 6 ")" 3 25 5)) (mkCalculatedFrom (mkSpan (mkPtok 5 "@calculatedFrom(" 3 2 3) (mkPtok 6 ")" 3 25 5)) (mkPtok 5 "@calculatedFrom(" 3 2 3) (mkPtok 31 (string_of_bytes [34; 195; 169; 116; 195; 169; 34]%N) 3 19 4) (mkPtok 6 ")" 3 25 5))); (FAPadding (mkSpan (mkPtok 32 "@rightPad" 4 0 6) (mkPtok 6 ")" 4 19 9)) (mkPaddingAttr (mkSpan (mkPtok 32 "@rightPad" 4 0 6) (mkPtok 6 ")" 4 19 9)) (mkPtok 32 "@rightPad" 4 0 6) (mkPtok 8 "(" 4 10 7) (Some (mkPtok 33 "'\x00'" 4 12 8)) (mkPtok 6 ")" 4 19 9))); (FACalculatedFrom (mkSpan (mkPtok 5 "@calculatedFrom(" 5 4 10) (mkPtok 6 ")" 5 27 12)) (mkCalculatedFrom (mkSpan (mkPtok 5 "@calculatedFrom(" 5 4 10) (mkPtok 6 ")" 5 27 12)) (mkPtok 5 "@calculatedFrom(" 5 4 10) (mkPtok 31 """x y""" 5 21 11) (mkPtok 6 ")" 5 27 12)))] (MetaField (mkSpan (mkPtok 15 "string" 5 29 13) (mkPtok 40 "," 5 43 15)) None (mkMetaDecl (mkSpan (mkPtok 15 "string" 5 29 13) (mkPtok 40 "," 5 43 15)) (TyDynamic (mkSpan (mkPtok 15 "string" 5 29 13) (mkPtok 15 "string" 5 29 13)) (mkDynamicString (mkSpan (mkPtok 15 "string" 5 29 13) (mkPtok 15 "string" 5 29 13)) (mkPtok 15 "string" 5 29 13))) (mkPtok 42 "chars" 5 36 14) None (mkPtok 40 "," 5 43 15)))); (mkFieldWithAttr (mkSpan (mkPtok 12 "char[" 7 4 17) (mkPtok 40 "," 8 25 24)) [] (LengthField (mkSpan (mkPtok 12 "char[" 7 4 17) (mkPtok 40 "," 8 25 24)) (mkLengthFieldDecl (mkSpan (mkPtok 12 "char[" 7 4 17) (mkPtok 40 "," 8 25 24)) (Some (TyFixed (mkSpan (mkPtok 12 "char[" 7 4 17) (mkPtok 13 "]" 7 11 19)) (mkFixedString (mkSpan (mkPtok 12 "char[" 7 4 17) (mkPtok 13 "]" 7 11 19)) (mkPtok 12 "char[" 7 4 17) (mkPtok 30 "0" 7 9 18) (mkPtok 13 "]" 7 11 19)))) (mkPtok 42 "u" 8 4 20) (mkLengthOf (mkSpan (mkPtok 7 "@lengthOf(" 8 6 21) (mkPtok 6 ")" 8 22 23)) (mkPtok 7 "@lengthOf(" 8 6 21) (mkPtok 42 "i8i8" 8 17 22) (mkPtok 6 ")" 8 22 23)) None (mkPtok 40 "," 8 25 24)))); (mkFieldWithAttr (mkSpan (mkPtok 36 "repeat" 8 26 25) (mkPtok 40 "," 9 18 30)) [] (MetaField (mkSpan (mkPtok 36 "repeat" 8 26 25) (mkPtok 40 "," 9 18 30)) (Some (mkPtok 36 "repeat" 8 26 25)) (mkMetaDecl (mkSpan (mkPtok 16 "char[]" 8 33 26) (mkPtok 40 "," 9 18 30)) (TyDynamic (mkSpan (mkPtok 16 "char[]" 8 33 26) (mkPtok 16 "char[]" 8 33 26)) (mkDynamicString (mkSpan (mkPtok 16 "char[]" 8 33 26) (mkPtok 16 "char[]" 8 33 26)) (mkPtok 16 "char[]" 8 33 26))) (mkPtok 42 "o" 8 40 27) (Some (mkPtok 43 "`// not a comment`" 9 0 29)) (mkPtok 40 "," 9 18 30))))] (mkPtok 3 "}" 9 20 31)))])).
Eval vm_compute in ("<<<M2493>>>" ++ check (runes_of_ascii "
packet float
{	@calculatedFrom( """ ++ [233]%N ++ runes_of_ascii "t" ++ [233]%N ++ runes_of_ascii """ )
@rightPad ( '\x00' )
    @calculatedFrom( ""x y"" ) string chars  ,
    // a // b
    char[0 ]
    u	@lengthOf( i8i8 ) `{ , }` ,repeat char[] o //x
`// not a comment`} , // c")).
Eval vm_compute in ("<<<M2525>>>" ++ check (runes_of_ascii "' ' packet u128{
    repeat
    zchar[ 65535 ] u `" ++ [28040; 24687; 31867; 22411]%N ++ runes_of_ascii "` ,// `tick` ""quote"" 'q'
} packet i64_ {repeatCount
    `
` ,	} // " ++ [128512]%N ++ runes_of_ascii " emoji")).
Eval vm_compute in ("<<<M2557>>>" ++ check (runes_of_ascii "root packet u128{
    repeat
    zchar[ 65535  u `" ++ [28040; 24687; 31867; 22411]%N ++ runes_of_ascii "` ,// `tick` ""quote"" 'q'
} packet i64_ {repeatCount
    `
` ,	} // " ++ [128512]%N ++ runes_of_ascii " emoji")).
Eval vm_compute in ("<<<M2589>>>" ++ check (runes_of_ascii "root packet u128{
    repeat
    zchar[ 65535 ] u `" ++ [28040; 24687; 31867; 22411]%N ++ runes_of_ascii "` ,// `tick` ""quote"" 'q'
} packet { i64_ repeatCount
    `
` ,	} // " ++ [128512]%N ++ runes_of_ascii " emoji")).
Eval vm_compute in ("<<<M2621>>>" ++ check (runes_of_ascii "root packet u128{
    repeat
    zchar[ '\x01'65535 ] u `" ++ [28040; 24687; 31867; 22411]%N ++ runes_of_ascii "` ,// `tick` ""quote"" 'q'
} packet i64_ {repeatCount
    `
` ,	} // " ++ [128512]%N ++ runes_of_ascii " emoji")).
Eval vm_compute in ("<<<M2653>>>" ++ check (runes_of_ascii "
MetaData
roots { 
    BodyLength ,//	t
}
")).
Eval vm_compute in ("<<<M2685>>>" ++ check (runes_of_ascii "
MetaData
roots { int8
    BodyLength ,//	t
%}
")).
Eval vm_compute in ("<<<M2717>>>" ++ check (runes_of_ascii "options {Packet = false i8i8 = false; leftPad =
    '\x00'
    // `tick` ""quote"" 'q'
    ; o=255  ;
    // packet A { u8 x, }
    }")).
Eval vm_compute in ("<<<M2749>>>" ++ check (runes_of_ascii "options {Packet = ""CRC32""i8i8 = false; leftPad =
    
    // `tick` ""quote"" 'q'
    ; o=255  ;
    // packet A { u8 x, }
    }")).
Eval vm_compute in ("<<<M2781>>>" ++ check (runes_of_ascii "options {Packet = ""CRC32""i8i8 = false; leftPad =
    '\x00'
    // `tick` ""quote"" 'q'
    ; o=255  ;
    // packet A { u8 x, }
    uint16")).
Eval vm_compute in ("<<<M2813>>>" ++ check (runes_of_ascii "
packet , { @rightPad (
    // packet A { u8 x, }
    ' ' ) repeat u32	A
,matchKey ,
    @lengthOf( string_ ) @lengthOf( body )
    // a // b
    @lengthOf(float  )	repeat
int32 u8x
    // c
    `tab	here`
, } // a // b")).
Eval vm_compute in ("<<<M2845>>>" ++ check (runes_of_ascii "
packet metadata { @rightPad (
    // packet A { u8 x, }
    ' ' ) repeat 	A
,matchKey ,
    @lengthOf( string_ ) @lengthOf( body )
    // a // b
    @lengthOf(float  )	repeat
int32 u8x
    // c
    `tab	here`
, } // a // b")).
Eval vm_compute in ("<<<M2877>>>" ++ check (runes_of_ascii "
packet metadata { @rightPad (
    // packet A { u8 x, }
    ' ' ) repeat u32	A
,matchKey ,
    @lengthOf( ) string_ @lengthOf( body )
    // a // b
    @lengthOf(float  )	repeat
int32 u8x
    // c
    `tab	here`
, } // a // b")).
Eval vm_compute in ("<<<M2909>>>" ++ check (runes_of_ascii "
packet metadata { @rightPad (
    // packet A { u8 x, }
    ' ' ) repeat u32	A
,matchKey ,
    @lengthOf( string_ ) @lengthOf( body )
    // a // b
    @lengthOf(")).
Eval vm_compute in ("<<<M2941>>>" ++ check (runes_of_ascii "
packet metadata { @rightPad (
    // packet A { u8 x, }
    ' ' ) repeat u32	A
,matchKey ,
    @lengthOf( string_ ) @lengthOf( body )
    // a // b
    @lengthOf(float  )	repeat
int32 u8x
    // c
    `tab	here`
, } } // a // b")).
Eval vm_compute in ("<<<M2973>>>" ++ check (runes_of_ascii "packet {x
string
zchar , //	t
}
")).
Eval vm_compute in ("<<<M3005>>>" ++ check (runes_of_ascii "packet x? {
string
zchar , //	t
}
")).
Eval vm_compute in ("<<<M3037>>>" ++ check (runes_of_ascii "
MetaData Logon
{ // c
root packet
    Pad {
    } options
{
u
    =
    ""CRC32""
    // " ++ [128512]%N ++ runes_of_ascii " emoji
    i64_ = u16;
T =65535 x = ' '
    ; u128
= true ; }")).
Eval vm_compute in ("<<<M3069>>>" ++ check (runes_of_ascii "
MetaData Logon
{ // c
}root packet
    Pad {
    } {
options
u
    =
    ""CRC32""
    // " ++ [128512]%N ++ runes_of_ascii " emoji
    i64_ = u16;
T =65535 x = ' '
    ; u128
= true ; }")).
Eval vm_compute in ("<<<M3101>>>" ++ check (runes_of_ascii "
MetaData Logon
{ // c
}root packet
    Pad {
    } options
{
u
    =
    ""CRC32""
    // " ++ [128512]%N ++ runes_of_ascii " emoji
    i64_")).
Eval vm_compute in ("<<<M3133>>>" ++ check (runes_of_ascii "
MetaData Logon
{ // c
}root packet
    Pad {
    } options
{
u
    =
    ""CRC32""
    // " ++ [128512]%N ++ runes_of_ascii " emoji
    i64_ = u16;
T =65535 x = = ' '
    ; u128
= true ; }")).
Eval vm_compute in ("<<<M3165>>>" ++ check (runes_of_ascii "
MetaData Logon
{ // c
}root packet
    Pad {
    } options
{
u
    =
    ""CRC32""
    // " ++ [128512]%N ++ runes_of_ascii " emoji
    i64_ = u16;
T =65535 x = ' '
    ; u128
= true char[ }")).
Eval vm_compute in ("<<<M3197>>>" ++ check (@nil rune)).
Eval vm_compute in ("<<<M3229>>>" ++ check (runes_of_ascii "MetaData body{}
packet	Packet { x_y_z x_y_z @calculatedFrom(  ""a\\"")// `tick` ""quote"" 'q'
, }
")).
Eval vm_compute in ("<<<M3261>>>" ++ check (runes_of_ascii "MetaData body{")).
Eval vm_compute in ("<<<M3293>>>" ++ check (runes_of_ascii "packet f32a")).
Eval vm_compute in ("<<<M3325>>>" ++ check (runes_of_ascii "packet f32a {} root packet len {repeat u u // " ++ [128512]%N ++ runes_of_ascii " emoji
`{ , }` , }
")).
Eval vm_compute in ("<<<M3357>>>" ++ check (runes_of_ascii "packet f32a {}" ++ [233]%N ++ runes_of_ascii " root packet len {repeat u // " ++ [128512]%N ++ runes_of_ascii " emoji
`{ , }` , }
")).
Eval vm_compute in ("<<<M3389>>>" ++ check (runes_of_ascii "options{ _x=""\" ++ [233]%N ++ runes_of_ascii """;
    Logon = 10	; Foo= 7;
i64_= char[]} options { {
matchKey = ""// no comment"" // a // b
falsey = string
; trueish =
    4294967296
options1=
    ""it's"" string_	= true } options {
    /// triple
    }")).
Eval vm_compute in ("<<<M3421>>>" ++ check (runes_of_ascii "options{ u32=""\" ++ [233]%N ++ runes_of_ascii """;
    Logon = 10	; Foo= 7;
i64_= char[]} options {
matchKey = ""// no comment"" // a // b
falsey = string
; trueish =
    4294967296
options1=
    ""it's"" string_	= true } options {
    /// triple
    }")).
Eval vm_compute in ("<<<M3453>>>" ++ check (runes_of_ascii "options{ _x=""\" ++ [233]%N ++ runes_of_ascii """i64
    Logon = 10	; Foo= 7;
i64_= char[]} options {
matchKey = ""// no comment"" // a // b
falsey = string
; trueish =
    4294967296
options1=
    ""it's"" string_	= true } options {
    /// triple
    }")).
Eval vm_compute in ("<<<M3485>>>" ++ check (runes_of_ascii "options{ _x _x=""\" ++ [233]%N ++ runes_of_ascii """;
    Logon = 10	; Foo= 7;
i64_= char[]} options {
matchKey = ""// no comment"" // a // b
falsey = string
; trueish =
    4294967296
options1=
    ""it's"" string_	= true } options {
    /// triple
    }")).
Eval vm_compute in ("<<<M3517>>>" ++ check (runes_of_ascii "asx")).
Eval vm_compute in ("<<<M3549>>>" ++ check (runes_of_ascii "@leftPadx")).
Eval vm_compute in ("<<<M3581>>>" ++ check (runes_of_ascii """a\b""")).
Eval vm_compute in ("<<<M3613>>>" ++ check (runes_of_ascii "a
b")).
Eval vm_compute in ("<<<M3645>>>" ++ check (runes_of_ascii "packet A { char[ x ] y, }")).
Eval vm_compute in ("<<<M3677>>>" ++ check (runes_of_ascii "packet A { match k as n { [1,""a"",2] : B, }, }")).
Eval vm_compute in ("<<<M3709>>>" ++ check (runes_of_ascii "root options { }")).
Eval vm_compute in ("<<<M3741>>>" ++ check (runes_of_ascii "options { a = 1; } options { a = 1; }")).
Eval vm_compute in ("<<<T3741>>>" ++ terms [mkTok 1 "options" 1 0 false; mkTok 2 "{" 1 8 false; mkTok 42 "a" 1 10 false; mkTok 4 "=" 1 12 false; mkTok 30 "1" 1 14 false; mkTok 41 ";" 1 15 false; mkTok 3 "}" 1 17 false; mkTok 1 "options" 1 19 false; mkTok 2 "{" 1 27 false; mkTok 42 "a" 1 29 false; mkTok 4 "=" 1 31 false; mkTok 30 "1" 1 33 false; mkTok 41 ";" 1 34 false; mkTok 3 "}" 1 36 false; mkTok 0 "<EOF>" 1 37 false] (mkPacket (mkPtok 1 "options" 1 0 0) (Some (mkPtok 3 "}" 1 36 13)) [(DOption (mkOptionDef (mkSpan (mkPtok 1 "options" 1 0 0) (mkPtok 3 "}" 1 17 6)) (mkPtok 1 "options" 1 0 0) (mkPtok 2 "{" 1 8 1) [(mkOptionDecl (mkSpan (mkPtok 42 "a" 1 10 2) (mkPtok 41 ";" 1 15 5)) (mkPtok 42 "a" 1 10 2) (mkPtok 4 "=" 1 12 3) (VDigits (mkSpan (mkPtok 30 "1" 1 14 4) (mkPtok 30 "1" 1 14 4)) (mkPtok 30 "1" 1 14 4)) (Some (mkPtok 41 ";" 1 15 5)))] (mkPtok 3 "}" 1 17 6))); (DOption (mkOptionDef (mkSpan (mkPtok 1 "options" 1 19 7) (mkPtok 3 "}" 1 36 13)) (mkPtok 1 "options" 1 19 7) (mkPtok 2 "{" 1 27 8) [(mkOptionDecl (mkSpan (mkPtok 42 "a" 1 29 9) (mkPtok 41 ";" 1 34 12)) (mkPtok 42 "a" 1 29 9) (mkPtok 4 "=" 1 31 10) (VDigits (mkSpan (mkPtok 30 "1" 1 33 11) (mkPtok 30 "1" 1 33 11)) (mkPtok 30 "1" 1 33 11)) (Some (mkPtok 41 ";" 1 34 12)))] (mkPtok 3 "}" 1 36 13)))])).
Eval vm_compute in ("<<<M3773>>>" ++ check (runes_of_ascii "g7Rqdv\YuAdm-$oJsR72xIs,avV?p}}eSdY<r")).
Eval vm_compute in ("<<<M3805>>>" ++ check (runes_of_ascii "?ajC}0!|<RZFgbP?Jq5C6ISR,\")).
Eval vm_compute in ("<<<M3837>>>" ++ check (runes_of_ascii "CyAH[Z:rDIVlWF@!HvN$uY}Hlx+""Qk!v]")).
Eval vm_compute in ("<<<M3869>>>" ++ check (runes_of_ascii "Zm2Y%CcgJ2;Pdz)yd0oHIFi8")).
Eval vm_compute in ("<<<M3901>>>" ++ check (runes_of_ascii "0y)|%1MO4I8s$")).
Eval vm_compute in ("<<<M3933>>>" ++ check (runes_of_ascii "Y@Vj;fUQSY_H3x")).
Eval vm_compute in ("<<<M3965>>>" ++ check (runes_of_ascii "Y ""a")).
Eval vm_compute in ("<<<M3997>>>" ++ check (runes_of_ascii "!6L?>$?$$mu-X;P\V~1N9POp6WT""^=)`")).
