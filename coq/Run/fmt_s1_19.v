From FP Require Import Lexer Parser ShowPT Digest Formatter.
From Coq Require Import String List NArith.
Import ListNotations.
Open Scope string_scope.
Set Printing Width 100000000.
Set Printing Depth 100000000.
Definition show_fres (r : fres) : string :=
  match r with
  | FOk s => "OK:" ++ sh_escaped s ""
  | FErr s => "ERR:" ++ sh_escaped s ""
  | FPanic p => "PANIC:" ++ p
  end.
Definition check (rs : list rune) : string := digest (show_fres (format_res rs)).
Definition full (rs : list rune) : string := show_fres (format_res rs).
Eval vm_compute in ("<<<M855>>>" ++ check (runes_of_ascii "root packet crc	{ @calculatedFrom(""1""	) f32 x
, @calculatedFrom( ""// no comment""
)//x
string	chars ,	@calculatedFrom(  ""a\""b""
) @rightPad ( )
    @tag(
    7 )match A as matchKey {[ 42 ]:msg_type""x y"" : lengthOf
    ""a\\""
: packetx /// triple
,[""`tick`"",""x y""
, ""a\""b"" ,// packet A { u8 x, }
""x y""
, 00 ,
""it's""
    , 7
, """"
    ]: Logon }// a // b
,	@lengthOf(  falsey )repeat falsey `u8 x,` , u8x
{ int16
lengthOf
    `u8 x,` , f32a// " ++ [128512]%N ++ runes_of_ascii " emoji
packetx,
} , lengthOf @lengthOf(
calculatedFrom ) , @rightPad
('0')	f32	f32a ,
//
// packet A { u8 x, }
@calculatedFrom( """ ++ [128512]%N ++ runes_of_ascii """)tag ,
// " ++ [27880; 37322]%N ++ runes_of_ascii "
//x
string zchar `// not a comment` ,} MetaData matchKey {
    }	packet uint8x {
// a // b
//x
repeat lengthOf
// a // b
// @lengthOf(
{u16 u128 //
,Pad  , } , @tag( 4294967296	)
@calculatedFrom(	""x y"" ) @tag(	0) char[4294967296 ] options1 @calculatedFrom( ""CRC32"" )	,@rightPad ('\x00') repeat
    string
asx `a\` // " ++ [128512]%N ++ runes_of_ascii " emoji
, @calculatedFrom(
""" ++ [128512]%N ++ runes_of_ascii """ )	char[255
] len
@calculatedFrom(
""" ++ [233]%N ++ runes_of_ascii "t" ++ [233]%N ++ runes_of_ascii """ ) ,
@calculatedFrom( //x
""{,}"" )
repeat zchar
    calculatedFrom, @calculatedFrom( """ ++ [233]%N ++ runes_of_ascii "t" ++ [233]%N ++ runes_of_ascii """
    )string  o @lengthOf( u) ,uint64 falsey
    // " ++ [128512]%N ++ runes_of_ascii " emoji
    @calculatedFrom( ""\" ++ [233]%N ++ runes_of_ascii """ ) , zchar[ 65535 ] stringy @calculatedFrom( ""1""
), As , }packet BodyLength{  repeat uint32 body , zchar[ 65535 ]
    //	t
    Header ,As i8i8 `tab	here`,@calculatedFrom( """ ++ [128512]%N ++ runes_of_ascii """
    ) @rightPad( // trailing space 
'0'
) @tag(65535 )
    Pad { string
u128
, },@tag(  255 )
    @leftPad() @lengthOf(f32a) repeat o	,repeat i8i8{repeat f32a /// triple
float`line1
line2`, repeat char[ 0123456789 ]pack	`tab	here` , // `tick` ""quote"" 'q'
char[] x ,} ,
    @calculatedFrom(	"""" )
@lengthOf(lengthOf
    ) repeat char[ 65535 ] Foo , pack lengthOf , repeat Pad , }
packet // " ++ [128512]%N ++ runes_of_ascii " emoji
u8x {
    //
    @tag( // `tick` ""quote"" 'q'
255 ) repeat
zchar[ // trailing space 
4294967296
]
pack ,// " ++ [128512]%N ++ runes_of_ascii " emoji
char[ 0123456789 ] charz// trailing space 
@calculatedFrom( //x
""a\""b"" )// packet A { u8 x, }
,
    //
    @lengthOf( Header
)
// c
//x
f32a
    {  u128 @calculatedFrom(
    """"
    // " ++ [128512]%N ++ runes_of_ascii " emoji
    )
    `line1
line2` , T @calculatedFrom( ""a\""b""
)
, int32	lengthOf @lengthOf(
    msg_type  ) ,
Foo@calculatedFrom(
    ""a\""b""
) ,
} , }")).
Eval vm_compute in ("<<<M390>>>" ++ check (runes_of_ascii "packet
metadata
    { zchar[ 10]i64_ `say ""hi""` , repeat // " ++ [27880; 37322]%N ++ runes_of_ascii "
Header
// a // b
// " ++ [128512]%N ++ runes_of_ascii " emoji
uint8x ,@lengthOf( falsey ) int8
_x @calculatedFrom( ""x y"" )`{ , }` // c
,	stringy
metadata`a\` // " ++ [128512]%N ++ runes_of_ascii " emoji
, // " ++ [128512]%N ++ runes_of_ascii " emoji
@lengthOf(
Packet)
    i64_
{match crc  as Header
{[ 0 , 0123456789  ] : // c
Foo
    ,
    ""abc""
// trailing space 
// @lengthOf(
:pack , } ,match int as charz { 1
    /// triple
    : packetx , 7: MetaDataX	, // " ++ [128512]%N ++ runes_of_ascii " emoji
7
: a1 007  :zchar, ""CRC32""
    :
stringy , [ ""\" ++ [233]%N ++ runes_of_ascii """,""CRC32"" ] : i8i8	}
//
//x
, pack
    /// triple
    `doc`
, tag
{ _x@calculatedFrom( ""CRC32""
    )
    `
` ,
repeat asx
`{ , }` /// triple
,i32 _x //x
@calculatedFrom(
""\n"")  `u8 x,`, }
, }, f32a @lengthOf( chars // trailing space 
) , string Packet
    , @leftPad  (
    ' ' ) @lengthOf(
u8x ) // trailing space 
a1// " ++ [128512]%N ++ runes_of_ascii " emoji
@calculatedFrom(
    ""x y"" ) `doc` ,
options1 , body
`{ , }` , } MetaData Foo{ uint8 Z9_ `{ , }` , } packet Header
    { pack	{// trailing space 
leftPad	{ u128 i64_ , zchar[ 7
// @lengthOf(
// `tick` ""quote"" 'q'
] i64_ @calculatedFrom( ""packet"" ) // packet A { u8 x, }
`line1
line2` //x
, //
metadata Logon , char[10 // packet A { u8 x, }
]
asx @lengthOf( uint8x
) `it's`
    ,
} /// triple
, } ,@calculatedFrom( ""a\\"") Logon
@lengthOf(
    uint8x ) `
` , int64 msg_type
    , metadata
_x
// @lengthOf(
/// triple
, @leftPad  (	)
    trueish { Header {
//x
// `tick` ""quote"" 'q'
uint8x
    { char[0123456789]	leftPad	@calculatedFrom(
""" ++ [233]%N ++ runes_of_ascii "t" ++ [233]%N ++ runes_of_ascii """ )
    `" ++ [28040; 24687; 31867; 22411]%N ++ runes_of_ascii "`, } ,// " ++ [128512]%N ++ runes_of_ascii " emoji
char[ // a // b
1
    ]
// c
// packet A { u8 x, }
asx @calculatedFrom(  ""it's"" ) , roots	, } , }	, zchar[
    // " ++ [128512]%N ++ runes_of_ascii " emoji
    255 ]	Packet , // `tick` ""quote"" 'q'
repeat i8i8 , repeat
float64 u8x, @calculatedFrom(""" ++ [233]%N ++ runes_of_ascii "t" ++ [233]%N ++ runes_of_ascii """)
asx @calculatedFrom( ""a\""b"" ),
}  MetaData
    /// triple
    roots // packet A { u8 x, }
{}")).
Eval vm_compute in ("<<<M5>>>" ++ check (runes_of_ascii "root
packet zchar {
repeatCount // a // b
@lengthOf(  asx )	, match
string_ as o// @lengthOf(
{ 7 :packetx
    ,
    7 : Pad},// packet A { u8 x, }
zchar[ 65535 ]
    T
@calculatedFrom( /// triple
""" ++ [128512]%N ++ runes_of_ascii """
)
    , tag @lengthOf( // " ++ [27880; 37322]%N ++ runes_of_ascii "
u ) `crlf
line`,
    @calculatedFrom(
    // " ++ [128512]%N ++ runes_of_ascii " emoji
    """" ) _x	@calculatedFrom(// @lengthOf(
""a	b"" )
`// not a comment` ,match Z9_ as float { 0123456789 : calculatedFrom, ""{,}"":u //	t
} , @leftPad( ) @tag( 255	) @lengthOf(i8i8
    ) match
tag as
    trueish { 4294967296:	uint8x
    ,[ //x
65535 ] : u8x ,	10 : i64_,
""""
    :metadata
    } , int64 T , } root packet len { @tag(	0) Logon ,
@tag(255) repeat u64 packetx `it's`
    , @tag(
    4294967296 )
zchar[007 ]repeatCount `a\` , char[ 4294967296
]
// " ++ [128512]%N ++ runes_of_ascii " emoji
// packet A { u8 x, }
asx @calculatedFrom(
""it's"" ), }	root packet asx {	uint16 options1@lengthOf(
    matchKey ) `it's`	, }	root //
packet
Logon{ @lengthOf( asx) @calculatedFrom(  ""packet""
)	Z9_ @calculatedFrom(// " ++ [128512]%N ++ runes_of_ascii " emoji
""" ++ [28040; 24687]%N ++ runes_of_ascii """)
    ,
@tag(	007
    /// triple
    )
zchar[0123456789 ] i64_ ,
msg_type`line1
line2` , repeat zchar[
007 ]Pad
`
`	, falsey {
    chars lengthOf ``
    ,	match Header as lengthOf
    {
""" ++ [233]%N ++ runes_of_ascii "t" ++ [233]%N ++ runes_of_ascii """	: falsey 42:
uint8x , [ 007
,""abc""
    ,
// c
// a // b
""abc"" ,""a\\""  ,
65535 // c
,""a\""b"" ,
42, ""{,}"" ]:charz } , int64 //x
Foo // c
, Z9_@lengthOf( int )`it's`
, }
,
    @rightPad
    ( ) // trailing space 
string As @calculatedFrom(""" ++ [28040; 24687]%N ++ runes_of_ascii """ ) ,
    // c
    match matchKey as repeatCount{
4294967296 :msg_type	, """ ++ [28040; 24687]%N ++ runes_of_ascii """ : zchar 3  : u8x , """":	asx
// trailing space 
// `tick` ""quote"" 'q'
, } ,}
")).
Eval vm_compute in ("<<<M4452>>>" ++ check (runes_of_ascii "// " ++ [27880; 37322]%N ++ runes_of_ascii "
		packet a1
// " ++ [27880; 37322]%N ++ runes_of_ascii "
  	{ @calculatedFrom(

""" ++ [233]%N ++ runes_of_ascii "t" ++ [233]%N ++ runes_of_ascii """)Logon{ options1

falsey

    `// not a comment` , Z9_

    @calculatedFrom( ""packet""
)	,  int8 
        // trailing space 
Packet
`two words` 
// " ++ [128512]%N ++ runes_of_ascii " emoji

  // a // b
  , 
},

@tag(
007	)char[]chars
@lengthOf( Packet
    )`crlf
line` 
,

match 
msg_type
as 
Header
	{""" ++ [28040; 24687]%N ++ runes_of_ascii """

: _x 	 //x
    }
,repeat 
    //
      u128

{ 
Logon@calculatedFrom( 
""it's"" 
)  `{ , }`

    ,

} 
// " ++ [128512]%N ++ runes_of_ascii " emoji
  // c
    ,
int64 calculatedFrom 	 // c
		, 
repeat

zchar[

    0 
]  a1
	`say ""hi""`
    ,match options1 as repeatCount
    {	[
    //x
  ""1""	,""`tick`""

, 
	//
    // " ++ [128512]%N ++ runes_of_ascii " emoji
      10

    , 
""\" ++ [233]%N ++ runes_of_ascii """
    ,
0123456789 , 
""a\""b"" ]

:
    pack ,  // @lengthOf(
    	0123456789 
    // " ++ [128512]%N ++ runes_of_ascii " emoji

	: 
    // packet A { u8 x, }
Logon 
,255	:x}	,
@calculatedFrom(
	""abc"" )
@lengthOf(  
      // packet A { u8 x, }

	// " ++ [128512]%N ++ runes_of_ascii " emoji
      x
)	repeat Pad

{ u8x  {	uint8

    T
@lengthOf(

float) , 
match
Header  // `tick` ""quote"" 'q'

as  // a // b
	trueish	{ ""a	b""	:
	body //	t

  ,	}

,	int8	MetaDataX

@calculatedFrom( ""a	b""	)
	,

i8i8
Pad
	`" ++ [28040; 24687; 31867; 22411]%N ++ runes_of_ascii "`  , } 
,
repeat

i8 
	//
  A,// trailing space 

} , uint32

x@lengthOf(

Logon 
) /// triple
	  `two words` , }
packet trueish
{
	} 
MetaData
    // @lengthOf(
  msg_type	{	}  packet
i8i8

    {
@tag( 
007	) 
	//x

	zchar[ 
10
]	/// triple
  msg_type 
,
    }
")).
Eval vm_compute in ("<<<M1376>>>" ++ check (runes_of_ascii "packet i64_{
char
i64_ @calculatedFrom(
""\n"")
    ,// c
@tag( 1 )MetaDataX {
    uint32 options1 @calculatedFrom( ""a	b""),repeat
    zchar `" ++ [28040; 24687; 31867; 22411]%N ++ runes_of_ascii "` ,
    body @calculatedFrom(""x y"" )	`doc`	,
    zchar[ 10
// a // b
// trailing space 
]
string_ @calculatedFrom( // trailing space 
""1""
    ) `doc`,	} , T
    ,
    @calculatedFrom( ""CRC32"" ) matchKey {	_x@lengthOf(u8x )`" ++ [28040; 24687; 31867; 22411]%N ++ runes_of_ascii "` , }
, } options{float
=
char[00 ] ;
    string_ = // @lengthOf(
i16
; //x
} root  packet rootA {  metadata {
    float32 pack
    , repeat	i64 string_	, i16 body `u8 x,`, } ,@calculatedFrom(""CRC32""
) repeat calculatedFrom{ repeat char[ 00  ] MetaDataX , }
    , @tag(	65535
)
match falsey as
    lengthOf {
    7 : // c
leftPad 1	:o
    ""packet""
:// " ++ [27880; 37322]%N ++ runes_of_ascii "
asx ,// packet A { u8 x, }
0123456789 : pack , [ 0123456789 , ""\n"" , ""abc"" , 00
,""x y"" // " ++ [128512]%N ++ runes_of_ascii " emoji
, 10
]	: f32a , 42 :x ,} ,
    lengthOf @lengthOf( float  )
    //
    ,
// c
//
match _x
as x  {
    10 :options1	, ""packet"": chars
//
// `tick` ""quote"" 'q'
, 42 :
    o ,""1"":
    // " ++ [128512]%N ++ runes_of_ascii " emoji
    msg_type
    [ ""a	b"" , ""\" ++ [233]%N ++ runes_of_ascii """ ,
255,  ""it's"", 10 ] : // " ++ [27880; 37322]%N ++ runes_of_ascii "
Pad
,} , @calculatedFrom( ""\n"" )
    @leftPad () @lengthOf( x ) zchar[00
]
    Header,
a1
    // a // b
    {repeat f32 chars , float64 Foo ,
    }, //	t
}
//x
")).
Eval vm_compute in ("<<<M3619>>>" ++ check (runes_of_ascii "options {
    StringPrefixLenType = u16;
    ArrayPrefixLenType = u8;
    FixedStringPadFromLeft = true;
    FixedStringPadChar = ' ';
}
packet Quote {
    int64 OrderId,
    char[] Ref,
    @leftPad('0') char[5] price,
}
packet Heartbeat {
    zchar[3] venue,
    string Flags,
}
packet Trade {
    repeat InTag787 {
        i32 venue,
        char[5] sym,
        repeat InPx98 {
            char[11] Qty,
            Heartbeat,
            char[] price,
            u32 x,
            float64 count,
            repeat Quote,
        },
        zchar[7] Note,
        repeat char[1] Tail,
    },
    repeat char[2] seqNo,
    InTail55 {
        repeat Quote,
        string msgKind,
        InPx18 {
            char[] count,
            repeat Quote,
            uint16 Qty,
        },
        char[4] seqNo,
        repeat Heartbeat,
        repeat string sym,
    },
    repeat Quote,
    Heartbeat,
    @leftPad(' ') char[10] OrderId,
}
root packet Fill {
    Heartbeat,
    uint32 count,
    u8 OrderId,
    match OrderId as Body {
        96 : Quote,
        195 : Trade,
        187 : Heartbeat,
    },
    u32 venue @calculatedFrom(""CRC32""),
}
")).
Eval vm_compute in ("<<<M3707>>>" ++ check (runes_of_ascii "packet
rootA

{
    metadata {int32  body
    `doc`
, repeat calculatedFrom
	u8x

,
u32 float
	,
}

,	@lengthOf( 
	    // @lengthOf(

// trailing space 
    T )
    u8x Header
	,
    repeat
u16
	Z9_  ,
@leftPad ( '0' )repeat
Z9_	{
stringy	msg_type

`
`,As{  match
	i8i8

as

    chars
{	10:
    len,

    [""abc""
	,	42 

//	t
  // c
,

7]	:
leftPad ,  42
    :

lengthOf  ,
	00
:zchar , 
	//x
},
    i32

i64_// @lengthOf(
    ,
repeat lengthOf

    msg_type
	``	//x
  	,

}
,
	int16

Packet @calculatedFrom(

""packet"" 
) ,
    }, len	@lengthOf( float 

//
  )
    `two words`
	, @calculatedFrom(//	t
  ""a\""b"" 
) 
repeat
    pack

    ,
	@tag(
0
    )  float32
tag`tab	here`

    ,  rootA 
@calculatedFrom(

""// no comment"" )
    , 
@lengthOf(x_y_z  )
msg_type{ match
    crc
	as
string_
{ 0 :
    u8x

,
10
:// " ++ [27880; 37322]%N ++ runes_of_ascii "
      crc 
,	""x y"":
    Pad, 3:

a1,

007 :
    x ,
[

    """" 
]
    :
A  } ,
}
	, 
@calculatedFrom( ""CRC32"" 
)
    @rightPad

(
    ' ' )
@tag( 10)
    match
	zchar as 
body {
65535  // trailing space 

: 
// packet A { u8 x, }
    tag
	}
,
} ")).
Eval vm_compute in ("<<<M753>>>" ++ check (runes_of_ascii "MetaData
u8x {
    string Packet, leftPad _x `doc` ,
}options
{
//x
/// triple
Header = //	t
""1""
/// triple
//	t
x = '\x00' falsey= int64
f32a =char[ 007
    ] ;
Foo ='0'
    // @lengthOf(
    ;
    /// triple
    }
options {  leftPad = false
    // c
    Z9_=""a	b""
    asx = '0' }packet
    int { repeat stringy
falsey , @tag( // trailing space 
0 )//	t
repeat pack
    ,@tag(65535 )match
// a // b
// `tick` ""quote"" 'q'
Z9_ as lengthOf {
007 : MetaDataX ,
[ ""CRC32""
    ,""" ++ [233]%N ++ runes_of_ascii "t" ++ [233]%N ++ runes_of_ascii """	,	""packet""
, ""\n""
//x
//x
,""1"" // a // b
]: options1 ,[ ""CRC32"" , ""`tick`"" ,""\n"" ] :
int , 0123456789 : uint8x [3 ,  255 ]: lengthOf
,
    } , @leftPad (
    '\x00')
// packet A { u8 x, }
// trailing space 
repeat chars ``
    // " ++ [128512]%N ++ runes_of_ascii " emoji
    , @calculatedFrom(""x y""
    )@tag(
    /// triple
    10 ) @tag(	0123456789 ) _x rootA`a\`,  @lengthOf( stringy //
)int @calculatedFrom(
""{,}""	) , repeat u64
stringy , @lengthOf( rootA) match
f32a as len{[ 0]: charz , 42 : asx ""it's"" : body ""{,}""	:// " ++ [27880; 37322]%N ++ runes_of_ascii "
Logon
    ""\" ++ [233]%N ++ runes_of_ascii """ : BodyLength,
}	,
}
")).
Eval vm_compute in ("<<<M806>>>" ++ check (runes_of_ascii "packet repeatCount
// @lengthOf(
//
{ repeat	Header, char[
42
    ]rootA ``
    ,@lengthOf(
    stringy )repeat int16 leftPad
,repeat // `tick` ""quote"" 'q'
crc
    {
//x
// " ++ [128512]%N ++ runes_of_ascii " emoji
zchar[00  ]body
    @lengthOf( Foo) , repeat Logon { MetaDataX
    @lengthOf(trueish ) , uint8	asx@calculatedFrom( ""\" ++ [233]%N ++ runes_of_ascii """) , metadata {
uint8x @lengthOf( stringy ) ,
    repeat  BodyLength
metadata `say ""hi""` ,}
//x
//
, repeat char[] u, // trailing space 
}
, int16 matchKey ``
, char[]// trailing space 
u8x
@lengthOf(string_ )
    ,	} , // @lengthOf(
match Logon
as	zchar { [""x y"" , 65535// c
,  10 ] : chars [
    ""{,}""
    ,
""a\""b""]
:leftPad ,
    //	t
    65535 : metadata//
,[
    10 , 7 // a // b
, ""// no comment""
    ,// `tick` ""quote"" 'q'
0
    , 65535 , // `tick` ""quote"" 'q'
""abc""
, 7 // " ++ [27880; 37322]%N ++ runes_of_ascii "
,42
    ]  :MetaDataX
},
    repeat int8	packetx `// not a comment` ,// a // b
} packet
    x // a // b
{ u16 roots
,
} options{ int  =  4294967296 u8x = false ; }")).
Eval vm_compute in ("<<<M1272>>>" ++ check (runes_of_ascii "// @lengthOf(
packet options1 {@lengthOf(i8i8 ) i64_
int  `{ , }`, char[] int
, zchar[ 00
//	t
// packet A { u8 x, }
] len,
}
packet u128 {  @tag(  3 //	t
)	@calculatedFrom(
//
// @lengthOf(
""// no comment"" )
options1// packet A { u8 x, }
{ int16 //x
calculatedFrom @calculatedFrom( """ ++ [28040; 24687]%N ++ runes_of_ascii """ )	, chars @lengthOf( calculatedFrom )  ,crc
{
o @calculatedFrom( """ ++ [233]%N ++ runes_of_ascii "t" ++ [233]%N ++ runes_of_ascii """ ) , float u8x
    , repeat metadata uint8x , }
, }, float64	options1,@leftPad
( ) @lengthOf( Foo) @calculatedFrom(
""packet"")
//	t
// c
char[ 1 // c
] i8i8
@calculatedFrom( ""abc""
) `{ , }`	,
@leftPad  ( '0' )  T
{ int32
i8i8	`u8 x,`
    //
    , match
Z9_ as string_ { [ 7 , 10 , 65535 ,0 , 42, 255	, ""\" ++ [233]%N ++ runes_of_ascii """
    // packet A { u8 x, }
    ,
""`tick`""] : Foo ,
""" ++ [233]%N ++ runes_of_ascii "t" ++ [233]%N ++ runes_of_ascii """ :
u8x[ 255 , """" ,0
,
""""
, """ ++ [233]%N ++ runes_of_ascii "t" ++ [233]%N ++ runes_of_ascii """,
    255, 4294967296 , 00 ] : i64_ ,
10
    : Foo}
    ,
    // trailing space 
    pack @calculatedFrom( ""`tick`"" ) ,} ,
    a1//	t
`say ""hi""`, }
")).
Eval vm_compute in ("<<<M382>>>" ++ check (runes_of_ascii "
packet u {@calculatedFrom(""// no comment""  ) string
//	t
// a // b
string_
,@calculatedFrom( //	t
""\" ++ [233]%N ++ runes_of_ascii """ ) match string_ as
len  { """ ++ [233]%N ++ runes_of_ascii "t" ++ [233]%N ++ runes_of_ascii """ :
    roots ,	[""a\""b""
,
""x y"" , """", // `tick` ""quote"" 'q'
""" ++ [28040; 24687]%N ++ runes_of_ascii """ ,""packet"" , 7, 3  ]
    //x
    : /// triple
As, [ """ ++ [128512]%N ++ runes_of_ascii """ ,
    ""// no comment""	, 10 ,
    //
    10] : roots ,""" ++ [28040; 24687]%N ++ runes_of_ascii """ : packetx
    , //
[""1""] :	calculatedFrom ,[1
]
    :len , }, x_y_z
    @calculatedFrom( ""a\""b"") `say ""hi""` , As
    @lengthOf(
    roots
    ) ,
    // a // b
    @calculatedFrom( """ ++ [233]%N ++ runes_of_ascii "t" ++ [233]%N ++ runes_of_ascii """ ) char  i64_
@lengthOf(Header ) , //
u8 int
    @lengthOf(	i64_ )
    `crlf
line` ,// `tick` ""quote"" 'q'
@calculatedFrom( // " ++ [27880; 37322]%N ++ runes_of_ascii "
""1"" ) zchar[3 ] Packet
,
// `tick` ""quote"" 'q'
//x
uint8
    u128`line1
line2`
    ,
    }	options
    { Header = true
    ;  Packet
    // a // b
    =
    0123456789
    matchKey=
    /// triple
    zchar[ 4294967296] }
")).
Eval vm_compute in ("<<<M23>>>" ++ check (runes_of_ascii "root // c
packet msg_type	{ repeat// packet A { u8 x, }
A { repeat a1
    { repeat  len// trailing space 
, }
    ,pack string_,	zchar[ 7 ] msg_type  @lengthOf(u
) , } ,
    repeat
zchar[ // `tick` ""quote"" 'q'
00] tag, u64 o@calculatedFrom(""a\\""
    // trailing space 
    ) ,  }
    packet charz {@tag( 0
) // c
repeat
    // a // b
    u {
char[007 ] T,}, repeatCount @calculatedFrom( ""\n""
)
,
}packet
trueish {
@calculatedFrom( ""a\\"") @rightPad
    ('0' ) // `tick` ""quote"" 'q'
@lengthOf( BodyLength
) string asx @lengthOf( A	),
//x
/// triple
@rightPad (
' '
) match pack
    // @lengthOf(
    as leftPad
{  [
1 ]// a // b
:
body , [ ""a	b""]
:msg_type , // `tick` ""quote"" 'q'
10 :calculatedFrom ,7 : packetx,
""" ++ [233]%N ++ runes_of_ascii "t" ++ [233]%N ++ runes_of_ascii """
: roots ,	}
    ,@calculatedFrom(""1""
    )  repeat roots
    // c
    u8x
    ,}
")).
Eval vm_compute in ("<<<M4299>>>" ++ check (runes_of_ascii "
options { 
LittleEndian=false ;
	StringPrefixLenType = u8
;

    ArrayPrefixLenType =

u8; FixedStringPadFromLeft
    =true
	; 
FixedStringPadChar 
=
' ' ;

    }

packet
	Trade
    {  zchar[

2

    ] 
Side2
    , i8
seqNo ,

    } packet

    Party{  uint32 price ,}
	packet	Ack
{
@rightPad	(
    '\x00'
)

    char[	6 
] x	, 
repeat	char[4]
	Flags  ,

    zchar[ 
9

    ]
f1 , }
	packet Cancel

    { 
Ack

, } 
packet
    Heartbeat 
{
    string	Px

,

string
Acct ,
f64 Side2,
InQty24
	{	i16	seqNo ,  repeat i32
Flags
,
    }

    , } 
root packet
	Logon
{
	Trade ,i64  venue	,
	u32
x,
    u8 seqNo
, match

    seqNo as

Body
{[ 1
	,

164]
:
Ack 
,31:Cancel
    , 23 :

Heartbeat

    ,

    64
    :
    Party ,}, }")).
Eval vm_compute in ("<<<M303>>>" ++ check (runes_of_ascii "root packet tag
    //x
    { @tag(
// trailing space 
//x
4294967296) zchar[ 255
    ]
    Foo	@calculatedFrom( ""\" ++ [233]%N ++ runes_of_ascii """  )// trailing space 
, @lengthOf( // packet A { u8 x, }
packetx
) @tag( 1) @lengthOf( string_ ) // a // b
zchar[
255] u	, Z9_ {repeat stringy  {repeat
body , }
    ,
    // `tick` ""quote"" 'q'
    } ,
    //
    repeat uint8  a1 , i64// c
tag  ,
    // " ++ [128512]%N ++ runes_of_ascii " emoji
    }
    packet uint8x { // a // b
@lengthOf( BodyLength	) @lengthOf( int )
    //
    uint64 As `{ , }` ,
    char[
65535	] zchar
// " ++ [27880; 37322]%N ++ runes_of_ascii "
// trailing space 
@lengthOf(
    stringy ) `tab	here` ,rootA @calculatedFrom( // a // b
""x y"" ) , repeat options1	{ i8i8 calculatedFrom,
// " ++ [27880; 37322]%N ++ runes_of_ascii "
// `tick` ""quote"" 'q'
}, repeat char[ 0]
    MetaDataX ,} //")).
Eval vm_compute in ("<<<M442>>>" ++ check (runes_of_ascii "
packet tag {
float32 repeatCount @calculatedFrom( ""// no comment"") ,}
    packet i64_{
char[00 ] calculatedFrom ,// " ++ [128512]%N ++ runes_of_ascii " emoji
@calculatedFrom( ""packet"" ) i16  Packet ,
    falsey
    { char[]
    // c
    calculatedFrom @lengthOf( stringy )
    // `tick` ""quote"" 'q'
    `` ,}//
, repeat i32 matchKey , repeat char[ 7
    ]/// triple
tag`// not a comment` ,leftPad
{// @lengthOf(
char[]
    i8i8 , }
,  @lengthOf(x_y_z) char[ 3 ] matchKey ``  ,float { char[] chars, repeat
    zchar[  1 ]x_y_z ,
} , i8 x_y_z
//	t
//
,
string asx //
,} root packet
int{  chars @lengthOf(
    Foo	)
`a\`,  repeat
    char[ 0123456789
]
    BodyLength , i8 T
    , @rightPad
(
    ) u64 lengthOf	, }
")).
Eval vm_compute in ("<<<M3954>>>" ++ check (runes_of_ascii "

  options {

    int=

""`tick`""
    ; 
Foo=

' '
    ;	Foo
    = ""x y"" ;  x_y_z =""x y"" 
//	t

	;  } 
packet

    uint8x{
	@lengthOf(
	int 
	    // `tick` ""quote"" 'q'
	// trailing space 
  )
@tag(0 )  Pad// `tick` ""quote"" 'q'
      ,u8
	x ,  @lengthOf( Z9_ 
)f32	BodyLength

`crlf
line` ,
repeat	char[ 255 
] f32a,repeat

msg_type	lengthOf , @leftPad
(

'\x00'
) repeat

int32  asx  ,	repeat
    string

f32a 	 //x

  , // `tick` ""quote"" 'q'
		} MetaData
packetx { int64  asx
	,	Foo

    len

`// not a comment` , 
i32 MetaDataX`" ++ [233]%N ++ runes_of_ascii "`
	,
    Foo  Header	`line1
line2`
,
	zchar[
0123456789]lengthOf
,

    float32 
metadata	,

    }")).
Eval vm_compute in ("<<<M985>>>" ++ check (runes_of_ascii "MetaData
    i64_
    {
    int
rootA
/// triple
// @lengthOf(
, char[ 0 ]
    A
    `{ , }` , u128 rootA`doc`
, // @lengthOf(
zchar[//x
42  ] i8i8`it's` ,
    /// triple
    char[ 00	] u , zchar[ 0123456789] A `line1
line2`	,	}	packet Z9_
{ @lengthOf(
pack
    )
@calculatedFrom(	""a\\"") BodyLength @calculatedFrom( ""\" ++ [233]%N ++ runes_of_ascii """)
    , @rightPad ( ) @tag( 1 )@lengthOf(
    i8i8  )
    char[]  trueish , f32a
@calculatedFrom( """ ++ [28040; 24687]%N ++ runes_of_ascii """	) `u8 x,` ,	@tag(
    /// triple
    65535 ) string trueish , } packet
BodyLength
{ stringy @lengthOf( Z9_ ) ,
    char[ 007
]metadata
@calculatedFrom(
/// triple
// @lengthOf(
"""" )
`" ++ [233]%N ++ runes_of_ascii "`, }
")).
Eval vm_compute in ("<<<M1197>>>" ++ check (runes_of_ascii "options { u8x
    = // @lengthOf(
""it's"" x_y_z = //
42 o
    = true ;MetaDataX
='0' ;	}
MetaData	calculatedFrom { i64 trueish , // " ++ [27880; 37322]%N ++ runes_of_ascii "
u16 stringy
    `two words`,u8x
    repeatCount,int8 matchKey
    ,} packet MetaDataX {@calculatedFrom( ""\" ++ [233]%N ++ runes_of_ascii """ ) uint8x
//x
/// triple
@lengthOf(
    /// triple
    uint8x) ,
    //	t
    repeat zchar[ 007 ]	Foo`" ++ [233]%N ++ runes_of_ascii "` , @lengthOf(
/// triple
// a // b
metadata  ) @tag(1 )
match metadata as BodyLength { 00 :
tag ,
""a	b"" :	Packet
, [ ""abc""]:	pack },
//	t
// " ++ [27880; 37322]%N ++ runes_of_ascii "
}  root packet
packetx
    { @leftPad( '\x00'
)f32a
@lengthOf( options1 ) , }
packet MetaDataX
{ }
")).
Eval vm_compute in ("<<<M336>>>" ++ check (runes_of_ascii "root
packet  lengthOf { @lengthOf(
    i64_ ) string repeatCount
    @calculatedFrom( """ ++ [28040; 24687]%N ++ runes_of_ascii """
)
    `doc` ,repeat
char[]	f32a `two words` //x
, @lengthOf( //x
i64_) char[]a1 ,//
match float as	BodyLength	{
"""" // " ++ [27880; 37322]%N ++ runes_of_ascii "
:tag , """ ++ [28040; 24687]%N ++ runes_of_ascii """ : roots
, ""// no comment""
    :
A ,
} , metadata , repeat // `tick` ""quote"" 'q'
char[
0123456789 ]
a1 `a\`, @leftPad (
    '\x00'
    )
    zchar lengthOf ,
    repeat
    // a // b
    char[] calculatedFrom
    // @lengthOf(
    , @rightPad( '\x00' ) @rightPad (
    '\x00' // " ++ [27880; 37322]%N ++ runes_of_ascii "
)
    i8
    BodyLength ,	}
options{ } options { }
")).
Eval vm_compute in ("<<<M316>>>" ++ check (runes_of_ascii "options { falsey
// " ++ [128512]%N ++ runes_of_ascii " emoji
// " ++ [27880; 37322]%N ++ runes_of_ascii "
= ""abc""; roots = // c
'0'	;MetaDataX
=
// " ++ [128512]%N ++ runes_of_ascii " emoji
// " ++ [128512]%N ++ runes_of_ascii " emoji
'0' ; //
crc= // " ++ [128512]%N ++ runes_of_ascii " emoji
42 // a // b
x	= '0'
; } packet A {  repeat uint64 u128 , @tag(
65535) int16
options1
    `line1
line2` , } options { // packet A { u8 x, }
int
=
""// no comment""msg_type  = zchar[ 0123456789
    /// triple
    ] ; calculatedFrom =// @lengthOf(
u8	;
    asx=
""" ++ [28040; 24687]%N ++ runes_of_ascii """ ; body = 10 } options { charz = true	metadata = char[]
; Packet// c
=  true}
packet Logon
{
@calculatedFrom( """ ++ [128512]%N ++ runes_of_ascii """ )
    repeat packetx rootA,}

")).
Eval vm_compute in ("<<<M126>>>" ++ check (runes_of_ascii "root packet pack { @calculatedFrom(	""`tick`"")
    @calculatedFrom(
    // " ++ [128512]%N ++ runes_of_ascii " emoji
    ""\n"" ) @tag( 0123456789 )match zchar as string_ {	[ ""packet"" ] //
:  i8i8 , [
0123456789 , 7	] :string_ ,
//x
// `tick` ""quote"" 'q'
0 : options1 ,
""\" ++ [233]%N ++ runes_of_ascii """
:// `tick` ""quote"" 'q'
Foo	,}
, @lengthOf(	calculatedFrom )
Foo	@lengthOf(
    x)
`crlf
line`
, lengthOf @lengthOf(int )  ,T , @lengthOf(  rootA) zchar[
007 ]
// " ++ [128512]%N ++ runes_of_ascii " emoji
// packet A { u8 x, }
x`crlf
line` , @calculatedFrom(
    ""\n""	) repeat f64	chars
, matchKey _x, }")).
Eval vm_compute in ("<<<M603>>>" ++ check (runes_of_ascii "// trailing space 
packet packetx { leftPad//
{ repeat msg_type // @lengthOf(
charz , char a1 @lengthOf( stringy )`` , repeat int16
//x
/// triple
u8x , int64
u
// packet A { u8 x, }
//	t
`" ++ [28040; 24687; 31867; 22411]%N ++ runes_of_ascii "`  ,
} , // trailing space 
@tag( 0 ) match Packet
    as u8x{
007 : u8x [0123456789,	""x y"" ]: u128 , 007 : // packet A { u8 x, }
u 65535	:o
,7
: u, }// @lengthOf(
,
    } // `tick` ""quote"" 'q'
root// " ++ [27880; 37322]%N ++ runes_of_ascii "
packet trueish { char[ 0  ] Logon ,@tag(
00 ) u32
    x_y_z @lengthOf( options1 ) , }
")).
Eval vm_compute in ("<<<M717>>>" ++ check (runes_of_ascii "packet// `tick` ""quote"" 'q'
A{ match packetx as As {	007 :body , [255
    ,
""\" ++ [233]%N ++ runes_of_ascii """,
65535 ,""a	b"" ]: float[255 , ""a\""b"" ]
:
i64_  } , @calculatedFrom( ""\" ++ [233]%N ++ runes_of_ascii """ ) @calculatedFrom(
""CRC32""
)//
Z9_@calculatedFrom( ""it's"" ) `
` ,} MetaData calculatedFrom
{
    i16 len // c
, zchar[
    42
    ]
    A
`{ , }`
,string tag `doc` ,float
    matchKey,
char[ 7
    ] len `
` ,
// `tick` ""quote"" 'q'
//
}root packet int {
@lengthOf(
int)  i8  u @lengthOf(len ),
} options { }
")).
Eval vm_compute in ("<<<M820>>>" ++ check (runes_of_ascii "MetaData uint8x
{ stringy charz ,	char[ 00] Z9_
    //
    `{ , }`
// @lengthOf(
// a // b
, char[ 0123456789 ]charz	, } packet msg_type{repeat char[ 42 ]	trueish `// not a comment` ,	@lengthOf( A
//
//
) zchar[ 4294967296//x
]string_
// " ++ [27880; 37322]%N ++ runes_of_ascii "
//x
,
//x
// @lengthOf(
repeat MetaDataX `// not a comment`,  }
    packet A{ As{ char[4294967296]
// c
// packet A { u8 x, }
zchar @lengthOf( Foo ) `a\`,
// trailing space 
// packet A { u8 x, }
}
,  }
")).
Eval vm_compute in ("<<<M43>>>" ++ check (runes_of_ascii "
packet A
{ repeat lengthOf {
len ,
    } , @tag(// trailing space 
42	) match Header
    as falsey
{ [
""" ++ [128512]%N ++ runes_of_ascii """//
, ""\n"", 4294967296 ]
    : Packet
1 :	falsey,
""\" ++ [233]%N ++ runes_of_ascii """ // " ++ [128512]%N ++ runes_of_ascii " emoji
:
    charz } , zchar[255
]
// packet A { u8 x, }
// trailing space 
rootA , repeat  char[ 10 ]// `tick` ""quote"" 'q'
f32a
// trailing space 
//x
,@calculatedFrom(  ""// no comment"") char[ 00 ]trueish@calculatedFrom(
    // " ++ [27880; 37322]%N ++ runes_of_ascii "
    ""a\""b"" )`line1
line2` ,}")).
Eval vm_compute in ("<<<M981>>>" ++ check (runes_of_ascii "packet msg_type { uint32// a // b
i8i8 `say ""hi""` ,
match packetx	as  asx
    {
0123456789:
    msg_type ,
    1
    :
    _x } ,
repeat As	{ f32 body ,string msg_type
, f64
    roots
//
// " ++ [27880; 37322]%N ++ runes_of_ascii "
, }
    // `tick` ""quote"" 'q'
    ,
char[] options1`say ""hi""`  ,	}	options { msg_type = true ;} packet	crc{
asx x_y_z , } MetaData T {T	i8i8
, int16
zchar
,int tag
,
    string x_y_z`
` ,
    float32
metadata , }
")).
Eval vm_compute in ("<<<M971>>>" ++ check (runes_of_ascii "packet A { tag T
`u8 x,`
//
// `tick` ""quote"" 'q'
, @calculatedFrom( ""a\\"" )match Header as charz
    {
    1 : Z9_ , 65535 :  falsey ,
    // " ++ [128512]%N ++ runes_of_ascii " emoji
    ""it's"" :
trueish ,
    ""x y"": stringy ,
""x y"" :
falsey ,  } ,
float uint8x  , } options {trueish =
    char[] ;}
    MetaData
i64_ { stringy
roots
`a\` ,	zchar[ 4294967296 ] repeatCount , }
MetaData body {  u8x
    int
, a1 f32a , }
")).
Eval vm_compute in ("<<<M424>>>" ++ check (runes_of_ascii "root	packet x { f64 trueish @calculatedFrom(""" ++ [28040; 24687]%N ++ runes_of_ascii """ )
, @calculatedFrom(
    ""a	b""
)  zchar[ 00	]
lengthOf , char[] roots
`tab	here`	, @leftPad ( '\x00'
    ) char[]
body ,
    // " ++ [27880; 37322]%N ++ runes_of_ascii "
    Header {
string
    _x
, i32 falsey ,repeat uint8 Packet , //	t
float32 leftPad
    @lengthOf( u )
`a\` , },
int32 // " ++ [27880; 37322]%N ++ runes_of_ascii "
chars , @calculatedFrom(""\n"" ) repeat// c
u32 roots
    ,  o `` , }")).
Eval vm_compute in ("<<<M4501>>>" ++ check (runes_of_ascii "root packet MetaDataX {
    @leftPad('\x00')
    i8i8 @lengthOf(charz),
    repeat u8x `crlf
    line`,
    zchar `line1
    line2`,
    @lengthOf(stringy)
    repeat char[00] packetx,
}

/// triple
root packet charz {
    match repeatCount as float {
        //	t
        0123456789 : Packet,
    },
    string x_y_z @calculatedFrom(""\n""),
}

options {
}")).
Eval vm_compute in ("<<<M3653>>>" ++ check (runes_of_ascii "options {
    FixedStringPadFromLeft = true;
    FixedStringPadChar = ' ';
}
packet Reject {
}
packet Fill {
    repeat i16 Tail,
}
root packet Trade {
    float64 Ref,
    Fill,
    u8 Note,
    u16 count @lengthOf(Body),
    match Note as Body {
        [98, 101] : Fill,
        34 : Reject,
    },
    u32 x @calculatedFrom(""CRC32""),
}
")).
Eval vm_compute in ("<<<M517>>>" ++ check (runes_of_ascii "root
packet Header {@calculatedFrom(
""a\""b"" ) o MetaDataX
`{ , }`	, float  , repeat u8
    string_ , repeat a1 {
    repeat
zchar[ 3 /// triple
] a1 , repeat  Foo// " ++ [27880; 37322]%N ++ runes_of_ascii "
u ,} ,
} MetaData uint8x { } MetaData
    int
    {
    zchar[ 4294967296 ]roots
,
}
MetaData i64_ { zchar[/// triple
1
]
    falsey `// not a comment` , }
")).
Eval vm_compute in ("<<<M1958>>>" ++ check (runes_of_ascii "MetaData
    u { }  options {
// c
// @lengthOf(
float = int8 ;rootA =false ; As =	int16 // `tick` ""quote"" 'q'
repeatCount
    // trailing space 
    =
    int16
packet u8x =
    //	t
    '\x00' ; } options	{
    repeatCount
= 0
u128
    //
    = false ; i64_
// trailing space 
// `tick` ""quote"" 'q'
= '0' ; //	t
}
")).
Eval vm_compute in ("<<<M1911>>>" ++ check (runes_of_ascii "MetaData
    u { }  options {
// c
// @lengthOf(
float = int8 ;rootA = =false ; As =	int16 // `tick` ""quote"" 'q'
repeatCount
    // trailing space 
    =
    int16
; u8x =
    //	t
    '\x00' ; } options	{
    repeatCount
= 0
u128
    //
    = false ; i64_
// trailing space 
// `tick` ""quote"" 'q'
= '0' ; //	t
}
")).
Eval vm_compute in ("<<<M2013>>>" ++ check (runes_of_ascii "MetaData
    u { }  options {
// c
// @lengthOf(
float = int8 ;rootA =false ; As =	int16 // `tick` ""quote"" 'q'
repeatCount
    // trailing space 
    =
    int16
; u8x =
    //	t
    '\x00' ; } options	{
    repeatCount
= 0
false
    //
    = false ; i64_
// trailing space 
// `tick` ""quote"" 'q'
= '0' ; //	t
}
")).
Eval vm_compute in ("<<<M1957>>>" ++ check (runes_of_ascii "MetaData
    u { }  options {
// c
// @lengthOf(
float = int8 ;rootA =false ; As =	int16 // `tick` ""quote"" 'q'
repeatCount
    // trailing space 
    =
    int16
u8x ; =
    //	t
    '\x00' ; } options	{
    repeatCount
= 0
u128
    //
    = false ; i64_
// trailing space 
// `tick` ""quote"" 'q'
= '0' ; //	t
}
")).
Eval vm_compute in ("<<<M1890>>>" ++ check (runes_of_ascii "MetaData
    u { }  options {
// c
// @lengthOf(
float  int8 ;rootA =false ; As =	int16 // `tick` ""quote"" 'q'
repeatCount
    // trailing space 
    =
    int16
; u8x =
    //	t
    '\x00' ; } options	{
    repeatCount
= 0
u128
    //
    = false ; i64_
// trailing space 
// `tick` ""quote"" 'q'
= '0' ; //	t
}
")).
Eval vm_compute in ("<<<M1895>>>" ++ check (runes_of_ascii "MetaData
    u { }  options {
// c
// @lengthOf(
float =  ;rootA =false ; As =	int16 // `tick` ""quote"" 'q'
repeatCount
    // trailing space 
    =
    int16
; u8x =
    //	t
    '\x00' ; } options	{
    repeatCount
= 0
u128
    //
    = false ; i64_
// trailing space 
// `tick` ""quote"" 'q'
= '0' ; //	t
}
")).
Eval vm_compute in ("<<<M2049>>>" ++ check (runes_of_ascii "MetaData
    u { }  options {
// c
// @lengthOf(
float = int8 ;rootA =false ; As =	int16 // `tick` ""quote"" 'q'
repeatCount
    // trailing space 
    =
    int16
; u8x =
    //	t
    '\x00' ; } options	{
    repeatCount
= 0
u128
    //
    = false ; i64_
// trailing space 
// `tick` ""quote"" 'q'
= '0'")).
Eval vm_compute in ("<<<M3999>>>" ++ check (runes_of_ascii "// top
options {
    // c1
    charz = f64;
    // c5
    metadata = 7;
    // c9
}

// c10
options {
    // c12
    u128 = 10
    // c15
    options1 = true;
    // c19
    zchar = uint16;
    // c23
    lengthOf = true;
    // c27
}

// c28
options {
    // c30
    len = 1
    // c33
}
// c34")).
Eval vm_compute in ("<<<M1020>>>" ++ check (runes_of_ascii "root
packet BodyLength { match tag as
float  {10 ://x
a1, }
,char[255 ] Z9_	`" ++ [28040; 24687; 31867; 22411]%N ++ runes_of_ascii "`
    , // @lengthOf(
@calculatedFrom( ""packet""	) int64 packetx @calculatedFrom( ""{,}"" // @lengthOf(
)
`doc`	, }packet
    x
{	} packet
    roots
// " ++ [27880; 37322]%N ++ runes_of_ascii "
//	t
{
    @tag( 0)repeat
    chars `doc` , }
")).
Eval vm_compute in ("<<<M1040>>>" ++ check (runes_of_ascii "packet
string_ {zchar[// " ++ [128512]%N ++ runes_of_ascii " emoji
255]chars
@lengthOf( leftPad)
, } options
    { repeatCount= true ;msg_type // c
=  ' '
    ;
rootA = true
;}
root packet len//	t
{ zchar[  7 ]
BodyLength@calculatedFrom( """ ++ [128512]%N ++ runes_of_ascii """ ) ,
    }MetaData
    charz{ string Packet, /// triple
}
")).
Eval vm_compute in ("<<<M4220>>>" ++ check (runes_of_ascii "  /// triple

packet  trueish
    {	// packet A { u8 x, }
	  repeat int	`crlf
line`
,
repeat int32 // c
    o , 
}

    packet 
string_	{

T
    Logon	,
i64_ ,

string_ ,	char[ 10 
]zchar @lengthOf(

    u128 	 /// triple
      ) `say ""hi""`

    ,
	}
")).
Eval vm_compute in ("<<<M1528>>>" ++ check (runes_of_ascii "packet
//	t
// trailing space 
_x {
// packet A { u8 x, }
// c
char[
3
    ] u8x @lengthOf(
u8x u8x ) , @calculatedFrom(""" ++ [128512]%N ++ runes_of_ascii """ // @lengthOf(
)
i16	Foo
@lengthOf(	string_
    )`doc`	, repeat	i64 metadata , @lengthOf( string_
) i8 // c
u  `line1
line2`	,
}
")).
Eval vm_compute in ("<<<M1643>>>" ++ check (runes_of_ascii "packet
//	t
// trailing space 
_x {
// packet A { u8 x, }
// c
char[
3
    ] u8x @lengthOf(
u8x ) , @calculatedFrom(""" ++ [128512]%N ++ runes_of_ascii """ // @lengthOf(
)
i16	Foo
@lengthOf(	string_
    )`doc`	, repeat	i64 metadata , @lengthOf( string_
) i8 // c
u  `line1
line2`	, ,
}
")).
Eval vm_compute in ("<<<M1510>>>" ++ check (runes_of_ascii "packet
//	t
// trailing space 
_x {
// packet A { u8 x, }
// c
char[
{
    ] u8x @lengthOf(
u8x ) , @calculatedFrom(""" ++ [128512]%N ++ runes_of_ascii """ // @lengthOf(
)
i16	Foo
@lengthOf(	string_
    )`doc`	, repeat	i64 metadata , @lengthOf( string_
) i8 // c
u  `line1
line2`	,
}
")).
Eval vm_compute in ("<<<M2034>>>" ++ check (runes_of_ascii "MetaData
    u { }  options {
// c
// @lengthOf(
float = int8 ;rootA =false ; As =	int16 // `tick` ""quote"" 'q'
repeatCount
    // trailing space 
    =
    int16
; u8x =
    //	t
    '\x00' ; } options	{
    repeatCount
= 0
u128
    //
    = false ;")).
Eval vm_compute in ("<<<M1597>>>" ++ check (runes_of_ascii "packet
//	t
// trailing space 
_x {
// packet A { u8 x, }
// c
char[
3
    ] u8x @lengthOf(
u8x ) , @calculatedFrom(""" ++ [128512]%N ++ runes_of_ascii """ // @lengthOf(
)
i16	Foo
@lengthOf(	string_
    )`doc`	, repeat	 metadata , @lengthOf( string_
) i8 // c
u  `line1
line2`	,
}
")).
Eval vm_compute in ("<<<M1567>>>" ++ check (runes_of_ascii "packet
//	t
// trailing space 
_x {
// packet A { u8 x, }
// c
char[
3
    ] u8x @lengthOf(
u8x ) , @calculatedFrom(""" ++ [128512]%N ++ runes_of_ascii """ // @lengthOf(
)
i16	Foo
	string_
    )`doc`	, repeat	i64 metadata , @lengthOf( string_
) i8 // c
u  `line1
line2`	,
}
")).
Eval vm_compute in ("<<<M3894>>>" ++ check (runes_of_ascii "options  {

    As
=
""1""	;
    matchKey =
0123456789	options1 =
0123456789
	; // a // b
	asx	// c

  =  ""CRC32""
;  tag

= 00

    ; }// trailing space 
	packet  matchKey {

@calculatedFrom(
    ""abc"")int32  repeatCount, } ")).
Eval vm_compute in ("<<<M1206>>>" ++ check (runes_of_ascii "packet body { As
    @lengthOf(	string_ ) `two words`	, zchar[ 10 ] i8i8@calculatedFrom( ""`tick`""),
zchar[ 0 ]
    pack
@calculatedFrom(
""x y"" ) ,uint8 rootA @calculatedFrom( ""a\\""), i32
    msg_type ,
    u8 repeatCount ,}")).
Eval vm_compute in ("<<<M4130>>>" ++ check (runes_of_ascii "packet _x {
    // packet A { u8 x, }
    // c
    char[3] u8x @lengthOf(u8x),
    @calculatedFrom(""" ++ [128512]%N ++ runes_of_ascii """)
    i16 Foo @lengthOf(string_),
    repeat i64 metadata,
    @lengthOf(string_)
    i8 u `line1
        line2`,
}")).
Eval vm_compute in ("<<<M1682>>>" ++ check (runes_of_ascii "options { trueish trueish = ""`tick`"" ; string_= """ ++ [233]%N ++ runes_of_ascii "t" ++ [233]%N ++ runes_of_ascii """
    // c
    } root
    packet body { stringy @calculatedFrom(
""a	b"" ) `line1
line2` , }
packet Logon {
    @leftPad(
    ' ' ) //	t
u16 string_ `u8 x,` ,
}
")).
Eval vm_compute in ("<<<M1845>>>" ++ check (runes_of_ascii "options { trueish = ""`tick`"" ; string_= """ ++ [233]%N ++ runes_of_ascii "t" ++ [233]%N ++ runes_of_ascii """
    // c
    } root
    packet body { stringy @calculatedFrom(
""a	b"" ) `line1
line2` , }
packet Logon {
    @leftPad(
    ' ' @tag ) //	t
u16 string_ `u8 x,` ,
}
")).
Eval vm_compute in ("<<<M1841>>>" ++ check (runes_of_ascii "options { trueish = ""`tick`"" ; string_= " ++ [233]%N ++ runes_of_ascii " """ ++ [233]%N ++ runes_of_ascii "t" ++ [233]%N ++ runes_of_ascii """
    // c
    } root
    packet body { stringy @calculatedFrom(
""a	b"" ) `line1
line2` , }
packet Logon {
    @leftPad(
    ' ' ) //	t
u16 string_ `u8 x,` ,
}
")).
Eval vm_compute in ("<<<M1708>>>" ++ check (runes_of_ascii "options { trueish = ""`tick`"" ; string_""" ++ [233]%N ++ runes_of_ascii "t" ++ [233]%N ++ runes_of_ascii """ =
    // c
    } root
    packet body { stringy @calculatedFrom(
""a	b"" ) `line1
line2` , }
packet Logon {
    @leftPad(
    ' ' ) //	t
u16 string_ `u8 x,` ,
}
")).
Eval vm_compute in ("<<<M1149>>>" ++ check (runes_of_ascii "MetaData // packet A { u8 x, }
lengthOf
{ msg_type
// `tick` ""quote"" 'q'
// " ++ [128512]%N ++ runes_of_ascii " emoji
metadata , float32 matchKey`" ++ [28040; 24687; 31867; 22411]%N ++ runes_of_ascii "`//
,
int32 body , zchar[ 0123456789
    ] uint8x  , float32 int , int16 body , } //	t")).
Eval vm_compute in ("<<<M4578>>>" ++ check (runes_of_ascii "// @lengthOf(
options {
}// c

root packet Packet {
    @calculatedFrom("""")
    x u128 `" ++ [28040; 24687; 31867; 22411]%N ++ runes_of_ascii "`,
}

options {
    msg_type = i16;
    packetx = false
    falsey = ""x y"";
    packetx = 1;
    As = true
}")).
Eval vm_compute in ("<<<M3534>>>" ++ check (runes_of_ascii "// top
packet // c0
Inner
    // c1
{ u8 a , // c5
} root packet // c8
P
    // c9
{ // c10
Inner
    // c11
ref_obj // c12
, // c13a
  // c13b
u8 // c14
x
    // c15
, // c16a
  // c16b
} // c17
")).
Eval vm_compute in ("<<<M4026>>>" ++ check (runes_of_ascii "options {
    FixedStringPadChar = '0';
}

packet Q {
    zchar[4] z,
    @rightPad('\x00')
    char[3] n,
    char[5] d,
}

root packet R {
    Q,
    zchar[8] top,
    repeat zchar[2] zs,
}")).
Eval vm_compute in ("<<<M3565>>>" ++ check (runes_of_ascii "// top
root
    // c0
packet // c1a
  // c1b
P { // c3
u16 // c4
a ,
    // c6
u32 Sum // c8
@calculatedFrom( // c9a
  // c9b
""CRC32"" // c10
) // c11a
  // c11b
, // c12
}
    // c13
")).
Eval vm_compute in ("<<<M4138>>>" ++ check (runes_of_ascii "options {
    packetx = ' '
}

root packet i64_ {
    string Foo,
    @tag(3)
    u128 @calculatedFrom(""\" ++ [233]%N ++ runes_of_ascii """) `
    `,
    repeat char[00] Logon,
    repeat crc lengthOf `a\`,
}")).
Eval vm_compute in ("<<<M1586>>>" ++ check (runes_of_ascii "packet
//	t
// trailing space 
_x {
// packet A { u8 x, }
// c
char[
3
    ] u8x @lengthOf(
u8x ) , @calculatedFrom(""" ++ [128512]%N ++ runes_of_ascii """ // @lengthOf(
)
i16	Foo
@lengthOf(	string_
    )")).
Eval vm_compute in ("<<<M4350>>>" ++ check (runes_of_ascii "root packet Header {
    match leftPad as Foo {
        // c
        7 : o,
        0 : u8x,
        65535 : leftPad,
        00 : asx,
        ""it's"" : o,
    },
}")).
Eval vm_compute in ("<<<M1016>>>" ++ check (runes_of_ascii "packet // c
Pad
{@calculatedFrom( ""1"" ) pack//
leftPad `doc` ,char[ /// triple
007 ] i8i8 @calculatedFrom( ""// no comment""  ),	} options//
{
pack  = '\x00';  }")).
Eval vm_compute in ("<<<M2155>>>" ++ check (runes_of_ascii "options{
_x
= true
} options
{ o	= /// triple
false
    ; chars
= ""\n"" } root root packet	Pad
/// triple
// packet A { u8 x, }
{	chars
    // a // b
    ,}")).
Eval vm_compute in ("<<<M3845>>>" ++ check (runes_of_ascii "root packet Foo {
    int32 tag `doc`,
    char[0] u8x `u8 x,`,
    charz charz,
    @rightPad(' ')
    @tag(3)
    @rightPad('0')
    repeat int16 float,
}")).
Eval vm_compute in ("<<<M2197>>>" ++ check (runes_of_ascii "options{
_x
= true
} options
{ o	= /// triple
false
    ; chars
= ""\n"" } root packet	Pad
/// triple
// packet A { u8 x, }
{	chars
    // a // b
    ," ++ [233]%N ++ runes_of_ascii " }")).
Eval vm_compute in ("<<<M2198>>>" ++ check (runes_of_ascii "options{
_x
= true
} options
{ o	= /// triple
f" ++ [233]%N ++ runes_of_ascii "alse
    ; chars
= ""\n"" } root packet	Pad
/// triple
// packet A { u8 x, }
{	chars
    // a // b
    ,}")).
Eval vm_compute in ("<<<M2136>>>" ++ check (runes_of_ascii "options{
_x
= true
} options
{ o	= /// triple
false
    ; =
chars ""\n"" } root packet	Pad
/// triple
// packet A { u8 x, }
{	chars
    // a // b
    ,}")).
Eval vm_compute in ("<<<M2157>>>" ++ check (runes_of_ascii "options{
_x
= true
} options
{ o	= /// triple
false
    ; chars
= ""\n"" } '0' packet	Pad
/// triple
// packet A { u8 x, }
{	chars
    // a // b
    ,}")).
Eval vm_compute in ("<<<M140>>>" ++ check (runes_of_ascii "packet Logon {
    stringy
crc	`crlf
line`
, T
@calculatedFrom( ""a\""b""
    ) // packet A { u8 x, }
`u8 x,` // " ++ [27880; 37322]%N ++ runes_of_ascii "
, }  options {	leftPad =  '\x00'}
")).
Eval vm_compute in ("<<<M4405>>>" ++ check (runes_of_ascii "packet A

{match k  as

    n{ 
[  ""a"",	""bb""

    ,
""c c""
    , ""d""
, ""e""
    ,""f""
	,

    ""g""

, ""h"" , ""i"" ]: B
, 2

    : C }
    ,
}

")).
Eval vm_compute in ("<<<M862>>>" ++ check (runes_of_ascii "MetaData
trueish { o charz `tab	here`	,}  MetaData int {zchar[	4294967296  ] a1 `say ""hi""` ,
}	options { charz
    //	t
    =	'0'  tag	=""abc""}")).
Eval vm_compute in ("<<<M3759>>>" ++ check (runes_of_ascii "packet A {
    match k as n {
        [
            1, 22, ""c c"", 4, 5,
            ""f"", 7, 8, ""i""
        ] : B,
        2 : C,
    },
}")).
Eval vm_compute in ("<<<M4351>>>" ++ check (runes_of_ascii "root packet metadata 	 // " ++ [128512]%N ++ runes_of_ascii " emoji
    {

    }

packet // c
      u

    {@leftPad  ( ) repeat 
char[

4294967296	]A  `a\`  ,
}")).
Eval vm_compute in ("<<<M1423>>>" ++ check (runes_of_ascii "
packet
    falsey { Header@calculatedFrom(""packet"" ""packet""  ) , char[
    0123456789 ] packetx
    , } // `tick` ""quote"" 'q'")).
Eval vm_compute in ("<<<M1438>>>" ++ check (runes_of_ascii "
packet
    falsey { Header@calculatedFrom(""packet""  ) , char[ char[
    0123456789 ] packetx
    , } // `tick` ""quote"" 'q'")).
Eval vm_compute in ("<<<M3318>>>" ++ check (runes_of_ascii "root packet matchKey { // c
zchar[ 3 ] pack @calculatedFrom( ""a	b"" ) `doc` , } options { } MetaData A { int8 msg_type , }")).
Eval vm_compute in ("<<<M3350>>>" ++ check (runes_of_ascii "root packet matchKey { zchar[ 3 ] pack @calculatedFrom( ""a	b"" ) `doc` , } options { } MetaData A { // c
int8 msg_type , }")).
Eval vm_compute in ("<<<M4454>>>" ++ check (runes_of_ascii "packet Logon {
    f32 _x,
}

MetaData u8x {
    float32 leftPad,
    tag leftPad `say ""hi""`,
    i16 tag `say ""hi""`,
}")).
Eval vm_compute in ("<<<M1430>>>" ++ check (runes_of_ascii "
packet
    falsey { Header@calculatedFrom(""packet""  ] , char[
    0123456789 ] packetx
    , } // `tick` ""quote"" 'q'")).
Eval vm_compute in ("<<<M4198>>>" ++ check (runes_of_ascii "MetaData u {
    BodyLength repeatCount,
}

options {
    string_ = false;
    i8i8 = 10;
}

root packet float {
}//")).
Eval vm_compute in ("<<<M1398>>>" ++ check (runes_of_ascii "

    falsey { Header@calculatedFrom(""packet""  ) , char[
    0123456789 ] packetx
    , } // `tick` ""quote"" 'q'")).
Eval vm_compute in ("<<<M466>>>" ++ check (runes_of_ascii "/// triple
MetaData	asx { roots x_y_z ,
calculatedFrom o ,
}
packet pack { roots
    // @lengthOf(
    , }
")).
Eval vm_compute in ("<<<M48>>>" ++ check (runes_of_ascii "  options { zchar =  007
Header =
char[// c
007 ] ;
    lengthOf= char[
7 ]; chars =//
"""" // a // b
;
}
")).
Eval vm_compute in ("<<<M205>>>" ++ check (runes_of_ascii "  root packet// " ++ [128512]%N ++ runes_of_ascii " emoji
o
    {
    @calculatedFrom( ""a\""b"" //x
) repeat crc ,	@tag( 10  )
x_y_z, }
")).
Eval vm_compute in ("<<<M1467>>>" ++ check (runes_of_ascii "
packet
    falsey { Header@calculatedFrom(""packet""  ) , char[
    0123456789 ] packetx
    , } // `")).
Eval vm_compute in ("<<<M4372>>>" ++ check (runes_of_ascii "

  packet	A
	{  match
	k

as  n { [  // a
  1 	 // b
    ,	// c
      2

    ]// d
	: 
B}

,}")).
Eval vm_compute in ("<<<M1536>>>" ++ check (runes_of_ascii "packet
//	t
// trailing space 
_x {
// packet A { u8 x, }
// c
char[
3
    ] u8x @lengthOf(
u8x")).
Eval vm_compute in ("<<<M3559>>>" ++ check (runes_of_ascii "options { 
FixedStringPadFromLeft	= true
	; }

    root	packet

P{
	char[4]
	z
    ,
    }
")).
Eval vm_compute in ("<<<M4251>>>" ++ check (runes_of_ascii "packet chars {
    i8 body @lengthOf(crc),
    repeat char[] zchar,
    body `
        `,
}")).
Eval vm_compute in ("<<<M2958>>>" ++ check (runes_of_ascii "packet A {
  match k as n {
    [1, 22, ""c c"", 4, 5, ""f"", 7, 8, ""i""] : B
    2 : C
  },
}")).
Eval vm_compute in ("<<<M3298>>>" ++ check (runes_of_ascii "MetaData float { float64 charz `
` , } root packet chars { @rightPad ( '0'
// c
) Foo , }")).
Eval vm_compute in ("<<<M3509>>>" ++ check (runes_of_ascii "packet chars { } packet MetaDataX { @tag( 42 ) i16 string_ , // c
repeat x `say ""hi""` , }")).
Eval vm_compute in ("<<<M2941>>>" ++ check (runes_of_ascii "packet A {
  match k as n {
    [1, ""bb"", 007, ""d"", 5, ""f"", 7, ""h""] : B
    2 : C
  },
}")).
Eval vm_compute in ("<<<M129>>>" ++ check (runes_of_ascii "MetaData
    charz { } packet
    // " ++ [27880; 37322]%N ++ runes_of_ascii "
    matchKey {
    a1
    repeatCount
    , }
")).
Eval vm_compute in ("<<<M3217>>>" ++ check (runes_of_ascii "packet metadata { // c
Logon { A `" ++ [28040; 24687; 31867; 22411]%N ++ runes_of_ascii "` , tag o , } , zchar len `// not a comment` , }")).
Eval vm_compute in ("<<<M3466>>>" ++ check (runes_of_ascii "packet o { repeat Logon uint8x , } options { asx = zchar[ 3 ] stringy = '\x00' }
// c
")).
Eval vm_compute in ("<<<M3440>>>" ++ check (runes_of_ascii "packet o { repeat Logon uint8x
// c
, } options { asx = zchar[ 3 ] stringy = '\x00' }")).
Eval vm_compute in ("<<<M2920>>>" ++ check (runes_of_ascii "packet A {
  match k as n {
    [""a"", ""bb"", 007, ""d"", ""e"", 66] : B,
    2 : C
  },
}")).
Eval vm_compute in ("<<<M369>>>" ++ check (runes_of_ascii "MetaData repeatCount
    {
    } options { // packet A { u8 x, }
}
// @lengthOf(
")).
Eval vm_compute in ("<<<M3415>>>" ++ check (runes_of_ascii "MetaData body { i64 pack `it's` , } packet stringy {
// c
int16 calculatedFrom , }")).
Eval vm_compute in ("<<<M684>>>" ++ check (runes_of_ascii "packet u128{ zchar[ 00 ]
// a // b
// packet A { u8 x, }
f32a
// " ++ [128512]%N ++ runes_of_ascii " emoji
//
, }
")).
Eval vm_compute in ("<<<M4490>>>" ++ check (runes_of_ascii "

  packet// c

  x

{
	@rightPad

(
    )
	repeat  roots
    Logon `doc` , } ")).
Eval vm_compute in ("<<<M566>>>" ++ check (runes_of_ascii "packet
    o{  stringy
@calculatedFrom( ""a	b"" // packet A { u8 x, }
),
}")).
Eval vm_compute in ("<<<M3044>>>" ++ check (runes_of_ascii "packet A {
    B b `tab
	x`,
    B `tab
	x`,
    repeat B bs `tab
	x`,
}")).
Eval vm_compute in ("<<<M231>>>" ++ check (runes_of_ascii "MetaData/// triple
float {	f64
    // trailing space 
    u8x
`
` ,	}")).
Eval vm_compute in ("<<<M3695>>>" ++ check (runes_of_ascii "packet x {
    @rightPad()
    // c
    repeat roots Logon `doc`,
}")).
Eval vm_compute in ("<<<M2738>>>" ++ check (runes_of_ascii "i16 0 char[ repeat zchar[ i64 : repeat `tab	here` as int8 { root")).
Eval vm_compute in ("<<<M2867>>>" ++ check (runes_of_ascii "packet A {
  match k as n {
    [1, ""bb""] : B
    2 : C
  },
}")).
Eval vm_compute in ("<<<M2896>>>" ++ check (runes_of_ascii "packet A { Inner { match k as n { [1,22,007,4] : B, }, }, }")).
Eval vm_compute in ("<<<M3374>>>" ++ check (runes_of_ascii "packet x { @rightPad (
// c
) repeat roots Logon `doc` , }")).
Eval vm_compute in ("<<<M1899>>>" ++ check (runes_of_ascii "MetaData
    u { }  options {
// c
// @lengthOf(
float =")).
Eval vm_compute in ("<<<M2270>>>" ++ check (runes_of_ascii "options
{ } options { BodyLength= u16 Header= f64 ;")).
Eval vm_compute in ("<<<M4577>>>" ++ check (runes_of_ascii "

  packet  /// triple
  packetx

    {}// " ++ [27880; 37322]%N ++ runes_of_ascii "
")).
Eval vm_compute in ("<<<M1034>>>" ++ check (runes_of_ascii "MetaData charz {calculatedFrom leftPad
    ,}
")).
Eval vm_compute in ("<<<M1244>>>" ++ check (runes_of_ascii "MetaData msg_type { zchar[ 65535 ] pack
,}
")).
Eval vm_compute in ("<<<M4545>>>" ++ check (runes_of_ascii "root packet A {
    u8 x `a
        b`,
}")).
Eval vm_compute in ("<<<M3196>>>" ++ check (runes_of_ascii "root packet u128 {
// c
chars `it's` , }")).
Eval vm_compute in ("<<<M2619>>>" ++ check (runes_of_ascii "packet A { match k as n { '0' : B }, }")).
Eval vm_compute in ("<<<M3019>>>" ++ check (runes_of_ascii "packet A {
    u8 x `a
    b
  c`,
}")).
Eval vm_compute in ("<<<M437>>>" ++ check (runes_of_ascii "packet // a // b
int{ } // a // b")).
Eval vm_compute in ("<<<M2774>>>" ++ check (runes_of_ascii "= @calculatedFrom( i16 true char[")).
Eval vm_compute in ("<<<M773>>>" ++ check (runes_of_ascii "MetaData T{
int64	i8i8 `` , }

")).
Eval vm_compute in ("<<<M3087>>>" ++ check (runes_of_ascii "packet A {
 u8 x `d" ++ [8192]%N ++ runes_of_ascii "`, // c" ++ [8192]%N ++ runes_of_ascii "
}")).
Eval vm_compute in ("<<<M1700>>>" ++ check (runes_of_ascii "options { trueish = ""`tick`""")).
Eval vm_compute in ("<<<M3149>>>" ++ check (runes_of_ascii "packet A {
}// a// b// c
")).
Eval vm_compute in ("<<<M2622>>>" ++ check (runes_of_ascii "packet A { @tag() u8 x, }")).
Eval vm_compute in ("<<<M2668>>>" ++ check (runes_of_ascii "options { options = 1; }")).
Eval vm_compute in ("<<<M3735>>>" ++ check (runes_of_ascii "// a
// b
packet A {
}")).
Eval vm_compute in ("<<<M2667>>>" ++ check (runes_of_ascii "options { a = [1]; }")).
Eval vm_compute in ("<<<M2771>>>" ++ check (runes_of_ascii "W" ++ [23; 65533]%N ++ runes_of_ascii "-" ++ [65533; 65533; 65533]%N ++ runes_of_ascii ">Dv" ++ [65533; 65533; 65533]%N ++ runes_of_ascii "~>Z" ++ [65533; 65533; 65533]%N)).
Eval vm_compute in ("<<<M3075>>>" ++ check (runes_of_ascii "packet A {
}
// c" ++ [133]%N)).
Eval vm_compute in ("<<<M194>>>" ++ check (runes_of_ascii "root
packet u{}
")).
Eval vm_compute in ("<<<M4019>>>" ++ check (runes_of_ascii "packet falsey {
}")).
Eval vm_compute in ("<<<M536>>>" ++ check (runes_of_ascii "packet _x	{ }
")).
Eval vm_compute in ("<<<M2559>>>" ++ check (runes_of_ascii """" ++ [233]%N ++ runes_of_ascii """ `" ++ [21517]%N ++ runes_of_ascii "` // " ++ [252]%N)).
Eval vm_compute in ("<<<M2482>>>" ++ check (runes_of_ascii "@leftPad(")).
Eval vm_compute in ("<<<M2462>>>" ++ check (runes_of_ascii "packets")).
Eval vm_compute in ("<<<M2338>>>" ++ check (runes_of_ascii "// c
")).
Eval vm_compute in ("<<<M3109>>>" ++ check (runes_of_ascii "// c" ++ [8287]%N)).
Eval vm_compute in ("<<<M2682>>>" ++ check (runes_of_ascii "
	 ")).
Eval vm_compute in ("<<<M2552>>>" ++ check (runes_of_ascii "a" ++ [8232]%N ++ runes_of_ascii "b")).
Eval vm_compute in ("<<<M2826>>>" ++ check (runes_of_ascii "Yn")).
